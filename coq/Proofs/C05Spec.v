(* C05: the model satisfies the property AS WRITTEN FROM THE TEXT.
   A simulation between the abstract tuple -> child ledger of Spec/SpecC05.v (tuples compared by
   equality) and the world model (children keyed by FNV-1a-64 of the hashed bytes), preserved by
   every operation of the scenario language, under the executable hypothesis that the tuples
   requested in the scenario have pairwise distinct keys unless equal. *)
Require Import PV.Base.Prelude PV.Base.Utf8 PV.Base.Fnv PV.Base.F64 PV.Base.StrFacts PV.Base.SortFacts PV.Base.Utf8Facts.
Require Import PV.Model.Proto PV.Model.Desc PV.Model.Value PV.Model.Hist PV.Model.Vec PV.Model.Registry PV.Model.World.
Require Import PV.Proofs.DescFacts PV.Proofs.C05Facts PV.Proofs.HistFacts PV.Spec.SpecC05.
Require PV.Proofs.C12More PV.Spec.SpecC12 PV.Proofs.C12Spec.
From Coq Require Import Permutation Sorting.Sorted.
Open Scope N_scope.

(* ================= 0. small facts ================= *)
Lemma list_eqb_eq {A} (e : A -> A -> bool) (He : forall x y, e x y = true <-> x = y) a b : list_eqb e a b = true <-> a = b.
Proof.
  revert b; induction a as [|x a IH]; intros [|y b]; cbn [list_eqb]; try (split; [discriminate|discriminate]); [tauto|].
  rewrite andb_true_iff, He, IH. split; [intros [-> ->]; reflexivity|intros E; inversion E; auto].
Qed.
Lemma tuple_eqb_eq a b : tuple_eqb a b = true <-> a = b.
Proof. apply list_eqb_eq. apply str_eqb_eq. Qed.
Lemma tuple_eqb_refl a : tuple_eqb a a = true.
Proof. apply tuple_eqb_eq; reflexivity. Qed.
Lemma f64_eqb_refl x : f64_eqb x x = true.
Proof. unfold f64_eqb. apply N.eqb_refl. Qed.
Lemma numval_eqb_refl v : numval_eqb v v = true.
Proof. destruct v; cbn; [apply f64_eqb_refl|apply N.eqb_refl|apply Z.eqb_refl]. Qed.

Lemma lps_eqb_refl (l : list LabelPair) : list_eqb lp_eqb l l = true.
Proof. induction l as [|a l IH]; cbn; auto. unfold lp_eqb at 1. rewrite !str_eqb_refl, IH. reflexivity. Qed.

Definition hk (t : list str) : N := fnv1a (label_values_preimage t).
Definition key0 : list str -> N := fun _ => 0.
Definition same0 (a b : list str * N) : bool := tuple_eqb (fst a) (fst b).

Lemma spec_c05_unfold ops obs :
  spec_c05 ops obs = match walk key0 same0 st0 ops obs with Some _ => true | None => false end.
Proof. reflexivity. Qed.

(* ---- the map form of the spec is the map form of the model ---- *)
Lemma alookup_app_none {V} n (m e : list (str * V)) : alookup n m = None -> alookup n (m ++ e) = alookup n e.
Proof. induction m as [|[k v] m IH]; cbn; auto. destruct (str_eqb n k); [discriminate|auto]. Qed.
Lemma alookup_app_some {V} n (m e : list (str * V)) v : alookup n m = Some v -> alookup n (m ++ e) = Some v.
Proof. induction m as [|[k x] m IH]; cbn; [discriminate|]. destruct (str_eqb n k); auto. Qed.
Lemma alookup_map_repl {V} n k (v : V) m :
  alookup n (map (fun kv => if str_eqb k (fst kv) then (fst kv, v) else kv) m)
  = option_map (fun y => if str_eqb k n then v else y) (alookup n m).
Proof.
  induction m as [|[k' v'] m IH]; cbn [map alookup fst option_map]; [reflexivity|].
  destruct (str_eqb k k') eqn:Ekk; cbn [alookup fst]; destruct (str_eqb n k') eqn:Enk; auto; cbn [option_map].
  - apply str_eqb_eq in Enk. subst k'. rewrite Ekk. reflexivity.
  - apply str_eqb_eq in Enk. subst k'. rewrite Ekk. reflexivity.
Qed.
Lemma alookup_ainsert {V} n k (v : V) m : alookup n (ainsert k v m) = if str_eqb n k then Some v else alookup n m.
Proof.
  unfold ainsert. destruct (alookup k m) as [x|] eqn:E.
  - rewrite alookup_map_repl. destruct (str_eqb n k) eqn:Enk.
    + apply str_eqb_eq in Enk. subst n. rewrite E. cbn. rewrite str_eqb_refl. reflexivity.
    + rewrite str_eqb_sym, Enk. destruct (alookup n m); reflexivity.
  - destruct (alookup n m) as [y|] eqn:En.
    + rewrite (alookup_app_some _ _ _ _ En). destruct (str_eqb n k) eqn:Enk; auto.
      apply str_eqb_eq in Enk. subst n. congruence.
    + rewrite (alookup_app_none _ _ _ En). cbn. destruct (str_eqb n k); reflexivity.
Qed.
Lemma last_binding_amap n kvs : forall m,
  alookup n (fold_left (fun m kv => ainsert (fst kv) (snd kv) m) kvs m) = last_binding n kvs (alookup n m).
Proof.
  induction kvs as [|[k v] kvs IH]; intros m; cbn [fold_left last_binding fst snd]; [reflexivity|].
  rewrite IH, alookup_ainsert. reflexivity.
Qed.
Lemma read_all_vido names kvs : read_all names kvs = values_in_declared_order names (amap_of kvs).
Proof.
  induction names as [|n names IH]; cbn [read_all values_in_declared_order]; [reflexivity|].
  unfold amap_of at 1. rewrite last_binding_amap. cbn [alookup]. rewrite IH.
  destruct (last_binding n kvs None); reflexivity.
Qed.
Lemma distinct_keys_amap kvs : forall (m : list (str * str)) seen,
  (forall x, mem_str x seen = mem_str x (map fst m)) -> length seen = length m ->
  distinct_keys kvs seen = length (fold_left (fun m kv => ainsert (fst kv) (snd kv) m) kvs m).
Proof.
  induction kvs as [|[k v] kvs IH]; intros m seen Hm Hl; cbn [distinct_keys fold_left fst snd]; [exact Hl|].
  pose proof (ainsert_keys k v m) as Hk. rewrite (Hm k).
  destruct (mem_str k (map fst m)) eqn:E.
  - apply IH.
    + intros x. rewrite Hk. apply Hm.
    + rewrite <- (map_length fst (ainsert k v m)), Hk, map_length. exact Hl.
  - apply IH.
    + intros x. rewrite Hk. cbn [mem_str]. rewrite Hm.
      assert (G : forall l, mem_str x (l ++ [k]) = mem_str x l || str_eqb x k).
      { induction l as [|y l IHl]; cbn [app mem_str]; [rewrite orb_false_r; reflexivity|]. rewrite IHl, orb_assoc. reflexivity. }
      rewrite G. apply orb_comm.
    + rewrite <- (map_length fst (ainsert k v m)), Hk, app_length, map_length. cbn [length]. lia.
Qed.
(* the tuple a map request denotes according to the text = what hash_labels reads *)
Lemma map_tuple_hash_labels d kvs :
  map_tuple (d_vars d) kvs = match hash_labels d (amap_of kvs) with Ok (_, vs) => Some vs | Err _ => None end.
Proof.
  unfold map_tuple, hash_labels.
  assert (E : distinct_keys kvs [] = length (amap_of kvs)) by (apply distinct_keys_amap; auto).
  rewrite E. unfold lenN. rewrite read_all_vido.
  destruct (Nat.eqb (length (amap_of kvs)) (length (d_vars d))) eqn:El.
  - apply Nat.eqb_eq in El. rewrite El, N.eqb_refl. cbn [negb].
    destruct (values_in_declared_order (d_vars d) (amap_of kvs)); reflexivity.
  - apply Nat.eqb_neq in El. destruct (N.eqb_spec (N.of_nat (length (amap_of kvs))) (N.of_nat (length (d_vars d)))) as [E'|E'].
    + apply Nat2N.inj in E'. contradiction.
    + reflexivity.
Qed.

(* ================= 1. list machinery ================= *)
Lemma Forall2_nth_error_l {A B} (P : A -> B -> Prop) l1 l2 i a : Forall2 P l1 l2 -> nth_error l1 i = Some a ->
  exists b, nth_error l2 i = Some b /\ P a b.
Proof. intros H; revert i; induction H; intros [|i] E; cbn in *; try discriminate; [inversion E; subst; eauto|eauto]. Qed.
Lemma Forall2_nth_error_none {A B} (P : A -> B -> Prop) l1 l2 i : Forall2 P l1 l2 -> nth_error l1 i = None -> nth_error l2 i = None.
Proof. intros H; revert i; induction H; intros [|i] E; cbn in *; try discriminate; auto. Qed.
Lemma Forall2_upd {A B} (P : A -> B -> Prop) g g' l1 l2 i : Forall2 P l1 l2 ->
  (forall a b, nth_error l1 i = Some a -> nth_error l2 i = Some b -> P a b -> P (g a) (g' b)) ->
  Forall2 P (upd_nth l1 i g) (upd l2 i g').
Proof.
  intros H; revert i; induction H as [|a b l1 l2 Hab H IH]; intros i Hg.
  - destruct i; constructor.
  - destruct i as [|i]; unfold upd; cbn [upd_nth nth_error list_set].
    + constructor; auto.
    + specialize (IH i (fun a0 b0 Ea Eb => Hg a0 b0 Ea Eb)). unfold upd in IH.
      destruct (nth_error l2 i) as [y|] eqn:E; cbn [list_set]; constructor; auto.
Qed.
Lemma Forall2_list_set {A B} (P : A -> B -> Prop) l1 l2 i a b : Forall2 P l1 l2 -> P a b ->
  Forall2 P (list_set l1 i a) (list_set l2 i b).
Proof. intros H; revert i; induction H; intros [|i] Hab; cbn [list_set]; constructor; auto. Qed.
Lemma Forall2_impl {A B} (P Q : A -> B -> Prop) l1 l2 : (forall a b, P a b -> Q a b) -> Forall2 P l1 l2 -> Forall2 Q l1 l2.
Proof. intros H F; induction F; constructor; auto. Qed.
Lemma Forall2_length {A B} (P : A -> B -> Prop) l1 l2 : Forall2 P l1 l2 -> length l1 = length l2.
Proof. induction 1; cbn; auto. Qed.
Lemma Forall2_snoc {A B} (P : A -> B -> Prop) l1 l2 a b : Forall2 P l1 l2 -> P a b -> Forall2 P (l1 ++ [a]) (l2 ++ [b]).
Proof. intros H Hab. apply Forall2_app; auto. Qed.
Lemma list_set_nth_same {A} (l : list A) i d : list_set l i (nth i l d) = l.
Proof. revert i; induction l as [|x l IH]; intros [|i]; cbn; auto. rewrite IH. reflexivity. Qed.
Lemma upd_nth_length {A} (l : list A) i f : length (upd_nth l i f) = length l.
Proof. revert i; induction l as [|x l IH]; intros [|i]; cbn; auto. Qed.

Lemma nremove_notin {V} h (l : list (N * V)) : ~ In h (map fst l) -> nremove h l = l.
Proof.
  induction l as [|[k v] l IH]; cbn; auto. intros H. destruct (N.eqb_spec h k) as [->|E]; [exfalso; auto|].
  rewrite IH; auto.
Qed.

(* the children map the ledger predicts: one entry per exported child, in creation order *)
Fixpoint live_entries (kids : list child) (n : nat) : list (N * nat) :=
  match kids with
  | [] => []
  | c :: r => if c_live c then (hk (c_tuple c), n) :: live_entries r (S n) else live_entries r (S n)
  end.
Lemma live_entries_app a b n : live_entries (a ++ b) n = live_entries a n ++ live_entries b (length a + n).
Proof.
  revert n; induction a as [|c a IH]; intros n; cbn [app live_entries length]; [reflexivity|].
  rewrite IH. replace (length a + S n)%nat with (S (length a + n))%nat by lia. destruct (c_live c); reflexivity.
Qed.
Definition kill (c : child) : child := mkChild (c_vec c) (c_tuple c) (c_key c) false (c_val c) (c_obs c) (c_sum c).
Lemma live_entries_snd kids n x : In x (map snd (live_entries kids n)) -> (n <= x)%nat.
Proof.
  revert n; induction kids as [|c r IH]; intros n; cbn [live_entries]; [intros []|].
  destruct (c_live c); cbn [map In snd]; [intros [<-|H]; [lia|]|intros H]; apply IH in H; lia.
Qed.
Lemma live_entries_kill kids : forall n j c, NoDup (map fst (live_entries kids n)) ->
  nth_error kids j = Some c -> c_live c = true ->
  live_entries (upd_nth kids j kill) n = nremove (hk (c_tuple c)) (live_entries kids n).
Proof.
  induction kids as [|c0 r IH]; intros n j c N E L; [destruct j; discriminate|].
  destruct j as [|j]; cbn [nth_error] in E; cbn [upd_nth live_entries].
  - inversion E; subst c0. cbn [live_entries] in N. rewrite L in *. cbn [kill c_live nremove]. rewrite N.eqb_refl.
    cbn [map fst] in N. inversion N; subst. symmetry. apply nremove_notin. auto.
  - cbn [live_entries] in N. destruct (c_live c0) eqn:L0.
    + cbn [map fst] in N. inversion N; subst. cbn [nremove].
      destruct (N.eqb_spec (hk (c_tuple c)) (hk (c_tuple c0))) as [Eh|Eh].
      * exfalso. apply H1. rewrite <- Eh. clear - E L.
        revert j n E; induction r as [|c1 r IHr]; intros [|j] n E; cbn in E; try discriminate.
        -- inversion E; subst. cbn [live_entries]. rewrite L. left. reflexivity.
        -- cbn [live_entries]. destruct (c_live c1); [right|]; eapply IHr; eauto.
      * f_equal. eapply IH; eauto.
    + eapply IH; eauto.
Qed.
Lemma live_entries_all_dead kids n : live_entries (map kill kids) n = [].
Proof. revert n; induction kids as [|c r IH]; intros n; cbn; auto. Qed.

Section FindLive.
  Variable T : list (list str).
  Hypothesis Hinj : forall a b, In a T -> In b T -> hk a = hk b -> a = b.

  (* first exported child with the tuple  =  first entry with the tuple's key *)
  Lemma find_live_nlookup t : In t T -> forall kids n,
    Forall (fun c => c_vec c = O /\ In (c_tuple c) T) kids ->
    match find_live same0 O (t, 0) kids n with
    | Some (i, c) => nlookup (hk t) (live_entries kids n) = Some i /\ (n <= i)%nat
                     /\ nth_error kids (i - n) = Some c /\ c_tuple c = t /\ c_live c = true
    | None => nlookup (hk t) (live_entries kids n) = None
    end.
  Proof.
    intros Ht. induction kids as [|c r IH]; intros n F; cbn [find_live live_entries nlookup]; [reflexivity|].
    inversion F as [|? ? [Hv Hc] F']; subst. rewrite Hv. cbn [Nat.eqb andb]. unfold same0 at 1. cbn [fst].
    destruct (c_live c) eqn:L; cbn [andb].
    - destruct (tuple_eqb (c_tuple c) t) eqn:E.
      + apply tuple_eqb_eq in E. subst t. cbn [nlookup]. rewrite N.eqb_refl, Nat.sub_diag. cbn. auto.
      + cbn [nlookup]. destruct (N.eqb_spec (hk t) (hk (c_tuple c))) as [Eh|Eh].
        * apply Hinj in Eh; auto. subst t. rewrite tuple_eqb_refl in E. discriminate.
        * specialize (IH (S n) F'). destruct (find_live same0 O (t, 0) r (S n)) as [[i c']|]; auto.
          destruct IH as (A & B & C & D). split; auto. split; [lia|]. replace (i - n)%nat with (S (i - S n)) by lia. auto.
    - specialize (IH (S n) F'). destruct (find_live same0 O (t, 0) r (S n)) as [[i c']|]; auto.
      destruct IH as (A & B & C & D). split; auto. split; [lia|]. replace (i - n)%nat with (S (i - S n)) by lia. auto.
  Qed.
End FindLive.

Lemma sort_by_app {A} (leb : A -> A -> bool) (a b : list A) :
  sort_by leb (a ++ b) = fold_right (insert_by leb) (sort_by leb b) a.
Proof. unfold sort_by. apply fold_right_app. Qed.

(* ---- the scenario language ---- *)
Definition flavour (v : numval) : numkind := match v with VF _ => NF | VU _ => NU | VI _ => NI end.
Definition numkind_eqb (a b : numkind) : bool :=
  match a, b with NF, NF | NU, NU | NI, NI => true | _, _ => false end.
Lemma numkind_eqb_eq a b : numkind_eqb a b = true -> a = b.
Proof. destruct a, b; cbn; congruence. Qed.
(* the label-value tuples an operation names *)
Definition op_tuples (names : list str) (o : op) : list (list str) :=
  match o with
  | OpWith _ t | OpRemove _ t | OpLvInc _ t _ | OpLvObserve _ t _ | OpLvRemove _ t => [t]
  | OpWithMap _ kvs | OpRemoveMap _ kvs => match map_tuple names kvs with Some t => [t] | None => [] end
  | _ => []
  end.
(* operations on a counter / gauge vector scenario *)
Definition allowed_value (nk : numkind) (o : op) : bool :=
  match o with
  | OpWith _ _ | OpWithMap _ _ | OpRemove _ _ | OpRemoveMap _ _ | OpReset _
  | OpInc _ | OpIncBy _ _ | OpDec _ | OpAdd _ _ | OpSub _ _ | OpSet _ _
  | OpGet _ | OpCollect _ | OpClone _ | OpFlush _ | OpLvRemove _ _ => true
  | OpLocal sl => Nat.eqb sl O
  | OpDrop sl => negb (Nat.eqb sl O)
  | OpLvInc _ _ d => numkind_eqb (flavour d) nk
  | _ => false
  end.

(* ================= 2. counter / gauge vectors: the simulation ================= *)
Section SimValue.
  Variable T : list (list str).
  Variable info : vinfo.
  Variable desc : Desc.
  Variable tk : valtype.
  Variable nk : numkind.
  Hypothesis Hinj : forall a b, In a T -> In b T -> hk a = hk b -> a = b.
  Hypothesis Hnames : d_vars desc = vi_names info.
  Hypothesis Hconst : d_const_pairs desc = sort_by lp_leb (map (fun kv => mkLP (fst kv) (snd kv)) (vi_consts info)).
  Hypothesis Hkind : vi_kind info = match tk with VCounter => KCounter nk | VGauge => KGauge nk end.

  Lemma labels_eq t : expected_labels info t = child_labels desc t.
  Proof.
    unfold expected_labels, child_labels, declared_pairs. rewrite Hnames, Hconst.
    change (fun a b : LabelPair => str_leb (lp_name a) (lp_name b)) with lp_leb.
    rewrite !sort_by_app. f_equal. symmetry.
    apply sort_by_sorted_id. apply sort_by_sorted; [apply lp_leb_total|apply lp_leb_trans].
  Qed.
  Lemma kind_zero_eq : kind_zero (vi_kind info) = num_zero nk.
  Proof. rewrite Hkind. destruct tk; reflexivity. Qed.
  Lemma kind_mtype_eq : kind_mtype (vi_kind info) = valtype_mtype tk.
  Proof. rewrite Hkind. destruct tk; reflexivity. Qed.

  (* a ledger entry and the value cell of the same index *)
  Definition crelv (c : child) (x : vcore) : Prop :=
    vc_val x = c_val c /\ vc_labels x = child_labels desc (c_tuple c) /\ vc_type x = tk /\ c_vec c = O /\ In (c_tuple c) T.
  (* a local vector's cache: same entries, keyed by the tuple on one side and by its hash on the other *)
  Definition erel (e : centry) (we : N * (nat * numval)) : Prop :=
    let '(t, k, c, p, po) := e in we = (hk t, (c, p)) /\ In t T.
  Definition crel (cache : list centry) (wc : list (N * (nat * numval))) : Prop :=
    Forall2 erel cache wc /\ NoDup (map fst wc).
  Inductive srel (n : nat) : sent -> handle -> Prop :=
  | SR_none : srel n SNone HDead
  | SR_vec : srel n (SVec O) (HVec O)
  | SR_child i : (i < n)%nat -> srel n (SChild i) (HValue i)
  | SR_local cache wc : crel cache wc -> srel n (SLocal O cache) (HLocalCounterVec O wc).
  Lemma srel_mono n n' e h : (n <= n')%nat -> srel n e h -> srel n' e h.
  Proof. intros L H. destruct H; constructor; auto. lia. Qed.

  Record R (s : st) (w : world) : Prop := mkR {
    R_vecs : s_vecs s = [info];
    R_vec : exists vc, w_vec w = [vc] /\ v_desc vc = desc /\ v_kind vc = VKValue tk nk /\ coherent vc
                       /\ v_children vc = live_entries (s_kids s) O;
    R_nodup : NoDup (map fst (live_entries (s_kids s) O));
    R_kids : Forall2 crelv (s_kids s) (w_v w);
    R_slots : Forall2 (srel (length (s_kids s))) (s_slots s) (w_slots w);
    R_slot0 : nth_error (s_slots s) O = Some (SVec O) }.

  Lemma ent_srel s w sl : R s w -> srel (length (s_kids s)) (ent s sl) (slot w sl).
  Proof.
    intros H. unfold ent, slot. destruct (nth_error (s_slots s) sl) as [e|] eqn:E.
    - destruct (Forall2_nth_error_l _ _ _ _ _ (R_slots _ _ H) E) as (h & Eh & Hr).
      rewrite (nth_error_nth _ _ _ E), (nth_error_nth _ _ _ Eh). exact Hr.
    - pose proof (Forall2_nth_error_none _ _ _ _ (R_slots _ _ H) E) as Eh.
      rewrite (nth_overflow _ _ (proj1 (nth_error_None _ _) E)), (nth_overflow _ _ (proj1 (nth_error_None _ _) Eh)). constructor.
  Qed.
  Lemma R_raise s w b : R s w -> R (raise s b) w.
  Proof. intros [A B C D E F]. constructor; auto. Qed.
  Lemma R_push s w e h : R s w -> srel (length (s_kids s)) e h -> R (push s e) (push_slot w h).
  Proof.
    intros [A B C D E F] Hr. constructor; cbn [push push_slot set_slots s_vecs s_kids s_slots w_vec w_v w_slots]; auto.
    - apply Forall2_snoc; auto.
    - destruct (s_slots s); [discriminate|exact F].
  Qed.
  Lemma R_set_slot s w sl cache e h : R s w -> ent s sl = SLocal O cache -> srel (length (s_kids s)) e h ->
    R (set_slot s sl e) (put_slot w sl h).
  Proof.
    intros [A B C D E F] Hs Hr. constructor; cbn [set_slot put_slot set_slots s_vecs s_kids s_slots w_vec w_v w_slots]; auto.
    - apply Forall2_list_set; auto.
    - destruct sl as [|sl]; [|destruct (s_slots s); [discriminate|exact F]].
      unfold ent in Hs. rewrite (nth_error_nth _ _ _ F) in Hs. discriminate.
  Qed.

  Lemma R_drop_slot s w sl e h : R s w -> sl <> O -> srel (length (s_kids s)) e h -> R (set_slot s sl e) (put_slot w sl h).
  Proof.
    intros [A B C D E F] Hs Hr. constructor; cbn [set_slot put_slot set_slots s_vecs s_kids s_slots w_vec w_v w_slots]; auto.
    - apply Forall2_list_set; auto.
    - destruct sl as [|sl]; [congruence|]. destruct (s_slots s); [discriminate|exact F].
  Qed.
  Lemma R_drop_none s w sl : R s w -> ent s sl = SNone -> R (set_slot s sl SNone) w.
  Proof.
    intros [A B C D E F] Hs. unfold ent in Hs.
    constructor; cbn [set_slot s_vecs s_kids s_slots]; auto; rewrite <- Hs, list_set_nth_same; auto.
  Qed.

  (* ---- lookup-or-create ---- *)
  Lemma request_sim s w t : R s w -> In t T -> length t = length (vi_names info) ->
    exists i w', vec_get_or_create w O (hk t) t = Ok (w', HValue i)
      /\ snd (request same0 s O info (keyed key0 t)) = i
      /\ R (fst (request same0 s O info (keyed key0 t))) w'
      /\ s_slots (fst (request same0 s O info (keyed key0 t))) = s_slots s /\ w_slots w' = w_slots w
      /\ (i < length (s_kids (fst (request same0 s O info (keyed key0 t)))))%nat
      /\ (length (s_kids s) <= length (s_kids (fst (request same0 s O info (keyed key0 t)))))%nat.
  Proof.
    intros HR Ht Hl. unfold keyed, key0. destruct HR as [A (vc & Ev & Ed & Ek & Co & Ech) Nd Kd Sl S0].
    assert (F : Forall (fun c => c_vec c = O /\ In (c_tuple c) T) (s_kids s)).
    { clear - Kd. induction Kd as [|c x l1 l2 H]; constructor; auto. destruct H as (_ & _ & _ & ? & ?). auto. }
    pose proof (find_live_nlookup T Hinj t Ht (s_kids s) O F) as FL.
    unfold request. unfold vec_get_or_create. rewrite Ev. cbn [nth_error]. rewrite Ech.
    destruct (find_live same0 O (t, 0) (s_kids s) O) as [[i c]|].
    - destruct FL as (Hl1 & _ & Hn & Hc & Hlive). rewrite Hl1. unfold child_handle. rewrite Ek.
      exists i, w. cbn [fst snd]. split; [reflexivity|]. split; [reflexivity|]. split.
      { apply R_raise. constructor; eauto 10. }
      split; [reflexivity|]. split; [reflexivity|]. cbn [raise s_kids]. split; [|lia].
      rewrite Nat.sub_0_r in Hn. apply nth_error_Some. congruence.
    - rewrite FL.
      assert (Ld : length t = length (d_vars (v_desc vc))) by (rewrite Ed, Hnames; exact Hl).
      rewrite (build_child_value_ok w vc t tk nk Ek Co Ld).
      eexists _, _. cbn [fst snd]. split; [reflexivity|]. split; [apply (Forall2_length _ _ _ Kd)|]. split.
      { constructor; cbn [set_kids set_vec set_v s_vecs s_kids s_slots w_vec w_v w_slots]; auto.
        - rewrite Ev. cbn [list_set]. eexists. split; [reflexivity|]. cbn [vec_set_children v_desc v_kind v_children]. split; [exact Ed|]. split; [exact Ek|].
          split; [exact Co|]. rewrite live_entries_app. cbn [live_entries c_live c_tuple]. rewrite Nat.add_0_r.
          rewrite (Forall2_length _ _ _ Kd). reflexivity.
        - rewrite live_entries_app, map_app. cbn [live_entries c_live c_tuple map fst]. apply NoDup_app_intro; auto.
          + constructor; [intros []|constructor].
          + intros x [<-|[]]. apply nlookup_None. exact FL.
        - apply Forall2_snoc; auto. unfold crelv. cbn. rewrite kind_zero_eq, Ed. auto.
        - rewrite app_length. eapply Forall2_impl; [|exact Sl]. intros e h. apply srel_mono. lia. }
      split; [reflexivity|]. split; [reflexivity|]. cbn [set_kids s_kids]. rewrite app_length. pose proof (Forall2_length _ _ _ Kd). cbn. lia.
  Qed.

  (* ---- remove ---- *)
  Lemma unexport_sim s w t : R s w -> In t T ->
    match unexport same0 s O (keyed key0 t) with
    | Some s' => exists w', vec_delete w O (hk t) = Ok w' /\ R s' w'
    | None => exists e, vec_delete w O (hk t) = Err e
    end.
  Proof.
    intros HR Ht. unfold keyed, key0. destruct HR as [A (vc & Ev & Ed & Ek & Co & Ech) Nd Kd Sl S0].
    assert (F : Forall (fun c => c_vec c = O /\ In (c_tuple c) T) (s_kids s)).
    { clear - Kd. induction Kd as [|c x l1 l2 H]; constructor; auto. destruct H as (_ & _ & _ & ? & ?). auto. }
    pose proof (find_live_nlookup T Hinj t Ht (s_kids s) O F) as FL.
    unfold unexport, vec_delete. rewrite Ev. cbn [nth_error]. rewrite Ech.
    destruct (find_live same0 O (t, 0) (s_kids s) O) as [[i c]|].
    - destruct FL as (Hl1 & _ & Hn & Hc & Hlive). rewrite Hl1. rewrite Nat.sub_0_r in Hn.
      eexists. split; [reflexivity|]. apply R_raise.
      assert (Ekill : live_entries (upd_nth (s_kids s) i kill) O = nremove (hk t) (live_entries (s_kids s) O)).
      { rewrite <- Hc. apply live_entries_kill; auto. }
      constructor; cbn [set_kids set_vec s_vecs s_kids s_slots w_vec w_v w_slots]; auto.
      + cbn [list_set]. eexists. split; [reflexivity|]. cbn [vec_set_children v_desc v_kind v_children].
        split; [exact Ed|]. split; [exact Ek|]. split; [exact Co|]. symmetry. exact Ekill.
      + change (NoDup (map fst (live_entries (upd_nth (s_kids s) i kill) O))). rewrite Ekill. apply nremove_nodup. exact Nd.
      + change (Forall2 crelv (upd_nth (s_kids s) i kill) (w_v w)). replace (w_v w) with (upd (w_v w) i (fun x => x)).
        * apply Forall2_upd; [exact Kd|]. intros a b _ _ H. exact H.
        * unfold upd. destruct (nth_error (w_v w) i) eqn:E; auto.
          clear - E. revert i E; induction (w_v w) as [|y l IH]; intros [|i] E; cbn in *; try discriminate; [inversion E; auto|].
          f_equal. apply IH; auto.
      + change (Forall2 (srel (length (upd_nth (s_kids s) i kill))) (s_slots s) (w_slots w)). rewrite upd_nth_length. exact Sl.
    - rewrite FL. eexists. reflexivity.
  Qed.

  (* ---- collect ---- *)
  Lemma collect_all_shown w kids cells : Forall2 crelv kids cells -> forall n,
    (forall j, nth_error (w_v w) (n + j) = nth_error cells j) ->
    exists ms, collect_children w (VKValue tk nk) (live_entries kids n) = Some (ms, w)
      /\ all_shown info (filter (fun c => Nat.eqb (c_vec c) O && c_live c) kids) ms = true.
  Proof.
    induction 1 as [|c x kids cells Hc H IH]; intros n Hn.
    - exists []. split; reflexivity.
    - destruct (IH (S n)) as (ms & Hms & Hall).
      { intros j. pose proof (Hn (S j)) as Hj. cbn [nth_error] in Hj. rewrite <- Hj. f_equal. lia. }
      cbn [live_entries filter]. destruct Hc as (Hv & Hlab & Hty & Hvec & Hin). rewrite Hvec. cbn [Nat.eqb andb].
      destruct (c_live c).
      + cbn [collect_children]. specialize (Hn O). rewrite Nat.add_0_r in Hn. cbn [nth_error] in Hn. rewrite Hn, Hms.
        eexists. split; [reflexivity|]. cbn [all_shown take_match].
        assert (M : metric_matches info c (value_metric x) = true).
        { unfold metric_matches, value_metric. rewrite Hkind, Hty, Hv.
          destruct tk; cbn [m_label m_counter m_gauge m_histogram]; rewrite labels_eq, Hlab, lps_eqb_refl, f64_eqb_refl; reflexivity. }
        rewrite M. exact Hall.
      + exists ms. split; auto.
  Qed.

  (* ---- updating ledger entries / value cells ---- *)
  Lemma live_entries_upd kids i g : (forall a, c_live (g a) = c_live a /\ c_tuple (g a) = c_tuple a) ->
    forall n, live_entries (upd_nth kids i g) n = live_entries kids n.
  Proof.
    intros Hg. revert i; induction kids as [|c r IH]; intros i n; destruct i; cbn [upd_nth live_entries]; auto.
    - destruct (Hg c) as [-> ->]. reflexivity.
    - rewrite IH. reflexivity.
  Qed.
  Lemma R_kids_upd s w w' c g : R s w -> w_vec w' = w_vec w -> w_slots w' = w_slots w ->
    Forall2 crelv (upd_nth (s_kids s) c g) (w_v w') ->
    (forall a, c_live (g a) = c_live a /\ c_tuple (g a) = c_tuple a) ->
    R (on_child s c g) w'.
  Proof.
    intros [A B C D E F] Ev Es Hk Hg. unfold on_child.
    constructor; cbn [set_kids s_vecs s_kids s_slots]; auto.
    - rewrite Ev, live_entries_upd; auto.
    - rewrite live_entries_upd; auto.
    - rewrite upd_nth_length, Es. exact E.
  Qed.
  Lemma R_cell s w c g g' : R s w ->
    (forall a b, crelv a b -> crelv (g a) (g' b)) ->
    (forall a, c_live (g a) = c_live a /\ c_tuple (g a) = c_tuple a) ->
    R (on_child s c g) (set_v w (upd (w_v w) c g')).
  Proof.
    intros HR Hc Hg. apply R_kids_upd with (w := w); auto. cbn [set_v w_v].
    apply Forall2_upd; [exact (R_kids _ _ HR)|]. intros a b _ _. apply Hc.
  Qed.
  Lemma R_cell_id s w c g : R s w ->
    (forall a b, crelv a b -> crelv (g a) b) ->
    (forall a, c_live (g a) = c_live a /\ c_tuple (g a) = c_tuple a) ->
    R (on_child s c g) w.
  Proof.
    intros HR Hc Hg. apply R_kids_upd with (w := w); auto.
    replace (w_v w) with (upd (w_v w) c (fun x => x)).
    - apply Forall2_upd; [exact (R_kids _ _ HR)|]. intros a b _ _. apply Hc.
    - unfold upd. destruct (nth_error (w_v w) c) eqn:E; auto.
      clear - E. revert c E; induction (w_v w) as [|y l IH]; intros [|i] E; cbn in *; try discriminate; [inversion E; auto|].
      f_equal. apply IH; auto.
  Qed.

  (* ---- the local caches ---- *)
  Lemma cache_find_nlookup cache wc t : Forall2 erel cache wc -> In t T ->
    match cache_find same0 (keyed key0 t) cache with
    | Some (t', k', c, p, po) => t' = t /\ nlookup (hk t) wc = Some (c, p)
    | None => nlookup (hk t) wc = None
    end.
  Proof.
    intros H Ht. unfold keyed, key0. induction H as [|[[[[t' k'] c] p] po] we cache wc [-> Ht'] H IH]; cbn [cache_find nlookup]; [reflexivity|].
    unfold same0 at 1. cbn [fst]. destruct (tuple_eqb t' t) eqn:E.
    - apply tuple_eqb_eq in E. subst t'. rewrite N.eqb_refl. auto.
    - destruct (N.eqb_spec (hk t) (hk t')) as [Eh|Eh]; [|exact IH].
      apply Hinj in Eh; auto. subst t'. rewrite tuple_eqb_refl in E. discriminate.
  Qed.
  Lemma map_keys_same (h : N) (x : nat * numval) (wc : list (N * (nat * numval))) :
    map fst (map (fun e => if fst e =? h then (h, x) else e) wc) = map fst wc.
  Proof.
    induction wc as [|[k y] wc IH]; cbn [map fst]; [reflexivity|]. rewrite IH. f_equal.
    destruct (N.eqb_spec k h) as [->|]; reflexivity.
  Qed.
  Lemma map_notin_id (h : N) (x : nat * numval) (wc : list (N * (nat * numval))) : ~ In h (map fst wc) ->
    map (fun e => if fst e =? h then (h, x) else e) wc = wc.
  Proof.
    induction wc as [|[k y] wc IH]; cbn [map fst In]; [reflexivity|]. intros H.
    destruct (N.eqb_spec k h) as [->|]; [exfalso; auto|]. rewrite IH; auto.
  Qed.
  Lemma cache_update_rel cache wc t c val d : crel cache wc -> In t T -> nlookup (hk t) wc = Some (c, val) ->
    crel (cache_update same0 (keyed key0 t) (fun e : centry => let '(t0, k, c0, p, po) := e in (t0, k, c0, num_add p d, po)) cache)
         (map (fun e => if fst e =? hk t then (hk t, (c, num_add val d)) else e) wc).
  Proof.
    intros [H Nd] Ht Hl. split; [|rewrite map_keys_same; exact Nd]. unfold keyed, key0.
    induction H as [|[[[[t' k'] c'] p] po] we cache wc [-> Ht'] H IH]; cbn [cache_update map]; [constructor|].
    unfold same0 at 1. cbn [fst]. cbn [nlookup] in Hl. cbn [map fst] in Nd. inversion Nd; subst.
    destruct (tuple_eqb t' t) eqn:E.
    - apply tuple_eqb_eq in E. subst t'. rewrite N.eqb_refl in *. inversion Hl; subst. rewrite map_notin_id; auto.
      constructor; auto. split; auto.
    - destruct (N.eqb_spec (hk t) (hk t')) as [Eh|Eh].
      + apply Hinj in Eh; auto. subst t'. rewrite tuple_eqb_refl in E. discriminate.
      + destruct (N.eqb_spec (hk t') (hk t)); [congruence|]. constructor; [split; auto|]. apply IH; auto.
  Qed.
  Lemma cache_remove_rel cache wc t : crel cache wc -> In t T ->
    crel (cache_remove same0 (keyed key0 t) cache) (nremove (hk t) wc).
  Proof.
    intros [H Nd] Ht. split; [|apply nremove_nodup; exact Nd]. clear Nd. unfold keyed, key0.
    induction H as [|[[[[t' k'] c'] p] po] we cache wc [-> Ht'] H IH]; cbn [cache_remove nremove]; [constructor|].
    unfold same0 at 1. cbn [fst]. destruct (tuple_eqb t' t) eqn:E.
    - apply tuple_eqb_eq in E. subst t'. rewrite N.eqb_refl. exact IH.
    - destruct (N.eqb_spec (hk t) (hk t')) as [Eh|Eh].
      + apply Hinj in Eh; auto. subst t'. rewrite tuple_eqb_refl in E. discriminate.
      + constructor; [split; auto|exact IH].
  Qed.
  Lemma cleared_rel cache wc : crel cache wc ->
    crel (cleared cache) (map (fun e : N * (nat * numval) => let '(h, (c, val)) := e in
                                (h, (c, match val with VF _ => VF f_zero | VU _ => VU 0 | VI _ => VI 0%Z end))) wc).
  Proof.
    intros [H Nd]. split.
    - clear Nd. induction H as [|[[[[t' k'] c'] p] po] we cache wc [-> Ht'] H IH]; cbn [cleared map]; constructor; auto.
      split; auto.
    - replace (map fst (map (fun e : N * (nat * numval) => let '(h, (c, val)) := e in
                 (h, (c, match val with VF _ => VF f_zero | VU _ => VU 0 | VI _ => VI 0%Z end))) wc)) with (map fst wc); auto.
      clear. induction wc as [|[h [c v]] wc IH]; cbn; auto. f_equal. exact IH.
  Qed.
  Lemma flush_sim cache wc : Forall2 erel cache wc -> forall s w, R s w ->
    let w' := fold_left (fun w0 (e : N * (nat * numval)) => let '(_, (c, val)) := e in
                 if num_is_zero val then w0
                 else set_v w0 (upd (w_v w0) c (fun vc => mkVCore (vc_desc vc) (vc_type vc) (num_add (vc_val vc) val) (vc_labels vc)))) wc w in
    R (flush_all s cache) w' /\ s_slots (flush_all s cache) = s_slots s /\ w_slots w' = w_slots w
    /\ length (s_kids (flush_all s cache)) = length (s_kids s).
  Proof.
    induction 1 as [|[[[[t' k'] c'] p] po] we cache wc [-> Ht'] H IH]; intros s w HR; cbn [flush_all fold_left] in *.
    - auto.
    - cbn [flush_entry].
      assert (Hg : forall a, c_live (book_batch po (book_val (fun v => if num_is_zero p then v else num_add v p) a)) = c_live a
                          /\ c_tuple (book_batch po (book_val (fun v => if num_is_zero p then v else num_add v p) a)) = c_tuple a)
        by (intros a; destruct po; split; reflexivity).
      destruct (num_is_zero p) eqn:Z.
      + specialize (IH (on_child s c' (fun k => book_batch po (book_val (fun v => v) k))) w).
        destruct IH as (A & B & C & D).
        { apply R_cell_id; [exact HR| |exact Hg]. intros a b Hab. destruct po; exact Hab. }
        unfold flush_all in *. split; [exact A|]. split; [exact B|]. split; [exact C|].
        rewrite D. unfold on_child. cbn [set_kids s_kids]. apply upd_nth_length.
      + specialize (IH (on_child s c' (fun k => book_batch po (book_val (fun v => num_add v p) k)))
                       (set_v w (upd (w_v w) c' (fun vc => mkVCore (vc_desc vc) (vc_type vc) (num_add (vc_val vc) p) (vc_labels vc))))).
        destruct IH as (A & B & C & D).
        { apply R_cell; [exact HR| |exact Hg]. intros a b (Hv & Hl & Hty & Hvec & Hin). unfold crelv. destruct po; cbn; rewrite Hv; auto. }
        unfold flush_all in *. split; [exact A|]. split; [exact B|]. split; [exact C|].
        rewrite D. unfold on_child. cbn [set_kids s_kids]. apply upd_nth_length.
  Qed.

  (* ---- one operation ---- *)
  Definition tup_ok (o : op) : Prop := forall t, In t (op_tuples (vi_names info) o) -> In t T.

  Ltac slots HR sl :=
    let H := fresh "Hsl" in
    pose proof (ent_srel _ _ sl HR) as H;
    remember (ent _ sl) as e eqn:Ee; remember (slot _ sl) as h eqn:Eh;
    destruct H as [| |i Hi|cache wc Hc].
  Ltac done_push HR := cbn beta iota zeta; eexists; split; [reflexivity|]; apply R_push; [exact HR|constructor].
  Ltac done_same HR := cbn beta iota zeta; eexists; split; [reflexivity|]; exact HR.

  Lemma with_tuple_sim s w t : R s w -> In t T -> length t = length (vi_names info) ->
    exists s', (let '(s', c) := request same0 s O info (keyed key0 t) in Some (push s' (SChild c))) = Some s'
      /\ exists w' i, vec_get_or_create w O (hk t) t = Ok (w', HValue i) /\ R s' (push_slot w' (HValue i)).
  Proof.
    intros HR Ht El. destruct (request_sim s w t HR Ht El) as (i & w' & G & Ei & HR' & Es & Ew & Hi & _).
    destruct (request same0 s O info (keyed key0 t)) as [s' c] eqn:Er. cbn [fst snd] in *. subst c.
    eexists. split; [reflexivity|]. exists w', i. split; [exact G|]. apply R_push; auto. constructor; auto.
  Qed.

  Lemma remove_sim s w t : R s w -> In t T ->
    let r := match vec_delete w O (hk t) with Ok w' => (w', ORes (Ok tt)) | Err e => (w, ORes (Err e)) end in
    exists s', match unexport same0 s O (keyed key0 t) with
               | Some s1 => if is_ok (snd r) then Some s1 else None
               | None => if is_err (snd r) then Some s else None
               end = Some s' /\ R s' (fst r).
  Proof.
    intros HR Ht. pose proof (unexport_sim s w t HR Ht) as U. cbn zeta.
    destruct (unexport same0 s O (keyed key0 t)) as [s1|].
    - destruct U as (w' & -> & HR'). cbn. eauto.
    - destruct U as (e & ->). cbn. eauto.
  Qed.
  Lemma reset_kids kids cells : Forall2 crelv kids cells ->
    let kids' := map (fun c => if Nat.eqb (c_vec c) O then mkChild (c_vec c) (c_tuple c) (c_key c) false (c_val c) (c_obs c) (c_sum c) else c) kids in
    Forall2 crelv kids' cells /\ (forall n, live_entries kids' n = []) /\ length kids' = length kids.
  Proof.
    cbn zeta. induction 1 as [|c x kids cells Hc H IH]; cbn [map live_entries length].
    - repeat split; constructor.
    - destruct IH as (A & B & C). pose proof Hc as (Hv & Hl & Hty & Hvec & Hin). rewrite Hvec. cbn [Nat.eqb c_live].
      split; [constructor; [unfold crelv; cbn; auto|exact A]|]. split; [intros n; apply B|]. rewrite C. reflexivity.
  Qed.

  Ltac rd := cbn [snd fst is_unit is_ok is_err is_panic nth_error]; cbn beta iota zeta.
  Ltac done_push HR ::= rd; eexists; split; [reflexivity|]; apply R_push; [exact HR|constructor].
  Ltac done_same HR ::= rd; eexists; split; [reflexivity|]; exact HR.
  Ltac arith_case HR sl :=
    slots HR sl; try done_same HR;
    rd; eexists; split; [reflexivity|];
    apply R_cell; [exact HR| |intros a; split; reflexivity];
    intros a b (Hv & Hl & Hty & Hvec & Hin); unfold crelv; cbn; try rewrite Hv; auto.

  Lemma sim_step s w o : R s w -> allowed_value nk o = true -> tup_ok o ->
    exists s', sstep key0 same0 s o (snd (step w o)) = Some s' /\ R s' (fst (step w o)).
  Proof.
    intros HR Ha Ht. pose proof (R_vecs _ _ HR) as Evs. destruct (R_vec _ _ HR) as (vc & Ev & Ed & Ek & Co & Ech).
    assert (Evars : d_vars (v_desc vc) = vi_names info) by (rewrite Ed; exact Hnames).
    destruct o; try discriminate Ha; unfold sstep; cbn [step].
    - (* OpWith *)
      slots HR s0; try done_push HR.
      rewrite Evs, Ev. rd. unfold card_ok.
      destruct (Nat.eqb (length vals) (length (vi_names info))) eqn:El.
      + apply Nat.eqb_eq in El. rewrite hash_label_values_ok by (rewrite Evars; exact El).
        change (fnv1a (label_values_preimage vals)) with (hk vals).
        destruct (with_tuple_sim s w vals HR (Ht vals (or_introl eq_refl)) El) as (s' & Es' & w' & i & G & HR').
        rewrite G. rd. exists s'. split; [exact Es'|exact HR'].
      + apply Nat.eqb_neq in El. rewrite hash_label_values_err by (rewrite Evars; exact El). done_push HR.
    - (* OpWithMap *)
      slots HR s0; try done_push HR.
      rewrite Evs, Ev. rd. rewrite <- Evars. rewrite map_tuple_hash_labels.
      assert (Ht' : forall t, map_tuple (d_vars (v_desc vc)) kvs = Some t -> In t T).
      { intros t E. apply Ht. cbn [op_tuples]. rewrite <- Evars, E. left; reflexivity. }
      rewrite map_tuple_hash_labels in Ht'.
      destruct (hash_labels (v_desc vc) (amap_of kvs)) as [[h' vs]|e'] eqn:Ehl; [|done_push HR].
      apply hash_labels_ok_inv in Ehl as (_ & _ & _ & Ehl). apply hash_label_values_inv in Ehl as [El ->].
      change (fnv1a (label_values_preimage vs)) with (hk vs). rewrite Evars in El.
      destruct (with_tuple_sim s w vs HR (Ht' vs eq_refl) El) as (s' & Es' & w' & i & G & HR').
      rewrite G. rd. exists s'. split; [exact Es'|exact HR'].
    - (* OpRemove *)
      slots HR s0; try done_same HR.
      rewrite Evs, Ev. rd. unfold card_ok.
      destruct (Nat.eqb (length vals) (length (vi_names info))) eqn:El.
      + apply Nat.eqb_eq in El. rewrite hash_label_values_ok by (rewrite Evars; exact El).
        change (fnv1a (label_values_preimage vals)) with (hk vals).
        exact (remove_sim s w vals HR (Ht vals (or_introl eq_refl))).
      + apply Nat.eqb_neq in El. rewrite hash_label_values_err by (rewrite Evars; exact El). done_same HR.
    - (* OpRemoveMap *)
      slots HR s0; try done_same HR.
      rewrite Evs, Ev. rd. rewrite <- Evars. rewrite map_tuple_hash_labels.
      assert (Ht' : forall t, map_tuple (d_vars (v_desc vc)) kvs = Some t -> In t T).
      { intros t E. apply Ht. cbn [op_tuples]. rewrite <- Evars, E. left; reflexivity. }
      rewrite map_tuple_hash_labels in Ht'.
      destruct (hash_labels (v_desc vc) (amap_of kvs)) as [[h' vs]|e'] eqn:Ehl; [|done_same HR].
      apply hash_labels_ok_inv in Ehl as (_ & _ & _ & Ehl). apply hash_label_values_inv in Ehl as [El ->].
      change (fnv1a (label_values_preimage vs)) with (hk vs).
      exact (remove_sim s w vs HR (Ht' vs eq_refl)).
    - (* OpReset *)
      slots HR s0; try done_same HR.
      + (* the vector *)
        rd. eexists; split; [reflexivity|]. destruct (reset_kids _ _ (R_kids _ _ HR)) as (A & B & C).
        destruct HR as [A1 _ C1 D1 E1 F1]. constructor; cbn [set_kids set_vec s_vecs s_kids s_slots w_vec w_v w_slots]; auto.
        * rewrite Ev. unfold upd. cbn [nth_error list_set]. eexists. split; [reflexivity|].
          cbn [vec_set_children v_desc v_kind v_children]. rewrite B. auto.
        * rewrite B. constructor.
        * rewrite C. exact E1.
      + (* a child: Counter::reset *)
        rd. eexists; split; [reflexivity|].
        apply R_cell; [exact HR| |intros a; split; reflexivity].
        intros a b (Hv & Hl & Hty & Hvec & Hin). unfold crelv. cbn. rewrite Hv. auto.
    - arith_case HR s0.
    - arith_case HR s0.
    - arith_case HR s0.
    - arith_case HR s0.
    - arith_case HR s0.
    - arith_case HR s0.
    - (* OpGet *)
      slots HR s0; try done_same HR.
      destruct (nth_error (s_kids s) i) as [k|] eqn:Ek'; [|apply nth_error_None in Ek'; lia].
      destruct (Forall2_nth_error_l _ _ _ _ _ (R_kids _ _ HR) Ek') as (x & Ex & (Hv & _)).
      rewrite Ex. rd. rewrite Hv, numval_eqb_refl. eexists; split; [reflexivity|exact HR].
    - (* OpLocal *)
      apply Nat.eqb_eq in Ha. subst s0.
      assert (E0 : ent s O = SVec O) by (unfold ent; rewrite (nth_error_nth _ _ _ (R_slot0 _ _ HR)); reflexivity).
      slots HR O; try discriminate E0.
      rewrite Ev. rd. rewrite Ek. rd. eexists; split; [reflexivity|]. apply R_push; [exact HR|]. constructor. split; constructor.
    - (* OpFlush *)
      slots HR s0; try done_same HR.
      rd. eexists; split; [reflexivity|].
      destruct (flush_sim cache wc (proj1 Hc) s w HR) as (A & B & C & D).
      eapply R_set_slot; [exact A| |].
      + unfold ent. rewrite B. symmetry. exact Ee.
      + rewrite D. constructor. apply cleared_rel. exact Hc.
    - (* OpClone *)
      slots HR s0; rd; (eexists; split; [reflexivity|]); apply R_push; try exact HR; constructor; auto. split; constructor.
    - (* OpDrop of any handle but the vector's own *)
      apply negb_true_iff in Ha. apply Nat.eqb_neq in Ha.
      slots HR s0.
      + rd. eexists; split; [reflexivity|]. apply R_drop_none; [exact HR|symmetry; exact Ee].
      + rd. eexists; split; [reflexivity|]. apply R_drop_slot; [exact HR|exact Ha|constructor].
      + rd. eexists; split; [reflexivity|]. apply R_drop_slot; [exact HR|exact Ha|constructor].
      + rewrite Evs. rd. rewrite Hkind. eexists; split; [destruct tk; reflexivity|]. apply R_drop_slot; [exact HR|exact Ha|constructor].
    - (* OpLvInc *)
      slots HR s0; try done_same HR.
      apply numkind_eqb_eq in Ha.
      rewrite Evs, Ev. rd. unfold card_ok.
      destruct (Nat.eqb (length vals) (length (vi_names info))) eqn:El.
      2:{ apply Nat.eqb_neq in El. rewrite hash_label_values_err by (rewrite Evars; exact El). done_same HR. }
      apply Nat.eqb_eq in El. rewrite hash_label_values_ok by (rewrite Evars; exact El).
      change (fnv1a (label_values_preimage vals)) with (hk vals).
      assert (Hin : In vals T) by (apply Ht; left; reflexivity).
      pose proof (cache_find_nlookup cache wc vals (proj1 Hc) Hin) as CF.
      unfold local_update.
      destruct (cache_find same0 (keyed key0 vals) cache) as [[[[[t' k'] c'] p] po]|].
      + destruct CF as (-> & CF). rewrite CF. rd. eexists; split; [reflexivity|].
        apply R_raise. eapply R_set_slot; [exact HR|symmetry; exact Ee|]. constructor.
        apply cache_update_rel; auto.
      + rewrite CF. destruct (request_sim s w vals HR Hin El) as (i & w' & G & Ei & HR' & Es & Ew & Hi' & _).
        rewrite G. rd. destruct (request same0 s O info (keyed key0 vals)) as [s' c] eqn:Er. cbn [fst snd] in *. subst c.
        eexists; split; [reflexivity|].
        eapply R_set_slot; [exact HR'|unfold ent; rewrite Es; symmetry; exact Ee|]. constructor.
        destruct Hc as [Hc1 Hc2]. split.
        * apply Forall2_snoc; auto. unfold keyed, key0. cbn [fst snd erel]. split; auto.
          rewrite kind_zero_eq. rewrite <- Ha. destruct v; reflexivity.
        * rewrite map_app. cbn [map fst]. apply NoDup_app_intro; auto.
          -- constructor; [intros []|constructor].
          -- intros x [<-|[]]. apply nlookup_None. exact CF.
    - (* OpLvRemove *)
      slots HR s0; try done_same HR.
      rewrite Evs, Ev. rd. unfold card_ok.
      destruct (Nat.eqb (length vals) (length (vi_names info))) eqn:El.
      2:{ apply Nat.eqb_neq in El. rewrite hash_label_values_err by (rewrite Evars; exact El). done_same HR. }
      apply Nat.eqb_eq in El. rewrite hash_label_values_ok by (rewrite Evars; exact El).
      change (fnv1a (label_values_preimage vals)) with (hk vals).
      assert (Hin : In vals T) by (apply Ht; left; reflexivity).
      set (s1 := match cache_find same0 (keyed key0 vals) cache, vi_kind info with
                 | Some e0, KHist => flush_entry s e0
                 | _, _ => s
                 end).
      assert (E1 : s1 = s).
      { unfold s1. rewrite Hkind. destruct (cache_find same0 (keyed key0 vals) cache); destruct tk; reflexivity. }
      rewrite E1.
      set (fl := match cache_find same0 (keyed key0 vals) cache with
                 | Some (t', _, _, _, _) => negb (tuple_eqb t' vals)
                 | None => false
                 end).
      assert (HR1 : R (raise (set_slot s s0 (SLocal O (cache_remove same0 (keyed key0 vals) cache))) fl)
                      (put_slot w s0 (HLocalCounterVec O (nremove (hk vals) wc)))).
      { apply R_raise. eapply R_set_slot; [exact HR|symmetry; exact Ee|]. constructor. apply cache_remove_rel; auto. }
      exact (remove_sim _ _ vals HR1 Hin).
    - (* OpCollect *)
      slots HR s0; try done_same HR.
      + (* the vector *)
        unfold collector_of. rewrite Evs, Ev. rd. unfold collect_collector. rewrite Ev. rd. rewrite Ek, Ech.
        destruct (collect_all_shown w _ _ (R_kids _ _ HR) O (fun j => eq_refl)) as (ms & Hms & Hall).
        rewrite Hms. rd. unfold collect_ok. cbn [mf_type mf_metric veckind_mtype]. rewrite kind_mtype_eq, Hall.
        replace (mtype_eqb (valtype_mtype tk) (valtype_mtype tk)) with true by (destruct tk; reflexivity).
        rd. eexists; split; [reflexivity|exact HR].
      + (* a child collected on its own *)
        unfold collector_of. destruct (nth_error (w_v w) i) eqn:En; rd; [unfold collect_collector; rewrite En|]; done_same HR.
  Qed.

  (* ---- a whole scenario ---- *)
  Lemma sim_walk ops : forall s w, R s w -> Forall (fun o => allowed_value nk o = true) ops -> Forall tup_ok ops ->
    exists b, walk key0 same0 s ops (run w ops) = Some b.
  Proof.
    induction ops as [|o ops IH]; intros s w HR Fa Ft; cbn [run walk]; [eauto|].
    inversion Fa; subst. inversion Ft; subst.
    destruct (sim_step s w o HR H1 H3) as (s' & Es & HR'). destruct (step w o) as [w' ob]. cbn [fst snd] in *.
    cbn [walk]. rewrite Es. apply IH with (w := w'); auto.
  Qed.
End SimValue.

(* ================= 3. scenarios ================= *)
Definition scenario_names (ops : list op) : list str :=
  match ops with
  | OpCounterVec _ _ l :: _ | OpGaugeVec _ _ l :: _ | OpHistVec _ l :: _ => l
  | _ => []
  end.
Definition all_tuples (names : list str) (ops : list op) : list (list str) := flat_map (op_tuples names) ops.
Definition no_collision_on (ts : list (list str)) : bool :=
  forallb (fun a => forallb (fun b => tuple_eqb a b || negb (hk a =? hk b)) ts) ts.
(* all label-value tuples named in the scenario have pairwise distinct FNV-1a-64 keys unless they are equal *)
Definition no_collision (ops : list op) : bool := no_collision_on (all_tuples (scenario_names ops) (tl ops)).
Lemma no_collision_on_inj ts : no_collision_on ts = true -> forall a b, In a ts -> In b ts -> hk a = hk b -> a = b.
Proof.
  unfold no_collision_on. rewrite forallb_forall. intros H a b Ha Hb E. specialize (H a Ha). rewrite forallb_forall in H.
  specialize (H b Hb). rewrite E, N.eqb_refl in H. cbn in H. rewrite orb_false_r in H. apply tuple_eqb_eq. exact H.
Qed.

Definition is_Ok {A} (r : result A) : bool := match r with Ok _ => true | Err _ => false end.
(* the scenario language (counter and gauge vectors): the first operation creates the vector, successfully; every
   other operation is a request (positional / map), a removal, reset, an update or read through a handle,
   collect, clone, or a local-vector operation (local on the vector's own slot, inc with the vector's number
   type, flush, remove) - on any slot whatsoever *)
Definition in_domain_value (ops : list op) : bool :=
  match ops with
  | OpCounterVec k o labels :: rest =>
      is_Ok (vec_create (opts_with_vars o labels) (VKValue VCounter k)) && forallb (allowed_value k) rest
  | OpGaugeVec k o labels :: rest =>
      is_Ok (vec_create (opts_with_vars o labels) (VKValue VGauge k)) && forallb (allowed_value k) rest
  | _ => false
  end.

Lemma tup_ok_all names rest : Forall (fun o => forall t, In t (op_tuples names o) -> In t (all_tuples names rest)) rest.
Proof.
  apply Forall_forall. intros o Ho t Ht. unfold all_tuples. apply in_flat_map. eauto.
Qed.

Lemma value_scenario tk k o labels rest v :
  vec_create (opts_with_vars o labels) (VKValue tk k) = Ok v ->
  forallb (allowed_value k) rest = true ->
  no_collision_on (all_tuples labels rest) = true ->
  let info := mkVI (match tk with VCounter => KCounter k | VGauge => KGauge k end) labels (o_consts o) in
  let s1 := mkSt [info] [] [SVec O] false in
  let w1 := push_slot (set_vec world0 [v]) (HVec O) in
  exists b, walk key0 same0 s1 rest (run w1 rest) = Some b.
Proof.
  intros Hv Ha Hn info s1 w1.
  destruct (vec_create_inv _ _ _ Hv) as (Co & Eo & Ek & Ech).
  pose proof Co as [Dd _]. rewrite Eo in Dd. unfold describe in Dd. cbn [opts_with_vars o_vars o_consts o_help] in Dd.
  apply desc_new_inv in Dd as (_ & _ & _ & names & _ & Ed).
  apply (sim_walk (all_tuples labels rest) info (v_desc v) tk k).
  - apply no_collision_on_inj. exact Hn.
  - rewrite Ed. reflexivity.
  - rewrite Ed. reflexivity.
  - reflexivity.
  - constructor; cbn; auto.
    + exists v. repeat split; auto; apply Co.
    + constructor.
    + repeat constructor.
  - apply Forall_forall. rewrite forallb_forall in Ha. exact Ha.
  - apply tup_ok_all.
Qed.

Theorem spec_model_value ops : in_domain_value ops = true -> no_collision ops = true -> spec_c05 ops (run world0 ops) = true.
Proof.
  intros Hd Hn. rewrite spec_c05_unfold. unfold in_domain_value in Hd. unfold no_collision in Hn.
  destruct ops as [|o0 rest]; [discriminate|]. destruct o0; try discriminate Hd; cbn [scenario_names tl] in Hn;
    apply andb_true_iff in Hd as [Hc Ha].
  - destruct (vec_create (opts_with_vars o labels) (VKValue VCounter k)) as [v|e] eqn:Ev; [|discriminate].
    destruct (value_scenario VCounter k o labels rest v Ev Ha Hn) as (b & Hb).
    cbn [run step walk]. rewrite Ev. cbn [walk sstep new_vec]. cbn in Hb. cbn. rewrite Hb. reflexivity.
  - destruct (vec_create (opts_with_vars o labels) (VKValue VGauge k)) as [v|e] eqn:Ev; [|discriminate].
    destruct (value_scenario VGauge k o labels rest v Ev Ha Hn) as (b & Hb).
    cbn [run step walk]. rewrite Ev. cbn [walk sstep new_vec]. cbn in Hb. cbn. rewrite Hb. reflexivity.
Qed.

(* ================= 4. histogram vectors ================= *)
Definition allowed_hist (o : op) : bool :=
  match o with
  | OpWith _ _ | OpWithMap _ _ | OpRemove _ _ | OpRemoveMap _ _
  | OpObserve _ _ | OpSampleCount _ | OpSampleSum _ | OpCollect _ | OpClone _
  | OpFlush _ | OpLvObserve _ _ _ | OpLvRemove _ _ => true
  | OpReset sl | OpLocal sl => Nat.eqb sl O
  | OpDrop sl => negb (Nat.eqb sl O)
  | _ => false
  end.

(* counts stay far from the u64 range: every child has absorbed, and every local cache entry buffers, fewer than 2^63
   observations (so that a flush cannot wrap a count) - evaluated on the ledger along the run *)
Definition small_n (n : nat) : bool := N.of_nat n <? two63.
Definition entry_small (e : centry) : bool := let '(_, _, _, _, po) := e in small_n (length po).
Definition slot_small (e : sent) : bool := match e with SLocal _ cache => forallb entry_small cache | _ => true end.
Definition kids_small (s : st) : bool := forallb (fun c => small_n (length (c_obs c))) (s_kids s).
Definition st_small (s : st) : bool := kids_small s && forallb slot_small (s_slots s).
Lemma kids_small_nth s i c : kids_small s = true -> nth_error (s_kids s) i = Some c -> N.of_nat (length (c_obs c)) < two63.
Proof.
  unfold kids_small. rewrite forallb_forall. intros H E. apply N.ltb_lt. apply (H c). eapply nth_error_In; eauto.
Qed.
Fixpoint small_walk (s : st) (ops : list op) (obs : list obs) : bool :=
  st_small s &&
  match ops, obs with
  | o :: ops', ob :: obs' => match sstep key0 same0 s o ob with Some s' => small_walk s' ops' obs' | None => true end
  | _, _ => true
  end.
Lemma st_small_nth s i c : st_small s = true -> nth_error (s_kids s) i = Some c -> N.of_nat (length (c_obs c)) < two63.
Proof.
  unfold st_small. rewrite andb_true_iff. intros [H _]. apply kids_small_nth. exact H.
Qed.
Lemma st_small_entry s sl v cache e : st_small s = true -> ent s sl = SLocal v cache -> In e cache -> entry_small e = true.
Proof.
  unfold st_small, ent. rewrite andb_true_iff, !forallb_forall. intros [_ H] E Hin.
  destruct (nth_error (s_slots s) sl) as [x|] eqn:En.
  - rewrite (nth_error_nth _ _ _ En) in E. subst x. specialize (H _ (nth_error_In _ _ En)). cbn [slot_small] in H.
    rewrite forallb_forall in H. auto.
  - rewrite (nth_overflow _ _ (proj1 (nth_error_None _ _) En)) in E. discriminate.
Qed.
Lemma two63_double a b : a < two63 -> b < two63 -> a + b < two64.
Proof. unfold two63, two64. lia. Qed.

(* the histogram part of a ledger entry as the books of SpecC12 (count, sum, values) *)
Definition hb_of (c : child) : SpecC12.hbook := SpecC12.mkHB (N.of_nat (length (c_obs c))) (c_sum c) (c_obs c).
Lemma hb_of_observe c x : hb_of (book_observe x c) = SpecC12.hb_observe (hb_of c) x.
Proof.
  unfold hb_of, book_observe, SpecC12.hb_observe. cbn. f_equal. rewrite app_length. cbn [length]. lia.
Qed.
Lemma hb_of_batch c po : hb_of (book_batch po c) = SpecC12.hb_batch (hb_of c) po.
Proof.
  destruct po as [|x po]; [reflexivity|]. unfold hb_of, book_batch, SpecC12.hb_batch. cbn [c_obs c_sum SpecC12.hb_count SpecC12.hb_sum SpecC12.hb_vals].
  f_equal. rewrite app_length. lia.
Qed.
Lemma hb_of_val f c : hb_of (book_val f c) = hb_of c.
Proof. reflexivity. Qed.
Lemma hc_observe_labels h v : hc_labels (hc_observe h v) = hc_labels h.
Proof. destruct h as [d ls bnds [|] tot s0 s1]; reflexivity. Qed.
Lemma hc_flush_labels h l : hc_labels (hc_flush h l) = hc_labels h.
Proof. unfold hc_flush. destruct (lh_count l =? 0); [reflexivity|]. destruct h as [d ls bnds [|] tot s0 s1]; reflexivity. Qed.
Lemma hist_metric_shape h m h' : hist_metric h = Some (m, h') ->
  hc_labels h' = hc_labels h /\ exists p, m = mkMetric (hc_labels h) None None None None (Some p) None.
Proof.
  unfold hist_metric. destruct (hc_proto h) as [[p h'']|] eqn:E; [|discriminate]. intros H0. inversion H0; subst. split; [|eauto].
  unfold hc_proto in E. destruct (negb (sh_count (hc_shard h (hc_hot h)) =? hc_total h)); [discriminate|].
  inversion E. destruct h as [d ls bnds [|] tot s0 s1]; reflexivity.
Qed.
Lemma list_set_app_mid {A} (pre : list A) x y post : list_set (pre ++ x :: post) (length pre) y = pre ++ y :: post.
Proof. induction pre as [|a pre IH]; cbn; [reflexivity|]. rewrite IH. reflexivity. Qed.
Lemma nth_error_app_mid {A} (pre : list A) x post : nth_error (pre ++ x :: post) (length pre) = Some x.
Proof. induction pre as [|a pre IH]; cbn; auto. Qed.
Lemma Forall2_list_set_r {A B} (P : A -> B -> Prop) l1 l2 i y : Forall2 P l1 l2 ->
  (forall a, nth_error l1 i = Some a -> P a y) -> Forall2 P l1 (list_set l2 i y).
Proof.
  intros H; revert i; induction H as [|a b l1 l2 Hab H IH]; intros i Hy; [destruct i; constructor|].
  destruct i as [|i]; cbn [list_set]; constructor; auto.
Qed.

Section SimHist.
  Variable T : list (list str).
  Variable info : vinfo.
  Variable desc : Desc.
  Variable bs0 bs : list f64.
  Hypothesis Hinj : forall a b, In a T -> In b T -> hk a = hk b -> a = b.
  Hypothesis Hnames : d_vars desc = vi_names info.
  Hypothesis Hconst : d_const_pairs desc = sort_by lp_leb (map (fun kv => mkLP (fst kv) (snd kv)) (vi_consts info)).
  Hypothesis Hkind : vi_kind info = KHist.
  Hypothesis Hbs : check_and_adjust_buckets bs0 = Some bs.

  Lemma Hchain : chain_lt bs.
  Proof. apply (check_and_adjust_accepted _ _ Hbs). Qed.

  Lemma labels_eq_h t : expected_labels info t = child_labels desc t.
  Proof.
    unfold expected_labels, child_labels, declared_pairs. rewrite Hnames, Hconst.
    change (fun a b : LabelPair => str_leb (lp_name a) (lp_name b)) with lp_leb.
    rewrite !sort_by_app. f_equal. symmetry.
    apply sort_by_sorted_id. apply sort_by_sorted; [apply lp_leb_total|apply lp_leb_trans].
  Qed.

  (* a ledger entry and the histogram core of the same index *)
  Definition crelh (c : child) (x : hcore) : Prop :=
    hc_labels x = child_labels desc (c_tuple c) /\ c_vec c = O /\ In (c_tuple c) T /\ hc_bounds x = bs
    /\ C12Spec.hrel (hb_of c) x.
  (* a local histogram vector's cache: the buffered observations on one side, the local histogram they built on the other *)
  Definition ereh (n : nat) (e : centry) (we : N * (nat * lhist)) : Prop :=
    let '(t, k, c, p, po) := e in we = (hk t, (c, local_of bs po)) /\ In t T /\ (c < n)%nat.
  Definition creh (n : nat) (cache : list centry) (wc : list (N * (nat * lhist))) : Prop :=
    Forall2 (ereh n) cache wc /\ NoDup (map fst wc).
  Inductive srelh (n : nat) : sent -> handle -> Prop :=
  | SH_none : srelh n SNone HDead
  | SH_vec : srelh n (SVec O) (HVec O)
  | SH_child i : (i < n)%nat -> srelh n (SChild i) (HHist i)
  | SH_local cache wc : creh n cache wc -> srelh n (SLocal O cache) (HLocalHistVec O wc).
  Lemma ereh_mono n n' e we : (n <= n')%nat -> ereh n e we -> ereh n' e we.
  Proof. intros L. destruct e as [[[[t k] c] p] po]. intros (A & B & C). repeat split; auto. lia. Qed.
  Lemma srelh_mono n n' e h : (n <= n')%nat -> srelh n e h -> srelh n' e h.
  Proof.
    intros L H. destruct H; constructor; auto; try lia. destruct H as [H1 H2]. split; auto.
    eapply Forall2_impl; [|exact H1]. intros a b. apply ereh_mono. exact L.
  Qed.

  Record Rh (s : st) (w : world) : Prop := mkRh {
    Rh_vecs : s_vecs s = [info];
    Rh_vec : exists vc, w_vec w = [vc] /\ v_desc vc = desc /\ v_kind vc = VKHist bs0 /\ coherent vc
                        /\ v_children vc = live_entries (s_kids s) O;
    Rh_nodup : NoDup (map fst (live_entries (s_kids s) O));
    Rh_kids : Forall2 crelh (s_kids s) (w_h w);
    Rh_slots : Forall2 (srelh (length (s_kids s))) (s_slots s) (w_slots w);
    Rh_slot0 : nth_error (s_slots s) O = Some (SVec O) }.

  Lemma ent_srelh s w sl : Rh s w -> srelh (length (s_kids s)) (ent s sl) (slot w sl).
  Proof.
    intros H. unfold ent, slot. destruct (nth_error (s_slots s) sl) as [e|] eqn:E.
    - destruct (Forall2_nth_error_l _ _ _ _ _ (Rh_slots _ _ H) E) as (h & Eh & Hr).
      rewrite (nth_error_nth _ _ _ E), (nth_error_nth _ _ _ Eh). exact Hr.
    - pose proof (Forall2_nth_error_none _ _ _ _ (Rh_slots _ _ H) E) as Eh.
      rewrite (nth_overflow _ _ (proj1 (nth_error_None _ _) E)), (nth_overflow _ _ (proj1 (nth_error_None _ _) Eh)). constructor.
  Qed.
  Lemma Rh_raise s w b : Rh s w -> Rh (raise s b) w.
  Proof. intros [A B C D E F]. constructor; auto. Qed.
  Lemma Rh_push s w e h : Rh s w -> srelh (length (s_kids s)) e h -> Rh (push s e) (push_slot w h).
  Proof.
    intros [A B C D E F] Hr. constructor; cbn [push push_slot set_slots s_vecs s_kids s_slots w_vec w_h w_slots]; auto.
    - apply Forall2_snoc; auto.
    - destruct (s_slots s); [discriminate|exact F].
  Qed.
  Lemma Rh_set_slot s w sl cache e h : Rh s w -> ent s sl = SLocal O cache -> srelh (length (s_kids s)) e h ->
    Rh (set_slot s sl e) (put_slot w sl h).
  Proof.
    intros [A B C D E F] Hs Hr. constructor; cbn [set_slot put_slot set_slots s_vecs s_kids s_slots w_vec w_h w_slots]; auto.
    - apply Forall2_list_set; auto.
    - destruct sl as [|sl]; [|destruct (s_slots s); [discriminate|exact F]].
      unfold ent in Hs. rewrite (nth_error_nth _ _ _ F) in Hs. discriminate.
  Qed.

  Lemma Rh_drop_slot s w sl e h : Rh s w -> sl <> O -> srelh (length (s_kids s)) e h -> Rh (set_slot s sl e) (put_slot w sl h).
  Proof.
    intros [A B C D E F] Hs Hr. constructor; cbn [set_slot put_slot set_slots s_vecs s_kids s_slots w_vec w_h w_slots]; auto.
    - apply Forall2_list_set; auto.
    - destruct sl as [|sl]; [congruence|]. destruct (s_slots s); [discriminate|exact F].
  Qed.
  Lemma Rh_drop_none s w sl : Rh s w -> ent s sl = SNone -> Rh (set_slot s sl SNone) w.
  Proof.
    intros [A B C D E F] Hs. unfold ent in Hs.
    constructor; cbn [set_slot s_vecs s_kids s_slots]; auto; rewrite <- Hs, list_set_nth_same; auto.
  Qed.

  Lemma kids_in_T kids cells : Forall2 crelh kids cells -> Forall (fun c => c_vec c = O /\ In (c_tuple c) T) kids.
  Proof. induction 1 as [|c x l1 l2 H]; constructor; auto. destruct H as (_ & ? & ? & _). auto. Qed.

  Lemma fresh_rel t : In t T ->
    crelh (mkChild O t 0 true (kind_zero (vi_kind info)) [] f_zero) (fresh_hcore desc (child_labels desc t) bs).
  Proof.
    intros Ht. unfold crelh. cbn [c_tuple c_vec hc_labels hc_bounds fresh_hcore]. repeat split; auto.
    exists []. cbn [hc_bounds]. split; [apply inv_fresh; unfold fresh_core; cbn; auto|]. split; [exact Hchain|].
    repeat split.
  Qed.

  Lemma request_sim_h s w t : Rh s w -> In t T -> length t = length (vi_names info) ->
    exists i w', vec_get_or_create w O (hk t) t = Ok (w', HHist i)
      /\ snd (request same0 s O info (keyed key0 t)) = i
      /\ Rh (fst (request same0 s O info (keyed key0 t))) w'
      /\ s_slots (fst (request same0 s O info (keyed key0 t))) = s_slots s /\ w_slots w' = w_slots w
      /\ (i < length (s_kids (fst (request same0 s O info (keyed key0 t)))))%nat.
  Proof.
    intros HR Ht Hl. unfold keyed, key0. destruct HR as [A (vc & Ev & Ed & Ek & Co & Ech) Nd Kd Sl S0].
    pose proof (kids_in_T _ _ Kd) as F.
    pose proof (find_live_nlookup T Hinj t Ht (s_kids s) O F) as FL.
    unfold request. unfold vec_get_or_create. rewrite Ev. cbn [nth_error]. rewrite Ech.
    destruct (find_live same0 O (t, 0) (s_kids s) O) as [[i c]|].
    - destruct FL as (Hl1 & _ & Hn & Hc & Hlive). rewrite Hl1. unfold child_handle. rewrite Ek.
      exists i, w. cbn [fst snd]. split; [reflexivity|]. split; [reflexivity|]. split.
      { apply Rh_raise. constructor; eauto 10. }
      split; [reflexivity|]. split; [reflexivity|]. cbn [raise s_kids].
      rewrite Nat.sub_0_r in Hn. apply nth_error_Some. congruence.
    - rewrite FL.
      assert (Ld : length t = length (d_vars (v_desc vc))) by (rewrite Ed, Hnames; exact Hl).
      rewrite (build_child_hist_ok w vc t bs0 bs Ek Co Ld Hbs).
      eexists _, _. cbn [fst snd]. split; [reflexivity|]. split; [apply (Forall2_length _ _ _ Kd)|]. split.
      { constructor; cbn [set_kids set_vec set_h s_vecs s_kids s_slots w_vec w_h w_slots]; auto.
        - rewrite Ev. cbn [list_set]. eexists. split; [reflexivity|]. cbn [vec_set_children v_desc v_kind v_children].
          split; [exact Ed|]. split; [exact Ek|]. split; [exact Co|].
          rewrite live_entries_app. cbn [live_entries c_live c_tuple]. rewrite Nat.add_0_r.
          rewrite (Forall2_length _ _ _ Kd). reflexivity.
        - rewrite live_entries_app, map_app. cbn [live_entries c_live c_tuple map fst]. apply NoDup_app_intro; auto.
          + constructor; [intros []|constructor].
          + intros x [<-|[]]. apply nlookup_None. exact FL.
        - apply Forall2_snoc; auto. rewrite Ed. apply fresh_rel. exact Ht.
        - rewrite app_length. eapply Forall2_impl; [|exact Sl]. intros e h. apply srelh_mono. lia. }
      split; [reflexivity|]. split; [reflexivity|]. cbn [set_kids s_kids]. rewrite app_length.
      pose proof (Forall2_length _ _ _ Kd). cbn; lia.
  Qed.

  Lemma unexport_sim_h s w t : Rh s w -> In t T ->
    match unexport same0 s O (keyed key0 t) with
    | Some s' => exists w', vec_delete w O (hk t) = Ok w' /\ Rh s' w'
    | None => exists e, vec_delete w O (hk t) = Err e
    end.
  Proof.
    intros HR Ht. unfold keyed, key0. destruct HR as [A (vc & Ev & Ed & Ek & Co & Ech) Nd Kd Sl S0].
    pose proof (kids_in_T _ _ Kd) as F.
    pose proof (find_live_nlookup T Hinj t Ht (s_kids s) O F) as FL.
    unfold unexport, vec_delete. rewrite Ev. cbn [nth_error]. rewrite Ech.
    destruct (find_live same0 O (t, 0) (s_kids s) O) as [[i c]|].
    - destruct FL as (Hl1 & _ & Hn & Hc & Hlive). rewrite Hl1. rewrite Nat.sub_0_r in Hn.
      eexists. split; [reflexivity|].
      assert (Ekill : live_entries (upd_nth (s_kids s) i kill) O = nremove (hk t) (live_entries (s_kids s) O)).
      { rewrite <- Hc. apply live_entries_kill; auto. }
      apply Rh_raise. constructor; cbn [set_kids set_vec s_vecs s_kids s_slots w_vec w_h w_slots]; auto.
      + cbn [list_set]. eexists. split; [reflexivity|]. cbn [vec_set_children v_desc v_kind v_children].
        split; [exact Ed|]. split; [exact Ek|]. split; [exact Co|]. symmetry. exact Ekill.
      + change (NoDup (map fst (live_entries (upd_nth (s_kids s) i kill) O))). rewrite Ekill. apply nremove_nodup. exact Nd.
      + change (Forall2 crelh (upd_nth (s_kids s) i kill) (w_h w)). replace (w_h w) with (upd (w_h w) i (fun x => x)).
        * apply Forall2_upd; [exact Kd|]. intros a b _ _ H. exact H.
        * unfold upd. destruct (nth_error (w_h w) i) eqn:E; auto.
          clear - E. revert i E; induction (w_h w) as [|y l IH]; intros [|i] E; cbn in *; try discriminate; [inversion E; auto|].
          f_equal. apply IH; auto.
      + change (Forall2 (srelh (length (upd_nth (s_kids s) i kill))) (s_slots s) (w_slots w)). rewrite upd_nth_length. exact Sl.
    - rewrite FL. eexists. reflexivity.
  Qed.

  (* ---- updating one ledger entry / histogram core ---- *)
  Lemma Rh_cell s w c g g' : Rh s w ->
    (forall a b, nth_error (s_kids s) c = Some a -> crelh a b -> crelh (g a) (g' b)) ->
    (forall a, c_live (g a) = c_live a /\ c_tuple (g a) = c_tuple a) ->
    Rh (on_child s c g) (set_h w (upd (w_h w) c g')).
  Proof.
    intros [A B C D E F] Hc Hg. unfold on_child.
    constructor; cbn [set_kids set_h s_vecs s_kids s_slots w_vec w_h w_slots]; auto.
    - rewrite live_entries_upd; auto.
    - rewrite live_entries_upd; auto.
    - apply Forall2_upd; [exact D|]. intros a b Ea _. apply Hc. exact Ea.
    - rewrite upd_nth_length. exact E.
  Qed.

  Lemma observe_rel a b x : crelh a b -> N.of_nat (length (c_obs a ++ [x])) < two64 -> crelh (book_observe x a) (hc_observe b x).
  Proof.
    intros (Hl & Hv & Hin & Hb & Hr) Hs. unfold crelh. rewrite hc_observe_labels, C12More.hc_observe_bounds, hb_of_observe.
    split; [exact Hl|]. split; [exact Hv|]. split; [exact Hin|]. split; [exact Hb|].
    apply C12Spec.hrel_observe; auto.
  Qed.
  Lemma batch_rel a b f po : crelh a b -> N.of_nat (length (c_obs a ++ po)) < two64 ->
    crelh (book_batch po (book_val f a)) (hc_flush b (local_of bs po)).
  Proof.
    intros (Hl & Hv & Hin & Hb & Hr) Hs. unfold crelh. rewrite hc_flush_labels, C12More.hc_flush_bounds, hb_of_batch, hb_of_val.
    assert (Et : c_tuple (book_batch po (book_val f a)) = c_tuple a) by (destruct po; reflexivity).
    assert (Ev : c_vec (book_batch po (book_val f a)) = c_vec a) by (destruct po; reflexivity).
    rewrite Et, Ev. split; [exact Hl|]. split; [exact Hv|]. split; [exact Hin|]. split; [exact Hb|].
    rewrite <- Hb. apply C12Spec.hrel_batch; auto.
  Qed.

  (* flushing one cache entry *)
  Definition fl_fun (p : numval) (po : list f64) (k : child) : child :=
    book_batch po (book_val (fun v => if num_is_zero p then v else num_add v p) k).
  Lemma fl_fun_keeps p po a : c_live (fl_fun p po a) = c_live a /\ c_tuple (fl_fun p po a) = c_tuple a.
  Proof. unfold fl_fun. destruct po; split; reflexivity. Qed.
  Lemma fl_fun_obs p po a : c_obs (fl_fun p po a) = c_obs a ++ po.
  Proof. unfold fl_fun. destruct po; cbn; [rewrite app_nil_r|]; reflexivity. Qed.
  Lemma flush_entry_sim s w t k c p po : Rh s w ->
    (forall a, nth_error (s_kids s) c = Some a -> N.of_nat (length (c_obs a ++ po)) < two64) ->
    Rh (flush_entry s (t, k, c, p, po)) (flush_lh w c (local_of bs po)).
  Proof.
    intros HR Hs. cbn [flush_entry]. change (fun k0 : child => book_batch po (book_val (fun v => if num_is_zero p then v else num_add v p) k0)) with (fl_fun p po).
    unfold flush_lh. apply Rh_cell; [exact HR| |apply fl_fun_keeps].
    intros a b Ea Hab. unfold fl_fun. apply batch_rel; [exact Hab|]. apply Hs. exact Ea.
  Qed.
  Lemma nth_error_upd_nth_eq {A} (l : list A) i g a : nth_error l i = Some a -> nth_error (upd_nth l i g) i = Some (g a).
  Proof. revert i; induction l as [|y l IH]; intros [|i] E; cbn in *; try discriminate; [inversion E; reflexivity|auto]. Qed.
  Lemma flush_entry_grows s e i a : nth_error (s_kids s) i = Some a ->
    exists a', nth_error (s_kids (flush_entry s e)) i = Some a' /\ (length (c_obs a) <= length (c_obs a'))%nat.
  Proof.
    destruct e as [[[[t k] c] p] po]. cbn [flush_entry on_child set_kids s_kids].
    change (fun k0 : child => book_batch po (book_val (fun v => if num_is_zero p then v else num_add v p) k0)) with (fl_fun p po).
    revert i c; induction (s_kids s) as [|y l IH]; intros [|i] [|c] E; cbn in *; try discriminate.
    - inversion E; subst. eexists; split; [reflexivity|]. rewrite fl_fun_obs, app_length. lia.
    - inversion E; subst. eexists; split; [reflexivity|]. lia.
    - eexists; split; [exact E|]. lia.
    - apply IH. exact E.
  Qed.
  Lemma flush_all_grows cache : forall s i a, nth_error (s_kids s) i = Some a ->
    exists a', nth_error (s_kids (flush_all s cache)) i = Some a' /\ (length (c_obs a) <= length (c_obs a'))%nat.
  Proof.
    induction cache as [|e cache IH]; intros s i a E; cbn [flush_all fold_left]; [eauto|].
    destruct (flush_entry_grows s e i a E) as (a1 & E1 & L1).
    destruct (IH (flush_entry s e) i a1 E1) as (a2 & E2 & L2). exists a2. split; [exact E2|lia].
  Qed.
  Lemma flush_all_slots cache : forall s, s_slots (flush_all s cache) = s_slots s /\ length (s_kids (flush_all s cache)) = length (s_kids s).
  Proof.
    induction cache as [|[[[[t k] c] p] po] cache IH]; intros s; cbn [flush_all fold_left]; [auto|].
    destruct (IH (flush_entry s (t, k, c, p, po))) as [A B]. unfold flush_all in *. rewrite A, B.
    cbn [flush_entry on_child set_kids s_slots s_kids]. rewrite upd_nth_length. auto.
  Qed.
  Lemma flush_sim_h n cache wc : Forall2 (ereh n) cache wc -> forall s w, Rh s w -> kids_small (flush_all s cache) = true ->
    Rh (flush_all s cache) (fold_left (fun w0 (e : N * (nat * lhist)) => let '(_, (c, l)) := e in flush_lh w0 c l) wc w).
  Proof.
    induction 1 as [|[[[[t k] c] p] po] we cache wc (-> & Ht' & Hc') H IH]; intros s w HR Hs; cbn [flush_all fold_left] in *; [exact HR|].
    apply IH; [|exact Hs]. apply flush_entry_sim; [exact HR|]. intros a Ea.
    pose proof (nth_error_upd_nth_eq _ _ (fl_fun p po) _ Ea) as E1.
    destruct (flush_all_grows cache (flush_entry s (t, k, c, p, po)) c (fl_fun p po a) E1) as (a' & E2 & L).
    pose proof (kids_small_nth _ _ _ Hs E2) as Hb. rewrite fl_fun_obs in L. pose proof two63_lt_two64. lia.
  Qed.

  (* ---- the local caches ---- *)
  Lemma cache_find_nlookup_h n cache wc t : Forall2 (ereh n) cache wc -> In t T ->
    match cache_find same0 (keyed key0 t) cache with
    | Some (t', k', c, p, po) => t' = t /\ nlookup (hk t) wc = Some (c, local_of bs po) /\ (c < n)%nat
    | None => nlookup (hk t) wc = None
    end.
  Proof.
    intros H Ht. unfold keyed, key0. induction H as [|[[[[t' k'] c] p] po] we cache wc (-> & Ht' & Hc) H IH]; cbn [cache_find nlookup]; [reflexivity|].
    unfold same0 at 1. cbn [fst]. destruct (tuple_eqb t' t) eqn:E.
    - apply tuple_eqb_eq in E. subst t'. rewrite N.eqb_refl. auto.
    - destruct (N.eqb_spec (hk t) (hk t')) as [Eh|Eh]; [|exact IH].
      apply Hinj in Eh; auto. subst t'. rewrite tuple_eqb_refl in E. discriminate.
  Qed.
  Lemma map_keys_same_h (h : N) (x : nat * lhist) (wc : list (N * (nat * lhist))) :
    map fst (map (fun e => if fst e =? h then (h, x) else e) wc) = map fst wc.
  Proof.
    induction wc as [|[k y] wc IH]; cbn [map fst]; [reflexivity|]. rewrite IH. f_equal.
    destruct (N.eqb_spec k h) as [->|]; reflexivity.
  Qed.
  Lemma map_notin_id_h (h : N) (x : nat * lhist) (wc : list (N * (nat * lhist))) : ~ In h (map fst wc) ->
    map (fun e => if fst e =? h then (h, x) else e) wc = wc.
  Proof.
    induction wc as [|[k y] wc IH]; cbn [map fst In]; [reflexivity|]. intros H.
    destruct (N.eqb_spec k h) as [->|]; [exfalso; auto|]. rewrite IH; auto.
  Qed.
  Lemma cache_update_rel_h n cache wc t c po x : creh n cache wc -> In t T -> nlookup (hk t) wc = Some (c, local_of bs po) ->
    (forall t' k' c' p' po', cache_find same0 (keyed key0 t) cache = Some (t', k', c', p', po') -> po' = po) ->
    creh n (cache_update same0 (keyed key0 t) (fun e : centry => let '(t0, k, c0, p, po0) := e in (t0, k, c0, p, po0 ++ [x])) cache)
         (map (fun e => if fst e =? hk t then (hk t, (c, lh_observe bs (local_of bs po) x)) else e) wc).
  Proof.
    intros [H Nd] Ht Hl Hpo. split; [|rewrite map_keys_same_h; exact Nd]. unfold keyed, key0 in *.
    induction H as [|[[[[t' k'] c'] p] po1] we cache wc (-> & Ht' & Hc') H IH]; cbn [cache_update map]; [constructor|].
    cbn [cache_find] in Hpo. unfold same0 at 1 in Hpo. unfold same0 at 1. cbn [fst] in *. cbn [nlookup] in Hl. cbn [map fst] in Nd. inversion Nd; subst.
    destruct (tuple_eqb t' t) eqn:E.
    - apply tuple_eqb_eq in E. subst t'. rewrite N.eqb_refl in *. inversion Hl; subst.
      rewrite (Hpo _ _ _ _ _ eq_refl). rewrite map_notin_id_h; auto.
      constructor; auto. split; [|auto]. rewrite C12Spec.local_snoc. reflexivity.
    - destruct (N.eqb_spec (hk t) (hk t')) as [Eh|Eh].
      + apply Hinj in Eh; auto. subst t'. rewrite tuple_eqb_refl in E. discriminate.
      + destruct (N.eqb_spec (hk t') (hk t)); [congruence|]. constructor; [repeat split; auto|]. apply IH; auto.
  Qed.
  Lemma cache_remove_rel_h n cache wc t : creh n cache wc -> In t T ->
    creh n (cache_remove same0 (keyed key0 t) cache) (nremove (hk t) wc).
  Proof.
    intros [H Nd] Ht. split; [|apply nremove_nodup; exact Nd]. clear Nd. unfold keyed, key0.
    induction H as [|[[[[t' k'] c'] p] po] we cache wc (-> & Ht' & Hc') H IH]; cbn [cache_remove nremove]; [constructor|].
    unfold same0 at 1. cbn [fst]. destruct (tuple_eqb t' t) eqn:E.
    - apply tuple_eqb_eq in E. subst t'. rewrite N.eqb_refl. exact IH.
    - destruct (N.eqb_spec (hk t) (hk t')) as [Eh|Eh].
      + apply Hinj in Eh; auto. subst t'. rewrite tuple_eqb_refl in E. discriminate.
      + constructor; [repeat split; auto|exact IH].
  Qed.
  Lemma cleared_rel_h n cache wc : creh n cache wc ->
    creh n (cleared cache) (map (fun e : N * (nat * lhist) => let '(h, (c, l)) := e in (h, (c, lh_clear l))) wc).
  Proof.
    intros [H Nd]. split.
    - clear Nd. induction H as [|[[[[t' k'] c'] p] po] we cache wc (-> & Ht' & Hc') H IH]; cbn [cleared map]; constructor; auto.
      repeat split; auto. rewrite local_clear. reflexivity.
    - replace (map fst (map (fun e : N * (nat * lhist) => let '(h, (c, l)) := e in (h, (c, lh_clear l))) wc)) with (map fst wc); auto.
      clear. induction wc as [|[h [c v]] wc IH]; cbn; auto. f_equal. exact IH.
  Qed.
  Lemma bounds_of_kid s w c : Rh s w -> (c < length (s_kids s))%nat -> bounds_of w c = bs.
  Proof.
    intros HR Hc. destruct (nth_error (s_kids s) c) as [a|] eqn:Ea; [|apply nth_error_None in Ea; lia].
    destruct (Forall2_nth_error_l _ _ _ _ _ (Rh_kids _ _ HR) Ea) as (x & Ex & (_ & _ & _ & Hb & _)).
    unfold bounds_of. rewrite Ex. exact Hb.
  Qed.

  (* ---- collecting ---- *)
  Lemma hist_metric_shown c x : crelh c x -> N.of_nat (length (c_obs c)) < two64 ->
    exists m x', hist_metric x = Some (m, x') /\ crelh c x' /\ metric_matches info c m = true.
  Proof.
    intros (Hl & Hv & Hin & Hb & Hr) Hs.
    destruct (C12Spec.hrel_collect (hb_of c) x Hr Hs) as (m & x' & Hm & Hr' & Hok & Hb').
    destruct (hist_metric_shape _ _ _ Hm) as (Hl' & p & ->).
    exists (mkMetric (hc_labels x) None None None None (Some p) None), x'. split; [exact Hm|]. split.
    - unfold crelh. rewrite Hl', Hb'. auto.
    - unfold metric_matches. rewrite Hkind. cbn [m_label m_histogram m_counter m_gauge].
      rewrite labels_eq_h, Hl, lps_eqb_refl. exact Hok.
  Qed.
  Lemma collect_all_shown_h kids cells : Forall2 crelh kids cells ->
    Forall (fun c => N.of_nat (length (c_obs c)) < two64) kids -> forall pre w, w_h w = pre ++ cells ->
    exists ms w' cells', collect_children w (VKHist bs0) (live_entries kids (length pre)) = Some (ms, w')
      /\ all_shown info (filter (fun c => Nat.eqb (c_vec c) O && c_live c) kids) ms = true
      /\ w_h w' = pre ++ cells' /\ Forall2 crelh kids cells'
      /\ w_vec w' = w_vec w /\ w_slots w' = w_slots w.
  Proof.
    induction 1 as [|c x kids cells Hc H IH]; intros Hb pre w Ew.
    - exists [], w, []. repeat split; auto.
    - inversion Hb as [|? ? Hb1 Hb2]; subst. pose proof Hc as (Hl & Hv & Hin & Hinv).
      cbn [live_entries filter]. rewrite Hv. cbn [Nat.eqb andb]. destruct (c_live c).
      + destruct (hist_metric_shown c x Hc Hb1) as (m & x' & Hm & Hc' & Hmm).
        cbn [collect_children]. unfold collect_hist. rewrite Ew, nth_error_app_mid, Hm, list_set_app_mid.
        destruct (IH Hb2 (pre ++ [x']) (set_h w (pre ++ x' :: cells))) as (ms & w' & cells' & Hcc & Hall & Ew' & Hk' & Ev' & Es').
        { cbn [set_h w_h]. rewrite <- app_assoc. reflexivity. }
        rewrite app_length in Hcc. cbn [length] in Hcc. rewrite Nat.add_1_r in Hcc. rewrite Hcc.
        exists (m :: ms), w', (x' :: cells'). split; [reflexivity|]. cbn [all_shown take_match]. rewrite Hmm.
        split; [exact Hall|]. split; [rewrite Ew', <- app_assoc; reflexivity|]. split; [constructor; auto|]. auto.
      + destruct (IH Hb2 (pre ++ [x]) w) as (ms & w' & cells' & Hcc & Hall & Ew' & Hk' & Ev' & Es').
        { rewrite Ew, <- app_assoc. reflexivity. }
        rewrite app_length in Hcc. cbn [length] in Hcc. rewrite Nat.add_1_r in Hcc.
        exists ms, w', (x :: cells'). split; [exact Hcc|]. split; [exact Hall|].
        split; [rewrite Ew', <- app_assoc; reflexivity|]. split; [constructor; auto|]. auto.
  Qed.

  (* ---- one operation ---- *)
  Definition tup_ok_h (o : op) : Prop := forall t, In t (op_tuples (vi_names info) o) -> In t T.

  Ltac slotsh HR sl :=
    let H := fresh "Hsl" in
    pose proof (ent_srelh _ _ sl HR) as H;
    remember (ent _ sl) as e eqn:Ee; remember (slot _ sl) as h eqn:Eh;
    destruct H as [| |i Hi|cache wc Hc].
  Ltac rdh := cbn [snd fst is_unit is_ok is_err is_panic nth_error]; cbn beta iota zeta.
  Ltac pushh HR := rdh; eexists; split; [reflexivity|]; intros _; apply Rh_push; [exact HR|constructor].
  Ltac sameh HR := rdh; eexists; split; [reflexivity|]; intros _; exact HR.

  Lemma with_tuple_sim_h s w t : Rh s w -> In t T -> length t = length (vi_names info) ->
    exists s', (let '(s', c) := request same0 s O info (keyed key0 t) in Some (push s' (SChild c))) = Some s'
      /\ exists w' i, vec_get_or_create w O (hk t) t = Ok (w', HHist i) /\ Rh s' (push_slot w' (HHist i)).
  Proof.
    intros HR Ht El. destruct (request_sim_h s w t HR Ht El) as (i & w' & G & Ei & HR' & Es & Ew & Hi).
    destruct (request same0 s O info (keyed key0 t)) as [s' c] eqn:Er. cbn [fst snd] in *. subst c.
    eexists. split; [reflexivity|]. exists w', i. split; [exact G|]. apply Rh_push; auto. constructor; auto.
  Qed.
  Lemma remove_sim_h s w t : Rh s w -> In t T ->
    let r := match vec_delete w O (hk t) with Ok w' => (w', ORes (Ok tt)) | Err e => (w, ORes (Err e)) end in
    exists s', match unexport same0 s O (keyed key0 t) with
               | Some s1 => if is_ok (snd r) then Some s1 else None
               | None => if is_err (snd r) then Some s else None
               end = Some s' /\ Rh s' (fst r).
  Proof.
    intros HR Ht. pose proof (unexport_sim_h s w t HR Ht) as U. cbn zeta.
    destruct (unexport same0 s O (keyed key0 t)) as [s1|].
    - destruct U as (w' & -> & HR'). cbn. eauto.
    - destruct U as (e & ->). cbn. eauto.
  Qed.
  Lemma reset_kids_h kids cells : Forall2 crelh kids cells ->
    let kids' := map (fun c => if Nat.eqb (c_vec c) O then mkChild (c_vec c) (c_tuple c) (c_key c) false (c_val c) (c_obs c) (c_sum c) else c) kids in
    Forall2 crelh kids' cells /\ (forall n, live_entries kids' n = []) /\ length kids' = length kids.
  Proof.
    cbn zeta. induction 1 as [|c x kids cells Hc H IH]; cbn [map live_entries length].
    - repeat split; auto; constructor.
    - destruct IH as (A & B & C). pose proof Hc as (Hl & Hvec & Hin & Hb & Hinv). rewrite Hvec. cbn [Nat.eqb c_live].
      split; [constructor; [unfold crelh; cbn; auto|exact A]|]. split; [intros n; apply B|]. rewrite C; reflexivity.
  Qed.
  Lemma cache_find_In t cache e : cache_find same0 t cache = Some e -> In e cache.
  Proof.
    induction cache as [|[[[[t' k'] c] p] po] cache IH]; cbn [cache_find]; [discriminate|].
    destruct (same0 (t', k') t); [intros H; inversion H; left; reflexivity|intros H; right; auto].
  Qed.

  Lemma sim_step_h s w o : Rh s w -> allowed_hist o = true -> tup_ok_h o -> st_small s = true ->
    exists s', sstep key0 same0 s o (snd (step w o)) = Some s' /\ (st_small s' = true -> Rh s' (fst (step w o))).
  Proof.
    intros HR Ha Ht Hsm.
    pose proof (Rh_vecs _ _ HR) as Evs. destruct (Rh_vec _ _ HR) as (vc & Ev & Ed & Ek & Co & Ech).
    assert (Evars : d_vars (v_desc vc) = vi_names info) by (rewrite Ed; exact Hnames).
    destruct o; try discriminate Ha; unfold sstep; cbn [step].
    - (* OpWith *)
      slotsh HR s0; try pushh HR.
      rewrite Evs, Ev. rdh. unfold card_ok.
      destruct (Nat.eqb (length vals) (length (vi_names info))) eqn:El.
      + apply Nat.eqb_eq in El. rewrite hash_label_values_ok by (rewrite Evars; exact El).
        change (fnv1a (label_values_preimage vals)) with (hk vals).
        destruct (with_tuple_sim_h s w vals HR (Ht vals (or_introl eq_refl)) El) as (s' & Es' & w' & i & G & HR').
        rewrite G. rdh. exists s'. split; [exact Es'|intros _; exact HR'].
      + apply Nat.eqb_neq in El. rewrite hash_label_values_err by (rewrite Evars; exact El). pushh HR.
    - (* OpWithMap *)
      slotsh HR s0; try pushh HR.
      rewrite Evs, Ev. rdh. rewrite <- Evars. rewrite map_tuple_hash_labels.
      assert (Ht' : forall t, map_tuple (d_vars (v_desc vc)) kvs = Some t -> In t T).
      { intros t E. apply Ht. cbn [op_tuples]. rewrite <- Evars, E. left; reflexivity. }
      rewrite map_tuple_hash_labels in Ht'.
      destruct (hash_labels (v_desc vc) (amap_of kvs)) as [[h' vs]|e'] eqn:Ehl; [|pushh HR].
      apply hash_labels_ok_inv in Ehl as (_ & _ & _ & Ehl). apply hash_label_values_inv in Ehl as [El ->].
      change (fnv1a (label_values_preimage vs)) with (hk vs). rewrite Evars in El.
      destruct (with_tuple_sim_h s w vs HR (Ht' vs eq_refl) El) as (s' & Es' & w' & i & G & HR').
      rewrite G. rdh. exists s'. split; [exact Es'|intros _; exact HR'].
    - (* OpRemove *)
      slotsh HR s0; try sameh HR.
      rewrite Evs, Ev. rdh. unfold card_ok.
      destruct (Nat.eqb (length vals) (length (vi_names info))) eqn:El.
      + apply Nat.eqb_eq in El. rewrite hash_label_values_ok by (rewrite Evars; exact El).
        change (fnv1a (label_values_preimage vals)) with (hk vals).
        destruct (remove_sim_h s w vals HR (Ht vals (or_introl eq_refl))) as (s' & E' & HR'). exists s'. split; [exact E'|intros _; exact HR'].
      + apply Nat.eqb_neq in El. rewrite hash_label_values_err by (rewrite Evars; exact El). sameh HR.
    - (* OpRemoveMap *)
      slotsh HR s0; try sameh HR.
      rewrite Evs, Ev. rdh. rewrite <- Evars. rewrite map_tuple_hash_labels.
      assert (Ht' : forall t, map_tuple (d_vars (v_desc vc)) kvs = Some t -> In t T).
      { intros t E. apply Ht. cbn [op_tuples]. rewrite <- Evars, E. left; reflexivity. }
      rewrite map_tuple_hash_labels in Ht'.
      destruct (hash_labels (v_desc vc) (amap_of kvs)) as [[h' vs]|e'] eqn:Ehl; [|sameh HR].
      apply hash_labels_ok_inv in Ehl as (_ & _ & _ & Ehl). apply hash_label_values_inv in Ehl as [El ->].
      change (fnv1a (label_values_preimage vs)) with (hk vs).
      destruct (remove_sim_h s w vs HR (Ht' vs eq_refl)) as (s' & E' & HR'). exists s'. split; [exact E'|intros _; exact HR'].
    - (* OpReset on the vector's own slot *)
      apply Nat.eqb_eq in Ha. subst s0.
      assert (E0 : ent s O = SVec O) by (unfold ent; rewrite (nth_error_nth _ _ _ (Rh_slot0 _ _ HR)); reflexivity).
      slotsh HR O; try discriminate E0.
      rdh. eexists; split; [reflexivity|]. intros _. destruct (reset_kids_h _ _ (Rh_kids _ _ HR)) as (A & B & C).
      destruct HR as [A1 _ C1 D1 E1 F1]. constructor; cbn [set_kids set_vec s_vecs s_kids s_slots w_vec w_h w_slots]; auto.
      + rewrite Ev. unfold upd. cbn [nth_error list_set]. eexists. split; [reflexivity|].
        cbn [vec_set_children v_desc v_kind v_children]. rewrite B. auto.
      + rewrite B. constructor.
      + rewrite C. exact E1.
    - (* OpObserve *)
      slotsh HR s0; try sameh HR.
      rdh. eexists; split; [reflexivity|]. intros _.
      apply Rh_cell; [exact HR| |intros a; split; reflexivity].
      intros a b Ea Hab. apply observe_rel; [exact Hab|].
      pose proof (st_small_nth _ _ _ Hsm Ea). rewrite app_length. cbn [length]. unfold two63, two64 in *. lia.
    - (* OpSampleSum *)
      slotsh HR s0; try sameh HR.
      destruct (nth_error (s_kids s) i) as [k|] eqn:Ek'; [|apply nth_error_None in Ek'; lia].
      destruct (Forall2_nth_error_l _ _ _ _ _ (Rh_kids _ _ HR) Ek') as (x & Ex & (_ & _ & _ & _ & Hr)).
      rewrite Ex. rdh. destruct (C12Spec.hrel_reads _ _ Hr) as [_ ->]. cbn [hb_of SpecC12.hb_sum]. rewrite f64_eqb_refl.
      eexists; split; [reflexivity|intros _; exact HR].
    - (* OpSampleCount *)
      slotsh HR s0; try sameh HR.
      destruct (nth_error (s_kids s) i) as [k|] eqn:Ek'; [|apply nth_error_None in Ek'; lia].
      destruct (Forall2_nth_error_l _ _ _ _ _ (Rh_kids _ _ HR) Ek') as (x & Ex & (_ & _ & _ & _ & Hr)).
      rewrite Ex. rdh. destruct (C12Spec.hrel_reads _ _ Hr) as [-> _]. cbn [hb_of SpecC12.hb_count]. rewrite N.eqb_refl.
      eexists; split; [reflexivity|intros _; exact HR].
    - (* OpLocal on the vector's own slot *)
      apply Nat.eqb_eq in Ha. subst s0.
      assert (E0 : ent s O = SVec O) by (unfold ent; rewrite (nth_error_nth _ _ _ (Rh_slot0 _ _ HR)); reflexivity).
      slotsh HR O; try discriminate E0.
      rewrite Ev. rdh. rewrite Ek. rdh. eexists; split; [reflexivity|]. intros _. apply Rh_push; [exact HR|]. constructor. split; constructor.
    - (* OpFlush *)
      slotsh HR s0; try sameh HR.
      rdh. eexists; split; [reflexivity|]. intros Hs'.
      destruct (flush_all_slots cache s) as [B D].
      unfold st_small in Hs'. apply andb_true_iff in Hs' as [Hs' _].
      eapply Rh_set_slot; [apply (flush_sim_h _ cache wc (proj1 Hc) s w HR); exact Hs'| |].
      + unfold ent. rewrite B. symmetry. exact Ee.
      + rewrite D. constructor. apply cleared_rel_h. exact Hc.
    - (* OpClone *)
      slotsh HR s0; rdh; (eexists; split; [reflexivity|]); intros _; apply Rh_push; try exact HR; constructor; auto. split; constructor.
    - (* OpDrop of any handle but the vector's own: a local histogram vector flushes *)
      apply negb_true_iff in Ha. apply Nat.eqb_neq in Ha.
      slotsh HR s0.
      + rdh. eexists; split; [reflexivity|]. intros _. apply Rh_drop_none; [exact HR|symmetry; exact Ee].
      + rdh. eexists; split; [reflexivity|]. intros _. apply Rh_drop_slot; [exact HR|exact Ha|constructor].
      + rdh. eexists; split; [reflexivity|]. intros _. apply Rh_drop_slot; [exact HR|exact Ha|constructor].
      + rewrite Evs. rdh. rewrite Hkind. eexists; split; [reflexivity|]. intros Hs'.
        unfold st_small in Hs'. apply andb_true_iff in Hs' as [Hs' _].
        destruct (flush_all_slots cache s) as [B D].
        apply Rh_drop_slot; [apply (flush_sim_h _ cache wc (proj1 Hc) s w HR); exact Hs'|exact Ha|constructor].
    - (* OpLvObserve *)
      slotsh HR s0; try sameh HR.
      rewrite Evs, Ev. rdh. unfold card_ok.
      destruct (Nat.eqb (length vals) (length (vi_names info))) eqn:El.
      2:{ apply Nat.eqb_neq in El. rewrite hash_label_values_err by (rewrite Evars; exact El). sameh HR. }
      apply Nat.eqb_eq in El. rewrite hash_label_values_ok by (rewrite Evars; exact El).
      change (fnv1a (label_values_preimage vals)) with (hk vals).
      assert (Hin : In vals T) by (apply Ht; left; reflexivity).
      pose proof (cache_find_nlookup_h _ cache wc vals (proj1 Hc) Hin) as CF.
      unfold local_update.
      destruct (cache_find same0 (keyed key0 vals) cache) as [[[[[t' k'] c'] p] po]|] eqn:Ecf.
      + destruct CF as (-> & CF & Hc'). rewrite CF. rdh. rewrite (bounds_of_kid s w c' HR Hc').
        eexists; split; [reflexivity|]. intros _.
        apply Rh_raise. eapply Rh_set_slot; [exact HR|symmetry; exact Ee|]. constructor.
        apply cache_update_rel_h; auto. intros t1 k1 c1 p1 po1 E1. rewrite Ecf in E1. inversion E1; reflexivity.
      + rewrite CF. destruct (request_sim_h s w vals HR Hin El) as (i & w' & G & Ei & HR' & Es & Ew & Hi').
        rewrite G. rdh. destruct (request same0 s O info (keyed key0 vals)) as [s' c] eqn:Er. cbn [fst snd] in *. subst c.
        rewrite (bounds_of_kid s' w' i HR' Hi').
        eexists; split; [reflexivity|]. intros _.
        eapply Rh_set_slot; [exact HR'|unfold ent; rewrite Es; symmetry; exact Ee|]. constructor.
        destruct Hc as [Hc1 Hc2]. split.
        * apply Forall2_snoc.
          -- eapply Forall2_impl; [|exact Hc1]. intros a b. apply ereh_mono.
             destruct (request_sim_h s w vals HR Hin El) as (_ & _ & _ & _ & _ & _ & _ & _). 
             pose proof (Forall2_length _ _ _ (Rh_kids _ _ HR)). pose proof (Forall2_length _ _ _ (Rh_kids _ _ HR')).
             unfold request in Er. destruct (find_live same0 O (keyed key0 vals) (s_kids s) O) as [[i0 c0]|]; inversion Er; subst; cbn [raise set_kids s_kids]; rewrite ?app_length; lia.
          -- unfold keyed, key0. cbn [fst snd ereh app]. repeat split; auto.
        * rewrite map_app. cbn [map fst]. apply NoDup_app_intro; auto.
          -- constructor; [intros []|constructor].
          -- intros x0 [<-|[]]. apply nlookup_None. exact CF.
    - (* OpLvRemove *)
      slotsh HR s0; try sameh HR.
      rewrite Evs, Ev. rdh. unfold card_ok.
      destruct (Nat.eqb (length vals) (length (vi_names info))) eqn:El.
      2:{ apply Nat.eqb_neq in El. rewrite hash_label_values_err by (rewrite Evars; exact El). sameh HR. }
      apply Nat.eqb_eq in El. rewrite hash_label_values_ok by (rewrite Evars; exact El).
      change (fnv1a (label_values_preimage vals)) with (hk vals).
      assert (Hin : In vals T) by (apply Ht; left; reflexivity).
      pose proof (cache_find_nlookup_h _ cache wc vals (proj1 Hc) Hin) as CF.
      rewrite Hkind.
      set (fl := match cache_find same0 (keyed key0 vals) cache with
                 | Some (t', _, _, _, _) => negb (tuple_eqb t' vals)
                 | None => false
                 end). clearbody fl.
      assert (HR1 : exists s1 w0, s1 = match cache_find same0 (keyed key0 vals) cache with Some e0 => flush_entry s e0 | None => s end
                     /\ w0 = match nlookup (hk vals) wc with Some (c, l) => flush_lh w c l | None => w end
                     /\ Rh s1 w0 /\ s_slots s1 = s_slots s /\ length (s_kids s1) = length (s_kids s)).
      { destruct (cache_find same0 (keyed key0 vals) cache) as [[[[[t' k'] c'] p] po]|] eqn:Ecf.
        - destruct CF as (-> & CF & Hc'). rewrite CF. eexists _, _. split; [reflexivity|]. split; [reflexivity|]. split.
          + apply flush_entry_sim; [exact HR|]. intros a Ea.
            pose proof (st_small_nth _ _ _ Hsm Ea) as B1.
            pose proof (st_small_entry _ _ _ _ _ Hsm (eq_sym Ee) (cache_find_In _ _ _ Ecf)) as B2.
            cbn [entry_small] in B2. apply N.ltb_lt in B2. rewrite app_length, Nat2N.inj_add. apply two63_double; auto.
          + cbn [flush_entry on_child set_kids s_slots s_kids]. rewrite upd_nth_length. auto.
        - rewrite CF. eexists _, _. split; [reflexivity|]. split; [reflexivity|]. auto. }
      destruct HR1 as (s1 & w0 & Es1 & Ew0 & HR1 & Sl1 & Ln1). rewrite <- Es1, <- Ew0.
      assert (HR2 : Rh (raise (set_slot s1 s0 (SLocal O (cache_remove same0 (keyed key0 vals) cache))) fl)
                      (put_slot w0 s0 (HLocalHistVec O (nremove (hk vals) wc)))).
      { apply Rh_raise. eapply Rh_set_slot; [exact HR1|unfold ent; rewrite Sl1; symmetry; exact Ee|]. rewrite Ln1. constructor.
        apply cache_remove_rel_h; auto. }
      destruct (remove_sim_h _ _ vals HR2 Hin) as (s' & E' & HR'). exists s'. split; [exact E'|intros _; exact HR'].
    - (* OpCollect *)
      assert (Bd : Forall (fun c => N.of_nat (length (c_obs c)) < two64) (s_kids s)).
      { apply Forall_forall. intros c Hc0. apply In_nth_error in Hc0 as (i0 & Ei0). pose proof (st_small_nth _ _ _ Hsm Ei0).
        pose proof two63_lt_two64. lia. }
      slotsh HR s0; try sameh HR.
      + (* the vector *)
        unfold collector_of. rewrite Evs, Ev. rdh. unfold collect_collector. rewrite Ev. rdh. rewrite Ek, Ech.
        destruct (collect_all_shown_h _ _ (Rh_kids _ _ HR) Bd [] w eq_refl) as (ms & w' & cells' & Hcc & Hall & Ew' & Hk' & Ev' & Es').
        cbn [length] in Hcc. rewrite Hcc. rdh. unfold collect_ok. cbn [mf_type mf_metric veckind_mtype]. rewrite Hkind, Hall.
        cbn [kind_mtype mtype_eqb andb]. eexists; split; [reflexivity|]. intros _.
        destruct HR as [A1 B1 C1 D1 E1 F1]. constructor; auto.
        * exists vc. rewrite Ev', Ev. auto.
        * rewrite Ew'. exact Hk'.
        * rewrite Es'. exact E1.
      + (* a child collected on its own *)
        destruct (nth_error (s_kids s) i) as [k|] eqn:Ek'; [|apply nth_error_None in Ek'; lia].
        destruct (Forall2_nth_error_l _ _ _ _ _ (Rh_kids _ _ HR) Ek') as (x & Ex & Hcx).
        assert (Hbk : N.of_nat (length (c_obs k)) < two64).
        { rewrite Forall_forall in Bd. apply Bd. eapply nth_error_In; eauto. }
        destruct (hist_metric_shown k x Hcx Hbk) as (m & x' & Hm & Hc' & _).
        unfold collector_of. rewrite Ex. rdh. unfold collect_collector, collect_hist. rewrite Ex, Hm. rdh.
        eexists; split; [reflexivity|]. intros _.
        destruct HR as [A1 B1 C1 D1 E1 F1]. constructor; cbn [set_h w_vec w_h w_slots]; auto.
        apply Forall2_list_set_r; auto. intros a Ea. assert (a = k) by congruence. subst a. exact Hc'.
  Qed.

  Lemma small_walk_head s ops obs : small_walk s ops obs = true -> st_small s = true.
  Proof. destruct ops, obs; cbn [small_walk]; intros H; apply andb_true_iff in H; apply H. Qed.
  Lemma sim_walk_h ops : forall s w, Rh s w -> Forall (fun o => allowed_hist o = true) ops -> Forall tup_ok_h ops ->
    small_walk s ops (run w ops) = true ->
    exists b, walk key0 same0 s ops (run w ops) = Some b.
  Proof.
    induction ops as [|o ops IH]; intros s w HR Fa Ft Hsw; cbn [run walk]; [eauto|].
    inversion Fa; subst. inversion Ft; subst. pose proof (small_walk_head _ _ _ Hsw) as Hsm.
    destruct (sim_step_h s w o HR H1 H3 Hsm) as (s' & Es & HR'). cbn [run] in Hsw.
    destruct (step w o) as [w' ob]. cbn [fst snd] in *.
    cbn [walk small_walk] in *. rewrite Es in *. apply andb_true_iff in Hsw as [_ Hsw].
    apply IH with (w := w'); auto. apply HR'. exact (small_walk_head _ _ _ Hsw).
  Qed.
End SimHist.

(* ================= 5. the theorem ================= *)
(* histogram vector scenarios: valid buckets; requests, removals, reset of the vector, observe / sample_count /
   sample_sum through handles, collect, clone, local histogram vectors (local on the vector's own slot, observe,
   flush, remove); along the run no ledger count reaches 2^63 (a u64 count cannot wrap) *)
Definition in_domain_hist (ops : list op) : bool :=
  match ops with
  | OpHistVec ho labels :: rest =>
      is_Ok (vec_create (opts_with_vars (ho_common ho) labels) (VKHist (ho_buckets ho)))
      && match check_and_adjust_buckets (ho_buckets ho) with Some _ => true | None => false end
      && forallb allowed_hist rest && small_walk st0 ops (run world0 ops)
  | _ => false
  end.
Definition in_domain (ops : list op) : bool := in_domain_value ops || in_domain_hist ops.

Lemma hist_scenario ho labels rest v bs :
  vec_create (opts_with_vars (ho_common ho) labels) (VKHist (ho_buckets ho)) = Ok v ->
  check_and_adjust_buckets (ho_buckets ho) = Some bs ->
  forallb allowed_hist rest = true ->
  no_collision_on (all_tuples labels rest) = true ->
  let info := mkVI KHist labels (o_consts (ho_common ho)) in
  let s1 := mkSt [info] [] [SVec O] false in
  let w1 := push_slot (set_vec world0 [v]) (HVec O) in
  small_walk s1 rest (run w1 rest) = true ->
  exists b, walk key0 same0 s1 rest (run w1 rest) = Some b.
Proof.
  intros Hv Hb Ha Hn info s1 w1 Hsw.
  destruct (vec_create_inv _ _ _ Hv) as (Co & Eo & Ek & Ech).
  pose proof Co as [Dd _]. rewrite Eo in Dd. unfold describe in Dd. cbn [opts_with_vars o_vars o_consts o_help] in Dd.
  apply desc_new_inv in Dd as (_ & _ & _ & names & _ & Ed).
  apply (sim_walk_h (all_tuples labels rest) info (v_desc v) (ho_buckets ho) bs).
  - apply no_collision_on_inj. exact Hn.
  - rewrite Ed. reflexivity.
  - rewrite Ed. reflexivity.
  - reflexivity.
  - exact Hb.
  - constructor; cbn; auto.
    + exists v. repeat split; auto; apply Co.
    + constructor.
    + repeat constructor.
  - apply Forall_forall. rewrite forallb_forall in Ha. exact Ha.
  - apply tup_ok_all.
  - exact Hsw.
Qed.

Theorem spec_model_hist ops : in_domain_hist ops = true -> no_collision ops = true -> spec_c05 ops (run world0 ops) = true.
Proof.
  intros Hd Hn. rewrite spec_c05_unfold. unfold in_domain_hist in Hd. unfold no_collision in Hn.
  destruct ops as [|o0 rest]; [discriminate|]. destruct o0; try discriminate Hd; cbn [scenario_names tl] in Hn.
  apply andb_true_iff in Hd as [Hd Hl]. apply andb_true_iff in Hd as [Hd Ha]. apply andb_true_iff in Hd as [Hc Hb].
  destruct (vec_create (opts_with_vars (ho_common o) labels) (VKHist (ho_buckets o))) as [v|e] eqn:Ev; [|discriminate].
  destruct (check_and_adjust_buckets (ho_buckets o)) as [bs|] eqn:Eb; [|discriminate].
  cbn [run step] in Hl. rewrite Ev in Hl. cbn [small_walk sstep new_vec] in Hl. apply andb_true_iff in Hl as [_ Hl].
  destruct (hist_scenario o labels rest v bs Ev Eb Ha Hn Hl) as (b & Hb').
  cbn [run step walk]. rewrite Ev. cbn [walk sstep new_vec]. cbn in Hb'. cbn. rewrite Hb'. reflexivity.
Qed.

(* The model satisfies the property as written from the text: on every scenario of the language in which no two
   different requested tuples share their 64-bit key, the executable statement of C05 (tuples compared by
   equality) holds of the model's own observations.  Hence the oracle can raise no alarm on such a scenario
   as long as the implementation agrees with the model. *)
Theorem spec_model ops : in_domain ops = true -> no_collision ops = true -> spec_c05 ops (run world0 ops) = true.
Proof.
  unfold in_domain. intros Hd Hn. apply orb_true_iff in Hd as [Hd|Hd]; [apply spec_model_value|apply spec_model_hist]; auto.
Qed.

(* the contrapositive: whenever the model's observations contradict the text on a scenario of the language, two
   DIFFERENT tuples named in the scenario have the same FNV-1a-64 key - the recorded class, nothing else *)
Lemma forallb_false {A} (f : A -> bool) l : forallb f l = false -> exists x, In x l /\ f x = false.
Proof.
  induction l as [|a l IH]; cbn; [discriminate|]. destruct (f a) eqn:E; cbn; [|eauto].
  intros H. destruct (IH H) as (x & Hx & Hf). eauto.
Qed.
Theorem model_violation_needs_collision ops : in_domain ops = true -> spec_c05 ops (run world0 ops) = false ->
  exists a b, In a (all_tuples (scenario_names ops) (tl ops)) /\ In b (all_tuples (scenario_names ops) (tl ops))
              /\ a <> b /\ hk a = hk b.
Proof.
  intros Hd Hs. destruct (no_collision ops) eqn:Hn.
  - rewrite (spec_model ops Hd Hn) in Hs. discriminate.
  - unfold no_collision, no_collision_on in Hn. apply forallb_false in Hn as (a & Ha & Hn).
    apply forallb_false in Hn as (b & Hb & Hn). exists a, b. apply orb_false_iff in Hn as [Hne Hh].
    split; [exact Ha|]. split; [exact Hb|]. split.
    + intros ->. rewrite tuple_eqb_refl in Hne. discriminate.
    + apply negb_false_iff in Hh. apply N.eqb_eq in Hh. exact Hh.
Qed.

(* ---- the hypotheses are satisfiable: the boundary-shift corpus scenario of tools/p_C05.py (IntCounterVec, positional
   and map requests for every cut of "abc", a local vector, reads and collects) and a histogram scenario ---- *)
Definition corpus_boundary_cu : list op :=
  [(OpCounterVec NU (mkOpts [] [] [109] [104] (amap_of []) []) [[120];[121]]);
    (OpWith 0%nat [[97;98];[99]]);
    (OpGet 1%nat);
    (OpIncBy 1%nat (VU 1));
    (OpWith 0%nat [[97];[98;99]]);
    (OpGet 2%nat);
    (OpIncBy 2%nat (VU 2));
    (OpWithMap 0%nat [([120],[97;98]);([121],[99])]);
    (OpGet 3%nat);
    (OpIncBy 3%nat (VU 4));
    (OpWithMap 0%nat [([121],[98;99]);([120],[97])]);
    (OpGet 4%nat);
    (OpIncBy 4%nat (VU 8));
    (OpWith 0%nat [[97;98;99];[]]);
    (OpGet 5%nat);
    (OpIncBy 5%nat (VU 16));
    (OpWith 0%nat [[];[97;98;99]]);
    (OpGet 6%nat);
    (OpIncBy 6%nat (VU 32));
    (OpLocal 0%nat);
    (OpLvInc 7%nat [[97];[98;99]] (VU 64));
    (OpLvInc 7%nat [[97;98];[99]] (VU 128));
    (OpFlush 7%nat);
    (OpGet 1%nat);
    (OpGet 2%nat);
    (OpGet 3%nat);
    (OpGet 4%nat);
    (OpGet 5%nat);
    (OpGet 6%nat);
    (OpCollect 0%nat)].
Definition small_hist_scenario : list op :=
  [OpHistVec (mkHOpts (mkOpts [] [] [109] [104] (amap_of [([107], [49])]) []) [bits2f 0x3ff0000000000000; bits2f 0x4010000000000000]) [[120]; [121]];
   OpWith 0%nat [[97; 98]; [99]]; OpObserve 1%nat (bits2f 0x3ff0000000000000);
   OpWithMap 0%nat [([121], [98; 99]); ([120], [97])]; OpObserve 2%nat (bits2f 0x4000000000000000);
   OpWith 0%nat [[97]]; OpCollect 0%nat; OpLocal 0%nat; OpLvObserve 4%nat [[97; 98]; [99]] (bits2f 0x4010000000000000);
   OpLvObserve 4%nat [[]; []] (bits2f 0x4020000000000000); OpFlush 4%nat;
   OpRemove 0%nat [[97; 98]; [99]]; OpLvRemove 4%nat [[97; 98]; [99]]; OpLvObserve 4%nat [[97; 98]; [99]] (bits2f 0x4030000000000000);
   OpWith 0%nat [[97; 98]; [99]]; OpFlush 4%nat;
   OpSampleCount 1%nat; OpSampleSum 2%nat; OpSampleCount 5%nat; OpCollect 0%nat].
Example corpus_in_domain :
  in_domain corpus_boundary_cu = true /\ no_collision corpus_boundary_cu = true
  /\ in_domain small_hist_scenario = true /\ no_collision small_hist_scenario = true.
Proof. vm_compute. repeat split. Qed.
