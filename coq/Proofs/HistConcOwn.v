(* Ownership: every unpublished record belongs to a thread that is still working on it; hence
   when no observe / flush call is in progress every record is published and fully applied. *)
Require Import PV.Model.HistConc PV.Proofs.HistConcLemmas PV.Proofs.HistConcInv PV.Proofs.HistConcProof.
From Coq Require Import List ZArith Lia Bool Arith.
Import ListNotations.
Open Scope Z_scope.

Section S.
Variable B : nat.
Variable Od : ords.

Lemma nth_error_Some_lt {A} (l : list A) i x : nth_error l i = Some x -> (i < length l)%nat.
Proof. intros H. apply nth_error_Some. congruence. Qed.

Definition Own (s : st) : Prop :=
  forall i r, nth_error (recs s) i = Some r -> r_pub r = false -> exists t, thr s t = OWork i.

Lemma own_init : Own init.
Proof. intros i r H. destruct i; discriminate. Qed.

Lemma own_thr_only s t x n' hot' sh' lock' K' snaps' :
  Own s -> (forall i, thr s t <> OWork i) ->
  Own (mk s n' hot' sh' lock' (recs s) K' (set_thr s t x) snaps').
Proof.
  intros O Hn i r Hi Hp. cbn [recs mk] in Hi. destruct (O i r Hi Hp) as [u Hu]. exists u. cbn [thr mk]. unfold set_thr.
  destruct (Nat.eqb u t) eqn:E; auto. apply Nat.eqb_eq in E. subst. exfalso. eapply Hn; eauto.
Qed.

Theorem step_own s s' : Own s -> step B Od s s' -> Own s'.
Proof.
  intros O H. destruct H.
  - apply own_thr_only; auto. congruence.
  - (* claim *)
    intros i r Hi Hp. cbn [recs mk thr] in *. destruct (Nat.lt_ge_cases i (length (recs s))) as [Hl|Hl].
    + rewrite nth_error_app1 in Hi by auto. destruct (O i r Hi Hp) as [u Hu]. exists u. unfold set_thr.
      destruct (Nat.eqb u t) eqn:E; auto. apply Nat.eqb_eq in E. subst. congruence.
    + assert (i = length (recs s)).
      { apply nth_error_Some_lt in Hi. rewrite app_length in Hi. cbn in Hi. lia. }
      subst. exists t. unfold set_thr. rewrite Nat.eqb_refl. reflexivity.
  - (* write *)
    intros i0 r0 Hi Hp. cbn [recs mk thr] in *. destruct (Nat.eq_dec i i0) as [->|Hne].
    + eauto.
    + rewrite nth_error_set_nth_neq in Hi by auto. eauto.
  - (* publish *)
    intros i0 r0 Hi Hp. cbn [recs mk thr] in *. destruct (Nat.eq_dec i i0) as [->|Hne].
    + rewrite nth_error_set_nth_eq in Hi by (eapply nth_error_Some_lt; eauto). inversion Hi; subst. discriminate.
    + rewrite nth_error_set_nth_neq in Hi by auto. destruct (O i0 r0 Hi Hp) as [u Hu]. exists u. unfold set_thr.
      destruct (Nat.eqb u t) eqn:E; auto. apply Nat.eqb_eq in E. subst. congruence.
  - apply own_thr_only; auto. congruence.
  - apply own_thr_only; auto. congruence.
  - apply own_thr_only; auto. congruence.
  - apply own_thr_only; auto. congruence.
  - exact O.
  - apply own_thr_only; auto. congruence.
  - apply own_thr_only; auto. congruence.
  - apply own_thr_only; auto. congruence.
  - apply own_thr_only; auto. congruence.
  - apply own_thr_only; auto. congruence.
  - apply own_thr_only; auto. congruence.
Qed.
End S.
