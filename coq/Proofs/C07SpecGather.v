(* Layer A of the proof that the executable spec of C07 / C14 (Spec/SpecC07.v, Spec/SpecC14.v) holds
   of the model: everything that can be said at the level of one call of gather_families.

   [lib_shape collected]: what the families collected from LIBRARY collectors registered in one
   registry look like (samples of one name: equally many labels, pairwise distinct label-value
   tuples; one help per name).  Under it (and, for the strict form, one type per name)
   [gather_ok] accepts the model's own gather, two gathers of permuted collected lists are equal
   (equal up to the family type in the relaxed form), and every gathered family is homogeneous. *)
Require Import PV.Base.Prelude PV.Base.F64 PV.Base.StrFacts PV.Base.SortFacts.
Require Import PV.Model.Proto PV.Model.Desc PV.Model.Value PV.Model.Hist PV.Model.Vec PV.Model.Registry PV.Model.World.
Require Import PV.Proofs.DescFacts PV.Proofs.GatherFacts.
Require Import PV.Spec.SpecC07 PV.Spec.SpecC14.
From Coq Require Import Permutation Sorting.Sorted.
Open Scope N_scope.

(* ====================================================================================== *)
(* 1. Boolean equalities with a kernel; the multiset comparison.                           *)
(* ====================================================================================== *)
Definition kernel {A B} (e : A -> A -> bool) (k : A -> B) : Prop := forall x y, e x y = true <-> k x = k y.

Lemma kernel_refl {A B} (e : A -> A -> bool) (k : A -> B) : kernel e k -> forall x, e x x = true.
Proof. intros K x. apply K. reflexivity. Qed.
Lemma kernel_list {A B} (e : A -> A -> bool) (k : A -> B) : kernel e k -> kernel (list_eqb e) (map k).
Proof.
  intros K x. induction x as [|a x IH]; destruct y as [|b y]; cbn; split; try discriminate; auto.
  - rewrite andb_true_iff. intros [H1 H2]. f_equal; [apply K; auto|apply IH; auto].
  - intros H. inversion H. rewrite andb_true_iff. split; [apply K; auto|apply IH; auto].
Qed.
Lemma kernel_opt {A B} (e : A -> A -> bool) (k : A -> B) : kernel e k -> kernel (opt_eqb e) (option_map k).
Proof.
  intros K. unfold kernel. intros [a|] [b|]; cbn; split; try discriminate; auto.
  - intros H. f_equal. apply K; auto.
  - intros H. inversion H. apply K; auto.
Qed.
Lemma kernel_str : kernel str_eqb (fun s => s).
Proof. intros x y. apply str_eqb_eq. Qed.
Lemma kernel_f64 : kernel f64_eqb f2bits.
Proof. intros x y. unfold f64_eqb. apply N.eqb_eq. Qed.
Lemma kernel_N : kernel N.eqb (fun n => n).
Proof. intros x y. apply N.eqb_eq. Qed.
Lemma kernel_Z : kernel Z.eqb (fun n => n).
Proof. intros x y. apply Z.eqb_eq. Qed.

Definition lp_key (a : LabelPair) := (lp_name a, lp_value a).
Lemma kernel_lp : kernel lp_eqb lp_key.
Proof.
  intros x y. unfold lp_eqb, lp_key. rewrite andb_true_iff, !str_eqb_eq. split; [intros [-> ->]; auto|intros H; inversion H; auto].
Qed.
Lemma lp_eqb_eq a b : lp_eqb a b = true <-> a = b.
Proof.
  rewrite (kernel_lp a b). unfold lp_key. destruct a, b; cbn. split; intros H; inversion H; auto.
Qed.
Definition bucket_key (a : Bucket) := (b_cum a, f2bits (b_upper a)).
Lemma kernel_bucket : kernel bucket_eqb bucket_key.
Proof.
  intros x y. unfold bucket_eqb, bucket_key. rewrite andb_true_iff, N.eqb_eq, (kernel_f64 _ _).
  split; [intros [-> ->]; auto|intros H; inversion H; auto].
Qed.
Definition quantile_key (a : Quantile) := (f2bits (q_quantile a), f2bits (q_value a)).
Lemma kernel_quantile : kernel quantile_eqb quantile_key.
Proof.
  intros x y. unfold quantile_eqb, quantile_key. rewrite andb_true_iff, !(kernel_f64 _ _).
  split; [intros [-> ->]; auto|intros H; inversion H; auto].
Qed.
Definition hist_key (a : Histogram) := (h_count a, f2bits (h_sum a), map bucket_key (h_bucket a)).
Lemma kernel_hist : kernel hist_eqb hist_key.
Proof.
  intros x y. unfold hist_eqb, hist_key. rewrite !andb_true_iff, N.eqb_eq, (kernel_f64 _ _), (kernel_list _ _ kernel_bucket _ _).
  split; [intros [[-> ->] ->]; auto|intros H; inversion H; auto].
Qed.
Definition summary_key (a : Summary) := (s_count a, f2bits (s_sum a), map quantile_key (s_quantile a)).
Lemma kernel_summary : kernel summary_eqb summary_key.
Proof.
  intros x y. unfold summary_eqb, summary_key. rewrite !andb_true_iff, N.eqb_eq, (kernel_f64 _ _), (kernel_list _ _ kernel_quantile _ _).
  split; [intros [[-> ->] ->]; auto|intros H; inversion H; auto].
Qed.
Definition metric_key (m : Metric) :=
  (map lp_key (m_label m), option_map f2bits (m_gauge m), option_map f2bits (m_counter m), option_map summary_key (m_summary m),
   option_map f2bits (m_untyped m), option_map hist_key (m_histogram m), m_ts m).
Lemma kernel_metric : kernel metric_eqb metric_key.
Proof.
  intros x y. unfold metric_eqb, metric_key.
  rewrite !andb_true_iff, (kernel_list _ _ kernel_lp _ _), !(kernel_opt _ _ kernel_f64 _ _),
    (kernel_opt _ _ kernel_summary _ _), (kernel_opt _ _ kernel_hist _ _), (kernel_opt _ _ kernel_Z _ _).
  replace (option_map (fun n : Z => n) (m_ts x)) with (m_ts x) by (destruct (m_ts x); auto).
  replace (option_map (fun n : Z => n) (m_ts y)) with (m_ts y) by (destruct (m_ts y); auto).
  split.
  - intros [[[[[[-> ->] ->] ->] ->] ->] ->]. reflexivity.
  - intros H. inversion H. repeat split; auto.
Qed.
Lemma metric_eqb_refl m : metric_eqb m m = true.
Proof. apply (kernel_refl _ _ kernel_metric). Qed.
Lemma mtype_eqb_eq a b : mtype_eqb a b = true <-> a = b.
Proof. destruct a, b; cbn; split; intros; try discriminate; auto. Qed.
Lemma mf_eqb_refl f : mf_eqb f f = true.
Proof.
  unfold mf_eqb. rewrite !str_eqb_refl. replace (mtype_eqb (mf_type f) (mf_type f)) with true by (symmetry; apply mtype_eqb_eq; auto).
  cbn. apply (kernel_refl _ _ (kernel_list _ _ kernel_metric)).
Qed.
Lemma list_mf_eqb_refl l : list_eqb mf_eqb l l = true.
Proof. induction l as [|x l IH]; cbn; auto. rewrite mf_eqb_refl, IH. reflexivity. Qed.

Definition sample_key (s : sample) := (fst s, metric_key (snd s)).
Lemma kernel_sample : kernel sample_eqb sample_key.
Proof.
  intros [n1 m1] [n2 m2]. unfold sample_eqb, sample_key. cbn [fst snd]. rewrite andb_true_iff, str_eqb_eq, (kernel_metric _ _).
  split; [intros [-> ->]; reflexivity|].
  intros H. split; [exact (f_equal fst H)|exact (f_equal snd H)].
Qed.

Lemma remove_first_spec {A} (e : A -> A -> bool) x l :
  (exists y, In y l /\ e x y = true) ->
  exists l1 y l2, l = l1 ++ y :: l2 /\ e x y = true /\ remove_first e x l = Some (l1 ++ l2).
Proof.
  induction l as [|z l IH]; intros (y & Hy & E); [destruct Hy|]. cbn [remove_first].
  destruct (e x z) eqn:Ez.
  - exists [], z, l. auto.
  - destruct IH as (l1 & y' & l2 & -> & E' & R).
    + destruct Hy as [->|Hy]; [congruence|]. exists y; auto.
    + exists (z :: l1), y', l2. rewrite R. auto.
Qed.
Lemma multiset_eqb_of_perm {A B} (e : A -> A -> bool) (k : A -> B) a : kernel e k ->
  forall b, Permutation (map k a) (map k b) -> multiset_eqb e a b = true.
Proof.
  intros K. induction a as [|x a IH]; intros b P; cbn [multiset_eqb map] in *.
  - apply Permutation_nil in P. destruct b; [reflexivity|discriminate].
  - assert (Hin : In (k x) (map k b)) by (eapply Permutation_in; [exact P|left; auto]).
    apply in_map_iff in Hin as (y & Ey & Hy).
    destruct (remove_first_spec e x b) as (l1 & y' & l2 & -> & E' & R).
    { exists y. split; auto. apply K. auto. }
    rewrite R. apply IH. rewrite map_app in *. cbn [map] in P. apply K in E'. rewrite <- E' in P.
    eapply Permutation_cons_app_inv. exact P.
Qed.

(* ====================================================================================== *)
(* 2. Order predicates of the spec.                                                        *)
(* ====================================================================================== *)
Lemma adjacent_of_sorted {A} (f : A -> A -> bool) l : StronglySorted (fun a b => f a b = true) l -> adjacent f l = true.
Proof.
  induction 1 as [|x l S IH Hx]; [reflexivity|]. destruct l as [|y t]; [reflexivity|].
  change (adjacent f (x :: y :: t)) with (f x y && adjacent f (y :: t)). rewrite IH. inversion Hx; subst. rewrite H1. reflexivity.
Qed.
Lemma vals_lt_lcmp a b : vals_lt a b = true <-> lcmp str_cmp a b = Lt.
Proof.
  revert b; induction a as [|x a IH]; destruct b as [|y b]; cbn; try (split; congruence).
  destruct (str_cmp x y); try (split; congruence). apply IH.
Qed.
Lemma vals_lt_app a b c : length a = length b -> vals_lt (a ++ c) (b ++ c) = vals_lt a b.
Proof.
  revert b; induction a as [|x a IH]; destruct b as [|y b]; cbn; try discriminate.
  - intros _. induction c as [|z c IHc]; cbn; auto. rewrite str_cmp_refl. exact IHc.
  - intros H. destruct (str_cmp x y); auto.
Qed.
Lemma sample_lt_add_labels ps a b : sample_lt (add_labels ps a) (add_labels ps b) = sample_lt a b.
Proof.
  unfold sample_lt. cbn [add_labels m_label]. rewrite !app_length, !map_app.
  destruct (Nat.eqb (length (m_label a)) (length (m_label b))) eqn:E.
  - apply Nat.eqb_eq in E. replace (Nat.eqb _ _) with true by (symmetry; apply Nat.eqb_eq; lia). cbn [andb].
    apply vals_lt_app. rewrite !map_length. exact E.
  - apply Nat.eqb_neq in E. replace (Nat.eqb _ _) with false by (symmetry; apply Nat.eqb_neq; lia). reflexivity.
Qed.

(* sorted by the comparator + equally many labels + pairwise distinct value tuples = strictly increasing tuples *)
Lemma sorted_strict ms :
  StronglySorted (fun a b => metric_leb a b = true) ms -> NoDup (map label_values ms) ->
  (forall m1 m2, In m1 ms -> In m2 ms -> length (m_label m1) = length (m_label m2)) ->
  StronglySorted (fun a b => sample_lt a b = true) ms.
Proof.
  induction 1 as [|x l S IH Hx]; intros ND L; [constructor|]. cbn [map] in ND. inversion ND as [|? ? Nx ND']; subst.
  constructor.
  - apply IH; auto. intros; apply L; right; auto.
  - apply Forall_forall. intros y Hy. rewrite Forall_forall in Hx. specialize (Hx y Hy).
    assert (Ll : length (m_label x) = length (m_label y)) by (apply L; [left|right]; auto).
    assert (D : label_values x <> label_values y).
    { intros E. apply Nx. rewrite E. apply in_map. exact Hy. }
    unfold sample_lt. rewrite Ll, Nat.eqb_refl. cbn [andb]. apply vals_lt_lcmp.
    unfold metric_leb in Hx. rewrite (metric_cmp_values x y Ll D) in Hx. fold (label_values x) (label_values y).
    destruct (lcmp str_cmp (label_values x) (label_values y)) eqn:C; auto; [|discriminate].
    exfalso. apply D. apply (lcmp_eq str_cmp); auto. intros a b. apply str_cmp_eq.
Qed.

(* ====================================================================================== *)
(* 3. The shape of what library collectors of one registry expose.                         *)
(* ====================================================================================== *)
Definition agree_help (collected : list MetricFamily) : Prop :=
  forall f g, In f collected -> In g collected -> mf_metric f <> [] -> mf_metric g <> [] -> mf_name f = mf_name g -> mf_help f = mf_help g.
Record lib_shape (collected : list MetricFamily) : Prop := mkShape {
  sh_distinct : forall n, NoDup (map label_values (metrics_of n collected));
  sh_lengths : forall n m1 m2, In m1 (metrics_of n collected) -> In m2 (metrics_of n collected) -> length (m_label m1) = length (m_label m2);
  sh_help : agree_help collected }.

Lemma agree_help_type_of c : agree_help c -> agree_type c -> agree_help_type c.
Proof. intros H T f g Hf Hg Nf Ng E. split; [apply H|apply T]; auto. Qed.

Lemma lib_shape_perm c c' : Permutation c c' -> lib_shape c -> lib_shape c'.
Proof.
  intros P [D L H].
  assert (Pm : forall n, Permutation (metrics_of n c) (metrics_of n c')).
  { intros n. unfold metrics_of. apply Permutation_concat_map. apply Permutation_filter. exact P. }
  split.
  - intros n. eapply Permutation_NoDup; [apply Permutation_map; apply Pm|apply D].
  - intros n m1 m2 H1 H2. apply (L n); eapply Permutation_in; try (apply Permutation_sym; apply Pm); auto.
  - intros f g Hf Hg. apply H; eapply Permutation_in; try (apply Permutation_sym; exact P); auto.
Qed.
Lemma agree_type_perm c c' : Permutation c c' -> agree_type c -> agree_type c'.
Proof. intros P H f g Hf Hg. apply H; eapply Permutation_in; try (apply Permutation_sym; exact P); auto. Qed.

(* the common pairs as the spec computes them *)
Definition cp_of (l : option (list (str * str))) : list LabelPair := match l with Some l => common_pairs l | None => [] end.
Lemma add_labels_nil m : add_labels [] m = m.
Proof. destruct m. unfold add_labels. cbn. rewrite app_nil_r. reflexivity. Qed.
Lemma with_common_cp l ms : with_common l ms = map (add_labels (cp_of l)) ms.
Proof.
  destruct l as [l|]; cbn [with_common cp_of]; auto. rewrite (map_ext _ (fun m => m) add_labels_nil), map_id. reflexivity.
Qed.
Lemma insert_by_map' {A B} (f : A -> B) (leb : B -> B -> bool) x l :
  map f (insert_by (fun a b => leb (f a) (f b)) x l) = insert_by leb (f x) (map f l).
Proof. induction l as [|y l IH]; cbn; auto. destruct (leb (f x) (f y)); cbn; congruence. Qed.
Lemma sort_by_map' {A B} (f : A -> B) (leb : B -> B -> bool) l :
  map f (sort_by (fun a b => leb (f a) (f b)) l) = sort_by leb (map f l).
Proof. induction l as [|x l IH]; cbn; auto. rewrite insert_by_map'. f_equal. exact IH. Qed.
Lemma spec_common_cp l' : spec_common l' = cp_of (option_map (@amap_of str) l').
Proof.
  destruct l' as [kvs|]; cbn [spec_common cp_of option_map]; auto. unfold common_pairs.
  rewrite <- (sort_by_map' (fun kv : str * str => mkLP (fst kv) (snd kv)) lp_leb). reflexivity.
Qed.
Lemma spec_prefix_pname p n : spec_prefix p n = pname p n.
Proof. destruct p; reflexivity. Qed.

(* gather depends on the common labels only through their sorted pairs *)
Lemma gather_families_cp p l l' collected : cp_of l = cp_of l' -> gather_families p l collected = gather_families p l' collected.
Proof.
  intros E. rewrite !gather_families_eq. apply map_ext. intros x. rewrite !apply_prefix_labels_eq, !with_common_cp, E. reflexivity.
Qed.

(* ====================================================================================== *)
(* 4. Completeness as a multiset.                                                          *)
(* ====================================================================================== *)
Definition fsamples (f : MetricFamily) : list sample := map (fun m => (mf_name f, m)) (mf_metric f).
Lemma flatten_eq fams : flatten fams = flat_map fsamples fams.
Proof. reflexivity. Qed.
Lemma bt_insert_samples mf m : Permutation (flat_map fsamples (bt_insert mf m)) (flat_map fsamples m ++ fsamples mf).
Proof.
  induction m as [|x t IH]; cbn [bt_insert flat_map].
  - rewrite app_nil_r. reflexivity.
  - destruct (str_cmp (mf_name mf) (mf_name x)) eqn:E; cbn [flat_map].
    + apply str_cmp_eq in E.
      assert (X : fsamples (mkMF (mf_name x) (mf_help x) (mf_type x) (mf_metric x ++ mf_metric mf)) = fsamples x ++ fsamples mf).
      { unfold fsamples. cbn [mf_name mf_metric]. rewrite map_app, E. reflexivity. }
      rewrite X, <- !app_assoc. apply Permutation_app_head. apply Permutation_app_comm.
    + rewrite (Permutation_app_comm (fsamples x ++ flat_map fsamples t)). reflexivity.
    + rewrite IH, app_assoc. reflexivity.
Qed.
Lemma fold_ins_samples l : forall m,
  Permutation (flat_map fsamples (fold_left ins l m)) (flat_map fsamples m ++ flat_map fsamples l).
Proof.
  induction l as [|x l IH]; intros m; cbn [fold_left flat_map].
  - rewrite app_nil_r. reflexivity.
  - rewrite IH. unfold ins. destruct (is_nil (mf_metric x)) eqn:E.
    + assert (X : fsamples x = []) by (unfold fsamples; destruct (mf_metric x); [reflexivity|discriminate]).
      rewrite X. reflexivity.
    + rewrite bt_insert_samples, <- app_assoc. reflexivity.
Qed.
Lemma merge_samples collected : Permutation (flat_map fsamples (merge_families collected)) (flat_map fsamples collected).
Proof.
  unfold merge_families. change (fun m mf => if is_nil (mf_metric mf) then m else bt_insert mf m) with ins.
  rewrite fold_ins_samples. reflexivity.
Qed.
Definition relabel_sample (p : option str) (ps : list LabelPair) (s : sample) : sample := (pname p (fst s), add_labels ps (snd s)).
Lemma flat_map_map_perm {A B} (g : A -> B) (f f' : MetricFamily -> list A) (h : MetricFamily -> list B) l :
  (forall x, Permutation (h x) (map g (f x))) -> Permutation (flat_map h l) (map g (flat_map f l)).
Proof.
  intros H. induction l as [|x l IH]; cbn; auto. rewrite map_app. apply Permutation_app; auto.
Qed.
Lemma gather_samples p l collected :
  Permutation (flatten (gather_families p l collected)) (map (relabel_sample p (cp_of l)) (flat_map fsamples collected)).
Proof.
  rewrite flatten_eq, gather_families_eq, flat_map_concat_map, map_map, <- flat_map_concat_map.
  eapply Permutation_trans; [|apply Permutation_map; apply merge_samples].
  apply (flat_map_map_perm (relabel_sample p (cp_of l)) fsamples fsamples). intros x.
  rewrite apply_prefix_labels_eq. unfold fsamples. cbn [mf_name mf_metric sort_fam]. rewrite with_common_cp, !map_map.
  unfold relabel_sample. cbn [fst snd]. apply Permutation_map. apply sort_by_perm.
Qed.
Lemma expected_samples_eq p l' collected :
  expected_samples p l' collected = map (relabel_sample p (spec_common l')) (flat_map fsamples collected).
Proof.
  unfold expected_samples. induction collected as [|f c IH]; cbn [flat_map]; auto. rewrite map_app, IH. f_equal.
  unfold fsamples. rewrite map_map. apply map_ext. intros m. unfold relabel_sample. cbn [fst snd]. rewrite spec_prefix_pname.
  reflexivity.
Qed.

(* ====================================================================================== *)
(* 5. gather_ok accepts the model's gather.                                                *)
(* ====================================================================================== *)
Lemma names_increasing_gather p l collected : names_increasing (gather_families p l collected) = true.
Proof.
  unfold names_increasing. apply adjacent_of_sorted.
  pose proof (gather_name_sorted p l collected) as S. induction S as [|x t S IH Hx]; constructor; auto.
  eapply Forall_impl; [|exact Hx]. intros y Hy. unfold name_lt in Hy. unfold str_ltb. rewrite Hy. reflexivity.
Qed.

Lemma family_samples_ok p l collected g : lib_shape collected ->
  In g (gather_families p l collected) -> negb (is_nil (mf_metric g)) && adjacent sample_lt (mf_metric g) = true.
Proof.
  intros [D L _] Hg. apply andb_true_iff. split.
  - pose proof (gather_no_empty_family p l collected g Hg). destruct (mf_metric g); [congruence|reflexivity].
  - apply gather_In in Hg as (n & _ & Hg). apply gathered_family_inv in Hg as (f & r & _ & _ & _ & _ & ->). cbn [mf_metric].
    apply adjacent_of_sorted. rewrite with_common_cp.
    apply (StronglySorted_map (add_labels (cp_of l)) (fun a b => sample_lt a b = true)).
    { intros x y H. rewrite sample_lt_add_labels. exact H. }
    assert (P : Permutation (sort_by metric_leb (metrics_of n collected)) (metrics_of n collected)) by apply sort_by_perm.
    apply sorted_strict.
    + apply sort_metrics_sorted.
    + eapply Permutation_NoDup; [apply Permutation_map, Permutation_sym, P|apply D].
    + intros m1 m2 H1 H2. apply (L n); eapply Permutation_in; try exact P; auto.
Qed.

Lemma samples_complete p l' collected :
  multiset_eqb sample_eqb (expected_samples p l' collected) (flatten (gather_families p (option_map (@amap_of str) l') collected)) = true.
Proof.
  apply (multiset_eqb_of_perm _ _ _ kernel_sample). apply Permutation_map.
  rewrite expected_samples_eq, spec_common_cp. apply Permutation_sym. apply gather_samples.
Qed.

Lemma help_type_ok_gather strict p l collected g : agree_help collected -> (strict = true -> agree_type collected) ->
  In g (gather_families p l collected) -> help_type_ok strict p collected g = true.
Proof.
  intros AH AT Hg. destruct (gather_help_type p l collected g Hg) as (f0 & Hf0 & Ne0 & En0 & Eh0 & Et0).
  unfold help_type_ok. cbv zeta.
  set (contrib := filter (fun f => str_eqb (spec_prefix p (mf_name f)) (mf_name g) && negb (is_nil (mf_metric f))) collected).
  assert (Hc : forall f, In f contrib <-> In f collected /\ mf_name f = mf_name f0 /\ mf_metric f <> []).
  { intros f. unfold contrib. rewrite filter_In, andb_true_iff, str_eqb_eq, spec_prefix_pname, En0, negb_true_iff. split.
    - intros (A & B & C). repeat split; auto. { apply (pname_inj p). exact B. } intros X. rewrite X in C. discriminate.
    - intros (A & B & C). repeat split; auto. { rewrite B. reflexivity. } destruct (mf_metric f); [congruence|reflexivity]. }
  assert (H0 : In f0 contrib) by (apply Hc; auto).
  rewrite !andb_true_iff. repeat split.
  - destruct contrib; [destruct H0|reflexivity].
  - apply forallb_forall. intros f Hf. apply Hc in Hf as (A & B & C). apply str_eqb_eq. rewrite Eh0. apply AH; auto.
  - destruct strict.
    + apply forallb_forall. intros f Hf. apply Hc in Hf as (A & B & C). apply mtype_eqb_eq. rewrite Et0. apply AT; auto.
    + apply existsb_exists. exists f0. split; auto. apply mtype_eqb_eq. auto.
Qed.

Theorem gather_ok_model strict p l' collected :
  lib_shape collected -> (strict = true -> agree_type collected) ->
  gather_ok strict p l' collected (gather_families p (option_map (@amap_of str) l') collected) = true.
Proof.
  intros S AT. unfold gather_ok. rewrite names_increasing_gather, samples_complete. cbn [andb].
  rewrite andb_true_r. apply andb_true_iff. split; apply forallb_forall; intros g Hg.
  - eapply family_samples_ok; eauto.
  - eapply help_type_ok_gather; eauto. apply (sh_help _ S).
Qed.

(* ====================================================================================== *)
(* 6. Two gathers of the same collectors in another order.                                 *)
(* ====================================================================================== *)
Lemma lib_shape_separates c : lib_shape c -> cmp_separates c.
Proof. intros S. apply cmp_separates_if_values_distinct. apply (sh_distinct _ S). Qed.

Theorem gather_same_strict p l c c' :
  Permutation c c' -> lib_shape c -> agree_type c -> gather_families p l c = gather_families p l c'.
Proof.
  intros P S T. apply gather_perm_invariant; auto.
  - apply agree_help_type_of; auto. apply (sh_help _ S).
  - apply lib_shape_separates; auto.
Qed.

(* forgetting the declared type *)
Definition retype (f : MetricFamily) : MetricFamily := mkMF (mf_name f) (mf_help f) COUNTER (mf_metric f).
Lemma bt_insert_retype mf m : bt_insert (retype mf) (map retype m) = map retype (bt_insert mf m).
Proof.
  induction m as [|x t IH]; cbn [bt_insert map]; auto. cbn [retype mf_name].
  destruct (str_cmp (mf_name mf) (mf_name x)); cbn [map]; auto. rewrite IH. reflexivity.
Qed.
Lemma fold_ins_retype l : forall m, fold_left ins (map retype l) (map retype m) = map retype (fold_left ins l m).
Proof.
  induction l as [|x l IH]; intros m; cbn [fold_left map]; auto. rewrite <- IH. f_equal.
  unfold ins. cbn [retype mf_metric]. destruct (is_nil (mf_metric x)); auto. apply bt_insert_retype.
Qed.
Lemma gather_retype p l c : gather_families p l (map retype c) = map retype (gather_families p l c).
Proof.
  rewrite !gather_families_eq. unfold merge_families.
  change (fun m mf => if is_nil (mf_metric mf) then m else bt_insert mf m) with ins.
  change (fold_left ins (map retype c) []) with (fold_left ins (map retype c) (map retype [])).
  rewrite (fold_ins_retype c []), !map_map. apply map_ext. intros x. rewrite !apply_prefix_labels_eq. reflexivity.
Qed.
Lemma metrics_of_retype n c : metrics_of n (map retype c) = metrics_of n c.
Proof.
  unfold metrics_of, fams_of. induction c as [|x c IH]; cbn [map filter]; auto.
  replace (sel n (retype x)) with (sel n x) by reflexivity. destruct (sel n x); cbn [map concat]; rewrite IH; reflexivity.
Qed.
Lemma lib_shape_retype c : lib_shape c -> lib_shape (map retype c).
Proof.
  intros [D L H]. split.
  - intros n. rewrite metrics_of_retype. apply D.
  - intros n. rewrite metrics_of_retype. apply L.
  - intros f g Hf Hg. apply in_map_iff in Hf as (f0 & <- & Hf0). apply in_map_iff in Hg as (g0 & <- & Hg0). cbn. apply H; auto.
Qed.
Lemma agree_type_retype c : agree_type (map retype c).
Proof. intros f g Hf Hg. apply in_map_iff in Hf as (f0 & <- & _). apply in_map_iff in Hg as (g0 & <- & _). reflexivity. Qed.
Lemma notype_of_retype a : forall b, map retype a = map retype b -> list_eqb mf_eqb_notype a b = true.
Proof.
  induction a as [|x a IH]; destruct b as [|y b]; cbn [map list_eqb]; try discriminate; auto.
  intros H. inversion H. rewrite IH by auto. unfold mf_eqb_notype. rewrite H1, H2, H3, !str_eqb_refl. cbn [andb].
  rewrite (kernel_refl _ _ (kernel_list _ _ kernel_metric)). reflexivity.
Qed.
Theorem gather_same_notype p l c c' :
  Permutation c c' -> lib_shape c ->
  list_eqb mf_eqb_notype (gather_families p l c) (gather_families p l c') = true.
Proof.
  intros P S. apply notype_of_retype. rewrite <- !gather_retype. apply gather_same_strict.
  - apply Permutation_map; auto.
  - apply lib_shape_retype; auto.
  - apply agree_type_retype.
Qed.

(* ====================================================================================== *)
(* 7. C14: homogeneous families, equal types.                                              *)
(* ====================================================================================== *)
Lemma payload_ok_of_matches t m : payload_matches t m = true -> payload_ok t m = true.
Proof.
  intros H. apply payload_matches_spec in H. unfold payload_flags, type_flags in H. unfold payload_ok.
  destruct (m_gauge m), (m_counter m), (m_summary m), (m_untyped m), (m_histogram m), t; cbn in *; congruence.
Qed.
Theorem gather_homogeneous_b p l collected :
  agree_type collected -> payloads_ok collected -> forallb family_homogeneous (gather_families p l collected) = true.
Proof.
  intros T P. pose proof (gather_homogeneous p l collected T P) as H.
  apply forallb_forall. intros g Hg. unfold family_homogeneous. apply forallb_forall. intros m Hm.
  apply payload_ok_of_matches. apply H; auto.
Qed.
Lemma same_types_refl l : same_types l l = true.
Proof.
  unfold same_types. induction l as [|x l IH]; cbn; auto. rewrite str_eqb_refl, IH.
  replace (mtype_eqb (mf_type x) (mf_type x)) with true by (symmetry; apply mtype_eqb_eq; auto). reflexivity.
Qed.
