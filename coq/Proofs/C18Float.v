(* C18, float part: the number of seconds a timer observes, as_secs_f64 secs nanos =
   (secs as f64) + (nanos as f64) / 1e9 (Duration::as_secs_f64), is never negative, never NaN and
   never -0, for ALL values of secs and nanos.  Flocq: binary_normalize_correct, Bdiv_correct,
   round_ge_generic; F64Facts.add_mono / add_negzero. *)
From Coq Require Import Floats ZArith Reals Lia Lra Bool List.
Require Import PV.Base.Prelude PV.Base.F64 PV.Model.World PV.Proofs.F64Facts.
From Flocq Require Import Core BinarySingleNaN PrimFloat.
Import ListNotations.

Local Instance Hprec : FLX.Prec_gt_0 prec := eq_refl _.
Local Instance Hmax : Prec_lt_emax prec emax := eq_refl _.
Notation flt := Floats.PrimFloat.float.
Notation bf := (binary_float prec emax).
Notation bzero := (B754_zero (prec:=prec) (emax:=emax) false).

(* a non-negative binary64: not NaN, sign bit clear or a zero *)
Definition bnonneg (x : bf) : Prop := Bleb bzero x = true /\ Bsign x = false.

Lemma normalize_nonneg (n : N) : bnonneg (binary_normalize prec emax Hprec Hmax mode_NE (Z.of_N n) 0 false).
Proof.
  pose proof (binary_normalize_correct prec emax Hprec Hmax mode_NE (Z.of_N n) 0 false) as C. cbv zeta in C.
  set (z := binary_normalize prec emax Hprec Hmax mode_NE (Z.of_N n) 0 false) in *.
  set (x := F2R (Float radix2 (Z.of_N n) 0)) in *.
  assert (X : (0 <= x)%R) by (apply F2R_ge_0; cbn; lia).
  destruct (Rlt_bool _ _) in C.
  - destruct C as (HR & HF & HS). split.
    + rewrite (Bleb_correct prec emax bzero z eq_refl HF). apply Rle_bool_true. cbn [B2R]. rewrite HR.
      apply round_ge_generic; [apply (fexp_correct prec emax Hprec)|apply valid_rnd_round_mode|apply generic_format_0|exact X].
    + rewrite HS. destruct (Rcompare_spec x 0); auto. lra.
  - rewrite Rlt_bool_false in C by exact X. cbn in C. destruct z as [s|[|]| |s m e H]; try discriminate. split; reflexivity.
Qed.

Lemma bnonneg_cases (x : bf) : bnonneg x -> (is_finite x = true /\ (0 <= B2R x)%R /\ Bsign x = false) \/ x = B754_infinity false.
Proof.
  intros (L & S). destruct (Bleb_zero_cases x L) as [[F R]| ->]; auto.
Qed.

Lemma Bdiv_nonneg (x : bf) my ey Hy : bnonneg x ->
  bnonneg (Bdiv mode_NE x (B754_finite false my ey Hy)).
Proof.
  intros NX. set (y := B754_finite false my ey Hy).
  assert (Y : (0 < B2R y)%R) by (cbn; apply F2R_gt_0; cbn; lia).
  destruct (bnonneg_cases x NX) as [(F & R & S)| ->].
  - assert (Yn : B2R y <> 0%R) by lra.
    pose proof (Bdiv_correct prec emax Hprec Hmax mode_NE x y Yn) as C.
    assert (Q : (0 <= B2R x / B2R y)%R) by (apply Rle_mult_inv_pos; auto).
    destruct (Rlt_bool _ _) in C.
    + destruct C as (HR & HF & HS). rewrite F in HF. split.
      * rewrite (Bleb_correct prec emax bzero _ eq_refl HF). apply Rle_bool_true. cbn [B2R]. rewrite HR.
        apply round_ge_generic; [apply (fexp_correct prec emax Hprec)|apply valid_rnd_round_mode|apply generic_format_0|exact Q].
      * rewrite HS, S; [reflexivity|]. destruct (Bdiv mode_NE x y); try discriminate; reflexivity.
    + rewrite S in C. cbn in C. destruct (Bdiv mode_NE x y) as [s|[|]| |s m e H]; try discriminate. split; reflexivity.
  - cbn. split; reflexivity.
Qed.

Lemma Prim2B_f_of_N n : Prim2B (f_of_N n) = binary_normalize prec emax Hprec Hmax mode_NE (Z.of_N n) 0 false.
Proof.
  unfold f_of_N, f_of_Z. rewrite binary_normalize_equiv. apply (Prim2B_B2Prim).
Qed.

Lemma f_of_N_nonneg n : PrimFloat.leb 0 (f_of_N n) = true.
Proof. rewrite leb_equiv, Prim2B_f_of_N. change (Prim2B 0%float) with bzero. apply normalize_nonneg. Qed.


Lemma billion_finite : exists my ey Hy, Prim2B (f_of_N 1000000000) = B754_finite false my ey Hy.
Proof.
  rewrite Prim2B_f_of_N.
  set (y := binary_normalize prec emax Hprec Hmax mode_NE (Z.of_N 1000000000) 0 false).
  assert (Q : match B2SF y with S754_finite false _ _ => True | _ => False end) by (vm_compute; exact I).
  destruct y as [s|s| |[|] m e H]; cbn in Q; try contradiction. eauto.
Qed.

(* the seconds a timer observes are never negative (and never NaN), whatever Instant::elapsed returns *)
Theorem as_secs_nonneg secs nanos : PrimFloat.leb 0 (as_secs_f64 secs nanos) = true.
Proof.
  unfold as_secs_f64. apply add_mono.
  - apply f_of_N_nonneg.
  - rewrite leb_equiv, div_equiv. destruct billion_finite as (my & ey & Hy & ->).
    change (Prim2B 0%float) with bzero. apply Bdiv_nonneg. rewrite Prim2B_f_of_N. apply normalize_nonneg.
Qed.

Lemma f_of_N_not_negzero n : is_negzero (f_of_N n) = false.
Proof.
  destruct (is_negzero (f_of_N n)) eqn:E; auto. apply is_negzero_iff in E.
  destruct (normalize_nonneg n) as (_ & S). rewrite <- Prim2B_f_of_N, E in S.
  change (Prim2B (-0)%float) with (B754_zero (prec:=prec) (emax:=emax) true) in S. discriminate.
Qed.

Theorem as_secs_not_negzero secs nanos : is_negzero (as_secs_f64 secs nanos) = false.
Proof.
  unfold as_secs_f64. destruct (is_negzero _) eqn:E; auto. apply is_negzero_iff in E.
  apply add_negzero in E as [E1 _]. pose proof (f_of_N_not_negzero secs) as Q. rewrite E1 in Q. discriminate.
Qed.

(* so the value a local timer hands over (the sum 0 + e of its private histogram) is e itself *)
Corollary zero_plus_as_secs secs nanos : (f_zero + as_secs_f64 secs nanos)%float = as_secs_f64 secs nanos.
Proof. apply add_zero_l. apply as_secs_not_negzero. Qed.
