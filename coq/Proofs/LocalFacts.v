(* Facts about the local (unsync) metrics and the timers of the sequential world model
   (World.v): what one step does to every shared value core, every shared histogram core and
   every slot, for ALL operations; and the accounting theorems over arbitrary histories that
   C12 and C18 pin. *)
Require Import PV.Base.Prelude PV.Base.F64.
Require Import PV.Model.Proto PV.Model.Desc PV.Model.Value PV.Model.Hist PV.Model.Vec PV.Model.Registry PV.Model.World.
From Coq Require Import Relations.Relation_Operators.
Open Scope N_scope.

(* ================================================================ lists *)
Lemma length_list_set {A} (l : list A) i x : length (list_set l i x) = length l.
Proof. revert i; induction l; intros [|i]; cbn; auto. Qed.

Lemma nth_error_list_set_eq {A} (l : list A) i x y :
  nth_error l i = Some y -> nth_error (list_set l i x) i = Some x.
Proof. revert i; induction l; intros [|i]; cbn; try discriminate; auto. Qed.

Lemma nth_error_list_set_neq {A} (l : list A) i j x : i <> j -> nth_error (list_set l i x) j = nth_error l j.
Proof. revert i j; induction l; intros [|i] [|j] H; cbn; auto; congruence. Qed.

Lemma list_set_same {A} (l : list A) i x : nth_error l i = Some x -> list_set l i x = l.
Proof. revert i; induction l; intros [|i]; cbn; try discriminate; intros H; [congruence|f_equal; auto]. Qed.

Lemma list_set_none {A} (l : list A) i x : nth_error l i = None -> list_set l i x = l.
Proof. revert i; induction l; intros [|i]; cbn; try discriminate; intros H; auto; f_equal; auto. Qed.

Lemma list_set_twice {A} (l : list A) i x y : list_set (list_set l i x) i y = list_set l i y.
Proof. revert i; induction l; intros [|i]; cbn; auto; f_equal; auto. Qed.

Lemma nth_list_set_eq {A} (l : list A) i x d : (i < length l)%nat -> nth i (list_set l i x) d = x.
Proof. revert i; induction l; intros [|i]; cbn; intros H; try lia; auto. apply IHl; lia. Qed.

Lemma nth_list_set_neq {A} (l : list A) i j x d : i <> j -> nth j (list_set l i x) d = nth j l d.
Proof. revert i j; induction l; intros [|i] [|j] H; cbn; auto; congruence. Qed.

Lemma Forall_list_set {A} (P : A -> Prop) l i x : Forall P l -> P x -> Forall P (list_set l i x).
Proof.
  intros H Hx; revert i; induction H; intros [|i]; cbn; auto.
Qed.

Lemma nth_error_app_some {A} (l r : list A) i x : nth_error l i = Some x -> nth_error (l ++ r) i = Some x.
Proof. intros H. rewrite nth_error_app1; auto. apply nth_error_Some; congruence. Qed.

Lemma nth_lt_not_default {A} (l : list A) i d : nth i l d <> d -> (i < length l)%nat.
Proof. intros H. destruct (Nat.lt_ge_cases i (length l)); auto. rewrite nth_overflow in H; congruence. Qed.

(* ---------- upd ---------- *)
Lemma nth_error_upd_eq {A} (l : list A) i f x : nth_error l i = Some x -> nth_error (upd l i f) i = Some (f x).
Proof. intros H. unfold upd. rewrite H. eapply nth_error_list_set_eq; eauto. Qed.

Lemma nth_error_upd_neq {A} (l : list A) i j f : i <> j -> nth_error (upd l i f) j = nth_error l j.
Proof. intros H. unfold upd. destruct (nth_error l i); auto. apply nth_error_list_set_neq; auto. Qed.

Lemma upd_id {A} (l : list A) i f : (forall x, nth_error l i = Some x -> f x = x) -> upd l i f = l.
Proof. intros H. unfold upd. destruct (nth_error l i) eqn:E; auto. rewrite H; auto. apply list_set_same; auto. Qed.

Lemma length_upd {A} (l : list A) i f : length (upd l i f) = length l.
Proof. unfold upd. destruct (nth_error l i); auto. apply length_list_set. Qed.

(* ================================================================ world plumbing *)
Lemma world_eta w : mkWorld (w_v w) (w_h w) (w_vec w) (w_reg w) (w_slots w) = w.
Proof. destruct w; reflexivity. Qed.

Lemma slot_lt w s : slot w s <> HDead -> (s < length (w_slots w))%nat.
Proof. apply nth_lt_not_default. Qed.

Lemma slot_put_eq w s h : (s < length (w_slots w))%nat -> slot (put_slot w s h) s = h.
Proof. intros H. unfold slot, put_slot; cbn. apply nth_list_set_eq; auto. Qed.

Lemma slot_put_neq w s s' h : s <> s' -> slot (put_slot w s h) s' = slot w s'.
Proof. intros H. unfold slot, put_slot; cbn. apply nth_list_set_neq; auto. Qed.

Lemma slot_push_old w s h : (s < length (w_slots w))%nat -> slot (push_slot w h) s = slot w s.
Proof. intros H. unfold slot, push_slot; cbn. apply app_nth1; auto. Qed.

Lemma slot_push_new w h : slot (push_slot w h) (length (w_slots w)) = h.
Proof. unfold slot, push_slot; cbn. rewrite app_nth2, Nat.sub_diag; auto. Qed.

(* ================================================================ helpers of [step]: what they leave alone *)
Lemma build_child_frame w v vals w' hd c :
  build_child w v vals = Ok (w', hd, c) ->
  w_slots w' = w_slots w /\ w_reg w' = w_reg w /\ w_vec w' = w_vec w
  /\ ((w_v w' = w_v w /\ exists x, w_h w' = w_h w ++ [x] /\ hd = HHist (length (w_h w)))
      \/ (w_h w' = w_h w /\ exists x, w_v w' = w_v w ++ [x] /\ hd = HValue (length (w_v w)))).
Proof.
  unfold build_child. destruct (v_kind v).
  - destruct (value_new _ _ _ _); [|discriminate]. intros H; inversion H; subst; cbn. repeat split; auto.
    right; split; auto. eexists; split; eauto.
  - destruct (hcore_new _ _); [|discriminate]. intros H; inversion H; subst; cbn. repeat split; auto.
    left; split; auto. eexists; split; eauto.
Qed.

Lemma vgoc_frame w vi h vals w' hd :
  vec_get_or_create w vi h vals = Ok (w', hd) ->
  w_slots w' = w_slots w /\ w_reg w' = w_reg w
  /\ (w_v w' = w_v w \/ exists x, w_v w' = w_v w ++ [x])
  /\ (w_h w' = w_h w \/ exists x, w_h w' = w_h w ++ [x]).
Proof.
  unfold vec_get_or_create. destruct (nth_error (w_vec w) vi) as [v|]; [|discriminate].
  destruct (nlookup h (v_children v)).
  - intros H; inversion H; subst; auto.
  - destruct (build_child w v vals) as [[[w1 hd1] c1]|] eqn:B; [|discriminate].
    intros H; inversion H; subst; cbn.
    destruct (build_child_frame _ _ _ _ _ _ B) as (S & R & _ & [(V & x & Hx & _)|(Hh & x & Vx & _)]).
    + repeat split; auto. right; eauto.
    + repeat split; auto. right; eauto.
Qed.

Lemma vgoc_nth_v w vi h vals w' hd c x :
  vec_get_or_create w vi h vals = Ok (w', hd) -> nth_error (w_v w) c = Some x -> nth_error (w_v w') c = Some x.
Proof.
  intros H N. destruct (vgoc_frame _ _ _ _ _ _ H) as (_ & _ & [->|[y ->]] & _); auto. apply nth_error_app_some; auto.
Qed.
Lemma vgoc_nth_h w vi h vals w' hd c x :
  vec_get_or_create w vi h vals = Ok (w', hd) -> nth_error (w_h w) c = Some x -> nth_error (w_h w') c = Some x.
Proof.
  intros H N. destruct (vgoc_frame _ _ _ _ _ _ H) as (_ & _ & _ & [->|[y ->]]); auto. apply nth_error_app_some; auto.
Qed.
Lemma vgoc_slots w vi h vals w' hd : vec_get_or_create w vi h vals = Ok (w', hd) -> w_slots w' = w_slots w.
Proof. intros H. apply vgoc_frame in H. tauto. Qed.

Lemma vec_delete_frame w vi h w' :
  vec_delete w vi h = Ok w' -> w_slots w' = w_slots w /\ w_reg w' = w_reg w /\ w_v w' = w_v w /\ w_h w' = w_h w.
Proof.
  unfold vec_delete. destruct (nth_error (w_vec w) vi) as [v|]; [|discriminate].
  destruct (nlookup h (v_children v)); [|discriminate]. intros H; inversion H; subst; cbn; auto.
Qed.

(* collecting only moves histogram cores along [hist_metric] *)
Definition collected (h h' : hcore) : Prop := exists m, hist_metric h = Some (m, h').
Definition cstar : hcore -> hcore -> Prop := clos_refl_trans hcore collected.
Definition hs_collected (l l' : list hcore) : Prop :=
  forall c h, nth_error l c = Some h -> exists h', nth_error l' c = Some h' /\ cstar h h'.
Definition wcollected (w w' : world) : Prop :=
  w_v w' = w_v w /\ w_vec w' = w_vec w /\ w_reg w' = w_reg w /\ w_slots w' = w_slots w /\ hs_collected (w_h w) (w_h w').

Lemma hs_collected_refl l : hs_collected l l.
Proof. intros c h H; exists h; split; auto. apply rt_refl. Qed.
Lemma hs_collected_trans a b c : hs_collected a b -> hs_collected b c -> hs_collected a c.
Proof.
  intros H1 H2 i h N. destruct (H1 _ _ N) as (h1 & N1 & S1). destruct (H2 _ _ N1) as (h2 & N2 & S2).
  exists h2; split; auto. eapply rt_trans; eauto.
Qed.
Lemma wcollected_refl w : wcollected w w.
Proof. repeat split; auto. apply hs_collected_refl. Qed.
Lemma wcollected_trans a b c : wcollected a b -> wcollected b c -> wcollected a c.
Proof.
  intros (V1 & C1 & R1 & S1 & H1) (V2 & C2 & R2 & S2 & H2). repeat split; try congruence.
  eapply hs_collected_trans; eauto.
Qed.

Lemma collect_hist_frame w c m w' : collect_hist w c = Some (m, w') -> wcollected w w'.
Proof.
  unfold collect_hist. destruct (nth_error (w_h w) c) as [h|] eqn:N; [|discriminate].
  destruct (hist_metric h) as [[m0 h']|] eqn:M; [|discriminate]. intros H; inversion H; subst; cbn.
  repeat split; auto. intros i x Nx. destruct (Nat.eq_dec c i) as [->|D].
  - rewrite N in Nx; inversion Nx; subst. exists h'. split; [eapply nth_error_list_set_eq; eauto|].
    apply rt_step. exists m; auto.
  - exists x. split; [|apply rt_refl]. cbn. rewrite nth_error_list_set_neq by auto. auto.
Qed.

Lemma collect_children_frame k cs : forall w ms w', collect_children w k cs = Some (ms, w') -> wcollected w w'.
Proof.
  induction cs as [|[hh c] r IH]; intros w ms w'; cbn.
  - intros H; inversion H; subst. apply wcollected_refl.
  - destruct k.
    + destruct (nth_error (w_v w) c); [|discriminate].
      destruct (collect_children w (VKValue t k) r) as [[ms1 w1]|] eqn:E; [|discriminate].
      intros H; inversion H; subst. eapply IH; eauto.
    + destruct (collect_hist w c) as [[m w1]|] eqn:E1; [|discriminate].
      destruct (collect_children w1 (VKHist buckets) r) as [[ms1 w2]|] eqn:E2; [|discriminate].
      intros H; inversion H; subst. eapply wcollected_trans; [eapply collect_hist_frame; eauto|eapply IH; eauto].
Qed.

Lemma collect_collector_frame w c fs w' : collect_collector w c = Some (fs, w') -> wcollected w w'.
Proof.
  unfold collect_collector. destruct c.
  - destruct (nth_error (w_v w) c); [|discriminate]. intros H; inversion H; subst. apply wcollected_refl.
  - destruct (nth_error (w_h w) c); [|discriminate]. destruct (collect_hist w c) as [[m w1]|] eqn:E; [|discriminate].
    intros H; inversion H; subst. eapply collect_hist_frame; eauto.
  - destruct (nth_error (w_vec w) v) as [vc|]; [|discriminate].
    destruct (collect_children w (v_kind vc) (v_children vc)) as [[ms w1]|] eqn:E; [|discriminate].
    intros H; inversion H; subst. eapply collect_children_frame; eauto.
  - intros H; inversion H; subst. apply wcollected_refl.
  - intros H; inversion H; subst. apply wcollected_refl.
Qed.

Lemma collect_all_frame cs : forall w fs w', collect_all w cs = Some (fs, w') -> wcollected w w'.
Proof.
  induction cs as [|[i c] r IH]; intros w fs w'; cbn.
  - intros H; inversion H; subst. apply wcollected_refl.
  - destruct (collect_collector w c) as [[fs1 w1]|] eqn:E1; [|discriminate].
    destruct (collect_all w1 r) as [[fs2 w2]|] eqn:E2; [|discriminate].
    intros H; inversion H; subst. eapply wcollected_trans; [eapply collect_collector_frame; eauto|eapply IH; eauto].
Qed.

(* ================================================================ effects on one shared value core *)
(* what an operation applies to the shared value core [c]: direct updates and flushed amounts *)
Inductive veff := VInc | VDec | VAddE (d : numval) | VSubE (d : numval) | VSetE (x : numval) | VResetE.
Definition one_like (cur : numval) : numval := match cur with VF _ => VF f_one | VU _ => VU 1 | VI _ => VI 1%Z end.
Definition zero_like (cur : numval) : numval := match cur with VF _ => VF f_zero | VU _ => VU 0 | VI _ => VI 0%Z end.
Definition apply_veff (cur : numval) (e : veff) : numval :=
  match e with
  | VInc => num_add cur (one_like cur)
  | VDec => num_sub cur (one_like cur)
  | VAddE d => num_add cur d
  | VSubE d => num_sub cur d
  | VSetE x => x
  | VResetE => zero_like cur
  end.
Definition vc_with (vc : vcore) (x : numval) : vcore := mkVCore (vc_desc vc) (vc_type vc) x (vc_labels vc).

Definition on_core {A} (c' c : nat) (l : list A) : list A := if Nat.eqb c' c then l else [].
(* a local counter holding [val] hands over [val], or nothing when it holds zero *)
Definition flushed_amount (c' : nat) (val : numval) (c : nat) : list veff :=
  on_core c' c (if num_is_zero val then [] else [VAddE val]).
Definition cache_amounts (c : nat) (cache : list (N * (nat * numval))) : list veff :=
  flat_map (fun e => flushed_amount (fst (snd e)) (snd (snd e)) c) cache.

Definition veffects (w : world) (o : op) (c : nat) : list veff :=
  match o with
  | OpReset s => match slot w s with HValue c' => on_core c' c [VResetE] | _ => [] end
  | OpInc s => match slot w s with HValue c' => on_core c' c [VInc] | _ => [] end
  | OpDec s => match slot w s with HValue c' => on_core c' c [VDec] | _ => [] end
  | OpIncBy s d | OpAdd s d => match slot w s with HValue c' => on_core c' c [VAddE d] | _ => [] end
  | OpSub s d => match slot w s with HValue c' => on_core c' c [VSubE d] | _ => [] end
  | OpSet s x => match slot w s with HValue c' => on_core c' c [VSetE x] | _ => [] end
  | OpFlush s => match slot w s with
                 | HLocalCounter c' val => flushed_amount c' val c
                 | HLocalCounterVec _ cache => cache_amounts c cache
                 | _ => []
                 end
  | _ => []
  end.

Fixpoint veffects_hist (w : world) (ops : list op) (c : nat) : list veff :=
  match ops with
  | [] => []
  | o :: r => veffects w o c ++ veffects_hist (fst (step w o)) r c
  end.

Lemma vc_with_same vc : vc_with vc (vc_val vc) = vc.
Proof. destruct vc; reflexivity. Qed.

Lemma vc_with_with vc x y : vc_with (vc_with vc x) y = vc_with vc y.
Proof. reflexivity. Qed.

(* the body of the fold in the flush of a local counter vector (convertible with the lambda in [step]) *)
Definition cv_flush1 (w0 : world) (e : N * (nat * numval)) : world :=
  let '(_, (c, val)) := e in
  if num_is_zero val then w0
  else set_v w0 (upd (w_v w0) c (fun vc => mkVCore (vc_desc vc) (vc_type vc) (num_add (vc_val vc) val) (vc_labels vc))).

Lemma cv_flush1_frame w e : let w' := cv_flush1 w e in
  w_h w' = w_h w /\ w_slots w' = w_slots w /\ w_vec w' = w_vec w /\ w_reg w' = w_reg w.
Proof. destruct e as [k [c val]]; cbn. destruct (num_is_zero val); cbn; auto. Qed.

Lemma cv_flush1_v w e c vc : nth_error (w_v w) c = Some vc ->
  nth_error (w_v (cv_flush1 w e)) c
  = Some (vc_with vc (fold_left apply_veff (flushed_amount (fst (snd e)) (snd (snd e)) c) (vc_val vc))).
Proof.
  intros N. destruct e as [k [c' val]]; cbn [cv_flush1 fst snd]. unfold flushed_amount, on_core.
  destruct (num_is_zero val).
  - destruct (Nat.eqb c' c); cbn; rewrite vc_with_same; auto.
  - cbn [w_v set_v]. destruct (Nat.eqb_spec c' c) as [->|D].
    + rewrite (nth_error_upd_eq _ _ _ _ N). reflexivity.
    + rewrite nth_error_upd_neq by auto. cbn. rewrite vc_with_same; auto.
Qed.

Lemma cv_flush_fold cache : forall w c vc, nth_error (w_v w) c = Some vc ->
  let w' := fold_left cv_flush1 cache w in
  nth_error (w_v w') c = Some (vc_with vc (fold_left apply_veff (cache_amounts c cache) (vc_val vc)))
  /\ w_h w' = w_h w /\ w_slots w' = w_slots w /\ w_vec w' = w_vec w /\ w_reg w' = w_reg w.
Proof.
  induction cache as [|e r IH]; intros w c vc N; cbn [fold_left cache_amounts flat_map].
  - cbn. rewrite vc_with_same. auto.
  - rewrite fold_left_app.
    destruct (IH _ _ _ (cv_flush1_v w e c vc N)) as (A & B & C & D & E).
    destruct (cv_flush1_frame w e) as (B' & C' & D' & E').
    cbn zeta. rewrite A. cbn [vc_with vc_val]. unfold vc_with at 1. cbn [vc_desc vc_type vc_labels].
    repeat split; congruence.
Qed.

(* ================================================================ effects on one shared histogram core *)
Inductive heff := HObs (v : f64) | HBatch (l : lhist).
Definition apply_heff (h : hcore) (e : heff) : hcore :=
  match e with HObs v => hc_observe h v | HBatch l => hc_flush h l end.
Definition cache_batches (c : nat) (cache : list (N * (nat * lhist))) : list heff :=
  flat_map (fun e => on_core (fst (snd e)) c [HBatch (snd (snd e))]) cache.

Definition heffects (w : world) (o : op) (c : nat) : list heff :=
  match o with
  | OpObserve s v => match slot w s with HHist c' => on_core c' c [HObs v] | _ => [] end
  | OpClosure s secs nanos => match slot w s with HHist c' => on_core c' c [HObs (as_secs_f64 secs nanos)] | _ => [] end
  | OpFlush s | OpDrop s =>
      match slot w s with
      | HLocalHist c' l => on_core c' c [HBatch l]
      | HLocalHistVec _ cache => cache_batches c cache
      | _ => []
      end
  | OpLvRemove s vals =>
      match slot w s with
      | HLocalHistVec vi cache =>
          match nth_error (w_vec w) vi with
          | Some v => match hash_label_values (v_desc v) vals with
                      | Ok h => match nlookup h cache with
                                | Some (c', l) => on_core c' c [HBatch l]
                                | None => []
                                end
                      | Err _ => []
                      end
          | None => []
          end
      | _ => []
      end
  | OpTimerStop s m secs nanos =>
      let e := as_secs_f64 secs nanos in
      match slot w s with
      | HTimer c' => on_core c' c (match m with TDiscard => [] | _ => [HObs e] end)
      | HLocalTimer c' l => on_core c' c [HBatch (match m with TDiscard => l | _ => lh_observe (bounds_of w c') l e end)]
      | _ => []
      end
  | _ => []
  end.

Fixpoint heffects_hist (w : world) (ops : list op) (c : nat) : list heff :=
  match ops with
  | [] => []
  | o :: r => heffects w o c ++ heffects_hist (fst (step w o)) r c
  end.

Definition hv_flush1 (w0 : world) (e : N * (nat * lhist)) : world := let '(_, (c, l)) := e in flush_lh w0 c l.

Lemma flush_lh_frame w c l : let w' := flush_lh w c l in
  w_v w' = w_v w /\ w_slots w' = w_slots w /\ w_vec w' = w_vec w /\ w_reg w' = w_reg w.
Proof. cbn; auto. Qed.

Lemma flush_lh_h w c' l c h : nth_error (w_h w) c = Some h ->
  nth_error (w_h (flush_lh w c' l)) c = Some (fold_left apply_heff (on_core c' c [HBatch l]) h).
Proof.
  intros N. unfold flush_lh, on_core; cbn [w_h set_h]. destruct (Nat.eqb_spec c' c) as [->|D].
  - rewrite (nth_error_upd_eq _ _ _ _ N). reflexivity.
  - rewrite nth_error_upd_neq by auto. auto.
Qed.

Lemma hv_flush_fold cache : forall w c h, nth_error (w_h w) c = Some h ->
  let w' := fold_left hv_flush1 cache w in
  nth_error (w_h w') c = Some (fold_left apply_heff (cache_batches c cache) h)
  /\ w_v w' = w_v w /\ w_slots w' = w_slots w /\ w_vec w' = w_vec w /\ w_reg w' = w_reg w.
Proof.
  induction cache as [|[k [c' l]] r IH]; intros w c h N; cbn [fold_left cache_batches flat_map].
  - cbn. auto.
  - rewrite fold_left_app. cbn [fst snd hv_flush1].
    destruct (IH _ _ _ (flush_lh_h w c' l c h N)) as (A & B & C & D & E).
    cbn zeta. rewrite A. repeat split; auto.
Qed.

Lemma hv_flush_fold_frame cache : forall w, let w' := fold_left hv_flush1 cache w in
  w_v w' = w_v w /\ w_slots w' = w_slots w /\ w_vec w' = w_vec w /\ w_reg w' = w_reg w /\ length (w_h w') = length (w_h w).
Proof.
  induction cache as [|[k [c' l]] r IH]; intros w; cbn [fold_left]; auto.
  destruct (IH (hv_flush1 w (k, (c', l)))) as (A & B & C & D & E). cbn zeta.
  rewrite A, B, C, D, E. cbn. rewrite length_upd. auto.
Qed.

Lemma cv_flush_fold_frame cache : forall w, let w' := fold_left cv_flush1 cache w in
  w_h w' = w_h w /\ w_slots w' = w_slots w /\ w_vec w' = w_vec w /\ w_reg w' = w_reg w /\ length (w_v w') = length (w_v w).
Proof.
  induction cache as [|[k [c' val]] r IH]; intros w; cbn [fold_left]; auto.
  destruct (IH (cv_flush1 w (k, (c', val)))) as (A & B & C & D & E). cbn zeta.
  rewrite A, B, C, D, E. cbn. destruct (num_is_zero val); cbn; rewrite ?length_upd; auto.
Qed.

Lemma cv_fold_slots cache w : w_slots (fold_left cv_flush1 cache w) = w_slots w.
Proof. apply cv_flush_fold_frame. Qed.
Lemma hv_fold_slots cache w : w_slots (fold_left hv_flush1 cache w) = w_slots w.
Proof. apply hv_flush_fold_frame. Qed.
Lemma cstar_refl h : cstar h h.
Proof. apply rt_refl. Qed.

(* ================================================================ one step, all operations *)
(* case analysis over [step]: destruct the innermost scrutinee first *)
Ltac dmatch :=
  match goal with
  | |- context [match ?x with _ => _ end] =>
      lazymatch x with
      | context [match _ with _ => _ end] => fail
      | _ => destruct x eqn:?
      end
  end.
Ltac world_cbn :=
  cbn [fst snd w_v w_h w_vec w_reg w_slots set_v set_h set_vec set_reg set_slots push_slot put_slot flush_lh] in *.
Ltac use_frames :=
  repeat match goal with
  | H : vec_delete _ _ _ = Ok _ |- _ => apply vec_delete_frame in H; world_cbn; destruct H as (? & ? & ? & ?)
  | H : collect_collector _ _ = Some _ |- _ => apply collect_collector_frame in H; destruct H as (? & ? & ? & ? & ?)
  | H : collect_all _ _ = Some _ |- _ => apply collect_all_frame in H; destruct H as (? & ? & ? & ? & ?)
  end.
Ltac fold_slots := rewrite ?cv_fold_slots, ?hv_fold_slots in *.
Ltac slots_rw := repeat match goal with H : w_slots ?x = _ |- context[w_slots ?x] => rewrite H end.

(* every shared value core evolves by exactly the effects listed by [veffects] *)
Lemma step_vcore w o c vc : nth_error (w_v w) c = Some vc ->
  nth_error (w_v (fst (step w o))) c = Some (vc_with vc (fold_left apply_veff (veffects w o c) (vc_val vc))).
Proof.
  intros N. destruct o; unfold step, veffects; cbv beta iota zeta.
  all: repeat dmatch.
  all: subst; use_frames; world_cbn; cbn [fold_left].
  all: try (rewrite vc_with_same; first [exact N | apply nth_error_app_some; exact N | eapply vgoc_nth_v; eauto; fail | congruence]).
  all: unfold flushed_amount; try match goal with H : num_is_zero ?v = _ |- context[num_is_zero ?v] => rewrite H end.
  all: try (unfold flushed_amount, on_core;
    match goal with |- nth_error (upd _ ?c0 _) ?c = _ => destruct (Nat.eqb_spec c0 c) as [->|?];
     [rewrite (nth_error_upd_eq _ _ _ _ N) | rewrite nth_error_upd_neq by auto; rewrite N]; cbn; rewrite ?vc_with_same; reflexivity end).
  all: try (unfold on_core; match goal with |- context[Nat.eqb ?a ?b] => destruct (Nat.eqb a b) end; cbn; rewrite vc_with_same; exact N).
  all: try exact (proj1 (cv_flush_fold cache w c vc N)).
  all: try (rewrite vc_with_same; destruct (hv_flush_fold_frame cache w) as (E & _); etransitivity; [|exact N]; f_equal; exact E).
Qed.

(* every shared histogram core evolves by exactly the effects listed by [heffects], and by
   collections (which the effects do not list: they only move the core along [hist_metric]) *)
Lemma step_hcore w o c h : nth_error (w_h w) c = Some h ->
  exists h', nth_error (w_h (fst (step w o))) c = Some h' /\ cstar (fold_left apply_heff (heffects w o c) h) h'.
Proof.
  intros N. destruct o; unfold step, heffects; cbv beta iota zeta.
  all: repeat dmatch.
  all: subst; use_frames; world_cbn; cbn [fold_left].
  all: try (eexists; split; [|apply cstar_refl]; first [exact N | apply nth_error_app_some; exact N | eapply vgoc_nth_h; eauto; fail | congruence]).
  all: try (match goal with H : w_h _ = upd _ _ _ |- _ => rewrite H end).
  all: try (match goal with |- exists h', nth_error (upd _ ?c0 _) ?c = _ /\ _ => unfold on_core; destruct (Nat.eqb_spec c0 c) as [->|?]; eexists;
     (split; [first [apply (nth_error_upd_eq _ _ _ _ N) | rewrite nth_error_upd_neq by auto; exact N] | apply cstar_refl]) end).
  all: try (match goal with H : hs_collected _ _ |- _ => destruct (H _ _ N) as (h' & ? & ?); exists h'; split; auto end).
  all: try (eexists; split; [exact (proj1 (hv_flush_fold cache w c h N))|apply cstar_refl]).
  all: try (eexists; split; [|apply cstar_refl]; destruct (cv_flush_fold_frame cache w) as (E & _); etransitivity; [|exact N]; f_equal; exact E).
  all: unfold on_core; match goal with |- context[Nat.eqb ?a ?b] => destruct (Nat.eqb a b) end; cbn; eexists; (split; [exact N|apply cstar_refl]).
Qed.

(* ================================================================ slots *)
(* the only slot an operation can overwrite *)
Definition op_target (o : op) : option nat :=
  match o with
  | OpInc s | OpIncBy s _ | OpObserve s _ | OpFlush s | OpClear s | OpDrop s | OpLvInc s _ _ | OpLvObserve s _ _
  | OpLvRemove s _ | OpTimerStop s _ _ _ | OpClosure s _ _ => Some s
  | _ => None
  end.

Lemma step_slots_shape w o :
  (exists h, w_slots (fst (step w o)) = w_slots w ++ [h])
  \/ w_slots (fst (step w o)) = w_slots w
  \/ (exists s h, op_target o = Some s /\ w_slots (fst (step w o)) = list_set (w_slots w) s h).
Proof.
  destruct o; unfold step, op_target; cbv beta iota zeta.
  all: repeat dmatch.
  all: subst; use_frames; repeat match goal with H : vec_get_or_create _ _ _ _ = Ok _ |- _ => apply vgoc_slots in H end.
  all: world_cbn; fold_slots; slots_rw.
  all: try (right; left; first [reflexivity | congruence]).
  all: try (left; eexists; first [reflexivity | f_equal; congruence]).
  all: try (right; right; do 2 eexists; split; [reflexivity|]; first [reflexivity | congruence]).
Qed.

Lemma step_slots_length w o : (length (w_slots w) <= length (w_slots (fst (step w o))))%nat.
Proof.
  destruct (step_slots_shape w o) as [[h ->]|[->|(s & h & _ & ->)]]; rewrite ?app_length, ?length_list_set; cbn; lia.
Qed.

Lemma step_slot_other w o s : (s < length (w_slots w))%nat -> op_target o <> Some s -> slot (fst (step w o)) s = slot w s.
Proof.
  intros L T. unfold slot. destruct (step_slots_shape w o) as [[h ->]|[->|(s' & h & T' & ->)]]; auto.
  - apply app_nth1; auto.
  - apply nth_list_set_neq. congruence.
Qed.

(* ---------- a local timer's private histogram is always cleared ---------- *)
Lemma lh_clear_idem l : lh_clear (lh_clear l) = lh_clear l.
Proof. unfold lh_clear; cbn. rewrite repeat_length. reflexivity. Qed.

Definition lh_cleared (l : lhist) : Prop := l = lh_clear l.
Definition timer_ok (h : handle) : Prop := match h with HLocalTimer _ l => lh_cleared l | _ => True end.
Definition timers_clear (w : world) : Prop := Forall timer_ok (w_slots w).

Lemma vgoc_handle w vi h vals w' hd :
  vec_get_or_create w vi h vals = Ok (w', hd) -> exists c, hd = HValue c \/ hd = HHist c.
Proof.
  unfold vec_get_or_create. destruct (nth_error (w_vec w) vi) as [v|]; [|discriminate].
  destruct (nlookup h (v_children v)).
  - intros H; inversion H; subst. unfold child_handle. destruct (v_kind v); eauto.
  - destruct (build_child w v vals) as [[[w1 hd1] c1]|] eqn:B; [|discriminate].
    intros H; inversion H; subst.
    destruct (build_child_frame _ _ _ _ _ _ B) as (_ & _ & _ & [(_ & x & _ & ->)|(_ & x & _ & ->)]); eauto.
Qed.

Lemma step_timers_clear w o : timers_clear w -> timers_clear (fst (step w o)).
Proof.
  unfold timers_clear. intros T. destruct o; unfold step; cbv beta iota zeta.
  all: repeat dmatch.
  all: subst; use_frames; repeat match goal with H : vec_get_or_create _ _ _ _ = Ok (_, ?hd) |- _ =>
         try (is_var hd; destruct (vgoc_handle _ _ _ _ _ _ H) as [? [->| ->]]); apply vgoc_slots in H end.
  all: world_cbn; fold_slots; slots_rw.
  all: try assumption.
  all: try (apply Forall_list_set; [assumption|exact I]).
  all: try (apply Forall_app; split; [assumption|constructor; [first [exact I | apply eq_sym, lh_clear_idem]|constructor]]).
Qed.

(* ---------- how each kind of local handle evolves ---------- *)
Definition lc_next (o : op) (s : nat) (val : numval) : option numval :=
  match o with
  | OpInc s' => Some (if Nat.eqb s' s then num_add val (one_like val) else val)
  | OpIncBy s' d => Some (if Nat.eqb s' s then num_add val d else val)
  | OpFlush s' => Some (if Nat.eqb s' s then (if num_is_zero val then val else zero_like val) else val)
  | OpClear s' => Some (if Nat.eqb s' s then zero_like val else val)
  | OpDrop s' => if Nat.eqb s' s then None else Some val
  | _ => Some val
  end.
Definition lc_handle (c : nat) (v : option numval) : handle := match v with Some x => HLocalCounter c x | None => HDead end.

Ltac other_slot H L := rewrite step_slot_other; [exact H | exact L | cbn [op_target]; congruence].

Lemma step_local_counter w o s c val :
  slot w s = HLocalCounter c val -> slot (fst (step w o)) s = lc_handle c (lc_next o s val).
Proof.
  intros H. assert (L : (s < length (w_slots w))%nat) by (apply slot_lt; rewrite H; discriminate).
  destruct o; cbn [lc_next lc_handle]; try (other_slot H L).
  all: match goal with |- slot (fst (step _ ?o)) ?s = _ =>
         match eval cbn in (op_target o) with Some ?a => destruct (Nat.eq_dec a s) as [->|D] end end.
  all: rewrite ?Nat.eqb_refl; try (rewrite (proj2 (Nat.eqb_neq _ _) D)); cbn [lc_handle]; try (other_slot H L).
  all: unfold step; rewrite H; cbv beta iota zeta.
  all: try (destruct (num_is_zero val); [exact H|]).
  all: cbn [fst]; first [exact H | apply slot_put_eq; cbn [w_slots set_v]; exact L].
Qed.

Definition lh_next (w : world) (o : op) (s : nat) (c : nat) (l : lhist) : option lhist :=
  match o with
  | OpObserve s' v => Some (if Nat.eqb s' s then lh_observe (bounds_of w c) l v else l)
  | OpClosure s' secs nanos => Some (if Nat.eqb s' s then lh_observe (bounds_of w c) l (as_secs_f64 secs nanos) else l)
  | OpFlush s' | OpClear s' => Some (if Nat.eqb s' s then lh_clear l else l)
  | OpDrop s' => if Nat.eqb s' s then None else Some l
  | _ => Some l
  end.
Definition lh_handle (c : nat) (v : option lhist) : handle := match v with Some x => HLocalHist c x | None => HDead end.

Ltac target_cases H L :=
  let D := fresh "D" in
  match goal with |- slot (fst (step _ ?o)) ?s = _ =>
    match eval cbn in (op_target o) with Some ?a => destruct (Nat.eq_dec a s) as [->|D] end end;
  rewrite ?Nat.eqb_refl; try (rewrite (proj2 (Nat.eqb_neq _ _) D)); try (other_slot H L).

Lemma step_local_hist w o s c l :
  slot w s = HLocalHist c l -> slot (fst (step w o)) s = lh_handle c (lh_next w o s c l).
Proof.
  intros H. assert (L : (s < length (w_slots w))%nat) by (apply slot_lt; rewrite H; discriminate).
  destruct o; cbn [lh_next lh_handle]; try (other_slot H L).
  all: target_cases H L; cbn [lh_handle].
  all: unfold step; rewrite H; cbv beta iota zeta.
  all: cbn [fst]; first [exact H | apply slot_put_eq; cbn [w_slots set_h flush_lh]; exact L].
Qed.

Lemma step_timer_slot w o s c :
  slot w s = HTimer c ->
  slot (fst (step w o)) s = match o with OpTimerStop s' _ _ _ => if Nat.eqb s' s then HDead else HTimer c | _ => HTimer c end.
Proof.
  intros H. assert (L : (s < length (w_slots w))%nat) by (apply slot_lt; rewrite H; discriminate).
  destruct o; try (other_slot H L).
  all: target_cases H L.
  all: unfold step; rewrite H; cbv beta iota zeta.
  all: try (destruct m); cbn [fst]; first [exact H | apply slot_put_eq; cbn [w_slots set_h flush_lh]; exact L].
Qed.

Lemma step_local_timer_slot w o s c l :
  slot w s = HLocalTimer c l ->
  slot (fst (step w o)) s = match o with OpTimerStop s' _ _ _ => if Nat.eqb s' s then HDead else HLocalTimer c l | _ => HLocalTimer c l end.
Proof.
  intros H. assert (L : (s < length (w_slots w))%nat) by (apply slot_lt; rewrite H; discriminate).
  destruct o; try (other_slot H L).
  all: target_cases H L.
  all: unfold step; rewrite H; cbv beta iota zeta.
  all: try (destruct m); cbn [fst]; first [exact H | apply slot_put_eq; cbn [w_slots set_h flush_lh]; exact L].
Qed.

(* a dead slot stays dead, and every operation aimed at it is refused without any effect *)
Lemma step_dead_target w o s : slot w s = HDead -> op_target o = Some s -> step w o = (w, OBad).
Proof.
  intros H T. destruct o; cbn [op_target] in T; try discriminate; inversion T; subst; unfold step; rewrite H; reflexivity.
Qed.
Lemma step_slot_dead w o s : (s < length (w_slots w))%nat -> slot w s = HDead -> slot (fst (step w o)) s = HDead.
Proof.
  intros L H. destruct (option_map (Nat.eqb s) (op_target o)) as [[|]|] eqn:E.
  - destruct (op_target o) as [a|] eqn:T; [|discriminate]. cbn in E. inversion E. apply Nat.eqb_eq in H1; subst a.
    rewrite (step_dead_target w o s H T). exact H.
  - destruct (op_target o) as [a|] eqn:T; [|discriminate]. cbn in E. inversion E. apply Nat.eqb_neq in H1.
    rewrite step_slot_other; auto. congruence.
  - destruct (op_target o) as [a|] eqn:T; [discriminate|]. rewrite step_slot_other; auto. congruence.
Qed.
