(* Facts about the sequential histogram model (Model/Hist.v) for property C08:
   - which bucket lists are accepted (check_and_adjust_buckets),
   - every history of direct observations, flushes of local histograms and collections on a
     fresh core: each collection returns count, bit-exact sum and, for each bound b, the number
     of observations v with v <= b,
   - the local histogram buckets by the same rule. *)
Require Import PV.Base.Prelude PV.Base.F64 PV.Model.Proto PV.Model.Desc PV.Model.Value PV.Model.Hist.
Require Import PV.Proofs.F64Facts.
Open Scope N_scope.

#[local] Arguments wrap64 : simpl never.

(* ------------------------------------------------------------------ bucket lists *)

Definition no_nan (bs : list f64) : Prop := Forall (fun b => f_is_nan b = false) bs.

(* neighbouring bounds are strictly increasing *)
Definition consecutive_lt (bs : list f64) : Prop :=
  forall i a b, nth_error bs i = Some a -> nth_error bs (S i) = Some b -> PrimFloat.ltb a b = true.

(* the same, by recursion on the list *)
Fixpoint chain_lt (bs : list f64) : Prop :=
  match bs with
  | [] => True
  | a :: r => match r with [] => True | b :: _ => PrimFloat.ltb a b = true end /\ chain_lt r
  end.

Lemma chain_lt_iff bs : chain_lt bs <-> consecutive_lt bs.
Proof.
  induction bs as [|a r IH].
  - split; [|constructor]. intros _ [|i] x y H; discriminate.
  - cbn [chain_lt]. rewrite IH. split.
    + intros [H1 H2] [|i] x y Hx Hy.
      * cbn in Hx, Hy. inversion Hx; subst. destruct r as [|b r']; [discriminate|]. cbn in Hy. inversion Hy; subst. exact H1.
      * cbn in Hx. change (nth_error (a :: r) (S (S i))) with (nth_error r (S i)) in Hy. eapply H2; eauto.
    + intros H. split.
      * destruct r as [|b r']; [exact I|]. apply (H O a b); reflexivity.
      * intros i x y Hx Hy. apply (H (S i) x y); assumption.
Qed.

Lemma chain_lt_tail a r : chain_lt (a :: r) -> chain_lt r.
Proof. cbn [chain_lt]. tauto. Qed.

(* every later bound is greater than an earlier one *)
Lemma chain_lt_head_all a r : chain_lt (a :: r) -> Forall (fun b => PrimFloat.ltb a b = true) r.
Proof.
  revert a. induction r as [|b r IH]; intros a H; constructor.
  - apply H.
  - destruct H as [Hab Hr]. specialize (IH b Hr).
    eapply Forall_impl; [|exact IH]. intros c Hbc. cbn beta in Hbc. eapply ltb_trans; eauto.
Qed.

Lemma chain_lt_pairwise bs : chain_lt bs ->
  forall i j bi bj, (i < j)%nat -> nth_error bs i = Some bi -> nth_error bs j = Some bj -> PrimFloat.ltb bi bj = true.
Proof.
  induction bs as [|a r IH]; intros H i j bi bj Hij Hi Hj.
  - destruct i; discriminate.
  - destruct j as [|j]; [lia|]. cbn in Hj. destruct i as [|i].
    + cbn in Hi. inversion Hi; subst. pose proof (chain_lt_head_all _ _ H) as F.
      rewrite Forall_forall in F. apply F. eapply nth_error_In; eauto.
    + cbn in Hi. eapply (IH (chain_lt_tail _ _ H) i j); eauto. lia.
Qed.

(* F1 along the chain: a value not above a bound is not above any later bound *)
Lemma leb_chain v b r : chain_lt (b :: r) -> PrimFloat.leb v b = true -> Forall (fun b' => PrimFloat.leb v b' = true) r.
Proof.
  intros H Hv. pose proof (chain_lt_head_all _ _ H) as F.
  eapply Forall_impl; [|exact F]. intros c Hc. cbn beta in Hc. eapply leb_ltb_trans; eauto.
Qed.

Lemma buckets_increasing_iff bs : buckets_increasing bs = true <-> no_nan bs /\ chain_lt bs.
Proof.
  unfold no_nan. induction bs as [|a r IH].
  - cbn. split; auto.
  - cbn [buckets_increasing chain_lt]. rewrite !andb_true_iff, negb_true_iff, IH. split.
    + intros [[Ha Hab] [Hn Hc]]. split; [constructor; auto|]. split; auto.
      destruct r as [|b r']; auto. inversion Hn; subst. rewrite <- nleb_ltb; auto.
    + intros [Hn [Hab Hc]]. inversion Hn; subst. repeat split; auto.
      destruct r as [|b r']; auto. apply ltb_nleb in Hab. rewrite Hab. reflexivity.
Qed.

Lemma drop_last_inf_spec bs : bs <> [] ->
  drop_last_inf bs = if f_pos_inf (last bs f_zero) then removelast bs else bs.
Proof.
  intros H. unfold drop_last_inf.
  assert (E : rev bs = last bs f_zero :: rev (removelast bs)).
  { rewrite (app_removelast_last f_zero H) at 1. rewrite rev_app_distr. reflexivity. }
  rewrite E, rev_involutive. reflexivity.
Qed.

Lemma default_nonempty : DEFAULT_BUCKETS <> [].
Proof. unfold DEFAULT_BUCKETS, DEFAULT_BUCKETS_bits. cbn [map]. discriminate. Qed.

Definition with_default (bs : list f64) : list f64 := match bs with [] => DEFAULT_BUCKETS | _ => bs end.

Lemma with_default_nonempty bs : with_default bs <> [].
Proof. destruct bs; cbn; [apply default_nonempty|discriminate]. Qed.

(* acceptance: exactly the strictly increasing lists of numbers (after default substitution);
   the result is that list without a trailing +inf *)
Theorem check_and_adjust_iff bs bs' :
  check_and_adjust_buckets bs = Some bs' <->
  let bs0 := with_default bs in
  no_nan bs0 /\ consecutive_lt bs0 /\
  ((last bs0 f_zero = infinity /\ bs' = removelast bs0) \/ (last bs0 f_zero <> infinity /\ bs' = bs0)).
Proof.
  unfold check_and_adjust_buckets. cbv zeta.
  replace (if is_nil bs then DEFAULT_BUCKETS else bs) with (with_default bs) by (destruct bs; reflexivity).
  rewrite <- chain_lt_iff.
  destruct (buckets_increasing (with_default bs)) eqn:E.
  - apply buckets_increasing_iff in E as [Hn Hc].
    rewrite (drop_last_inf_spec _ (with_default_nonempty bs)).
    destruct (f_pos_inf (last (with_default bs) f_zero)) eqn:P.
    + apply f_pos_inf_iff in P. split.
      * intros H. inversion H; subst. auto.
      * intros (_ & _ & [[_ ->]|[N _]]); [reflexivity|contradiction].
    + assert (N : last (with_default bs) f_zero <> infinity).
      { intros C. apply f_pos_inf_iff in C. congruence. }
      split.
      * intros H. inversion H; subst. auto.
      * intros (_ & _ & [[C _]|[_ ->]]); [contradiction|reflexivity].
  - split; [discriminate|]. intros (Hn & Hc & _).
    assert (buckets_increasing (with_default bs) = true) by (apply buckets_increasing_iff; auto). congruence.
Qed.

Lemma no_nan_removelast l : no_nan l -> no_nan (removelast l).
Proof.
  unfold no_nan. induction l as [|a r IH]; intros H; [constructor|].
  inversion H; subst. cbn [removelast]. destruct r; [constructor|]. constructor; auto.
Qed.

Lemma chain_lt_removelast l : chain_lt l -> chain_lt (removelast l).
Proof.
  induction l as [|a r IH]; intros H; [exact I|].
  cbn [removelast]. destruct r as [|b r']; [exact I|].
  destruct H as [Hab Hr]. specialize (IH Hr). cbn [chain_lt]. split; [|exact IH].
  cbn [removelast] in *. destruct r'; [exact I|exact Hab].
Qed.

(* what an accepted configuration looks like *)
Lemma check_and_adjust_accepted bs bs' :
  check_and_adjust_buckets bs = Some bs' -> no_nan bs' /\ chain_lt bs'.
Proof.
  intros H. apply check_and_adjust_iff in H. cbv zeta in H. destruct H as (Hn & Hc & H).
  apply chain_lt_iff in Hc.
  destruct H as [[_ ->]|[_ ->]]; auto. split; [apply no_nan_removelast|apply chain_lt_removelast]; auto.
Qed.

Lemma default_ok : check_and_adjust_buckets [] = Some DEFAULT_BUCKETS.
Proof. vm_compute. reflexivity. Qed.

(* ------------------------------------------------------------------ counting *)

Definition countN {A} (p : A -> bool) (l : list A) : N := N.of_nat (length (filter p l)).
Definition le_b (b : f64) (v : f64) : bool := PrimFloat.leb v b.        (* v <= b *)
Definition count_le (b : f64) (obs : list f64) : N := countN (le_b b) obs.

(* observation v is counted in bucket j: j is the first bound with v <= bound *)
Definition in_bucket (bs : list f64) (j : nat) (v : f64) : bool :=
  match find_bucket v bs O with Some i => Nat.eqb i j | None => false end.
Definition bucket_vector (bs : list f64) (obs : list f64) : list N :=
  map (fun j => countN (in_bucket bs j) obs) (seq 0 (length bs)).

(* first-match counts by recursion on the bounds *)
Fixpoint fm_counts (bs : list f64) (obs : list f64) : list N :=
  match bs with
  | [] => []
  | b :: r => count_le b obs :: fm_counts r (filter (fun v => negb (le_b b v)) obs)
  end.

Lemma countN_app {A} (p : A -> bool) a b : countN p (a ++ b) = countN p a + countN p b.
Proof. unfold countN. rewrite filter_app, app_length. lia. Qed.

Lemma countN_le_length {A} (p : A -> bool) l : countN p l <= N.of_nat (length l).
Proof.
  unfold countN. induction l as [|x l IH]; cbn [filter length]; [lia|]. destruct (p x); cbn [length]; lia.
Qed.

Lemma filter_length_le {A} (p : A -> bool) l : (length (filter p l) <= length l)%nat.
Proof. induction l as [|x l IH]; cbn [filter length]; [lia|]. destruct (p x); cbn [length]; lia. Qed.

Lemma filter_split_length {A} (p : A -> bool) l :
  (length (filter p l) + length (filter (fun x => negb (p x)) l) = length l)%nat.
Proof. induction l as [|x l IH]; cbn [filter length]; [lia|]. destruct (p x); cbn [negb length]; lia. Qed.

Lemma countN_ext {A} (p q : A -> bool) l : (forall x, p x = q x) -> countN p l = countN q l.
Proof. intros H. unfold countN. rewrite (filter_ext _ _ H). reflexivity. Qed.

Lemma countN_filter {A} (p q : A -> bool) l : countN p (filter q l) = countN (fun x => q x && p x) l.
Proof.
  unfold countN. f_equal. induction l as [|x l IH]; cbn [filter]; [reflexivity|].
  destruct (q x); cbn [filter andb length]; [destruct (p x); cbn [length]|]; lia.
Qed.

Lemma find_bucket_shift v bs j : find_bucket v bs (S j) = option_map S (find_bucket v bs j).
Proof. revert j. induction bs as [|b r IH]; intros j; cbn; [reflexivity|]. destruct (PrimFloat.leb v b); auto. Qed.

Lemma fm_counts_length bs obs : length (fm_counts bs obs) = length bs.
Proof. revert obs. induction bs; intros; cbn; auto. Qed.

Lemma fm_counts_nil bs : fm_counts bs [] = repeat 0 (length bs).
Proof. induction bs as [|b r IH]; cbn; [reflexivity|]. f_equal. exact IH. Qed.

Lemma fm_counts_bound bs obs : Forall (fun x => x <= N.of_nat (length obs)) (fm_counts bs obs).
Proof.
  revert obs. induction bs as [|b r IH]; intros obs; cbn [fm_counts]; constructor.
  - apply countN_le_length.
  - eapply Forall_impl; [|apply IH]. intros x Hx. cbn beta in Hx.
    pose proof (filter_length_le (fun v => negb (le_b b v)) obs). lia.
Qed.

(* bucket j of [fm_counts] counts the observations whose first matching bound is j *)
Lemma bucket_vector_fm bs obs : bucket_vector bs obs = fm_counts bs obs.
Proof.
  unfold bucket_vector. revert obs. induction bs as [|b r IH]; intros obs; [reflexivity|].
  cbn [length seq map fm_counts]. f_equal.
  - apply countN_ext. intros v. unfold in_bucket, le_b. cbn [find_bucket].
    destruct (PrimFloat.leb v b); [reflexivity|]. rewrite find_bucket_shift.
    destruct (find_bucket v r 0); reflexivity.
  - rewrite <- IH, <- seq_shift, map_map. apply map_ext. intros j.
    rewrite countN_filter. apply countN_ext. intros v. unfold in_bucket, le_b. cbn [find_bucket].
    destruct (PrimFloat.leb v b); [reflexivity|]. rewrite find_bucket_shift. cbn [negb andb].
    destruct (find_bucket v r 0); reflexivity.
Qed.

Lemma wrap64_small x : x < two64 -> wrap64 x = x.
Proof. unfold wrap64. apply N.mod_small. Qed.

Definition two63 : N := 0x8000000000000000.
Lemma two63_lt_two64 : two63 < two64.
Proof. reflexivity. Qed.

(* one more observation bumps exactly its first matching bucket *)
Lemma fm_counts_snoc bs obs v : N.of_nat (length obs) + 1 < two64 ->
  fm_counts bs (obs ++ [v]) =
  match find_bucket v bs O with Some j => bump j 1 (fm_counts bs obs) | None => fm_counts bs obs end.
Proof.
  revert obs. induction bs as [|b r IH]; intros obs Hlen; [reflexivity|].
  cbn [fm_counts find_bucket]. unfold count_le at 1. rewrite countN_app, filter_app.
  change (PrimFloat.leb v b) with (le_b b v). destruct (le_b b v) eqn:E.
  - replace (countN (le_b b) [v]) with 1 by (unfold countN; cbn [filter]; rewrite E; reflexivity).
    replace (filter (fun v0 => negb (le_b b v0)) [v]) with (@nil f64) by (cbn [filter]; rewrite E; reflexivity).
    cbn [bump]. rewrite app_nil_r. f_equal.
    rewrite wrap64_small; [reflexivity|]. pose proof (countN_le_length (le_b b) obs). unfold count_le. lia.
  - replace (countN (le_b b) [v]) with 0 by (unfold countN; cbn [filter]; rewrite E; reflexivity).
    replace (filter (fun v0 => negb (le_b b v0)) [v]) with [v] by (cbn [filter]; rewrite E; reflexivity).
    rewrite N.add_0_r. rewrite IH.
    + rewrite find_bucket_shift. destruct (find_bucket v r 0); reflexivity.
    + pose proof (filter_length_le (fun v => negb (le_b b v)) obs). lia.
Qed.

(* pointwise sum of the vectors of two batches = vector of their concatenation *)
Lemma fm_counts_zip_app bs a b : N.of_nat (length a + length b) < two64 ->
  zip_add (fm_counts bs a) (fm_counts bs b) = fm_counts bs (a ++ b).
Proof.
  revert a b. induction bs as [|x r IH]; intros a b Hlen; [reflexivity|].
  cbn [fm_counts zip_add]. rewrite filter_app. f_equal.
  - unfold count_le. rewrite countN_app. apply wrap64_small.
    pose proof (countN_le_length (le_b x) a). pose proof (countN_le_length (le_b x) b). lia.
  - apply IH. pose proof (filter_length_le (fun v => negb (le_b x v)) a).
    pose proof (filter_length_le (fun v => negb (le_b x v)) b). lia.
Qed.

Lemma zip_add_zero_l l : Forall (fun x => x < two64) l -> zip_add (repeat 0 (length l)) l = l.
Proof.
  induction l as [|x l IH]; intros H; [reflexivity|]. inversion H; subst.
  cbn [length repeat zip_add]. rewrite N.add_0_l, wrap64_small by assumption. f_equal. auto.
Qed.

(* cumulative sums of the first-match counts = counts of "v <= bound"; this is where strictly
   increasing bounds and F1 are needed *)
Lemma cumulate_fm bs : chain_lt bs -> forall obs run, run + N.of_nat (length obs) < two64 ->
  cumulate run (fm_counts bs obs) = map (fun b => run + count_le b obs) bs.
Proof.
  induction bs as [|b r IH]; intros Hc obs run Hlen; [reflexivity|].
  cbn [fm_counts cumulate map].
  pose proof (countN_le_length (le_b b) obs) as Hb. fold (count_le b obs) in Hb.
  rewrite wrap64_small by lia. f_equal.
  set (obs' := filter (fun v => negb (le_b b v)) obs).
  assert (Hsplit : count_le b obs + N.of_nat (length obs') = N.of_nat (length obs)).
  { unfold count_le, countN, obs'. pose proof (filter_split_length (le_b b) obs). lia. }
  rewrite (IH (chain_lt_tail _ _ Hc) obs' (run + count_le b obs)) by lia.
  (* for every later bound b': count_le b' obs = count_le b obs + count_le b' obs' *)
  apply map_ext_in. intros b' Hin.
  assert (Hle : forall v, le_b b v = true -> le_b b' v = true).
  { intros v Hv. pose proof (leb_chain v b r Hc Hv) as F. rewrite Forall_forall in F. apply F. exact Hin. }
  rewrite <- N.add_assoc. f_equal.
  unfold count_le, obs'. clear -Hle. induction obs as [|v obs IHo]; [reflexivity|].
  unfold countN in *. cbn [filter]. destruct (le_b b v) eqn:E.
  - rewrite (Hle v E). cbn [negb length]. lia.
  - cbn [negb filter]. destruct (le_b b' v); cbn [length]; lia.
Qed.

Lemma map_bucket_combine (f : f64 -> N) bs :
  map (fun cb => mkBucket (fst cb) (snd cb)) (combine (map f bs) bs) = map (fun b => mkBucket (f b) b) bs.
Proof. induction bs as [|b r IH]; cbn; [reflexivity|]. f_equal. exact IH. Qed.

(* NaN and values above every bound fall into no bucket *)
Lemma find_bucket_none v bs j : Forall (fun b => PrimFloat.leb v b = false) bs -> find_bucket v bs j = None.
Proof.
  revert j. induction bs as [|b r IH]; intros j H; [reflexivity|]. inversion H; subst.
  cbn [find_bucket]. rewrite H2. auto.
Qed.

Lemma find_bucket_nan v bs j : f_is_nan v = true -> find_bucket v bs j = None.
Proof.
  intros H. apply find_bucket_none. rewrite Forall_forall. intros b _. apply leb_is_nan_l. exact H.
Qed.

Lemma find_bucket_above v bs j : Forall (fun b => PrimFloat.ltb b v = true) bs -> find_bucket v bs j = None.
Proof.
  intros H. apply find_bucket_none. eapply Forall_impl; [|exact H]. intros b Hb. apply ltb_nleb. exact Hb.
Qed.

(* the bucket chosen is the first bound with v <= bound *)
Lemma find_bucket_some v bs j :
  find_bucket v bs O = Some j <->
  (exists b, nth_error bs j = Some b /\ PrimFloat.leb v b = true)
  /\ forall i b, (i < j)%nat -> nth_error bs i = Some b -> PrimFloat.leb v b = false.
Proof.
  revert j. induction bs as [|b r IH]; intros j.
  - cbn. split; [discriminate|]. intros [[x [H _]] _]. destruct j; discriminate.
  - cbn [find_bucket]. destruct (PrimFloat.leb v b) eqn:E.
    + split.
      * intros H. inversion H; subst. split; [exists b; auto|]. intros i x Hi. lia.
      * intros [_ H]. destruct j as [|j]; [reflexivity|]. specialize (H O b ltac:(lia) eq_refl). congruence.
    + rewrite find_bucket_shift. destruct j as [|j].
      * split; [destruct (find_bucket v r 0); discriminate|]. intros [[x [Hx Hv]] _]. cbn in Hx. congruence.
      * specialize (IH j). split.
        -- intros H. destruct (find_bucket v r 0) as [k|] eqn:F; [|discriminate]. cbn in H. inversion H; subst.
           destruct IH as [IH _]. destruct (IH eq_refl) as [Hex Hlt]. split; [exact Hex|].
           intros [|i] x Hi Hx; [cbn in Hx; congruence|]. cbn in Hx. apply (Hlt i x); [lia|exact Hx].
        -- intros [Hex Hlt]. destruct IH as [_ IH]. rewrite IH; [reflexivity|]. split; [exact Hex|].
           intros i x Hi Hx. apply (Hlt (S i) x); [lia|exact Hx].
Qed.

(* ------------------------------------------------------------------ the local histogram *)

Definition batch_sum (batch : list f64) : f64 := fold_left PrimFloat.add batch f_zero.
(* a local histogram over bounds [bs] that observed [batch] since it was created / last flushed *)
Definition local_of (bs : list f64) (batch : list f64) : lhist :=
  fold_left (lh_observe bs) batch (lh_new (length bs)).

Lemma fold_snoc {A B} (f : A -> B -> A) l x a : fold_left f (l ++ [x]) a = f (fold_left f l a) x.
Proof. rewrite fold_left_app. reflexivity. Qed.

Lemma local_of_spec bs batch : N.of_nat (length batch) < two64 ->
  local_of bs batch = mkLHist (fm_counts bs batch) (N.of_nat (length batch)) (batch_sum batch).
Proof.
  unfold local_of, batch_sum. induction batch as [|v batch IH] using rev_ind; intros Hlen.
  - cbn. unfold lh_new. rewrite fm_counts_nil. reflexivity.
  - rewrite app_length in Hlen. cbn [length] in Hlen.
    rewrite !fold_snoc, IH by lia. unfold lh_observe. cbn [lh_counts lh_count lh_sum].
    rewrite fm_counts_snoc by lia. rewrite wrap64_small by lia. rewrite app_length. cbn [length].
    f_equal. lia.
Qed.

Lemma bump_length j d l : length (bump j d l) = length l.
Proof. revert j. induction l as [|x l IH]; intros [|j]; cbn; auto. Qed.

Lemma local_of_counts_length bs batch : length (lh_counts (local_of bs batch)) = length bs.
Proof.
  unfold local_of. induction batch as [|v batch IH] using rev_ind.
  - cbn. apply repeat_length.
  - rewrite fold_snoc. unfold lh_observe at 1. cbn [lh_counts].
    destruct (find_bucket v bs 0); [rewrite bump_length|]; exact IH.
Qed.

(* after a flush the local histogram is as new *)
Lemma local_clear bs batch : lh_clear (local_of bs batch) = lh_new (length bs).
Proof. unfold lh_clear, lh_new. rewrite local_of_counts_length. reflexivity. Qed.

(* ------------------------------------------------------------------ the shared core, step by step *)

Lemma hc_observe_fields h v :
  let s := hc_shard h (hc_hot h) in
  let h' := hc_observe h v in
  hc_bounds h' = hc_bounds h /\ hc_hot h' = hc_hot h /\ hc_total h' = hc_total h + 1
  /\ hc_shard h' (negb (hc_hot h)) = hc_shard h (negb (hc_hot h))
  /\ hc_shard h' (hc_hot h) =
     mkShard (sh_sum s + v)%float (wrap64 (sh_count s + 1))
             (match find_bucket v (hc_bounds h) O with Some j => bump j 1 (sh_buckets s) | None => sh_buckets s end).
Proof. destruct h as [d ls bnds [|] tot s0 s1]; cbn; repeat split; reflexivity. Qed.

Lemma hc_flush_fields h l : lh_count l <> 0 ->
  let s := hc_shard h (hc_hot h) in
  let h' := hc_flush h l in
  hc_bounds h' = hc_bounds h /\ hc_hot h' = hc_hot h /\ hc_total h' = hc_total h + lh_count l
  /\ hc_shard h' (negb (hc_hot h)) = hc_shard h (negb (hc_hot h))
  /\ hc_shard h' (hc_hot h) =
     mkShard (sh_sum s + lh_sum l)%float (wrap64 (sh_count s + lh_count l)) (zip_add (sh_buckets s) (lh_counts l)).
Proof.
  intros H. apply N.eqb_neq in H. unfold hc_flush. rewrite H.
  destruct h as [d ls bnds [|] tot s0 s1]; cbn; repeat split; reflexivity.
Qed.

Lemma hc_flush_empty h l : lh_count l = 0 -> hc_flush h l = h.
Proof. intros H. unfold hc_flush. rewrite H. reflexivity. Qed.

Lemma hc_proto_fields h :
  let c := hc_shard h (hc_hot h) in          (* the shard observers write to: drained by the collection *)
  let z := hc_shard h (negb (hc_hot h)) in   (* the other shard: becomes the hot one *)
  sh_count c = hc_total h ->
  exists h',
    hc_proto h = Some (mkHist (hc_total h) (sh_sum c)
                         (map (fun cb => mkBucket (fst cb) (snd cb)) (combine (cumulate 0 (sh_buckets c)) (hc_bounds h))), h')
    /\ hc_bounds h' = hc_bounds h /\ hc_hot h' = negb (hc_hot h) /\ hc_total h' = hc_total h
    /\ hc_shard h' (negb (hc_hot h)) =
       mkShard (sh_sum z + sh_sum c)%float (wrap64 (sh_count z + hc_total h)) (zip_add (sh_buckets z) (sh_buckets c))
    /\ hc_shard h' (hc_hot h) = mkShard f_zero 0 (repeat 0 (length (sh_buckets c))).
Proof.
  destruct h as [d ls bnds [|] tot s0 s1]; cbn; intros E; unfold hc_proto; cbn; rewrite E, N.eqb_refl; cbn;
    eexists; repeat split; reflexivity.
Qed.

(* ------------------------------------------------------------------ histories *)

(* what can happen to one histogram: a direct observation, the flush of a local histogram that
   observed [batch] (in this order) since its creation / previous flush, a collection *)
Inductive hop := HObserve (v : f64) | HFlush (batch : list f64) | HCollect.

Definition hop_apply (h : hcore) (o : hop) : hcore :=
  match o with
  | HObserve v => hc_observe h v
  | HFlush batch => hc_flush h (local_of (hc_bounds h) batch)
  | HCollect => match hc_proto h with Some (_, h') => h' | None => h end
  end.
Definition run_hops (h : hcore) (ops : list hop) : hcore := fold_left hop_apply ops h.

(* the observations that reached the histogram, in the order applied *)
Definition hop_values (o : hop) : list f64 :=
  match o with HObserve v => [v] | HFlush batch => batch | HCollect => [] end.
Definition hist_values (ops : list hop) : list f64 := flat_map hop_values ops.
(* the addends of the shared sum, in the order applied: a direct observation adds its value, a
   flushed batch adds its own locally accumulated sum (an empty batch adds nothing) *)
Definition hop_addends (o : hop) : list f64 :=
  match o with
  | HObserve v => [v]
  | HFlush [] => []
  | HFlush batch => [batch_sum batch]
  | HCollect => []
  end.
Definition hist_addends (ops : list hop) : list f64 := flat_map hop_addends ops.
Definition spec_sum (ops : list hop) : f64 := fold_left PrimFloat.add (hist_addends ops) f_zero.

(* the histogram a collection must return after the history [ops] *)
Definition spec_hist (bs : list f64) (ops : list hop) : Histogram :=
  let obs := hist_values ops in
  mkHist (N.of_nat (length obs)) (spec_sum ops) (map (fun b => mkBucket (count_le b obs) b) bs).

Definition direct_only (ops : list hop) : Prop := Forall (fun o => match o with HFlush _ => False | _ => True end) ops.

Lemma direct_addends ops : direct_only ops -> hist_addends ops = hist_values ops.
Proof.
  unfold direct_only, hist_addends, hist_values. induction ops as [|o r IH]; intros H; [reflexivity|].
  inversion H; subst. cbn [flat_map]. rewrite IH by assumption. destruct o; try reflexivity. contradiction.
Qed.

(* a core as built by HistogramCore::new *)
Definition fresh_core (bs : list f64) (h : hcore) : Prop :=
  hc_bounds h = bs /\ hc_hot h = false /\ hc_total h = 0
  /\ hc_s0 h = shard_new (length bs) /\ hc_s1 h = shard_new (length bs).

Lemma hcore_new_fresh o vals h :
  hcore_new o vals = Ok h ->
  exists bs, check_and_adjust_buckets (ho_buckets o) = Some bs /\ fresh_core bs h.
Proof.
  unfold hcore_new. destruct (hopts_describe o) as [d|]; [|discriminate].
  destruct (has_le_label d); [discriminate|]. destruct (make_label_pairs d vals) as [ls|e]; [|discriminate].
  destruct (check_and_adjust_buckets (ho_buckets o)) as [bs|]; [|discriminate].
  intros H. inversion H; subst. exists bs. split; [reflexivity|]. unfold fresh_core. cbn. auto.
Qed.

(* the invariant between operations: the non-hot shard is zero, the hot shard describes the
   whole history *)
Record HInv (bs : list f64) (h : hcore) (ops : list hop) : Prop := mkHInv {
  inv_bounds : hc_bounds h = bs;
  inv_total : hc_total h = N.of_nat (length (hist_values ops));
  inv_cold : hc_shard h (negb (hc_hot h)) = shard_new (length bs);
  inv_hot : hc_shard h (hc_hot h) =
            mkShard (spec_sum ops) (N.of_nat (length (hist_values ops))) (fm_counts bs (hist_values ops)) }.

Lemma inv_fresh bs h : fresh_core bs h -> HInv bs h [].
Proof.
  intros (Hb & Hh & Ht & H0 & H1). constructor; auto.
  - rewrite Hh. cbn. exact H1.
  - rewrite Hh. cbn [hc_shard]. rewrite H0. unfold shard_new, spec_sum. cbn [hist_values hist_addends flat_map fold_left length].
    rewrite fm_counts_nil. reflexivity.
Qed.

Lemma hist_values_snoc ops o : hist_values (ops ++ [o]) = hist_values ops ++ hop_values o.
Proof. unfold hist_values. rewrite flat_map_app. cbn [flat_map]. rewrite app_nil_r. reflexivity. Qed.
Lemma hist_addends_snoc ops o : hist_addends (ops ++ [o]) = hist_addends ops ++ hop_addends o.
Proof. unfold hist_addends. rewrite flat_map_app. cbn [flat_map]. rewrite app_nil_r. reflexivity. Qed.

Lemma spec_sum_not_negzero ops : is_negzero (spec_sum ops) = false.
Proof. unfold spec_sum. apply fold_add_not_negzero. reflexivity. Qed.

Lemma shard_eta s : s = mkShard (sh_sum s) (sh_count s) (sh_buckets s).
Proof. destruct s; reflexivity. Qed.

(* a collection in a state satisfying the invariant *)
Lemma inv_collect bs h ops : HInv bs h ops -> chain_lt bs ->
  N.of_nat (length (hist_values ops)) < two64 ->
  exists h', hc_proto h = Some (spec_hist bs ops, h') /\ HInv bs h' ops.
Proof.
  intros [Hb Ht Hc Hh] Hchain Hlen.
  destruct (hc_proto_fields h) as (h' & Hp & Hb' & Hhot' & Ht' & Hnew & Hold).
  { rewrite Hh, Ht. reflexivity. }
  exists h'. split.
  - rewrite Hp. unfold spec_hist. rewrite Hh, Ht, Hb. cbn [sh_sum sh_buckets]. cbv zeta.
    rewrite cumulate_fm by (auto; lia). rewrite map_bucket_combine.
    rewrite (map_ext (fun b => mkBucket (0 + count_le b (hist_values ops)) b)
                     (fun b => mkBucket (count_le b (hist_values ops)) b)); [reflexivity|].
    intros b. rewrite N.add_0_l. reflexivity.
  - constructor.
    + congruence.
    + congruence.
    + rewrite Hhot', negb_involutive, Hold, Hh. cbn [sh_buckets]. rewrite fm_counts_length. reflexivity.
    + rewrite Hhot', Hnew, Hc, Hh, Ht. unfold shard_new. cbn [sh_sum sh_count sh_buckets]. f_equal.
      * apply add_zero_l. apply spec_sum_not_negzero.
      * rewrite N.add_0_l. apply wrap64_small. exact Hlen.
      * rewrite <- (fm_counts_length bs (hist_values ops)). apply zip_add_zero_l.
        eapply Forall_impl; [|apply fm_counts_bound]. intros x Hx. cbn beta in Hx. lia.
Qed.

Lemma inv_step bs h ops o : HInv bs h ops -> chain_lt bs ->
  N.of_nat (length (hist_values (ops ++ [o]))) < two64 ->
  HInv bs (hop_apply h o) (ops ++ [o]).
Proof.
  intros I Hchain Hlen. pose proof I as [Hb Ht Hc Hh].
  rewrite hist_values_snoc, app_length in Hlen.
  destruct o as [v|batch|]; cbn [hop_apply].
  - (* direct observation *)
    cbn [hop_values length] in Hlen.
    destruct (hc_observe_fields h v) as (Hb' & Hhot' & Ht' & Hcold' & Hhot).
    constructor.
    + congruence.
    + rewrite Ht', Ht, hist_values_snoc, app_length. cbn [hop_values length]. lia.
    + rewrite Hhot', Hcold'. exact Hc.
    + rewrite Hhot', Hhot, Hh, Hb. cbn [sh_sum sh_count sh_buckets].
      unfold spec_sum. rewrite hist_addends_snoc, hist_values_snoc. cbn [hop_addends hop_values].
      rewrite fold_snoc, fm_counts_snoc by lia. rewrite wrap64_small by lia. rewrite app_length. cbn [length].
      f_equal. lia.
  - (* flush of a local histogram *)
    cbn [hop_values] in Hlen. rewrite Hb.
    rewrite local_of_spec by lia.
    destruct batch as [|v0 batch0].
    + rewrite hc_flush_empty by reflexivity.
      constructor; rewrite ?hist_values_snoc; unfold spec_sum; rewrite ?hist_addends_snoc; cbn [hop_values hop_addends];
        rewrite ?app_nil_r; auto.
    + set (batch := v0 :: batch0) in *.
      set (l := mkLHist (fm_counts bs batch) (N.of_nat (length batch)) (batch_sum batch)).
      assert (Hnz : lh_count l <> 0) by (unfold l, batch; cbn [lh_count length]; lia).
      destruct (hc_flush_fields h l Hnz) as (Hb' & Hhot' & Ht' & Hcold' & Hhot).
      constructor.
      * congruence.
      * rewrite Ht', Ht, hist_values_snoc, app_length. cbn [hop_values]. unfold l. cbn [lh_count]. lia.
      * rewrite Hhot', Hcold'. exact Hc.
      * rewrite Hhot', Hhot, Hh. unfold l. cbn [sh_sum sh_count sh_buckets lh_sum lh_count lh_counts].
        unfold spec_sum. rewrite hist_addends_snoc, hist_values_snoc.
        change (hop_addends (HFlush batch)) with [batch_sum batch]. cbn [hop_values].
        rewrite fold_snoc, fm_counts_zip_app by lia. rewrite wrap64_small by lia. rewrite app_length.
        f_equal. lia.
  - (* a collection *)
    cbn [hop_values length] in Hlen.
    destruct (inv_collect bs h ops I Hchain) as (h' & Hp & I'); [lia|].
    rewrite Hp. destruct I' as [Hb' Ht' Hc' Hh'].
    constructor; rewrite ?hist_values_snoc; unfold spec_sum; rewrite ?hist_addends_snoc; cbn [hop_values hop_addends];
      rewrite ?app_nil_r; auto.
Qed.

Lemma hist_values_prefix_length ops o :
  (length (hist_values ops) <= length (hist_values (ops ++ [o])))%nat.
Proof. rewrite hist_values_snoc, app_length. lia. Qed.

Lemma inv_run bs h0 ops : fresh_core bs h0 -> chain_lt bs ->
  N.of_nat (length (hist_values ops)) < two64 ->
  HInv bs (run_hops h0 ops) ops.
Proof.
  intros F Hchain. unfold run_hops. induction ops as [|o ops IH] using rev_ind; intros Hlen.
  - cbn. apply inv_fresh. exact F.
  - rewrite fold_snoc. apply inv_step; auto. apply IH.
    pose proof (hist_values_prefix_length ops o). lia.
Qed.

(* The main statement: after ANY history on a fresh core with accepted bounds, a collection
   returns (never hangs) the histogram of everything observed so far, and the two cheap
   accessors agree with it. *)
Theorem hist_history bs h0 ops :
  fresh_core bs h0 -> chain_lt bs ->
  N.of_nat (length (hist_values ops)) < two63 ->
  let h := run_hops h0 ops in
  (exists h', hc_proto h = Some (spec_hist bs ops, h'))
  /\ hc_sample_count h = N.of_nat (length (hist_values ops))
  /\ hc_sample_sum h = spec_sum ops.
Proof.
  intros F Hchain Hlen. cbv zeta.
  assert (Hlen' : N.of_nat (length (hist_values ops)) < two64) by (pose proof two63_lt_two64; lia).
  pose proof (inv_run bs h0 ops F Hchain Hlen') as I.
  split; [|split].
  - destruct (inv_collect _ _ _ I Hchain Hlen') as (h' & Hp & _). eauto.
  - unfold hc_sample_count. apply I.
  - unfold hc_sample_sum. rewrite (inv_hot _ _ _ I). reflexivity.
Qed.

(* the buckets of the shared histogram and of a local one are filled by the same rule *)
Theorem shared_buckets_as_local bs h0 obs :
  fresh_core bs h0 -> chain_lt bs -> N.of_nat (length obs) < two63 ->
  let h := fold_left hc_observe obs h0 in
  sh_buckets (hc_shard h (hc_hot h)) = lh_counts (local_of bs obs)
  /\ sh_buckets (hc_shard h (hc_hot h)) = bucket_vector bs obs.
Proof.
  intros F Hchain Hlen. cbv zeta.
  assert (Hlen' : N.of_nat (length obs) < two64) by (pose proof two63_lt_two64; lia).
  assert (E : fold_left hc_observe obs h0 = run_hops h0 (map HObserve obs)).
  { unfold run_hops. clear. revert h0. induction obs as [|v obs IH]; intros h0; cbn; auto. }
  assert (V : hist_values (map HObserve obs) = obs).
  { unfold hist_values. clear. induction obs as [|v obs IH]; cbn; congruence. }
  rewrite E. pose proof (inv_run bs h0 (map HObserve obs) F Hchain) as I. rewrite V in I. specialize (I Hlen').
  rewrite (inv_hot _ _ _ I), V. cbn [sh_buckets]. rewrite local_of_spec by assumption. cbn [lh_counts].
  split; [reflexivity|]. symmetry. apply bucket_vector_fm.
Qed.

(* flushing a local histogram that observed [obs]: what it adds to the shared core *)
Theorem flush_adds bs h obs : hc_bounds h = bs -> obs <> [] -> N.of_nat (length obs) < two64 ->
  let s := hc_shard h (hc_hot h) in
  let h' := hc_flush h (local_of bs obs) in
  hc_total h' = hc_total h + N.of_nat (length obs)
  /\ hc_shard h' (negb (hc_hot h)) = hc_shard h (negb (hc_hot h))
  /\ hc_hot h' = hc_hot h
  /\ hc_shard h' (hc_hot h) =
     mkShard (sh_sum s + batch_sum obs)%float (wrap64 (sh_count s + N.of_nat (length obs)))
             (zip_add (sh_buckets s) (bucket_vector bs obs)).
Proof.
  intros Hb Hne Hlen. cbv zeta. rewrite local_of_spec by assumption. rewrite bucket_vector_fm.
  set (l := mkLHist (fm_counts bs obs) (N.of_nat (length obs)) (batch_sum obs)).
  assert (Hnz : lh_count l <> 0). { unfold l. cbn [lh_count]. destruct obs; [congruence|cbn [length]; lia]. }
  destruct (hc_flush_fields h l Hnz) as (Hb' & Hhot' & Ht' & Hcold' & Hhot). auto.
Qed.

(* ------------------------------------------------------------------ readable forms *)

Lemma no_nan_iff bs : no_nan bs <-> forall b, In b bs -> b <> nan.
Proof.
  unfold no_nan. rewrite Forall_forall. split; intros H b Hin.
  - intros ->. specialize (H nan Hin). discriminate H.
  - specialize (H b Hin). destruct (f_is_nan b) eqn:E; [|reflexivity]. apply f_is_nan_iff in E. contradiction.
Qed.

Theorem check_and_adjust_iff' bs bs' :
  check_and_adjust_buckets bs = Some bs' <->
  let bs0 := match bs with [] => DEFAULT_BUCKETS | _ => bs end in
  (forall b, In b bs0 -> b <> nan)
  /\ (forall i a b, nth_error bs0 i = Some a -> nth_error bs0 (S i) = Some b -> PrimFloat.ltb a b = true)
  /\ ((last bs0 f_zero = infinity /\ bs' = removelast bs0) \/ (last bs0 f_zero <> infinity /\ bs' = bs0)).
Proof. rewrite check_and_adjust_iff. cbv zeta. rewrite no_nan_iff. reflexivity. Qed.

Theorem accepted_sorted bs bs' : check_and_adjust_buckets bs = Some bs' ->
  (forall b, In b bs' -> b <> nan)
  /\ (forall i j bi bj, (i < j)%nat -> nth_error bs' i = Some bi -> nth_error bs' j = Some bj -> PrimFloat.ltb bi bj = true).
Proof.
  intros H. apply check_and_adjust_accepted in H as [Hn Hc]. split; [apply no_nan_iff; exact Hn|].
  apply chain_lt_pairwise. exact Hc.
Qed.

Theorem outside_no_bucket v bs j :
  (v = nan \/ forall b, In b bs -> PrimFloat.ltb b v = true) ->
  find_bucket v bs j = None /\ forall b, In b bs -> PrimFloat.leb v b = false.
Proof.
  intros [->|H].
  - split; [apply find_bucket_nan; reflexivity|]. intros b _. apply leb_nan_l.
  - split; [apply find_bucket_above; apply Forall_forall; exact H|]. intros b Hb. apply ltb_nleb. auto.
Qed.

(* main theorem for cores built by HistogramCore::new *)
Theorem hist_history_new o vals h0 ops :
  hcore_new o vals = Ok h0 ->
  N.of_nat (length (hist_values ops)) < two63 ->
  let bs := hc_bounds h0 in
  let h := run_hops h0 ops in
  check_and_adjust_buckets (ho_buckets o) = Some bs
  /\ (exists h', hc_proto h = Some (spec_hist bs ops, h'))
  /\ hc_sample_count h = N.of_nat (length (hist_values ops))
  /\ hc_sample_sum h = spec_sum ops.
Proof.
  intros Hn Hlen. cbv zeta. destruct (hcore_new_fresh _ _ _ Hn) as (bs & Hc & F).
  assert (E : hc_bounds h0 = bs) by apply F. rewrite E. split; [exact Hc|].
  apply hist_history; auto. apply check_and_adjust_accepted in Hc. apply Hc.
Qed.

Lemma spec_sum_direct ops : direct_only ops -> spec_sum ops = fold_left PrimFloat.add (hist_values ops) f_zero.
Proof. intros H. unfold spec_sum. rewrite direct_addends by assumption. reflexivity. Qed.

Theorem local_same bs obs : N.of_nat (length obs) < two64 ->
  let l := fold_left (lh_observe bs) obs (lh_new (length bs)) in
  lh_counts l = bucket_vector bs obs /\ lh_count l = N.of_nat (length obs)
  /\ lh_sum l = fold_left PrimFloat.add obs f_zero /\ lh_clear l = lh_new (length bs).
Proof.
  intros Hlen. cbv zeta. fold (local_of bs obs). rewrite local_clear. rewrite local_of_spec by assumption.
  cbn [lh_counts lh_count lh_sum]. rewrite bucket_vector_fm. auto.
Qed.
