(* Facts about binary64 (Coq's primitive floats) that the histogram / counter proofs need.
   F1  v <= a -> a < b -> v <= b          (SpecFloat level, from leb_spec / ltb_spec)
   F2  +0 + s = s unless s = -0            (SpecFloat level, from add_spec)
   F3  x + y = -0 -> x = -0 /\ y = -0      (Flocq: Bplus_correct, round_plus_eq_0)
   F4  0 <= s -> 0 <= d -> s <= s + d /\ 0 <= s + d   (Flocq: Bplus_correct, round_le)
   plus small facts about NaN, +inf and the comparison operators.
   The only assumptions are the standard library's FloatAxioms and, for F3/F4, the classical /
   real-number axioms Flocq is built on. *)
From Coq Require Import Floats ZArith Reals Lia Lra Bool List.
Require Import PV.Base.F64.
From Flocq Require Import Core BinarySingleNaN PrimFloat Plus_error.
Import ListNotations.

Local Instance Hprec : FLX.Prec_gt_0 prec := eq_refl _.
Local Instance Hmax : Prec_lt_emax prec emax := eq_refl _.

Notation flt := Floats.PrimFloat.float.

(* ------------------------------------------------------------------ comparisons (SpecFloat) *)

Ltac sf_cmp_crush :=
  repeat match goal with s : bool |- _ => destruct s end; cbn; try discriminate; try reflexivity;
  repeat match goal with
         | |- context [Z.compare ?x ?y] => destruct (Z.compare_spec x y); subst; cbn
         | H : context [Z.compare ?x ?y] |- _ => destruct (Z.compare_spec x y); subst; cbn in H
         end; try discriminate; try reflexivity; try lia;
  repeat match goal with
         | |- context [Pos.compare_cont Eq ?x ?y] =>
             change (Pos.compare_cont Eq x y) with (Pos.compare x y); destruct (Pos.compare_spec x y); subst; cbn
         | H : context [Pos.compare_cont Eq ?x ?y] |- _ =>
             change (Pos.compare_cont Eq x y) with (Pos.compare x y) in H; destruct (Pos.compare_spec x y); subst; cbn in H
         end; try discriminate; try reflexivity; try lia.

Lemma SF_leb_ltb_trans (v a b : spec_float) :
  SFleb v a = true -> SFltb a b = true -> SFleb v b = true.
Proof.
  unfold SFleb, SFltb.
  destruct v as [sv|sv| |sv mv ev], a as [sa|sa| |sa ma ea], b as [sb|sb| |sb mb eb]; cbn;
    try discriminate; try reflexivity; sf_cmp_crush.
Qed.

Lemma SF_ltb_trans (a b c : spec_float) :
  SFltb a b = true -> SFltb b c = true -> SFltb a c = true.
Proof.
  unfold SFltb.
  destruct a as [sa|sa| |sa ma ea], b as [sb|sb| |sb mb eb], c as [sc|sc| |sc mc ec]; cbn;
    try discriminate; try reflexivity; sf_cmp_crush.
Qed.

(* for two numbers "not (b <= a)" is "a < b" *)
Lemma SF_nleb_ltb (a b : spec_float) :
  a <> S754_nan -> b <> S754_nan -> negb (SFleb b a) = SFltb a b.
Proof.
  unfold SFleb, SFltb. intros Ha Hb.
  destruct a as [sa|sa| |sa ma ea], b as [sb|sb| |sb mb eb]; cbn; try congruence; sf_cmp_crush.
  all: try (rewrite Pos.compare_antisym; match goal with |- context [Pos.compare ?x ?y] => destruct (Pos.compare x y) end; reflexivity).
Qed.

Lemma SF_ltb_nleb (a b : spec_float) : SFltb a b = true -> SFleb b a = false.
Proof.
  unfold SFleb, SFltb.
  destruct a as [sa|sa| |sa ma ea], b as [sb|sb| |sb mb eb]; cbn; try discriminate; try reflexivity; sf_cmp_crush.
  all: try (rewrite Pos.compare_antisym; match goal with |- context [Pos.compare ?x ?y] => destruct (Pos.compare x y) end; cbn in *; congruence).
Qed.

Lemma SF_ltb_not_nan (a b : spec_float) : SFltb a b = true -> a <> S754_nan /\ b <> S754_nan.
Proof. unfold SFltb. destruct a, b; cbn; try discriminate; split; discriminate. Qed.

(* F1 *)
Lemma leb_ltb_trans (v a b : flt) :
  PrimFloat.leb v a = true -> PrimFloat.ltb a b = true -> PrimFloat.leb v b = true.
Proof. rewrite !leb_spec, ltb_spec. apply SF_leb_ltb_trans. Qed.

Lemma ltb_trans (a b c : flt) :
  PrimFloat.ltb a b = true -> PrimFloat.ltb b c = true -> PrimFloat.ltb a c = true.
Proof. rewrite !ltb_spec. apply SF_ltb_trans. Qed.

Lemma ltb_nleb (a b : flt) : PrimFloat.ltb a b = true -> PrimFloat.leb b a = false.
Proof. rewrite ltb_spec, leb_spec. apply SF_ltb_nleb. Qed.

(* ------------------------------------------------------------------ NaN, +inf *)

Lemma SF_eqb_refl_nan (x : spec_float) : SFeqb x x = false <-> x = S754_nan.
Proof.
  unfold SFeqb. destruct x as [s|s| |s m e]; cbn; split; try discriminate; try reflexivity.
  - destruct s; discriminate.
  - destruct s; rewrite Z.compare_refl; change (Pos.compare_cont Eq m m) with (Pos.compare m m);
      rewrite Pos.compare_refl; discriminate.
Qed.

Lemma Prim2SF_nan : Prim2SF nan = S754_nan.
Proof. reflexivity. Qed.

Lemma f_is_nan_SF (x : flt) : f_is_nan x = true <-> Prim2SF x = S754_nan.
Proof.
  unfold f_is_nan. rewrite eqb_spec, negb_true_iff. apply SF_eqb_refl_nan.
Qed.

(* there is one NaN *)
Lemma f_is_nan_iff (x : flt) : f_is_nan x = true <-> x = nan.
Proof.
  rewrite f_is_nan_SF. split.
  - intros H. apply Prim2SF_inj. rewrite H. reflexivity.
  - intros ->. reflexivity.
Qed.

Lemma f_not_nan_SF (x : flt) : f_is_nan x = false <-> Prim2SF x <> S754_nan.
Proof.
  rewrite <- f_is_nan_SF. destruct (f_is_nan x); split; congruence.
Qed.

Lemma leb_nan_l (b : flt) : PrimFloat.leb nan b = false.
Proof. rewrite leb_spec. reflexivity. Qed.

Lemma leb_is_nan_l (v b : flt) : f_is_nan v = true -> PrimFloat.leb v b = false.
Proof. intros H. apply f_is_nan_iff in H. subst. apply leb_nan_l. Qed.

Lemma ltb_not_nan (a b : flt) : PrimFloat.ltb a b = true -> f_is_nan a = false /\ f_is_nan b = false.
Proof.
  rewrite ltb_spec. intros H. apply SF_ltb_not_nan in H. rewrite !f_not_nan_SF. exact H.
Qed.

Lemma nleb_ltb (a b : flt) :
  f_is_nan a = false -> f_is_nan b = false -> negb (PrimFloat.leb b a) = PrimFloat.ltb a b.
Proof. rewrite !f_not_nan_SF, leb_spec, ltb_spec. apply SF_nleb_ltb. Qed.

Lemma SF_eqb_inf (x : spec_float) : SFeqb x (S754_infinity false) = true <-> x = S754_infinity false.
Proof.
  unfold SFeqb. destruct x as [s|s| |s m e]; cbn; split; try discriminate; try reflexivity.
  - destruct s; [discriminate|reflexivity].
  - intros H. inversion H. reflexivity.
Qed.

Lemma f_pos_inf_iff (x : flt) : f_pos_inf x = true <-> x = infinity.
Proof.
  unfold f_pos_inf. rewrite eqb_spec. change (Prim2SF infinity) with (S754_infinity false).
  rewrite SF_eqb_inf. split.
  - intros H. apply Prim2SF_inj. rewrite H. reflexivity.
  - intros ->. reflexivity.
Qed.

(* ------------------------------------------------------------------ F2, F3: the sign of zero *)

Definition is_negzero (x : flt) : bool := match Prim2SF x with S754_zero true => true | _ => false end.

Lemma is_negzero_iff (x : flt) : is_negzero x = true <-> x = (-0)%float.
Proof.
  unfold is_negzero. split.
  - intros H. apply Prim2SF_inj. change (Prim2SF (-0)%float) with (S754_zero true).
    destruct (Prim2SF x) as [[|]| | |]; try discriminate. reflexivity.
  - intros ->. reflexivity.
Qed.

(* F2 *)
Lemma add_zero_l (s : flt) : is_negzero s = false -> (0 + s)%float = s.
Proof.
  unfold is_negzero. intros H. apply Prim2SF_inj. rewrite add_spec.
  change (Prim2SF 0) with (S754_zero false). unfold SF64add, SFadd.
  destruct (Prim2SF s) as [[|]| | |] eqn:E; try reflexivity; discriminate.
Qed.

Lemma B2R_sign_neg m e H : (B2R (B754_finite (prec:=prec) (emax:=emax) true m e H) < 0)%R.
Proof. cbn. apply F2R_lt_0. cbn. lia. Qed.

Lemma Bplus_negzero (x y : binary_float prec emax) :
  Bplus mode_NE x y = B754_zero true -> x = B754_zero true /\ y = B754_zero true.
Proof.
  intros H.
  destruct x as [sx|sx| |sx mx ex Hx], y as [sy|sy| |sy my ey Hy].
  all: try (unfold Bplus in H; discriminate).
  - unfold Bplus in H. destruct sx, sy; cbn in H; try discriminate; auto.
  - unfold Bplus in H. destruct (Bool.eqb sx sy); discriminate.
  - pose proof (Bplus_correct prec emax Hprec Hmax mode_NE (B754_finite sx mx ex Hx) (B754_finite sy my ey Hy) eq_refl eq_refl) as C.
    rewrite H in C.
    destruct (Rlt_bool _ _) in C.
    + destruct C as (HR & _ & HS). cbn [B2R Bsign] in HR, HS.
      symmetry in HR.
      assert (E0 : (F2R (beta:=radix2) {| Fnum := cond_Zopp sx (Z.pos mx); Fexp := ex |}
                    + F2R (beta:=radix2) {| Fnum := cond_Zopp sy (Z.pos my); Fexp := ey |} = 0)%R).
      { eapply (round_plus_eq_0 radix2 (SpecFloat.fexp prec emax) (round_mode mode_NE)); [ | | exact HR].
        - apply (generic_format_B2R prec emax (B754_finite sx mx ex Hx)).
        - apply (generic_format_B2R prec emax (B754_finite sy my ey Hy)). }
      rewrite E0, Rcompare_Eq in HS by reflexivity.
      symmetry in HS. apply andb_prop in HS as [-> ->].
      pose proof (B2R_sign_neg mx ex Hx) as N1. pose proof (B2R_sign_neg my ey Hy) as N2. cbn [B2R] in N1, N2. lra.
    + destruct C as (C & _). cbn [B2SF] in C. unfold binary_overflow in C. destruct (overflow_to_inf _ _); discriminate.
Qed.

(* F3 *)
Lemma add_negzero_SF (x y : flt) :
  Prim2SF (x + y)%float = S754_zero true -> Prim2SF x = S754_zero true /\ Prim2SF y = S754_zero true.
Proof.
  intros H. rewrite <- !B2SF_Prim2B in *. rewrite add_equiv in H.
  destruct (Bplus mode_NE (Prim2B x) (Prim2B y)) as [s| | |] eqn:E; try discriminate.
  cbn in H. inversion H; subst. apply Bplus_negzero in E as [-> ->]. auto.
Qed.

Lemma add_negzero (x y : flt) : (x + y)%float = (-0)%float -> x = (-0)%float /\ y = (-0)%float.
Proof.
  intros H. assert (E : Prim2SF (x + y)%float = S754_zero true) by (rewrite H; reflexivity).
  apply add_negzero_SF in E as [Ex Ey]. split; apply Prim2SF_inj; rewrite ?Ex, ?Ey; reflexivity.
Qed.

(* a sum whose left operand is not -0 is not -0: a running sum started at +0 never is -0 *)
Lemma add_not_negzero (a v : flt) : is_negzero a = false -> is_negzero (a + v)%float = false.
Proof.
  unfold is_negzero. intros H. destruct (Prim2SF (a + v)) as [[|]| | |] eqn:E; try reflexivity.
  apply add_negzero_SF in E as [Ea _]. rewrite Ea in H. discriminate.
Qed.

Lemma fold_add_not_negzero (l : list flt) (a : flt) :
  is_negzero a = false -> is_negzero (fold_left PrimFloat.add l a) = false.
Proof.
  revert a. induction l as [|v l IH]; intros a H; cbn; auto. apply IH. apply add_not_negzero; auto.
Qed.

(* ------------------------------------------------------------------ F4: monotone addition *)

Notation bf := (binary_float prec emax).
Notation bzero := (B754_zero (prec:=prec) (emax:=emax) false).

Lemma Bleb_zero_finite (x : bf) : is_finite x = true -> Bleb bzero x = true -> (0 <= B2R x)%R.
Proof.
  intros F H. rewrite (Bleb_correct prec emax bzero x eq_refl F) in H. cbn [B2R] in H.
  destruct (Rle_bool_spec 0 (B2R x)); [assumption|discriminate].
Qed.

Lemma Bleb_zero_cases (x : bf) : Bleb bzero x = true ->
  (is_finite x = true /\ (0 <= B2R x)%R) \/ x = B754_infinity false.
Proof.
  destruct x as [s|[|]| |s m e H] eqn:E; intros L.
  - left. split; [reflexivity|cbn; lra].
  - discriminate.
  - right. reflexivity.
  - discriminate.
  - left. split; [reflexivity|]. rewrite <- E in *. apply Bleb_zero_finite; subst; auto.
Qed.

Lemma Bplus_mono (s d : bf) : Bleb bzero s = true -> Bleb bzero d = true ->
  Bleb s (Bplus mode_NE s d) = true /\ Bleb bzero (Bplus mode_NE s d) = true.
Proof.
  intros Hs Hd.
  destruct (Bleb_zero_cases s Hs) as [[Fs Rs]| ->]; destruct (Bleb_zero_cases d Hd) as [[Fd Rd]| ->].
  - (* finite + finite *)
    pose proof (Bplus_correct prec emax Hprec Hmax mode_NE s d Fs Fd) as C.
    set (x := Rabs (round radix2 (SpecFloat.fexp prec emax) (round_mode mode_NE) (B2R s + B2R d))) in *.
    destruct (Rlt_bool_spec x (bpow radix2 emax)) as [Hlt|Hge].
    + destruct C as (HR & HF & _).
      assert (Hge : (B2R s <= B2R (Bplus mode_NE s d))%R).
      { rewrite HR. rewrite <- (round_generic radix2 (SpecFloat.fexp prec emax) (round_mode mode_NE) (B2R s)) at 1
          by apply generic_format_B2R.
        apply round_le; [apply (fexp_correct prec emax Hprec) | apply valid_rnd_round_mode | lra]. }
      split.
      * rewrite (Bleb_correct prec emax s _ Fs HF). apply Rle_bool_true. exact Hge.
      * rewrite (Bleb_correct prec emax bzero _ eq_refl HF). apply Rle_bool_true. cbn [B2R]. lra.
    + destruct C as (C & Hsign).
      assert (Hz : forall y : bf, is_finite y = true -> (0 <= B2R y)%R -> Bsign y = true -> B2R y = 0%R).
      { intros [sy|sy| |[|] my ey Hy] Fy Ry Sy; try discriminate; try reflexivity.
        exfalso. cbn in Ry. pose proof (F2R_lt_0 radix2 {| Fnum := Z.neg my; Fexp := ey |}) as N. cbn in N.
        assert (Z.neg my < 0)%Z by lia. specialize (N H). lra. }
      assert (Hsf : Bsign s = false).
      { destruct (Bsign s) eqn:Es; [|reflexivity]. exfalso.
        pose proof (Hz s Fs Rs Es) as Z1. pose proof (Hz d Fd Rd (eq_sym Hsign)) as Z2.
        unfold x in Hge. rewrite Z1, Z2, Rplus_0_r, round_0, Rabs_R0 in Hge by apply valid_rnd_round_mode.
        pose proof (bpow_gt_0 radix2 emax). lra. }
      unfold binary_overflow in C. rewrite Hsf in C. cbn in C.
      destruct (Bplus mode_NE s d) as [| [|] | |]; try discriminate. split; [|reflexivity].
      destruct s as [| | |]; try discriminate; reflexivity.
  - (* finite + inf *) destruct s as [ss|ss| |ss ms es Hs']; try discriminate; cbn; auto.
  - (* inf + finite *) destruct d as [sd|sd| |sd md ed Hd']; try discriminate; cbn; auto.
  - cbn. auto.
Qed.

(* F4 *)
Theorem add_mono (s d : flt) :
  PrimFloat.leb 0 s = true -> PrimFloat.leb 0 d = true ->
  PrimFloat.leb s (s + d)%float = true /\ PrimFloat.leb 0 (s + d)%float = true.
Proof.
  rewrite !leb_equiv, add_equiv. change (Prim2B 0%float) with bzero. apply Bplus_mono.
Qed.
