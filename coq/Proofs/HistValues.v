(* Value-level reading of the ghost records of the concurrent histogram: the record of an
   observation of v (of a flushed batch vs) carries count 1 (length vs), the value sum in the
   sum cell and, in bucket cell j, the number of its values whose first bucket is j; for
   non-decreasing bounds the cumulative bucket counts of a set of records are, bound by bound,
   the number of values not greater than that bound. *)
Require Import PV.Base.Prelude PV.Base.F64 PV.Model.Conc PV.Model.HistConc PV.Model.HistExec.
Require Import PV.Proofs.HistConcLemmas PV.Proofs.HistConcInv.
From Coq Require Import ZArith Lia Bool Arith.
Open Scope Z_scope.

Section V.
Variable bounds : list Z.
Notation B := (length bounds).

Definition zsum (l : list Z) : Z := fold_right Z.add 0 l.
Definition in_bucket (j : nat) (v : Z) : bool :=
  match bucket_of v bounds O with Some i => Nat.eqb i j | None => false end.
Definition zcount (p : Z -> bool) (l : list Z) : Z := Z.of_nat (length (filter p l)).

(* what the values vs contribute to cell k: cell 0 is the sum, cell S j is bucket j *)
Definition cell_total (vs : list Z) (k : nat) : Z :=
  match k with O => zsum vs | S j => zcount (in_bucket j) vs end.

(* planned writes (cell, delta) summed per cell *)
Definition ws_full (k : nat) (ws : list (nat * Z)) : Z := sumf (fun p => if Nat.eqb (fst p) k then snd p else 0) ws.

Definition planned_ok (vs : list Z) (c : Z) (ws : list (nat * Z)) : Prop :=
  vs <> [] /\ c = Z.of_nat (length vs) /\ forall k, ws_full k ws = cell_total vs k.

Definition rec_of_vals (vs : list Z) (r : rec) : Prop :=
  vs <> [] /\ r_cnt r = Z.of_nat (length vs) /\ forall k, full k r = cell_total vs k.

Lemma zcount_app p l1 l2 : zcount p (l1 ++ l2) = zcount p l1 + zcount p l2.
Proof. unfold zcount. rewrite filter_app, app_length. lia. Qed.
Lemma zsum_app l1 l2 : zsum (l1 ++ l2) = zsum l1 + zsum l2.
Proof. unfold zsum. induction l1; cbn; lia. Qed.
Lemma zcount_cons p v l : zcount p (v :: l) = (if p v then 1 else 0) + zcount p l.
Proof. unfold zcount. cbn. destruct (p v); cbn [length]; lia. Qed.
Lemma zcount_nonneg p l : 0 <= zcount p l.
Proof. unfold zcount. lia. Qed.

Lemma fold_left_add_zsum l a : fold_left Z.add l a = a + zsum l.
Proof. revert a; induction l as [|x l IH]; intros a; cbn; [lia|]. rewrite IH. unfold zsum. lia. Qed.

Lemma ws_full_app k a b : ws_full k (a ++ b) = ws_full k a + ws_full k b.
Proof. apply sumf_app. Qed.

Lemma full_fresh k c ws h :
  full k {| r_cnt := c; r_ws := map (fun p => {| w_cell := fst p; w_d := snd p; w_done := false |}) ws; r_pub := false; r_tgt := h |}
  = ws_full k ws.
Proof.
  unfold full, ws_full; cbn [r_ws]. induction ws as [|p ws IH]; cbn; auto. rewrite IH. unfold wr_full; cbn. reflexivity.
Qed.

(* ---- a direct observation ---- *)
Lemma bucket_of_lt v : forall bs j i, bucket_of v bs j = Some i -> (j <= i < j + length bs)%nat.
Proof.
  induction bs as [|b bs IH]; intros j i H; cbn in H; [discriminate|].
  destruct (v <=? b).
  - inversion H; subst. cbn. lia.
  - apply IH in H. cbn. lia.
Qed.

Lemma obs_planned v : planned_ok [v] 1 (obs_writes bounds v).
Proof.
  split; [discriminate|]. split; [reflexivity|]. intros k. unfold obs_writes. rewrite ws_full_app.
  unfold ws_full at 2. cbn [sumf fst snd]. unfold cell_total, in_bucket, zcount, zsum. cbn [filter fold_right].
  destruct (bucket_of v bounds 0) as [i|] eqn:E; destruct k as [|j]; cbn [ws_full sumf fst snd length]; unfold ws_full; cbn [sumf fst snd].
  - change (Nat.eqb (S i) 0) with false. change (Nat.eqb 0 0) with true. cbn. lia.
  - change (Nat.eqb (S i) (S j)) with (Nat.eqb i j). change (Nat.eqb 0 (S j)) with false.
    destruct (Nat.eqb i j); cbn; lia.
  - change (Nat.eqb 0 0) with true. cbn. lia.
  - change (Nat.eqb 0 (S j)) with false. cbn. lia.
Qed.

(* ---- a flushed batch ---- *)
Lemma bumpz_length j l : length (bumpz j l) = length l.
Proof. revert j; induction l as [|x l IH]; intros [|j]; cbn; auto. Qed.
Lemma nth_bumpz j i l : nth j (bumpz i l) 0 = nth j l 0 + (if Nat.eqb i j && Nat.ltb j (length l) then 1 else 0).
Proof.
  revert j i; induction l as [|x l IH]; intros j i.
  - cbn. destruct j, i; cbn; rewrite ?andb_false_r; try lia; destruct (Nat.eqb _ _); cbn; lia.
  - destruct i as [|i], j as [|j]; cbn [bumpz nth length].
    + change (Nat.eqb 0 0) with true. change (Nat.ltb 0 (S (length l))) with true. cbn. lia.
    + change (Nat.eqb 0 (S j)) with false. cbn. lia.
    + change (Nat.eqb (S i) 0) with false. cbn. lia.
    + rewrite IH. change (Nat.eqb (S i) (S j)) with (Nat.eqb i j). change (Nat.ltb (S j) (S (length l))) with (Nat.ltb j (length l)). reflexivity.
Qed.

Definition bstep (acc : list Z) (v : Z) : list Z :=
  match bucket_of v bounds O with Some j => bumpz j acc | None => acc end.

Lemma bstep_length acc v : length (bstep acc v) = length acc.
Proof. unfold bstep. destruct (bucket_of v bounds 0); auto using bumpz_length. Qed.

Lemma fold_bstep_length vs : forall acc, length (fold_left bstep vs acc) = length acc.
Proof. induction vs as [|v vs IH]; intros acc; cbn; auto. rewrite IH. apply bstep_length. Qed.

Lemma nth_fold_bstep j vs : forall acc, length acc = B ->
  nth j (fold_left bstep vs acc) 0 = nth j acc 0 + zcount (in_bucket j) vs.
Proof.
  induction vs as [|v vs IH]; intros acc Hl; cbn [fold_left].
  - unfold zcount. cbn. lia.
  - rewrite IH by (rewrite bstep_length; auto). rewrite zcount_cons. unfold bstep, in_bucket.
    destruct (bucket_of v bounds 0) as [i|] eqn:E; [|lia].
    rewrite nth_bumpz. apply bucket_of_lt in E. rewrite Hl.
    destruct (Nat.eqb_spec i j); cbn [andb]; [|lia]. subst.
    destruct (Nat.ltb_spec j B); [lia|lia].
Qed.

Lemma batch_vec_nth j vs : nth j (batch_vec bounds vs) 0 = zcount (in_bucket j) vs.
Proof.
  unfold batch_vec. change (fun acc v => match bucket_of v bounds 0 with Some j0 => bumpz j0 acc | None => acc end) with bstep.
  rewrite nth_fold_bstep by apply repeat_length.
  assert (nth j (repeat 0 B) 0 = 0) as ->; [|lia].
  generalize B. intros n. revert j; induction n as [|n IH]; intros [|j]; cbn; auto.
Qed.

Lemma batch_vec_nonneg vs : Forall (fun x => 0 <= x) (batch_vec bounds vs).
Proof.
  apply Forall_forall. intros x Hx. apply (In_nth _ _ 0) in Hx as (j & _ & <-). rewrite batch_vec_nth. apply zcount_nonneg.
Qed.

Lemma nonzero_writes_cell0 l : forall j, ws_full O (nonzero_writes j l) = 0.
Proof.
  induction l as [|x l IH]; intros j; cbn [nonzero_writes]; [reflexivity|].
  rewrite ws_full_app, IH. destruct (0 <? x); unfold ws_full; cbn [sumf fst snd]; [|reflexivity].
  change (Nat.eqb (S j) 0) with false. reflexivity.
Qed.

Lemma nonzero_writes_cellS l : Forall (fun x => 0 <= x) l -> forall j0 j,
  ws_full (S j) (nonzero_writes j0 l) = if Nat.leb j0 j then nth (j - j0) l 0 else 0.
Proof.
  induction 1 as [|x l Hx Hl IH]; intros j0 j; cbn [nonzero_writes].
  - unfold ws_full; cbn. destruct (Nat.leb j0 j); destruct (j - j0)%nat; reflexivity.
  - rewrite ws_full_app, IH.
    assert (E : ws_full (S j) (if 0 <? x then [(S j0, x)] else []) = if Nat.eqb j0 j then x else 0).
    { destruct (Z.ltb_spec 0 x); unfold ws_full; cbn [sumf fst snd].
      - change (Nat.eqb (S j0) (S j)) with (Nat.eqb j0 j). destruct (Nat.eqb j0 j); lia.
      - destruct (Nat.eqb j0 j); lia. }
    rewrite E. destruct (Nat.eqb_spec j0 j).
    + subst. rewrite Nat.leb_refl. replace (j - j)%nat with O by lia. cbn [nth].
      destruct (Nat.leb_spec (S j) j); lia.
    + destruct (Nat.leb_spec j0 j); destruct (Nat.leb_spec (S j0) j); try lia.
      replace (j - j0)%nat with (S (j - S j0)) by lia. cbn [nth]. lia.
Qed.

Lemma batch_planned vs : vs <> [] -> planned_ok vs (Z.of_nat (length vs)) (batch_writes bounds vs).
Proof.
  intros Hne. split; auto. split; auto. intros k. unfold batch_writes. rewrite ws_full_app. destruct k as [|j].
  - rewrite nonzero_writes_cell0. unfold ws_full; cbn [sumf fst snd]. change (Nat.eqb 0 0) with true.
    rewrite fold_left_add_zsum. cbn [cell_total]. lia.
  - rewrite nonzero_writes_cellS by apply batch_vec_nonneg. cbn [Nat.leb]. rewrite Nat.sub_0_r, batch_vec_nth.
    unfold ws_full; cbn [sumf fst snd]. change (Nat.eqb 0 (S j)) with false. cbn [cell_total]. lia.
Qed.

(* ---- sets of records ---- *)
Lemma recs_totals (rs : list rec) (vl : list (list Z)) :
  Forall2 (fun vs r => rec_of_vals vs r) vl rs ->
  sumf r_cnt rs = Z.of_nat (length (concat vl)) /\ forall k, sumf (full k) rs = cell_total (concat vl) k.
Proof.
  induction 1 as [|vs r vl rs (Hne & Hc & Hf) Hrest [IH1 IH2]]; cbn [sumf concat].
  - split; [reflexivity|]. intros [|j]; reflexivity.
  - split.
    + rewrite Hc, IH1, app_length. lia.
    + intros k. rewrite Hf, IH2. destruct k as [|j]; cbn [cell_total]; [rewrite zsum_app|rewrite zcount_app]; reflexivity.
Qed.

(* first bucket <= j  iff  the value is not greater than bound j, for non-decreasing bounds *)
Fixpoint nondecr (l : list Z) : Prop :=
  match l with
  | [] => True
  | a :: r => match r with [] => True | b :: _ => a <= b end /\ nondecr r
  end.

Lemma nondecr_le l : nondecr l -> forall i j, (i <= j < length l)%nat -> nth i l 0 <= nth j l 0.
Proof.
  induction l as [|a l IH]; intros Hs i j Hij; cbn in Hij; [lia|].
  destruct Hs as [H1 H2]. destruct i as [|i], j as [|j]; cbn [nth]; try lia.
  - destruct l as [|b l]; [cbn in Hij; lia|]. cbn in H1. assert (Hj : (0 <= j < length (b :: l))%nat) by (cbn [length] in *; lia). specialize (IH H2 O j Hj). change (nth 0 (b :: l) 0) with b in IH. lia.
  - apply IH; auto. lia.
Qed.

Lemma bucket_of_spec v : forall bs j0,
  match bucket_of v bs j0 with
  | Some i => (j0 <= i)%nat /\ v <= nth (i - j0) bs 0 /\ (forall k, (k < i - j0)%nat -> nth k bs 0 < v) /\ (i - j0 < length bs)%nat
  | None => forall k, (k < length bs)%nat -> nth k bs 0 < v
  end.
Proof.
  induction bs as [|b bs IH]; intros j0; cbn [bucket_of].
  - intros k Hk. cbn in Hk. lia.
  - destruct (Z.leb_spec v b).
    + replace (j0 - j0)%nat with O by lia. cbn. repeat split; auto; try lia.
    + specialize (IH (S j0)). destruct (bucket_of v bs (S j0)) as [i|].
      * destruct IH as (H1 & H2 & H3 & H4). replace (i - j0)%nat with (S (i - S j0)) by lia. cbn [nth length].
        repeat split; auto; try lia. intros [|k] Hk; cbn [nth]; [lia|]. apply H3. lia.
      * intros [|k] Hk; cbn [nth]; [lia|]. apply IH. cbn in Hk. lia.
Qed.

Lemma le_bound_iff v j : nondecr bounds -> (j < B)%nat ->
  (v <=? nth j bounds 0) = existsb (fun i => in_bucket i v) (seq 0 (S j)).
Proof.
  intros Hs Hj. pose proof (bucket_of_spec v bounds O) as Hb. unfold in_bucket.
  destruct (bucket_of v bounds 0) as [i|] eqn:E.
  - destruct Hb as (_ & H2 & H3 & H4). rewrite Nat.sub_0_r in *.
    destruct (Nat.le_gt_cases i j) as [Hle|Hgt].
    + assert (v <= nth j bounds 0) by (pose proof (nondecr_le _ Hs i j ltac:(lia)); lia).
      transitivity true; [apply Z.leb_le; auto|]. symmetry. apply existsb_exists. exists i. split; [apply in_seq; lia|apply Nat.eqb_refl].
    + assert (nth j bounds 0 < v) by (apply H3; lia).
      transitivity false; [apply Z.leb_gt; auto|]. symmetry. apply not_true_is_false. intros Hex.
      apply existsb_exists in Hex as (k & Hk & Hek). apply in_seq in Hk. apply Nat.eqb_eq in Hek. lia.
  - assert (nth j bounds 0 < v) by (apply Hb; lia).
    transitivity false; [apply Z.leb_gt; auto|]. symmetry. apply not_true_is_false. intros Hex.
    apply existsb_exists in Hex as (k & Hk & Hek). discriminate.
Qed.

Lemma in_bucket_unique v i j : in_bucket i v = true -> in_bucket j v = true -> i = j.
Proof.
  unfold in_bucket. destruct (bucket_of v bounds 0); [|discriminate]. intros H1 H2.
  apply Nat.eqb_eq in H1, H2. congruence.
Qed.

Lemma count_first_buckets vs j :
  sumf (fun i => zcount (in_bucket i) vs) (seq 0 j) = zcount (fun v => existsb (fun i => in_bucket i v) (seq 0 j)) vs.
Proof.
  induction vs as [|v vs IH].
  - unfold zcount; cbn. induction (seq 0 j); cbn; lia.
  - rewrite zcount_cons, <- IH. clear IH.
    assert (E : sumf (fun i => zcount (in_bucket i) (v :: vs)) (seq 0 j)
                = sumf (fun i => if in_bucket i v then 1 else 0) (seq 0 j) + sumf (fun i => zcount (in_bucket i) vs) (seq 0 j)).
    { induction (seq 0 j) as [|a l IHl]; cbn [sumf]; [lia|]. rewrite IHl, zcount_cons. lia. }
    rewrite E. f_equal.
    (* at most one bucket holds v *)
    assert (Hn : NoDup (seq 0 j)) by apply seq_NoDup.
    revert Hn. generalize (seq 0 j). intros l. induction l as [|a l IHl]; intros Hn; cbn [sumf existsb]; [reflexivity|].
    inversion Hn; subst. rewrite IHl by auto. destruct (in_bucket a v) eqn:Ea; cbn [orb]; [|lia].
    assert (existsb (fun i => in_bucket i v) l = false) as ->; [|lia].
    apply not_true_is_false. intros Hex. apply existsb_exists in Hex as (k & Hk & Hek).
    assert (a = k) by (eapply in_bucket_unique; eauto). subst. contradiction.
Qed.

Lemma cumulz_nth l : forall run j, (j < length l)%nat -> nth j (cumulz run l) 0 = run + sumf (fun i => nth i l 0) (seq 0 (S j)).
Proof.
  induction l as [|x l IH]; intros run j Hj; cbn [length] in Hj; [lia|]. cbn [cumulz]. destruct j as [|j].
  - cbn. lia.
  - change (nth (S j) ((run + x) :: cumulz (run + x) l) 0) with (nth j (cumulz (run + x) l) 0).
    rewrite IH by lia.
    change (seq 0 (S (S j))) with (0%nat :: seq 1 (S j)). rewrite <- seq_shift. cbn [sumf].
    change (nth 0 (x :: l) 0) with x.
    assert (forall l0, sumf (fun i => nth i (x :: l) 0) (map S l0) = sumf (fun i => nth i l 0) l0) as ->.
    { induction l0 as [|y l0 IHl0]; cbn [map sumf]; auto. rewrite IHl0. reflexivity. }
    lia.
Qed.

Lemma cumulz_length l : forall run, length (cumulz run l) = length l.
Proof. induction l; intros; cbn; auto. Qed.

(* the cumulative bucket counts of a set of values, as the text says *)
Theorem cumulative_counts vs : nondecr bounds ->
  cumulz 0 (map (fun i => cell_total vs (S i)) (seq 0 B)) = map (fun b => zcount (fun v => v <=? b) vs) bounds.
Proof.
  intros Hs. apply (nth_ext _ _ 0 0).
  - rewrite cumulz_length, !map_length, seq_length. reflexivity.
  - intros j Hj. rewrite cumulz_length, map_length, seq_length in Hj.
    rewrite cumulz_nth by (rewrite map_length, seq_length; auto).
    rewrite (sumf_ext _ (fun i => zcount (in_bucket i) vs)).
    + rewrite count_first_buckets.
      rewrite (nth_indep _ 0 (zcount (fun v => v <=? 0) vs)) by (rewrite map_length; auto).
      rewrite (map_nth (fun b => zcount (fun v => v <=? b) vs) bounds 0 j).
      unfold zcount. rewrite Z.add_0_l. f_equal. f_equal. apply filter_ext. intros v. symmetry. apply le_bound_iff; auto.
    + intros i Hi. apply in_seq in Hi.
      rewrite (nth_indep _ 0 (cell_total vs 1%nat)) by (rewrite map_length, seq_length; lia).
      rewrite (map_nth (fun i0 => cell_total vs (S i0)) (seq 0 B) 0%nat i). rewrite seq_nth by lia. reflexivity.
Qed.

End V.
