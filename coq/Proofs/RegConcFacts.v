(* C06, concurrent part, 3: theorems about the concurrent registry model (Model/RegConc.v), for ALL traces / schedules and any
   number of threads.  Invariants: Proofs/RegConcBase.v (lock word, tables), Proofs/RegConcLin.v (the linearisation log).
   Here: soundness of the executable validator, table accesses only under the lock, the assembled linearizability
   statement, real-time order, and the admission corollaries: the result of every registration is the SEQUENTIAL verdict
   (Registry.v reg_register) on the tables at its linearisation point, hence two registrations that share a descriptor
   (C06) or disagree on a name's help / label names (C14) are never both accepted, however they overlap. *)
Require Import PV.Base.Prelude PV.Base.StrFacts PV.Base.F64.
Require Import PV.Model.Proto PV.Model.Desc PV.Model.Value PV.Model.Registry PV.Model.Conc PV.Model.RegConc.
Require Import PV.Proofs.RegSeqFacts PV.Proofs.RegConcBase PV.Proofs.RegConcLin.
From Coq Require Import Arith Lia Sorted.
Open Scope nat_scope.

(* ------------------------------------------------------------------ the executable validator is sound *)
Definition qvisible (tr : list qlabel) : list revent :=
  flat_map (fun l => match l with QE e => [e] | QTau _ => [] end) tr.
Lemma qvisible_app a b : qvisible (a ++ b) = qvisible a ++ qvisible b.
Proof. apply flat_map_app. Qed.
Lemma qsaturate_run n t s : qrun s (qsat_labels n t s) = Some (qsaturate n t s) /\ qvisible (qsat_labels n t s) = [].
Proof.
  revert s; induction n as [|n IH]; intros s; cbn; auto.
  destruct (qstep s (QTau t)) as [s1|] eqn:E; cbn; auto. rewrite E. apply IH.
Qed.
Lemma rexec_sound s e s' : rexec s e = Some s' -> exists ls, qrun s (QE e :: ls) = Some s' /\ qvisible (QE e :: ls) = [e].
Proof.
  unfold rexec. destruct (qstep s (QE e)) as [s1|] eqn:E; [|discriminate]. destruct (rev_tid e) as [t|]; [|discriminate].
  intros H; inversion H; subst. exists (qsat_labels 2 t s1). destruct (qsaturate_run 2 t s1) as [H1 H2]. cbn [qrun]. rewrite E. split; auto.
  cbn [qvisible flat_map]. change (flat_map _ (qsat_labels 2 t s1)) with (qvisible (qsat_labels 2 t s1)). rewrite H2; auto.
Qed.
Lemma qrun_app s tr1 s1 tr2 : qrun s tr1 = Some s1 -> qrun s (tr1 ++ tr2) = qrun s1 tr2.
Proof.
  revert s; induction tr1 as [|l tr1 IH]; intros s H; cbn in *; [inversion H; auto|].
  destruct (qstep s l); [auto | discriminate].
Qed.
Lemma rvalidate_sound s i es s' : rvalidate s i es = (None, s') -> exists tr, qrun s tr = Some s' /\ qvisible tr = es.
Proof.
  revert s i; induction es as [|e es IH]; intros s i H; cbn in H.
  - inversion H; subst. exists []; auto.
  - destruct (rexec s e) as [s1|] eqn:E; [|discriminate]. apply rexec_sound in E as (ls & H1 & H2).
    apply IH in H as (tr & H3 & H4). exists ((QE e :: ls) ++ tr). split.
    + erewrite qrun_app; eauto.
    + rewrite qvisible_app, H2, H4. reflexivity.
Qed.
(* every trace accepted by the validator is the visible part of a path of the model *)
Theorem rvalidated_is_reachable cs nth es :
  rcheck cs nth es = true ->
  exists ct tr s, build_ctable cs = Some ct /\ qreach ct tr s /\ qvisible tr = es /\ qfinal nth s = true.
Proof.
  unfold rcheck. destruct (build_ctable cs) as [ct|]; [|discriminate].
  destruct (rvalidate (qstate0 ct) 0 es) as [[i|] s] eqn:E; [discriminate|]. intros Hf.
  apply rvalidate_sound in E as (tr & H1 & H2). exists ct, tr, s. auto using qrun_reach.
Qed.

(* ------------------------------------------------------------------ which step of the trace a logged call is *)
(* the linearisation step of every call is a silent step of its thread: the commit of a registration, the effect of an
   unregistration, the read of a gather - all of them between the acquisition and the release of the lock *)
Lemma qstep0_log s l s' : qstep0 s l = Some s' ->
  qg_lin s' = qg_lin s \/ exists t o r, qg_lin s' = (qg_now s, t, o, r) :: qg_lin s /\ l = QTau t.
Proof.
  intros H. qinv_step H; qboolp; subst.
  all: repeat match goal with |- context [match ?v with Ok _ => _ | Err _ => _ end] => destruct v end.
  all: try solve [left; reflexivity].
  all: right; eexists _, _, _; (split; reflexivity).
Qed.

Definition QStepInv (tr : list qlabel) (s : qstate) : Prop :=
  forall e, In e (qg_lin s) -> nth_error tr (ql_time e) = Some (QTau (ql_tid e)).

Lemma qreach_stepinv ct tr s : qreach ct tr s -> QStepInv tr s.
Proof.
  intros R; induction R as [|tr s l s' R IH Hs]; [intros e []|].
  pose proof (qreach_ginv ct tr s R) as G. pose proof (QG_now tr s G) as Hn. pose proof (QG_time tr s G) as Ht.
  unfold qstep in Hs. destruct (qstep0 s l) as [s0|] eqn:E; [|discriminate]. inversion Hs; subst s'. clear Hs.
  assert (Hold : forall e, In e (qg_lin s) -> nth_error (tr ++ [l]) (ql_time e) = Some (QTau (ql_tid e))).
  { intros e He. rewrite q_nth_error_snoc_old; auto. rewrite Forall_forall in Ht. apply Ht in He. lia. }
  intros e He. cbn [qg_lin qtick] in He. destruct (qstep0_log s l s0 E) as [El|(t & o & r & El & Hl)]; rewrite El in He.
  - auto.
  - destruct He as [He|He]; auto. subst e l. cbn. rewrite Hn. apply q_nth_error_snoc_last.
Qed.

(* ------------------------------------------------------------------ table accesses only under the lock *)
Theorem tables_change_only_under_write_lock ct tr s l s' :
  qreach ct tr s -> qstep s l = Some s' -> q_tab s' <> q_tab s ->
  exists t, l = QTau t /\ qg_wh s = Some t /\ q_wr s = true
            /\ forall u, u <> t -> q_holds_write (q_pc s u) = false /\ q_holds_read (q_pc s u) = false.
Proof.
  intros R Hs Hne. pose proof (qreach_lock ct tr s R) as LI.
  unfold qstep in Hs. destruct (qstep0 s l) as [s0|] eqn:E; [|discriminate]. inversion Hs; subst s'. clear Hs. cbn [q_tab qtick] in Hne.
  qinv_step E; try (exfalso; apply Hne; reflexivity).
  all: exists t; (split; [reflexivity|]).
  all: assert (Hw : q_holds_write (q_pc s t) = true) by (match goal with E : q_pc _ _ = _ |- _ => rewrite E; reflexivity end).
  all: assert (Hh : qg_wh s = Some t) by (apply (QL_wh s LI); auto).
  all: split; [auto | split; [rewrite (QL_wr s LI), Hh; auto | intros u Hu; apply (q_excl_w s t u LI Hw Hu)]].
Qed.

(* every silent step (= every access to the tables) is taken by a holder of the lock *)
Theorem tables_accessed_only_under_lock ct tr s t s' :
  qreach ct tr s -> qstep s (QTau t) = Some s' -> In t (qg_rh s) \/ qg_wh s = Some t.
Proof.
  intros R Hs. pose proof (qreach_lock ct tr s R) as LI.
  unfold qstep in Hs. destruct (qstep0 s (QTau t)) as [s0|] eqn:E; [|discriminate]. clear Hs.
  qinv_step E.
  all: try solve [left; apply (QL_rh s LI); match goal with E : q_pc _ _ = _ |- _ => rewrite E; reflexivity end].
  all: try solve [right; apply (QL_wh s LI); match goal with E : q_pc _ _ = _ |- _ => rewrite E; reflexivity end].
Qed.

(* collect() is called on registered collectors only, by a reader, while nobody writes *)
Theorem collect_under_read_lock ct tr s t i s' :
  qreach ct tr s -> qstep s (QE (RgCollect t i)) = Some s' -> In t (qg_rh s) /\ qg_wh s = None /\ registered (q_tab s) i = true.
Proof.
  intros R Hs. pose proof (qreach_lock ct tr s R) as LI.
  unfold qstep in Hs. destruct (qstep0 s _) as [s0|] eqn:E; [|discriminate]. clear Hs.
  qinv_step E. qboolp.
  assert (Hr : In t (qg_rh s)) by (apply (QL_rh s LI); match goal with E : q_pc _ _ = _ |- _ => rewrite E; reflexivity end).
  split; auto. split; auto.
  destruct (qg_wh s) eqn:Ew; auto. rewrite (QL_ex s LI) in Hr; [destruct Hr | congruence].
Qed.

(* ------------------------------------------------------------------ consistency of a log with the sequential registry *)
Fixpoint qconsistent (ct : ctable) (a : table) (L : list (rcall * rret)) : Prop :=
  match L with
  | [] => True
  | (o, r) :: L' => snd (qspec ct a o) = r /\ qconsistent ct (fst (qspec ct a o)) L'
  end.
Fixpoint qarun (ct : ctable) (a : table) (L : list (rcall * rret)) : table :=
  match L with [] => a | (o, _) :: L' => qarun ct (fst (qspec ct a o)) L' end.

Lemma qreplay_consistent ct a L a' : qreplay ct a (map fst L) = (a', map snd L) -> qconsistent ct a L /\ qarun ct a L = a'.
Proof.
  revert a; induction L as [|[o r] L IH]; intros a H; cbn [map fst snd qreplay qconsistent qarun] in *.
  - inversion H; auto.
  - destruct (qspec ct a o) as [a1 x] eqn:E1. destruct (qreplay ct a1 (map fst L)) as [a2 xs] eqn:E2.
    inversion H; subst. cbn [fst snd]. destruct (IH a1 E2). auto.
Qed.
Lemma qconsistent_app ct a L1 L2 : qconsistent ct a (L1 ++ L2) <-> qconsistent ct a L1 /\ qconsistent ct (qarun ct a L1) L2.
Proof.
  revert a; induction L1 as [|[o r] L1 IH]; intros a; cbn [app qconsistent qarun]; [tauto|]. rewrite IH. tauto.
Qed.
Lemma qarun_app ct a L1 L2 : qarun ct a (L1 ++ L2) = qarun ct (qarun ct a L1) L2.
Proof. revert a; induction L1 as [|[o r] L1 IH]; intros a; cbn [app qarun]; auto. Qed.

(* the log, oldest first *)
Definition qchron (s : qstate) : list (rcall * rret) := map qopres (rev (qg_lin s)).

Lemma qchron_consistent ct tr s : qreach ct tr s -> qconsistent ct qinit (qchron s) /\ qarun ct qinit (qchron s) = qg_abs s.
Proof.
  intros R. pose proof (QG_replay tr s (qreach_ginv ct tr s R)) as H. rewrite (qreach_ct ct tr s R) in H.
  apply qreplay_consistent. unfold qchron. rewrite !map_map. cbn. exact H.
Qed.

(* ------------------------------------------------------------------ splitting a time-sorted log (newest first) *)
Lemma qsorted_before (A : list qlent) x rest :
  StronglySorted (fun a b => ql_time b < ql_time a) (A ++ x :: rest) ->
  Forall (fun b => ql_time b < ql_time x) rest /\ Forall (fun a => ql_time x < ql_time a) A
  /\ StronglySorted (fun a b => ql_time b < ql_time a) rest.
Proof.
  induction A as [|a A IH]; cbn; intros H.
  - apply StronglySorted_inv in H as [H1 H2]. auto.
  - apply StronglySorted_inv in H as [H1 H2]. destruct (IH H1) as (I1 & I2 & I3). repeat split; auto.
    constructor; auto. rewrite Forall_forall in H2. apply H2. apply in_app_iff. right; left; auto.
Qed.
Lemma qsorted_split log e1 e2 :
  StronglySorted (fun a b => ql_time b < ql_time a) log -> In e1 log -> In e2 log -> ql_time e1 < ql_time e2 ->
  exists A B C, log = A ++ e2 :: B ++ e1 :: C.
Proof.
  intros S H1 H2 Hlt. apply in_split in H2 as (A & rest & ->).
  destruct (qsorted_before A e2 rest S) as (I1 & I2 & I3).
  apply in_app_iff in H1 as [H1|[H1|H1]].
  - rewrite Forall_forall in I2. apply I2 in H1. lia.
  - subst. lia.
  - apply in_split in H1 as (B & C & ->). exists A, B, C. reflexivity.
Qed.
Lemma qchron_split s A e B : qg_lin s = A ++ e :: B -> qchron s = map qopres (rev B) ++ qopres e :: map qopres (rev A).
Proof.
  intros E. unfold qchron. rewrite E, rev_app_distr. cbn [rev]. rewrite <- app_assoc. cbn [app]. rewrite map_app. reflexivity.
Qed.
Lemma qchron_split2 s A e2 B e1 C : qg_lin s = A ++ e2 :: B ++ e1 :: C ->
  qchron s = map qopres (rev C) ++ qopres e1 :: map qopres (rev B) ++ qopres e2 :: map qopres (rev A).
Proof.
  intros E. unfold qchron. rewrite E. rewrite rev_app_distr. cbn [rev]. rewrite rev_app_distr. cbn [rev].
  rewrite <- !app_assoc. cbn [app]. rewrite map_app. cbn [map]. rewrite map_app. cbn [map]. reflexivity.
Qed.

Lemma filter_all {A} (f : A -> bool) l : (forall x, In x l -> f x = true) -> filter f l = l.
Proof. induction l as [|a l IH]; cbn; auto. intros H. rewrite (H a (or_introl eq_refl)). f_equal. apply IH. intros; apply H; auto. Qed.
Lemma filter_none {A} (f : A -> bool) l : (forall x, In x l -> f x = false) -> filter f l = [].
Proof. induction l as [|a l IH]; cbn; auto. intros H. rewrite (H a (or_introl eq_refl)). apply IH. intros; apply H; auto. Qed.

(* membership in a call's logged operations *)
Lemma qlins_in_In t ti trr log x :
  In x (qlins_in t ti trr log) <-> exists e, In e log /\ qwinb t ti trr e = true /\ qopres e = x.
Proof.
  unfold qlins_in. rewrite in_map_iff. split.
  - intros (e & E & H). rewrite <- in_rev in H. apply filter_In in H as [H1 H2]. eauto.
  - intros (e & H1 & H2 & E). exists e. split; auto. rewrite <- in_rev. apply filter_In; auto.
Qed.
Lemma qlins_of_In t ti log x :
  In x (qlins_of t ti log) <-> exists e, In e log /\ qmineb t ti e = true /\ qopres e = x.
Proof.
  unfold qlins_of. rewrite in_map_iff. split.
  - intros (e & E & H). rewrite <- in_rev in H. apply filter_In in H as [H1 H2]. eauto.
  - intros (e & H1 & H2 & E). exists e. split; auto. rewrite <- in_rev. apply filter_In; auto.
Qed.
Lemma qwinb_spec t ti trr e : qwinb t ti trr e = true <-> ql_tid e = t /\ ti <= ql_time e <= trr.
Proof.
  unfold qwinb, qmineb. rewrite !andb_true_iff, Nat.eqb_eq, !Nat.leb_le. tauto.
Qed.

(* ------------------------------------------------------------------ consequences for reachable states *)
Section Reach.
Variables (ct : ctable) (tr : list qlabel) (s : qstate).
Hypothesis R : qreach ct tr s.

(* the logged operation of a completed call *)
Lemma done_logged t c r ti trr : In (t, c, r, ti, trr) (qg_done s) ->
  exists e, In e (qg_lin s) /\ ql_tid e = t /\ ti <= ql_time e <= trr /\ ql_op e = c /\ ql_res e = r.
Proof.
  intros Hin. pose proof (qreach_ginv ct tr s R) as G. destruct (QG_done tr s G _ _ _ _ _ Hin) as (_ & _ & Hm & _).
  unfold qret_matches in Hm.
  assert (Hx : In (c, r) (qlins_in t ti trr (qg_lin s))) by (rewrite Hm; left; reflexivity).
  apply qlins_in_In in Hx as (e & He & Hw & Ho). apply qwinb_spec in Hw as [Ht Hw].
  exists e. unfold qopres in Ho. inversion Ho. auto.
Qed.

(* every logged operation is the call of its owner: nothing is linearised for a call that was not made *)
Lemma logged_is_called e : In e (qg_lin s) ->
  exists ti, ti <= ql_time e /\ nth_error tr ti = Some (QE (RgCall (ql_tid e) (ql_op e))).
Proof.
  intros He. pose proof (qreach_ginv ct tr s R) as G.
  destruct (QG_owner tr s G e He) as [(c & ti & Ho & Hle)|(c & r & ti & trr & Hd & Hle)].
  - pose proof (QG_open tr s G (ql_tid e)) as Gop. rewrite Ho in Gop. destruct Gop as (_ & Hsh & Hcall & _).
    assert (Hm : In (qopres e) (qlins_of (ql_tid e) ti (qg_lin s))).
    { apply qlins_of_In. exists e. repeat split; auto. unfold qmineb. rewrite Nat.eqb_refl. apply Nat.leb_le in Hle. rewrite Hle. auto. }
    exists ti. split; auto.
    assert (Hc : ql_op e = c).
    { destruct (q_pc s (ql_tid e)); cbn [qpc_shape] in Hsh; try tauto.
      all: try (destruct Hsh as (_ & Hl); rewrite Hl in Hm; destruct Hm as [Hm|[]]; inversion Hm; reflexivity).
      all: try (destruct Hsh as (_ & Hl); rewrite Hl in Hm; destruct Hm).
      unfold qret_matches in Hsh. rewrite Hsh in Hm. destruct Hm as [Hm|[]]. inversion Hm; reflexivity. }
    rewrite Hc. exact Hcall.
  - destruct (QG_done tr s G _ _ _ _ _ Hd) as (_ & _ & Hm & Hcall & _). unfold qret_matches in Hm.
    assert (Hx : In (qopres e) (qlins_in (ql_tid e) ti trr (qg_lin s))).
    { apply qlins_in_In. exists e. repeat split; auto. apply qwinb_spec. auto. }
    rewrite Hm in Hx. destruct Hx as [Hx|[]]. inversion Hx as [[Hc0 Hr0]]. exists ti. split; [lia|]. rewrite <- Hc0. exact Hcall.
Qed.

(* real time: what a call that returned logged precedes what a later call logs *)
Theorem q_real_time_order t1 c1 r1 ti1 tr1 t2 c2 r2 ti2 tr2 e1 e2 :
  In (t1, c1, r1, ti1, tr1) (qg_done s) -> In (t2, c2, r2, ti2, tr2) (qg_done s) -> tr1 < ti2 ->
  In e1 (qg_lin s) -> qwinb t1 ti1 tr1 e1 = true -> In e2 (qg_lin s) -> qwinb t2 ti2 tr2 e2 = true ->
  ql_time e1 < ql_time e2.
Proof.
  intros _ _ Hlt _ H1 _ H2. apply qwinb_spec in H1 as [_ H1]. apply qwinb_spec in H2 as [_ H2]. lia.
Qed.

(* ---- admission: the result of every completed registration is the sequential verdict at its linearisation point *)
Theorem conc_admission t i r ti trr : In (t, RRegister i, r, ti, trr) (qg_done s) ->
  exists e L1 L2,
    In e (qg_lin s) /\ ql_tid e = t /\ ti <= ql_time e <= trr /\ nth_error tr (ql_time e) = Some (QTau t)
    /\ qchron s = L1 ++ (RRegister i, r) :: L2
    /\ L1 = map qopres (rev (filter (fun x => Nat.ltb (ql_time x) (ql_time e)) (qg_lin s)))
    /\ r = ret_of (reg_register (qarun ct qinit L1) (descs_of ct i) i).
Proof.
  intros Hin. destruct (done_logged _ _ _ _ _ Hin) as (e & He & Ht & Hw & Ho & Hr).
  pose proof (qreach_ginv ct tr s R) as G. pose proof (QG_sorted tr s G) as Hs.
  destruct (in_split _ _ He) as (A & B & Elog).
  rewrite Elog in Hs. destruct (qsorted_before A e B Hs) as (HB & HA & _).
  pose proof (qchron_split s A e B Elog) as Ec.
  assert (Hop : qopres e = (RRegister i, r)) by (unfold qopres; rewrite Ho, Hr; reflexivity).
  rewrite Hop in Ec.
  exists e, (map qopres (rev B)), (map qopres (rev A)). repeat split; auto; try lia.
  - rewrite <- Ht. apply (qreach_stepinv ct tr s R e He).
  - f_equal. f_equal. rewrite Elog, filter_app. cbn [filter]. rewrite Nat.ltb_irrefl.
    rewrite (filter_none _ A), (filter_all _ B); [reflexivity | |].
    + intros x Hx. rewrite Forall_forall in HB. apply Nat.ltb_lt. auto.
    + intros x Hx. rewrite Forall_forall in HA. apply Nat.ltb_ge. apply HA in Hx. lia.
  - destruct (qchron_consistent ct tr s R) as [Hc _]. rewrite Ec in Hc. apply qconsistent_app in Hc as [_ Hc].
    cbn [qconsistent] in Hc. destruct Hc as [Hc _]. cbn [qspec snd] in Hc. auto.
Qed.
End Reach.

(* ------------------------------------------------------------------ the sequential registry along a consistent log (Proofs/RegSeqFacts.v) *)
(* ---- along a consistent log *)
Definition ok_unregister (x : rcall * rret) : Prop := exists k, x = (RUnregister k, ROk).

Lemma ret_of_ok {A} (v : result A) : ret_of v = ROk -> exists a, v = Ok a.
Proof. destruct v as [a|[ | | | ]]; cbn; try discriminate; eauto. Qed.

Lemma qspec_ids_stable ct a o x :
  In x (r_desc_ids a) -> ~ ok_unregister (o, snd (qspec ct a o)) -> In x (r_desc_ids (fst (qspec ct a o))).
Proof.
  intros Hx Hn. destruct o as [i|i|]; cbn [qspec fst snd] in *; auto.
  - destruct (reg_register a (descs_of ct i) i) as [a'|e] eqn:E; auto. eapply qs_register_ok_ids_mono; eauto.
  - destruct (reg_unregister a (descs_of ct i)) as [a'|e] eqn:E; auto. exfalso. apply Hn. exists i. reflexivity.
Qed.
Lemma qarun_ids_stable ct L : forall a x, qconsistent ct a L -> In x (r_desc_ids a) -> (forall y, In y L -> ~ ok_unregister y) ->
  In x (r_desc_ids (qarun ct a L)).
Proof.
  induction L as [|[o r] L IH]; intros a x Hc Hx Hn; cbn [qarun]; auto.
  cbn [qconsistent] in Hc. destruct Hc as [Hr Hc]. apply IH; auto.
  - apply qspec_ids_stable; auto. rewrite Hr. apply Hn. left; reflexivity.
  - intros y Hy. apply Hn. right; auto.
Qed.
Lemma qspec_dims_stable ct a o n h :
  alookup n (r_dim_hashes a) = Some h -> alookup n (r_dim_hashes (fst (qspec ct a o))) = Some h.
Proof.
  intros Hl. destruct o as [i|i|]; cbn [qspec fst]; auto.
  - destruct (reg_register a (descs_of ct i) i) as [a'|e] eqn:E; auto.
    destruct (qs_register_ok_dims a _ _ a' n E) as (_ & H2 & _). auto.
  - destruct (reg_unregister a (descs_of ct i)) as [a'|e] eqn:E; auto. rewrite (qs_unregister_dims _ _ _ E). exact Hl.
Qed.
Lemma qarun_dims_stable ct L : forall a n h, alookup n (r_dim_hashes a) = Some h -> alookup n (r_dim_hashes (qarun ct a L)) = Some h.
Proof. induction L as [|[o r] L IH]; intros a n h Hl; cbn [qarun]; auto. apply IH. apply qspec_dims_stable; auto. Qed.

(* Two successful registrations in one consistent log: unless a successful unregistration lies between them they share no
   descriptor (same id = same fully-qualified name and constant label values, C15) ... *)
Theorem log_no_double_admission ct a L1 i L2 j L3 :
  qconsistent ct a (L1 ++ (RRegister i, ROk) :: L2 ++ (RRegister j, ROk) :: L3) ->
  (forall y, In y L2 -> ~ ok_unregister y) ->
  forall d1 d2, In d1 (descs_of ct i) -> In d2 (descs_of ct j) -> d_id d1 <> d_id d2.
Proof.
  intros Hc Hn d1 d2 H1 H2 Eid.
  apply qconsistent_app in Hc as [_ Hc]. cbn [qconsistent] in Hc. destruct Hc as [Hr1 Hc].
  apply qconsistent_app in Hc as [Hc2 Hc]. cbn [qconsistent] in Hc. destruct Hc as [Hr2 _].
  set (a1 := qarun ct a L1) in *. cbn [qspec fst snd] in *.
  apply ret_of_ok in Hr1 as [a1' E1]. rewrite E1 in *.
  apply ret_of_ok in Hr2 as [a2' E2].
  pose proof (qs_register_ok_ids a1 _ _ a1' d1 E1 H1) as Hin.
  pose proof (qarun_ids_stable ct L2 a1' (d_id d1) Hc2 Hin Hn) as Hin2.
  apply (qs_register_ok_fresh_ids _ _ _ _ d2 E2 H2). rewrite <- Eid. exact Hin2.
Qed.
(* ... and they agree on every name they share (same dimension hash = same help and label names): never, whatever lies between *)
Theorem log_no_disagreeing_admission ct a L1 i L2 j L3 :
  qconsistent ct a (L1 ++ (RRegister i, ROk) :: L2 ++ (RRegister j, ROk) :: L3) ->
  forall d1 d2, In d1 (descs_of ct i) -> In d2 (descs_of ct j) -> d_fq_name d1 = d_fq_name d2 -> d_dim d1 = d_dim d2.
Proof.
  intros Hc d1 d2 H1 H2 En.
  apply qconsistent_app in Hc as [_ Hc]. cbn [qconsistent] in Hc. destruct Hc as [Hr1 Hc].
  apply qconsistent_app in Hc as [Hc2 Hc]. cbn [qconsistent] in Hc. destruct Hc as [Hr2 _].
  set (a1 := qarun ct a L1) in *. cbn [qspec fst snd] in *.
  apply ret_of_ok in Hr1 as [a1' E1]. rewrite E1 in *.
  apply ret_of_ok in Hr2 as [a2' E2].
  destruct (qs_register_ok_dims a1 _ _ a1' (d_fq_name d1) E1) as (P1 & _ & _).
  pose proof (qarun_dims_stable ct L2 a1' _ _ (P1 d1 H1 eq_refl)) as Hl.
  destruct (qs_register_ok_dims _ _ _ a2' (d_fq_name d1) E2) as (_ & _ & P3).
  apply (P3 d2 _ H2 (eq_sym En) Hl).
Qed.

(* ------------------------------------------------------------------ the trace-level corollaries *)
Section Reach2.
Variables (ct : ctable) (tr : list qlabel) (s : qstate).
Hypothesis R : qreach ct tr s.

(* two DIFFERENT completed registrations that both returned Ok: the log orders them *)
Lemma two_registrations_ordered t1 i ti1 tr1 t2 j ti2 tr2 :
  In (t1, RRegister i, ROk, ti1, tr1) (qg_done s) -> In (t2, RRegister j, ROk, ti2, tr2) (qg_done s) -> (t1, ti1) <> (t2, ti2) ->
  exists L1 L2 L3,
    qchron s = L1 ++ (RRegister i, ROk) :: L2 ++ (RRegister j, ROk) :: L3
    \/ qchron s = L1 ++ (RRegister j, ROk) :: L2 ++ (RRegister i, ROk) :: L3.
Proof.
  intros D1 D2 Hne. pose proof (qreach_ginv ct tr s R) as G.
  destruct (done_logged ct tr s R _ _ _ _ _ D1) as (e1 & He1 & Ht1 & Hw1 & Ho1 & Hr1).
  destruct (done_logged ct tr s R _ _ _ _ _ D2) as (e2 & He2 & Ht2 & Hw2 & Ho2 & Hr2).
  assert (Hx1 : qopres e1 = (RRegister i, ROk)) by (unfold qopres; rewrite Ho1, Hr1; reflexivity).
  assert (Hx2 : qopres e2 = (RRegister j, ROk)) by (unfold qopres; rewrite Ho2, Hr2; reflexivity).
  assert (Hd : ql_time e1 <> ql_time e2).
  { intros Et. destruct (Nat.eq_dec t1 t2) as [->|Hn].
    - destruct (QG_disj tr s G _ _ _ _ _ _ _ _ _ D1 D2) as [E|[E|E]]; [inversion E; subst; congruence | lia | lia].
    - (* one step of the trace belongs to one thread *)
      pose proof (qreach_stepinv ct tr s R e1 He1) as S1. pose proof (qreach_stepinv ct tr s R e2 He2) as S2.
      rewrite Et in S1. rewrite S1 in S2. inversion S2. congruence. }
  destruct (Nat.lt_ge_cases (ql_time e1) (ql_time e2)) as [Hlt|Hge].
  - destruct (qsorted_split _ e1 e2 (QG_sorted tr s G) He1 He2 Hlt) as (A & B & C & E).
    apply qchron_split2 in E. rewrite Hx1, Hx2 in E. eexists _, _, _. left. exact E.
  - assert (Hlt : ql_time e2 < ql_time e1) by lia.
    destruct (qsorted_split _ e2 e1 (QG_sorted tr s G) He2 He1 Hlt) as (A & B & C & E).
    apply qchron_split2 in E. rewrite Hx1, Hx2 in E. eexists _, _, _. right. exact E.
Qed.

(* C14 side: two completed registrations that both returned Ok never disagree on a name, whatever the interleaving *)
Theorem conc_no_disagreeing_admission t1 i ti1 tr1 t2 j ti2 tr2 :
  In (t1, RRegister i, ROk, ti1, tr1) (qg_done s) -> In (t2, RRegister j, ROk, ti2, tr2) (qg_done s) -> (t1, ti1) <> (t2, ti2) ->
  forall d1 d2, In d1 (descs_of ct i) -> In d2 (descs_of ct j) -> d_fq_name d1 = d_fq_name d2 -> d_dim d1 = d_dim d2.
Proof.
  intros D1 D2 Hne d1 d2 H1 H2 En. destruct (qchron_consistent ct tr s R) as [Hc _].
  destruct (two_registrations_ordered _ _ _ _ _ _ _ _ D1 D2 Hne) as (L1 & L2 & L3 & [E|E]); rewrite E in Hc.
  - eapply log_no_disagreeing_admission; eauto.
  - symmetry. eapply log_no_disagreeing_admission; eauto.
Qed.

(* C06 side: in a trace without unregister calls, two completed registrations that both returned Ok share no descriptor -
   in particular two OVERLAPPING registrations of collectors with a common descriptor are never both accepted *)
Theorem conc_no_double_admission t1 i ti1 tr1 t2 j ti2 tr2 :
  (forall idx t k, nth_error tr idx <> Some (QE (RgCall t (RUnregister k)))) ->
  In (t1, RRegister i, ROk, ti1, tr1) (qg_done s) -> In (t2, RRegister j, ROk, ti2, tr2) (qg_done s) -> (t1, ti1) <> (t2, ti2) ->
  forall d1 d2, In d1 (descs_of ct i) -> In d2 (descs_of ct j) -> d_id d1 <> d_id d2.
Proof.
  intros Hnu D1 D2 Hne d1 d2 H1 H2. destruct (qchron_consistent ct tr s R) as [Hc _].
  assert (Hno : forall y, In y (qchron s) -> ~ ok_unregister y).
  { intros y Hy [k ->]. unfold qchron in Hy. apply in_map_iff in Hy as (e & Ee & He). rewrite <- in_rev in He.
    destruct (logged_is_called ct tr s R e He) as (ti & _ & Hcall). unfold qopres in Ee. inversion Ee as [[Eo Er]].
    rewrite Eo in Hcall. exact (Hnu _ _ _ Hcall). }
  destruct (two_registrations_ordered _ _ _ _ _ _ _ _ D1 D2 Hne) as (L1 & L2 & L3 & [E|E]); rewrite E in Hc.
  - eapply log_no_double_admission; eauto. intros y Hy. apply Hno. rewrite E. apply in_or_app. right. right. apply in_or_app. auto.
  - intros Eid. symmetry in Eid. revert Eid. eapply log_no_double_admission; eauto.
    intros y Hy. apply Hno. rewrite E. apply in_or_app. right. right. apply in_or_app. auto.
Qed.
End Reach2.

(* ------------------------------------------------------------------ the assembled statements, over executable runs *)
Definition q_owner_ok (s : qstate) (e : qlent) : Prop :=
  (exists c ti, qg_open s (ql_tid e) = Some (c, ti) /\ ti <= ql_time e)
  \/ (exists c r ti trr, In (ql_tid e, c, r, ti, trr) (qg_done s) /\ ti <= ql_time e <= trr).

Theorem reg_linearizable ct tr s : qrun (qstate0 ct) tr = Some s ->
  (* the log, replayed on the sequential registry one call at a time, yields the logged results and the tables *)
  qreplay ct qinit (map ql_op (rev (qg_lin s))) = (q_tab s, map ql_res (rev (qg_lin s)))
  (* the log is ordered by time; each logged call is a silent step of its thread, taken while it holds the lock *)
  /\ StronglySorted (fun a b => ql_time b < ql_time a) (qg_lin s)
  /\ (forall e, In e (qg_lin s) -> nth_error tr (ql_time e) = Some (QTau (ql_tid e)))
  (* every call / return marker of the trace is recorded; a recorded call is a call/return pair of the trace that logged
     exactly one operation - itself - inside its window and returned the logged (sequential) result *)
  /\ (forall i t c, nth_error tr i = Some (QE (RgCall t c)) -> qg_open s t = Some (c, i) \/ exists r trr, In (t, c, r, i, trr) (qg_done s))
  /\ (forall i t r, nth_error tr i = Some (QE (RgRet t r)) -> exists c ti, In (t, c, r, ti, i) (qg_done s))
  /\ (forall t c r ti trr, In (t, c, r, ti, trr) (qg_done s) ->
        ti < trr /\ nth_error tr ti = Some (QE (RgCall t c)) /\ nth_error tr trr = Some (QE (RgRet t r))
        /\ qlins_in t ti trr (qg_lin s) = [(c, r)])
  /\ (forall e, In e (qg_lin s) -> q_owner_ok s e).
Proof.
  intros H. apply qrun_reach in H. pose proof (qreach_ginv ct tr s H) as G. pose proof (qreach_ct ct tr s H) as Hct.
  pose proof (QT_abs s (qreach_tab ct tr s H)) as Ha.
  split; [rewrite <- Ha, <- Hct; apply (QG_replay tr s G)|]. split; [apply (QG_sorted tr s G)|]. split; [apply (qreach_stepinv ct tr s H)|].
  split; [apply (QG_calls tr s G)|]. split; [apply (QG_rets tr s G)|]. split; [|apply (QG_owner tr s G)].
  intros t c r ti trr Hin. destruct (QG_done tr s G _ _ _ _ _ Hin) as (A & B & C & D & E). auto.
Qed.

Theorem reg_mutual_exclusion ct tr s t u : qrun (qstate0 ct) tr = Some s ->
  q_holds_write (q_pc s t) = true -> u <> t -> q_holds_write (q_pc s u) = false /\ q_holds_read (q_pc s u) = false.
Proof. intros H. apply qrun_reach in H. apply q_excl_w. eapply qreach_lock; eauto. Qed.

Theorem reg_invariants ct tr s : qrun (qstate0 ct) tr = Some s ->
  QLockInv s /\ qg_abs s = q_tab s
  /\ (forall t i v, q_pc s t = QReg3 i v -> v = reg_register (q_tab s) (descs_of ct i) i)
  /\ (forall t view vis, q_pc s t = QGa3 view vis -> view = gather_view ct (q_tab s)).
Proof.
  intros H. apply qrun_reach in H. pose proof (qreach_tab ct tr s H) as TI. pose proof (qreach_ct ct tr s H) as Hct.
  split; [eapply qreach_lock; eauto|]. split; [apply (QT_abs s TI)|]. split.
  - intros t i v E. pose proof (QT_pc s TI t) as Hp. rewrite E, Hct in Hp. exact Hp.
  - intros t view vis E. pose proof (QT_pc s TI t) as Hp. rewrite E, Hct in Hp. exact Hp.
Qed.

Theorem reg_table_access_under_lock ct tr s l s' : qrun (qstate0 ct) tr = Some s -> qstep s l = Some s' ->
  (q_tab s' <> q_tab s ->
     exists t, l = QTau t /\ qg_wh s = Some t /\ q_wr s = true
               /\ forall u, u <> t -> q_holds_write (q_pc s u) = false /\ q_holds_read (q_pc s u) = false)
  /\ (forall t, l = QTau t -> In t (qg_rh s) \/ qg_wh s = Some t)
  /\ (forall t i, l = QE (RgCollect t i) -> In t (qg_rh s) /\ qg_wh s = None /\ registered (q_tab s) i = true).
Proof.
  intros H Hs. apply qrun_reach in H. split; [|split].
  - eapply tables_change_only_under_write_lock; eauto.
  - intros t ->. eapply tables_accessed_only_under_lock; eauto.
  - intros t i ->. eapply collect_under_read_lock; eauto.
Qed.

(* ------------------------------------------------------------------ a real trace of the implementation *)
(* collectors: 0 = [x/h], 1 = [y/h; x/h] (shares the descriptor x with 0), 2 = [x/help B] (same identity as 0, other help).
   Two threads race to register 0 and 1: thread 1 is blocked while thread 0 is inside its critical section (preempted
   inside desc()), then finds x registered. *)
Local Open Scope N_scope.
Definition race_cs : list (list qdesc) :=
  [[([120], [104], [], [])]; [([121], [104], [], []); ([120], [104], [], [])]; [([120], [104; 101; 108; 112; 32; 66], [], [])]].
Definition reg_race_trace : list revent :=
  [RgCall 0 (RRegister 0); RgLock 0 0 LWrite true; RgCall 1 (RRegister 1); RgLock 1 0 LWrite false; RgDesc 0 0;
   RgUnlock 0 0 LWrite; RgRet 0 ROk; RgLock 1 0 LWrite true; RgCall 0 RGather; RgDesc 1 1; RgUnlock 1 0 LWrite;
   RgLock 0 0 LRead true; RgRet 1 RErrAlreadyReg; RgCollect 0 0; RgUnlock 0 0 LRead; RgRet 0 (RFams [([120], 1)])].
Example reg_race_trace_valid : rcheck race_cs 2 reg_race_trace = true.
Proof. vm_compute. reflexivity. Qed.
(* the lock pattern of the seeded refactoring (admission check under the read lock, insertion under a separate write
   lock) is not a path of the model: the validator rejects it at the first lock event *)
Definition reg_split_trace : list revent :=
  [RgCall 0 (RRegister 0); RgLock 0 0 LRead true; RgDesc 0 0; RgUnlock 0 0 LRead; RgCall 1 (RRegister 1); RgLock 1 0 LRead true;
   RgDesc 1 1; RgUnlock 1 0 LRead; RgLock 1 0 LWrite true; RgDesc 1 1; RgUnlock 1 0 LWrite; RgRet 1 ROk;
   RgLock 0 0 LWrite true; RgDesc 0 0; RgUnlock 0 0 LWrite; RgRet 0 ROk].
Example reg_split_trace_rejected : rcheck race_cs 2 reg_split_trace = false /\ rfirst_rejected race_cs reg_split_trace = Some 1.
Proof. vm_compute. auto. Qed.
