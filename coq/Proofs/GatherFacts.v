(* Facts about RegistryCore::gather (Model/Registry.v: merge_families, the sort_by comparator,
   apply_prefix_labels, gather_families): the result is name-sorted, complete, sample-sorted,
   and independent of the order in which the collectors / the common labels are iterated.
   Used by Props/C07.v and Props/C14.v. *)
Require Import PV.Base.Prelude PV.Base.F64 PV.Base.StrFacts PV.Base.SortFacts.
Require Import PV.Model.Proto PV.Model.Desc PV.Model.Value PV.Model.Registry.
Require Import PV.Proofs.DescFacts.
From Coq Require Import Permutation Sorting.Sorted.
Open Scope N_scope.

(* ====================================================================================== *)
(* 1. Comparators: the laws that make "cmp <> Gt" a total preorder, closed under           *)
(*    lexicographic composition; the comparator of gather's sort_by obeys them.            *)
(* ====================================================================================== *)
Section Cmp.
  Context {A : Type} (c : A -> A -> comparison).
  Record good_cmp : Prop := mkGood {
    gc_antisym : forall x y, c y x = CompOpp (c x y);
    gc_lt_trans : forall x y z, c x y = Lt -> c y z = Lt -> c x z = Lt;
    gc_eq_l : forall x y z, c x y = Eq -> c x z = c y z }.
  Definition leb_of (x y : A) : bool := match c x y with Gt => false | _ => true end.
  Hypothesis G : good_cmp.
  Lemma gc_eq_r x y z : c x y = Eq -> c z x = c z y.
  Proof. intros E. rewrite (gc_antisym G x z), (gc_antisym G y z). f_equal. apply (gc_eq_l G); auto. Qed.
  Lemma leb_of_total x y : leb_of x y = true \/ leb_of y x = true.
  Proof. unfold leb_of. rewrite (gc_antisym G x y). destruct (c x y); cbn; auto. Qed.
  Lemma leb_of_trans x y z : leb_of x y = true -> leb_of y z = true -> leb_of x z = true.
  Proof.
    unfold leb_of. destruct (c x y) eqn:E1; try discriminate; destruct (c y z) eqn:E2; try discriminate; intros _ _.
    - rewrite (gc_eq_l G x y z E1), E2. auto.
    - rewrite (gc_eq_l G x y z E1), E2. auto.
    - rewrite <- (gc_eq_r y z x E2), E1. auto.
    - rewrite (gc_lt_trans G x y z E1 E2). auto.
  Qed.
  Lemma leb_of_both_eq x y : leb_of x y = true -> leb_of y x = true -> c x y = Eq.
  Proof. unfold leb_of. rewrite (gc_antisym G x y). destruct (c x y); cbn; congruence. Qed.
End Cmp.

Definition lexc {A} (c1 c2 : A -> A -> comparison) (x y : A) : comparison :=
  match c1 x y with Eq => c2 x y | r => r end.
Lemma good_lex {A} (c1 c2 : A -> A -> comparison) : good_cmp c1 -> good_cmp c2 -> good_cmp (lexc c1 c2).
Proof.
  intros G1 G2. split; unfold lexc.
  - intros x y. rewrite (gc_antisym _ G1 x y). destruct (c1 x y); cbn; auto. apply (gc_antisym _ G2).
  - intros x y z. destruct (c1 x y) eqn:E1.
    + rewrite (gc_eq_l _ G1 x y z E1). destruct (c1 y z); intros H1 H2; try discriminate; auto.
      eapply (gc_lt_trans _ G2); eauto.
    + intros _. destruct (c1 y z) eqn:E2; intros H; try discriminate.
      * rewrite <- (gc_eq_r _ G1 y z x E2), E1. auto.
      * rewrite (gc_lt_trans _ G1 x y z E1 E2). auto.
    + intros H; discriminate.
  - intros x y z. destruct (c1 x y) eqn:E1; intros E2; try discriminate.
    rewrite (gc_eq_l _ G1 x y z E1). destruct (c1 y z); auto. apply (gc_eq_l _ G2); auto.
Qed.
Lemma good_on {A B} (k : A -> B) (c : B -> B -> comparison) : good_cmp c -> good_cmp (fun x y => c (k x) (k y)).
Proof.
  intros G. split; intros.
  - apply (gc_antisym _ G).
  - eapply (gc_lt_trans _ G); eauto.
  - apply (gc_eq_l _ G); auto.
Qed.
Lemma good_ext {A} (c c' : A -> A -> comparison) : (forall x y, c x y = c' x y) -> good_cmp c' -> good_cmp c.
Proof.
  intros E G. split; intros; rewrite ?E in *.
  - apply (gc_antisym _ G).
  - eapply (gc_lt_trans _ G); eauto.
  - apply (gc_eq_l _ G); auto.
Qed.

(* lexicographic comparison of lists (a proper prefix is smaller) *)
Section LCmp.
  Context {A : Type} (c : A -> A -> comparison).
  Fixpoint lcmp (a b : list A) : comparison :=
    match a, b with
    | [], [] => Eq
    | [], _ :: _ => Lt
    | _ :: _, [] => Gt
    | x :: a', y :: b' => match c x y with Eq => lcmp a' b' | r => r end
    end.
  Hypothesis G : good_cmp c.
  Lemma good_lcmp : good_cmp lcmp.
  Proof.
    split.
    - induction x as [|a x IH]; destruct y as [|b y]; cbn; auto.
      rewrite (gc_antisym _ G a b). destruct (c a b); cbn; auto.
    - induction x as [|a x IH]; destruct y as [|b y], z as [|d z]; cbn; try discriminate; auto.
      destruct (c a b) eqn:E1.
      + rewrite (gc_eq_l _ G a b d E1). destruct (c b d); intros H1 H2; try discriminate; auto.
        eapply IH; eauto.
      + intros _. destruct (c b d) eqn:E2; intros H; try discriminate.
        * rewrite <- (gc_eq_r _ G b d a E2), E1. auto.
        * rewrite (gc_lt_trans _ G a b d E1 E2). auto.
      + intros H; discriminate.
    - induction x as [|a x IH]; destruct y as [|b y]; intros z; cbn; intros E2; try discriminate; auto.
      destruct (c a b) eqn:E1; try discriminate. destruct z as [|d z]; auto.
      rewrite (gc_eq_l _ G a b d E1). destruct (c b d); auto.
  Qed.
  Lemma lcmp_eq a b : (forall x y, c x y = Eq -> x = y) -> lcmp a b = Eq -> a = b.
  Proof.
    intros Hc. revert b; induction a as [|x a IH]; destruct b as [|y b]; cbn; try discriminate; auto.
    destruct (c x y) eqn:E; try discriminate. intros H. f_equal; auto.
  Qed.
End LCmp.

Lemma good_str_cmp : good_cmp str_cmp.
Proof.
  split.
  - intros x y. apply str_cmp_antisym.
  - apply str_cmp_lt_trans.
  - intros x y z E. apply str_cmp_eq in E. subst. reflexivity.
Qed.
Lemma good_nat_cmp : good_cmp Nat.compare.
Proof.
  split.
  - intros x y. apply Nat.compare_antisym.
  - intros x y z. rewrite !Nat.compare_lt_iff. lia.
  - intros x y z E. apply Nat.compare_eq_iff in E. subst. reflexivity.
Qed.
Lemma good_Z_cmp : good_cmp Z.compare.
Proof.
  split.
  - intros x y. apply Z.compare_antisym.
  - intros x y z. rewrite !Z.compare_lt_iff. lia.
  - intros x y z E. apply Z.compare_eq_iff in E. subst. reflexivity.
Qed.

(* the sort key of a sample *)
Definition label_values (m : Metric) : list str := map lp_value (m_label m).
Definition label_names (m : Metric) : list str := map lp_name (m_label m).

Definition metric_cmp_lex : Metric -> Metric -> comparison :=
  lexc (fun a b => Nat.compare (length (m_label a)) (length (m_label b)))
       (lexc (fun a b => lcmp str_cmp (label_values a) (label_values b))
             (fun a b => Z.compare (get_ts a) (get_ts b))).

Lemma cmp_label_values_lcmp a b :
  length a = length b -> cmp_label_values a b = lcmp str_cmp (map lp_value a) (map lp_value b).
Proof.
  revert b; induction a as [|x a IH]; destruct b as [|y b]; cbn; try discriminate; auto.
  intros H. destruct (str_cmp (lp_value x) (lp_value y)); auto.
Qed.
Lemma metric_cmp_is_lex m1 m2 : metric_cmp m1 m2 = metric_cmp_lex m1 m2.
Proof.
  unfold metric_cmp, metric_cmp_lex, lexc, label_values. cbv zeta.
  destruct (Nat.eqb (length (m_label m1)) (length (m_label m2))) eqn:E; cbn [negb].
  - apply Nat.eqb_eq in E. rewrite (cmp_label_values_lcmp _ _ E). rewrite E, Nat.compare_refl. reflexivity.
  - apply Nat.eqb_neq in E. destruct (Nat.compare (length (m_label m1)) (length (m_label m2))) eqn:C; auto.
    apply Nat.compare_eq in C. contradiction.
Qed.
Lemma good_metric_cmp : good_cmp metric_cmp.
Proof.
  apply (good_ext _ metric_cmp_lex metric_cmp_is_lex). unfold metric_cmp_lex.
  apply good_lex; [apply (good_on (fun m => length (m_label m))), good_nat_cmp|].
  apply good_lex; [apply (good_on label_values), good_lcmp, good_str_cmp|apply (good_on get_ts), good_Z_cmp].
Qed.

Lemma metric_leb_total x y : metric_leb x y = true \/ metric_leb y x = true.
Proof. apply (leb_of_total metric_cmp good_metric_cmp). Qed.
Lemma metric_leb_trans x y z : metric_leb x y = true -> metric_leb y z = true -> metric_leb x z = true.
Proof. apply (leb_of_trans metric_cmp good_metric_cmp). Qed.
Lemma metric_leb_both x y : metric_leb x y = true -> metric_leb y x = true -> metric_cmp x y = Eq.
Proof. apply (leb_of_both_eq metric_cmp good_metric_cmp). Qed.

(* what "compare equal" means: same number of labels, same label values position-wise, same timestamp *)
Lemma metric_cmp_eq m1 m2 :
  metric_cmp m1 m2 = Eq -> label_values m1 = label_values m2 /\ get_ts m1 = get_ts m2.
Proof.
  rewrite metric_cmp_is_lex. unfold metric_cmp_lex, lexc.
  destruct (Nat.compare (length (m_label m1)) (length (m_label m2))); try discriminate.
  destruct (lcmp str_cmp (label_values m1) (label_values m2)) eqn:E; try discriminate.
  intros H. split.
  - apply (lcmp_eq str_cmp); auto. intros x y. apply str_cmp_eq.
  - apply Z.compare_eq_iff. exact H.
Qed.
(* strictly smaller label values (same label count) sort first *)
Lemma metric_cmp_values m1 m2 :
  length (m_label m1) = length (m_label m2) -> label_values m1 <> label_values m2 ->
  metric_cmp m1 m2 = lcmp str_cmp (label_values m1) (label_values m2).
Proof.
  intros L D. rewrite metric_cmp_is_lex. unfold metric_cmp_lex, lexc. rewrite L, Nat.compare_refl.
  destruct (lcmp str_cmp (label_values m1) (label_values m2)) eqn:E; auto.
  exfalso. apply D. apply (lcmp_eq str_cmp); auto. intros x y. apply str_cmp_eq.
Qed.

(* ====================================================================================== *)
(* 2. The BTreeMap merge: strictly name-sorted, and what it holds under every name.        *)
(* ====================================================================================== *)
Definition name_lt (a b : MetricFamily) : Prop := str_cmp (mf_name a) (mf_name b) = Lt.
Definition name_sorted (m : list MetricFamily) : Prop := StronglySorted name_lt m.
Definition nonempty_fam (mf : MetricFamily) : bool := negb (is_nil (mf_metric mf)).
(* the collected families that end up in the family called [n]: non-empty ones of that name *)
Definition sel (n : str) (mf : MetricFamily) : bool := str_eqb (mf_name mf) n && nonempty_fam mf.
Definition fams_of (n : str) (collected : list MetricFamily) : list MetricFamily := filter (sel n) collected.
Definition metrics_of (n : str) (collected : list MetricFamily) : list Metric :=
  concat (map mf_metric (fams_of n collected)).

Fixpoint fam_lookup (n : str) (m : list MetricFamily) : option MetricFamily :=
  match m with
  | [] => None
  | x :: t => if str_eqb (mf_name x) n then Some x else fam_lookup n t
  end.

Lemma mf_eta mf : mkMF (mf_name mf) (mf_help mf) (mf_type mf) (mf_metric mf) = mf.
Proof. destruct mf; reflexivity. Qed.

Lemma fam_lookup_In n m x : fam_lookup n m = Some x -> In x m /\ mf_name x = n.
Proof.
  induction m as [|y t IH]; cbn; [discriminate|]. destruct (str_eqb (mf_name y) n) eqn:E; intros H.
  - inversion H; subst. apply str_eqb_eq in E. auto.
  - destruct (IH H); auto.
Qed.
Lemma fam_lookup_none_above n m :
  Forall (fun x => str_cmp n (mf_name x) = Lt) m -> fam_lookup n m = None.
Proof.
  induction 1 as [|x t Hx Ht IH]; cbn; auto. destruct (str_eqb (mf_name x) n) eqn:E; auto.
  apply str_eqb_eq in E. subst. rewrite str_cmp_refl in Hx. discriminate.
Qed.
Lemma name_sorted_tail_above x t : name_sorted (x :: t) -> Forall (fun y => str_cmp (mf_name x) (mf_name y) = Lt) t.
Proof. intros H. inversion H; subst. auto. Qed.
Lemma fam_lookup_sorted_In m x : name_sorted m -> In x m -> fam_lookup (mf_name x) m = Some x.
Proof.
  induction 1 as [|y t St IH Hy]; cbn; [tauto|]. intros [->|Hin].
  - rewrite str_eqb_refl. reflexivity.
  - destruct (str_eqb (mf_name y) (mf_name x)) eqn:E; auto.
    apply str_eqb_eq in E. rewrite Forall_forall in Hy. specialize (Hy x Hin). unfold name_lt in Hy.
    rewrite E, str_cmp_refl in Hy. discriminate.
Qed.

Lemma bt_insert_names mf m y :
  In y (bt_insert mf m) -> mf_name y = mf_name mf \/ exists z, In z m /\ mf_name y = mf_name z.
Proof.
  induction m as [|x t IH]; cbn.
  - intros [<-|[]]. auto.
  - destruct (str_cmp (mf_name mf) (mf_name x)) eqn:E; cbn.
    + intros [<-|H]; [right; exists x; cbn; auto|right; exists y; auto].
    + intros [<-|[<-|H]]; [auto|right; exists x; auto|right; exists y; auto].
    + intros [<-|H]; [right; exists x; auto|]. destruct (IH H) as [|(z & Hz & Ez)]; auto. right. exists z; auto.
Qed.
Lemma bt_insert_sorted mf m : name_sorted m -> name_sorted (bt_insert mf m).
Proof.
  induction 1 as [|x t St IH Hx]; cbn; [repeat constructor|].
  destruct (str_cmp (mf_name mf) (mf_name x)) eqn:E.
  - apply str_cmp_eq in E. constructor; auto.
  - constructor; [constructor; auto|]. constructor; auto.
    eapply Forall_impl; [|exact Hx]. intros z Hz. unfold name_lt in *. eapply str_cmp_lt_trans; eauto.
  - constructor; auto. apply Forall_forall. intros y Hy. unfold name_lt.
    destruct (bt_insert_names _ _ _ Hy) as [->|(z & Hz & ->)].
    + rewrite str_cmp_antisym, E. reflexivity.
    + rewrite Forall_forall in Hx. apply Hx; auto.
Qed.

(* one step of the merge, seen through a lookup *)
Definition absorb (o : option MetricFamily) (mf : MetricFamily) : MetricFamily :=
  match o with
  | None => mf
  | Some x => mkMF (mf_name x) (mf_help x) (mf_type x) (mf_metric x ++ mf_metric mf)
  end.
Lemma bt_insert_lookup n mf m :
  name_sorted m ->
  fam_lookup n (bt_insert mf m) = if str_eqb (mf_name mf) n then Some (absorb (fam_lookup n m) mf) else fam_lookup n m.
Proof.
  induction 1 as [|x t St IH Hx]; cbn [bt_insert fam_lookup].
  - destruct (str_eqb (mf_name mf) n); reflexivity.
  - destruct (str_cmp (mf_name mf) (mf_name x)) eqn:E; cbn [fam_lookup mf_name].
    + apply str_cmp_eq in E. rewrite E. destruct (str_eqb (mf_name x) n); reflexivity.
    + destruct (str_eqb (mf_name mf) n) eqn:En; auto. apply str_eqb_eq in En. subst n.
      assert (F : Forall (fun y => str_cmp (mf_name mf) (mf_name y) = Lt) (x :: t)).
      { constructor; auto. eapply Forall_impl; [|exact Hx]. intros z Hz. unfold name_lt in Hz. eapply str_cmp_lt_trans; eauto. }
      change (if str_eqb (mf_name x) (mf_name mf) then Some x else fam_lookup (mf_name mf) t) with (fam_lookup (mf_name mf) (x :: t)).
      rewrite (fam_lookup_none_above _ _ F). reflexivity.
    + rewrite IH. destruct (str_eqb (mf_name mf) n) eqn:En; auto.
      apply str_eqb_eq in En. subst n. destruct (str_eqb (mf_name x) (mf_name mf)) eqn:Ex; auto.
      apply str_eqb_eq in Ex. rewrite Ex, str_cmp_refl in E. discriminate.
Qed.

Definition ins (m : list MetricFamily) (mf : MetricFamily) : list MetricFamily :=
  if is_nil (mf_metric mf) then m else bt_insert mf m.
Lemma ins_sorted m mf : name_sorted m -> name_sorted (ins m mf).
Proof. unfold ins. destruct (is_nil (mf_metric mf)); auto. apply bt_insert_sorted. Qed.
Lemma fold_ins_sorted l : forall m, name_sorted m -> name_sorted (fold_left ins l m).
Proof. induction l as [|x l IH]; cbn; auto. intros m H. apply IH. apply ins_sorted; auto. Qed.
Theorem merge_sorted collected : name_sorted (merge_families collected).
Proof. apply fold_ins_sorted. constructor. Qed.

Fixpoint absorb_all (o : option MetricFamily) (fs : list MetricFamily) : option MetricFamily :=
  match fs with [] => o | f :: r => absorb_all (Some (absorb o f)) r end.
Lemma fold_ins_lookup n l : forall m,
  name_sorted m -> fam_lookup n (fold_left ins l m) = absorb_all (fam_lookup n m) (filter (sel n) l).
Proof.
  induction l as [|x l IH]; intros m S; cbn [fold_left filter]; auto.
  rewrite IH by (apply ins_sorted; auto). unfold ins, sel, nonempty_fam.
  destruct (is_nil (mf_metric x)) eqn:Ee; cbn [negb].
  - rewrite andb_false_r. reflexivity.
  - rewrite andb_true_r. rewrite bt_insert_lookup by auto. destruct (str_eqb (mf_name x) n); reflexivity.
Qed.

(* the closed form: first family's name/help/type, all metrics in iteration order *)
Definition merged_of (fs : list MetricFamily) : option MetricFamily :=
  match fs with
  | [] => None
  | f :: _ => Some (mkMF (mf_name f) (mf_help f) (mf_type f) (concat (map mf_metric fs)))
  end.
Lemma absorb_all_some x fs :
  absorb_all (Some x) fs = Some (mkMF (mf_name x) (mf_help x) (mf_type x) (mf_metric x ++ concat (map mf_metric fs))).
Proof.
  revert x; induction fs as [|f r IH]; intros x; cbn [absorb_all map concat].
  - rewrite app_nil_r, mf_eta. reflexivity.
  - rewrite IH. cbn [absorb mf_name mf_help mf_type mf_metric]. rewrite app_assoc. reflexivity.
Qed.
Lemma absorb_all_none fs : absorb_all None fs = merged_of fs.
Proof. destruct fs as [|f r]; cbn [absorb_all merged_of absorb]; auto. rewrite absorb_all_some. reflexivity. Qed.

Theorem merge_lookup n collected : fam_lookup n (merge_families collected) = merged_of (fams_of n collected).
Proof.
  unfold merge_families. change (fun m mf => if is_nil (mf_metric mf) then m else bt_insert mf m) with ins.
  rewrite fold_ins_lookup by constructor. cbn [fam_lookup]. apply absorb_all_none.
Qed.

Lemma fams_of_In n collected f : In f (fams_of n collected) <-> In f collected /\ mf_name f = n /\ mf_metric f <> [].
Proof.
  unfold fams_of, sel, nonempty_fam. rewrite filter_In, andb_true_iff, str_eqb_eq, negb_true_iff.
  destruct (mf_metric f); cbn; split; intros (A & B & C); repeat split; auto; congruence.
Qed.
Lemma metrics_of_In n collected m :
  In m (metrics_of n collected) <-> exists f, In f collected /\ mf_name f = n /\ In m (mf_metric f).
Proof.
  unfold metrics_of. rewrite in_concat. split.
  - intros (ms & Hms & Hm). apply in_map_iff in Hms as (f & <- & Hf). apply fams_of_In in Hf as (A & B & C). exists f; auto.
  - intros (f & A & B & C). exists (mf_metric f). split; auto. apply in_map. apply fams_of_In. repeat split; auto.
    intros E. rewrite E in C. destruct C.
Qed.
(* every merged family is the merge of the collected families of its own name *)
Lemma merge_In collected x :
  In x (merge_families collected) -> merged_of (fams_of (mf_name x) collected) = Some x.
Proof. intros H. rewrite <- merge_lookup. apply fam_lookup_sorted_In; auto. apply merge_sorted. Qed.
Lemma merged_of_nonempty n collected x : merged_of (fams_of n collected) = Some x -> mf_name x = n /\ mf_metric x <> [].
Proof.
  destruct (fams_of n collected) as [|f r] eqn:E; cbn; [discriminate|]. intros H. inversion H; subst. cbn.
  assert (Hf : In f (fams_of n collected)) by (rewrite E; left; auto).
  apply fams_of_In in Hf as (_ & A & B). split; auto. destruct (mf_metric f); [congruence|]. cbn. discriminate.
Qed.

(* ====================================================================================== *)
(* 3. Prefix and common labels.                                                            *)
(* ====================================================================================== *)
Definition pname (prefix : option str) (n : str) : str :=
  match prefix with Some p => p ++ [USCORE_] ++ n | None => n end.
Definition common_pairs (l : list (str * str)) : list LabelPair :=
  sort_by lp_leb (map (fun kv => mkLP (fst kv) (snd kv)) l).
Definition add_labels (ps : list LabelPair) (m : Metric) : Metric :=
  mkMetric (m_label m ++ ps) (m_gauge m) (m_counter m) (m_summary m) (m_untyped m) (m_histogram m) (m_ts m).
Definition with_common (labels : option (list (str * str))) (ms : list Metric) : list Metric :=
  match labels with Some l => map (add_labels (common_pairs l)) ms | None => ms end.
Definition sort_fam (mf : MetricFamily) : MetricFamily :=
  mkMF (mf_name mf) (mf_help mf) (mf_type mf) (sort_by metric_leb (mf_metric mf)).

Lemma apply_prefix_labels_eq p l mf :
  apply_prefix_labels p l mf = mkMF (pname p (mf_name mf)) (mf_help mf) (mf_type mf) (with_common l (mf_metric mf)).
Proof. destruct p, l; reflexivity. Qed.
Lemma gather_families_eq p l collected :
  gather_families p l collected = map (fun mf => apply_prefix_labels p l (sort_fam mf)) (merge_families collected).
Proof. reflexivity. Qed.

Lemma str_cmp_app_l p a b : str_cmp (p ++ a) (p ++ b) = str_cmp a b.
Proof. induction p as [|x p IH]; cbn; auto. rewrite N.compare_refl. exact IH. Qed.
Lemma pname_cmp p a b : str_cmp (pname p a) (pname p b) = str_cmp a b.
Proof. destruct p as [p|]; cbn [pname]; auto. rewrite !app_assoc. apply str_cmp_app_l. Qed.
Lemma pname_inj p a b : pname p a = pname p b -> a = b.
Proof. intros H. apply str_cmp_eq. rewrite <- (pname_cmp p). apply str_cmp_eq. exact H. Qed.
Lemma pname_eqb p a b : str_eqb (pname p a) (pname p b) = str_eqb a b.
Proof.
  destruct (str_eqb a b) eqn:E.
  - apply str_eqb_eq in E. subst. apply str_eqb_refl.
  - apply str_eqb_neq. apply str_eqb_neq in E. intros H. apply E. eapply pname_inj; eauto.
Qed.

(* the common labels are appended in name order whatever order the map is iterated in *)
Theorem common_pairs_perm l l' : Permutation l l' -> NoDup (map fst l) -> common_pairs l = common_pairs l'.
Proof. intros P ND. apply (cpairs_perm_inv l l'); auto. Qed.
Lemma common_pairs_sorted l : StronglySorted (fun a b => str_leb (lp_name a) (lp_name b) = true) (common_pairs l).
Proof. apply (sort_by_sorted lp_leb lp_leb_total lp_leb_trans). Qed.
Lemma common_pairs_Perm l : Permutation (common_pairs l) (map (fun kv => mkLP (fst kv) (snd kv)) l).
Proof. apply sort_by_perm. Qed.

(* appending the same pairs to every sample does not change how two samples compare *)
Lemma cmp_label_values_refl a : cmp_label_values a a = Eq.
Proof. induction a as [|x a IH]; cbn; auto. rewrite str_cmp_refl. exact IH. Qed.
Lemma cmp_label_values_app a b ps :
  length a = length b ->
  cmp_label_values (a ++ ps) (b ++ ps) = match cmp_label_values a b with Eq => Eq | c => c end.
Proof.
  revert b; induction a as [|x a IH]; destruct b as [|y b]; cbn; try discriminate.
  - intros _. apply cmp_label_values_refl.
  - intros H. destruct (str_cmp (lp_value x) (lp_value y)); auto.
Qed.
Lemma metric_cmp_add_labels ps m1 m2 : metric_cmp (add_labels ps m1) (add_labels ps m2) = metric_cmp m1 m2.
Proof.
  unfold metric_cmp. cbv zeta. cbn [add_labels m_label]. rewrite !app_length.
  change (get_ts (add_labels ps m1)) with (get_ts m1). change (get_ts (add_labels ps m2)) with (get_ts m2).
  set (a := length (m_label m1)). set (b := length (m_label m2)). set (k := length ps).
  destruct (Nat.eqb a b) eqn:E; cbn [negb].
  - apply Nat.eqb_eq in E. assert (E' : Nat.eqb (a + k) (b + k) = true) by (apply Nat.eqb_eq; lia).
    rewrite E'. cbn [negb]. rewrite cmp_label_values_app by exact E.
    destruct (cmp_label_values (m_label m1) (m_label m2)); reflexivity.
  - apply Nat.eqb_neq in E. assert (E' : Nat.eqb (a + k) (b + k) = false) by (apply Nat.eqb_neq; lia).
    rewrite E'. cbn [negb].
    destruct (Nat.compare_spec a b), (Nat.compare_spec (a + k) (b + k)); auto; lia.
Qed.
Lemma metric_leb_add_labels ps m1 m2 : metric_leb (add_labels ps m1) (add_labels ps m2) = metric_leb m1 m2.
Proof. unfold metric_leb. rewrite metric_cmp_add_labels. reflexivity. Qed.

Definition samples_sorted (ms : list Metric) : Prop := StronglySorted (fun a b => metric_leb a b = true) ms.
Lemma StronglySorted_map {A B} (f : A -> B) (R : A -> A -> Prop) (R' : B -> B -> Prop) l :
  (forall x y, R x y -> R' (f x) (f y)) -> StronglySorted R l -> StronglySorted R' (map f l).
Proof.
  intros H. induction 1 as [|x l S IH Hx]; cbn; constructor; auto.
  apply Forall_forall. intros y Hy. apply in_map_iff in Hy as (z & <- & Hz). rewrite Forall_forall in Hx. auto.
Qed.
Lemma sort_metrics_sorted ms : samples_sorted (sort_by metric_leb ms).
Proof. apply (sort_by_sorted metric_leb metric_leb_total metric_leb_trans). Qed.
Lemma with_common_sorted l ms : samples_sorted ms -> samples_sorted (with_common l ms).
Proof.
  destruct l as [l|]; cbn [with_common]; auto. apply StronglySorted_map.
  intros x y H. rewrite metric_leb_add_labels. exact H.
Qed.

(* ====================================================================================== *)
(* 4. gather: an exact description of the result.                                          *)
(* ====================================================================================== *)
Lemma fam_lookup_map (g : MetricFamily -> MetricFamily) p n m :
  (forall x, mf_name (g x) = pname p (mf_name x)) ->
  fam_lookup (pname p n) (map g m) = option_map g (fam_lookup n m).
Proof.
  intros Hg. induction m as [|x t IH]; cbn; auto. rewrite Hg, pname_eqb. destruct (str_eqb (mf_name x) n); auto.
Qed.

(* what gather returns under the (prefixed) name [n] *)
Definition gathered_family (p : option str) (l : option (list (str * str))) (collected : list MetricFamily) (n : str)
  : option MetricFamily :=
  match fams_of n collected with
  | [] => None
  | f :: _ => Some (mkMF (pname p n) (mf_help f) (mf_type f) (with_common l (sort_by metric_leb (metrics_of n collected))))
  end.

Theorem gather_lookup p l collected n :
  fam_lookup (pname p n) (gather_families p l collected) = gathered_family p l collected n.
Proof.
  rewrite gather_families_eq. rewrite (fam_lookup_map _ p n).
  - rewrite merge_lookup. unfold gathered_family, metrics_of.
    destruct (fams_of n collected) as [|f r] eqn:E; cbn [merged_of option_map]; auto.
    rewrite apply_prefix_labels_eq. cbn [sort_fam mf_name mf_help mf_type mf_metric].
    assert (Hf : In f (fams_of n collected)) by (rewrite E; left; auto).
    apply fams_of_In in Hf as (_ & -> & _). reflexivity.
  - intros x. rewrite apply_prefix_labels_eq. reflexivity.
Qed.

Definition str_lt (a b : str) : Prop := str_cmp a b = Lt.
Theorem gather_sorted_names p l collected :
  StronglySorted str_lt (map mf_name (gather_families p l collected)).
Proof.
  rewrite gather_families_eq, map_map.
  pose proof (merge_sorted collected) as S. induction S as [|x t S IH Hx]; cbn [map]; constructor; auto.
  apply Forall_forall. intros y Hy. apply in_map_iff in Hy as (z & <- & Hz).
  rewrite !apply_prefix_labels_eq. cbn [mf_name sort_fam]. unfold str_lt. rewrite pname_cmp.
  rewrite Forall_forall in Hx. apply Hx; auto.
Qed.
Lemma gather_name_sorted p l collected : name_sorted (gather_families p l collected).
Proof.
  pose proof (gather_sorted_names p l collected) as S. remember (gather_families p l collected) as g. clear Heqg.
  induction g as [|x g IH]; [constructor|]. cbn [map] in S. inversion S; subst. constructor; [apply IH; auto|].
  apply Forall_forall. intros y Hy. rewrite Forall_forall in H2. apply H2. apply in_map; auto.
Qed.

(* nothing else appears: every returned family is the gathered family of some name *)
Theorem gather_In p l collected g :
  In g (gather_families p l collected) ->
  exists n, mf_name g = pname p n /\ gathered_family p l collected n = Some g.
Proof.
  intros H. assert (L : fam_lookup (mf_name g) (gather_families p l collected) = Some g)
    by (apply fam_lookup_sorted_In; auto; apply gather_name_sorted).
  rewrite gather_families_eq in H. apply in_map_iff in H as (x & E & Hx). exists (mf_name x).
  assert (En : mf_name g = pname p (mf_name x)) by (rewrite <- E, apply_prefix_labels_eq; reflexivity).
  split; auto. rewrite <- gather_lookup, <- En. exact L.
Qed.
Theorem gather_In_conv p l collected n g :
  gathered_family p l collected n = Some g -> In g (gather_families p l collected).
Proof. rewrite <- gather_lookup. intros H. apply fam_lookup_In in H. tauto. Qed.

Lemma gathered_family_inv p l collected n g :
  gathered_family p l collected n = Some g ->
  exists f r, fams_of n collected = f :: r /\ In f collected /\ mf_name f = n /\ mf_metric f <> []
    /\ g = mkMF (pname p n) (mf_help f) (mf_type f) (with_common l (sort_by metric_leb (metrics_of n collected))).
Proof.
  unfold gathered_family. destruct (fams_of n collected) as [|f r] eqn:E; [discriminate|]. intros H. inversion H; subst.
  assert (Hf : In f (fams_of (mf_name f) collected) -> In f collected /\ mf_metric f <> []) by (intros X; apply fams_of_In in X; tauto).
  assert (Hf' : In f (fams_of n collected)) by (rewrite E; left; auto).
  apply fams_of_In in Hf' as (A & B & C). exists f, r. repeat split; auto.
Qed.

(* completeness: the samples of the family are exactly the samples of all collected families of that name *)
Lemma with_common_Perm l ms ms' : Permutation ms ms' -> Permutation (with_common l ms) (with_common l ms').
Proof. destruct l; cbn [with_common]; auto. apply Permutation_map. Qed.
Theorem gather_complete p l collected n :
  match fam_lookup (pname p n) (gather_families p l collected) with
  | Some g => fams_of n collected <> [] /\ Permutation (mf_metric g) (with_common l (metrics_of n collected))
  | None => fams_of n collected = []
  end.
Proof.
  rewrite gather_lookup. unfold gathered_family. destruct (fams_of n collected) as [|f r] eqn:E; auto.
  split; [discriminate|]. cbn [mf_metric]. apply with_common_Perm. apply sort_by_perm.
Qed.
Theorem gather_no_empty_family p l collected g : In g (gather_families p l collected) -> mf_metric g <> [].
Proof.
  intros H. apply gather_In in H as (n & _ & H). apply gathered_family_inv in H as (f & r & E & Hf & En & Hne & ->).
  cbn [mf_metric]. intros X.
  assert (P : Permutation (with_common l (sort_by metric_leb (metrics_of n collected))) (with_common l (metrics_of n collected)))
    by (apply with_common_Perm, sort_by_perm).
  rewrite X in P. apply Permutation_nil in P.
  assert (M : metrics_of n collected = []).
  { destruct l; cbn [with_common] in P; auto. destruct (metrics_of n collected); [auto|discriminate]. }
  destruct (mf_metric f) as [|m ms] eqn:Em; [congruence|].
  assert (In m (metrics_of n collected)) by (apply metrics_of_In; exists f; rewrite Em; cbn; auto).
  rewrite M in H. destruct H.
Qed.
Theorem gather_sorted_samples p l collected g : In g (gather_families p l collected) -> samples_sorted (mf_metric g).
Proof.
  intros H. apply gather_In in H as (n & _ & H). apply gathered_family_inv in H as (f & r & _ & _ & _ & _ & ->).
  cbn [mf_metric]. apply with_common_sorted, sort_metrics_sorted.
Qed.
(* help and type are those of the first non-empty collected family of the name ... *)
Theorem gather_help_type p l collected g :
  In g (gather_families p l collected) ->
  exists f, In f collected /\ mf_metric f <> [] /\ mf_name g = pname p (mf_name f)
            /\ mf_help g = mf_help f /\ mf_type g = mf_type f.
Proof.
  intros H. apply gather_In in H as (n & _ & H). apply gathered_family_inv in H as (f & r & _ & Hf & En & Hne & ->).
  exists f. cbn. subst n. auto.
Qed.
(* ... hence of every one of them when families of one name agree *)
Definition agree_help_type (collected : list MetricFamily) : Prop :=
  forall f g, In f collected -> In g collected -> mf_metric f <> [] -> mf_metric g <> [] -> mf_name f = mf_name g ->
              mf_help f = mf_help g /\ mf_type f = mf_type g.
Theorem gather_help_type_unique p l collected g f :
  agree_help_type collected ->
  In g (gather_families p l collected) -> In f collected -> mf_metric f <> [] -> mf_name g = pname p (mf_name f) ->
  mf_help g = mf_help f /\ mf_type g = mf_type f.
Proof.
  intros A Hg Hf Hne En. destruct (gather_help_type _ _ _ _ Hg) as (f0 & Hf0 & Hne0 & En0 & -> & ->).
  apply A; auto. apply (pname_inj p). congruence.
Qed.

(* prefix and labels are applied uniformly, after everything else *)
Theorem gather_prefix_labels p l collected :
  gather_families p l collected = map (apply_prefix_labels p l) (gather_families None None collected).
Proof.
  rewrite !gather_families_eq, map_map. apply map_ext. intros x. rewrite !apply_prefix_labels_eq. reflexivity.
Qed.
Theorem gather_prefix_labels_pointwise p l collected :
  Forall2 (fun g g0 =>
             mf_name g = pname p (mf_name g0) /\ mf_help g = mf_help g0 /\ mf_type g = mf_type g0
             /\ Forall2 (fun m m0 => m_label m = m_label m0 ++ match l with Some l => common_pairs l | None => [] end
                                     /\ m_gauge m = m_gauge m0 /\ m_counter m = m_counter m0 /\ m_summary m = m_summary m0
                                     /\ m_untyped m = m_untyped m0 /\ m_histogram m = m_histogram m0 /\ m_ts m = m_ts m0)
                        (mf_metric g) (mf_metric g0))
          (gather_families p l collected) (gather_families None None collected).
Proof.
  rewrite (gather_prefix_labels p l). induction (gather_families None None collected) as [|x t IH]; cbn [map]; constructor; auto.
  rewrite apply_prefix_labels_eq. cbn [mf_name mf_help mf_type mf_metric]. repeat split; auto.
  destruct l as [l|]; cbn [with_common].
  - induction (mf_metric x) as [|m ms IHm]; cbn [map]; constructor; auto. cbn. tauto.
  - induction (mf_metric x) as [|m ms IHm]; constructor; auto. rewrite app_nil_r. tauto.
Qed.

(* ====================================================================================== *)
(* 5. Independence of the iteration order of the collectors and of a vector's children.    *)
(* ====================================================================================== *)
Definition orel {A} (R : A -> A -> Prop) (a b : option A) : Prop :=
  match a, b with Some x, Some y => R x y | None, None => True | _, _ => False end.

Lemma fam_lookup_head_none x t : name_sorted (x :: t) -> fam_lookup (mf_name x) t = None.
Proof. intros S. apply fam_lookup_none_above. apply name_sorted_tail_above. exact S. Qed.

(* two name-sorted lists whose lookups are related under every name are related element-wise *)
Lemma sorted_lookup_Forall2 (R : MetricFamily -> MetricFamily -> Prop) l1 l2 :
  (forall x y, R x y -> mf_name x = mf_name y) ->
  name_sorted l1 -> name_sorted l2 ->
  (forall n, orel R (fam_lookup n l1) (fam_lookup n l2)) -> Forall2 R l1 l2.
Proof.
  intros HR S1; revert l2; induction S1 as [|x t1 S1 IH Hx]; intros l2 S2 H.
  - destruct l2 as [|y t2]; [constructor|]. specialize (H (mf_name y)). cbn in H. rewrite str_eqb_refl in H. destruct H.
  - destruct l2 as [|y t2].
    { specialize (H (mf_name x)). cbn in H. rewrite str_eqb_refl in H. destruct H. }
    assert (Sx : name_sorted (x :: t1)) by (constructor; auto).
    pose proof (fam_lookup_head_none _ _ Sx) as Nx. pose proof (fam_lookup_head_none _ _ S2) as Ny.
    inversion S2 as [|? ? S2' Hy]; subst.
    assert (E : mf_name x = mf_name y).
    { destruct (str_cmp (mf_name x) (mf_name y)) eqn:C.
      - apply str_cmp_eq; auto.
      - exfalso. specialize (H (mf_name x)). cbn [fam_lookup] in H. rewrite str_eqb_refl in H.
        change (if str_eqb (mf_name y) (mf_name x) then Some y else fam_lookup (mf_name x) t2)
          with (fam_lookup (mf_name x) (y :: t2)) in H.
        rewrite fam_lookup_none_above in H; [exact H|]. constructor; auto.
        eapply Forall_impl; [|exact Hy]. intros z Hz. unfold name_lt in Hz. eapply str_cmp_lt_trans; eauto.
      - exfalso. assert (C' : str_cmp (mf_name y) (mf_name x) = Lt) by (rewrite str_cmp_antisym, C; reflexivity).
        specialize (H (mf_name y)). cbn [fam_lookup] in H. rewrite (str_eqb_refl (mf_name y)) in H.
        change (if str_eqb (mf_name x) (mf_name y) then Some x else fam_lookup (mf_name y) t1)
          with (fam_lookup (mf_name y) (x :: t1)) in H.
        rewrite fam_lookup_none_above in H; [exact H|]. constructor; auto.
        eapply Forall_impl; [|exact Hx]. intros z Hz. unfold name_lt in Hz. eapply str_cmp_lt_trans; eauto. }
    constructor.
    + specialize (H (mf_name x)). cbn [fam_lookup] in H. rewrite <- E, str_eqb_refl in H. exact H.
    + apply IH; auto. intros n. specialize (H n). cbn [fam_lookup] in H. rewrite <- E in H.
      destruct (str_eqb (mf_name x) n) eqn:En; auto. apply str_eqb_eq in En. subst n.
      rewrite Nx. rewrite E, Ny. exact I.
Qed.
Lemma Forall2_eq_map {A B} (f : A -> B) l1 l2 : Forall2 (fun x y => f x = f y) l1 l2 -> map f l1 = map f l2.
Proof. induction 1; cbn; congruence. Qed.

(* the two hypotheses of order independence *)
(* (H1) non-empty families of one name agree on help and type: [agree_help_type] above *)
(* (H2) the comparator separates the samples that meet in one family *)
Definition cmp_separates (collected : list MetricFamily) : Prop :=
  forall f g m1 m2, In f collected -> In g collected -> mf_name f = mf_name g ->
                    In m1 (mf_metric f) -> In m2 (mf_metric g) -> metric_cmp m1 m2 = Eq -> m1 = m2.

Definition same_help_type (f f' : MetricFamily) : Prop := mf_help f = mf_help f' /\ mf_type f = mf_type f'.

(* the core: gather depends on the collected list only through, per name, the help/type of the
   first non-empty family and the multiset of samples *)
Lemma gather_ext p l c c' :
  (forall n, orel same_help_type (hd_error (fams_of n c)) (hd_error (fams_of n c'))) ->
  (forall n, Permutation (metrics_of n c) (metrics_of n c')) ->
  cmp_separates c ->
  gather_families p l c = gather_families p l c'.
Proof.
  intros Hh Hm H2. rewrite !gather_families_eq. rewrite <- !(map_map sort_fam (apply_prefix_labels p l)). f_equal.
  apply Forall2_eq_map. apply sorted_lookup_Forall2; try apply merge_sorted.
  - intros x y E. unfold sort_fam in E. inversion E; auto.
  - intros n. rewrite !merge_lookup.
    assert (Es : sort_by metric_leb (metrics_of n c) = sort_by metric_leb (metrics_of n c')).
    { apply sort_by_perm_inv; [apply metric_leb_total|apply metric_leb_trans|apply Hm|].
      intros x y Hx Hy L1 L2. apply metrics_of_In in Hx as (f & Hf & Ef & Hxf). apply metrics_of_In in Hy as (g & Hg & Eg & Hyg).
      apply (H2 f g); auto; [congruence|]. apply metric_leb_both; auto. }
    specialize (Hh n). unfold metrics_of in Es.
    destruct (fams_of n c) as [|f r] eqn:E1; destruct (fams_of n c') as [|f' r'] eqn:E2; cbn [hd_error orel merged_of] in *; auto.
    destruct Hh as [Eh Et]. unfold sort_fam. cbn [mf_name mf_help mf_type mf_metric]. rewrite Es, Eh, Et. f_equal.
    assert (A : In f (fams_of n c)) by (rewrite E1; left; auto). assert (B : In f' (fams_of n c')) by (rewrite E2; left; auto).
    apply fams_of_In in A as (_ & -> & _). apply fams_of_In in B as (_ & B & _). auto.
Qed.

Lemma Permutation_concat_map {A B} (f : A -> list B) l l' : Permutation l l' -> Permutation (concat (map f l)) (concat (map f l')).
Proof. intros P. rewrite <- !flat_map_concat_map. apply Permutation_flat_map. exact P. Qed.

Theorem gather_perm_invariant p l collected collected' :
  Permutation collected collected' ->
  agree_help_type collected -> cmp_separates collected ->
  gather_families p l collected = gather_families p l collected'.
Proof.
  intros P H1 H2. apply gather_ext; auto.
  - intros n. pose proof (Permutation_filter (sel n) _ _ P) as Pn. fold (fams_of n collected) in Pn. fold (fams_of n collected') in Pn.
    destruct (fams_of n collected) as [|f r] eqn:E1; destruct (fams_of n collected') as [|f' r'] eqn:E2; cbn [hd_error orel]; auto.
    + apply Permutation_nil in Pn. discriminate.
    + apply Permutation_sym, Permutation_nil in Pn. discriminate.
    + assert (A : In f (fams_of n collected)) by (rewrite E1; left; auto).
      assert (B : In f' (fams_of n collected')) by (rewrite E2; left; auto).
      apply fams_of_In in A as (A1 & A2 & A3). apply fams_of_In in B as (B1 & B2 & B3).
      apply H1; auto; [|congruence]. eapply Permutation_in; [apply Permutation_sym; exact P|exact B1].
  - intros n. unfold metrics_of. apply Permutation_concat_map. apply Permutation_filter. exact P.
Qed.

(* the same collectors whose vectors iterate their children in another order *)
Definition fam_perm (x y : MetricFamily) : Prop :=
  mf_name x = mf_name y /\ mf_help x = mf_help y /\ mf_type x = mf_type y /\ Permutation (mf_metric x) (mf_metric y).
Lemma fam_perm_sel n x y : fam_perm x y -> sel n x = sel n y.
Proof.
  intros (E & _ & _ & P). unfold sel, nonempty_fam. rewrite E. f_equal.
  destruct (mf_metric x), (mf_metric y); auto.
  - apply Permutation_nil in P. discriminate.
  - apply Permutation_sym, Permutation_nil in P. discriminate.
Qed.
Lemma fam_perm_fams_of n c c' : Forall2 fam_perm c c' -> Forall2 fam_perm (fams_of n c) (fams_of n c').
Proof.
  induction 1 as [|x y c c' Hxy F IH]; cbn; [constructor|]. rewrite (fam_perm_sel n x y Hxy).
  destruct (sel n y); auto.
Qed.
Lemma fam_perm_concat fs fs' : Forall2 fam_perm fs fs' -> Permutation (concat (map mf_metric fs)) (concat (map mf_metric fs')).
Proof. induction 1 as [|x y fs fs' (_ & _ & _ & P) F IH]; cbn; auto. apply Permutation_app; auto. Qed.
Theorem gather_children_perm_invariant p l collected collected' :
  Forall2 fam_perm collected collected' -> cmp_separates collected ->
  gather_families p l collected = gather_families p l collected'.
Proof.
  intros F H2. apply gather_ext; auto.
  - intros n. pose proof (fam_perm_fams_of n _ _ F) as Fn. destruct Fn as [|x y ? ? (_ & A & B & _) _]; cbn; auto. split; auto.
  - intros n. apply fam_perm_concat. apply fam_perm_fams_of. exact F.
Qed.

Lemma agree_help_type_perm c c' : Permutation c c' -> agree_help_type c -> agree_help_type c'.
Proof.
  intros P H f g Hf Hg. apply H; eapply Permutation_in; try apply Permutation_sym; eauto.
Qed.
Lemma cmp_separates_perm c c' : Permutation c c' -> cmp_separates c -> cmp_separates c'.
Proof.
  intros P H f g m1 m2 Hf Hg. apply H; eapply Permutation_in; try apply Permutation_sym; eauto.
Qed.
(* both at once: collectors in any order, each vector's children in any order *)
Theorem gather_order_invariant p l collected mid collected' :
  Permutation collected mid -> Forall2 fam_perm mid collected' ->
  agree_help_type collected -> cmp_separates collected ->
  gather_families p l collected = gather_families p l collected'.
Proof.
  intros P F H1 H2. rewrite (gather_perm_invariant p l collected mid P H1 H2).
  apply gather_children_perm_invariant; auto. eapply cmp_separates_perm; eauto.
Qed.

(* ... and the common-label map in any order *)
Theorem apply_prefix_labels_perm p l l' mf :
  Permutation l l' -> NoDup (map fst l) -> apply_prefix_labels p (Some l) mf = apply_prefix_labels p (Some l') mf.
Proof.
  intros P ND. rewrite !apply_prefix_labels_eq. cbn [with_common]. rewrite (common_pairs_perm l l' P ND). reflexivity.
Qed.
Theorem gather_labels_perm_invariant p l l' collected :
  Permutation l l' -> NoDup (map fst l) -> gather_families p (Some l) collected = gather_families p (Some l') collected.
Proof.
  intros P ND. rewrite !gather_families_eq. apply map_ext. intros x. apply apply_prefix_labels_perm; auto.
Qed.

(* (H2) holds as soon as the label-value tuples of the samples meeting in one family are pairwise distinct *)
Theorem cmp_separates_if_values_distinct collected :
  (forall n, NoDup (map label_values (metrics_of n collected))) -> cmp_separates collected.
Proof.
  intros ND f g m1 m2 Hf Hg E H1 H2 C. apply metric_cmp_eq in C as [C _].
  apply (NoDup_map_inj_on label_values (metrics_of (mf_name f) collected)); auto.
  - apply metrics_of_In. exists f; auto.
  - apply metrics_of_In. exists g; auto.
Qed.

(* ====================================================================================== *)
(* 6. C14: payloads and family types.                                                      *)
(* ====================================================================================== *)
Definition is_some {A} (o : option A) : bool := match o with Some _ => true | None => false end.
(* which value fields of a sample are present: (gauge, counter, summary, untyped, histogram) *)
Definition payload_flags (m : Metric) : bool * bool * bool * bool * bool :=
  (is_some (m_gauge m), is_some (m_counter m), is_some (m_summary m), is_some (m_untyped m), is_some (m_histogram m)).
Definition type_flags (t : MetricType) : bool * bool * bool * bool * bool :=
  match t with
  | GAUGE => (true, false, false, false, false)
  | COUNTER => (false, true, false, false, false)
  | SUMMARY => (false, false, true, false, false)
  | UNTYPED => (false, false, false, true, false)
  | HISTOGRAM => (false, false, false, false, true)
  end.
Definition flags_eqb (a b : bool * bool * bool * bool * bool) : bool :=
  let '(a1, a2, a3, a4, a5) := a in let '(b1, b2, b3, b4, b5) := b in
  Bool.eqb a1 b1 && Bool.eqb a2 b2 && Bool.eqb a3 b3 && Bool.eqb a4 b4 && Bool.eqb a5 b5.
(* the sample carries exactly the value field that the encoders read for a family of type [t] *)
Definition payload_matches (t : MetricType) (m : Metric) : bool := flags_eqb (payload_flags m) (type_flags t).

Lemma payload_matches_add_labels t ps m : payload_matches t (add_labels ps m) = payload_matches t m.
Proof. reflexivity. Qed.

Definition agree_type (collected : list MetricFamily) : Prop :=
  forall f g, In f collected -> In g collected -> mf_metric f <> [] -> mf_metric g <> [] -> mf_name f = mf_name g ->
              mf_type f = mf_type g.
Definition payloads_ok (fams : list MetricFamily) : Prop :=
  forall f, In f fams -> forall m, In m (mf_metric f) -> payload_matches (mf_type f) m = true.

Lemma with_common_In l ms m : In m (with_common l ms) -> exists m0, In m0 ms /\ forall t, payload_matches t m = payload_matches t m0.
Proof.
  destruct l as [l|]; cbn [with_common].
  - intros H. apply in_map_iff in H as (m0 & <- & H0). exists m0. split; auto.
  - intros H. exists m. auto.
Qed.

Theorem gather_homogeneous p l collected :
  agree_type collected -> payloads_ok collected -> payloads_ok (gather_families p l collected).
Proof.
  intros HT HP g Hg m Hm. apply gather_In in Hg as (n & _ & Hg).
  apply gathered_family_inv in Hg as (f & r & _ & Hf & En & Hne & ->). cbn [mf_metric mf_type] in *.
  apply with_common_In in Hm as (m0 & Hm0 & Hpm). rewrite Hpm. apply -> (sort_by_In metric_leb) in Hm0.
  apply metrics_of_In in Hm0 as (f0 & Hf0 & En0 & Hm0).
  assert (Hne0 : mf_metric f0 <> []) by (intros X; rewrite X in Hm0; destruct Hm0).
  assert (Et : mf_type f = mf_type f0) by (apply HT; auto; congruence).
  rewrite Et. apply HP; auto.
Qed.

Definition name_type (g : MetricFamily) : str * MetricType := (mf_name g, mf_type g).
Lemma gather_types_ext p l c c' :
  (forall n, orel (fun f f' => mf_type f = mf_type f') (hd_error (fams_of n c)) (hd_error (fams_of n c'))) ->
  map name_type (gather_families p l c) = map name_type (gather_families p l c').
Proof.
  intros Hh. rewrite !gather_families_eq, !map_map.
  assert (E : forall x, name_type (apply_prefix_labels p l (sort_fam x)) = (pname p (mf_name x), mf_type x))
    by (intros x; rewrite apply_prefix_labels_eq; reflexivity).
  rewrite (map_ext _ _ E). apply (Forall2_eq_map (fun x => (pname p (mf_name x), mf_type x))).
  apply sorted_lookup_Forall2; try apply merge_sorted.
  - intros x y H. inversion H. eapply pname_inj; eauto.
  - intros n. rewrite !merge_lookup. specialize (Hh n).
    destruct (fams_of n c) as [|f r] eqn:E1; destruct (fams_of n c') as [|f' r'] eqn:E2; cbn [hd_error orel merged_of] in *; auto.
    cbn [mf_name mf_type]. rewrite Hh. f_equal. f_equal.
    assert (A : In f (fams_of n c)) by (rewrite E1; left; auto). assert (B : In f' (fams_of n c')) by (rewrite E2; left; auto).
    apply fams_of_In in A as (_ & -> & _). apply fams_of_In in B as (_ & B & _). auto.
Qed.
Theorem gather_types_order_invariant p l collected mid collected' :
  Permutation collected mid -> Forall2 fam_perm mid collected' -> agree_type collected ->
  map name_type (gather_families p l collected) = map name_type (gather_families p l collected').
Proof.
  intros P F HT. apply gather_types_ext. intros n.
  pose proof (Permutation_filter (sel n) _ _ P) as Pn. fold (fams_of n collected) in Pn. fold (fams_of n mid) in Pn.
  pose proof (fam_perm_fams_of n _ _ F) as Fn.
  destruct (fams_of n collected) as [|f r] eqn:E1.
  - apply Permutation_nil in Pn. rewrite Pn in Fn. inversion Fn. cbn. exact I.
  - destruct (fams_of n mid) as [|f1 r1] eqn:E2; [apply Permutation_sym, Permutation_nil in Pn; discriminate|].
    inversion Fn as [|? f' ? r' (_ & _ & Et & _) _]; subst. cbn [hd_error orel]. rewrite <- Et.
    assert (A : In f (fams_of n collected)) by (rewrite E1; left; auto).
    assert (B : In f1 (fams_of n mid)) by (rewrite E2; left; auto).
    apply fams_of_In in A as (A1 & A2 & A3). apply fams_of_In in B as (B1 & B2 & B3).
    apply HT; auto; [|congruence]. eapply Permutation_in; [apply Permutation_sym; exact P|exact B1].
Qed.
Lemma fam_perm_refl_list c : Forall2 fam_perm c c.
Proof. induction c; constructor; auto. repeat split; auto. Qed.
Theorem gather_types_perm_invariant p l collected collected' :
  Permutation collected collected' -> agree_type collected ->
  map name_type (gather_families p l collected) = map name_type (gather_families p l collected').
Proof. intros P HT. eapply gather_types_order_invariant; eauto. apply fam_perm_refl_list. Qed.

Lemma payload_matches_spec t m : payload_matches t m = true <-> payload_flags m = type_flags t.
Proof.
  unfold payload_matches, flags_eqb. destruct (payload_flags m) as [[[[a1 a2] a3] a4] a5].
  destruct (type_flags t) as [[[[b1 b2] b3] b4] b5].
  rewrite !andb_true_iff, !eqb_true_iff. split.
  - intros ((((-> & ->) & ->) & ->) & ->). reflexivity.
  - intros H. inversion H. tauto.
Qed.

(* ====================================================================================== *)
(* 7. Non-vacuity: a collected list satisfying every hypothesis used above.                *)
(* ====================================================================================== *)
Definition ex_counter (k : str) (v : f64) : Metric := mkMetric [mkLP [107] k] None (Some v) None None None None.
Definition ex_fams : list MetricFamily :=
  [mkMF [97] [104] COUNTER [ex_counter [50] 1%float];                      (* a{k="2"} 1 *)
   mkMF [98] [104] GAUGE [mkMetric [] (Some 2%float) None None None None None];   (* b 2 *)
   mkMF [97] [104] COUNTER [ex_counter [49] 3%float];                      (* a{k="1"} 3 *)
   mkMF [99] [104] COUNTER []].                                            (* c: a vector without children *)
Ltac ex_in H := cbn in H; repeat (destruct H as [<-|H]); try destruct H.
Lemma ex_fams_agree : agree_help_type ex_fams.
Proof.
  intros f g Hf Hg Nf Ng E. ex_in Hf; ex_in Hg; cbn in *; try (split; reflexivity); try discriminate E; congruence.
Qed.
Lemma ex_fams_separated : cmp_separates ex_fams.
Proof.
  intros f g m1 m2 Hf Hg E H1 H2 C.
  ex_in Hf; ex_in Hg; ex_in H1; ex_in H2; try reflexivity; try discriminate E; vm_compute in C; discriminate C.
Qed.
Lemma ex_fams_ok : agree_type ex_fams /\ payloads_ok ex_fams /\ length (gather_families None None ex_fams) = 2%nat.
Proof.
  split; [|split].
  - intros f g Hf Hg Nf Ng E. apply ex_fams_agree; auto.
  - intros f Hf m Hm. ex_in Hf; ex_in Hm; reflexivity.
  - vm_compute. reflexivity.
Qed.
(* ... on which gather indeed gives the same, canonically ordered, result in another order *)
Lemma ex_fams_gather :
  gather_families None None ex_fams = gather_families None None (rev ex_fams)
  /\ gather_families None None ex_fams =
     [mkMF [97] [104] COUNTER [ex_counter [49] 3%float; ex_counter [50] 1%float];
      mkMF [98] [104] GAUGE [mkMetric [] (Some 2%float) None None None None None]].
Proof. split; vm_compute; reflexivity. Qed.
Lemma ex_labels_nodup : NoDup (map fst [([122], [49]); ([97], [50])])
  /\ common_pairs [([122], [49]); ([97], [50])] = [mkLP [97] [50]; mkLP [122] [49]].
Proof. split; [repeat constructor; cbn; intuition discriminate|vm_compute; reflexivity]. Qed.
