(* An instrumented run of the executable histogram model: besides the model state it logs, per
   ghost record (= ticket), which call made it - (thread, number of that thread's observe /
   flush call) - and the values the call carried.  The log is pure bookkeeping: the instrumented
   run accepts exactly the traces the plain run accepts.  Proved here:
   - every observe / flush call makes exactly one record (a flushed batch is ONE record carrying
     all its values), and the tickets of one thread's calls are in that thread's program order:
     a ticket prefix is closed under every thread's program order;
   - every record carries count = number of values, sum cell = sum of values, bucket cell j =
     number of values whose first bucket is j; hence the summary of a ticket prefix is the
     count / sum / per-bucket counts of the SET of values of the calls in the prefix. *)
Require Import PV.Base.Prelude PV.Base.F64 PV.Model.Conc PV.Model.HistConc PV.Model.HistExec.
Require Import PV.Proofs.HistConcLemmas PV.Proofs.HistConcInv PV.Proofs.HistConcProof PV.Proofs.HistConcOwn.
Require Import PV.Proofs.HistExecSound PV.Proofs.HistExecInv PV.Proofs.HistConcThms PV.Proofs.HistValues.
From Coq Require Import ZArith Lia Bool Arith.
Open Scope Z_scope.

Definition ev_tid (e : event) : nat :=
  match e with
  | ECall t _ | ERet t _ | EAt t _ _ _ _ _ _ _ | ELock t _ _ _ | EUnlock t _ _ | EPanic t | EOther t => t
  | _ => O
  end.
Definition bits_vals (bs : list N) : option (list Z) :=
  fold_right (fun b acc => match z_of_bits b, acc with Some v, Some l => Some (v :: l) | _, _ => None end) (Some []) bs.
(* the values an observe / flush invocation carries *)
Definition call_vals (e : event) : option (list Z) :=
  match e with
  | ECall _ (CObs b) => match z_of_bits b with Some v => Some [v] | None => None end
  | ECall _ (CBatch bs) => bits_vals bs
  | _ => None
  end.
Definition is_claim (ts : tstate) : bool := match ts with OClaim _ _ => true | _ => false end.
Definition fupd {A} (f : nat -> A) (t : nat) (a : A) : nat -> A := fun u => if Nat.eqb u t then a else f u.

Record ost := { ox : xst;
                owners : list (nat * nat);     (* per ticket: thread, number of that thread's observe / flush call (1, 2, ...) *)
                vlog : list (list Z);          (* per ticket: the values of the call *)
                ncalls : nat -> nat;           (* observe / flush calls invoked so far, per thread *)
                pend : nat -> list Z }.        (* values of the thread's latest observe / flush invocation *)

Definition oinit : ost := {| ox := xinit; owners := []; vlog := []; ncalls := fun _ => O; pend := fun _ => [] |}.

Section L.
Variable bounds : list Z.
Notation B := (length bounds).
Notation hexec := (hexec bounds).

Definition ostep (o : ost) (e : event) : option ost :=
  match hexec (ox o) e with
  | None => None
  | Some x' =>
      let t := ev_tid e in
      let nc := match call_vals e with Some _ => fupd (ncalls o) t (S (ncalls o t)) | None => ncalls o end in
      let pd := match call_vals e with Some vs => fupd (pend o) t vs | None => pend o end in
      let grew := negb (Nat.eqb (length (recs (base x'))) (length (recs (base (ox o))))) in
      Some {| ox := x';
              owners := if grew then owners o ++ [(t, nc t)] else owners o;
              vlog := if grew then vlog o ++ [pd t] else vlog o;
              ncalls := nc; pend := pd |}
  end.

Fixpoint orun (o : ost) (es : list event) : option ost :=
  match es with
  | [] => Some o
  | e :: r => match ostep o e with Some o' => orun o' r | None => None end
  end.

(* the log does not influence acceptance *)
Lemma orun_xrun es : forall o o', orun o es = Some o' -> xrun bounds (ox o) es = Some (ox o').
Proof.
  induction es as [|e es IH]; intros o o' H; cbn in *.
  - inversion H; reflexivity.
  - unfold ostep in H. destruct (hexec (ox o) e) as [x1|] eqn:E; [|discriminate]. apply IH in H. exact H.
Qed.
Lemma xrun_orun es : forall o x', xrun bounds (ox o) es = Some x' -> exists o', orun o es = Some o' /\ ox o' = x'.
Proof.
  induction es as [|e es IH]; intros o x' H; cbn in *.
  - inversion H; subst. eauto.
  - unfold ostep. destruct (hexec (ox o) e) as [x1|] eqn:E; [|discriminate].
    match goal with |- exists o', orun ?o1 es = _ /\ _ => destruct (IH o1 x' H) as (o' & H1 & H2) end. eauto.
Qed.

(* ------------------------------------------------------------------ classification of accepted events *)
Definition quiet_change (s s' : st) : Prop :=
  length (recs s') = length (recs s)
  /\ (forall i r', nth_error (recs s') i = Some r' ->
        exists r, nth_error (recs s) i = Some r /\ r_cnt r' = r_cnt r /\ forall c, full c r' = full c r)
  /\ (forall u, is_claim (thr s' u) = true \/ is_claim (thr s u) = true -> thr s' u = thr s u).

Definition mkrec (c : Z) (ws : list (nat * Z)) (h : bool) : rec :=
  {| r_cnt := c; r_ws := map (fun p => {| w_cell := fst p; w_d := snd p; w_done := false |}) ws; r_pub := false; r_tgt := h |}.

Inductive hclass (x : xst) (e : event) (x' : xst) : Prop :=
| HC_call t c vs cc ws :
    e = ECall t c -> call_vals e = Some vs -> thr (base x) t = Idle -> planned_ok bounds vs cc ws ->
    recs (base x') = recs (base x) -> thr (base x') = set_thr (base x) t (OClaim cc ws) -> hclass x e x'
| HC_claim t cc ws :
    ev_tid e = t -> call_vals e = None -> thr (base x) t = OClaim cc ws ->
    recs (base x') = recs (base x) ++ [mkrec cc ws (hot (base x))] ->
    thr (base x') = set_thr (base x) t (OWork (length (recs (base x)))) -> hclass x e x'
| HC_other : call_vals e = None -> quiet_change (base x) (base x') -> hclass x e x'.

Lemma quiet_refl s : quiet_change s s.
Proof. split; [reflexivity|]. split; [|auto]. intros i r H. exists r. auto. Qed.

Lemma quiet_mk s n' h' sh' l' recs' K' thr' sn' :
  (recs' = recs s \/ exists i r r', nth_error (recs s) i = Some r /\ recs' = set_nth i r' (recs s) /\ r_cnt r' = r_cnt r /\ forall c, full c r' = full c r) ->
  (thr' = thr s \/ exists t X, thr' = set_thr s t X /\ is_claim X = false /\ is_claim (thr s t) = false) ->
  quiet_change s (mk s n' h' sh' l' recs' K' thr' sn').
Proof.
  intros Hr Ht. unfold quiet_change; cbn [recs thr mk]. split; [|split].
  - destruct Hr as [->|(i & r & r' & _ & -> & _)]; [reflexivity|apply set_nth_length].
  - intros j q Hq. destruct Hr as [->|(i & r & r' & Hi & -> & Hc & Hf)]; [exists q; auto|].
    destruct (Nat.eq_dec i j) as [->|Hne].
    + rewrite nth_error_set_nth_eq in Hq by (apply nth_error_Some; congruence). inversion Hq; subst. exists r. auto.
    + rewrite nth_error_set_nth_neq in Hq by auto. exists q. auto.
  - intros u Hu. destruct Ht as [->|(t & X & -> & HX & Ht)]; [reflexivity|]. unfold set_thr in *.
    destruct (Nat.eqb_spec u t); [subst|reflexivity]. rewrite HX, Ht in Hu. destruct Hu; discriminate.
Qed.

Lemma full_done c r k w :
  nth_error (r_ws r) k = Some w ->
  full c {| r_cnt := r_cnt r; r_ws := set_nth k (HistExec.wdone w) (r_ws r); r_pub := false; r_tgt := r_tgt r |} = full c r.
Proof.
  intros Hk. unfold full; cbn [r_ws]. rewrite (sumf_set_nth _ _ _ _ _ Hk). unfold wr_full, HistExec.wdone; cbn. lia.
Qed.

Lemma bits_vals_length bs vs : bits_vals bs = Some vs -> length vs = length bs.
Proof.
  revert vs; induction bs as [|b bs IH]; intros vs H; cbn in H.
  - inversion H; reflexivity.
  - destruct (z_of_bits b); [|discriminate]. fold (bits_vals bs) in H. destruct (bits_vals bs) as [l|]; [|discriminate].
    inversion H; subst. cbn. f_equal. auto.
Qed.

Ltac thr_side :=
  first [ left; reflexivity
        | right; do 2 eexists; split; [reflexivity|split; [reflexivity|]];
          match goal with H : thr _ ?t = _ |- is_claim (thr _ ?t) = false => rewrite H; reflexivity end ].
Ltac rec_side :=
  first [ left; reflexivity
        | right; do 3 eexists; split; [eassumption|split; [reflexivity|split; [reflexivity|]]];
          intros; first [ reflexivity | apply full_done; assumption ] ].
Ltac quiet := first [ apply quiet_refl | apply quiet_mk; [rec_side|thr_side] ].

Theorem hexec_class x e x' : hexec x e = Some x' -> hclass x e x'.
Proof.
  intros H. unfold HistExec.hexec in H. destruct e; try discriminate H.
  - (* ECall *)
    break_match H; inversion H; subst; cbn [base xmk].
    all: try (apply HC_other; [reflexivity|quiet]; fail).
    + (* observe *)
      eapply HC_call with (vs := [z]); try reflexivity; eauto.
      * cbn. match goal with E : z_of_bits _ = Some _ |- _ => rewrite E end. reflexivity.
      * apply obs_planned.
    + (* flush *)
      match goal with E : fold_right _ _ _ = Some ?l |- _ => fold (bits_vals bits) in E; rename l into vs; rename E into Ev end.
      eapply HC_call with (vs := vs); try reflexivity; eauto.
      apply batch_planned. intros ->. boolfacts. cbn in *. lia.
  - (* ERet *) break_match H; inversion H; subst; cbn [base xmk]; apply HC_other; try reflexivity; quiet.
  - (* EAt *)
    break_match H; inversion H; subst; cbn [base xmk].
    all: try (apply HC_other; [reflexivity|quiet]; fail).
    all: try (match goal with Hf : find_pending _ _ _ _ = Some _ |- _ =>
                apply find_pending_spec in Hf; destruct Hf as (jj & -> & Hn & Hd & Hc & Hp) end;
              cbn [Nat.add]; apply HC_other; [reflexivity|quiet]; fail).
    (* claim *)
    eapply HC_claim; try reflexivity; eauto.
  - (* ELock *) break_match H; inversion H; subst; cbn [base xmk]; apply HC_other; try reflexivity; quiet.
  - (* EUnlock *) break_match H; inversion H; subst; cbn [base xmk]; apply HC_other; try reflexivity; quiet.
Qed.

(* ------------------------------------------------------------------ the log invariant *)
Definition claimed (o : ost) (t : nat) : nat :=
  if is_claim (thr (base (ox o)) t) then pred (ncalls o t) else ncalls o t.

Record OInv (o : ost) : Prop := {
  O_len : length (owners o) = length (recs (base (ox o)));
  O_vlen : length (vlog o) = length (recs (base (ox o)));
  O_vals : forall i r vs, nth_error (recs (base (ox o))) i = Some r -> nth_error (vlog o) i = Some vs -> rec_of_vals bounds vs r;
  O_pend : forall t c ws, thr (base (ox o)) t = OClaim c ws -> planned_ok bounds (pend o t) c ws /\ (1 <= ncalls o t)%nat;
  O_rng : forall i t q, nth_error (owners o) i = Some (t, q) -> (1 <= q <= claimed o t)%nat;
  O_all : forall t q, (1 <= q <= claimed o t)%nat -> exists i, nth_error (owners o) i = Some (t, q);
  O_ord : forall i j t p q, nth_error (owners o) i = Some (t, p) -> nth_error (owners o) j = Some (t, q) -> (p < q)%nat -> (i < j)%nat;
  O_inj : forall i j t q, nth_error (owners o) i = Some (t, q) -> nth_error (owners o) j = Some (t, q) -> i = j
}.

Lemma oinv_init : OInv oinit.
Proof.
  constructor; cbn; auto; intros; try discriminate.
  - destruct i; discriminate.
  - destruct i; discriminate.
  - unfold claimed in *. cbn in *. lia.
  - destruct i; discriminate.
  - destruct i; discriminate.
Qed.

Lemma nth_error_snoc {A} (l : list A) a i x :
  nth_error (l ++ [a]) i = Some x -> (i < length l /\ nth_error l i = Some x)%nat \/ (i = length l /\ x = a).
Proof.
  intros H. destruct (Nat.lt_ge_cases i (length l)) as [Hl|Hl].
  - rewrite nth_error_app1 in H by auto. auto.
  - rewrite nth_error_app2 in H by auto. destruct (i - length l)%nat as [|k] eqn:E.
    + cbn in H. inversion H; subst. right. split; [lia|reflexivity].
    + cbn in H. destruct k; discriminate.
Qed.
Lemma nth_error_lt {A} (l : list A) i x : nth_error l i = Some x -> (i < length l)%nat.
Proof. intros H. apply nth_error_Some. congruence. Qed.

Theorem ostep_inv o e o' : OInv o -> ostep o e = Some o' -> OInv o'.
Proof.
  intros I H. unfold ostep in H. destruct (hexec (ox o) e) as [x'|] eqn:E; [|discriminate].
  pose proof (hexec_class _ _ _ E) as C. inversion H; subst o'; clear H.
  destruct C as [t c vs cc ws He Hv Hidle Hpl Hrecs Hthr | t cc ws Ht Hv Hcl Hrecs Hthr | Hv (Hlen & Hrq & Htq)].
  - (* an observe / flush invocation *)
    rewrite Hv. subst e. cbn [ev_tid]. rewrite Hrecs, Nat.eqb_refl. cbn [negb].
    assert (Hcl : forall u, claimed {| ox := x'; owners := owners o; vlog := vlog o; ncalls := fupd (ncalls o) t (S (ncalls o t)); pend := fupd (pend o) t vs |} u = claimed o u).
    { intros u. unfold claimed; cbn [ox ncalls]. rewrite Hthr. unfold set_thr, fupd. destruct (Nat.eqb_spec u t); [subst|reflexivity].
      rewrite Hidle. cbn. reflexivity. }
    constructor; cbn [ox owners vlog ncalls pend]; try rewrite Hrecs.
    + apply (O_len _ I).
    + apply (O_vlen _ I).
    + apply (O_vals _ I).
    + intros u c0 ws0. rewrite Hthr. unfold set_thr, fupd. destruct (Nat.eqb_spec u t).
      * intros Heq. inversion Heq; subst. split; [auto|lia].
      * apply (O_pend _ I).
    + intros i u q Hn. rewrite Hcl. eapply (O_rng _ I); eauto.
    + intros u q Hq. rewrite Hcl in Hq. apply (O_all _ I); auto.
    + apply (O_ord _ I).
    + apply (O_inj _ I).
  - (* the claim: one new ticket *)
    rewrite Hv. rewrite Ht. rewrite Hrecs, app_length. cbn [length].
    replace (Nat.eqb (length (recs (base (ox o))) + 1) (length (recs (base (ox o))))) with false
      by (symmetry; apply Nat.eqb_neq; lia). cbn [negb].
    destruct (O_pend _ I _ _ _ Hcl) as [Hpl Hn1].
    set (o1 := {| ox := x'; owners := owners o ++ [(t, ncalls o t)]; vlog := vlog o ++ [pend o t]; ncalls := ncalls o; pend := pend o |}).
    assert (Hc_t : claimed o1 t = ncalls o t /\ claimed o t = pred (ncalls o t)).
    { unfold claimed; cbn [ox ncalls o1]. rewrite Hthr, Hcl. unfold set_thr. rewrite Nat.eqb_refl. cbn. auto. }
    assert (Hc_u : forall u, u <> t -> claimed o1 u = claimed o u).
    { intros u Hu. unfold claimed; cbn [ox ncalls o1]. rewrite Hthr. unfold set_thr. destruct (Nat.eqb_spec u t); [contradiction|reflexivity]. }
    assert (Hc_le : forall u, (claimed o u <= claimed o1 u)%nat).
    { intros u. destruct (Nat.eq_dec u t) as [->|Hu]; [destruct Hc_t; lia|rewrite Hc_u; auto]. }
    constructor; cbn [ox owners vlog ncalls pend o1].
    + rewrite Hrecs, !app_length, (O_len _ I). reflexivity.
    + rewrite Hrecs, !app_length, (O_vlen _ I). reflexivity.
    + intros i r vs0 Hr Hvs. rewrite Hrecs in Hr. apply nth_error_snoc in Hr as [[Hl Hr]|[Hl Hr]].
      * rewrite nth_error_app1 in Hvs by (rewrite (O_vlen _ I); auto). eapply (O_vals _ I); eauto.
      * subst i r. rewrite <- (O_vlen _ I) in Hvs. rewrite nth_error_app2, Nat.sub_diag in Hvs by lia. cbn in Hvs. inversion Hvs; subst.
        destruct Hpl as (P1 & P2 & P3). split; [auto|]. split; [exact P2|]. intros k. unfold mkrec. rewrite full_fresh. apply P3.
    + intros u c0 ws0. rewrite Hthr. unfold set_thr. destruct (Nat.eqb_spec u t); [discriminate|]. apply (O_pend _ I).
    + intros i u q Hn. apply nth_error_snoc in Hn as [[Hl Hn]|[Hl Hn]].
      * pose proof (O_rng _ I _ _ _ Hn). pose proof (Hc_le u). lia.
      * inversion Hn; subst. destruct Hc_t. lia.
    + intros u q Hq. destruct (Nat.eq_dec u t) as [->|Hu].
      * destruct Hc_t as [C1 C2]. destruct (Nat.eq_dec q (ncalls o t)) as [->|Hq'].
        -- exists (length (owners o)). rewrite nth_error_app2, Nat.sub_diag by lia. reflexivity.
        -- destruct (O_all _ I t q ltac:(lia)) as [i Hi]. exists i. rewrite nth_error_app1; auto. eapply nth_error_lt; eauto.
      * rewrite Hc_u in Hq by auto. destruct (O_all _ I u q Hq) as [i Hi]. exists i. rewrite nth_error_app1; auto. eapply nth_error_lt; eauto.
    + intros i j u p q Hi Hj Hpq. apply nth_error_snoc in Hi as [[Li Hi]|[Li Hi]]; apply nth_error_snoc in Hj as [[Lj Hj]|[Lj Hj]].
      * eapply (O_ord _ I); eauto.
      * lia.
      * inversion Hi; subst. pose proof (O_rng _ I _ _ _ Hj). destruct Hc_t. lia.
      * inversion Hi; inversion Hj; subst. lia.
    + intros i j u q Hi Hj. apply nth_error_snoc in Hi as [[Li Hi]|[Li Hi]]; apply nth_error_snoc in Hj as [[Lj Hj]|[Lj Hj]].
      * eapply (O_inj _ I); eauto.
      * inversion Hj; subst. pose proof (O_rng _ I _ _ _ Hi). destruct Hc_t. lia.
      * inversion Hi; subst. pose proof (O_rng _ I _ _ _ Hj). destruct Hc_t. lia.
      * lia.
  - (* any other accepted event *)
    rewrite Hv, Hlen, Nat.eqb_refl. cbn [negb].
    assert (Hcl : forall u, claimed {| ox := x'; owners := owners o; vlog := vlog o; ncalls := ncalls o; pend := pend o |} u = claimed o u).
    { intros u. unfold claimed; cbn [ox ncalls]. specialize (Htq u).
      destruct (is_claim (thr (base x') u)) eqn:E1; destruct (is_claim (thr (base (ox o)) u)) eqn:E2; auto.
      - rewrite Htq in E1 by auto. congruence.
      - rewrite Htq in E1 by auto. congruence. }
    constructor; cbn [ox owners vlog ncalls pend].
    + rewrite Hlen. apply (O_len _ I).
    + rewrite Hlen. apply (O_vlen _ I).
    + intros i r' vs Hr Hvs. destruct (Hrq i r' Hr) as (r & Hr0 & Hc & Hf).
      destruct (O_vals _ I i r vs Hr0 Hvs) as (P1 & P2 & P3). split; [auto|]. split; [congruence|]. intros k. rewrite Hf. apply P3.
    + intros u c0 ws0 Hu. assert (thr (base x') u = thr (base (ox o)) u) by (apply Htq; left; rewrite Hu; reflexivity).
      apply (O_pend _ I). congruence.
    + intros i u q Hn. rewrite Hcl. eapply (O_rng _ I); eauto.
    + intros u q Hq. rewrite Hcl in Hq. apply (O_all _ I); auto.
    + apply (O_ord _ I).
    + apply (O_inj _ I).
Qed.

Theorem orun_inv es : forall o o', OInv o -> orun o es = Some o' -> OInv o'.
Proof.
  induction es as [|e es IH]; intros o o' I H; cbn in H.
  - inversion H; subst; auto.
  - destruct (ostep o e) as [o1|] eqn:E; [|discriminate]. eapply IH; [eapply ostep_inv; eauto|eauto].
Qed.

(* ------------------------------------------------------------------ consequences *)
(* program order: a ticket prefix that holds a thread's q-th observe / flush call holds all its earlier ones *)
Theorem prefix_closed_program_order o k j t q p :
  OInv o -> (j < k)%nat -> nth_error (owners o) j = Some (t, q) -> (1 <= p < q)%nat ->
  exists i, (i < k)%nat /\ nth_error (owners o) i = Some (t, p).
Proof.
  intros I Hj Hn Hp. pose proof (O_rng _ I _ _ _ Hn) as Hr.
  destruct (O_all _ I t p ltac:(lia)) as [i Hi]. exists i. split; auto.
  pose proof (O_ord _ I _ _ _ _ _ Hi Hn ltac:(lia)). lia.
Qed.

(* every ticket carries the values of one whole call *)
Lemma vals_forall2 o k : OInv o ->
  Forall2 (fun vs r => rec_of_vals bounds vs r) (firstn k (vlog o)) (firstn k (recs (base (ox o)))).
Proof.
  intros I. pose proof (O_vlen _ I) as Hl. pose proof (O_vals _ I) as Hv. revert Hl Hv.
  generalize (vlog o) (recs (base (ox o))). intros vl rs. revert vl rs.
  induction k as [|k IH]; intros vl rs Hl Hv; cbn [firstn]; [constructor|].
  destruct vl as [|vs vl], rs as [|r rs]; try discriminate; constructor.
  - apply (Hv O); reflexivity.
  - apply IH; [cbn in Hl; lia|]. intros i r0 vs0 H1 H2. apply (Hv (S i)); auto.
Qed.

Theorem prefix_summary_values o k : OInv o ->
  let vsS := concat (firstn k (vlog o)) in
  summary B (firstn k (recs (base (ox o))))
  = (Z.of_nat (length vsS), zsum vsS, map (fun j => zcount (in_bucket bounds j) vsS) (seq 0 B)).
Proof.
  intros I vsS. destruct (recs_totals bounds _ _ (vals_forall2 o k I)) as [H1 H2]. unfold summary.
  rewrite H1, (H2 O). fold vsS. f_equal. apply map_ext. intros j. rewrite (H2 (S j)). reflexivity.
Qed.

End L.
