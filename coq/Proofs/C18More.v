(* C18: a timer records exactly once, or never when discarded - statements about the timers of
   the sequential world model (World.v), built on LocalFacts.v (one step, all operations) and
   C12More.v (the world invariant, histories of one histogram core).

   In the model a timer is a slot [HTimer c] (shared: it holds the histogram) or
   [HLocalTimer c l] (local: it owns [l], a cleared clone of the local histogram it was started
   from, whose shared core is [c]).  Every way of ending a timer is the operation
   [OpTimerStop s mode secs nanos]: stop_and_record, observe_duration, stop_and_discard, or just
   dropping it; (secs, nanos) is what Instant::elapsed returns at that moment (an input of the
   scenario).  Ending a timer kills its slot: Rust's move semantics (every stop method takes
   [self]) plus the [observed] flag consulted by Drop are what makes that true of the code, and
   the correspondence check compares the histogram after every stop. *)
Require Import PV.Base.Prelude PV.Base.F64.
Require Import PV.Model.Proto PV.Model.Desc PV.Model.Value PV.Model.Hist PV.Model.Vec PV.Model.Registry PV.Model.World.
Require Import PV.Proofs.F64Facts PV.Proofs.HistFacts PV.Proofs.LocalFacts PV.Proofs.C12More PV.Proofs.C18Float.
Open Scope N_scope.

Definition stop_records (m : timer_mode) : bool := match m with TDiscard => false | _ => true end.
(* stop_and_record and stop_and_discard return the elapsed seconds, the other two nothing *)
Definition stop_returns (m : timer_mode) (e : f64) : obs := match m with TRecord | TDiscard => OF64 e | _ => OUnit end.

(* ================================================================ one stop *)
Lemma shared_timer_stop w s c m secs nanos :
  slot w s = HTimer c ->
  let e := as_secs_f64 secs nanos in
  step w (OpTimerStop s m secs nanos)
  = (put_slot (if stop_records m then set_h w (upd (w_h w) c (fun h => hc_observe h e)) else w) s HDead, stop_returns m e).
Proof. intros H. cbv zeta. unfold step. rewrite H. destruct m; reflexivity. Qed.

Lemma local_timer_stop w s c l m secs nanos :
  slot w s = HLocalTimer c l ->
  let e := as_secs_f64 secs nanos in
  step w (OpTimerStop s m secs nanos)
  = (put_slot (flush_lh w c (if stop_records m then lh_observe (bounds_of w c) l e else l)) s HDead, stop_returns m e).
Proof. intros H. cbv zeta. unfold step. rewrite H. destruct m; reflexivity. Qed.

Lemma slot_timer_ok w s : timers_clear w -> timer_ok (slot w s).
Proof.
  intros F. unfold slot. destruct (Nat.lt_ge_cases s (length (w_slots w))) as [L|L].
  - unfold timers_clear in F. rewrite Forall_forall in F. apply F. apply nth_In; auto.
  - rewrite nth_overflow by auto. exact I.
Qed.

(* a discarded timer, shared or local, changes nothing but its own slot *)
Lemma timer_discard_nothing w s secs nanos :
  timers_clear w -> (exists c, slot w s = HTimer c) \/ (exists c l, slot w s = HLocalTimer c l) ->
  step w (OpTimerStop s TDiscard secs nanos) = (put_slot w s HDead, OF64 (as_secs_f64 secs nanos)).
Proof.
  intros T [(c & H)|(c & l & H)].
  - rewrite (shared_timer_stop w s c TDiscard secs nanos H). reflexivity.
  - rewrite (local_timer_stop w s c l TDiscard secs nanos H). cbn [stop_records stop_returns].
    pose proof (slot_timer_ok w s T) as K. rewrite H in K. cbn in K. unfold lh_cleared in K.
    rewrite K, flush_lh_cleared. reflexivity.
Qed.

(* what the private histogram of a local timer hands over: one observation *)
Lemma timer_batch l bs e : lh_cleared l ->
  lh_count (lh_observe bs l e) = 1 /\ lh_sum (lh_observe bs l e) = (f_zero + e)%float.
Proof. intros K. unfold lh_cleared in K. rewrite K. cbn. split; reflexivity. Qed.

(* a recording stop of a local timer goes to the SHARED core [c]: one observation whose value is
   the private histogram's sum 0 + e; every other slot - in particular the local histogram the
   timer was started from, with whatever batch it holds - is untouched *)
Lemma local_timer_records_shared w s c l m secs nanos h :
  timers_clear w -> slot w s = HLocalTimer c l -> stop_records m = true -> nth_error (w_h w) c = Some h ->
  let e := as_secs_f64 secs nanos in
  let w' := fst (step w (OpTimerStop s m secs nanos)) in
  (exists h', nth_error (w_h w') c = Some h'
      /\ hc_sample_count h' = hc_sample_count h + 1
      /\ hc_sample_sum h' = (hc_sample_sum h + (f_zero + e))%float)
  /\ (forall c', c' <> c -> nth_error (w_h w') c' = nth_error (w_h w) c')
  /\ w_v w' = w_v w
  /\ (forall s', s' <> s -> slot w' s' = slot w s')
  /\ slot w' s = HDead.
Proof.
  intros T H R Nh. cbv zeta. rewrite (local_timer_stop w s c l m secs nanos H). rewrite R. cbn [fst].
  assert (L : (s < length (w_slots w))%nat) by (apply slot_lt; rewrite H; discriminate).
  pose proof (slot_timer_ok w s T) as K. rewrite H in K. cbn in K.
  destruct (timer_batch l (bounds_of w c) (as_secs_f64 secs nanos) K) as (C1 & S1).
  set (b := lh_observe (bounds_of w c) l (as_secs_f64 secs nanos)) in *.
  repeat split.
  - exists (hc_flush h b). split.
    + cbn. exact (nth_error_upd_eq _ _ (fun h0 => hc_flush h0 b) _ Nh).
    + change (hc_flush h b) with (apply_heff h (HBatch b)). rewrite apply_heff_count, apply_heff_sum.
      cbn [eff_count eff_addends]. rewrite C1, S1. split; reflexivity.
  - intros c' D. cbn. apply nth_error_upd_neq. auto.
  - intros s' D. rewrite slot_put_neq by auto. reflexivity.
  - apply slot_put_eq. exact L.
Qed.

(* a recording stop of a shared timer: one direct observation of e *)
Lemma shared_timer_records w s c m secs nanos h :
  slot w s = HTimer c -> stop_records m = true -> nth_error (w_h w) c = Some h ->
  let e := as_secs_f64 secs nanos in
  let w' := fst (step w (OpTimerStop s m secs nanos)) in
  nth_error (w_h w') c = Some (hc_observe h e)
  /\ (forall c', c' <> c -> nth_error (w_h w') c' = nth_error (w_h w) c')
  /\ w_v w' = w_v w
  /\ (forall s', s' <> s -> slot w' s' = slot w s')
  /\ slot w' s = HDead.
Proof.
  intros H R Nh. cbv zeta. rewrite (shared_timer_stop w s c m secs nanos H). rewrite R. cbn [fst].
  assert (L : (s < length (w_slots w))%nat) by (apply slot_lt; rewrite H; discriminate).
  repeat split.
  - cbn. exact (nth_error_upd_eq _ _ (fun h0 => hc_observe h0 (as_secs_f64 secs nanos)) _ Nh).
  - intros c' D. cbn. apply nth_error_upd_neq. auto.
  - intros s' D. rewrite slot_put_neq by auto. reflexivity.
  - apply slot_put_eq. exact L.
Qed.

(* ending a timer ends it: a second stop of any kind is refused and changes nothing *)
Lemma timer_stop_once w s m secs nanos m' secs' nanos' :
  (exists c, slot w s = HTimer c) \/ (exists c l, slot w s = HLocalTimer c l) ->
  let w' := fst (step w (OpTimerStop s m secs nanos)) in
  step w' (OpTimerStop s m' secs' nanos') = (w', OBad).
Proof.
  intros HH. cbv zeta. apply (step_dead_target _ _ s); [|reflexivity].
  destruct HH as [(c & H)|(c & l & H)].
  - assert (L : (s < length (w_slots w))%nat) by (apply slot_lt; rewrite H; discriminate).
    rewrite (shared_timer_stop w s c m secs nanos H). cbn [fst]. apply slot_put_eq. destruct (stop_records m); exact L.
  - assert (L : (s < length (w_slots w))%nat) by (apply slot_lt; rewrite H; discriminate).
    rewrite (local_timer_stop w s c l m secs nanos H). cbn [fst]. apply slot_put_eq. exact L.
Qed.

(* ================================================================ a running timer is inert *)
(* until it is stopped, no operation (flush / clear / drop of the local histogram it came from
   included) changes a timer *)
Definition no_stop (s : nat) (ops : list op) : Prop :=
  Forall (fun o => match o with OpTimerStop s' _ _ _ => s' <> s | _ => True end) ops.

Lemma shared_timer_persists w ops s c : slot w s = HTimer c -> no_stop s ops -> slot (run_world w ops) s = HTimer c.
Proof.
  revert w; induction ops as [|o r IH]; intros w H F; cbn [run_world]; auto. inversion F; subst.
  apply IH; auto. rewrite (step_timer_slot w o s c H). destruct o; auto.
  apply Nat.eqb_neq in H2. rewrite H2. reflexivity.
Qed.
Lemma local_timer_persists w ops s c l : slot w s = HLocalTimer c l -> no_stop s ops -> slot (run_world w ops) s = HLocalTimer c l.
Proof.
  revert w; induction ops as [|o r IH]; intros w H F; cbn [run_world]; auto. inversion F; subst.
  apply IH; auto. rewrite (step_local_timer_slot w o s c l H). destruct o; auto.
  apply Nat.eqb_neq in H2. rewrite H2. reflexivity.
Qed.

Lemma run_timers_clear w ops : timers_clear w -> timers_clear (run_world w ops).
Proof. revert w; induction ops as [|o r IH]; intros w T; cbn; auto. apply IH, step_timers_clear, T. Qed.
Lemma timers_clear0 : timers_clear world0.
Proof. constructor. Qed.

(* ================================================================ the closure form *)
Lemma closure_shared w s c secs nanos :
  slot w s = HHist c ->
  step w (OpClosure s secs nanos) = (set_h w (upd (w_h w) c (fun h => hc_observe h (as_secs_f64 secs nanos))), OUnit).
Proof. intros H. unfold step. rewrite H. reflexivity. Qed.
Lemma closure_local w s c l secs nanos :
  slot w s = HLocalHist c l ->
  step w (OpClosure s secs nanos) = (put_slot w s (HLocalHist c (lh_observe (bounds_of w c) l (as_secs_f64 secs nanos))), OUnit).
Proof. intros H. unfold step. rewrite H. reflexivity. Qed.

(* ================================================================ histories *)
Definition is_timer_op (o : op) : bool := match o with OpTimerStop _ _ _ _ | OpClosure _ _ _ => true | _ => false end.

(* the elapsed values that operation [o] makes timers / closures contribute to the shared core [c] *)
Definition timer_values (w : world) (o : op) (c : nat) : list f64 :=
  match o with
  | OpTimerStop s m secs nanos =>
      match slot w s with
      | HTimer c' | HLocalTimer c' _ => on_core c' c (if stop_records m then [as_secs_f64 secs nanos] else [])
      | _ => []
      end
  | OpClosure s secs nanos => match slot w s with HHist c' => on_core c' c [as_secs_f64 secs nanos] | _ => [] end
  | _ => []
  end.
(* the addends they are for the sum: a local timer's value arrives as the sum 0 + e of its private histogram *)
Definition timer_addends (w : world) (o : op) (c : nat) : list f64 :=
  match o with
  | OpTimerStop s m secs nanos =>
      match slot w s with
      | HTimer c' => on_core c' c (if stop_records m then [as_secs_f64 secs nanos] else [])
      | HLocalTimer c' _ => on_core c' c (if stop_records m then [(f_zero + as_secs_f64 secs nanos)%float] else [])
      | _ => []
      end
  | OpClosure s secs nanos => match slot w s with HHist c' => on_core c' c [as_secs_f64 secs nanos] | _ => [] end
  | _ => []
  end.

Lemma timer_op_effects w o c : timers_clear w -> is_timer_op o = true ->
  effs_count (heffects w o c) = N.of_nat (length (timer_values w o c))
  /\ effs_addends (heffects w o c) = timer_addends w o c.
Proof.
  intros T I. destruct o; try discriminate; unfold heffects, timer_values, timer_addends.
  - pose proof (slot_timer_ok w s T) as K. destruct (slot w s); try (split; reflexivity).
    + unfold on_core. destruct (Nat.eqb c0 c); [|split; reflexivity]. destruct m; split; reflexivity.
    + cbn in K. unfold on_core. destruct (Nat.eqb c0 c); [|split; reflexivity].
      destruct m; cbn [stop_records];
        try (destruct (timer_batch l (bounds_of w c0) (as_secs_f64 secs nanos) K) as (C1 & S1);
             unfold effs_count, effs_addends; cbn [map flat_map eff_count eff_addends fold_left app length]; rewrite C1, S1; split; reflexivity).
      unfold lh_cleared in K. rewrite K. split; reflexivity.
  - destruct (slot w s); try (split; reflexivity). unfold on_core. destruct (Nat.eqb c0 c); split; reflexivity.
Qed.

Fixpoint timer_values_hist (w : world) (ops : list op) (c : nat) : list f64 :=
  match ops with [] => [] | o :: r => timer_values w o c ++ timer_values_hist (fst (step w o)) r c end.
(* what everything else (direct observations, flushed / dropped / removed local batches) adds to the count *)
Fixpoint other_count (w : world) (ops : list op) (c : nat) : N :=
  match ops with
  | [] => 0
  | o :: r => (if is_timer_op o then 0 else effs_count (heffects w o c)) + other_count (fst (step w o)) r c
  end.
Fixpoint addends_hist (w : world) (ops : list op) (c : nat) : list f64 :=
  match ops with
  | [] => []
  | o :: r => (if is_timer_op o then timer_values w o c else effs_addends (heffects w o c)) ++ addends_hist (fst (step w o)) r c
  end.

(* 0 + e = e for every elapsed value e (C18Float), so a timer's addend is its value *)
Lemma timer_addends_values w o c : timer_addends w o c = timer_values w o c.
Proof.
  destruct o; try reflexivity. unfold timer_addends, timer_values. destruct (slot w s); try reflexivity.
  rewrite zero_plus_as_secs. reflexivity.
Qed.

(* every contributed value is the elapsed time handed to that stop / closure: never negative, never NaN *)
Lemma timer_values_nonneg w o c v : In v (timer_values w o c) -> PrimFloat.leb 0 v = true.
Proof.
  destruct o; try contradiction; unfold timer_values; destruct (slot w s); try contradiction; unfold on_core;
    destruct (Nat.eqb _ c); try contradiction; try (destruct (stop_records m); try contradiction);
    intros [<-|[]]; apply as_secs_nonneg.
Qed.
Lemma timer_values_hist_nonneg ops : forall w c v, In v (timer_values_hist w ops c) -> PrimFloat.leb 0 v = true.
Proof.
  induction ops as [|o r IH]; intros w c v; cbn [timer_values_hist]; [contradiction|].
  intros I. apply in_app_or in I as [I|I]; [eapply timer_values_nonneg; eauto|eapply IH; eauto].
Qed.

Lemma effs_count_app a b : effs_count (a ++ b) = effs_count a + effs_count b.
Proof. unfold effs_count. rewrite map_app, fold_left_app, fold_add_shift. reflexivity. Qed.
Lemma effs_addends_app a b : effs_addends (a ++ b) = effs_addends a ++ effs_addends b.
Proof. unfold effs_addends. apply flat_map_app. Qed.

Lemma hist_effects_split ops : forall w c, timers_clear w ->
  effs_count (heffects_hist w ops c) = other_count w ops c + N.of_nat (length (timer_values_hist w ops c))
  /\ effs_addends (heffects_hist w ops c) = addends_hist w ops c.
Proof.
  induction ops as [|o r IH]; intros w c T; cbn [heffects_hist other_count timer_values_hist addends_hist].
  - split; reflexivity.
  - destruct (IH (fst (step w o)) c (step_timers_clear w o T)) as (C & A).
    rewrite effs_count_app, effs_addends_app, C, A, app_length, Nat2N.inj_add.
    destruct (is_timer_op o) eqn:I; cbv iota.
    + destruct (timer_op_effects w o c T I) as (C1 & A1). rewrite C1, A1, timer_addends_values. split; [|reflexivity].
      generalize (N.of_nat (length (timer_values w o c))) (other_count (fst (step w o)) r c) (N.of_nat (length (timer_values_hist (fst (step w o)) r c))). intros; lia.
    + assert (E : timer_values w o c = []) by (destruct o; try reflexivity; discriminate). rewrite E. cbn [length].
      split; [|reflexivity].
      generalize (effs_count (heffects w o c)) (other_count (fst (step w o)) r c) (N.of_nat (length (timer_values_hist (fst (step w o)) r c))). intros; lia.
Qed.

(* the accounting theorem: after ANY history the count of a shared histogram is what it was, plus
   what direct observations and local batches added, plus ONE per timer ended by stop_and_record /
   observe_duration / drop and per observe_closure_duration on the shared histogram - discarded
   timers add nothing; the sum is the bit-exact fold of the corresponding addends *)
Theorem timers_exactly_once w ops c h :
  wok w -> timers_clear w -> nth_error (w_h w) c = Some h ->
  exists h', nth_error (w_h (run_world w ops)) c = Some h'
    /\ hc_sample_count h' = hc_sample_count h + other_count w ops c + N.of_nat (length (timer_values_hist w ops c))
    /\ hc_sample_sum h' = fold_left PrimFloat.add (addends_hist w ops c) (hc_sample_sum h).
Proof.
  intros W T Nh. destruct (world_hist_observables w ops c h W Nh) as (h' & N' & C & S & _).
  destruct (hist_effects_split ops w c T) as (C1 & A1).
  exists h'. split; auto. rewrite C, S, C1, A1. split; [lia|reflexivity].
Qed.
