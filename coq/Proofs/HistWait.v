(* - every validated trace is a path of the relational model (for every ordering assignment);
   - the exit of the collector's wait loop, once enabled, stays enabled until it is taken;
   - the two orderings are needed: with a publish that is not a release, or a wait exit that is
     not an acquire, the relational model reaches a snapshot that is not the summary of any ticket
     prefix (the model-level schedules reported when the regenerated ordering obligation breaks). *)
Require Import PV.Base.Prelude PV.Base.F64 PV.Model.Conc PV.Model.HistConc PV.Model.HistExec.
Require Import PV.Proofs.HistConcLemmas PV.Proofs.HistConcInv PV.Proofs.HistConcProof PV.Proofs.HistConcOwn.
Require Import PV.Proofs.HistExecSound PV.Proofs.HistExecInv PV.Proofs.HistConcThms.
From Coq Require Import ZArith Lia Bool Arith.
Open Scope Z_scope.

(* ---- validated traces are paths of the relation ---- *)
Theorem xrun_reach bounds Od es : forall x x',
  reach (length bounds) Od (base x) -> xrun bounds x es = Some x' -> reach (length bounds) Od (base x').
Proof.
  induction es as [|e es IH]; intros x x' R H; cbn in H.
  - inversion H; subst; auto.
  - destruct (hexec bounds x e) as [x1|] eqn:E; [|discriminate]. apply (IH x1); auto.
    destruct (hexec_sound bounds Od x e x1 E) as [->|S]; auto. eapply reach_step; eauto.
Qed.

Theorem validated_trace_is_model_path bounds Od es x :
  xrun bounds xinit es = Some x -> reach (length bounds) Od (base x).
Proof. apply xrun_reach. apply reach_init. Qed.

Section W.
Variable B : nat.
Variable Od : ords.
Notation Inv := (Inv B).

(* published records stay published, at the same ticket *)
Lemma step_pub_mono s s' : step B Od s s' ->
  forall i r, nth_error (recs s) i = Some r -> r_pub r = true -> exists r', nth_error (recs s') i = Some r' /\ r_pub r' = true.
Proof.
  intros H. destruct H; intros jj q Hj Hq; cbn [recs mk]; eauto.
  - (* claim *) exists q. split; auto. rewrite nth_error_app1; auto. apply nth_error_Some. congruence.
  - (* write *) destruct (Nat.eq_dec i jj) as [->|Hne].
    + congruence.
    + exists q. rewrite nth_error_set_nth_neq by auto. auto.
  - (* publish *) destruct (Nat.eq_dec i jj) as [->|Hne].
    + eexists. rewrite nth_error_set_nth_eq by (apply nth_error_Some; congruence). split; reflexivity.
    + exists q. rewrite nth_error_set_nth_neq by auto. auto.
Qed.

(* while a thread stays at the same point inside proto, nobody flips or unlocks *)
Lemma step_holder_K s s' t p : Inv s -> step B Od s s' -> thr s t = CIn p -> thr s' t = CIn p -> K s' = K s /\ hot s' = hot s.
Proof.
  intros I H Ht Ht'. pose proof (I_lock1 _ _ I _ _ Ht) as L. destruct H; cbn [K hot mk]; auto.
  - (* flip *) exfalso. match goal with E : thr s ?u = CIn CFlip |- _ => pose proof (I_lock1 _ _ I _ _ E) as L2 end.
    assert (t0 = t) by congruence. subst. cbn [thr mk] in Ht'. unfold set_thr in Ht'. rewrite Nat.eqb_refl in Ht'. congruence.
  - (* unlock *) exfalso. match goal with E : thr s ?u = CIn (CUnlock _ _ _) |- _ => pose proof (I_lock1 _ _ I _ _ E) as L2 end.
    assert (t0 = t) by congruence. subst. cbn [thr mk] in Ht'. unfold set_thr in Ht'. rewrite Nat.eqb_refl in Ht'. discriminate.
Qed.

Lemma In_firstn_nth {A} k (l : list A) x : In x (firstn k l) <-> exists i, (i < k)%nat /\ nth_error l i = Some x.
Proof.
  split.
  - intros H. apply In_nth_error in H as [i Hi]. exists i.
    assert (i < length (firstn k l))%nat by (apply nth_error_Some; congruence).
    pose proof (firstn_le_length k l). split; [lia|]. rewrite nth_error_firstn_lt in Hi by lia. auto.
  - intros (i & Hi & Hn). rewrite <- (nth_error_firstn_lt k i l Hi) in Hn. eapply nth_error_In; eauto.
Qed.

(* the wait loop can be left exactly when every observation claimed before the flip has published (any number of buckets) *)
Theorem wait_exact_B s t N :
  Inv s -> thr s t = CIn (CWait N) ->
  (cnt (sh s (negb (hot s))) = N <-> forall r, In r (firstn (K s) (recs s)) -> r_pub r = true).
Proof.
  intros I Ht. assert (Ha : active s = Some (CWait N)) by (eapply active_holder; eauto).
  pose proof (I_cold_cnt _ _ I) as Hc. unfold stg_cnt, cold in Hc. rewrite Ha in Hc. cbn in Hc.
  pose proof (I_cpc _ _ I _ Ha) as Hp. cbn in Hp. fold (old s). rewrite Hc, Hp. split.
  - intros E. apply (pub_all (old s)); auto. intros r Hr. apply In_firstn in Hr. destruct (I_wf _ _ I r Hr); auto.
  - intros Hall. unfold oldP. apply sumf_ext. intros r Hr. unfold pubcnt. rewrite (Hall r Hr). reflexivity.
Qed.

Theorem wait_exit_stable s s' t N :
  Inv s -> Inv s' -> step B Od s s' -> thr s t = CIn (CWait N) -> thr s' t = CIn (CWait N) ->
  cnt (sh s (negb (hot s))) = N -> cnt (sh s' (negb (hot s'))) = N.
Proof.
  intros I I' H Ht Ht' Hc.
  pose proof (proj1 (wait_exact_B s t N I Ht) Hc) as Hall. clear Hc. rename Hall into Hc. apply (proj2 (wait_exact_B s' t N I' Ht')).
  destruct (step_holder_K _ _ _ _ I H Ht Ht') as [HK _]. rewrite HK.
  intros r' Hr'. apply In_firstn_nth in Hr' as (i & Hi & Hn).
  pose proof (I_Kle _ _ I) as Hle.
  destruct (nth_error (recs s) i) as [r|] eqn:Er; [|apply nth_error_None in Er; lia].
  assert (Hp : r_pub r = true) by (apply Hc; apply In_firstn_nth; eauto).
  destruct (step_pub_mono _ _ H _ _ Er Hp) as (r'' & Hn' & Hp'). congruence.
Qed.

End W.

(* ---- necessity of the two orderings ---- *)
Lemma reach_step' B Od s : reach B Od s -> forall s', step B Od s s' -> reach B Od s'.
Proof. intros R s' S. eapply reach_step; eauto. Qed.

Definition od_no_release : ords := {| pub_release := false; wait_acquire := true |}.
Definition od_no_acquire : ords := {| pub_release := true; wait_acquire := false |}.

(* one forward step; the successor state is normalised at once so that the state terms stay small *)
Ltac fwd R tac :=
  match type of R with
  | reach ?B ?Od ?s =>
      let St := fresh "St" in
      eassert (St : step B Od s _) by tac;
      match type of St with
      | step _ _ _ ?s' =>
          let s'' := eval vm_compute in s' in
          let R' := fresh "R" in
          assert (R' : reach B Od s'') by (exact (reach_step' _ _ _ R _ St));
          clear R St; rename R' into R
      end
  end.

(* t0 observes 5 (no bucket); its publish overtakes the sum update; t1 collects in between *)
Theorem release_needed :
  exists s k res, reach 0 od_no_release s /\ In (k, res) (snaps s) /\ res <> summary 0 (firstn k (recs s)).
Proof.
  pose proof (reach_init 0 od_no_release) as R.
  fwd R ltac:(apply (S_invoke_obs 0 od_no_release _ 0%nat 1 [(O, 5)]); [reflexivity|lia]).
  fwd R ltac:(apply (S_claim 0 od_no_release _ 0%nat 1 [(O, 5)]); [reflexivity|lia|repeat constructor]).
  fwd R ltac:(eapply (S_publish 0 od_no_release _ 0%nat 0%nat); [reflexivity|reflexivity|reflexivity|right; reflexivity]).
  fwd R ltac:(apply (S_invoke_collect 0 od_no_release _ 1%nat); reflexivity).
  fwd R ltac:(apply (S_lock 0 od_no_release _ 1%nat); reflexivity).
  fwd R ltac:(apply (S_flip 0 od_no_release _ 1%nat); reflexivity).
  fwd R ltac:(eapply (S_wait_ok 0 od_no_release _ 1%nat); [reflexivity|left; reflexivity]).
  fwd R ltac:(eapply (S_swapsum 0 od_no_release _ 1%nat); reflexivity).
  fwd R ltac:(eapply (S_addcnt 0 od_no_release _ 1%nat); reflexivity).
  fwd R ltac:(eapply (S_addsum 0 od_no_release _ 1%nat); reflexivity).
  fwd R ltac:(eapply (S_unlock 0 od_no_release _ 1%nat); reflexivity).
  match type of R with reach _ _ ?s => exists s end. exists 1%nat, (1, 0, []).
  split; [exact R|]. split; [left; reflexivity|]. vm_compute. discriminate.
Qed.

(* t0 claims a ticket for 5 and stops; t1 flips and leaves the wait loop although the cold count is still 0 *)
Theorem acquire_needed :
  exists s k res, reach 0 od_no_acquire s /\ In (k, res) (snaps s) /\ res <> summary 0 (firstn k (recs s)).
Proof.
  pose proof (reach_init 0 od_no_acquire) as R.
  fwd R ltac:(apply (S_invoke_obs 0 od_no_acquire _ 0%nat 1 [(O, 5)]); [reflexivity|lia]).
  fwd R ltac:(apply (S_claim 0 od_no_acquire _ 0%nat 1 [(O, 5)]); [reflexivity|lia|repeat constructor]).
  fwd R ltac:(apply (S_invoke_collect 0 od_no_acquire _ 1%nat); reflexivity).
  fwd R ltac:(apply (S_lock 0 od_no_acquire _ 1%nat); reflexivity).
  fwd R ltac:(apply (S_flip 0 od_no_acquire _ 1%nat); reflexivity).
  fwd R ltac:(eapply (S_wait_ok 0 od_no_acquire _ 1%nat); [reflexivity|right; reflexivity]).
  fwd R ltac:(eapply (S_swapsum 0 od_no_acquire _ 1%nat); reflexivity).
  fwd R ltac:(eapply (S_addcnt 0 od_no_acquire _ 1%nat); reflexivity).
  fwd R ltac:(eapply (S_addsum 0 od_no_acquire _ 1%nat); reflexivity).
  fwd R ltac:(eapply (S_unlock 0 od_no_acquire _ 1%nat); reflexivity).
  match type of R with reach _ _ ?s => exists s end. exists 1%nat, (1, 0, []).
  split; [exact R|]. split; [left; reflexivity|]. vm_compute. discriminate.
Qed.
