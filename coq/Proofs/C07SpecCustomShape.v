(* [fork of Proofs/C07SpecShape.v that allows custom collectors exposing no families]
   Layer B3 of the C07/C14 spec proofs: the families collected from the collectors of one
   registry of a world satisfying the invariant have the shape [lib_shape] (Proofs/C07SpecGather.v). *)
Require Import PV.Base.Prelude PV.Base.Utf8 PV.Base.Fnv PV.Base.F64 PV.Base.StrFacts PV.Base.SortFacts.
Require Import PV.Model.Proto PV.Model.Desc PV.Model.Value PV.Model.Hist PV.Model.Vec PV.Model.Registry PV.Model.World.
Require Import PV.Proofs.DescFacts PV.Proofs.GatherFacts PV.Proofs.C07SpecGather PV.Proofs.C07SpecLabels PV.Proofs.C07SpecHist
               PV.Proofs.C07SpecCustomWorld.
From Coq Require Import Permutation Sorting.Sorted.
Open Scope N_scope.

Definition sample_ok (d : Desc) (t : MetricType) (m : Metric) : Prop := labelled d (m_label m) /\ payload_matches t m = true.
Definition samples_ok (d : Desc) (t : MetricType) (ms : list Metric) : Prop :=
  Forall (sample_ok d t) ms /\ NoDup (map label_values ms).

Lemma nth_map_some {A B} (f : A -> B) l i x : nth_error l i = Some x -> nth_error (map f l) i = Some (f x).
Proof. apply map_nth_error. Qed.
Lemma nth_map_inv {A B} (f : A -> B) l i y : nth_error (map f l) i = Some y -> exists x, nth_error l i = Some x /\ y = f x.
Proof.
  revert i; induction l as [|a l IH]; intros i; destruct i; cbn; try discriminate.
  - intros H. inversion H. eauto.
  - apply IH.
Qed.

Lemma value_metric_ok vc : sample_ok (vc_desc vc) (valtype_mtype (vc_type vc)) (value_metric vc) <-> labelled (vc_desc vc) (vc_labels vc).
Proof. unfold sample_ok, value_metric. destruct (vc_type vc); cbn; split; intros; tauto. Qed.

(* the children of a vector *)
Definition child_rel (d : Desc) (t : MetricType) (hc : N * nat) (m : Metric) : Prop :=
  exists vals, length vals = length (d_vars d) /\ fst hc = fnv1a (label_values_preimage vals) /\ m_label m = lpairs d vals
               /\ payload_matches t m = true.
Lemma children_rel w v : forall cs ms, Forall (child_ok (sigs_of w) v) cs -> children_out w (v_kind v) cs = Some ms ->
  Forall2 (child_rel (v_desc v) (veckind_mtype (v_kind v))) cs ms.
Proof.
  induction cs as [|[h c] r IH]; intros ms F; cbn [children_out].
  - intros H. inversion H. constructor.
  - inversion F as [|? ? Hc Fr]; subst.
    destruct (child_metric w (v_kind v) c) as [m|] eqn:Em; [|discriminate].
    destruct (children_out w (v_kind v) r) as [ms'|] eqn:Er; [|discriminate]. intros H. inversion H; subst.
    constructor; [|apply IH; auto]. destruct Hc as (vals & L & Eh & Hk). exists vals. split; [exact L|]. split; [exact Eh|].
    cbn [snd] in Hk. destruct (v_kind v) as [t k|bs]; cbn [child_metric veckind_mtype] in *.
    + cbn [sigs_of VS] in Hk. apply nth_map_inv in Hk as (vc & Ev & Es). unfold vmetric_at in Em. rewrite Ev in Em. inversion Em; subst m.
      unfold vsig in Es. inversion Es as [[E1 E2 E3]]. unfold value_metric. rewrite <- E2. destruct t; cbn; rewrite <- E3; auto.
    + cbn [sigs_of HS] in Hk. apply nth_map_inv in Hk as (hh & Ev & Es). unfold hmetric_at in Em. rewrite Ev in Em.
      unfold hsnap in Em. destruct (hist_metric hh) as [[m' h']|] eqn:Eh'; [|discriminate]. inversion Em; subst m'.
      destruct (hist_metric_labels _ _ _ Eh') as (A & B1 & B2 & B3 & B4 & (p & B5) & B6).
      unfold hsig in Es. inversion Es as [[E1 E2]]. split; [congruence|].
      unfold payload_matches, payload_flags. rewrite B1, B2, B3, B4, B5. reflexivity.
Qed.
Lemma children_samples_ok d t cs ms : dwf d -> Forall2 (child_rel d t) cs ms -> NoDup (map fst cs) -> samples_ok d t ms.
Proof.
  intros W F. induction F as [|hc m cs ms (vals & L & Eh & El & Ep) F IH]; intros ND.
  - split; constructor.
  - cbn [map] in ND. inversion ND as [|? ? Nh ND']; subst. destruct (IH ND') as [A B]. split.
    + constructor; auto. split; auto. exists vals. auto.
    + cbn [map]. constructor; auto. intros Hin. apply in_map_iff in Hin as (m' & Ev & Hm').
      apply Nh. clear -F Hm' Ev W L Eh El.
      induction F as [|hc' m2 cs ms (vals' & L' & Eh' & El' & _) F IH]; [destruct Hm'|]. destruct Hm' as [->|Hm'].
      * left. rewrite Eh, Eh'. f_equal. f_equal. symmetry. apply (lpairs_values_inj d vals vals'); auto.
        unfold label_values in Ev. rewrite El, El' in Ev. auto.
      * right. apply IH; auto.
Qed.

Lemma cout_shape w c fs : WI w -> clibS (sigs_of w) c -> cout w c = Some fs ->
  let d := cdescS (sigs_of w) c in let t := ctypeS (sigs_of w) c in
  dwf d /\ exists ms, fs = [mkMF (d_fq_name d) (d_help d) t ms] /\ samples_ok d t ms.
Proof.
  intros W L. destruct c as [i|i|vi|ds fams|d v]; cbn [cout cdescS ctypeS clibS sigs_of VS HS CS] in *.
  - destruct (nth_error (w_v w) i) as [vc|] eqn:E; [|discriminate]. intros H. inversion H; subst fs. clear H.
    rewrite (nth_map_some vsig _ _ _ E). unfold vsig. cbv zeta.
    pose proof (wi_v _ W) as Wv. rewrite Forall_forall in Wv. destruct (Wv vc (nth_error_In _ _ E)) as [D Lb].
    split; auto. exists [value_metric vc]. split; [reflexivity|]. split; [|repeat constructor; auto].
    constructor; auto. apply value_metric_ok. exact Lb.
  - destruct (nth_error (w_h w) i) as [h|] eqn:E; [|discriminate]. unfold hsnap.
    destruct (hist_metric h) as [[m h']|] eqn:Eh; [|discriminate]. intros H. inversion H; subst fs. clear H.
    rewrite (nth_map_some hsig _ _ _ E). unfold hsig. cbv zeta.
    pose proof (wi_h _ W) as Wh. rewrite Forall_forall in Wh. destruct (Wh h (nth_error_In _ _ E)) as (D & Lb & _).
    split; auto. exists [m]. split; [reflexivity|]. split; [|repeat constructor; auto].
    constructor; auto. destruct (hist_metric_labels _ _ _ Eh) as (A & B1 & B2 & B3 & B4 & (p & B5) & B6). split; [rewrite A; exact Lb|].
    unfold payload_matches, payload_flags. rewrite B1, B2, B3, B4, B5. reflexivity.
  - destruct (nth_error (w_vec w) vi) as [v|] eqn:E; [|discriminate].
    destruct (children_out w (v_kind v) (v_children v)) as [ms|] eqn:Ec; [|discriminate]. intros H. inversion H; subst fs. clear H.
    rewrite (nth_map_some vecsig _ _ _ E). unfold vecsig. cbv zeta.
    pose proof (wi_vec _ W) as Wc. rewrite Forall_forall in Wc. destruct (Wc v (nth_error_In _ _ E)) as (D & _ & ND & Fc).
    split; auto. exists ms. split; [reflexivity|]. eapply children_samples_ok; eauto. eapply children_rel; eauto.
  - destruct L.
  - intros H. inversion H; subst fs. clear H. cbv zeta. destruct L as (D & Ev & Ec). split; auto. eexists. split; [reflexivity|].
    split; [|repeat constructor; auto]. constructor; auto. split; [|reflexivity]. exists []. split; [rewrite Ev; reflexivity|].
    cbn [m_label]. unfold lpairs. rewrite Ev, Ec. reflexivity.
Qed.

(* ---------- one registry ---------- *)
Definition types_agree (S : sigs) (cs : list (N * collector)) : Prop :=
  forall a b, In a cs -> In b cs -> clibS S (snd a) -> clibS S (snd b) ->
              d_fq_name (cdescS S (snd a)) = d_fq_name (cdescS S (snd b)) -> ctypeS S (snd a) = ctypeS S (snd b).

Section Reg.
  Variable w : world.
  Hypothesis W : WI w.
  Let S := sigs_of w.
  Definition origin (kc : N * collector) (f : MetricFamily) : Prop :=
    let d := cdescS S (snd kc) in let t := ctypeS S (snd kc) in
    clibS S (snd kc) /\ dwf d /\ exists ms, f = mkMF (d_fq_name d) (d_help d) t ms /\ samples_ok d t ms.
  Lemma cout_list_origin kc f : clibS S (snd kc) -> In f (cout_list w (snd kc)) -> origin kc f.
  Proof.
    intros L. unfold cout_list. destruct (cout w (snd kc)) as [fs|] eqn:E; [|intros []].
    destruct (cout_shape w (snd kc) fs W L E) as (D & ms & -> & Hs). intros [<-|[]]. split; auto. split; auto. exists ms. auto.
  Qed.
  Lemma cempty_out c : cempty c -> cout_list w c = [].
  Proof. destruct c as [| | |ds [|f fs]|]; cbn; tauto. Qed.
  Lemma ckeyG_lib c : clibS S c -> ckeyG S c = ckeyS S c.
  Proof. destruct c; cbn; tauto. Qed.
  Lemma couts_origin cs f : Forall (fun kc => cokS S (snd kc) /\ fst kc = ckeyG S (snd kc)) cs -> In f (couts w cs) ->
    exists kc, In kc cs /\ origin kc f.
  Proof.
    intros F H. unfold couts in H. apply in_flat_map in H as (kc & Hkc & Hf). exists kc. split; auto.
    rewrite Forall_forall in F. destruct (F kc Hkc) as [[L|L] _]; [apply cout_list_origin; auto|].
    rewrite (cempty_out _ L) in Hf. destruct Hf.
  Qed.
  Lemma metrics_of_app n a b : metrics_of n (a ++ b) = metrics_of n a ++ metrics_of n b.
  Proof. unfold metrics_of, fams_of. rewrite filter_app, map_app, concat_app. reflexivity. Qed.

  Lemma origin_sample kc f n m : origin kc f -> mf_name f = n -> In m (mf_metric f) ->
    d_fq_name (cdescS S (snd kc)) = n /\ dwf (cdescS S (snd kc)) /\ labelled (cdescS S (snd kc)) (m_label m).
  Proof.
    intros (_ & D & ms & -> & (Fm & _)) En Hm. cbn in *. split; auto. split; auto. rewrite Forall_forall in Fm. apply (Fm m Hm).
  Qed.

  Lemma reg_distinct cs : Forall (fun kc => cokS S (snd kc) /\ fst kc = ckeyG S (snd kc)) cs -> NoDup (map fst cs) ->
    ForallOrdPairs (compat_rel2 S) cs -> forall n, NoDup (map label_values (metrics_of n (couts w cs))).
  Proof.
    intros F; induction F as [|kc r [L K] F IH]; intros ND FO n; [constructor|].
    cbn [map] in ND. inversion ND as [|? ? Nk ND']; subst. inversion FO as [|? ? Hk FO']; subst.
    unfold couts. cbn [flat_map]. fold (couts w r).
    destruct L as [L|L]; [|rewrite (cempty_out _ L); cbn [app]; apply IH; auto].
    rewrite (ckeyG_lib _ L) in K.
    rewrite metrics_of_app, map_app. apply NoDup_app_intro.
    - unfold cout_list. destruct (cout w (snd kc)) as [fs|] eqn:E; [|constructor].
      destruct (cout_shape w (snd kc) fs W L E) as (D & ms & -> & (_ & Hs)).
      unfold metrics_of, fams_of. cbn [filter]. destruct (sel n _); cbn [map concat]; [|constructor]. rewrite app_nil_r. exact Hs.
    - apply IH; auto.
    - intros v Hv2 Hv1. apply in_map_iff in Hv1 as (m1 & E1 & Hm1). apply in_map_iff in Hv2 as (m2 & E2 & Hm2).
      apply metrics_of_In in Hm1 as (f1 & Hf1 & En1 & Hin1). apply metrics_of_In in Hm2 as (f2 & Hf2 & En2 & Hin2).
      pose proof (cout_list_origin kc f1 L Hf1) as O1.
      destruct (couts_origin r f2 F Hf2) as (kc2 & Hkc2 & O2).
      destruct (origin_sample _ _ _ _ O1 En1 Hin1) as (N1 & D1 & (vals1 & L1 & Lb1)).
      destruct (origin_sample _ _ _ _ O2 En2 Hin2) as (N2 & D2 & (vals2 & L2 & Lb2)).
      rewrite Forall_forall in Hk. specialize (Hk kc2 Hkc2 L (proj1 O2)). unfold compat_rel in Hk.
      assert (C : desc_compat (cdescS S (snd kc)) (cdescS S (snd kc2)) = true) by (apply Hk; congruence).
      assert (Eid : d_id (cdescS S (snd kc)) = d_id (cdescS S (snd kc2))).
      { apply (compat_same_values_same_id _ _ vals1 vals2); auto; [congruence|]. rewrite <- Lb1, <- Lb2. unfold label_values in *. congruence. }
      apply Nk. rewrite Forall_forall in F. destruct (F kc2 Hkc2) as [_ K2]. rewrite (ckeyG_lib _ (proj1 O2)) in K2.
      replace (fst kc) with (fst kc2); [apply in_map; exact Hkc2|]. rewrite K, K2. unfold ckeyS, collector_id. cbn. rewrite Eid. reflexivity.
  Qed.

  Lemma compat_any cs a b : ForallOrdPairs (compat_rel2 S) cs -> In a cs -> In b cs -> clibS S (snd a) -> clibS S (snd b) ->
    d_fq_name (cdescS S (snd a)) = d_fq_name (cdescS S (snd b)) -> desc_compat (cdescS S (snd a)) (cdescS S (snd b)) = true.
  Proof.
    intros FO Ha Hb La Lb E. destruct (ForallOrdPairs_In FO a b Ha Hb) as [->|[H|H]].
    - apply desc_compat_refl.
    - apply H; auto.
    - apply desc_compat_sym. apply H; auto.
  Qed.

  Theorem reg_shape rc : regwf S rc ->
    lib_shape (couts w (r_collectors rc)) /\ payloads_ok (couts w (r_collectors rc))
    /\ (types_agree S (r_collectors rc) -> agree_type (couts w (r_collectors rc))).
  Proof.
    intros (F & ND & FO). set (cs := r_collectors rc) in *. split; [split|split].
    - apply reg_distinct; auto.
    - intros n m1 m2 H1 H2.
      apply metrics_of_In in H1 as (f1 & Hf1 & En1 & Hin1). apply metrics_of_In in H2 as (f2 & Hf2 & En2 & Hin2).
      destruct (couts_origin cs f1 F Hf1) as (k1 & Hk1 & O1). destruct (couts_origin cs f2 F Hf2) as (k2 & Hk2 & O2).
      destruct (origin_sample _ _ _ _ O1 En1 Hin1) as (N1 & D1 & (vals1 & L1 & Lb1)).
      destruct (origin_sample _ _ _ _ O2 En2 Hin2) as (N2 & D2 & (vals2 & L2 & Lb2)).
      rewrite Lb1, Lb2. apply compat_label_count; auto. apply (compat_any cs); auto; [apply O1|apply O2|congruence].
    - intros f g Hf Hg _ _ En.
      destruct (couts_origin cs f F Hf) as (k1 & Hk1 & (Lc1 & D1 & ms1 & -> & _)). destruct (couts_origin cs g F Hg) as (k2 & Hk2 & (Lc2 & D2 & ms2 & -> & _)).
      cbn in *. assert (C : desc_compat (cdescS S (snd k1)) (cdescS S (snd k2)) = true) by (apply (compat_any cs); auto).
      apply desc_compat_spec in C. tauto.
    - intros f Hf m Hm. destruct (couts_origin cs f F Hf) as (k1 & Hk1 & (Lc1 & D1 & ms1 & -> & (Fm & _))). cbn in *.
      rewrite Forall_forall in Fm. apply (Fm m Hm).
    - intros T f g Hf Hg _ _ En.
      destruct (couts_origin cs f F Hf) as (k1 & Hk1 & (Lc1 & D1 & ms1 & -> & _)). destruct (couts_origin cs g F Hg) as (k2 & Hk2 & (Lc2 & D2 & ms2 & -> & _)).
      cbn in *. apply T; auto.
  Qed.
End Reg.
