(* C06, concurrent part, 7: one call at a time, the sequential registry of the model (Model/Registry.v, hashes) and the
   abstract registry of the spec (Spec/SpecC06.v, structural) give the same answers - under the executable no-collision
   hypothesis [no_collision_tbl] on the scenario's collector table (ids / dimension hashes / collector ids exact on the
   descriptors in play: Proofs/C06More.v) and for tables whose constant-label lists have distinct keys ([consts_ok]).
   [SR x a]: the spec's registry x and the model's tables a describe the same registry (through the abstract registry of
   Proofs/C06Facts.v: reg_abs / areg_rel).  [sr_step]: every call the model answers with r is explained by [apply_call] on x
   with the same r, and SR is kept.  Reuses register_refines / unregister_refines (C06Facts) and expected_corr /
   expected_is_spec_register / registered_corr (C06Spec). *)
Require Import PV.Base.Prelude PV.Base.StrFacts PV.Base.F64.
Require Import PV.Proofs.C06Facts PV.Proofs.C06More PV.Proofs.C06Spec PV.Proofs.GatherFacts.
Require Import PV.Model.Proto PV.Model.Desc PV.Model.Value PV.Model.Registry PV.Model.World PV.Model.Conc PV.Model.RegConc.
Require Import PV.Spec.SpecC06 PV.Spec.SpecC06Conc PV.Proofs.RegConcView.
From Coq Require Import Arith Lia Permutation.
Open Scope N_scope.

(* ------------------------------------------------------------------ the executable hypotheses *)
Definition consts_ok (cs : list (list sdesc)) : bool :=
  forallb (forallb (fun d : sdesc => nodup_str (map fst (sd_consts d)))) cs.
Definition no_collision_tbl (cs : list (list sdesc)) : bool :=
  match build_ctable cs with
  | Some ct => ids_exact_list_b (concat ct) && dims_exact_list_b (concat ct) && cids_exact_list_b ct
  | None => false
  end.

(* ------------------------------------------------------------------ the table as built *)
Lemma all_some_F2 {A B} (f : A -> option B) l : forall l', all_some (map f l) = Some l' -> Forall2 (fun a b => f a = Some b) l l'.
Proof.
  induction l as [|a l IH]; cbn [map all_some]; intros l' H; [inversion H; constructor|].
  destruct (f a) as [b|] eqn:E; [|discriminate]. destruct (all_some (map f l)) as [r|]; [|discriminate]. inversion H; subst. constructor; auto.
Qed.
Lemma F2_nth {A B} (R : A -> B -> Prop) l l' d d' i : Forall2 R l l' -> R d d' -> R (nth i l d) (nth i l' d').
Proof. intros F Hd. revert i. induction F; intros [|i]; cbn; auto. Qed.
Lemma F2_impl_in {A B} (R R' : A -> B -> Prop) l l' : Forall2 R l l' -> (forall a b, In a l -> R a b -> R' a b) -> Forall2 R' l l'.
Proof. induction 1; constructor; auto. - apply H1; [left|]; auto. - apply IHForall2. intros; apply H1; [right|]; auto. Qed.
Lemma F2_filter_in {A B} (R : A -> B -> Prop) (f : A -> bool) (g : B -> bool) l l' :
  Forall2 R l l' -> (forall a b, In b l' -> R a b -> f a = g b) -> Forall2 R (filter f l) (filter g l').
Proof.
  intros F H. induction F; cbn; auto. rewrite (H x y (or_introl eq_refl) H0).
  destruct (g y); [constructor|]; auto; apply IHF; intros; apply H; auto; right; auto.
Qed.

Lemma build_desc_srel (d : sdesc) D : nodup_str (map fst (sd_consts d)) = true -> build_desc d = Some D -> srel d D.
Proof.
  destruct d as [[[fq h] vs] c]. cbn [sd_consts build_desc]. intros Hn H. unfold srel. cbn [sd_fq sd_help sd_vars sd_consts].
  rewrite amap_of_id; auto. apply nodup_str_NoDup. exact Hn.
Qed.
Lemma tbl_rel cs ct : consts_ok cs = true -> build_ctable cs = Some ct -> Forall2 rel cs ct.
Proof.
  unfold consts_ok, build_ctable. intros Hc H. apply all_some_F2 in H. rewrite forallb_forall in Hc.
  eapply F2_impl_in; [exact H|]. intros c Ds Hin E. cbn beta in E. apply all_some_F2 in E.
  specialize (Hc c Hin). rewrite forallb_forall in Hc. unfold rel.
  eapply F2_impl_in; [exact E|]. intros d D Hd Ed. apply build_desc_srel; auto.
Qed.

(* ------------------------------------------------------------------ the model's tables with World.v's collector tags *)
Definition tag (kc : N * nat) : N * collector := (fst kc, CValue (snd kc)).
Definition tabc (a : table) : regcore collector :=
  mkReg (map tag (r_collectors a)) (r_dim_hashes a) (r_desc_ids a) (r_labels a) (r_prefix a).
Definition rmapc (v : result table) : result (regcore collector) := match v with Ok a => Ok (tabc a) | Err e => Err e end.

Lemma tabc_check a ds : forall seen cid staged, reg_check_descs (tabc a) ds seen cid staged = reg_check_descs a ds seen cid staged.
Proof. induction ds as [|d ds IH]; intros; cbn [reg_check_descs tabc r_desc_ids r_labels r_dim_hashes]; auto. rewrite IH. reflexivity. Qed.
Lemma nlookup_tag k l : nlookup k (map tag l) = option_map CValue (nlookup k l).
Proof. induction l as [|[k' v] l IH]; cbn; auto. destruct (k =? k'); auto. Qed.
Lemma nremove_tag k l : nremove k (map tag l) = map tag (nremove k l).
Proof. induction l as [|[k' v] l IH]; cbn; auto. destruct (k =? k'); cbn; rewrite IH; auto. Qed.
Lemma tabc_register a ds i : reg_register (tabc a) ds (CValue i) = rmapc (reg_register a ds i).
Proof.
  unfold reg_register. rewrite tabc_check. destruct (reg_check_descs a ds [] 0 []) as [[[seen cid] staged]|e]; [|reflexivity].
  cbn [tabc r_collectors]. rewrite nlookup_tag. destruct (nlookup cid (r_collectors a)); cbn [option_map rmapc]; [reflexivity|].
  unfold tabc. cbn. rewrite map_app. reflexivity.
Qed.
Lemma tabc_unregister a ds : reg_unregister (tabc a) ds = rmapc (reg_unregister a ds).
Proof.
  unfold reg_unregister. cbn [tabc r_collectors]. rewrite nlookup_tag. destruct (nlookup _ (r_collectors a)); cbn [option_map rmapc]; [|reflexivity].
  unfold tabc. cbn. rewrite nremove_tag. reflexivity.
Qed.
Lemma register_frame (a a' : table) ds i : reg_register a ds i = Ok a' -> r_labels a' = r_labels a /\ r_prefix a' = r_prefix a.
Proof.
  unfold reg_register. destruct (reg_check_descs a ds [] 0 []) as [[[seen cid] staged]|e]; [|discriminate].
  destruct (nlookup cid (r_collectors a)); [discriminate|]. intros H; inversion H; auto.
Qed.
Lemma unregister_frame (a a' : table) ds : reg_unregister a ds = Ok a' -> r_labels a' = r_labels a /\ r_prefix a' = r_prefix a.
Proof. unfold reg_unregister. destruct (nlookup _ (r_collectors a)); [|discriminate]. intros H; inversion H; auto. Qed.

Section Seq.
Variables (cs : list (list sdesc)) (ct : ctable).
Hypothesis Hb : build_ctable cs = Some ct.
Hypothesis Hc : consts_ok cs = true.
Hypothesis NC : no_collision_tbl cs = true.

Let P (d : Desc) : Prop := In d (concat ct).
Let CP (ds : list Desc) : Prop := In ds ct.
Lemma q_CP_P ds d : CP ds -> In d ds -> P d.
Proof. intros H Hd. apply in_concat. eauto. Qed.
Lemma q_Hids : ids_exact_on P.
Proof. unfold no_collision_tbl in NC. rewrite Hb, !andb_true_iff in NC. apply ids_exact_on_list. tauto. Qed.
Lemma q_Hdims : dims_exact_on P.
Proof. unfold no_collision_tbl in NC. rewrite Hb, !andb_true_iff in NC. apply dims_exact_on_list. tauto. Qed.
Lemma q_Hcids : cids_exact_on CP.
Proof. unfold no_collision_tbl in NC. rewrite Hb, !andb_true_iff in NC. apply cids_exact_on_list. tauto. Qed.

Lemma q_len : length cs = length ct.
Proof. apply (F2_length rel). apply tbl_rel; auto. Qed.
Lemma q_rel i : rel (cdescs cs i) (descs_of ct i).
Proof. unfold cdescs, descs_of. apply F2_nth; [apply tbl_rel; auto | constructor]. Qed.
Lemma q_CP i : (i < length ct)%nat -> CP (descs_of ct i).
Proof. intros H. unfold CP, descs_of. apply nth_In. exact H. Qed.

(* the spec's registry x and the model's tables a are the same registry *)
Definition SR (x : areg) (a : table) : Prop :=
  exists st : sstate collector,
    reg_abs st (tabc a) /\ st_in P CP st /\ areg_rel x st
    /\ Forall (fun e => exists i, snd e = CValue i /\ fst e = descs_of ct i) (s_cur st)
    /\ r_labels a = None /\ r_prefix a = None /\ ar_labels x = None.

Lemma sr_init : SR areg0 qinit.
Proof.
  exists s_empty. split; [apply reg_abs_empty|]. split; [split; intros ? []|]. split; [split; constructor|].
  split; [constructor|]. auto.
Qed.

(* the names gather lists, on both sides *)
Lemma sr_names x a : SR x a ->
  flat_map (fun e => map sd_fq (snd e)) (ar_cur x) = map mf_name (flat_map (fun kc => RegConc.fams_of ct (snd kc)) (r_collectors a)).
Proof.
  intros (st & A & _ & [Hcur _] & Htags & _). pose proof (abs_coll st (tabc a) A) as Ec. cbn [tabc r_collectors] in Ec.
  revert Hcur Htags Ec. generalize (ar_cur x) (s_cur st) (r_collectors a). intros cx. induction cx as [|e cx IH]; intros cst ca Hcur Htags Ec.
  - inversion Hcur; subst. destruct ca; [reflexivity|discriminate].
  - inversion Hcur as [|? f ? cst' [Htag Hrel] Hcur']; subst. destruct ca as [|[k i] ca]; [discriminate|].
    cbn [map] in Ec. inversion Ec as [[Ek Ei Er]]. inversion Htags as [|? ? (j & Hj & Hd) Htags']; subst.
    cbn [flat_map]. rewrite map_app. f_equal; [|apply (IH cst' ca); auto].
    cbn [snd]. unfold entry_key in Ei. cbn [snd] in Ei. rewrite Hj in Ei. inversion Ei; subst j.
    unfold RegConc.fams_of. rewrite map_map. cbn [mf_name]. rewrite <- Hd.
    clear - Hrel. induction Hrel as [|sd D]; cbn; auto. f_equal; auto. destruct (srel_fields _ _ H) as (E & _). auto.
Qed.

Lemma sr_gather x a : SR x a -> view_matches (gather_view ct a) (expected_view x) = true.
Proof.
  intros H. pose proof (sr_names x a H) as En. destruct H as (st & _ & _ & _ & _ & Hl & Hp & _).
  unfold gather_view, expected_view. rewrite Hl, Hp, En. fold (tally (map mf_name (flat_map (fun kc => RegConc.fams_of ct (snd kc)) (r_collectors a)))).
  change (map (fun mf => (mf_name mf, N.of_nat (length (mf_metric mf))))) with fam_view.
  rewrite gathered_view. apply merged_view_matches.
  apply Forall_forall. intros mf Hmf. apply in_flat_map in Hmf as (kc & _ & Hmf). unfold RegConc.fams_of in Hmf.
  apply in_map_iff in Hmf as (d & <- & _). reflexivity.
Qed.

Definition apply_cr (x : areg) (c : rcall) (r : rret) : option areg :=
  apply_call cs x {| qc_t := 0; qc_call := c; qc_ret := r; qc_ci := 0; qc_ri := 0 |}.
Lemma apply_call_cr x rec : apply_call cs x rec = apply_cr x (qc_call rec) (qc_ret rec).
Proof. reflexivity. Qed.

Lemma sr_register x a i : SR x a -> (i < length ct)%nat ->
  exists x', apply_cr x (RRegister i) (ret_of (reg_register a (descs_of ct i) i)) = Some x'
             /\ SR x' (match reg_register a (descs_of ct i) i with Ok a' => a' | Err _ => a end).
Proof.
  intros (st & A & S & AR & Htags & Hl & Hp & Hxl) Hi.
  pose proof (register_refines P CP q_CP_P q_Hids q_Hdims q_Hcids st (tabc a) (descs_of ct i) (CValue i) A S (q_CP i Hi)) as R.
  rewrite tabc_register in R.
  pose proof (expected_is_spec_register st None (descs_of ct i) (CValue i)) as M.
  pose proof (expected_corr x st (cdescs cs i) (descs_of ct i) AR (q_rel i)) as Ex.
  unfold mlabels in Ex. rewrite Hxl in Ex.
  cbn [tabc r_labels] in R. rewrite Hl in R.
  unfold apply_cr, apply_call. cbn [qc_call qc_ret].
  destruct (reg_register a (descs_of ct i) i) as [a'|e] eqn:E; cbn [rmapc ret_of] in *.
  - destruct R as (R1 & R2 & R3 & _). rewrite R1 in M. cbn [res_unit] in M. rewrite Ex.
    destruct (d_expected st None (descs_of ct i)); cbn in M; try discriminate. cbn [rres_matches].
    eexists. split; [reflexivity|]. destruct (register_frame _ _ _ _ E) as [F1 F2].
    exists (s_add st (descs_of ct i) (CValue i)). split; [exact R2|]. split; [exact R3|]. split; [|split; [|rewrite F1, F2; auto]].
    + destruct AR as [Hcur Hev]. split; cbn [ar_add ar_cur ar_ever s_add s_cur s_hist].
      * apply F2_app; auto. constructor; [|constructor]. cbn. split; auto. apply q_rel.
      * apply F2_app; auto. apply q_rel.
    + cbn [s_add s_cur]. apply Forall_app. split; auto. constructor; [|constructor]. exists i. auto.
  - rewrite R in M. cbn [res_unit] in M. rewrite Ex.
    exists x. split.
    + destruct (d_expected st None (descs_of ct i)), e; cbn in M |- *; try discriminate; reflexivity.
    + exists st. split; [exact A|]. split; [exact S|]. split; [exact AR|]. split; [exact Htags|]. auto.
Qed.

Lemma sr_unregister x a i : SR x a -> (i < length ct)%nat ->
  exists x', apply_cr x (RUnregister i) (ret_of (reg_unregister a (descs_of ct i))) = Some x'
             /\ SR x' (match reg_unregister a (descs_of ct i) with Ok a' => a' | Err _ => a end).
Proof.
  intros (st & A & S & AR & Htags & Hl & Hp & Hxl) Hi.
  pose proof (unregister_refines P CP q_CP_P q_Hids q_Hcids st (tabc a) (descs_of ct i) A S (q_CP i Hi)) as R.
  rewrite tabc_unregister in R.
  rewrite (spec_unregister_del P CP q_CP_P q_Hids q_Hcids st (descs_of ct i) S (q_CP i Hi)) in R.
  pose proof (registered_corr x st (cdescs cs i) (descs_of ct i) AR (q_rel i)) as Er.
  unfold apply_cr, apply_call. cbn [qc_call qc_ret]. rewrite Er.
  destruct (reg_unregister a (descs_of ct i)) as [a'|e] eqn:E; cbn [rmapc ret_of] in *.
  - destruct R as (R1 & R2 & R3 & _). destruct (registered_b st (descs_of ct i)); [|discriminate].
    eexists. split; [reflexivity|]. destruct (unregister_frame _ _ _ E) as [F1 F2].
    exists (s_del st (collector_id (descs_of ct i))). split; [exact R2|]. split; [exact R3|]. split; [|split; [|rewrite F1, F2; auto]].
    + destruct AR as [Hcur Hev]. split; cbn [ar_del ar_cur ar_ever s_del s_cur s_hist]; auto.
      apply F2_filter_in; auto. intros ex f Hf [_ Hrel]. f_equal.
      rewrite (rel_same_coll _ _ _ _ (q_rel i) Hrel).
      symmetry. apply (coll_exact_b P CP q_CP_P q_Hids q_Hcids); [apply q_CP; auto | apply (proj2 S); auto].
    + cbn [s_del s_cur]. rewrite Forall_forall in *. intros e0 He0. apply filter_In in He0 as [He0 _]. auto.
  - destruct (registered_b st (descs_of ct i)); [discriminate|].
    exists x. split; [destruct e; reflexivity|]. exists st. split; [exact A|]. split; [exact S|]. split; [exact AR|]. split; [exact Htags|]. auto.
Qed.

(* one call of the sequential registry of the model, explained by the spec's registry *)
Theorem sr_step x a o : SR x a -> (match o with RRegister i | RUnregister i => (i < length ct)%nat | RGather => True end) ->
  exists x', apply_cr x o (snd (qspec ct a o)) = Some x' /\ SR x' (fst (qspec ct a o)).
Proof.
  intros H Ho. destruct o as [i|i|]; cbn [qspec fst snd].
  - apply sr_register; auto.
  - apply sr_unregister; auto.
  - exists x. split; auto. unfold apply_cr, apply_call. cbn [qc_call qc_ret]. rewrite (sr_gather x a H). reflexivity.
Qed.
End Seq.
