(* The domain of the theorems that allow custom collectors ([dom07c], Proofs/C07SpecCustomRegs.v)
   contains the domain of the theorems without them ([dom07], Proofs/C07SpecRegs.v): the new
   theorems subsume the old ones. *)
Require Import PV.Base.Prelude PV.Base.F64.
Require Import PV.Model.Proto PV.Model.Desc PV.Model.Value PV.Model.Registry PV.Model.World.
Require PV.Proofs.C07SpecWorld PV.Proofs.C07SpecStep PV.Proofs.C07SpecRegs.
Require PV.Proofs.C07SpecCustomWorld PV.Proofs.C07SpecCustomStep PV.Proofs.C07SpecCustomRegs PV.Proofs.C14SpecCustom PV.Proofs.C14Spec.
Require Import PV.Spec.SpecC07.

Lemma op_lang_sub o : C07SpecStep.op_lang o = true -> C07SpecCustomStep.op_lang o = true.
Proof. destruct o; cbn; auto. discriminate. Qed.
Lemma forallb_impl {A} (f g : A -> bool) l : (forall x, f x = true -> g x = true) -> forallb f l = true -> forallb g l = true.
Proof. intros H. rewrite !forallb_forall. auto. Qed.
Lemma op_dyn_sub w regs o ob : C07SpecRegs.op_dyn w regs o ob = true -> C07SpecCustomRegs.op_dyn w regs o ob = true.
Proof.
  unfold C07SpecRegs.op_dyn, C07SpecCustomRegs.op_dyn. destruct o; auto. destruct ob as [| [u|e] | | | | | | | | | | | |]; auto.
  destruct (slot w r); auto. destruct (collector_of w (slot w s)) as [[c ds]|]; auto. destruct (nth_error (w_reg w) r0) as [rc|]; auto.
  intros H. apply orb_true_iff. right. revert H. apply forallb_impl. intros kc Hk.
  change (C07SpecCustomWorld.cdescS (C07SpecCustomWorld.sigs_of w)) with (C07SpecWorld.cdescS (C07SpecWorld.sigs_of w)).
  rewrite <- orb_assoc. apply orb_true_iff. right. exact Hk.
Qed.
Lemma dom_walk_sub ops : forall w regs, C07SpecRegs.dom_walk w regs ops = true -> C07SpecCustomRegs.dom_walk w regs ops = true.
Proof.
  induction ops as [|o ops IH]; intros w regs; cbn [C07SpecRegs.dom_walk C07SpecCustomRegs.dom_walk]; auto.
  rewrite !andb_true_iff. intros [[[A B] C] D]. repeat split.
  - apply op_lang_sub; auto.
  - exact B.
  - apply op_dyn_sub; auto.
  - apply IH. exact D.
Qed.
Theorem dom07_sub_dom07c ops : C07SpecRegs.dom07 ops = true -> C07SpecCustomRegs.dom07c ops = true.
Proof. apply dom_walk_sub. Qed.
Theorem dom14_sub_dom14c ops : C14Spec.dom14 ops = true -> C14SpecCustom.dom14c ops = true.
Proof. apply dom_walk_sub. Qed.
