(* Facts about Model/Static.v: what every accessor path of a generated static-metric struct
   denotes, try_get / get(enum), the auto-flush offsets, and delivery of updates by flush. *)
Require Import PV.Base.Prelude PV.Base.StrFacts PV.Model.Proto PV.Model.Desc PV.Model.Value PV.Model.Vec PV.Model.Static.
Require Import PV.Proofs.C05Facts.
From Coq Require Import Permutation.
Open Scope N_scope.

(* ================= A. well-formed declarations ================= *)
Definition rl_ok (l : rlabel) : Prop :=
  NoDup (ids_of l) /\ match rl_pats l with Some p => p = ids_of l | None => True end.
Definition wf_labels (ls : list rlabel) : Prop := ls <> [] /\ NoDup (keys_of ls) /\ Forall rl_ok ls.
Definition wf_decl (d : decl) (ls : list rlabel) : Prop :=
  resolve d = Some ls /\ wf_labels ls /\ form_ok (dc_form d) (dc_type d) = true.

Lemma resolve_label_pats env l r : resolve_label env l = Some r ->
  match rl_pats r with Some p => p = ids_of r | None => True end.
Proof.
  unfold resolve_label. destruct (l_arm l) as [vs|e].
  - intros H; inversion H; subst; cbn; auto.
  - destruct (enum_lookup env e) as [vs|]; [|discriminate]. intros H; inversion H; subst; cbn. reflexivity.
Qed.
Lemma resolve_labels_pats env ls rs : resolve_labels env ls = Some rs ->
  Forall (fun r => match rl_pats r with Some p => p = ids_of r | None => True end) rs.
Proof.
  revert rs. induction ls as [|l ls IH]; intros rs; cbn [resolve_labels].
  - intros H; inversion H; constructor.
  - destruct (resolve_label env l) as [x|] eqn:E; [|discriminate].
    destruct (resolve_labels env ls) as [xs|]; [|discriminate]. intros H; inversion H; subst.
    constructor; auto. eapply resolve_label_pats; eauto.
Qed.

Lemma wf_declb_sound d : wf_declb d = true -> exists ls, wf_decl d ls.
Proof.
  unfold wf_declb. destruct (resolve d) as [ls|] eqn:R; [|discriminate]. intros H.
  apply andb_prop in H as [H Hf]. apply andb_prop in H as [H Hi]. apply andb_prop in H as [Hn Hk].
  exists ls. split; [exact R|]. split; [|exact Hf]. split; [|split].
  - destruct ls; [discriminate|congruence].
  - apply nodup_str_NoDup; exact Hk.
  - pose proof (resolve_labels_pats _ _ _ R) as P. rewrite forallb_forall in Hi.
    apply Forall_forall. intros l Hl. split.
    + apply nodup_str_NoDup. apply Hi; exact Hl.
    + rewrite Forall_forall in P. apply P; exact Hl.
Qed.

(* ================= B. what a path says, read off the declaration ================= *)
(* the value definition a single accessor call names at a label; [tg]: try_get exists *)
Definition find_id (id : str) (vals : list vdef) : option vdef := find (fun v => str_eqb id (v_id v)) vals.
Definition find_str (s : str) (vals : list vdef) : option vdef := find (fun v => str_eqb s (v_str v)) vals.
Definition step_value (tg : bool) (l : rlabel) (s : step) : option vdef :=
  match s with
  | SField id => find_id id (rl_vals l)
  | SGet id => match rl_pats l with Some _ => find_id id (rl_vals l) | None => None end
  | STry x => if tg then find_str x (rl_vals l) else None
  end.
Fixpoint path_values (tg : bool) (ls : list rlabel) (p : list step) {struct p} : option (list vdef) :=
  match p with
  | [] => Some []
  | s :: p' => match ls with
               | [] => None
               | l :: ls' => match step_value tg l s, path_values tg ls' p' with
                             | Some v, Some vs => Some (v :: vs)
                             | _, _ => None
                             end
               end
  end.
(* a complete path: one accessor per label *)
Definition denote (tg : bool) (ls : list rlabel) (p : list step) : option (list vdef) :=
  match path_values tg ls p with
  | Some vs => if Nat.eqb (length vs) (length ls) then Some vs else None
  | None => None
  end.

Lemma find_id_spec id vals v : find_id id vals = Some v -> In v vals /\ v_id v = id.
Proof.
  unfold find_id. intros H. apply find_some in H as [H1 H2]. split; auto.
  apply str_eqb_eq in H2. auto.
Qed.
Lemma find_str_spec s vals v : find_str s vals = Some v -> In v vals /\ v_str v = s.
Proof.
  unfold find_str. intros H. apply find_some in H as [H1 H2]. split; auto.
  apply str_eqb_eq in H2. auto.
Qed.
Lemma find_id_In vals v : NoDup (map v_id vals) -> In v vals -> find_id (v_id v) vals = Some v.
Proof.
  unfold find_id. induction vals as [|w vals IH]; intros N H; [destruct H|]. cbn [find].
  inversion N as [|? ? N1 N2]; subst. destruct H as [->|H].
  - rewrite str_eqb_refl. reflexivity.
  - destruct (str_eqb (v_id v) (v_id w)) eqn:E.
    + apply str_eqb_eq in E. exfalso. apply N1. rewrite <- E. apply in_map. exact H.
    + apply IH; auto.
Qed.
Lemma find_str_In vals v : NoDup (map v_str vals) -> In v vals -> find_str (v_str v) vals = Some v.
Proof.
  unfold find_str. induction vals as [|w vals IH]; intros N H; [destruct H|]. cbn [find].
  inversion N as [|? ? N1 N2]; subst. destruct H as [->|H].
  - rewrite str_eqb_refl. reflexivity.
  - destruct (str_eqb (v_str v) (v_str w)) eqn:E.
    + apply str_eqb_eq in E. exfalso. apply N1. rewrite <- E. apply in_map. exact H.
    + apply IH; auto.
Qed.
Lemma find_str_none s vals : ~ In s (map v_str vals) -> find_str s vals = None.
Proof.
  unfold find_str. induction vals as [|w vals IH]; intros H; [reflexivity|]. cbn [find].
  destruct (str_eqb s (v_str w)) eqn:E.
  - apply str_eqb_eq in E. exfalso. apply H. left. auto.
  - apply IH. intros C. apply H. right. exact C.
Qed.
Lemma find_str_none_inv s vals : find_str s vals = None -> ~ In s (map v_str vals).
Proof.
  unfold find_str. intros H C. apply in_map_iff in C as (v & E & Hv).
  apply (find_none _ _ H) in Hv. subst s. rewrite str_eqb_refl in Hv. discriminate.
Qed.

Lemma step_value_In tg l s v : step_value tg l s = Some v -> In v (rl_vals l).
Proof.
  destruct s as [id|id|x]; cbn [step_value].
  - intros H. apply find_id_spec in H. tauto.
  - destruct (rl_pats l); [|discriminate]. intros H. apply find_id_spec in H. tauto.
  - destruct tg; [|discriminate]. intros H. apply find_str_spec in H. tauto.
Qed.
Lemma path_values_length tg ls p vs : path_values tg ls p = Some vs -> length vs = length p.
Proof.
  revert ls vs. induction p as [|s p IH]; intros ls vs; cbn [path_values].
  - intros H; inversion H; reflexivity.
  - destruct ls as [|l ls]; [discriminate|]. destruct (step_value tg l s); [|discriminate].
    destruct (path_values tg ls p) eqn:E; [|discriminate]. intros H; inversion H; subst. cbn. f_equal. eapply IH; eauto.
Qed.
(* the values are taken label by label *)
Lemma path_values_In tg ls p vs : path_values tg ls p = Some vs ->
  Forall2 (fun l v => In v (rl_vals l)) (firstn (length vs) ls) vs.
Proof.
  revert ls vs. induction p as [|s p IH]; intros ls vs; cbn [path_values].
  - intros H; inversion H; subst. cbn. constructor.
  - destruct ls as [|l ls]; [discriminate|]. destruct (step_value tg l s) eqn:S; [|discriminate].
    destruct (path_values tg ls p) eqn:E; [|discriminate]. intros H; inversion H; subst. cbn [length firstn].
    constructor; [eapply step_value_In; eauto|]. apply IH; auto.
Qed.
Lemma denote_spec tg ls p vs : denote tg ls p = Some vs ->
  path_values tg ls p = Some vs /\ length vs = length ls /\ Forall2 (fun l v => In v (rl_vals l)) ls vs.
Proof.
  unfold denote. destruct (path_values tg ls p) as [vs'|] eqn:E; [|discriminate].
  destruct (Nat.eqb (length vs') (length ls)) eqn:L; [|discriminate]. intros H; inversion H; subst.
  apply Nat.eqb_eq in L. split; auto. split; auto.
  pose proof (path_values_In _ _ _ _ E) as F. rewrite L in F. rewrite firstn_all in F. exact F.
Qed.

(* the plain field path, the get path and the try_get path of declared values *)
Lemma path_values_fields tg ls vs : Forall rl_ok ls -> Forall2 (fun l v => In v (rl_vals l)) ls vs ->
  path_values tg ls (map (fun v => SField (v_id v)) vs) = Some vs.
Proof.
  intros W F. induction F as [|l v ls vs H F IH]; [reflexivity|]. inversion W as [|? ? [W1 _] W2]; subst.
  cbn [map path_values step_value]. rewrite find_id_In; auto. rewrite IH; auto.
Qed.
Lemma path_values_gets tg ls vs : Forall rl_ok ls -> Forall2 (fun l v => In v (rl_vals l)) ls vs ->
  Forall (fun l => rl_pats l <> None) ls ->
  path_values tg ls (map (fun v => SGet (v_id v)) vs) = Some vs.
Proof.
  intros W F. induction F as [|l v ls vs H F IH]; intros E; [reflexivity|]. inversion W as [|? ? [W1 _] W2]; subst.
  inversion E as [|? ? E1 E2]; subst.
  cbn [map path_values step_value]. destruct (rl_pats l); [|congruence]. rewrite find_id_In; auto. rewrite IH; auto.
Qed.
Lemma path_values_trys ls vs : Forall2 (fun l v => In v (rl_vals l)) ls vs ->
  Forall (fun l => NoDup (map v_str (rl_vals l))) ls ->
  path_values true ls (map (fun v => STry (v_str v)) vs) = Some vs.
Proof.
  intros F. induction F as [|l v ls vs H F IH]; intros E; [reflexivity|].
  inversion E as [|? ? E1 E2]; subst.
  cbn [map path_values step_value]. rewrite find_str_In; auto. rewrite IH; auto.
Qed.

(* ================= C. the generated accessors compute exactly that ================= *)
Lemma alookup_fields {T} (g : vdef -> T) vals v : NoDup (map v_id vals) -> In v vals ->
  alookup (v_id v) (map (fun w => (v_id w, g w)) vals) = Some (g v).
Proof.
  induction vals as [|w vals IH]; intros N H; [destruct H|]. cbn [map alookup].
  inversion N as [|? ? N1 N2]; subst. destruct H as [->|H].
  - rewrite str_eqb_refl. reflexivity.
  - destruct (str_eqb (v_id v) (v_id w)) eqn:E.
    + apply str_eqb_eq in E. exfalso. apply N1. rewrite <- E. apply in_map. exact H.
    + apply IH; auto.
Qed.
Lemma alookup_fields_find {T} (g : vdef -> T) vals id :
  alookup id (map (fun w => (v_id w, g w)) vals) = option_map g (find_id id vals).
Proof.
  unfold find_id. induction vals as [|w vals IH]; [reflexivity|]. cbn [map alookup find].
  destruct (str_eqb id (v_id w)); [reflexivity|exact IH].
Qed.
Lemma index_of_find id vals :
  match index_of id (map v_id vals) with
  | Some k => nth_error vals k = find_id id vals /\ find_id id vals <> None
  | None => find_id id vals = None
  end.
Proof.
  unfold find_id. induction vals as [|w vals IH]; [reflexivity|]. cbn [map index_of find].
  destruct (str_eqb id (v_id w)); cbn; [split; [reflexivity|discriminate]|].
  destruct (index_of id (map v_id vals)) as [k|]; cbn; auto.
Qed.

Lemma Forall2_len {X Y} (R : X -> Y -> Prop) a b : Forall2 R a b -> length a = length b.
Proof. induction 1; cbn; auto. Qed.

Section Acc.
  Context {A L : Type} (elem : nat -> vdef -> A) (leaf : list A -> L) (tg : bool).
  Let G := gen elem leaf tg.

  (* one accessor call on the struct generated for label l *)
  Lemma acc_gen l rest lvl prev s : rl_ok l ->
    acc s (G lvl prev (l :: rest)) = option_map (fun v => G (S lvl) (prev ++ [elem lvl v]) rest) (step_value tg l s).
  Proof.
    intros [N P]. unfold G. cbn [gen]. destruct s as [id|id|x]; cbn [acc step_value].
    - cbn [acc_field]. apply (alookup_fields_find (fun w => gen elem leaf tg (S lvl) (prev ++ [elem lvl w]) rest)).
    - cbn [acc_get]. destruct (rl_pats l) as [p|]; [|reflexivity]. subst p. unfold ids_of.
      pose proof (index_of_find id (rl_vals l)) as I. destruct (index_of id (map v_id (rl_vals l))) as [k|].
      + destruct I as [I1 I2]. rewrite I1. destruct (find_id id (rl_vals l)) as [v|] eqn:F; [|congruence].
        cbn [option_map]. apply find_id_spec in F as [F1 F2].
        apply (alookup_fields (fun w => gen elem leaf tg (S lvl) (prev ++ [elem lvl w]) rest)); auto.
      + rewrite I. reflexivity.
    - cbn [acc_try]. destruct tg; [|reflexivity]. fold (find_str x (rl_vals l)).
      destruct (find_str x (rl_vals l)) as [v|] eqn:F; [|reflexivity].
      cbn [option_map]. apply find_str_spec in F as [F1 F2].
      apply (alookup_fields (fun w => gen elem leaf true (S lvl) (prev ++ [elem lvl w]) rest)); auto.
  Qed.

  Fixpoint elems (lvl : nat) (vs : list vdef) : list A :=
    match vs with [] => [] | v :: r => elem lvl v :: elems (S lvl) r end.

  (* a whole path *)
  Lemma walk_gen ls : Forall rl_ok ls -> forall lvl prev p,
    walk (G lvl prev ls) p
    = option_map (fun vs => G (lvl + length vs)%nat (prev ++ elems lvl vs) (skipn (length vs) ls)) (path_values tg ls p).
  Proof.
    intros W lvl prev p. revert ls W lvl prev. induction p as [|s p IH]; intros ls W lvl prev.
    - cbn. rewrite Nat.add_0_r, app_nil_r. reflexivity.
    - destruct ls as [|l ls].
      + cbn. destruct s; reflexivity.
      + inversion W as [|? ? W1 W2]; subst. cbn [walk path_values]. rewrite acc_gen; auto.
        destruct (step_value tg l s) as [v|]; [|reflexivity]. cbn [option_map].
        unfold G in IH. rewrite IH; auto. destruct (path_values tg ls p) as [vs|]; [|reflexivity].
        cbn [option_map length skipn elems]. rewrite <- app_assoc. cbn [app]. rewrite Nat.add_succ_r. reflexivity.
  Qed.

  Lemma walk_gen_leaf ls p vs : Forall rl_ok ls -> denote tg ls p = Some vs ->
    walk (G O [] ls) p = Some (TLeaf (leaf (elems O vs))).
  Proof.
    intros W D. apply denote_spec in D as (E & Ln & _). rewrite walk_gen; auto. rewrite E. cbn [option_map].
    rewrite Ln. rewrite skipn_all. reflexivity.
  Qed.
  (* and nothing else is a metric *)
  Lemma walk_gen_leaf_inv ls p x : Forall rl_ok ls -> walk (G O [] ls) p = Some (TLeaf x) ->
    exists vs, denote tg ls p = Some vs /\ x = leaf (elems O vs).
  Proof.
    intros W H. rewrite walk_gen in H; auto. unfold denote.
    destruct (path_values tg ls p) as [vs|] eqn:E; [|discriminate]. cbn [option_map] in H.
    pose proof (path_values_In _ _ _ _ E) as F. apply Forall2_len in F. rewrite firstn_length in F.
    destruct (Nat.eqb (length vs) (length ls)) eqn:Ln.
    - exists vs. split; auto. apply Nat.eqb_eq in Ln. rewrite Ln, skipn_all in H. unfold G in H. cbn in H. inversion H. reflexivity.
    - exfalso. apply Nat.eqb_neq in Ln. assert (Lt : (length vs < length ls)%nat) by lia.
      destruct (skipn (length vs) ls) as [|l r] eqn:S.
      + pose proof (skipn_length (length vs) ls) as SL. rewrite S in SL. cbn in SL. lia.
      + unfold G in H. cbn in H. discriminate.
  Qed.
End Acc.

Lemma elems_id n vs : elems (fun _ v => v) n vs = vs.
Proof. revert n. induction vs as [|v vs IH]; intros n; cbn; [reflexivity|]. f_equal. apply IH. Qed.

(* ================= D. the leaf of make_static_metric!: the map handed to `with` ================= *)
Lemma map_fst_combine {X Y} (a : list X) (b : list Y) : length a = length b -> map fst (combine a b) = a.
Proof. revert b. induction a as [|x a IH]; intros [|y b] H; cbn in *; try discriminate; auto. f_equal. apply IH. lia. Qed.

Lemma amap_fold_nodup {V} (kvs acc : list (str * V)) : NoDup (map fst (acc ++ kvs)) ->
  fold_left (fun m kv => ainsert (fst kv) (snd kv) m) kvs acc = acc ++ kvs.
Proof.
  revert acc. induction kvs as [|[k v] kvs IH]; intros acc N; cbn [fold_left].
  - rewrite app_nil_r. reflexivity.
  - assert (E : alookup k acc = None).
    { apply alookup_None. intros C. rewrite map_app in N. cbn in N. apply NoDup_remove_2 in N.
      apply N. apply in_or_app. left. exact C. }
    assert (I : ainsert k v acc = acc ++ [(k, v)]) by (unfold ainsert; rewrite E; reflexivity).
    cbn [fst snd]. rewrite I. rewrite IH.
    + rewrite <- app_assoc. reflexivity.
    + rewrite <- app_assoc. exact N.
Qed.
(* with distinct label keys the HashMap is just the key/value pairs *)
Lemma amap_of_combine keys (strs : list str) : NoDup keys -> length keys = length strs -> amap_of (combine keys strs) = combine keys strs.
Proof.
  intros N L. unfold amap_of. rewrite amap_fold_nodup; [reflexivity|]. cbn [app]. rewrite map_fst_combine; auto.
Qed.
Lemma alookup_combine keys (strs : list str) i k s : NoDup keys ->
  nth_error keys i = Some k -> nth_error strs i = Some s -> alookup k (combine keys strs) = Some s.
Proof.
  revert strs i. induction keys as [|k0 keys IH]; intros strs i N Hk Hs; [destruct i; discriminate|].
  destruct strs as [|s0 strs]; [destruct i; discriminate|]. inversion N as [|? ? N1 N2]; subst. cbn [combine alookup].
  destruct i as [|i]; cbn in Hk, Hs.
  - inversion Hk; inversion Hs; subst. rewrite str_eqb_refl. reflexivity.
  - destruct (str_eqb k k0) eqn:E.
    + apply str_eqb_eq in E. subst. exfalso. apply N1. eapply nth_error_In; eauto.
    + eapply IH; eauto.
Qed.

Definition strs_of (vs : list vdef) : list str := map v_str vs.
(* the label assignment declared along a path *)
Definition declared_map (ls : list rlabel) (vs : list vdef) : list (str * str) := combine (keys_of ls) (strs_of vs).
(* the child of a vector whose label names are [names]: its positional tuple *)
Definition child_of (names : list str) (ls : list rlabel) (vs : list vdef) : child :=
  map (value_of (declared_map ls vs)) names.

Lemma static_leaf_map ls vs : NoDup (keys_of ls) -> length vs = length ls ->
  sl_map (static_leaf (keys_of ls) vs) = declared_map ls vs.
Proof.
  intros N L. unfold static_leaf, declared_map, strs_of. cbn [sl_map]. apply amap_of_combine; auto.
  unfold keys_of. rewrite !map_length. auto.
Qed.
Lemma declared_map_keys ls vs : length vs = length ls -> map fst (declared_map ls vs) = keys_of ls.
Proof. intros L. unfold declared_map. apply map_fst_combine. unfold keys_of, strs_of. rewrite !map_length. auto. Qed.
Lemma declared_value ls vs i l v : NoDup (keys_of ls) ->
  nth_error ls i = Some l -> nth_error vs i = Some v -> value_of (declared_map ls vs) (rl_key l) = v_str v.
Proof.
  intros N Hl Hv. unfold value_of, declared_map. erewrite alookup_combine; eauto.
  - unfold keys_of. rewrite nth_error_map, Hl. reflexivity.
  - unfold strs_of. rewrite nth_error_map, Hv. reflexivity.
Qed.

Lemma vec_key_hash desc labels : vec_key (d_vars desc) labels = match hash_labels desc labels with Ok (_, vs) => Some vs | Err _ => None end.
Proof.
  unfold vec_key, hash_labels. destruct (negb (lenN labels =? lenN (d_vars desc))); [reflexivity|].
  destruct (values_in_declared_order (d_vars desc) labels); reflexivity.
Qed.
Lemma vec_key_declared names ls vs : length vs = length ls -> Permutation names (keys_of ls) ->
  vec_key names (declared_map ls vs) = Some (child_of names ls vs).
Proof.
  intros L P. unfold vec_key, child_of.
  assert (E : length (declared_map ls vs) = length names).
  { rewrite <- (map_length fst). rewrite declared_map_keys; auto. symmetry. apply Permutation_length. exact P. }
  apply lenN_eq in E. rewrite E. cbn [negb]. apply vido_some. intros n Hn. rewrite declared_map_keys; auto.
  eapply Permutation_in; eauto.
Qed.

(* the child's (name, value) pairs are the declared ones whatever the order of the vector's names *)
Lemma child_pairs_perm names ls vs : NoDup (keys_of ls) -> length vs = length ls -> Permutation names (keys_of ls) ->
  Permutation (combine names (child_of names ls vs)) (declared_map ls vs).
Proof.
  intros N L P. unfold child_of.
  assert (C : forall l, combine l (map (value_of (declared_map ls vs)) l) = map (fun n => (n, value_of (declared_map ls vs) n)) l).
  { induction l as [|x l IH]; cbn; [reflexivity|]. f_equal. exact IH. }
  rewrite C. eapply Permutation_trans; [apply Permutation_map; exact P|].
  assert (E : map (fun n => (n, value_of (declared_map ls vs) n)) (keys_of ls) = declared_map ls vs); [|rewrite E; apply Permutation_refl].
  assert (K : length (keys_of ls) = length (strs_of vs)) by (unfold keys_of, strs_of; rewrite !map_length; auto).
  unfold declared_map. revert K N. generalize (keys_of ls) (strs_of vs). intros keys strs.
  revert strs. induction keys as [|k keys IH]; intros [|s strs] K N; cbn in K; try discriminate; [reflexivity|].
  inversion N as [|? ? N1 N2]; subst. cbn [map combine]. f_equal.
  - unfold value_of. cbn [alookup]. rewrite str_eqb_refl. reflexivity.
  - transitivity (map (fun n => (n, value_of (combine keys strs) n)) keys); [|apply IH; auto; lia].
    apply map_ext_in. intros n Hn. f_equal. unfold value_of. cbn [alookup].
    destruct (str_eqb n k) eqn:E; [|reflexivity]. apply str_eqb_eq in E. subst. contradiction.
Qed.

(* ---- c19_path ---- *)
Theorem static_path d ls p vs desc :
  wf_decl d ls -> denote true ls p = Some vs -> Permutation (d_vars desc) (keys_of ls) ->
  exists sl h,
    walk (static_tree true ls) p = Some (TLeaf sl)
    /\ sl_map sl = declared_map ls vs
    /\ hash_labels desc (sl_map sl) = Ok (h, child_of (d_vars desc) ls vs)
    /\ hash_label_values desc (child_of (d_vars desc) ls vs) = Ok h
    /\ (forall i l v, nth_error ls i = Some l -> nth_error vs i = Some v ->
          value_of (sl_map sl) (rl_key l) = v_str v)
    /\ Permutation (combine (d_vars desc) (child_of (d_vars desc) ls vs)) (declared_map ls vs).
Proof.
  intros (R & (NE & NK & W) & FO) D P.
  pose proof (denote_spec _ _ _ _ D) as (E & L & F).
  exists (static_leaf (keys_of ls) vs).
  assert (M : sl_map (static_leaf (keys_of ls) vs) = declared_map ls vs) by (apply static_leaf_map; auto).
  destruct (map_form_is_positional desc (declared_map ls vs)) as (h & H1 & H2).
  { rewrite declared_map_keys; auto. apply Permutation_sym. exact P. }
  exists h. split; [|split; [exact M|]].
  - unfold static_tree. rewrite (walk_gen_leaf _ _ _ ls p vs W D). rewrite elems_id. reflexivity.
  - rewrite M. split; [exact H1|]. split; [exact H2|]. split.
    + intros i l v Hl Hv. eapply declared_value; eauto.
    + apply child_pairs_perm; auto.
Qed.

(* the path is the same object whichever accessor kinds spell it *)
Theorem static_path_any_spelling ls p q vs : Forall rl_ok ls ->
  denote true ls p = Some vs -> denote true ls q = Some vs ->
  walk (static_tree true ls) p = walk (static_tree true ls) q.
Proof.
  intros W Dp Dq. unfold static_tree.
  rewrite (walk_gen_leaf _ _ _ ls p vs W Dp), (walk_gen_leaf _ _ _ ls q vs W Dq). reflexivity.
Qed.

(* ================= E. try_get and get(enum) at one struct ================= *)
Section One.
  Context {A L : Type} (elem : nat -> vdef -> A) (leaf : list A -> L).
  Variables (l : rlabel) (rest : list rlabel) (lvl : nat) (prev : list A).
  Hypothesis OK : rl_ok l.
  Let node tg := gen elem leaf tg lvl prev (l :: rest).

  Lemma try_get_undeclared s : ~ In s (map v_str (rl_vals l)) -> acc_try s (node true) = None.
  Proof.
    intros H. change (acc (STry s) (node true) = None). unfold node. rewrite acc_gen; auto.
    cbn [step_value]. rewrite find_str_none; auto.
  Qed.
  Lemma try_get_none_iff s : acc_try s (node true) = None <-> ~ In s (map v_str (rl_vals l)).
  Proof.
    split; [|apply try_get_undeclared]. change (acc (STry s) (node true) = None -> ~ In s (map v_str (rl_vals l))).
    unfold node. rewrite acc_gen; auto. cbn [step_value]. destruct (find_str s (rl_vals l)) eqn:E; [discriminate|].
    intros _. apply find_str_none_inv. exact E.
  Qed.
  Lemma field_declared tg v : In v (rl_vals l) ->
    acc_field (v_id v) (node tg) = Some (gen elem leaf tg (S lvl) (prev ++ [elem lvl v]) rest).
  Proof.
    intros H. change (acc (SField (v_id v)) (node tg) = Some (gen elem leaf tg (S lvl) (prev ++ [elem lvl v]) rest)).
    unfold node. rewrite acc_gen; auto. cbn [step_value]. destruct OK as [N _]. rewrite find_id_In; auto.
  Qed.
  (* a declared string gives the member of the first value declared with that string *)
  Lemma try_get_declared_first s : In s (map v_str (rl_vals l)) ->
    exists v, In v (rl_vals l) /\ v_str v = s /\ acc_try s (node true) = acc_field (v_id v) (node true).
  Proof.
    intros H. destruct (find_str s (rl_vals l)) as [v|] eqn:E.
    - exists v. pose proof (find_str_spec _ _ _ E) as [H1 H2]. split; auto. split; auto.
      rewrite field_declared; auto.
      change (acc (STry s) (node true) = Some (gen elem leaf true (S lvl) (prev ++ [elem lvl v]) rest)).
      unfold node. rewrite acc_gen; auto. cbn [step_value]. rewrite E. reflexivity.
    - exfalso. apply find_str_none_inv in E. contradiction.
  Qed.
  Lemma try_get_declared v : NoDup (map v_str (rl_vals l)) -> In v (rl_vals l) ->
    acc_try (v_str v) (node true) = acc_field (v_id v) (node true).
  Proof.
    intros N H. rewrite field_declared; auto.
    change (acc (STry (v_str v)) (node true) = Some (gen elem leaf true (S lvl) (prev ++ [elem lvl v]) rest)).
    unfold node. rewrite acc_gen; auto. cbn [step_value]. rewrite find_str_In; auto.
  Qed.
  Lemma get_enum tg v : rl_pats l <> None -> In v (rl_vals l) ->
    acc_get (v_id v) (node tg) = acc_field (v_id v) (node tg).
  Proof.
    intros E H. rewrite field_declared; auto.
    change (acc (SGet (v_id v)) (node tg) = Some (gen elem leaf tg (S lvl) (prev ++ [elem lvl v]) rest)).
    unfold node. rewrite acc_gen; auto. cbn [step_value]. destruct (rl_pats l); [|congruence].
    destruct OK as [N _]. rewrite find_id_In; auto.
  Qed.
  (* get exists only for label_enum labels, and only for the enum's variants *)
  Lemma get_inline tg x : rl_pats l = None -> acc_get x (node tg) = None.
  Proof. intros E. unfold node. cbn [gen acc_get]. rewrite E. reflexivity. Qed.
  Lemma get_unknown_variant tg x : ~ In x (ids_of l) -> acc_get x (node tg) = None.
  Proof.
    intros H. change (acc (SGet x) (node tg) = None). unfold node. rewrite acc_gen; auto. cbn [step_value].
    destruct (rl_pats l); [|reflexivity]. destruct (find_id x (rl_vals l)) eqn:E; [|reflexivity].
    apply find_id_spec in E as [E1 E2]. exfalso. apply H. subst x. unfold ids_of. apply in_map. exact E1.
  Qed.
End One.

(* ================= F. the auto-flush delegators: offsets follow paths ================= *)
(* a layout assigns an offset to every field of the inner struct of every level; all that is
   needed is that distinct fields of one struct lie at distinct offsets *)
Definition layout_inj (ls : list rlabel) (off : layout) : Prop :=
  forall lvl l a b, nth_error ls lvl = Some l -> In a (ids_of l) -> In b (ids_of l) -> off lvl a = off lvl b -> a = b.
Definition offsets (off : layout) (lvl : nat) (vs : list vdef) : list N :=
  elems (fun lvl v => off lvl (v_id v)) lvl vs.

Lemma find_offset {T} (g : vdef -> T) (f : str -> N) vals v :
  NoDup (map v_id vals) -> In v vals ->
  (forall a b, In a (map v_id vals) -> In b (map v_id vals) -> f a = f b -> a = b) ->
  find (fun kv => f (fst kv) =? f (v_id v)) (map (fun w => (v_id w, g w)) vals) = Some (v_id v, g v).
Proof.
  induction vals as [|w vals IH]; intros N H I; [destruct H|]. cbn [map find fst].
  inversion N as [|? ? N1 N2]; subst. destruct H as [->|H].
  - rewrite N.eqb_refl. reflexivity.
  - destruct (f (v_id w) =? f (v_id v)) eqn:E.
    + apply N.eqb_eq in E. apply I in E; [|left; reflexivity|right; apply in_map; exact H].
      exfalso. apply N1. rewrite E. apply in_map. exact H.
    + apply IH; auto. intros a b Ha Hb. apply I; right; auto.
Qed.

Lemma get_local_gen {A L} (elem : nat -> vdef -> A) (leaf : list A -> L) tg off : forall vs ls lvl prev,
  Forall rl_ok ls ->
  (forall j l a b, nth_error ls j = Some l -> In a (ids_of l) -> In b (ids_of l) ->
                   off (lvl + j)%nat a = off (lvl + j)%nat b -> a = b) ->
  Forall2 (fun l v => In v (rl_vals l)) (firstn (length vs) ls) vs ->
  get_local off lvl (gen elem leaf tg lvl prev ls) (offsets off lvl vs)
  = Some (gen elem leaf tg (lvl + length vs)%nat (prev ++ elems elem lvl vs) (skipn (length vs) ls)).
Proof.
  induction vs as [|v vs IH]; intros ls lvl prev W I F.
  - cbn. rewrite Nat.add_0_r, app_nil_r. reflexivity.
  - destruct ls as [|l ls]; [inversion F|]. cbn [length firstn] in F. inversion F as [|? ? ? ? Hv F']; subst.
    inversion W as [|? ? [W1 Wp] W2]; subst.
    unfold offsets. cbn [elems get_local gen length skipn].
    rewrite (find_offset (fun w => gen elem leaf tg (S lvl) (prev ++ [elem lvl w]) ls) (off lvl)); auto.
    + cbn [snd]. fold (offsets off (S lvl) vs). rewrite IH; auto.
      * rewrite <- app_assoc. cbn [app]. rewrite Nat.add_succ_r. reflexivity.
      * intros j l' a b Hj. specialize (I (S j) l' a b). rewrite Nat.add_succ_r in I. cbn in I. apply I. exact Hj.
    + intros a b Ha Hb. specialize (I O l a b). rewrite Nat.add_0_r in I. apply I; auto.
Qed.

Theorem offsets_follow_paths ls off p vs :
  wf_labels ls -> layout_inj ls off -> denote false ls p = Some vs ->
  walk (deleg_tree off ls) p = Some (TLeaf (offsets off O vs))
  /\ get_local off O (inner_tree ls) (offsets off O vs) = Some (TLeaf (static_leaf (keys_of ls) vs))
  /\ walk (inner_tree ls) (map (fun v => SField (v_id v)) vs) = Some (TLeaf (static_leaf (keys_of ls) vs)).
Proof.
  intros (NE & NK & W) I D. pose proof (denote_spec _ _ _ _ D) as (E & Ln & F). split; [|split].
  - unfold deleg_tree. rewrite (walk_gen_leaf _ _ _ ls p vs W D). reflexivity.
  - unfold inner_tree, static_tree. rewrite get_local_gen; [|exact W| |].
    + rewrite Ln, skipn_all, elems_id. reflexivity.
    + intros j l a b Hj. apply (I j l a b Hj).
    + rewrite Ln, firstn_all. exact F.
  - unfold inner_tree, static_tree.
    assert (D' : denote false ls (map (fun v => SField (v_id v)) vs) = Some vs).
    { unfold denote. rewrite path_values_fields; auto. rewrite Ln, Nat.eqb_refl. reflexivity. }
    rewrite (walk_gen_leaf _ _ _ ls _ vs W D'). rewrite elems_id. reflexivity.
Qed.

Lemma index_of_nth x l k : index_of x l = Some k -> nth_error l k = Some x.
Proof.
  revert k. induction l as [|y l IH]; intros k; cbn [index_of]; [discriminate|].
  destruct (str_eqb x y) eqn:E.
  - intros H; inversion H; subst. apply str_eqb_eq in E. subst. reflexivity.
  - destruct (index_of x l) as [j|]; [|discriminate]. cbn. intros H; inversion H; subst. cbn. apply IH. reflexivity.
Qed.
Lemma index_of_In x l : In x l -> exists k, index_of x l = Some k.
Proof.
  induction l as [|y l IH]; intros H; [destruct H|]. cbn [index_of]. destruct (str_eqb x y) eqn:E; [eauto|].
  destruct H as [->|H]; [rewrite str_eqb_refl in E; discriminate|]. destruct (IH H) as [k ->]. cbn. eauto.
Qed.
(* the layout the executable model uses is one of them *)
Lemma default_layout_inj ls : layout_inj ls (default_layout ls).
Proof.
  intros lvl l a b Hl Ha Hb. unfold default_layout. rewrite Hl.
  destruct (index_of_In _ _ Ha) as [ka Ea]. destruct (index_of_In _ _ Hb) as [kb Eb]. rewrite Ea, Eb.
  intros H. assert (K : ka = kb) by lia. subst kb.
  apply index_of_nth in Ea. apply index_of_nth in Eb. congruence.
Qed.

(* ================= G. updates and flush ================= *)
Lemma key_eqb_eq a b : key_eqb a b = true <-> a = b.
Proof.
  unfold key_eqb. revert b. induction a as [|x a IH]; intros [|y b]; cbn; split; intros H; try discriminate; auto.
  - apply andb_prop in H as [H1 H2]. apply str_eqb_eq in H1. apply IH in H2. congruence.
  - inversion H; subst. rewrite str_eqb_refl. cbn. apply IH. reflexivity.
Qed.
Lemma key_eqb_refl a : key_eqb a a = true.
Proof. apply key_eqb_eq. reflexivity. Qed.
Lemma key_eqb_neq a b : key_eqb a b = false <-> a <> b.
Proof.
  split.
  - intros H E. apply key_eqb_eq in E. congruence.
  - intros H. destruct (key_eqb a b) eqn:E; auto. apply key_eqb_eq in E. contradiction.
Qed.
Lemma key_eqb_sym a b : key_eqb a b = key_eqb b a.
Proof.
  destruct (key_eqb a b) eqn:E.
  - apply key_eqb_eq in E. subst. symmetry. apply key_eqb_refl.
  - symmetry. apply key_eqb_neq. apply key_eqb_neq in E. congruence.
Qed.

Lemma kv_get_set k k' x m : kv_get k (kv_set k' x m) = if key_eqb k k' then x else kv_get k m.
Proof.
  induction m as [|[k0 y] m IH]; cbn [kv_set kv_get].
  - destruct (key_eqb k k'); reflexivity.
  - destruct (key_eqb k' k0) eqn:E; cbn [kv_get].
    + apply key_eqb_eq in E. subst k0. destruct (key_eqb k k'); reflexivity.
    + destruct (key_eqb k k0) eqn:E2.
      * apply key_eqb_eq in E2. subst k0. rewrite key_eqb_sym, E. reflexivity.
      * exact IH.
Qed.
Lemma kv_get_add k k' x m : kv_get k (kv_add k' x m) = kv_get k m + (if key_eqb k k' then x else 0).
Proof.
  unfold kv_add. rewrite kv_get_set. destruct (key_eqb k k') eqn:E; [|lia].
  apply key_eqb_eq in E. subst. reflexivity.
Qed.

(* what the local metrics hold for child c *)
Fixpoint pending (c : child) (all : list rleaf) (b : kv) : N :=
  match all with
  | [] => 0
  | l :: r => (if key_eqb (snd l) c then kv_get (fst l) b else 0) + pending c r b
  end.
(* delivered + pending *)
Definition phi (c : child) (all : list rleaf) (st : rt) : N := kv_get c (rt_store st) + pending c all (rt_bufs st).

Lemma pending_ext c all b b' : (forall l, In l all -> kv_get (fst l) b' = kv_get (fst l) b) -> pending c all b' = pending c all b.
Proof.
  induction all as [|l r IH]; intros H; [reflexivity|]. cbn [pending]. rewrite IH; [|intros; apply H; right; auto].
  rewrite (H l); [reflexivity|left; reflexivity].
Qed.
(* changing the buffer of one leaf *)
Lemma pending_change c all b b' l0 : NoDup (map fst all) -> In l0 all ->
  (forall q, q <> fst l0 -> kv_get q b' = kv_get q b) ->
  pending c all b' + (if key_eqb (snd l0) c then kv_get (fst l0) b else 0)
  = pending c all b + (if key_eqb (snd l0) c then kv_get (fst l0) b' else 0).
Proof.
  induction all as [|l r IH]; intros N H A; [destruct H|]. cbn [map] in N. inversion N as [|? ? N1 N2]; subst.
  cbn [pending]. destruct H as [->|H].
  - rewrite (pending_ext c r b b').
    + destruct (key_eqb (snd l0) c); lia.
    + intros l Hl. apply A. intros E. apply N1. rewrite <- E. apply in_map. exact Hl.
  - assert (D : fst l <> fst l0). { intros E. apply N1. rewrite E. apply in_map. exact H. }
    rewrite (A (fst l) D). specialize (IH N2 H A). lia.
Qed.
Lemma pending_zero c all b : (forall l, In l all -> kv_get (fst l) b = 0) -> pending c all b = 0.
Proof.
  induction all as [|l r IH]; intros H; [reflexivity|]. cbn [pending]. rewrite IH; [|intros; apply H; right; auto].
  rewrite (H l); [|left; reflexivity]. destruct (key_eqb (snd l) c); reflexivity.
Qed.

Definition hit (l : rleaf) (c : child) (x : N) : N := if key_eqb (snd l) c then x else 0.

(* an update through a local leaf is pending for its child and for nothing else *)
Lemma phi_update c all st l x : NoDup (map fst all) -> In l all ->
  phi c all (mkRT (rt_store st) (kv_add (fst l) x (rt_bufs st))) = phi c all st + hit l c x.
Proof.
  intros N H. unfold phi, hit. cbn [rt_store rt_bufs].
  pose proof (pending_change c all (rt_bufs st) (kv_add (fst l) x (rt_bufs st)) l N H) as P.
  rewrite kv_get_add, key_eqb_refl in P.
  assert (A : forall q, q <> fst l -> kv_get q (kv_add (fst l) x (rt_bufs st)) = kv_get q (rt_bufs st)).
  { intros q Hq. rewrite kv_get_add. apply key_eqb_neq in Hq. rewrite Hq. lia. }
  specialize (P A). destruct (key_eqb (snd l) c); lia.
Qed.
(* flushing a leaf moves its pending amount to its child: the total is unchanged *)
Lemma phi_flush_leaf c all st l : NoDup (map fst all) -> In l all -> phi c all (flush_leaf st l) = phi c all st.
Proof.
  intros N H. unfold flush_leaf. destruct (kv_get (fst l) (rt_bufs st) =? 0); [reflexivity|].
  unfold phi. cbn [rt_store rt_bufs].
  pose proof (pending_change c all (rt_bufs st) (kv_set (fst l) 0 (rt_bufs st)) l N H) as P.
  rewrite kv_get_set, key_eqb_refl in P.
  assert (A : forall q, q <> fst l -> kv_get q (kv_set (fst l) 0 (rt_bufs st)) = kv_get q (rt_bufs st)).
  { intros q Hq. rewrite kv_get_set. apply key_eqb_neq in Hq. rewrite Hq. reflexivity. }
  specialize (P A). rewrite kv_get_add. rewrite (key_eqb_sym c (snd l)). destruct (key_eqb (snd l) c); lia.
Qed.
Lemma phi_flush_leaves c all lv : NoDup (map fst all) -> (forall l, In l lv -> In l all) ->
  forall st, phi c all (flush_leaves st lv) = phi c all st.
Proof.
  intros N. unfold flush_leaves. induction lv as [|l lv IH]; intros S st; [reflexivity|]. cbn [fold_left].
  rewrite IH; [|intros; apply S; right; auto]. apply phi_flush_leaf; auto. apply S. left. reflexivity.
Qed.
Lemma flush_leaf_zero st l q : kv_get q (rt_bufs st) = 0 \/ q = fst l -> kv_get q (rt_bufs (flush_leaf st l)) = 0.
Proof.
  intros H. unfold flush_leaf. destruct (kv_get (fst l) (rt_bufs st) =? 0) eqn:Z.
  - destruct H as [H|H]; auto. subst. apply N.eqb_eq. exact Z.
  - cbn [rt_bufs]. rewrite kv_get_set. destruct (key_eqb q (fst l)) eqn:E; auto.
    destruct H as [H|H]; auto. subst. rewrite key_eqb_refl in E. discriminate.
Qed.
Lemma flush_leaves_zero lv : forall st q, kv_get q (rt_bufs st) = 0 \/ In q (map fst lv) ->
  kv_get q (rt_bufs (flush_leaves st lv)) = 0.
Proof.
  unfold flush_leaves. induction lv as [|l lv IH]; intros st q H; cbn [fold_left].
  - destruct H as [H|[]]; auto.
  - apply IH. cbn [map] in H. destruct H as [H|[H|H]]; auto; left; apply flush_leaf_zero; auto.
Qed.
(* after a flush of everything, the store holds the whole total *)
Lemma flush_all_store c all st : NoDup (map fst all) ->
  kv_get c (rt_store (flush_leaves st all)) = phi c all st.
Proof.
  intros N. rewrite <- (phi_flush_leaves c all all N (fun _ H => H) st). unfold phi.
  rewrite pending_zero; [lia|]. intros l Hl. apply flush_leaves_zero. right. apply in_map. exact Hl.
Qed.
(* an update through a non-local leaf reaches its child at once *)
Lemma phi_direct c all st l x :
  phi c all (mkRT (kv_add (snd l) x (rt_store st)) (rt_bufs st)) = phi c all st + hit l c x.
Proof. unfold phi, hit. cbn [rt_store rt_bufs]. rewrite kv_get_add. rewrite (key_eqb_sym c (snd l)). unfold child. destruct (key_eqb (snd l) c); lia. Qed.

(* ================= H. all the metrics of a generated struct ================= *)
Fixpoint all_paths (ls : list rlabel) : list (list vdef) :=
  match ls with
  | [] => [[]]
  | l :: rest => flat_map (fun v => map (cons v) (all_paths rest)) (rl_vals l)
  end.

Lemma flat_map_map {X Y Z} (g : X -> Y) (f : Y -> list Z) l : flat_map f (map g l) = flat_map (fun x => f (g x)) l.
Proof. induction l as [|x l IH]; cbn; [reflexivity|]. rewrite IH. reflexivity. Qed.
Lemma map_flat_map {X Y Z} (g : Y -> Z) (f : X -> list Y) l : map g (flat_map f l) = flat_map (fun x => map g (f x)) l.
Proof. induction l as [|x l IH]; cbn; [reflexivity|]. rewrite map_app, IH. reflexivity. Qed.

Lemma tree_leaves_gen {L} (leaf : list vdef -> L) tg : forall ls lvl prev,
  tree_leaves (gen (fun _ v => v) leaf tg lvl prev ls) = map (fun vs => leaf (prev ++ vs)) (all_paths ls).
Proof.
  induction ls as [|l rest IH]; intros lvl prev; cbn [gen tree_leaves all_paths].
  - cbn. rewrite app_nil_r. reflexivity.
  - rewrite flat_map_map. rewrite map_flat_map. apply flat_map_ext. intros v. rewrite IH. rewrite map_map.
    apply map_ext. intros vs. rewrite <- app_assoc. reflexivity.
Qed.

Lemma all_paths_In ls vs : In vs (all_paths ls) <-> Forall2 (fun l v => In v (rl_vals l)) ls vs.
Proof.
  revert vs. induction ls as [|l rest IH]; intros vs; cbn [all_paths].
  - split.
    + intros [<-|[]]. constructor.
    + intros H; inversion H. left; reflexivity.
  - rewrite in_flat_map. split.
    + intros (v & Hv & H). apply in_map_iff in H as (r & <- & Hr). constructor; auto. apply IH; auto.
    + intros H. inversion H as [|? v ? r Hv Hr]; subst. exists v. split; auto. apply in_map. apply IH; auto.
Qed.

Lemma NoDup_app_intro {X} (a b : list X) : NoDup a -> NoDup b -> (forall x, In x a -> ~ In x b) -> NoDup (a ++ b).
Proof.
  induction a as [|x a IH]; intros Na Nb D; cbn; auto. inversion Na as [|? ? N1 N2]; subst. constructor.
  - intros C. apply in_app_or in C as [C|C]; [contradiction|]. apply (D x); [left; reflexivity|exact C].
  - apply IH; auto. intros y Hy. apply D. right; exact Hy.
Qed.
Lemma NoDup_map_cons {X} (x : X) l : NoDup l -> NoDup (map (cons x) l).
Proof.
  induction l as [|y l IH]; intros N; cbn; constructor; inversion N as [|? ? N1 N2]; subst; auto.
  intros C. apply in_map_iff in C as (z & E & Hz). inversion E; subst. contradiction.
Qed.
Lemma all_paths_ids_nodup ls : Forall rl_ok ls -> NoDup (map (map v_id) (all_paths ls)).
Proof.
  induction ls as [|l rest IH]; intros W; cbn [all_paths].
  - cbn. constructor; [intros []|constructor].
  - inversion W as [|? ? [W1 _] W2]; subst. specialize (IH W2). rewrite map_flat_map. unfold ids_of in W1.
    induction (rl_vals l) as [|v vals IHv]; cbn [flat_map]; [constructor|].
    cbn [map] in W1. inversion W1 as [|? ? V1 V2]; subst. apply NoDup_app_intro.
    + rewrite map_map. cbn [map]. rewrite <- (map_map (map v_id) (cons (v_id v))). apply NoDup_map_cons. exact IH.
    + apply IHv. exact V2.
    + intros x Hx C. apply in_map_iff in Hx as (y & <- & Hy). apply in_map_iff in Hy as (r & <- & Hr).
      apply in_flat_map in C as (w & Hw & C). apply in_map_iff in C as (y & E & Hy). apply in_map_iff in Hy as (r' & <- & Hr').
      cbn [map] in E. inversion E as [[E1 E2]]. apply V1. rewrite <- E1. apply in_map. exact Hw.
Qed.

Lemma resolve_leaves_map {X} names (g : X -> sleaf) (f : X -> rleaf) l :
  (forall x, In x l -> resolve_leaf names (g x) = Some (f x)) -> resolve_leaves names (map g l) = Some (map f l).
Proof.
  induction l as [|x l IH]; intros H; [reflexivity|]. cbn [resolve_leaves map].
  rewrite (H x); [|left; reflexivity]. rewrite IH; [reflexivity|]. intros y Hy. apply H. right; exact Hy.
Qed.

(* ================= I. a declaration at run time ================= *)
Definition setup_with (d : decl) (ls : list rlabel) (names : list str) (auto : bool) (off : layout) : setup :=
  mkSetup (dc_form d) (is_local_metric (dc_type d)) names
          (match dc_form d with FStatic => static_tree true ls | FAuto => inner_tree ls end)
          (deleg_tree off ls) off auto.
Lemma mk_setup_default d ls names auto : mk_setup d ls names auto = setup_with d ls names auto (default_layout ls).
Proof. reflexivity. Qed.

Definition has_try (f : mform) : bool := match f with FStatic => true | FAuto => false end.
(* the ghost name and the child of the metric declared by the values vs *)
Definition leaf_of (names : list str) (ls : list rlabel) (vs : list vdef) : rleaf := (map v_id vs, child_of names ls vs).
Definition all_leaves (names : list str) (ls : list rlabel) : list rleaf := map (leaf_of names ls) (all_paths ls).

(* the amounts the calls in [ops] address to child c, read off the declaration alone *)
Definition delivered1 (tg : bool) (ls : list rlabel) (names : list str) (c : child) (o : sop) : N :=
  match o with
  | OUpd p x => match denote tg ls p with
                | Some vs => if key_eqb (child_of names ls vs) c then x else 0
                | None => 0
                end
  | OFlush _ => 0
  end.
Fixpoint delivered (tg : bool) (ls : list rlabel) (names : list str) (c : child) (ops : list sop) : N :=
  match ops with [] => 0 | o :: r => delivered1 tg ls names c o + delivered tg ls names c r end.

Section Run.
  Variables (d : decl) (ls : list rlabel) (names : list str) (auto : bool) (off : layout).
  Hypothesis WF : wf_decl d ls.
  Hypothesis PERM : Permutation names (keys_of ls).
  Hypothesis INJ : layout_inj ls off.
  Let s := setup_with d ls names auto off.
  Let tg := has_try (dc_form d).
  Let all := all_leaves names ls.

  Lemma su_tree_eq : su_tree s = static_tree tg ls.
  Proof. unfold s, tg, setup_with, inner_tree. cbn [su_tree]. destruct (dc_form d); reflexivity. Qed.

  Lemma resolve_static_leaf vs : length vs = length ls ->
    resolve_leaf names (static_leaf (keys_of ls) vs) = Some (leaf_of names ls vs).
  Proof.
    intros Ln. destruct WF as (_ & (_ & NK & _) & _). unfold resolve_leaf. rewrite static_leaf_map; auto.
    rewrite vec_key_declared; auto.
  Qed.

  Lemma all_paths_length vs : In vs (all_paths ls) -> length vs = length ls.
  Proof. intros H. apply all_paths_In in H. apply Forall2_len in H. auto. Qed.

  Lemma leaves_all : resolve_leaves names (tree_leaves (su_tree s)) = Some all.
  Proof.
    rewrite su_tree_eq. unfold static_tree. rewrite tree_leaves_gen. cbn [app].
    unfold all, all_leaves. apply resolve_leaves_map. intros vs H. apply resolve_static_leaf. apply all_paths_length; auto.
  Qed.
  Lemma all_nodup : NoDup (map fst all).
  Proof.
    unfold all, all_leaves. rewrite map_map. cbn [leaf_of fst]. apply all_paths_ids_nodup.
    destruct WF as (_ & (_ & _ & W) & _). exact W.
  Qed.
  Lemma denote_in_all vs p : denote tg ls p = Some vs -> In (leaf_of names ls vs) all.
  Proof.
    intros D. apply denote_spec in D as (_ & _ & F). unfold all, all_leaves. apply in_map. apply all_paths_In. exact F.
  Qed.

  (* the metric object an accessor path denotes in the compiled struct = the one declared *)
  Lemma locate_eq p : locate s p = option_map (static_leaf (keys_of ls)) (denote tg ls p).
  Proof.
    destruct WF as (_ & (NE & NK & W) & FO). unfold locate. rewrite su_tree_eq. unfold s, setup_with. cbn [su_form su_deleg su_off].
    unfold tg. destruct (dc_form d) eqn:Fm; cbn [has_try].
    - destruct (denote true ls p) as [vs|] eqn:D; cbn [option_map].
      + unfold static_tree. rewrite (walk_gen_leaf _ _ _ ls p vs W D). rewrite elems_id. reflexivity.
      + destruct (walk (static_tree true ls) p) as [[x|? ? ? ?]|] eqn:Wk; auto.
        unfold static_tree in Wk. apply walk_gen_leaf_inv in Wk as (vs & D' & _); auto. congruence.
    - destruct (denote false ls p) as [vs|] eqn:D; cbn [option_map].
      + destruct (offsets_follow_paths ls off p vs (conj NE (conj NK W)) INJ D) as (H1 & H2 & _).
        rewrite H1. unfold inner_tree in H2. rewrite H2. reflexivity.
      + destruct (walk (deleg_tree off ls) p) as [[x|? ? ? ?]|] eqn:Wk; auto.
        unfold deleg_tree in Wk. apply walk_gen_leaf_inv in Wk as (vs & D' & _); auto. congruence.
  Qed.

  Lemma resolve_leaves_sub l lv : resolve_leaves names l = Some lv ->
    forall x, In x lv -> exists y, In y l /\ resolve_leaf names y = Some x.
  Proof.
    revert lv. induction l as [|y l IH]; intros lv; cbn [resolve_leaves].
    - intros H; inversion H. intros x [].
    - destruct (resolve_leaf names y) as [a|] eqn:E; [|discriminate].
      destruct (resolve_leaves names l) as [b|]; [|discriminate]. intros H; inversion H; subst.
      intros x [<-|Hx]; [exists y; split; [left; reflexivity|exact E]|].
      destruct (IH b eq_refl x Hx) as (z & Hz & Ez). exists z. split; [right; exact Hz|exact Ez].
  Qed.
  (* flush() of a sub-struct only touches metrics of this struct *)
  Lemma subtree_leaves p t lv : walk (static_tree tg ls) p = Some t ->
    resolve_leaves names (tree_leaves t) = Some lv -> forall x, In x lv -> In x all.
  Proof.
    destruct WF as (_ & (NE & NK & W) & FO). intros Wk R x Hx.
    unfold static_tree in Wk. rewrite walk_gen in Wk; auto.
    destruct (path_values tg ls p) as [vs0|] eqn:E; [|discriminate]. cbn [option_map app] in Wk. inversion Wk; subst t. clear Wk.
    rewrite elems_id in R. rewrite tree_leaves_gen in R.
    destruct (resolve_leaves_sub _ _ R x Hx) as (y & Hy & Ey). apply in_map_iff in Hy as (vs & <- & Hvs).
    pose proof (path_values_In _ _ _ _ E) as F0. apply all_paths_In in Hvs.
    assert (F : Forall2 (fun l v => In v (rl_vals l)) ls (vs0 ++ vs)).
    { rewrite <- (firstn_skipn (length vs0) ls). apply Forall2_app; auto. }
    rewrite resolve_static_leaf in Ey; [|apply Forall2_len in F; auto]. inversion Ey; subst x.
    unfold all, all_leaves. apply in_map. apply all_paths_In. exact F.
  Qed.

  Lemma step_phi c st o st' : step_op s st o = Some st' ->
    phi c all st' = phi c all st + delivered1 tg ls names c o.
  Proof.
    pose proof all_nodup as ND. pose proof leaves_all as LA.
    destruct o as [p x|p]; cbn [step_op delivered1].
    - rewrite locate_eq. destruct (denote tg ls p) as [vs|] eqn:D; cbn [option_map]; [|discriminate].
      pose proof (denote_spec _ _ _ _ D) as (_ & Ln & _). unfold s at 1. cbn [setup_with su_names].
      rewrite resolve_static_leaf; auto. pose proof (denote_in_all vs p D) as IN.
      change (if key_eqb (child_of names ls vs) c then x else 0) with (hit (leaf_of names ls vs) c x).
      destruct (su_local s).
      + destruct (su_form s); [intros [= <-]; apply (phi_update c all st (leaf_of names ls vs) x); auto|].
        destruct (su_auto s); [|intros [= <-]; apply (phi_update c all st (leaf_of names ls vs) x); auto].
        change (su_names s) with names. rewrite LA. intros [= <-].
        rewrite phi_flush_leaves; auto. apply (phi_update c all st (leaf_of names ls vs) x); auto.
      + intros [= <-]. apply (phi_direct c all st (leaf_of names ls vs) x).
    - rewrite N.add_0_r. destruct (su_local s); cbn [negb]; [|discriminate].
      change (su_names s) with names. destruct (su_form s).
      + rewrite su_tree_eq. destruct (walk (static_tree tg ls) p) as [t|] eqn:Wk; [|discriminate].
        destruct (resolve_leaves names (tree_leaves t)) as [lv|] eqn:R; [|discriminate].
        intros H; inversion H; subst. apply phi_flush_leaves; auto. eapply subtree_leaves; eauto.
      + destruct p; [|discriminate]. rewrite LA. intros H; inversion H; subst. apply phi_flush_leaves; auto.
  Qed.

  Theorem run_phi c ops : forall st st', run_ops s st ops = Some st' ->
    phi c all st' = phi c all st + delivered tg ls names c ops.
  Proof.
    induction ops as [|o r IH]; intros st st'; cbn [run_ops delivered].
    - intros H; inversion H; subst. lia.
    - destruct (step_op s st o) as [st1|] eqn:E; [|discriminate]. intros H. rewrite (IH _ _ H).
      rewrite (step_phi c st o st1 E). lia.
  Qed.

  Lemma run_ops_app ops1 ops2 : forall st, run_ops s st (ops1 ++ ops2) =
    match run_ops s st ops1 with Some st1 => run_ops s st1 ops2 | None => None end.
  Proof.
    induction ops1 as [|o r IH]; intros st; cbn [app run_ops]; [reflexivity|].
    destruct (step_op s st o); [apply IH|reflexivity].
  Qed.

  Lemma init_store_zero c (l : list rleaf) : forall m, kv_get c (fold_left (fun m l => kv_add (snd l) 0 m) l m) = kv_get c m.
  Proof.
    induction l as [|x l IH]; intros m; cbn [fold_left]; [reflexivity|]. rewrite IH. rewrite kv_get_add.
    match goal with |- context [if ?b then _ else _] => destruct b end; lia.
  Qed.
  Lemma phi_init c : phi c all (mkRT (init_store all) []) = 0.
  Proof.
    unfold phi. cbn [rt_store rt_bufs]. unfold init_store. rewrite init_store_zero. cbn [kv_get].
    rewrite pending_zero; [reflexivity|]. intros; reflexivity.
  Qed.

  (* local and auto-flush forms: once the struct has been flushed, every child holds exactly the
     amounts of the calls that addressed it, whatever flushes happened on the way *)
  Theorem flush_delivers c ops st' : is_local_metric (dc_type d) = true ->
    run_ops s (mkRT (init_store all) []) (ops ++ [OFlush []]) = Some st' ->
    kv_get c (rt_store st') = delivered tg ls names c ops.
  Proof.
    intros LO. rewrite run_ops_app. destruct (run_ops s (mkRT (init_store all) []) ops) as [st1|] eqn:R; [|discriminate].
    cbn [run_ops step_op]. change (su_local s) with (is_local_metric (dc_type d)). rewrite LO. cbn [negb].
    change (su_names s) with names.
    assert (E : match su_form s with
                | FStatic => match walk (su_tree s) [] with
                             | Some t => match resolve_leaves names (tree_leaves t) with Some lv => Some (flush_leaves st1 lv) | None => None end
                             | None => None end
                | FAuto => match resolve_leaves names (tree_leaves (su_tree s)) with Some lv => Some (flush_leaves st1 lv) | None => None end
                end = Some (flush_leaves st1 all)).
    { cbn [walk]. rewrite leaves_all. destruct (su_form s); reflexivity. }
    rewrite E. intros H; inversion H; subst. rewrite flush_all_store; [|apply all_nodup].
    rewrite (run_phi c ops _ _ R). rewrite phi_init. lia.
  Qed.

  (* non-local forms: every call reaches its child at once *)
  Lemma nonlocal_bufs st o st' : is_local_metric (dc_type d) = false -> step_op s st o = Some st' -> rt_bufs st' = rt_bufs st.
  Proof.
    intros LO. destruct o as [p x|p]; cbn [step_op]; change (su_local s) with (is_local_metric (dc_type d)); rewrite LO; cbn [negb]; [|discriminate].
    destruct (locate s p); [|discriminate]. destruct (resolve_leaf (su_names s) s0); [|discriminate].
    intros H; inversion H; subst. reflexivity.
  Qed.
  Theorem direct_delivers c ops st' : is_local_metric (dc_type d) = false ->
    run_ops s (mkRT (init_store all) []) ops = Some st' ->
    kv_get c (rt_store st') = delivered tg ls names c ops.
  Proof.
    intros LO R. pose proof (run_phi c ops _ _ R) as P. rewrite phi_init, N.add_0_l in P. rewrite <- P. unfold phi.
    assert (B : forall ops st st', run_ops s st ops = Some st' -> rt_bufs st' = rt_bufs st).
    { clear - LO. induction ops as [|o r IH]; intros st st'; cbn [run_ops]; [intros H; inversion H; reflexivity|].
      destruct (step_op s st o) as [st1|] eqn:E; [|discriminate]. intros H. rewrite (IH _ _ H).
      eapply nonlocal_bufs; eauto. }
    rewrite (B _ _ _ R). cbn [rt_bufs]. rewrite pending_zero; [lia|]. intros; reflexivity.
  Qed.

  (* valid calls never get stuck (so the two theorems above are about something) *)
  Definition op_valid (o : sop) : Prop :=
    match o with
    | OUpd p _ => denote tg ls p <> None
    | OFlush p => is_local_metric (dc_type d) = true
                  /\ match dc_form d with FStatic => path_values tg ls p <> None | FAuto => p = [] end
    end.
  Lemma step_total st o : op_valid o -> exists st', step_op s st o = Some st'.
  Proof.
    pose proof leaves_all as LA. destruct WF as (_ & (NE & NK & W) & FO).
    destruct o as [p x|p]; cbn [op_valid step_op].
    - intros V. rewrite locate_eq. destruct (denote tg ls p) as [vs|] eqn:D; [|congruence]. cbn [option_map].
      pose proof (denote_spec _ _ _ _ D) as (_ & Ln & _). unfold s at 1. cbn [setup_with su_names].
      rewrite resolve_static_leaf; auto. destruct (su_local s); [|eauto].
      destruct (su_form s); [eauto|]. destruct (su_auto s); [|eauto]. change (su_names s) with names. rewrite LA. eauto.
    - intros [LO V]. change (su_local s) with (is_local_metric (dc_type d)). rewrite LO. cbn [negb].
      change (su_names s) with names. change (su_form s) with (dc_form d). rewrite su_tree_eq. rewrite su_tree_eq in LA.
      destruct (dc_form d) eqn:Fm.
      + unfold static_tree. rewrite walk_gen; auto. destruct (path_values tg ls p) as [vs0|] eqn:E; [|congruence].
        cbn [option_map app]. rewrite elems_id, tree_leaves_gen.
        pose proof (path_values_In _ _ _ _ E) as F0.
        rewrite (resolve_leaves_map names _ (fun vs => leaf_of names ls (vs0 ++ vs))); [eauto|].
        intros vs Hvs. apply resolve_static_leaf. apply all_paths_In in Hvs.
        assert (F : Forall2 (fun l v => In v (rl_vals l)) ls (vs0 ++ vs)).
        { rewrite <- (firstn_skipn (length vs0) ls). apply Forall2_app; auto. }
        apply Forall2_len in F. auto.
      + subst p. rewrite LA. eauto.
  Qed.
  Theorem run_total ops : Forall op_valid ops -> forall st, exists st', run_ops s st ops = Some st'.
  Proof.
    induction 1 as [|o r V F IH]; intros st; cbn [run_ops]; [eauto|].
    destruct (step_total st o V) as [st1 ->]. apply IH.
  Qed.
End Run.

(* ================= J. packaging ================= *)
Lemma denote_fields tg ls vs : Forall rl_ok ls -> Forall2 (fun l v => In v (rl_vals l)) ls vs ->
  denote tg ls (map (fun v => SField (v_id v)) vs) = Some vs.
Proof.
  intros W F. unfold denote. rewrite path_values_fields; auto. apply Forall2_len in F. rewrite <- F, Nat.eqb_refl. reflexivity.
Qed.
Lemma denote_gets tg ls vs : Forall rl_ok ls -> Forall2 (fun l v => In v (rl_vals l)) ls vs ->
  Forall (fun l => rl_pats l <> None) ls -> denote tg ls (map (fun v => SGet (v_id v)) vs) = Some vs.
Proof.
  intros W F E. unfold denote. rewrite path_values_gets; auto. apply Forall2_len in F. rewrite <- F, Nat.eqb_refl. reflexivity.
Qed.
Lemma denote_trys ls vs : Forall2 (fun l v => In v (rl_vals l)) ls vs ->
  Forall (fun l => NoDup (map v_str (rl_vals l))) ls -> denote true ls (map (fun v => STry (v_str v)) vs) = Some vs.
Proof.
  intros F E. unfold denote. rewrite path_values_trys; auto. apply Forall2_len in F. rewrite <- F, Nat.eqb_refl. reflexivity.
Qed.

Lemma skipn_cons_In {X} k (l : list X) x r : skipn k l = x :: r -> In x l.
Proof. intros H. rewrite <- (firstn_skipn k l). apply in_or_app. right. rewrite H. left. reflexivity. Qed.

(* the struct reached by a partial path, and its three accessors *)
Theorem node_accessors {A L} (elem : nat -> vdef -> A) (leaf : list A -> L) tg ls p vs0 l rest :
  Forall rl_ok ls -> path_values tg ls p = Some vs0 -> skipn (length vs0) ls = l :: rest ->
  exists node, walk (gen elem leaf tg O [] ls) p = Some node
    /\ (forall v, In v (rl_vals l) -> exists sub, acc_field (v_id v) node = Some sub
                                            /\ walk (gen elem leaf tg O [] ls) (p ++ [SField (v_id v)]) = Some sub)
    /\ (forall s, tg = true -> (acc_try s node = None <-> ~ In s (map v_str (rl_vals l))))
    /\ (forall v, tg = true -> NoDup (map v_str (rl_vals l)) -> In v (rl_vals l) ->
                  acc_try (v_str v) node = acc_field (v_id v) node)
    /\ (forall s, tg = true -> In s (map v_str (rl_vals l)) ->
                  exists v, In v (rl_vals l) /\ v_str v = s /\ acc_try s node = acc_field (v_id v) node)
    /\ (forall v, rl_pats l <> None -> In v (rl_vals l) -> acc_get (v_id v) node = acc_field (v_id v) node)
    /\ (forall x, rl_pats l = None \/ ~ In x (ids_of l) -> acc_get x node = None).
Proof.
  intros W E S. assert (OK : rl_ok l). { rewrite Forall_forall in W. apply W. eapply skipn_cons_In; eauto. }
  eexists. split; [rewrite walk_gen; auto; rewrite E; cbn [option_map]; rewrite S; reflexivity|].
  split; [|split; [|split; [|split; [|split]]]].
  - intros v Hv. eexists. split; [apply field_declared; auto|].
    assert (Wk : forall (t : tree L) q st, walk t (q ++ [st]) = match walk t q with Some t' => acc st t' | None => None end).
    { intros t q. revert t. induction q as [|a q IH]; intros t st; cbn [app walk]; [destruct (acc st t); reflexivity|].
      destruct (acc a t); [apply IH|reflexivity]. }
    rewrite Wk. rewrite walk_gen; auto. rewrite E. cbn [option_map]. rewrite S. cbn [acc]. apply field_declared; auto.
  - intros s ->. apply try_get_none_iff; auto.
  - intros v -> N H. apply try_get_declared; auto.
  - intros s -> H. apply try_get_declared_first; auto.
  - intros v Hp H. apply get_enum; auto.
  - intros x [H|H]; [apply get_inline; auto|apply get_unknown_variant; auto].
Qed.

(* ================= K. the function that is executed against the compiled batches ================= *)
Theorem model_c19_delivers c ls ops children answers :
  resolve (c_decl c) = Some ls -> Permutation (c_names c) (keys_of ls) ->
  c_ops c = (if is_local_metric (dc_type (c_decl c)) then ops ++ [OFlush []] else ops) ->
  model_c19 c = Some (children, answers) ->
  exists st, children = map (fun kvp => (combine (c_names c) (fst kvp), snd kvp)) (rt_store st)
    /\ forall ch, kv_get ch (rt_store st) = delivered (has_try (dc_form (c_decl c))) ls (c_names c) ch ops.
Proof.
  intros R P O. unfold model_c19. destruct (wf_declb (c_decl c)) eqn:Wb; cbn [negb]; [|discriminate].
  destruct (wf_declb_sound _ Wb) as (ls' & W). assert (ls' = ls) by (destruct W as (R' & _); congruence). subst ls'.
  rewrite R. rewrite mk_setup_default.
  pose proof (default_layout_inj ls) as I.
  rewrite (leaves_all _ _ _ (c_auto c) (default_layout ls) W P).
  destruct (run_ops _ _ (c_ops c)) as [st|] eqn:Run; [|discriminate]. intros H. inversion H; subst. clear H.
  exists st. split; [reflexivity|]. intros ch. rewrite O in Run.
  destruct (is_local_metric (dc_type (c_decl c))) eqn:LO.
  - eapply flush_delivers; eauto.
  - eapply direct_delivers; eauto.
Qed.
