(* C10: "the linearisation search does not answer NotFound" on validated traces, for scenarios without collect calls:
   from the ghost log to a derivation of [lin_exists] for the relaxed action system of Spec/SpecC10.v; with
   [dfs_notfound_exact] and [relaxed_spec_of_validated_is_search] the full relaxed spec follows on that sub-domain. *)
Require Import PV.Base.Prelude PV.Base.StrFacts PV.Model.Conc PV.Model.VecConc PV.Spec.SpecC10.
Require Import PV.Proofs.VecConcBase PV.Proofs.VecConcLin PV.Proofs.VecConcFacts PV.Proofs.VecConcRT PV.Proofs.VecConcStrict.
Require Import PV.Proofs.VecConcSpec PV.Proofs.VecConcSpec2 PV.Proofs.VecConcSpec3.
From Coq Require Import Arith Lia Permutation Sorted.
Open Scope nat_scope.

(* ------------------------------------------------------------------ from a linearisation list to [lin_exists] *)
Definition atid (a : act) : nat := c_t (a_c a).
Definition tidb (t : nat) (a : act) : bool := Nat.eqb (atid a) t.
Definition rows_of (n : nat) (L : list act) : list (list act) := map (fun t => filter (tidb t) L) (seq 0 n).

Fixpoint replay_ok (x : sst) (L : list act) : Prop :=
  match L with [] => True | a :: L' => exists x', apply_act x a = Some x' /\ replay_ok x' L' end.
(* real time along L: nobody later in L belongs to a call that returned before the call of an earlier member was invoked *)
Fixpoint rt_ok (L : list act) : Prop :=
  match L with [] => True | a :: L' => (forall b, In b L' -> (c_ri (a_c b) <? c_ci (a_c a))%N = false) /\ rt_ok L' end.

Lemma pop_map_seq (f g : nat -> list act) n : forall s k a rest,
  k < n -> f (s + k) = a :: rest -> g (s + k) = rest -> (forall u, u <> s + k -> g u = f u) ->
  pop k (map f (seq s n)) = Some (a, map g (seq s n)).
Proof.
  induction n as [|n IH]; intros s k a rest Hk Hf Hg Ho; [lia|]. cbn [seq map]. destruct k as [|k]; cbn [pop].
  - rewrite Nat.add_0_r in *. rewrite Hf, Hg. f_equal. f_equal. f_equal. apply map_ext_in. intros u Hu. apply in_seq in Hu. symmetry. apply Ho. lia.
  - rewrite (IH (S s) k a rest); try lia.
    + rewrite (Ho s) by lia. reflexivity.
    + rewrite <- Hf. f_equal. lia.
    + rewrite <- Hg. f_equal. lia.
    + intros u Hu. apply Ho. lia.
Qed.
Lemma heads_ok_all a rem : (forall row b, In row rem -> In b row -> (c_ri (a_c b) <? c_ci (a_c a))%N = false) -> heads_ok a rem = true.
Proof.
  induction rem as [|row rem IH]; intros H; cbn [heads_ok]; auto. destruct row as [|b r].
  - apply IH. intros row' b' Hr. apply H. right; auto.
  - rewrite (H (b :: r) b (or_introl eq_refl) (or_introl eq_refl)). cbn. apply IH. intros row' b' Hr. apply H. right; auto.
Qed.
Lemma all_done_rows n : all_done (rows_of n []) = true.
Proof. unfold all_done, rows_of. apply forallb_forall. intros x Hx. apply in_map_iff in Hx as (t & <- & _). reflexivity. Qed.

Lemma lin_from_list n : forall L x,
  (forall a, In a L -> atid a < n) -> (forall a, In a L -> (c_ri (a_c a) <? c_ci (a_c a))%N = false) ->
  rt_ok L -> replay_ok x L -> lin_exists x (rows_of n L).
Proof.
  induction L as [|a L IH]; intros x Ht Hw Hrt Hrp.
  - apply lin_done. apply all_done_rows.
  - cbn [rt_ok replay_ok] in Hrt, Hrp. destruct Hrt as [Hrta Hrt]. destruct Hrp as (x' & Ha & Hrp).
    eapply lin_step with (i := atid a) (a := a) (rem' := rows_of n L) (s' := x').
    + unfold rows_of. apply (pop_map_seq _ (fun u => filter (tidb u) L) n 0 (atid a) a (filter (tidb (atid a)) L)).
      * apply Ht. left; auto.
      * cbn [filter]. unfold tidb at 1. rewrite Nat.eqb_refl. reflexivity.
      * reflexivity.
      * intros u Hu. cbn [filter]. unfold tidb at 2. destruct (Nat.eqb (atid a) u) eqn:E; auto. apply Nat.eqb_eq in E. cbn in Hu. congruence.
    + apply heads_ok_all. intros row b Hrow Hb. unfold rows_of in Hrow. apply in_map_iff in Hrow as (u & <- & _).
      apply filter_In in Hb as [Hb _]. destruct Hb as [<-|Hb]; [apply Hw; left; auto | apply Hrta; auto].
    + exact Ha.
    + apply IH; auto; intros; [apply Ht | apply Hw]; right; auto.
Qed.

(* ------------------------------------------------------------------ two strictly sorted lists with the same members are equal *)
Section SortedUnique.
Context {A : Type} (lt : A -> A -> Prop).
Hypothesis lt_irrefl : forall a, ~ lt a a.
Hypothesis lt_asym : forall a b, lt a b -> lt b a -> False.
Lemma sorted_unique l1 : forall l2, StronglySorted lt l1 -> StronglySorted lt l2 -> (forall x, In x l1 <-> In x l2) -> l1 = l2.
Proof.
  induction l1 as [|a l1 IH]; intros l2 S1 S2 H.
  - destruct l2 as [|b l2]; auto. exfalso. apply (H b). left; auto.
  - destruct l2 as [|b l2]; [exfalso; apply (H a); left; auto|].
    apply StronglySorted_inv in S1 as [S1 F1]. apply StronglySorted_inv in S2 as [S2 F2]. rewrite Forall_forall in F1, F2.
    assert (a = b).
    { destruct (proj1 (H a) (or_introl eq_refl)) as [E|Ha]; auto. destruct (proj2 (H b) (or_introl eq_refl)) as [E|Hb]; auto.
      exfalso. apply (lt_asym a b); auto. }
    subst b. f_equal. apply IH; auto. intros x. split; intros Hx.
    + destruct (proj1 (H x) (or_intror Hx)) as [E|Hx']; auto. subst x. exfalso. apply (lt_irrefl a). apply F1; auto.
    + destruct (proj2 (H x) (or_intror Hx)) as [E|Hx']; auto. subst x. exfalso. apply (lt_irrefl a). apply F2; auto.
Qed.
Lemma ssorted_flat_map {B} (f : B -> list A) l :
  (forall x, In x l -> StronglySorted lt (f x)) ->
  StronglySorted (fun x y => forall a b, In a (f x) -> In b (f y) -> lt a b) l -> StronglySorted lt (flat_map f l).
Proof.
  intros Hf S. induction S as [|x l S IH F]; cbn; [constructor|].
  assert (Hx : StronglySorted lt (f x)) by (apply Hf; left; auto).
  assert (IH' : StronglySorted lt (flat_map f l)) by (apply IH; intros; apply Hf; right; auto).
  rewrite Forall_forall in F. clear IH S.
  assert (Hcross : forall a b, In a (f x) -> In b (flat_map f l) -> lt a b).
  { intros a b Ha Hb. apply in_flat_map in Hb as (y & Hy & Hb). eapply F; eauto. }
  revert Hx Hcross. generalize (f x). intros fx. induction fx as [|a fx IHf]; intros Hx Hcross; cbn; auto.
  apply StronglySorted_inv in Hx as [Hx Fa]. constructor.
  - apply IHf; auto. intros; apply Hcross; auto. right; auto.
  - apply Forall_forall. intros b Hb. apply in_app_iff in Hb as [Hb|Hb]; [rewrite Forall_forall in Fa; auto | apply Hcross; auto; left; auto].
Qed.
Lemma ssorted_map {B} (f : B -> A) l : StronglySorted (fun x y => lt (f x) (f y)) l -> StronglySorted lt (map f l).
Proof.
  induction 1 as [|x l S IH F]; cbn; constructor; auto. rewrite Forall_forall in *. intros y Hy. apply in_map_iff in Hy as (z & <- & Hz). auto.
Qed.
End SortedUnique.

Lemma ssorted_filter' {A} (P : A -> A -> Prop) (f : A -> bool) l : StronglySorted P l -> StronglySorted P (filter f l).
Proof.
  induction 1 as [|a l S IH F]; cbn; [constructor|]. destruct (f a); auto. constructor; auto.
  rewrite Forall_forall in *. intros x Hx. apply filter_In in Hx as [Hx _]. auto.
Qed.
Lemma ssorted_snoc {A} (P : A -> A -> Prop) l x : StronglySorted P l -> (forall y, In y l -> P y x) -> StronglySorted P (l ++ [x]).
Proof.
  induction 1 as [|a l S IH F]; intros H; cbn; [repeat constructor|]. constructor.
  - apply IH. intros; apply H; right; auto.
  - apply Forall_forall. intros y Hy. apply in_app_iff in Hy as [Hy|[<-|[]]]; [rewrite Forall_forall in F; auto | apply H; left; auto].
Qed.
Lemma ssorted_rev {A} (P : A -> A -> Prop) l : StronglySorted P l -> StronglySorted (fun a b => P b a) (rev l).
Proof.
  induction 1 as [|a l S IH F]; cbn; [constructor|]. apply ssorted_snoc; auto. intros y Hy. rewrite <- in_rev in Hy.
  rewrite Forall_forall in F. auto.
Qed.

(* ------------------------------------------------------------------ completed calls are recorded in return order *)
Definition d_tr (d : drec) : nat := snd d.
Lemma reach_done_sorted nl tr s : reach nl tr s -> StronglySorted (fun a b => d_tr b < d_tr a) (g_done s).
Proof.
  intros R; induction R as [|tr s l s' R IH Hs]; [constructor|].
  pose proof (reach_ginv nl tr s R) as G.
  unfold step in Hs. destruct (step0 s l) as [s0|] eqn:E; [|discriminate]. inversion Hs; subst s'. cbn [g_done tick].
  destruct (step0_calls s l s0 E) as [(t & c & _ & _ & _ & Ed)|[(t & r & c & ti & _ & _ & _ & Ed)|(_ & _ & Ed)]]; rewrite Ed; auto.
  constructor; auto. apply Forall_forall. intros [[[[t' c'] r'] ti'] tr'] Hin. destruct (G_done tr s G _ _ _ _ _ Hin) as (_ & H & _). cbn. lia.
Qed.

Lemma isort_id l : StronglySorted (fun a b => (c_ci a < c_ci b)%N) l -> fold_right insert_ci [] l = l.
Proof.
  induction 1 as [|a l S IH F]; cbn [fold_right]; auto. rewrite IH. destruct l as [|x r]; cbn; auto.
  apply Forall_inv in F. apply N.ltb_lt in F. rewrite F. reflexivity.
Qed.

Definition inwin (d : drec) (e : lent) : bool :=
  match d with (t, _, _, ti, trr) => Nat.eqb (le_tid e) t && Nat.leb ti (le_time e) && Nat.leb (le_time e) trr end.
Definition owner (s : vstate) (e : lent) : option drec := find (fun d => inwin d e) (g_done s).
Definition kind_of_op (o : aop) : akind :=
  match o with AGet _ => KGet | AUpd _ _ => KUpd | ARemove _ => KRem | AReset => KReset | ACollect => KSnap | ARead _ => KEnd end.
Definition act_of (tr : list label) (s : vstate) (e : lent) : act :=
  {| a_kind := kind_of_op (le_op e);
     a_c := conv tr (match owner s e with Some d => d | None => (O, CBadOp, RUnit, O, O) end) |}.
Definition rank (k : akind) : nat := match k with KUpd | KEnd => 1 | _ => 0 end.
Definition klt (a b : act) : Prop :=
  (c_ci (a_c a) < c_ci (a_c b))%N \/ (c_ci (a_c a) = c_ci (a_c b) /\ rank (a_kind a) < rank (a_kind b)).
Lemma klt_irrefl a : ~ klt a a.
Proof. unfold klt. lia. Qed.
Lemma klt_asym a b : klt a b -> klt b a -> False.
Proof. unfold klt. lia. Qed.

Section Rows.
Variables (nl : nat) (tr : list label) (s : vstate).
Hypothesis R : reach nl tr s.
Hypothesis Hopen : forall t, g_open s t = None.
Let cs := map (conv tr) (rev (g_done s)).
Let G := reach_ginv nl tr s R.

Lemma inwin_spec t c r ti trr e : inwin (t, c, r, ti, trr) e = true <-> le_tid e = t /\ ti <= le_time e <= trr.
Proof.
  cbn. rewrite !andb_true_iff, Nat.eqb_eq, !Nat.leb_le. tauto.
Qed.

Lemma owner_unique e t c r ti trr : In (t, c, r, ti, trr) (g_done s) -> le_tid e = t -> ti <= le_time e <= trr ->
  owner s e = Some (t, c, r, ti, trr).
Proof.
  intros Hd Ht Hw. subst t. unfold owner. destruct (find (fun d => inwin d e) (g_done s)) as [[[[[t' c'] r'] ti'] tr']|] eqn:E.
  - apply find_some in E as [Hd' Hi]. apply inwin_spec in Hi as [Ht' Hw']. subst t'.
    destruct (G_disj tr s G _ _ _ _ _ _ _ _ _ Hd Hd') as [Eq|[Eq|Eq]]; try lia. inversion Eq; subst. reflexivity.
  - pose proof (find_none _ _ E _ Hd) as Hn. pose proof (proj2 (inwin_spec (le_tid e) c r ti trr e) (conj eq_refl Hw)) as X. cbn beta in Hn. congruence.
Qed.

(* the calls of one thread, in the order of the spec's rows *)
Lemma thread_calls_sorted t : StronglySorted (fun a b => (c_ci a < c_ci b)%N) (filter (fun c => Nat.eqb (c_t c) t) cs).
Proof.
  pose proof (ssorted_rev _ _ (reach_done_sorted nl tr s R)) as S. cbn beta in S.
  assert (Hall : forall d, In d (rev (g_done s)) -> In d (g_done s)) by (intros d; rewrite <- in_rev; auto).
  unfold cs. revert S Hall. generalize (rev (g_done s)). intros L S Hall. induction S as [|d L S IH F]; cbn; [constructor|].
  assert (IH' : StronglySorted (fun a b => (c_ci a < c_ci b)%N) (filter (fun c => Nat.eqb (c_t c) t) (map (conv tr) L))).
  { apply IH. intros; apply Hall; right; auto. }
  destruct (Nat.eqb (c_t (conv tr d)) t) eqn:Et; auto. constructor; auto.
  apply Forall_forall. intros c' Hc'. apply filter_In in Hc' as [Hc' Et']. apply in_map_iff in Hc' as (d' & <- & Hd').
  rewrite Forall_forall in F. specialize (F d' Hd'). unfold d_tr in F.
  destruct d as [[[[t1 c1] r1] ti1] tr1]. destruct d' as [[[[t2 c2] r2] ti2] tr2]. cbn in F, Et, Et' |- *.
  apply Nat.eqb_eq in Et, Et'. subst t1 t2.
  assert (H1 : In (t, c1, r1, ti1, tr1) (g_done s)) by (apply Hall; left; auto).
  assert (H2 : In (t, c2, r2, ti2, tr2) (g_done s)) by (apply Hall; right; auto).
  destruct (G_done tr s G _ _ _ _ _ H1) as (A1 & _ & _ & C1 & _). destruct (G_done tr s G _ _ _ _ _ H2) as (A2 & _ & _ & C2 & _).
  destruct (G_disj tr s G _ _ _ _ _ _ _ _ _ H1 H2) as [Eq|[Eq|Eq]]; [inversion Eq; lia | | lia].
  pose proof (evpos_strict tr ti1 ti2 _ C1 ltac:(lia)). lia.
Qed.

Lemma thread_acts_eq t : thread_acts false nl cs t = flat_map (acts_of false nl) (filter (fun c => Nat.eqb (c_t c) t) cs).
Proof. unfold thread_acts. rewrite isort_id; auto. apply thread_calls_sorted. Qed.

Lemma max_tid_bound (l : list crec) c : In c l -> c_t c <= max_tid l.
Proof.
  unfold max_tid. assert (Gen : forall l m, (m <= fold_left (fun m c => Nat.max m (c_t c)) l m) /\ (forall c, In c l -> c_t c <= fold_left (fun m c => Nat.max m (c_t c)) l m)).
  { induction l0 as [|x l0 IH]; intros m; cbn; [split; [lia | tauto]|]. destruct (IH (Nat.max m (c_t x))) as [A B]. split; [lia|].
    intros c0 [->|H]; [lia | auto]. }
  apply Gen.
Qed.
End Rows.

Lemma rm_collect_like nl c r ls o x : ret_matches nl c r ls -> In (o, x) ls -> (o = ACollect \/ exists ch, o = ARead ch) -> c = CVCollect.
Proof.
  destruct c; cbn; try tauto.
  - destruct (Nat.eqb (length k) nl).
    + intros (_ & ch0 & ->) [H|[H|[]]] [->|(ch & ->)]; discriminate.
    + intros (_ & ->) [].
  - destruct (Nat.eqb (length k) nl).
    + intros [(_ & ->)|(_ & ->)] [H|[]] [->|(ch & ->)]; discriminate.
    + intros (_ & ->) [].
  - intros (_ & ->) [H|[]] [->|(ch & ->)]; discriminate.
Qed.
Lemma filter_map_swap {A B} (p : B -> bool) (f : A -> B) l : filter p (map f l) = map f (filter (fun x => p (f x)) l).
Proof. induction l as [|x l IH]; cbn; auto. destruct (p (f x)); cbn; rewrite IH; auto. Qed.
Lemma ssorted_impl_in {A} (P Q : A -> A -> Prop) l : StronglySorted P l -> (forall x y, In x l -> In y l -> P x y -> Q x y) -> StronglySorted Q l.
Proof.
  induction 1 as [|a l S IH F]; intros H; constructor.
  - apply IH. intros; apply H; auto; right; auto.
  - rewrite Forall_forall in *. intros y Hy. apply H; auto; [left | right]; auto.
Qed.
Lemma acts_of_call nl c a : In a (acts_of false nl c) -> a_c a = c.
Proof.
  unfold acts_of. destruct (c_call c); cbn; try tauto.
  - destruct (Nat.eqb (length k) nl); cbn; [intros [<-|[<-|[]]]; auto | tauto].
  - destruct (Nat.eqb (length k) nl); cbn; [intros [<-|[]]; auto | tauto].
  - intros [<-|[]]; auto.
  - intros [<-|[<-|[]]]; auto.
Qed.
Lemma ss2 (a b : act) : klt a b -> StronglySorted klt [a; b].
Proof. intros H. constructor; [constructor; [constructor | constructor] | constructor; [exact H | constructor]]. Qed.
Lemma ss1 (a : act) : StronglySorted klt [a].
Proof. constructor; constructor. Qed.
Lemma acts_of_sorted nl c : StronglySorted klt (acts_of false nl c).
Proof.
  unfold acts_of. destruct (c_call c); try apply SSorted_nil.
  - destruct (Nat.eqb (length k) nl); [apply ss2; right; cbn; auto | apply SSorted_nil].
  - destruct (Nat.eqb (length k) nl); [apply ss1 | apply SSorted_nil].
  - apply ss1.
  - apply ss2; right; cbn; auto.
Qed.

Section Lin.
Variables (nl : nat) (tr : list label) (s : vstate).
Hypothesis R : reach nl tr s.
Hypothesis Hopen : forall t, g_open s t = None.
Hypothesis Hnc : forall t c r ti trr, In (t, c, r, ti, trr) (g_done s) -> c <> CVCollect.
Let cs := map (conv tr) (rev (g_done s)).
Let G := reach_ginv nl tr s R.
Let E := rev (g_lin s).
Let Lacts := map (act_of tr s) E.

Lemma E_sorted : StronglySorted (fun a b => le_time a < le_time b) E.
Proof. apply (ssorted_rev _ _ (G_sorted tr s G)). Qed.
Lemma in_E e : In e E <-> In e (g_lin s).
Proof. unfold E. rewrite <- in_rev. tauto. Qed.

(* an entry, its call record and its action *)
Lemma entry_act e : In e (g_lin s) ->
  exists c r ti trr, In (le_tid e, c, r, ti, trr) (g_done s) /\ ti <= le_time e <= trr
    /\ In (opres e) (lins_in (le_tid e) ti trr (g_lin s)) /\ ret_matches nl c r (lins_in (le_tid e) ti trr (g_lin s))
    /\ ti < trr /\ nth_error tr ti = Some (LE (ECall (le_tid e) c)) /\ nth_error tr trr = Some (LE (ERet (le_tid e) r))
    /\ act_of tr s e = {| a_kind := kind_of_op (le_op e); a_c := conv tr (le_tid e, c, r, ti, trr) |}.
Proof.
  intros He. destruct (owner_done nl tr s R Hopen e He) as (c & r & ti & trr & Hd & Hw & Hin & Hm & Hti & Hc & Hr).
  exists c, r, ti, trr. repeat split; auto; try lia. unfold act_of. rewrite (owner_unique nl tr s R e _ c r ti trr Hd eq_refl Hw). reflexivity.
Qed.

(* the entries of a call's window, in time order *)
Lemma window_list t c r ti trr : In (t, c, r, ti, trr) (g_done s) ->
  exists es, map opres es = lins_in t ti trr (g_lin s) /\ StronglySorted (fun a b => le_time a < le_time b) es
             /\ forall e, In e es <-> In e (g_lin s) /\ le_tid e = t /\ ti <= le_time e <= trr.
Proof.
  intros Hd. exists (rev (filter (winb t ti trr) (g_lin s))). split; [reflexivity|]. split.
  - apply (ssorted_rev (fun a b => le_time b < le_time a)). apply ssorted_filter'. apply (G_sorted tr s G).
  - intros e. rewrite <- in_rev, filter_In. unfold winb, mineb. rewrite !andb_true_iff, Nat.eqb_eq, !Nat.leb_le. tauto.
Qed.

(* two entries of one thread: the actions are ordered like the entries *)
Lemma acts_ordered e e' : In e (g_lin s) -> In e' (g_lin s) -> le_tid e = le_tid e' -> le_time e < le_time e' ->
  klt (act_of tr s e) (act_of tr s e').
Proof.
  intros He He' Ht Hlt.
  destruct (entry_act e He) as (c & r & ti & trr & Hd & Hw & Hin & Hm & Hti & Hc & Hr & Ea).
  destruct (entry_act e' He') as (c' & r' & ti' & trr' & Hd' & Hw' & Hin' & Hm' & Hti' & Hc' & Hr' & Ea').
  rewrite Ea, Ea'. unfold klt. cbn [a_c a_kind conv c_ci]. rewrite <- Ht in *.
  destruct (G_disj tr s G _ _ _ _ _ _ _ _ _ Hd Hd') as [Eq|[Eq|Eq]]; [| | lia].
  - (* same call *)
    inversion Eq; subst c' r' ti' trr'. right. split; auto.
    destruct (window_list _ _ _ _ _ Hd) as (es & Hes & Ses & Hmem).
    assert (M1 : In e es) by (apply Hmem; auto). assert (M2 : In e' es) by (apply Hmem; auto).
    rewrite <- Hes in Hm. pose proof (Hnc _ _ _ _ _ Hd) as Hncd.
    assert (Hne : e <> e') by (intros ->; lia).
    destruct c; cbn in Hm; try tauto.
    + destruct (Nat.eqb (length k) nl); [destruct Hm as (_ & ch & Hm) | destruct Hm as (_ & Hm)].
      * destruct es as [|e1 [|e2 [|e3 es]]]; try discriminate. inversion Hm as [[O1 O2]].
        apply StronglySorted_inv in Ses as [_ F]. apply Forall_inv in F.
        destruct M1 as [<-|[<-|[]]], M2 as [<-|[<-|[]]]; try congruence; try lia.
        assert (P1 : le_op e1 = AGet k) by (unfold opres in O1; inversion O1; auto).
        assert (P2 : le_op e2 = AUpd ch d) by (unfold opres in O2; inversion O2; auto). rewrite P1, P2. cbn. lia.
      * destruct es; [destruct M1 | discriminate].
    + destruct (Nat.eqb (length k) nl).
      * destruct Hm as [(_ & Hm)|(_ & Hm)]; destruct es as [|e1 [|e2 es]]; try discriminate; destruct M1 as [<-|[]], M2 as [<-|[]]; congruence.
      * destruct Hm as (_ & Hm). destruct es; [destruct M1 | discriminate].
    + destruct Hm as (_ & Hm). destruct es as [|e1 [|e2 es]]; try discriminate. destruct M1 as [<-|[]], M2 as [<-|[]]. congruence.
  - left. pose proof (evpos_strict tr ti ti' _ Hc ltac:(lia)). lia.
Qed.

Lemma act_tid e : In e (g_lin s) -> atid (act_of tr s e) = le_tid e.
Proof. intros He. destruct (entry_act e He) as (c & r & ti & trr & _ & _ & _ & _ & _ & _ & _ & Ea). rewrite Ea. reflexivity. Qed.

(* the spec's row of thread t is the thread's part of the linearisation list *)
Lemma rows_equal t : flat_map (acts_of false nl) (filter (fun c => Nat.eqb (c_t c) t) cs) = filter (tidb t) Lacts.
Proof.
  apply (sorted_unique klt klt_irrefl klt_asym).
  - apply ssorted_flat_map; [intros; apply acts_of_sorted|].
    eapply ssorted_impl_in; [apply (thread_calls_sorted nl tr s R t)|].
    intros x y _ _ Hxy a b Ha Hb. apply acts_of_call in Ha, Hb. left. rewrite Ha, Hb. exact Hxy.
  - unfold Lacts. rewrite filter_map_swap. apply ssorted_map.
    eapply ssorted_impl_in; [apply ssorted_filter'; apply E_sorted|].
    intros e e' He He' Hlt. apply filter_In in He as [He Ht]. apply filter_In in He' as [He' Ht'].
    apply in_E in He, He'. unfold tidb in Ht, Ht'. apply Nat.eqb_eq in Ht, Ht'. rewrite act_tid in Ht, Ht' by auto.
    apply acts_ordered; auto. congruence.
  - intros a. rewrite in_flat_map, filter_In. unfold Lacts. rewrite in_map_iff. split.
    + (* every action of a call of t is the action of one of its entries *)
      intros (c & Hc & Ha). apply filter_In in Hc as [Hc Ht]. apply Nat.eqb_eq in Ht.
      apply (in_cs2 tr s) in Hc as ([[[[t0 c0] r0] ti0] tr0] & Hd & ->). cbn in Ht. subst t0.
      destruct (G_done tr s G _ _ _ _ _ Hd) as (_ & _ & Hm & _). rewrite (reach_nl nl tr s R) in Hm.
      pose proof (Hnc _ _ _ _ _ Hd) as Hncd.
      assert (Hgoal : forall x, In x (lins_in t ti0 tr0 (g_lin s)) -> a = {| a_kind := kind_of_op (fst x); a_c := conv tr (t, c0, r0, ti0, tr0) |} ->
                      (exists e, act_of tr s e = a /\ In e E) /\ tidb t a = true).
      { intros x Hx Ea. destruct (entry_of_done s t _ _ ti0 tr0 x Hd Hx) as (e & He & Eo & Et & Hw).
        destruct (entry_act e He) as (c' & r' & ti' & trr' & Hd' & Hw' & _ & _ & _ & _ & _ & Ea').
        rewrite Et in Hd', Ea'.
        assert (Eq : (c', r', ti', trr') = (c0, r0, ti0, tr0)).
        { destruct (G_disj tr s G _ _ _ _ _ _ _ _ _ Hd' Hd) as [Eq|[Eq|Eq]]; auto; lia. }
        inversion Eq; subst c' r' ti' trr'. split.
        - exists e. split; [|apply in_E; auto]. rewrite Ea', Ea. f_equal. unfold opres in Eo. rewrite <- Eo. reflexivity.
        - rewrite Ea. unfold tidb, atid. cbn. apply Nat.eqb_refl. }
      unfold acts_of in Ha. cbn [conv c_call] in Ha. destruct c0; cbn in Hm, Ha; try tauto.
      * destruct (Nat.eqb (length k) nl); [|destruct Ha]. destruct Hm as (_ & ch & Hls).
        destruct Ha as [<-|[<-|[]]]; [apply (Hgoal (AGet k, RChild ch)) | apply (Hgoal (AUpd ch d, RDone))]; rewrite ?Hls; cbn; auto.
      * destruct (Nat.eqb (length k) nl); [|destruct Ha]. destruct Ha as [<-|[]].
        destruct Hm as [(_ & Hls)|(_ & Hls)]; [apply (Hgoal (ARemove k, RDone)) | apply (Hgoal (ARemove k, RAbsent))]; rewrite ?Hls; cbn; auto.
      * destruct Hm as (_ & Hls). destruct Ha as [<-|[]]. apply (Hgoal (AReset, RDone)); rewrite ?Hls; cbn; auto.
    + (* the action of an entry of t belongs to its call *)
      intros ((e & Ea & He) & Ht). apply in_E in He. unfold tidb in Ht. apply Nat.eqb_eq in Ht. subst a. rewrite act_tid in Ht by auto.
      destruct (entry_act e He) as (c & r & ti & trr & Hd & Hw & Hin & Hm & _ & _ & _ & Ea).
      exists (conv tr (le_tid e, c, r, ti, trr)). split.
      * apply filter_In. split; [apply (in_cs2 tr s); eexists; split; [exact Hd | reflexivity] | cbn; rewrite Ht; apply Nat.eqb_refl].
      * rewrite Ea. unfold acts_of. cbn [conv c_call]. unfold opres in Hin. pose proof (Hnc _ _ _ _ _ Hd) as Hncd.
        destruct (le_op e) eqn:Eop; cbn [kind_of_op].
        -- destruct (rm_get _ _ _ _ _ _ Hm Hin) as (d & ch & -> & Hl & _). rewrite Hl, Nat.eqb_refl. left; auto.
        -- destruct (rm_upd _ _ _ _ _ _ _ Hm Hin) as (k & -> & Hl & _). rewrite Hl, Nat.eqb_refl. right; left; auto.
        -- destruct (rm_remove _ _ _ _ _ _ Hm Hin) as (-> & Hl & _). rewrite Hl, Nat.eqb_refl. left; auto.
        -- rewrite (rm_reset _ _ _ _ _ Hm Hin). left; auto.
        -- exfalso. apply Hncd. eapply rm_collect_like; eauto.
        -- exfalso. apply Hncd. eapply rm_collect_like; eauto.
Qed.

Lemma lacts_member a : In a Lacts -> exists e, In e (g_lin s) /\ a = act_of tr s e.
Proof. unfold Lacts. intros H. apply in_map_iff in H as (e & <- & He). apply in_E in He. eauto. Qed.

Lemma lacts_window a : In a Lacts -> (c_ri (a_c a) <? c_ci (a_c a))%N = false.
Proof.
  intros H. destruct (lacts_member a H) as (e & He & ->).
  destruct (entry_act e He) as (c & r & ti & trr & _ & _ & _ & _ & Hti & _ & _ & Ea). rewrite Ea. cbn.
  apply N.ltb_ge. pose proof (evpos_mono tr ti trr ltac:(lia)). lia.
Qed.
Lemma lacts_tid a : In a Lacts -> atid a < S (max_tid cs).
Proof.
  intros H. destruct (lacts_member a H) as (e & He & ->).
  destruct (entry_act e He) as (c & r & ti & trr & Hd & _ & _ & _ & _ & _ & _ & Ea). rewrite Ea. unfold atid. cbn [a_c].
  assert (Hin : In (conv tr (le_tid e, c, r, ti, trr)) cs) by (apply (in_cs2 tr s); eexists; split; [exact Hd | reflexivity]).
  pose proof (max_tid_bound cs _ Hin). lia.
Qed.
Lemma lacts_rt : rt_ok Lacts.
Proof.
  unfold Lacts. pose proof E_sorted as S. assert (Hall : forall e, In e E -> In e (g_lin s)) by (intros e; apply in_E).
  revert S Hall. generalize E. intros E0 S Hall. induction S as [|e E0 S IH F]; cbn [map rt_ok]; auto. split.
  - intros b Hb. apply in_map_iff in Hb as (e' & <- & He'). rewrite Forall_forall in F. specialize (F e' He').
    destruct (entry_act e (Hall e (or_introl eq_refl))) as (c & r & ti & trr & _ & Hw & _ & _ & _ & _ & _ & Ea).
    destruct (entry_act e' (Hall e' (or_intror He'))) as (c' & r' & ti' & trr' & _ & Hw' & _ & _ & _ & _ & _ & Ea').
    rewrite Ea, Ea'. cbn. apply N.ltb_ge. pose proof (evpos_mono tr ti trr' ltac:(lia)). lia.
  - apply IH. intros; apply Hall; right; auto.
Qed.

(* ---- the spec's sequential map simulates the abstract map (presence of keys) *)
Definition Sim (x : sst) (a : astate) : Prop := forall k, mget k (m_map x) = None <-> child_of a k = None.

Lemma mget_mdel k k' (m : list (skey * N)) : mget k' (mdel k m) = if key_eqb k' k then None else mget k' m.
Proof.
  induction m as [|[k1 v1] m IH]; cbn [mdel mget]; [destruct (key_eqb k' k); auto|]. rewrite (skey_eqb_key k k1).
  destruct (key_eqb k k1) eqn:E1; cbn [mget]; rewrite ?(skey_eqb_key k' k1), IH.
  - apply key_eqb_eq in E1; subst k1. destruct (key_eqb k' k); auto.
  - destruct (key_eqb k' k1) eqn:E2; auto.
    apply key_eqb_eq in E2; subst k1. destruct (key_eqb k' k) eqn:E3; auto. apply key_eqb_eq in E3; subst. rewrite key_eqb_refl in E1. discriminate.
Qed.
Lemma child_get_other a k k' : k' <> k -> child_of (fst (aspec a (AGet k))) k' = child_of a k'.
Proof.
  intros Hn. unfold child_of. cbn. destruct (klookup k (a_map a)); cbn; auto. rewrite klookup_kinsert_other; auto.
Qed.
Lemma child_remove a k k' : child_of (fst (aspec a (ARemove k))) k' = if key_eqb k' k then None else child_of a k'.
Proof.
  unfold child_of. cbn. destruct (key_eqb k' k) eqn:Ek.
  - apply key_eqb_eq in Ek; subst k'. destruct (klookup k (a_map a)) eqn:El; cbn; [rewrite klookup_kremove_same | rewrite El]; auto.
  - apply key_eqb_neq in Ek. destruct (klookup k (a_map a)) eqn:El; cbn; auto. rewrite klookup_kremove_other; auto.
Qed.

Lemma replay_from : forall E2 E1 x, E = E1 ++ E2 -> Sim x (arun ainit (map opres E1)) -> replay_ok x (map (act_of tr s) E2).
Proof.
  induction E2 as [|e E2 IH]; intros E1 x HE HS; cbn [map replay_ok]; auto.
  assert (He : In e (g_lin s)) by (apply in_E; rewrite HE; apply in_app_iff; right; left; auto).
  pose proof (chron_cons nl tr s R) as Hc. unfold chron in Hc. fold E in Hc. rewrite HE, map_app in Hc. cbn [map] in Hc.
  set (a1 := arun ainit (map opres E1)) in *.
  destruct (opres e) as [o xr] eqn:Eo. apply consistent_mid in Hc as [Hr _]. fold a1 in Hr.
  destruct (entry_act e He) as (c & r & ti & trr & Hd & Hw & Hin & Hm & _ & _ & _ & Ea). rewrite Ea.
  assert (Hop : le_op e = o) by (unfold opres in Eo; inversion Eo; auto). rewrite Hop. rewrite Eo in Hin.
  pose proof (Hnc _ _ _ _ _ Hd) as Hncd.
  assert (Hnext : forall x', Sim x' (fst (aspec a1 o)) -> replay_ok x' (map (act_of tr s) E2)).
  { intros x' HS'. apply (IH (E1 ++ [e]) x'); [rewrite <- app_assoc; exact HE|].
    rewrite map_app, arun_app. cbn [map arun]. rewrite Eo. exact HS'. }
  destruct o; cbn [kind_of_op].
  - (* get-or-create *)
    destruct (rm_get _ _ _ _ _ _ Hm Hin) as (d & ch & -> & Hl & _).
    unfold apply_act. cbn [a_kind a_c conv c_call c_ret c_t].
    destruct (aspec_get_child _ _ _ Hr) as (c0 & _ & Hch & _).
    destruct (mget k (m_map x)) eqn:Eg; eexists; (split; [reflexivity|]); apply Hnext; intros k0; cbn [m_map].
    + destruct (key_eqb k0 k) eqn:Ek.
      * apply key_eqb_eq in Ek; subst k0. rewrite Eg, Hch. split; discriminate.
      * apply key_eqb_neq in Ek. rewrite child_get_other by auto. apply HS.
    + cbn [mget]. rewrite skey_eqb_key. destruct (key_eqb k0 k) eqn:Ek.
      * apply key_eqb_eq in Ek; subst k0. rewrite Hch. split; discriminate.
      * apply key_eqb_neq in Ek. rewrite child_get_other by auto. apply HS.
  - (* update through the handle *)
    destruct (rm_upd _ _ _ _ _ _ _ Hm Hin) as (k & -> & Hl & _).
    unfold apply_act. cbn [a_kind a_c conv c_call c_ret c_t]. eexists; split; [reflexivity|]. apply Hnext. intros k0. cbn [m_map].
    unfold child_of. cbn [aspec fst a_map]. rewrite klookup_bump_id. apply HS.
  - (* remove *)
    destruct (rm_remove _ _ _ _ _ _ Hm Hin) as (-> & Hl & Hres).
    unfold apply_act. cbn [a_kind a_c conv c_call c_ret c_t].
    assert (Hpres : xr = RDone <-> mget k (m_map x) <> None).
    { assert (Hm2 : xr = RDone <-> child_of a1 k <> None).
      { unfold child_of. unfold aspec in Hr. destruct (klookup k (a_map a1)) eqn:El; cbn [snd option_map] in Hr |- *; subst xr; split; intro; congruence. }
      rewrite Hm2. split; intros H1 H2; apply H1; apply (HS k); auto. }
    destruct (mget k (m_map x)) eqn:Eg.
    + assert (xr = RDone) by (apply Hpres; discriminate). destruct Hres as [(_ & ->)|(Hx & _)]; [|congruence].
      eexists; split; [reflexivity|]. apply Hnext. intros k0. cbn [m_map]. rewrite mget_mdel, child_remove. destruct (key_eqb k0 k); [tauto | apply HS].
    + assert (xr <> RDone) by (intros Hx; apply Hpres in Hx; congruence). destruct Hres as [(Hx & _)|(_ & ->)]; [congruence|].
      eexists; split; [reflexivity|]. apply Hnext. intros k0. rewrite child_remove. destruct (key_eqb k0 k) eqn:Ek; [|apply HS].
      apply key_eqb_eq in Ek; subst k0. rewrite Eg. tauto.
  - (* reset *)
    rewrite (rm_reset _ _ _ _ _ Hm Hin) in *.
    unfold apply_act. cbn [a_kind a_c conv c_call c_ret c_t]. eexists; split; [reflexivity|]. apply Hnext. intros k0. cbn. tauto.
  - exfalso. apply Hncd. eapply rm_collect_like; eauto.
  - exfalso. apply Hncd. eapply rm_collect_like; eauto.
Qed.

Theorem linearisation_exists : lin_exists sst0 (all_acts false nl cs).
Proof.
  assert (Hrows : all_acts false nl cs = rows_of (S (max_tid cs)) Lacts).
  { unfold all_acts, rows_of. apply map_ext. intros t. etransitivity; [apply (thread_acts_eq nl tr s R t) | apply rows_equal]. }
  rewrite Hrows. apply lin_from_list.
  - apply lacts_tid.
  - apply lacts_window.
  - apply lacts_rt.
  - apply (replay_from E [] sst0); [reflexivity|]. intros k. cbn. tauto.
Qed.
End Lin.

(* ------------------------------------------------------------------ the full relaxed spec on validated traces without collect calls *)
Definition no_collect (es : list event) : bool :=
  forallb (fun e => match e with ECall _ CVCollect => false | _ => true end) es.

Lemma in_visible e tr : In (LE e) tr -> In e (visible tr).
Proof. intros H. unfold visible. apply in_flat_map. exists (LE e). split; auto. left; auto. Qed.

Theorem search_not_refuted_nocollect nl nth es :
  vcheck nl nth es = true -> in_domain nth es = true -> no_collect es = true ->
  lin_exists sst0 (all_acts false nl (fst (extract es))) /\ lin_search false nl (fst (extract es)) <> NotFound.
Proof.
  intros Hv Hd Hn. destruct (extract_of_validated nl nth es Hv Hd) as (tr & s & R & Hvis & Hopen & Hex).
  rewrite Hex. cbn [fst].
  assert (Hnc : forall t c r ti trr, In (t, c, r, ti, trr) (g_done s) -> c <> CVCollect).
  { intros t c r ti trr Hin ->. destruct (G_done tr s (reach_ginv nl tr s R) _ _ _ _ _ Hin) as (_ & _ & _ & Hc & _).
    apply nth_error_In in Hc. apply in_visible in Hc. rewrite Hvis in Hc.
    unfold no_collect in Hn. rewrite forallb_forall in Hn. apply Hn in Hc. discriminate. }
  pose proof (linearisation_exists nl tr s R Hopen Hnc) as HL. split; auto.
  unfold lin_search. intros Hs.
  destruct (dfs _ sst0 (all_acts false nl (map (conv tr) (rev (g_done s)))) search_budget) as [r b] eqn:E. cbn in Hs. subst r.
  eapply dfs_notfound_exact; eauto.
Qed.

Theorem relaxed_spec_of_validated_nocollect nl nth es :
  vcheck nl nth es = true -> in_domain nth es = true -> no_collect es = true -> spec_c10_relaxed nl es = true.
Proof.
  intros Hv Hd Hn. apply (relaxed_spec_of_validated_if_not_refuted nl nth es Hv Hd).
  apply (search_not_refuted_nocollect nl nth es Hv Hd Hn).
Qed.

(* a real trace of the implementation without collect calls: two racing first requests, then a remove racing with a reset *)
Definition nocollect_trace : list event :=
  [ECall 0 (CWithInc [[97%N]] 1%N); ELock 0 0%N LRead true; EUnlock 0 0%N LRead; ECall 1 (CWithInc [[97%N]] 2%N); ELock 1 0%N LRead true;
   EUnlock 1 0%N LRead; ELock 1 0%N LWrite true; ELock 0 0%N LWrite false; EUnlock 1 0%N LWrite; EAt 1 1%N KFetchAdd Relaxed None 0%N 2%N true;
   ERet 1 RUnit; ELock 0 0%N LWrite true; EUnlock 0 0%N LWrite; EAt 0 1%N KFetchAdd Relaxed None 2%N 3%N true; ERet 0 RUnit;
   ECall 0 (CRemove [[97%N]]); ELock 0 0%N LWrite true; ECall 1 CVReset; ELock 1 0%N LWrite false; EUnlock 0 0%N LWrite; ELock 1 0%N LWrite true;
   EUnlock 1 0%N LWrite; ERet 0 RUnit; ERet 1 RUnit].
