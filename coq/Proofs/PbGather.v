(* Registry::gather keeps families inside the domain of the protobuf round trip: if what the
   collectors return are values of the Rust types (strings of Unicode scalar values, u64 counts,
   i64 timestamps: [wf_family]), so is what gather returns (merging, sorting, prefixing and the
   common labels only rearrange and concatenate), and none of them is without samples. *)
From Coq Require Import String Permutation.
Require Import PV.Base.Prelude PV.Base.Utf8 PV.Base.F64 PV.Base.SortFacts PV.Base.StrFacts.
Require Import PV.Model.Proto PV.Model.Desc PV.Model.Value PV.Model.Registry PV.Model.Pb PV.Model.PbDecode.
Require Import PV.Proofs.PbFacts PV.Proofs.GatherFacts.
Open Scope N_scope.

Lemma str_ok_app a b : str_ok a -> str_ok b -> str_ok (a ++ b).
Proof. unfold str_ok. intros Ha Hb. rewrite forallb_app, Ha, Hb. reflexivity. Qed.
Lemma str_ok_uscore : str_ok [USCORE_].
Proof. reflexivity. Qed.

Definition wf_prefix (p : option str) : Prop := oall str_ok p.
Definition wf_common (l : option (list (str * str))) : Prop :=
  oall (Forall (fun kv => str_ok (fst kv) /\ str_ok (snd kv))) l.

Lemma wf_pname p n : wf_prefix p -> str_ok n -> str_ok (pname p n).
Proof.
  destruct p as [p|]; cbn [pname wf_prefix oall]; intros Hp Hn; [|exact Hn].
  apply str_ok_app; [exact Hp|]. apply str_ok_app; [exact str_ok_uscore|exact Hn].
Qed.

Lemma wf_common_pairs l :
  Forall (fun kv => str_ok (fst kv) /\ str_ok (snd kv)) l -> Forall wf_lp (common_pairs l).
Proof.
  intros H. unfold common_pairs. apply Forall_forall. intros x Hx.
  apply (Permutation_in x (sort_by_perm lp_leb _)) in Hx.
  apply in_map_iff in Hx as (kv & <- & Hkv). rewrite Forall_forall in H. exact (H kv Hkv).
Qed.

Lemma wf_add_labels ps m : Forall wf_lp ps -> wf_metric m -> wf_metric (add_labels ps m).
Proof.
  intros Hps (H1 & H2 & H3 & H4). unfold wf_metric, add_labels.
  cbn [m_label m_summary m_histogram m_ts]. repeat split; auto.
  apply Forall_app. split; assumption.
Qed.

Lemma wf_with_common l ms : wf_common l -> Forall wf_metric ms -> Forall wf_metric (with_common l ms).
Proof.
  destruct l as [l|]; cbn [with_common wf_common oall]; intros Hl Hms; [|exact Hms].
  rewrite Forall_map. eapply Forall_impl; [|exact Hms]. intros m. apply wf_add_labels.
  apply wf_common_pairs. exact Hl.
Qed.

Lemma wf_sorted_metrics ms : Forall wf_metric ms -> Forall wf_metric (sort_by metric_leb ms).
Proof. intros H. apply (Permutation_Forall (Permutation_sym (sort_by_perm metric_leb ms))). exact H. Qed.

Lemma wf_bt_insert mf m : wf_family mf -> Forall wf_family m -> Forall wf_family (bt_insert mf m).
Proof.
  intros Hmf Hm. induction Hm as [|x t Hx Ht IH]; cbn [bt_insert].
  - constructor; [exact Hmf|constructor].
  - destruct (str_cmp (mf_name mf) (mf_name x)).
    + constructor; [|exact Ht]. destruct Hx as (X1 & X2 & X3). destruct Hmf as (_ & _ & M3).
      unfold wf_family. cbn [mf_name mf_help mf_metric]. repeat split; auto.
      apply Forall_app. split; assumption.
    + constructor; [exact Hmf|]. constructor; assumption.
    + constructor; assumption.
Qed.

Lemma wf_merge_families collected : Forall wf_family collected -> Forall wf_family (merge_families collected).
Proof.
  unfold merge_families.
  assert (G : forall acc, Forall wf_family acc -> Forall wf_family collected ->
                          Forall wf_family (fold_left (fun m mf => if is_nil (mf_metric mf) then m else bt_insert mf m) collected acc)).
  { induction collected as [|f r IH]; intros acc Ha Hc; cbn [fold_left]; [exact Ha|].
    inversion Hc as [|? ? Hf Hr]; subst. apply IH; [|exact Hr].
    destruct (is_nil (mf_metric f)); [exact Ha|]. apply wf_bt_insert; assumption. }
  intros H. apply G; [constructor|exact H].
Qed.

Theorem gather_wf p l collected :
  wf_prefix p -> wf_common l -> Forall wf_family collected -> Forall wf_family (gather_families p l collected).
Proof.
  intros Hp Hl Hc. rewrite gather_families_eq. rewrite Forall_map.
  eapply Forall_impl; [|apply wf_merge_families; exact Hc].
  intros mf (H1 & H2 & H3). rewrite apply_prefix_labels_eq. unfold wf_family, sort_fam.
  cbn [mf_name mf_help mf_metric]. repeat split.
  - apply wf_pname; assumption.
  - exact H2.
  - apply wf_with_common; [exact Hl|]. apply wf_sorted_metrics. exact H3.
Qed.

(* a gathered family always has samples, so the only way the encoder can refuse one is an empty name *)
Theorem gathered_refused_only_unnamed p l collected g :
  In g (gather_families p l collected) -> refused (pb_of_family g) -> mf_name g = [].
Proof.
  intros Hin [H|H].
  - exfalso. apply (gather_no_empty_family p l collected g Hin).
    unfold pb_of_family in H. cbn [pf_metric] in H. destruct (mf_metric g); [reflexivity|discriminate].
  - exact H.
Qed.

(* gather -> encode -> independent decoder = the gathered families, in order *)
Theorem gathered_roundtrip p l collected bytes :
  wf_prefix p -> wf_common l -> Forall wf_family collected ->
  encode_stream (map pb_of_family (gather_families p l collected)) = Ok bytes ->
  decode_stream bytes = Some (map pb_of_family (gather_families p l collected)).
Proof. intros Hp Hl Hc. apply roundtrip_gathered. apply gather_wf; assumption. Qed.

(* ------------------------------------------------------------------ [pb_of_family] loses nothing *)
(* the wire-level literal determines the family, up to the framework's equality on families
   (floats by bit pattern, one NaN: [mf_eqb]) *)
Lemma list_eqb_of_map {A B} (g : A -> B) (e : A -> A -> bool) :
  (forall x y, g x = g y -> e x y = true) -> forall a b, map g a = map g b -> list_eqb e a b = true.
Proof.
  intros H a. induction a as [|x a IH]; intros [|y b] E; cbn [map list_eqb] in *; try discriminate; auto.
  inversion E as [[E1 E2]]. rewrite (H x y E1), (IH b E2). reflexivity.
Qed.
Lemma opt_eqb_of_map {A B} (g : A -> B) (e : A -> A -> bool) :
  (forall x y, g x = g y -> e x y = true) -> forall a b, option_map g a = option_map g b -> opt_eqb e a b = true.
Proof. intros H [x|] [y|] E; cbn [option_map opt_eqb] in *; try discriminate; auto. inversion E. auto. Qed.
Lemma f64_eqb_of_bits x y : f2bits x = f2bits y -> f64_eqb x y = true.
Proof. intros H. unfold f64_eqb. rewrite H. apply N.eqb_refl. Qed.

Lemma pb_of_lp_inj a b : pb_of_lp a = pb_of_lp b -> lp_eqb a b = true.
Proof. unfold pb_of_lp, lp_eqb. intros E. inversion E as [[E1 E2]]. rewrite E1, E2, !str_eqb_refl. reflexivity. Qed.
Lemma pb_of_quantile_inj a b : pb_of_quantile a = pb_of_quantile b -> quantile_eqb a b = true.
Proof.
  unfold pb_of_quantile, quantile_eqb. intros E. inversion E as [[E1 E2]].
  rewrite (f64_eqb_of_bits _ _ E1), (f64_eqb_of_bits _ _ E2). reflexivity.
Qed.
Lemma pb_of_bucket_inj a b : pb_of_bucket a = pb_of_bucket b -> bucket_eqb a b = true.
Proof.
  unfold pb_of_bucket, bucket_eqb. intros E. inversion E as [[E1 E2]].
  rewrite E1, N.eqb_refl, (f64_eqb_of_bits _ _ E2). reflexivity.
Qed.
Lemma pb_of_summary_inj a b : pb_of_summary a = pb_of_summary b -> summary_eqb a b = true.
Proof.
  unfold pb_of_summary, summary_eqb. intros E. inversion E as [[E1 E2 E3]].
  rewrite E1, N.eqb_refl, (f64_eqb_of_bits _ _ E2), (list_eqb_of_map _ _ pb_of_quantile_inj _ _ E3). reflexivity.
Qed.
Lemma pb_of_hist_inj a b : pb_of_hist a = pb_of_hist b -> hist_eqb a b = true.
Proof.
  unfold pb_of_hist, hist_eqb. intros E. inversion E as [[E1 E2 E3]].
  rewrite E1, N.eqb_refl, (f64_eqb_of_bits _ _ E2), (list_eqb_of_map _ _ pb_of_bucket_inj _ _ E3). reflexivity.
Qed.
Lemma gauge_bits_inj x y : mkPGauge (Some (f2bits x)) = mkPGauge (Some (f2bits y)) -> f64_eqb x y = true.
Proof. intros H. apply f64_eqb_of_bits. congruence. Qed.
Lemma counter_bits_inj x y : mkPCounter (Some (f2bits x)) = mkPCounter (Some (f2bits y)) -> f64_eqb x y = true.
Proof. intros H. apply f64_eqb_of_bits. congruence. Qed.
Lemma untyped_bits_inj x y : mkPUntyped (Some (f2bits x)) = mkPUntyped (Some (f2bits y)) -> f64_eqb x y = true.
Proof. intros H. apply f64_eqb_of_bits. congruence. Qed.
Lemma pb_of_metric_inj a b : pb_of_metric a = pb_of_metric b -> metric_eqb a b = true.
Proof.
  unfold pb_of_metric, metric_eqb. intros E. inversion E as [[E1 E2 E3 E4 E5 E6 E7]].
  rewrite (list_eqb_of_map _ _ pb_of_lp_inj _ _ E1).
  rewrite (opt_eqb_of_map _ _ gauge_bits_inj _ _ E2).
  rewrite (opt_eqb_of_map _ _ counter_bits_inj _ _ E3).
  rewrite (opt_eqb_of_map _ _ pb_of_summary_inj _ _ E4).
  rewrite (opt_eqb_of_map _ _ untyped_bits_inj _ _ E5).
  rewrite (opt_eqb_of_map _ _ pb_of_hist_inj _ _ E6).
  rewrite E7. destruct (m_ts b); cbn [opt_eqb]; [rewrite Z.eqb_refl|]; reflexivity.
Qed.
Theorem pb_of_family_inj a b : pb_of_family a = pb_of_family b -> mf_eqb a b = true.
Proof.
  unfold pb_of_family, mf_eqb. intros E. inversion E as [[E1 E2 E3 E4]].
  rewrite E1, E2, E3, !str_eqb_refl, (list_eqb_of_map _ _ pb_of_metric_inj _ _ E4).
  destruct (mf_type b); reflexivity.
Qed.
Theorem pb_of_families_inj a b : map pb_of_family a = map pb_of_family b -> list_eqb mf_eqb a b = true.
Proof. apply list_eqb_of_map. exact pb_of_family_inj. Qed.
