(* The counter-vector part of C01's executable spec on validated traces:
     c01_vec_spec_of_validated_full : vcheck nl nth es = true -> dom_c01_vec nth es = true -> spec_c01_vec es = true.
   Built on C10's theorem relaxed_spec_of_validated_partial3 (Proofs/VecConcSpec3.v: from vcheck, all pointwise clauses of C10's
   relaxed spec - no duplicate keys, shown bits are updates of exactly that key invoked before the collection returned, no lost
   update) without re-proving anything about the vector model:
     extract_calls_of      SpecC10.extract and SpecC01.calls_of produce the same call records (up to a permutation)
     decode_bits           a value below 2^63 whose bits are distinct scenario increments is the sum of the increments whose bit is set
     collection_ok_of_c10  C10's clauses for a collection give C01's clause: per label tuple, value = increments that returned before
                           the collection was invoked + the overlapping increments whose bit is set (subset_sum_complete) *)
Require Import PV.Base.Prelude PV.Model.Conc.
Require PV.Spec.SpecC01 PV.Spec.SpecC10.
From Coq Require Import Lia Permutation ZArith.
Import ListNotations.
Module S1 := PV.Spec.SpecC01.
Module S10 := PV.Spec.SpecC10.
Open Scope nat_scope.

(* ------------------------------------------------------------------ the two extractions of call records agree *)
Definition conv10 (d : S10.crec) : S1.crec :=
  {| S1.c_t := S10.c_t d; S1.c_call := S10.c_call d; S1.c_inv := N.to_nat (S10.c_ci d);
     S1.c_res := Some (N.to_nat (S10.c_ri d)); S1.c_ret := S10.c_ret d |}.
Definition openrec (p : nat * (call * N)) : S1.crec :=
  {| S1.c_t := fst p; S1.c_call := fst (snd p); S1.c_inv := N.to_nat (snd (snd p)); S1.c_res := None; S1.c_ret := RUnit |}.

Definition Rel (x : S10.xst) (acc : list S1.crec) : Prop :=
  Permutation acc (map conv10 (S10.x_done x) ++ map openrec (S10.x_open x)) /\ NoDup (map fst (S10.x_open x)).

Lemma open_get_none t l : S10.open_get t l = None -> ~ In t (map fst l).
Proof.
  induction l as [|[u x] l IH]; cbn; auto. destruct (Nat.eqb u t) eqn:E; [discriminate|]. apply Nat.eqb_neq in E.
  intros H [H1|H1]; auto. now apply IH.
Qed.
Lemma open_get_some t l x : S10.open_get t l = Some x -> NoDup (map fst l) ->
  Permutation l ((t, x) :: S10.open_del t l) /\ NoDup (map fst (S10.open_del t l)) /\ ~ In t (map fst (S10.open_del t l)).
Proof.
  induction l as [|[u y] l IH]; cbn; [discriminate|]. destruct (Nat.eqb u t) eqn:E.
  - apply Nat.eqb_eq in E. subst u. intros [= ->] H. inversion H; subst. repeat split; auto.
  - apply Nat.eqb_neq in E. intros H Hn. inversion Hn; subst. destruct (IH H H3) as [P [N1 N2]]. cbn [map fst]. repeat split.
    + rewrite perm_swap. now constructor.
    + constructor; auto. intros Hin. apply H2. apply (Permutation_in _ (Permutation_sym (Permutation_map fst P))). now right.
    + intros [H1|H1]; auto.
Qed.

Definition closer (t i : nat) (r : retv) (c : S1.crec) : S1.crec :=
  if Nat.eqb (S1.c_t c) t && match S1.c_res c with None => true | Some _ => false end
  then {| S1.c_t := S1.c_t c; S1.c_call := S1.c_call c; S1.c_inv := S1.c_inv c; S1.c_res := Some i; S1.c_ret := r |} else c.
Lemma close_call_map t i r l : S1.close_call t i r l = map (closer t i r) l.
Proof. reflexivity. Qed.

Definition calls_step (e : event) (i : nat) (acc : list S1.crec) : list S1.crec :=
  match e with
  | ECall t c => acc ++ [{| S1.c_t := t; S1.c_call := c; S1.c_inv := i; S1.c_res := None; S1.c_ret := RUnit |}]
  | ERet t x => S1.close_call t i x acc
  | _ => acc
  end.
Lemma calls_of_step e es i acc : S1.bad_event e = false -> S1.calls_of (e :: es) i acc = S1.calls_of es (S i) (calls_step e i acc).
Proof. destruct e; cbn; intros H; try discriminate; reflexivity. Qed.

Lemma xstep_sim x i acc e : Rel x acc -> S10.x_ok (fst (S10.xstep (x, N.of_nat i) e)) = true ->
  S1.bad_event e = false /\ Rel (fst (S10.xstep (x, N.of_nat i) e)) (calls_step e i acc) /\
  snd (S10.xstep (x, N.of_nat i) e) = N.of_nat (S i) /\ S10.x_ok x = true.
Proof.
  intros [P Nd] Hok. assert (Ei : (N.of_nat i + 1)%N = N.of_nat (S i)) by lia.
  destruct e as [t c|t r|t cl k o o2 b a ok|t cl lk aq|t cl lk|t|t| | | |]; cbn [S10.xstep fst snd] in *; try (cbn in Hok; discriminate Hok).
  - (* call *)
    destruct (S10.open_get t (S10.x_open x)) eqn:Eo; cbn in Hok; try discriminate Hok.
    repeat split; auto; cbn [S10.x_open S10.x_done calls_step].
    + cbn [map]. change (openrec (t, (c, N.of_nat i))) with {| S1.c_t := t; S1.c_call := c; S1.c_inv := N.to_nat (N.of_nat i); S1.c_res := None; S1.c_ret := RUnit |}.
      rewrite Nat2N.id. rewrite P. rewrite <- app_assoc. apply Permutation_app_head. apply Permutation_sym, Permutation_cons_append.
    + cbn. constructor; auto. now apply open_get_none.
  - (* return *)
    destruct (S10.open_get t (S10.x_open x)) as [[c ci]|] eqn:Eo; cbn in Hok; try discriminate Hok.
    destruct (open_get_some _ _ _ Eo Nd) as [Po [N1 N2]].
    repeat split; auto; cbn [S10.x_open S10.x_done calls_step].
    rewrite close_call_map. rewrite (Permutation_map (closer t i r) P). rewrite !map_app. cbn [map].
    rewrite (Permutation_map (closer t i r) (Permutation_map openrec Po)). cbn [map].
    assert (E1 : map (closer t i r) (map conv10 (S10.x_done x)) = map conv10 (S10.x_done x)).
    { rewrite map_map. apply map_ext. intros d. unfold closer. cbn. now rewrite andb_false_r. }
    assert (E2 : closer t i r (openrec (t, (c, ci))) = conv10 {| S10.c_t := t; S10.c_call := c; S10.c_ret := r; S10.c_ci := ci; S10.c_ri := N.of_nat i |}).
    { unfold closer, openrec, conv10. cbn. rewrite Nat.eqb_refl. cbn. now rewrite Nat2N.id. }
    assert (E3 : map (closer t i r) (map openrec (S10.open_del t (S10.x_open x))) = map openrec (S10.open_del t (S10.x_open x))).
    { rewrite map_map. apply map_ext_in. intros [u y] Hin. unfold closer, openrec. cbn.
      assert (u <> t) by (intros ->; apply N2; apply in_map_iff; exists (t, y); auto).
      apply Nat.eqb_neq in H. now rewrite H. }
    rewrite E1, E2, E3. rewrite <- app_assoc. apply Permutation_app_head. cbn. apply Permutation_refl.
  - repeat split; auto.
  - repeat split; auto.
  - repeat split; auto.
Qed.

Lemma xstep_ok_mono x i e : S10.x_ok (fst (S10.xstep (x, i) e)) = true -> S10.x_ok x = true.
Proof.
  destruct e; cbn; try discriminate; auto.
  - destruct (S10.open_get t (S10.x_open x)); cbn; auto; discriminate.
  - destruct (S10.open_get t (S10.x_open x)) as [[c ci]|]; cbn; auto; discriminate.
Qed.
Lemma fold_ok_mono es : forall x i, S10.x_ok (fst (fold_left S10.xstep es (x, i))) = true -> S10.x_ok x = true.
Proof.
  induction es as [|e es IH]; cbn [fold_left]; intros x i H; auto.
  destruct (S10.xstep (x, i) e) as [x1 i1] eqn:E. apply IH in H. apply (xstep_ok_mono x i e). now rewrite E.
Qed.

Lemma extract_sim es : forall x i acc, Rel x acc ->
  S10.x_ok (fst (fold_left S10.xstep es (x, N.of_nat i))) = true ->
  exists acc', S1.calls_of es i acc = (acc', true) /\ Rel (fst (fold_left S10.xstep es (x, N.of_nat i))) acc'.
Proof.
  induction es as [|e es IH]; intros x i acc HR Hok.
  - exists acc. cbn. auto.
  - cbn [fold_left] in *. destruct (S10.xstep (x, N.of_nat i) e) as [x1 i1] eqn:E.
    assert (Hok1 : S10.x_ok x1 = true) by (eapply fold_ok_mono; eauto).
    destruct (xstep_sim x i acc e HR) as [Hb [HR1 [Ei _]]]; [rewrite E; exact Hok1|]. rewrite E in HR1, Ei. cbn [fst snd] in HR1, Ei. subst i1.
    destruct (IH x1 (S i) (calls_step e i acc) HR1 Hok) as [acc' [Ec HR']].
    exists acc'. split; auto. now rewrite calls_of_step.
Qed.

(* for a well-formed trace the records of SpecC01 are exactly (a permutation of) the records of SpecC10 *)
Theorem extract_calls_of es cs10 : S10.extract es = (cs10, true) ->
  exists cs01, S1.calls_of es 0 [] = (cs01, true) /\ Permutation cs01 (map conv10 cs10).
Proof.
  unfold S10.extract.
  set (X := fst (fold_left S10.xstep es ({| S10.x_open := []; S10.x_done := []; S10.x_ok := true |}, 0%N))).
  intros H. injection H as H1 H2. apply andb_prop in H2. destruct H2 as [Hok Hnil].
  destruct (extract_sim es {| S10.x_open := []; S10.x_done := []; S10.x_ok := true |} 0 []) as [acc' [Ec [P _]]].
  - split; cbn; [constructor|constructor].
  - exact Hok.
  - exists acc'. split; [exact Ec|]. change (N.of_nat 0) with 0%N in P. fold X in P. rewrite H1 in P.
    destruct (S10.x_open X); try discriminate Hnil. cbn [map] in P. now rewrite app_nil_r in P.
Qed.

(* ------------------------------------------------------------------ keys *)
Require Import PV.Base.StrFacts.
Lemma key_eqb_skey a b : S1.key_eqb a b = S10.skey_eqb a b.
Proof. revert b; induction a as [|x a IH]; destruct b; cbn; auto; try (now rewrite IH). Qed.
Lemma skey_eqb_eq a b : S10.skey_eqb a b = true <-> a = b.
Proof.
  revert b; induction a as [|x a IH]; destruct b as [|y b]; cbn.
  - tauto.
  - split; [discriminate|congruence].
  - split; [discriminate|congruence].
  - rewrite andb_true_iff, str_eqb_eq, IH. split; [intros [-> ->]; auto|intros [= -> ->]; auto].
Qed.
Lemma key_mem_mem k l : S1.key_mem k l = S10.mem_key k l.
Proof. induction l as [|x l IH]; cbn; auto; try (now rewrite key_eqb_skey, IH). Qed.
Lemma key_nodup_nodup l : S1.key_nodup l = S10.nodup_keys l.
Proof. induction l as [|x l IH]; cbn; auto; try (now rewrite key_mem_mem, IH). Qed.
Lemma key_lookup_get k l : S1.key_lookup k l = S10.coll_get k l.
Proof. induction l as [|[k' v] l IH]; cbn; auto; try (now rewrite key_eqb_skey, IH). Qed.
Lemma coll_get_in k l v : S10.coll_get k l = Some v -> In (k, v) l.
Proof.
  induction l as [|[k' v'] l IH]; cbn; [discriminate|]. destruct (S10.skey_eqb k k') eqn:E.
  - apply skey_eqb_eq in E. subst. intros [= ->]. now left.
  - intros H. right. auto.
Qed.

(* ------------------------------------------------------------------ a value whose bits are distinct scenario increments is their sum *)
Require Import PV.Proofs.VecConcSpec2 PV.Proofs.VecConcSpec3.
Open Scope N_scope.
Lemma decode_bits x D : Forall is_pow2 D -> NoDup D ->
  (forall n, N.testbit x n = true -> exists d, In d D /\ N.log2 d = n) -> x = sumN (filter (S10.has_bit x) D).
Proof.
  intros HF HN Hb. apply N.bits_inj. intros n.
  assert (HF' : Forall is_pow2 (filter (S10.has_bit x) D)).
  { rewrite Forall_forall in *. intros d Hd. apply filter_In in Hd. now apply HF. }
  rewrite (sum_bits _ HF' (NoDup_filter _ HN)).
  destruct (N.testbit x n) eqn:E.
  - symmetry. apply existsb_exists. destruct (Hb n E) as [d [Hd Hl]]. exists d. split; [|now apply N.eqb_eq].
    apply filter_In. split; auto. unfold S10.has_bit. now rewrite Hl.
  - symmetry. destruct (existsb _ _) eqn:Ex; auto. apply existsb_exists in Ex. destruct Ex as [d [Hd Hl]].
    apply N.eqb_eq in Hl. apply filter_In in Hd. destruct Hd as [_ Hh]. unfold S10.has_bit in Hh. rewrite Hl in Hh. congruence.
Qed.
Lemma land_lnot_sub v M : v < 2 ^ 63 -> N.land v (N.lnot M 64) = 0 -> forall n, N.testbit v n = true -> N.testbit M n = true.
Proof.
  intros Hv H n Hn. destruct (N.lt_ge_cases n 63) as [Hl|Hl]; [|rewrite (high_bits_zero v n Hv Hl) in Hn; discriminate].
  assert (E : N.testbit (N.land v (N.lnot M 64)) n = false) by (rewrite H; apply N.bits_0).
  rewrite N.land_spec, Hn, N.lnot_spec_low in E by lia. cbn in E. now destruct (N.testbit M n).
Qed.
(* sum over the increments with a set bit = sum over the records *)
Definition Gd (x : N) (w : S10.crec) : N := match S10.c_call w with CWithInc _ d => if S10.has_bit x d then d else 0 | _ => 0 end.
Lemma sum_incs_records x cs : sumN (filter (S10.has_bit x) (S10.incs cs)) = sumN (map (Gd x) cs).
Proof.
  unfold S10.incs, Gd. induction cs as [|w cs IH]; cbn [flat_map map]; auto.
  rewrite filter_app. unfold sumN in *. rewrite fold_right_app. cbn [fold_right]. rewrite <- IH.
  destruct (S10.c_call w); cbn [filter fold_right]; auto. destruct (S10.has_bit x d); cbn [fold_right]; auto.
Qed.

(* ------------------------------------------------------------------ C10's pointwise clauses give C01's collection clause *)
Require Import PV.Proofs.AtomicSpecFull PV.Proofs.VecConcSpec.
Require PV.Model.VecConc.
Open Scope Z_scope.

Definition Hz (x : N) (c : S1.crec) : Z :=
  match S1.c_call c with CWithInc _ d => if S10.has_bit x d then Z.of_N d else 0 | _ => 0 end.
Definition pbit (x : N) (c : S1.crec) : bool :=
  match S1.c_call c with CWithInc _ d => S10.has_bit x d | _ => false end.
Lemma sumN_Z l : Z.of_N (sumN l) = sumZ (map Z.of_N l).
Proof. unfold sumN, sumZ. induction l as [|x l IH]; cbn [map fold_right]; auto. rewrite N2Z.inj_add, IH. reflexivity. Qed.
Lemma Hz_conv x w : Hz x (conv10 w) = Z.of_N (Gd x w).
Proof. unfold Hz, Gd, conv10. cbn. destruct (S10.c_call w); auto. destruct (S10.has_bit x d); auto. Qed.
Lemma ltb_to_nat a b : Nat.ltb (N.to_nat a) (N.to_nat b) = N.ltb a b.
Proof. destruct (N.ltb_spec a b); [apply Nat.ltb_lt|apply Nat.ltb_ge]; lia. Qed.
Lemma memN_in x l : memN x l = true <-> In x l.
Proof. induction l as [|y l IH]; cbn; [split; [discriminate|tauto]|]. rewrite orb_true_iff, N.eqb_eq, IH. split; intros [H|H]; auto. Qed.
Lemma nodupN_NoDup l : S10.nodupN l = true -> NoDup l.
Proof.
  induction l as [|x l IH]; cbn; [constructor|]. intros H. apply andb_prop in H. destruct H as [H1 H2]. constructor; auto.
  intros Hin. apply memN_in in Hin. rewrite Hin in H1. discriminate.
Qed.

Section Main.
Variables (nl : nat) (cs10 : list S10.crec) (cs01 : list S1.crec).
Hypothesis Hperm : Permutation cs01 (map conv10 cs10).
Hypothesis Hkinds : forallb (S10.kind_ok nl) cs10 = true.
Hypothesis Hincs : S10.incs_ok cs10 = true.
Hypothesis Hpw : S10.pointwise nl cs10 = true.
Hypothesis Hvec : forallb (fun c => S1.vec_call (S1.c_call c)) cs01 = true.

Lemma in01 c : In c cs01 <-> exists w, In w cs10 /\ c = conv10 w.
Proof.
  split.
  - intros H. apply (Permutation_in _ Hperm) in H. apply in_map_iff in H. destruct H as [w [E Hw]]. eauto.
  - intros [w [Hw ->]]. apply (Permutation_in _ (Permutation_sym Hperm)). now apply in_map.
Qed.
Lemma nokill k w : In w cs10 -> S10.may_kill nl k w = false.
Proof.
  intros Hw. assert (Hc : In (conv10 w) cs01) by (apply in01; eauto).
  rewrite forallb_forall in Hvec. specialize (Hvec _ Hc). cbn in Hvec. unfold S10.may_kill.
  destruct (S10.c_call w); cbn in Hvec; try discriminate; auto.
Qed.
Lemma incs_good : Forall is_pow2 (S10.incs cs10) /\ NoDup (S10.incs cs10).
Proof.
  unfold S10.incs_ok in Hincs. apply andb_prop in Hincs. destruct Hincs as [H1 H2]. split; [|now apply nodupN_NoDup].
  rewrite forallb_forall in H1. apply Forall_forall. intros d Hd. apply pow2b_is_pow2. auto.
Qed.

Section Coll.
Variables (C : S10.crec) (l : list (S10.skey * N)).
Hypothesis HC : In C cs10.
Hypothesis Hcall : S10.c_call C = CVCollect.
Hypothesis Hret : S10.c_ret C = RColl l.

Lemma coll_clauses : S10.nodup_keys (map fst l) = true /\ shown_clause nl cs10 C l = true /\ nolost_clause nl cs10 C l = true.
Proof.
  unfold S10.pointwise in Hpw. apply andb_prop in Hpw. destruct Hpw as [H _]. apply andb_prop in H. destruct H as [_ H].
  rewrite forallb_forall in H. specialize (H C HC). rewrite Hcall, Hret in H. rewrite coll_ok_split in H.
  repeat (apply andb_prop in H; destruct H as [H ?]). auto.
Qed.

(* the value v shown (or 0 when the key is not shown) for key k *)
Lemma key_value k v : (S10.coll_get k l = Some v \/ (S10.coll_get k l = None /\ v = 0%N)) ->
  (forall w k' d, In w cs10 -> S10.c_call w = CWithInc k' d -> S10.has_bit v d = true ->
      k' = k /\ length k' = nl /\ (S10.c_ci w <? S10.c_ri C)%N = true) /\
  v = sumN (filter (S10.has_bit v) (S10.incs cs10)) /\
  (forall w d, In w cs10 -> S10.c_call w = CWithInc k d -> length k = nl -> (S10.c_ri w <? S10.c_ci C)%N = true -> S10.has_bit v d = true).
Proof.
  destruct coll_clauses as [_ [SH NL]]. destruct incs_good as [DF DN].
  assert (P3 : forall w d, In w cs10 -> S10.c_call w = CWithInc k d -> length k = nl -> (S10.c_ri w <? S10.c_ci C)%N = true ->
                match S10.coll_get k l with Some v0 => S10.has_bit v0 d | None => false end = true).
  { intros w d Hw Ec Hl Hr. unfold nolost_clause in NL. rewrite forallb_forall in NL. specialize (NL w Hw). rewrite Ec in NL.
    apply Nat.eqb_eq in Hl. rewrite Hl, Hr in NL. cbn [andb] in NL.
    assert (Ek : existsb (fun r => S10.may_kill nl k r && S10.between w r C) cs10 = false).
    { destruct (existsb _ cs10) eqn:E; auto. apply existsb_exists in E. destruct E as [r [Hr' E]]. rewrite (nokill k r Hr') in E. discriminate. }
    rewrite Ek in NL. exact NL. }
  intros [Hs|[Hnone ->]].
  - pose proof (coll_get_in _ _ _ Hs) as Hin. unfold shown_clause in SH. rewrite forallb_forall in SH. specialize (SH _ Hin). cbn [fst snd] in SH.
    apply andb_prop in SH. destruct SH as [SH S4]. apply andb_prop in SH. destruct SH as [SH S3]. apply andb_prop in SH. destruct SH as [_ S2].
    apply N.ltb_lt in S2. apply N.eqb_eq in S4.
    split; [|split].
    + intros w k' d Hw Ec Hb. rewrite forallb_forall in S3. specialize (S3 w Hw). rewrite Ec, Hb in S3.
      apply andb_prop in S3. destruct S3 as [S3 T3]. apply andb_prop in S3. destruct S3 as [T1 T2].
      apply skey_eqb_eq in T1. apply Nat.eqb_eq in T2. auto.
    + apply decode_bits; auto. intros n Hn. pose proof (land_lnot_sub v _ S2 S4 n Hn) as Hm.
      rewrite lor_fold_bit in Hm. rewrite N.bits_0 in Hm. cbn [orb] in Hm. apply existsb_exists in Hm. destruct Hm as [d [Hd Hb]].
      exists d. split; auto. rewrite Forall_forall in DF. rewrite (pow2_bit d n (DF d Hd)) in Hb. now apply N.eqb_eq.
    + intros w d Hw Ec Hl Hr. specialize (P3 w d Hw Ec Hl Hr). now rewrite Hs in P3.
  - split; [|split].
    + intros w k' d _ _ Hb. unfold S10.has_bit in Hb. rewrite N.bits_0 in Hb. discriminate.
    + apply decode_bits; auto. intros n Hn. rewrite N.bits_0 in Hn. discriminate.
    + intros w d Hw Ec Hl Hr. specialize (P3 w d Hw Ec Hl Hr). rewrite Hnone in P3. discriminate.
Qed.

Theorem collection_ok_of_c10 : S1.collection_ok cs01 (conv10 C) = true.
Proof.
  unfold S1.collection_ok. cbn [conv10 S1.c_res S1.c_ret]. rewrite Hret. cbv beta iota.
  destruct coll_clauses as [ND _]. apply andb_true_intro. split; [rewrite key_nodup_nodup; exact ND|].
  apply forallb_forall. intros k _. rewrite key_lookup_get.
  set (v := match S10.coll_get k l with Some v0 => v0 | None => 0%N end).
  assert (Hv : S10.coll_get k l = Some v \/ (S10.coll_get k l = None /\ v = 0%N)).
  { unfold v. destruct (S10.coll_get k l); auto. }
  destruct (key_value k v Hv) as [P1 [P2 P3]].
  assert (Ex : match S10.coll_get k l with Some v0 => Z.of_N v0 | None => 0 end = Z.of_N v).
  { unfold v. destruct (S10.coll_get k l); auto. }
  rewrite Ex. set (g := conv10 C).
  assert (Esum : Z.of_N v = sumZ (map (Hz v) cs01)).
  { rewrite P2 at 1. rewrite sum_incs_records, sumN_Z, map_map.
    rewrite (sumZ_perm _ _ (Permutation_map (Hz v) Hperm)), map_map. apply sum_ext_in. intros w _. symmetry. apply Hz_conv. }
  rewrite fold_left_sumZ, Z.add_0_l.
  rewrite Esum.
  assert (Esplit : sumZ (map (Hz v) cs01) =
     sumZ (map S1.winc_amount (filter (fun c => S1.returned_before c g) (filter (S1.winc_on k) cs01))) +
     sumZ (map (fun c => if pbit v c then S1.winc_amount c else 0)
               (filter (fun c => negb (S1.returned_before c g) && negb (S1.invoked_after_return c g)) (filter (S1.winc_on k) cs01)))).
  { rewrite !sum_filter, <- sum_plus. apply sum_ext_in. intros c Hc. apply in01 in Hc. destruct Hc as [w [Hw ->]].
    assert (Hk : S10.kind_ok nl w = true) by (rewrite forallb_forall in Hkinds; auto).
    unfold Hz, pbit, S1.winc_on, S1.winc_amount, S1.returned_before, S1.invoked_after_return, g. cbn [conv10 S1.c_call S1.c_ret S1.c_res S1.c_inv].
    rewrite !ltb_to_nat. unfold S10.kind_ok in Hk.
    destruct (S10.c_call w) as [ | |b|b|b| | |b|b|b| | | |k' d|k0| | | ] eqn:Ec; try lia.
    destruct (S10.has_bit v d) eqn:Hb.
    - destruct (P1 w k' d Hw Ec Hb) as [-> [Hl Hlt]]. apply Nat.eqb_eq in Hl.
      destruct (S10.c_ret w); try discriminate Hk; [|rewrite Hl in Hk; discriminate Hk].
      rewrite key_eqb_skey, (proj2 (skey_eqb_eq k k) eq_refl).
      assert (Hia : (S10.c_ri C <? S10.c_ci w)%N = false) by (apply N.ltb_ge; apply N.ltb_lt in Hlt; lia).
      rewrite Hia. destruct (S10.c_ri w <? S10.c_ci C)%N; cbn [negb andb]; lia.
    - assert (Z0 : (if S1.key_eqb k k' then if (S10.c_ri w <? S10.c_ci C)%N then Z.of_N d else 0 else 0) = 0 \/ S10.c_ret w <> RUnit).
      { destruct (S10.c_ret w) eqn:Er; try (right; discriminate). left.
        destruct (S1.key_eqb k k') eqn:Ek; auto. rewrite key_eqb_skey in Ek. apply skey_eqb_eq in Ek. subst k'.
        destruct (S10.c_ri w <? S10.c_ci C)%N eqn:Hr; auto. apply Nat.eqb_eq in Hk.
        rewrite (P3 w d Hw Ec Hk Hr) in Hb. discriminate. }
      destruct (S10.c_ret w); try lia. destruct Z0 as [Z0|Z0]; [|congruence]. rewrite Z0.
      destruct (S1.key_eqb k k'); try lia. destruct (negb _ && negb _); lia. }
  rewrite Esplit. apply subset_sum_complete.
Qed.
End Coll.
End Main.

(* ================================================================== the uniform theorem for the counter-vector part of C01 *)
(* executable domain: every event belongs to one of the nth threads (C10's in_domain) and the scenario's increments are distinct
   powers of two below 2^63 (C10's incs_ok: values decode) *)
Definition dom_c01_vec (nth : nat) (es : list event) : bool :=
  in_domain nth es && S10.incs_ok (fst (S10.extract es)).

Theorem c01_vec_spec_of_validated_full nl nth es :
  PV.Model.VecConc.vcheck nl nth es = true -> dom_c01_vec nth es = true -> S1.spec_c01_vec es = true.
Proof.
  intros Hv Hd. unfold dom_c01_vec in Hd. apply andb_prop in Hd. destruct Hd as [Hd Hi].
  pose proof (relaxed_spec_of_validated_partial3 nl nth es Hv Hd) as H. unfold proved_clauses3 in H.
  destruct (S10.extract es) as [cs10 wf] eqn:Ex. cbn [fst] in Hi. unfold S10.base_ok in H. rewrite Hi in H.
  apply andb_prop in H. destruct H as [H Hpw]. apply andb_prop in H. destruct H as [Hwf Hk]. subst wf.
  destruct (extract_calls_of es cs10 Ex) as [cs01 [Ec Hperm]].
  unfold S1.spec_c01_vec. rewrite Ec. cbn [andb].
  destruct (forallb (fun c => S1.vec_call (S1.c_call c)) cs01) eqn:Hvec; auto.
  apply forallb_forall. intros g Hg. destruct (S1.is_vcollect (S1.c_call g)) eqn:Eg; auto.
  apply (in01 cs10 cs01 Hperm) in Hg. destruct Hg as [C [HC ->]].
  cbn [conv10 S1.c_call] in Eg. destruct (S10.c_call C) eqn:Ecall; try discriminate Eg.
  assert (Hkc : S10.kind_ok nl C = true) by (rewrite forallb_forall in Hk; auto).
  unfold S10.kind_ok in Hkc. rewrite Ecall in Hkc. destruct (S10.c_ret C) as [| | | |l] eqn:Eret; try discriminate Hkc.
  eapply collection_ok_of_c10; eauto.
Qed.
