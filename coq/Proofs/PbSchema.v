(* The field table that drives the wire decoder of Model/PbDecode.v is the one written in
   proto/proto_model.proto (regenerated into gen/ProtoSchema.v on every run of the C13 check), and
   the decoder dispatches on exactly the numbers of that table. *)
From Coq Require Import String.
Require Import PV.Base.Prelude PV.Base.Utf8 PV.Base.F64 PV.Model.Proto PV.Model.Pb PV.Model.PbDecode.
Require Import PV.gen.ProtoSchema.
Open Scope N_scope.

(* what the model assumes about the file as a whole *)
Definition model_syntax : string := "proto2".
Definition model_package : string := "io.prometheus.client".
(* the model's side of the comparison: everything is computed from [pb_fields] / [enum_values],
   the two tables [find_field], [fnum], [enum_has] and [mtype_of_num] read *)
Definition model_schema :=
  (model_syntax, model_package, @nil string, schema_messages, schema_enums, schema_rows).

(* the regenerated obligation *)
Theorem schema_matches_source : source_schema = model_schema.
Proof. vm_compute. reflexivity. Qed.

(* ------------------------------------------------------------------ the decoder reads the table, and only the table *)
Lemma msg_eqb_eq a b : msg_eqb a b = true <-> a = b.
Proof. destruct a, b; cbn; split; intros H; try discriminate; reflexivity. Qed.

(* stage 1 accepts a record number n in message m exactly when the table has a row (m, n) ... *)
Theorem find_field_sound m n fd :
  find_field m n = Some fd -> In fd pb_fields /\ f_msg fd = m /\ f_num fd = n.
Proof.
  unfold find_field. intros H. apply find_some in H as [Hin Hb]. apply andb_prop in Hb as [Hm Hn].
  apply msg_eqb_eq in Hm. apply N.eqb_eq in Hn. auto.
Qed.
Theorem find_field_complete fd : In fd pb_fields -> find_field (f_msg fd) (f_num fd) = Some fd.
Proof.
  intros H. unfold pb_fields in H. cbn [In] in H.
  repeat (destruct H as [<-|H]; [vm_compute; reflexivity|]). contradiction.
Qed.
Theorem find_field_none m n :
  find_field m n = None <-> ~ exists fd, In fd pb_fields /\ f_msg fd = m /\ f_num fd = n.
Proof.
  split.
  - intros H [fd (Hin & <- & <-)]. rewrite (find_field_complete fd Hin) in H. discriminate.
  - intros H. destruct (find_field m n) as [fd|] eqn:E; [|reflexivity].
    exfalso. apply H. exists fd. apply find_field_sound. exact E.
Qed.

(* ... stage 2 addresses every field by its name, and [fnum] returns the row's number *)
Theorem fnum_table fd : In fd pb_fields -> fnum (f_msg fd) (f_name fd) = f_num fd.
Proof.
  intros H. unfold pb_fields in H. cbn [In] in H.
  repeat (destruct H as [<-|H]; [vm_compute; reflexivity|]). contradiction.
Qed.

(* the table is a function in both directions within a message: numbers and names are unique, numbers
   are legal protobuf field numbers (1 .. 2^29-1, outside 19000 .. 19999) and small enough for one-byte keys *)
Definition row_key (f : field) : msg * N := (f_msg f, f_num f).
Definition key_eqb (a b : msg * N) : bool := msg_eqb (fst a) (fst b) && (snd a =? snd b).
Fixpoint nodupb {A} (e : A -> A -> bool) (l : list A) : bool :=
  match l with
  | [] => true
  | x :: r => negb (existsb (e x) r) && nodupb e r
  end.
Definition name_key_eqb (a b : field) : bool := msg_eqb (f_msg a) (f_msg b) && String.eqb (f_name a) (f_name b).
Theorem table_wellformed :
  nodupb key_eqb (map row_key pb_fields) = true
  /\ nodupb name_key_eqb pb_fields = true
  /\ forallb (fun f => (1 <=? f_num f) && (f_num f <? 16)) pb_fields = true
  /\ nodupb (fun a b => snd a =? snd b) (enum_values EMetricType) = true
  /\ forallb (fun p => match mtype_of_num (snd p) with Some t => mtype_num t =? snd p | None => false end)
       (enum_values EMetricType) = true.
Proof. vm_compute. repeat split. Qed.

(* every embedded-message field refers to a message that has a decoder: the type names used in the
   rows are scalar type names, the enum, or one of the ten message names *)
Theorem table_types_closed :
  forallb (fun r => let t := snd (fst r) in
             existsb (String.eqb t) ["double"; "uint64"; "int64"; "string"]%string
             || existsb (fun e => String.eqb t (fst e)) schema_enums
             || existsb (String.eqb t) schema_messages) schema_rows = true.
Proof. vm_compute. reflexivity. Qed.
