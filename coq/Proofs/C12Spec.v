(* C12 / C18: the executable specs of Spec/SpecC12.v (and SpecC18.v), written from the property
   texts, ACCEPT the model: for every history in the domain below,
       spec_c12 ops (run world0 ops) = true     (and all checks of the engine hold: spec_c18).
   Proof: a simulation between the spec's books (direct updates + flushed batches per shared
   metric, pending data per local handle, vectors and local-vector caches keyed by label TUPLE) and
   the world of Model/World.v (cores, slots, vectors and caches keyed by label HASH), preserved by
   every operation of the covered language; every judgement the spec makes on the model's own
   observation is then true.

   Covered language ([op_in_lang]) = everything the C12 and C18 generators emit:
     OpCounter / OpCounterVec (f64, u64), OpHistogram, OpHistVec, OpWith, OpRemove, OpReset (counter,
     vector), OpInc, OpIncBy, OpGet, OpObserve, OpSampleCount, OpSampleSum, OpLocal, OpFlush, OpClear,
     OpClone, OpDrop, OpLvInc, OpLvObserve, OpLvRemove, OpTimer, OpTimerStop (all modes), OpClosure,
     OpCollect - with arbitrary slot arguments (dead and ill-typed ones included), wrong label
     cardinalities, increments of any sign / NaN, wrapping u64 counters.
   Not covered: the map forms OpWithMap / OpRemoveMap, gauges, registries (no generator of C12 / C18
   emits them).
   Domain ([ops_in_domain], executable):
     - every operation is in the language;
     - the label-value tuples mentioned by the operations do not collide under the 64-bit label hash
       ([no_collision], decided by comparing all pairs);
     - updates through a local vector are well typed ([lv_ok]: the increment has the vector's
       numeric flavour), checked on the books along the run;
     - no histogram / local histogram ever holds 2^63 or more observations (checked on the books
       along the run).
   Nothing else is assumed. *)
Require Import PV.Base.Prelude PV.Base.Utf8 PV.Base.Fnv PV.Base.F64 PV.Base.StrFacts.
Require Import PV.Model.Proto PV.Model.Desc PV.Model.Value PV.Model.Hist PV.Model.Vec PV.Model.Registry PV.Model.World.
Require Import PV.Proofs.F64Facts PV.Proofs.HistFacts PV.Proofs.LocalFacts PV.Proofs.C12More PV.Proofs.C18Float PV.Proofs.C18More.
Require Import PV.Spec.SpecC12.
Open Scope N_scope.

(* ================================================================ lists *)
Lemma Forall2_nth_error_r {A B} (R : A -> B -> Prop) l1 l2 i y :
  Forall2 R l1 l2 -> nth_error l2 i = Some y -> exists x, nth_error l1 i = Some x /\ R x y.
Proof. intros F; revert i; induction F; intros [|i]; cbn; try discriminate; eauto. intros H'; inversion H'; subst; eauto. Qed.
Lemma Forall2_nth_error_l {A B} (R : A -> B -> Prop) l1 l2 i x :
  Forall2 R l1 l2 -> nth_error l1 i = Some x -> exists y, nth_error l2 i = Some y /\ R x y.
Proof. intros F; revert i; induction F; intros [|i]; cbn; try discriminate; eauto. intros H'; inversion H'; subst; eauto. Qed.
Lemma Forall2_list_set {A B} (R : A -> B -> Prop) l1 l2 i x y :
  Forall2 R l1 l2 -> R x y -> Forall2 R (list_set l1 i x) (list_set l2 i y).
Proof. intros F Rxy; revert i; induction F; intros [|i]; cbn; constructor; auto. Qed.
Lemma Forall2_snoc {A B} (R : A -> B -> Prop) l1 l2 x y : Forall2 R l1 l2 -> R x y -> Forall2 R (l1 ++ [x]) (l2 ++ [y]).
Proof. intros. apply Forall2_app; auto. Qed.
Lemma Forall2_nth {A B} (R : A -> B -> Prop) l1 l2 d1 d2 i : Forall2 R l1 l2 -> R d1 d2 -> R (nth i l1 d1) (nth i l2 d2).
Proof. intros F D; revert i; induction F; intros [|i]; cbn; auto. Qed.
Lemma Forall2_imp {A B} (R R' : A -> B -> Prop) l1 l2 : (forall x y, R x y -> R' x y) -> Forall2 R l1 l2 -> Forall2 R' l1 l2.
Proof. intros H F; induction F; constructor; auto. Qed.
Lemma Forall2_len {A B} (R : A -> B -> Prop) l1 l2 : Forall2 R l1 l2 -> length l1 = length l2.
Proof. induction 1; cbn; auto. Qed.
Lemma upd_some {A} (l : list A) i f x : nth_error l i = Some x -> upd l i f = list_set l i (f x).
Proof. intros H. unfold upd. rewrite H. reflexivity. Qed.
Lemma nth_of_nth_error {A} (l : list A) i x d : nth_error l i = Some x -> nth i l d = x.
Proof. revert i; induction l; intros [|i]; cbn; try discriminate; auto. intros H; inversion H; auto. Qed.

(* ================================================================ numbers *)
Lemma f64_eqb_refl x : f64_eqb x x = true.
Proof. unfold f64_eqb. apply N.eqb_refl. Qed.
Lemma numval_eqb_refl x : numval_eqb x x = true.
Proof. destruct x; cbn; [apply f64_eqb_refl|apply N.eqb_refl|apply Z.eqb_refl]. Qed.

Lemma add_zero_r (x : f64) : is_negzero x = false -> (x + 0)%float = x.
Proof.
  unfold is_negzero. intros H. apply Prim2SF_inj. rewrite add_spec.
  change (Prim2SF 0) with (S754_zero false). unfold SF64add, SFadd.
  destruct (Prim2SF x) as [[|]| | |] eqn:E; try reflexivity; discriminate.
Qed.
Lemma feqb_zero (y : f64) : PrimFloat.eqb y 0 = true -> is_negzero y = false -> y = 0%float.
Proof.
  unfold is_negzero. rewrite eqb_spec. change (Prim2SF 0) with (S754_zero false). intros E Z.
  apply Prim2SF_inj. change (Prim2SF 0) with (S754_zero false).
  destruct (Prim2SF y) as [[|]|[|]| |[|] m e]; cbn in E; try discriminate; reflexivity.
Qed.

(* values a counter cell or a local counter can hold: a float that is not -0, a wrapped u64 *)
Definition nv_ok (x : numval) : Prop :=
  match x with VF f => is_negzero f = false | VU n => n < two64 | VI _ => False end.
Lemma nv_ok_add a d : nv_ok a -> nv_ok (num_add a d).
Proof.
  destruct a, d; cbn; auto.
  - apply add_not_negzero.
  - intros _. apply wrap64_lt.
Qed.
Lemma nv_ok_nzero a : nv_ok a -> nv_ok (nzero a).
Proof. destruct a; cbn; auto. intros _. reflexivity. Qed.
Lemma nzero_zero_like a : nzero a = zero_like a.
Proof. reflexivity. Qed.
Lemma none_like_one_like a : none_like a = one_like a.
Proof. reflexivity. Qed.
Lemma kzero_num_zero k : kzero k = num_zero k.
Proof. destruct k; reflexivity. Qed.

(* the model skips the addition when the local holds zero, the spec always adds: same thing *)
Lemma flush_add_agree cur p : nv_ok cur -> nv_ok p ->
  (if num_is_zero p then cur else num_add cur p) = num_add cur p.
Proof.
  intros C P. destruct (num_is_zero p) eqn:Z; auto. destruct p as [y|n|z]; cbn in *; try contradiction.
  - rewrite (feqb_zero y Z P). destruct cur as [x|x|x]; cbn in *; auto. rewrite add_zero_r; auto.
  - apply N.eqb_eq in Z; subst. destruct cur as [x|x|x]; cbn in *; auto. rewrite N.add_0_r, wrap64_small; auto.
Qed.
Lemma flush_local_agree p : nv_ok p -> (if num_is_zero p then p else zero_like p) = nzero p.
Proof.
  intros P. destruct (num_is_zero p) eqn:Z; auto. destruct p as [y|n|z]; cbn in *; try contradiction.
  - rewrite (feqb_zero y Z P). reflexivity.
  - apply N.eqb_eq in Z; subst. reflexivity.
Qed.

(* ================================================================ one histogram: books vs core *)
Definition hrel (hb : hbook) (h : hcore) : Prop :=
  exists hops, HInv (hc_bounds h) h hops /\ chain_lt (hc_bounds h)
               /\ hist_values hops = hb_vals hb /\ spec_sum hops = hb_sum hb
               /\ hb_count hb = N.of_nat (length (hb_vals hb)).

Lemma hrel_fresh o vals h : hcore_new o vals = Ok h -> hrel hb0 h.
Proof.
  intros H. destruct (hcore_new_fresh _ _ _ H) as (bs & CA & F). assert (B : hc_bounds h = bs) by apply F.
  exists []. rewrite B. split; [apply inv_fresh; auto|]. split; [apply (check_and_adjust_accepted _ _ CA)|].
  split; [reflexivity|]. split; reflexivity.
Qed.

Lemma hrel_reads hb h : hrel hb h -> hc_sample_count h = hb_count hb /\ hc_sample_sum h = hb_sum hb.
Proof.
  intros (hops & I & _ & V & S & C). split.
  - unfold hc_sample_count. rewrite (inv_total _ _ _ I), V. auto.
  - unfold hc_sample_sum. rewrite (inv_hot _ _ _ I). cbn. exact S.
Qed.

Lemma hrel_step hb h o :
  hrel hb h -> N.of_nat (length (hb_vals hb ++ hop_values o)) < two64 ->
  exists hops, HInv (hc_bounds h) (hop_apply h o) (hops ++ [o]) /\ chain_lt (hc_bounds h)
               /\ hist_values hops = hb_vals hb /\ spec_sum hops = hb_sum hb /\ hb_count hb = N.of_nat (length (hb_vals hb)).
Proof.
  intros (hops & I & Ch & V & S & C) L. exists hops. refine (conj _ (conj Ch (conj V (conj S C)))).
  apply inv_step; auto. rewrite hist_values_snoc, V. exact L.
Qed.

Lemma hrel_observe hb h v :
  hrel hb h -> N.of_nat (length (hb_vals hb ++ [v])) < two64 -> hrel (hb_observe hb v) (hc_observe h v).
Proof.
  intros R L. destruct (hrel_step hb h (HObserve v) R L) as (hops & I & Ch & V & S & C).
  exists (hops ++ [HObserve v]). cbn [hop_apply] in I.
  rewrite (hc_observe_bounds v h). refine (conj I (conj Ch (conj _ (conj _ _)))).
  - rewrite hist_values_snoc, V. reflexivity.
  - unfold spec_sum in *. rewrite hist_addends_snoc. cbn [hop_addends]. rewrite fold_snoc, S. reflexivity.
  - cbn [hb_observe hb_count hb_vals]. rewrite C, app_length. cbn [length]. lia.
Qed.

Lemma hrel_batch hb h p :
  hrel hb h -> N.of_nat (length (hb_vals hb ++ p)) < two64 ->
  hrel (hb_batch hb p) (hc_flush h (local_of (hc_bounds h) p)).
Proof.
  intros R L. destruct (hrel_step hb h (HFlush p) R L) as (hops & I & Ch & V & S & C).
  exists (hops ++ [HFlush p]). cbn [hop_apply] in I.
  rewrite hc_flush_bounds. refine (conj I (conj Ch (conj _ (conj _ _)))).
  - rewrite hist_values_snoc, V. destruct p; cbn [hb_batch hb_vals hop_values]; [rewrite app_nil_r|]; reflexivity.
  - unfold spec_sum in *. rewrite hist_addends_snoc. destruct p as [|v0 p0].
    + cbn [hop_addends hb_batch]. rewrite app_nil_r. exact S.
    + change (hop_addends (HFlush (v0 :: p0))) with [batch_sum (v0 :: p0)]. rewrite fold_snoc, S. reflexivity.
  - destruct p as [|v0 p0]; cbn [hb_batch hb_count hb_vals]; auto. rewrite C, app_length. lia.
Qed.

(* a local timer hands over the batch [e]; the books record one observation of e *)
Lemma hrel_timer hb h secs nanos :
  hrel hb h -> N.of_nat (length (hb_vals hb ++ [as_secs secs nanos])) < two64 ->
  hrel (hb_observe hb (as_secs secs nanos)) (hc_flush h (local_of (hc_bounds h) [as_secs secs nanos])).
Proof.
  intros R L. pose proof (hrel_batch hb h [as_secs secs nanos] R L) as (hops & I & Ch & V & S & C).
  exists hops. refine (conj I (conj Ch (conj V (conj _ C)))).
  cbn [hb_batch hb_sum] in S. cbn [hb_observe hb_sum]. rewrite S. unfold batch_total. cbn [fold_left].
  change (as_secs secs nanos) with (as_secs_f64 secs nanos). rewrite zero_plus_as_secs. reflexivity.
Qed.

Lemma count_le_same b vals : count_le b vals = count_le_spec b vals.
Proof. reflexivity. Qed.

Lemma hrel_collect hb h :
  hrel hb h -> N.of_nat (length (hb_vals hb)) < two64 ->
  exists m h', hist_metric h = Some (m, h') /\ hrel hb h' /\ metric_hist_ok hb m = true /\ hc_bounds h' = hc_bounds h.
Proof.
  intros (hops & I & Ch & V & S & C) L.
  destruct (inv_collect _ _ _ I Ch) as (h' & P & I'); [rewrite V; exact L|].
  unfold hist_metric. rewrite P. do 2 eexists. split; [reflexivity|].
  assert (B : hc_bounds h' = hc_bounds h) by apply I'.
  split; [|split; auto].
  - exists hops. rewrite B. exact (conj I' (conj Ch (conj V (conj S C)))).
  - unfold metric_hist_ok; cbn [m_histogram]. unfold hist_ok, spec_hist; cbn [h_count h_sum h_bucket].
    rewrite V, S, <- C, N.eqb_refl, f64_eqb_refl. cbn [andb].
    apply forallb_forall. intros k Hk. apply in_map_iff in Hk as (b0 & <- & _). cbn [b_cum b_upper]. apply N.eqb_refl.
Qed.

(* ================================================================ the simulation *)
(* ================================================================ keyed lists: tuples vs hashes *)
Definition H (t : list str) : N := fnv1a (label_values_preimage t).
Arguments H : simpl never.

Lemma tuple_eqb_eq a b : tuple_eqb a b = true <-> a = b.
Proof.
  unfold tuple_eqb. revert b; induction a as [|x a IH]; intros [|y b]; cbn; split; intros E; try discriminate; auto.
  - apply andb_prop in E as [E1 E2]. apply StrFacts.str_eqb_eq in E1. apply IH in E2. congruence.
  - inversion E; subst. rewrite StrFacts.str_eqb_refl. cbn. apply IH. reflexivity.
Qed.

Section Keyed.
Variable KT : list (list str).
Hypothesis Hinj : forall a b, In a KT -> In b KT -> H a = H b -> a = b.

Definition krel {A A'} (R : A -> A' -> Prop) (e : list str * A) (e' : N * A') : Prop :=
  fst e' = H (fst e) /\ In (fst e) KT /\ R (snd e) (snd e').

Lemma key_test t t0 : In t KT -> In t0 KT -> (H t =? H t0) = tuple_eqb t t0.
Proof.
  intros I I0. destruct (tuple_eqb t t0) eqn:E.
  - apply tuple_eqb_eq in E. subst. apply N.eqb_refl.
  - apply N.eqb_neq. intros Q. apply Hinj in Q; auto. subst. rewrite (proj2 (tuple_eqb_eq t0 t0) eq_refl) in E. discriminate.
Qed.

Lemma klookup {A A'} (R : A -> A' -> Prop) l l' t : Forall2 (krel R) l l' -> In t KT ->
  match tlookup t l, nlookup (H t) l' with Some x, Some x' => R x x' | None, None => True | _, _ => False end.
Proof.
  intros F I. induction F as [|[t0 x] [h0 x'] l l' (K1 & K2 & K3) F IH]; cbn; auto. cbn in K1, K2, K3. subst h0.
  rewrite (key_test t t0 I K2). destruct (tuple_eqb t t0); auto.
Qed.

Lemma kremove {A A'} (R : A -> A' -> Prop) l l' t : Forall2 (krel R) l l' -> In t KT ->
  Forall2 (krel R) (tremove t l) (nremove (H t) l').
Proof.
  intros F I. induction F as [|[t0 x] [h0 x'] l l' K F IH]; cbn; auto. pose proof K as (K1 & K2 & K3). cbn in K1, K2. subst h0.
  rewrite (key_test t t0 I K2). destruct (tuple_eqb t t0); auto.
Qed.

Lemma nlookup_none_notin {V} k (m : list (N * V)) : nlookup k m = None -> ~ In k (map fst m).
Proof.
  induction m as [|[k' v] t IH]; cbn; auto. destruct (N.eqb_spec k k'); [discriminate|]. intros E [Q|Q]; [congruence|]. apply IH; auto.
Qed.
Lemma nodup_nremove {V} k (m : list (N * V)) : NoDup (map fst m) -> NoDup (map fst (nremove k m)).
Proof.
  induction m as [|[k' v] t IH]; cbn; auto. intros ND. inversion ND; subst. destruct (k =? k'); auto. cbn. constructor; auto.
  intros Q. apply H2. clear -Q. induction t as [|[k2 v2] t IH]; cbn in *; auto. destruct (k =? k2); cbn in *; auto. destruct Q; auto.
Qed.

Lemma kupdate {A A'} (R : A -> A' -> Prop) l l' t x x' : Forall2 (krel R) l l' -> NoDup (map fst l') -> In t KT -> R x x' ->
  Forall2 (krel R) (tupdate t x l) (map (fun e => if fst e =? H t then (H t, x') else e) l').
Proof.
  intros F ND I Rx. induction F as [|[t0 y] [h0 y'] l l' K F IH]; cbn; auto. pose proof K as (K1 & K2 & K3). cbn in K1, K2. subst h0.
  cbn in ND. inversion ND; subst. rewrite N.eqb_sym, (key_test t t0 I K2). destruct (tuple_eqb t t0) eqn:E.
  - apply tuple_eqb_eq in E. subst t0. constructor; [repeat split; auto|].
    (* no later entry has this key *)
    assert (M : map (fun e : N * A' => if fst e =? H t then (H t, x') else e) l' = l').
    { clear -H2. induction l' as [|[k v] r IH]; cbn in *; auto. destruct (N.eqb_spec k (H t)).
      - subst. exfalso. apply H2. left; auto.
      - f_equal. apply IH. intros Q. apply H2. right; auto. }
    rewrite M. exact F.
  - constructor; auto.
Qed.
Lemma map_update_keys {A'} (l' : list (N * A')) h x' : map fst (map (fun e => if fst e =? h then (h, x') else e) l') = map fst l'.
Proof. induction l' as [|[k v] r IH]; cbn; auto. destruct (N.eqb_spec k h); cbn; subst; f_equal; auto. Qed.

(* ================================================================ the simulation *)
Definition crel (x : numval) (vc : vcore) : Prop := vc_type vc = VCounter /\ vc_val vc = x /\ nv_ok x.

(* [B] = bounds of the histogram cores, [nv] = number of value cores *)
Definition child_ok (B : list (list f64)) (nv : nat) (hist : bool) (m c : nat) : Prop :=
  c = m /\ (if hist then valid B m else (m < nv)%nat).
Definition centry (nv : nat) (x x' : nat * numval) : Prop := fst x' = fst x /\ snd x' = snd x /\ (fst x < nv)%nat /\ nv_ok (snd x).
Definition hentry (B : list (list f64)) (x : nat * list f64) (x' : nat * lhist) : Prop :=
  fst x' = fst x /\ exists bs, nth_error B (fst x) = Some bs /\ snd x' = local_of bs (snd x).

Definition vrel (B : list (list f64)) (nv : nat) (ks : vkinds) (vi : nat) (vb : vbook) (v : veccore) : Prop :=
  d_vars (v_desc v) = vb_names vb
  /\ (if vb_hist vb then exists bk, v_kind v = VKHist bk
      else v_kind v = VKValue VCounter (vkind_of vi ks) /\ vkind_of vi ks <> NI)
  /\ Forall2 (krel (child_ok B nv (vb_hist vb))) (vb_children vb) (v_children v).

(* books slot vs world slot *)
Definition srel (B : list (list f64)) (nv nvec : nat) (x : sh) (y : handle) : Prop :=
  match x, y with
  | SDead, HDead => True
  | SCounter m, HValue c => c = m /\ (m < nv)%nat
  | SHist m, HHist c => c = m /\ valid B m
  | SVec v, HVec vi => vi = v /\ (v < nvec)%nat
  | SLocalC m p, HLocalCounter c val => c = m /\ val = p /\ (m < nv)%nat /\ nv_ok p
  | SLocalH m p, HLocalHist c l => c = m /\ exists bs, nth_error B m = Some bs /\ l = local_of bs p
  | SLocalCV v cache, HLocalCounterVec vi cache' =>
      vi = v /\ (v < nvec)%nat /\ Forall2 (krel (centry nv)) cache cache' /\ NoDup (map fst cache')
  | SLocalHV v cache, HLocalHistVec vi cache' =>
      vi = v /\ (v < nvec)%nat /\ Forall2 (krel (hentry B)) cache cache' /\ NoDup (map fst cache')
  | STimer m, HTimer c => c = m /\ valid B m
  | SLTimer m, HLocalTimer c l => c = m /\ exists bs, nth_error B m = Some bs /\ l = local_of bs []
  | _, _ => False
  end.

Record sim (b : books) (ks : vkinds) (w : world) : Prop := mkSim {
  sim_c : Forall2 crel (bk_c b) (w_v w);
  sim_h : Forall2 hrel (bk_h b) (w_h w);
  sim_s : Forall2 (srel (wbounds w) (length (w_v w)) (length (w_vec w))) (bk_s b) (w_slots w);
  sim_vl : length (bk_v b) = length (w_vec w);
  sim_v : forall vi vb v, nth_error (bk_v b) vi = Some vb -> nth_error (w_vec w) vi = Some v ->
          vrel (wbounds w) (length (w_v w)) ks vi vb v }.

Lemma sim0 : sim books0 [] world0.
Proof. constructor; cbn; [constructor|constructor|constructor|reflexivity|]. intros [|i] vb v N; discriminate. Qed.

Lemma krel_imp {A A'} (R R' : A -> A' -> Prop) l l' : (forall x y, R x y -> R' x y) -> Forall2 (krel R) l l' -> Forall2 (krel R') l l'.
Proof. intros I. apply Forall2_imp. intros e e' (K1 & K2 & K3). repeat split; auto. Qed.

Lemma child_ok_mono B B' nv nv' hist m c : bmono B B' -> (nv <= nv')%nat -> child_ok B nv hist m c -> child_ok B' nv' hist m c.
Proof. intros M L (-> & K). split; auto. destruct hist; [eapply valid_mono; eauto|lia]. Qed.
Lemma centry_mono nv nv' x x' : (nv <= nv')%nat -> centry nv x x' -> centry nv' x x'.
Proof. intros L (A & B0 & C & D). repeat split; auto. lia. Qed.
Lemma hentry_mono B B' x x' : bmono B B' -> hentry B x x' -> hentry B' x x'.
Proof. intros M (A & bs & N & E). split; auto. exists bs; auto. Qed.

Lemma vrel_mono B B' nv nv' ks vi vb v : bmono B B' -> (nv <= nv')%nat -> vrel B nv ks vi vb v -> vrel B' nv' ks vi vb v.
Proof.
  intros M L (A & K & C). split; auto. split; auto. eapply krel_imp; [|exact C]. intros x y. apply child_ok_mono; auto.
Qed.

Lemma srel_mono B B' nv nv' nvec nvec' x y : bmono B B' -> (nv <= nv')%nat -> (nvec <= nvec')%nat ->
  srel B nv nvec x y -> srel B' nv' nvec' x y.
Proof.
  intros M L L2. destruct x, y; cbn; auto.
  - intros (-> & K); split; auto; lia.
  - intros (-> & K); split; auto. eapply valid_mono; eauto.
  - intros (-> & K); split; auto; lia.
  - intros (-> & -> & K & K'). repeat split; auto; lia.
  - intros (-> & bs & K & K'). split; auto. exists bs; auto.
  - intros (-> & K & F & ND). repeat split; auto; try lia. eapply krel_imp; [|exact F]. intros a c. apply centry_mono; auto.
  - intros (-> & K & F & ND). repeat split; auto; try lia. eapply krel_imp; [|exact F]. intros a c. apply hentry_mono; auto.
  - intros (-> & K); split; auto. eapply valid_mono; eauto.
  - intros (-> & bs & K & K'). split; auto. exists bs; auto.
Qed.

Lemma sim_slot b ks w s : sim b ks w -> srel (wbounds w) (length (w_v w)) (length (w_vec w)) (bk_slot b s) (slot w s).
Proof. intros S. unfold bk_slot, slot. apply Forall2_nth; [apply S|exact I]. Qed.

(* --- building the relation after a step --- *)
Lemma sim_put b ks w s x y : sim b ks w -> srel (wbounds w) (length (w_v w)) (length (w_vec w)) x y -> sim (bk_put b s x) ks (put_slot w s y).
Proof. intros [C H0 S VL V] R. constructor; cbn; auto. apply Forall2_list_set; auto. Qed.
Lemma sim_push b ks w x y : sim b ks w -> srel (wbounds w) (length (w_v w)) (length (w_vec w)) x y -> sim (bk_push b x) ks (push_slot w y).
Proof. intros [C H0 S VL V] R. constructor; cbn; auto. apply Forall2_snoc; auto. Qed.

Lemma vc_with_val vc x : vc_val (vc_with vc x) = x.
Proof. reflexivity. Qed.

Lemma sim_counter_set b ks w m vc x' :
  sim b ks w -> nth_error (w_v w) m = Some vc -> nv_ok x' ->
  sim (bk_set_counter b m x') ks (set_v w (list_set (w_v w) m (vc_with vc x'))).
Proof.
  intros [C H0 S VL V] N K. destruct (Forall2_nth_error_r _ _ _ _ _ C N) as (x & Nx & (T0 & _ & _)).
  constructor; cbn; auto.
  - apply Forall2_list_set; auto. repeat split; auto.
  - rewrite length_list_set. exact S.
  - rewrite length_list_set. exact V.
Qed.

Lemma sim_hist_set b ks w m h h' hb' :
  sim b ks w -> nth_error (w_h w) m = Some h -> hrel hb' h' -> hc_bounds h' = hc_bounds h ->
  sim (bk_set_hist b m hb') ks (set_h w (list_set (w_h w) m h')).
Proof.
  intros [C H0 S VL V] N R Bd.
  assert (E : wbounds (set_h w (list_set (w_h w) m h')) = wbounds w).
  { unfold wbounds; cbn. rewrite map_list_set, Bd, list_set_same; auto. apply map_nth_error; auto. }
  constructor; try rewrite E; cbn; auto. apply Forall2_list_set; auto.
Qed.

Lemma bk_set_hist_same b m hb : nth_error (bk_h b) m = Some hb -> bk_set_hist b m hb = b.
Proof. intros E. unfold bk_set_hist. rewrite list_set_same by auto. destruct b; reflexivity. Qed.
Lemma bk_set_counter_same b m x : nth_error (bk_c b) m = Some x -> bk_set_counter b m x = b.
Proof. intros E. unfold bk_set_counter. rewrite list_set_same by auto. destruct b; reflexivity. Qed.
Lemma set_v_list_same w m vc : nth_error (w_v w) m = Some vc -> set_v w (list_set (w_v w) m vc) = w.
Proof. intros E. rewrite list_set_same by auto. apply set_v_same. Qed.

Lemma sim_new_counter b ks w x vc :
  sim b ks w -> crel x vc -> sim (mkBooks (bk_c b ++ [x]) (bk_h b) (bk_v b) (bk_s b)) ks (set_v w (w_v w ++ [vc])).
Proof.
  intros [C H0 S VL V] R. constructor; cbn; auto.
  - apply Forall2_snoc; auto.
  - eapply Forall2_imp; [|exact S]. intros a c. apply srel_mono; [apply bmono_refl|rewrite app_length; lia|lia].
  - intros vi vb v N1 N2. eapply vrel_mono; [apply bmono_refl| |eapply V; eauto]. rewrite app_length; lia.
Qed.
Lemma sim_new_hist b ks w hb h :
  sim b ks w -> hrel hb h -> sim (mkBooks (bk_c b) (bk_h b ++ [hb]) (bk_v b) (bk_s b)) ks (set_h w (w_h w ++ [h])).
Proof.
  intros [C H0 S VL V] R.
  assert (M : bmono (wbounds w) (wbounds (set_h w (w_h w ++ [h])))) by (unfold wbounds; cbn; rewrite map_app; apply bmono_app).
  constructor; cbn; auto.
  - apply Forall2_snoc; auto.
  - eapply Forall2_imp; [|exact S]. intros a c. apply srel_mono; auto.
  - intros vi vb v N1 N2. eapply vrel_mono; [exact M| |eapply V; eauto]. lia.
Qed.

(* --- reading the relation --- *)
Lemma sim_counter_at b ks w m : sim b ks w -> (m < length (w_v w))%nat ->
  exists vc, nth_error (w_v w) m = Some vc /\ vc_type vc = VCounter /\ nth_error (bk_c b) m = Some (vc_val vc)
             /\ bk_counter b m = vc_val vc /\ nv_ok (vc_val vc).
Proof.
  intros [C H0 S VL V] L. destruct (nth_error (w_v w) m) as [vc|] eqn:N; [|apply nth_error_None in N; lia].
  destruct (Forall2_nth_error_r _ _ _ _ _ C N) as (x & Nx & (T0 & Vv & K)). subst x.
  exists vc. repeat split; auto. unfold bk_counter. apply nth_of_nth_error; auto.
Qed.
Lemma sim_hist_at b ks w m : sim b ks w -> valid (wbounds w) m ->
  exists h hb, nth_error (w_h w) m = Some h /\ nth_error (bk_h b) m = Some hb /\ bk_hist b m = hb /\ hrel hb h
               /\ nth_error (wbounds w) m = Some (hc_bounds h) /\ bounds_of w m = hc_bounds h.
Proof.
  intros [C H0 S VL V] (bs & N). pose proof N as N0. apply nth_error_map_some in N as (h & Nh & <-).
  destruct (Forall2_nth_error_r _ _ _ _ _ H0 Nh) as (hb & Nb & R).
  exists h, hb. repeat split; auto. { unfold bk_hist. apply nth_of_nth_error; auto. } apply bounds_of_nth; auto.
Qed.


Lemma sim_vec_at b ks w vi : sim b ks w -> (vi < length (w_vec w))%nat ->
  exists v vb, nth_error (w_vec w) vi = Some v /\ nth_error (bk_v b) vi = Some vb /\ bk_vec b vi = vb
               /\ vrel (wbounds w) (length (w_v w)) ks vi vb v.
Proof.
  intros [C H0 S VL V] L. destruct (nth_error (w_vec w) vi) as [v|] eqn:N; [|apply nth_error_None in N; lia].
  destruct (nth_error (bk_v b) vi) as [vb|] eqn:Nb; [|apply nth_error_None in Nb; lia].
  exists v, vb. split; auto. split; auto. split; [unfold bk_vec; apply nth_of_nth_error; auto|]. eapply V; eauto.
Qed.

Lemma sim_vec_set b ks w vi vb' v' :
  sim b ks w -> (vi < length (w_vec w))%nat -> vrel (wbounds w) (length (w_v w)) ks vi vb' v' ->
  sim (bk_set_vec b vi vb') ks (set_vec w (list_set (w_vec w) vi v')).
Proof.
  intros [C H0 S VL V] L R. constructor; cbn; auto.
  - rewrite length_list_set. exact S.
  - rewrite !length_list_set. exact VL.
  - intros i vb v N1 N2. cbn in N1, N2. destruct (Nat.eq_dec vi i) as [->|D].
    + destruct (nth_error (w_vec w) i) eqn:E; [|apply nth_error_None in E; lia].
      destruct (nth_error (bk_v b) i) eqn:E2; [|apply nth_error_None in E2; lia].
      rewrite (nth_error_list_set_eq _ _ _ _ E) in N2. rewrite (nth_error_list_set_eq _ _ _ _ E2) in N1.
      inversion N1; inversion N2; subst. exact R.
    + rewrite nth_error_list_set_neq in N1 by auto. rewrite nth_error_list_set_neq in N2 by auto. eauto.
Qed.

(* --- smallness (fewer than 2^63 observations anywhere) --- *)
Definition small_n (n : nat) : bool := N.of_nat n <? two63.
Definition slot_small (x : sh) : bool := match x with SLocalH _ p => small_n (length p) | _ => true end.
Definition books_small (b : books) : bool :=
  forallb (fun hb => small_n (length (hb_vals hb))) (bk_h b) && forallb slot_small (bk_s b).

Lemma small_n_lt n : small_n n = true -> N.of_nat n < two64.
Proof. unfold small_n. intros H. apply N.ltb_lt in H. pose proof two63_lt_two64. lia. Qed.
Lemma small_hist b m hb : books_small b = true -> nth_error (bk_h b) m = Some hb -> N.of_nat (length (hb_vals hb)) < two64.
Proof.
  unfold books_small. intros H N. apply andb_prop in H as [H _]. rewrite forallb_forall in H.
  apply small_n_lt. apply H. eapply nth_error_In; eauto.
Qed.
Lemma small_slot b s m p : books_small b = true -> bk_slot b s = SLocalH m p -> N.of_nat (length p) < two64.
Proof.
  unfold books_small, bk_slot. intros H E. apply andb_prop in H as [_ H]. rewrite forallb_forall in H.
  destruct (Nat.lt_ge_cases s (length (bk_s b))) as [L|L].
  - apply small_n_lt. apply (H (SLocalH m p)). rewrite <- E. apply nth_In; auto.
  - rewrite nth_overflow in E by auto. discriminate.
Qed.
Lemma small_hist_set b m hb' : (m < length (bk_h b))%nat -> books_small (bk_set_hist b m hb') = true ->
  N.of_nat (length (hb_vals hb')) < two64.
Proof.
  intros L H. eapply (small_hist _ m); [exact H|]. cbn. destruct (nth_error (bk_h b) m) eqn:N; [|apply nth_error_None in N; lia].
  eapply nth_error_list_set_eq; eauto.
Qed.

Lemma local_snoc bs p v : local_of bs (p ++ [v]) = lh_observe bs (local_of bs p) v.
Proof. unfold local_of. apply fold_snoc. Qed.
Lemma local_nil bs : local_of bs [] = lh_new (length bs).
Proof. reflexivity. Qed.

Lemma value_new_counter o k vc : value_new o VCounter k [] = Ok vc -> vc_type vc = VCounter /\ vc_val vc = num_zero k.
Proof.
  unfold value_new. destruct (describe o); [|discriminate]. destruct (make_label_pairs _ _); [|discriminate].
  intros H; inversion H; auto.
Qed.

(* ================================================================ the covered language *)
Definition op_in_lang (o : op) : bool :=
  match o with
  | OpCounter NF _ | OpCounter NU _ | OpCounterVec NF _ _ | OpCounterVec NU _ _ => true
  | OpHistogram _ | OpHistVec _ _ | OpWith _ _ | OpRemove _ _
  | OpInc _ | OpIncBy _ _ | OpReset _ | OpGet _ | OpObserve _ _ | OpSampleCount _ | OpSampleSum _
  | OpLocal _ | OpFlush _ | OpClear _ | OpClone _ | OpDrop _ | OpLvInc _ _ _ | OpLvObserve _ _ _ | OpLvRemove _ _
  | OpTimer _ | OpTimerStop _ _ _ _ | OpClosure _ _ _ | OpCollect _ => true
  | _ => false
  end.
(* the label-value tuple an operation mentions *)
Definition op_tuple (o : op) : option (list str) :=
  match o with
  | OpWith _ t | OpRemove _ t | OpLvInc _ t _ | OpLvObserve _ t _ | OpLvRemove _ t => Some t
  | _ => None
  end.

Definition all_true (cs : list check) : bool := forallb (fun c : check => snd c) cs.

Definition step_ok (bk : books * vkinds) (w : world) (o : op) : Prop :=
  books_small (fst (fst (acct_step bk o (snd (step w o))))) = true ->
  sim (fst (fst (acct_step bk o (snd (step w o))))) (snd (fst (acct_step bk o (snd (step w o))))) (fst (step w o))
  /\ all_true (snd (acct_step bk o (snd (step w o)))) = true.

(* ================================================================ one step, every operation of the language *)
Ltac slots b w s S :=
  let R := fresh "R" in pose proof (sim_slot b _ w s S) as R;
  destruct (bk_slot b s) eqn:EB; destruct (slot w s) eqn:EW; cbn [srel] in R; try contradiction.
Ltac red_step EB EW := unfold step_ok, step, acct_step; rewrite ?EB, ?EW; cbv beta iota zeta; cbn [fst snd].
Ltac inert S EB EW := red_step EB EW; intros _; split; [exact S|reflexivity].

Lemma step_counter b ks w k o : sim b ks w -> books_small b = true -> (k = NF \/ k = NU) -> step_ok (b, ks) w (OpCounter k o).
Proof.
  intros S SM K. unfold step_ok, step, acct_step. destruct (value_new o VCounter k []) as [vc|e] eqn:V; cbn [fst snd is_ok].
  - intros _. split; [|reflexivity]. destruct (value_new_counter _ _ _ V) as (T & Vz).
    rewrite (Forall2_len _ _ _ (sim_c _ _ _ S)).
    apply (sim_push (mkBooks (bk_c b ++ [kzero k]) (bk_h b) (bk_v b) (bk_s b)) ks (set_v w (w_v w ++ [vc]))).
    + apply sim_new_counter; auto. unfold crel. rewrite kzero_num_zero. split; [exact T|]. split; [exact Vz|]. destruct K; subst; reflexivity.
    + cbn. rewrite app_length; cbn. split; auto. lia.
  - intros _. split; [|reflexivity]. apply sim_push; auto. exact I.
Qed.

Lemma step_histogram b ks w o : sim b ks w -> books_small b = true -> step_ok (b, ks) w (OpHistogram o).
Proof.
  intros S SM. unfold step_ok, step, acct_step. destruct (hcore_new o []) as [h|e] eqn:V; cbn [fst snd is_ok].
  - intros _. split; [|reflexivity]. rewrite (Forall2_len _ _ _ (sim_h _ _ _ S)).
    apply (sim_push (mkBooks (bk_c b) (bk_h b ++ [hb0]) (bk_v b) (bk_s b)) ks (set_h w (w_h w ++ [h]))).
    + apply sim_new_hist; auto. eapply hrel_fresh; eauto.
    + cbn. split; auto. apply valid_new.
  - intros _. split; [|reflexivity]. apply sim_push; auto. exact I.
Qed.

Lemma step_inc b ks w s : sim b ks w -> books_small b = true -> step_ok (b, ks) w (OpInc s).
Proof.
  intros S SM. slots b w s S; try (inert S EB EW).
  - destruct R as (-> & L). destruct (sim_counter_at b ks w m S L) as (vc & N & T & Nb & Bc & K).
    red_step EB EW. intros _. split; [|reflexivity]. rewrite (upd_some _ _ _ _ N), Bc.
    apply (sim_counter_set b ks w m vc (num_add (vc_val vc) (none_like (vc_val vc))) S N). apply nv_ok_add; auto.
  - destruct R as (-> & -> & L & K). red_step EB EW. intros _. split; [|reflexivity].
    apply sim_put; auto. cbn. repeat split; auto. apply nv_ok_add; auto.
Qed.

Lemma step_incby b ks w s d : sim b ks w -> books_small b = true -> step_ok (b, ks) w (OpIncBy s d).
Proof.
  intros S SM. slots b w s S; try (inert S EB EW).
  - destruct R as (-> & L). destruct (sim_counter_at b ks w m S L) as (vc & N & T & Nb & Bc & K).
    red_step EB EW. intros _. split; [|reflexivity]. rewrite (upd_some _ _ _ _ N), Bc.
    apply (sim_counter_set b ks w m vc (num_add (vc_val vc) d) S N). apply nv_ok_add; auto.
  - destruct R as (-> & -> & L & K). red_step EB EW. intros _. split; [|reflexivity].
    apply sim_put; auto. cbn. repeat split; auto. apply nv_ok_add; auto.
Qed.

Lemma step_reset b ks w s : sim b ks w -> books_small b = true -> step_ok (b, ks) w (OpReset s).
Proof.
  intros S SM. slots b w s S; try (inert S EB EW).
  - destruct R as (-> & L). destruct (sim_counter_at b ks w m S L) as (vc & N & T & Nb & Bc & K).
    red_step EB EW. intros _. split; [|reflexivity]. rewrite (upd_some _ _ _ _ N), Bc.
    apply (sim_counter_set b ks w m vc (nzero (vc_val vc)) S N). apply nv_ok_nzero; auto.
  - (* reset of a vector: its children are forgotten *)
    destruct R as (-> & L). destruct (sim_vec_at b ks w v S L) as (vv & vb & N & Nb & Bv & (A & K & Ch)).
    red_step EB EW. intros _. split; [|reflexivity]. rewrite (upd_some _ _ _ _ N), Bv.
    apply sim_vec_set; auto. split; [exact A|]. split; [exact K|]. constructor.
Qed.

Lemma step_get b ks w s : sim b ks w -> books_small b = true -> step_ok (b, ks) w (OpGet s).
Proof.
  intros S SM. slots b w s S; try (inert S EB EW).
  - destruct R as (-> & L). destruct (sim_counter_at b ks w m S L) as (vc & N & T & Nb & Bc & K).
    red_step EB EW. rewrite N. cbn [fst snd]. intros _. split; [exact S|]. cbn. rewrite Bc, numval_eqb_refl. reflexivity.
  - destruct R as (-> & -> & L & K). red_step EB EW. intros _. split; [exact S|]. cbn. rewrite numval_eqb_refl. reflexivity.
Qed.

Lemma hist_len b ks w : sim b ks w -> length (bk_h b) = length (w_h w).
Proof. intros S. apply (Forall2_len _ _ _ (sim_h _ _ _ S)). Qed.
Lemma nth_some_lt {A} (l : list A) i x : nth_error l i = Some x -> (i < length l)%nat.
Proof. intros H. apply nth_error_Some. congruence. Qed.

Lemma step_observe b ks w s v : sim b ks w -> books_small b = true -> step_ok (b, ks) w (OpObserve s v).
Proof.
  intros S SM. slots b w s S; try (inert S EB EW).
  - destruct R as (-> & Va). destruct (sim_hist_at b ks w m S Va) as (h & hb & N & Nb & Bh & Rh & NB & BO).
    red_step EB EW. rewrite Bh. intros SM'. split; [|reflexivity]. rewrite (upd_some _ _ _ _ N).
    apply (sim_hist_set b ks w m h); auto; [|apply hc_observe_bounds].
    apply hrel_observe; auto. pose proof (small_hist_set b m _ (nth_some_lt _ _ _ Nb) SM') as Q. exact Q.
  - destruct R as (-> & bs & NB & ->). red_step EB EW. intros _. split; [|reflexivity].
    apply sim_put; auto. cbn. split; auto. exists bs. split; auto. rewrite (bounds_of_nth _ _ _ NB). symmetry. apply local_snoc.
Qed.

Lemma step_samplecount b ks w s : sim b ks w -> books_small b = true -> step_ok (b, ks) w (OpSampleCount s).
Proof.
  intros S SM. slots b w s S; try (inert S EB EW).
  - destruct R as (-> & Va). destruct (sim_hist_at b ks w m S Va) as (h & hb & N & Nb & Bh & Rh & NB & BO).
    red_step EB EW. rewrite N. cbn [fst snd]. intros _. split; [exact S|]. cbn. rewrite Bh, (proj1 (hrel_reads _ _ Rh)), N.eqb_refl. reflexivity.
  - destruct R as (-> & bs & NB & ->). red_step EB EW. intros _. split; [exact S|]. cbn.
    rewrite local_of_spec by (eapply small_slot; eauto). cbn. rewrite N.eqb_refl. reflexivity.
Qed.

Lemma step_samplesum b ks w s : sim b ks w -> books_small b = true -> step_ok (b, ks) w (OpSampleSum s).
Proof.
  intros S SM. slots b w s S; try (inert S EB EW).
  - destruct R as (-> & Va). destruct (sim_hist_at b ks w m S Va) as (h & hb & N & Nb & Bh & Rh & NB & BO).
    red_step EB EW. rewrite N. cbn [fst snd]. intros _. split; [exact S|]. cbn. rewrite Bh, (proj2 (hrel_reads _ _ Rh)), f64_eqb_refl. reflexivity.
  - destruct R as (-> & bs & NB & ->). red_step EB EW. intros _. split; [exact S|]. cbn.
    rewrite local_of_spec by (eapply small_slot; eauto). cbn. unfold batch_total, batch_sum. rewrite f64_eqb_refl. reflexivity.
Qed.

Lemma step_local b ks w s : sim b ks w -> books_small b = true -> step_ok (b, ks) w (OpLocal s).
Proof.
  intros S SM. slots b w s S; try (red_step EB EW; intros _; split; [apply sim_push; auto; exact I|reflexivity]).
  - destruct R as (-> & L). destruct (sim_counter_at b ks w m S L) as (vc & N & T & Nb & Bc & K).
    red_step EB EW. rewrite N. cbn [fst snd]. intros _. split; [|reflexivity]. apply sim_push; auto. cbn. rewrite Bc.
    repeat split; auto. apply nv_ok_nzero; auto.
  - destruct R as (-> & Va). destruct (sim_hist_at b ks w m S Va) as (h & hb & N & Nb & Bh & Rh & NB & BO).
    red_step EB EW. intros _. split; [|reflexivity]. apply sim_push; auto. cbn. split; auto. exists (hc_bounds h). split; auto.
    rewrite BO. reflexivity.
  - destruct R as (-> & L). destruct (sim_vec_at b ks w v S L) as (vv & vb & N & Nb & Bv & (A & K & Ch)).
    red_step EB EW. rewrite N, Bv. destruct (vb_hist vb).
    + destruct K as (bk & ->). cbn [fst snd]. intros _. split; [|reflexivity]. apply sim_push; auto. cbn. repeat split; auto; constructor.
    + destruct K as (-> & _). cbn [fst snd]. intros _. split; [|reflexivity]. apply sim_push; auto. cbn. repeat split; auto; constructor.
Qed.

Lemma hb_batch_vals hb p : hb_vals (hb_batch hb p) = hb_vals hb ++ p.
Proof. destruct p; cbn; auto. rewrite app_nil_r. reflexivity. Qed.

Lemma slot_lt_sim b ks w s : sim b ks w -> slot w s <> HDead -> (s < length (w_slots w))%nat.
Proof. intros _. apply slot_lt. Qed.


(* ---------- flushing the cache of a local vector ---------- *)
Definition cz (e : list str * (nat * numval)) : list str * (nat * numval) := let '(t, (m, p)) := e in (t, (m, nzero p)).
Definition hz (e : list str * (nat * list f64)) : list str * (nat * list f64) := let '(t, (m, _)) := e in (t, (m, [])).

Lemma flush_one_counter b ks w h m p : sim b ks w -> (m < length (w_v w))%nat -> nv_ok p ->
  sim (bk_set_counter b m (num_add (bk_counter b m) p)) ks (cv_flush1 w (h, (m, p))).
Proof.
  intros S L K. destruct (sim_counter_at b ks w m S L) as (vc & N & T & Nb & Bc & Kc). rewrite Bc.
  cbn [cv_flush1]. pose proof (flush_add_agree (vc_val vc) p Kc K) as A. destruct (num_is_zero p) eqn:Z.
  - rewrite <- A. rewrite bk_set_counter_same; auto.
  - rewrite (upd_some _ _ _ _ N). apply (sim_counter_set b ks w m vc (num_add (vc_val vc) p) S N). apply nv_ok_add; auto.
Qed.

Lemma flush_cv_sim ks cache cache' : forall b w, sim b ks w -> Forall2 (krel (centry (length (w_v w)))) cache cache' ->
  sim (flush_cv b cache) ks (fold_left cv_flush1 cache' w).
Proof.
  intros b w S F. revert b S. remember (length (w_v w)) as nv eqn:En. revert w En.
  induction F as [|[t [m p]] [h [c val]] l l' (K1 & K2 & (K3 & K4 & K5 & K6)) F IH]; intros w En b S; cbn [fold_left flush_cv]; auto.
  cbn in K3, K4, K5, K6. subst c val. unfold flush_cv in IH. apply IH.
  - cbn [cv_flush1]. destruct (num_is_zero p); cbn; auto. rewrite length_upd. auto.
  - apply flush_one_counter; auto. lia.
Qed.

Lemma cz_rel nv cache cache' : Forall2 (krel (centry nv)) cache cache' ->
  Forall2 (krel (centry nv)) (map cz cache) (map cv_zero cache').
Proof.
  induction 1 as [|[t [m p]] [h [c val]] l l' (K1 & K2 & (K3 & K4 & K5 & K6)) F IH]; cbn; constructor; auto.
  cbn in *. subst. repeat split; auto. apply nv_ok_nzero; auto.
Qed.
Lemma cv_zero_keys cache' : map fst (map cv_zero cache') = map fst cache'.
Proof. induction cache' as [|[h [c val]] r IH]; cbn; f_equal; auto. Qed.
Lemma hv_clear_keys (cache' : list (N * (nat * lhist))) : map fst (map hv_clear cache') = map fst cache'.
Proof. induction cache' as [|[h [c l]] r IH]; cbn; f_equal; auto. Qed.
Lemma hz_rel B cache cache' : Forall2 (krel (hentry B)) cache cache' ->
  Forall2 (krel (hentry B)) (map hz cache) (map hv_clear cache').
Proof.
  induction 1 as [|[t [m p]] [h [c l]] r r' (K1 & K2 & (K3 & bs & K4 & K5)) F IH]; cbn; constructor; auto.
  cbn in *. subst. repeat split; auto. exists bs. split; auto. apply local_clear.
Qed.

Lemma small_hist_nth b m : books_small b = true -> N.of_nat (length (hb_vals (bk_hist b m))) < two64.
Proof.
  intros SM. unfold bk_hist. destruct (nth_error (bk_h b) m) as [hb|] eqn:N.
  - rewrite (nth_of_nth_error _ _ _ hb0 N). eapply small_hist; eauto.
  - rewrite nth_overflow by (apply nth_error_None; auto). cbn. reflexivity.
Qed.

Lemma bk_hist_set b m x m' : bk_hist (bk_set_hist b m x) m' = if Nat.eqb m m' && Nat.ltb m (length (bk_h b)) then x else bk_hist b m'.
Proof.
  unfold bk_hist, bk_set_hist; cbn [bk_h]. destruct (Nat.eqb_spec m m') as [->|D].
  - destruct (Nat.ltb_spec m' (length (bk_h b))); cbn [andb].
    + apply nth_list_set_eq; auto.
    + rewrite !nth_overflow; auto. rewrite length_list_set; auto.
  - cbn [andb]. apply nth_list_set_neq; auto.
Qed.

Lemma flush_hv_grows cache : forall b m, (length (hb_vals (bk_hist b m)) <= length (hb_vals (bk_hist (flush_hv b cache) m)))%nat.
Proof.
  induction cache as [|[t [m0 p]] r IH]; intros b m; cbn [flush_hv fold_left]; auto. unfold flush_hv in IH.
  etransitivity; [|apply IH]. rewrite bk_hist_set. destruct (Nat.eqb m0 m && Nat.ltb m0 (length (bk_h b)))%bool eqn:E; auto.
  apply andb_prop in E as [E _]. apply Nat.eqb_eq in E; subst. rewrite hb_batch_vals, app_length. lia.
Qed.

Lemma flush_hv_slots cache : forall b, bk_s (flush_hv b cache) = bk_s b.
Proof. induction cache as [|[t [m p]] r IH]; intros b; cbn [flush_hv fold_left]; auto. unfold flush_hv in IH. rewrite IH. reflexivity. Qed.

Lemma flush_one_hist b ks w m p l :
  sim b ks w -> (exists bs, nth_error (wbounds w) m = Some bs /\ l = local_of bs p) ->
  N.of_nat (length (hb_vals (bk_hist b m) ++ p)) < two64 ->
  sim (bk_set_hist b m (hb_batch (bk_hist b m) p)) ks (flush_lh w m l).
Proof.
  intros S (bs & NB & ->) L. assert (Va : valid (wbounds w) m) by (exists bs; auto).
  destruct (sim_hist_at b ks w m S Va) as (h & hb & N & Nb & Bh & Rh & NB' & BO).
  assert (bs = hc_bounds h) by congruence. subst bs. rewrite Bh in *.
  unfold flush_lh. rewrite (upd_some _ _ _ _ N). apply (sim_hist_set b ks w m h); auto; [|apply hc_flush_bounds].
  apply hrel_batch; auto.
Qed.

Lemma flush_hv_sim ks cache cache' : forall b w, sim b ks w -> Forall2 (krel (hentry (wbounds w))) cache cache' ->
  books_small (flush_hv b cache) = true -> sim (flush_hv b cache) ks (fold_left hv_flush1 cache' w).
Proof.
  intros b w S F. revert b S. remember (wbounds w) as B eqn:EB0. revert w EB0.
  induction F as [|[t [m p]] [h [c l]] r r' (K1 & K2 & (K3 & K4)) F IH]; intros w EB0 b S SM; cbn [fold_left flush_hv]; auto.
  cbn in K3, K4. subst c. unfold flush_hv in IH. cbn [hv_flush1]. apply IH; auto.
  - unfold wbounds. rewrite flush_lh_bounds. exact EB0.
  - apply flush_one_hist; auto. { subst B. exact K4. }
    assert (Q : N.of_nat (length (hb_vals (bk_hist (bk_set_hist b m (hb_batch (bk_hist b m) p)) m))) < two64).
    { pose proof (flush_hv_grows r (bk_set_hist b m (hb_batch (bk_hist b m) p)) m) as G.
      pose proof (small_hist_nth _ m SM) as Q. cbn [flush_hv fold_left] in Q. unfold flush_hv in G. lia. }
    rewrite bk_hist_set, Nat.eqb_refl in Q. cbn [andb] in Q.
    destruct K4 as (bs & NB & _). subst B. apply nth_error_map_some in NB as (h0 & Nh & _).
    assert (Lm : (m < length (bk_h b))%nat).
    { rewrite (Forall2_len _ _ _ (sim_h _ _ _ S)). eapply nth_some_lt; eauto. }
    apply Nat.ltb_lt in Lm. rewrite Lm, hb_batch_vals in Q. exact Q.
Qed.

Lemma step_flush b ks w s : sim b ks w -> books_small b = true -> step_ok (b, ks) w (OpFlush s).
Proof.
  intros S SM. slots b w s S; try (inert S EB EW).
  - (* local counter *)
    destruct R as (-> & -> & L & K). destruct (sim_counter_at b ks w m S L) as (vc & N & T & Nb & Bc & Kc).
    red_step EB EW. rewrite Bc. intros _.
    destruct (num_is_zero pend) eqn:Z; cbn [fst snd]; (split; [|reflexivity]).
    + pose proof (flush_add_agree (vc_val vc) pend Kc K) as A. rewrite Z in A. rewrite <- A.
      pose proof (flush_local_agree pend K) as A2. rewrite Z in A2. rewrite <- A2.
      rewrite (bk_set_counter_same b m _ Nb).
      assert (Ls : (s < length (w_slots w))%nat) by (apply slot_lt; rewrite EW; discriminate).
      rewrite <- (put_slot_same w s _ Ls EW). apply sim_put; auto. cbn. repeat split; auto.
    + rewrite (upd_some _ _ _ _ N). apply sim_put.
      * apply (sim_counter_set b ks w m vc (num_add (vc_val vc) pend) S N). apply nv_ok_add; auto.
      * cbn. rewrite length_list_set. repeat split; auto. apply nv_ok_nzero; auto.
  - (* local histogram *)
    destruct R as (-> & bs & NB & ->). assert (Va : valid (wbounds w) m) by (exists bs; auto).
    destruct (sim_hist_at b ks w m S Va) as (h & hb & N & Nb & Bh & Rh & NB' & BO).
    assert (bs = hc_bounds h) by congruence. subst bs.
    red_step EB EW. rewrite Bh. intros SM'. split; [|reflexivity].
    unfold flush_lh. rewrite (upd_some _ _ _ _ N). apply sim_put.
    + apply (sim_hist_set b ks w m h); auto; [|apply hc_flush_bounds].
      apply hrel_batch; auto. rewrite <- hb_batch_vals. eapply (small_hist _ m); [exact SM'|].
      cbn. eapply nth_error_list_set_eq; eauto.
    + cbn. split; auto. exists (hc_bounds h). rewrite map_list_set, hc_flush_bounds, list_set_same by (apply map_nth_error; auto).
      split; auto. rewrite local_clear. reflexivity.
  - (* local counter vector *)
    destruct R as (-> & L & F & ND). red_step EB EW. intros _. split; [|reflexivity].
    apply (sim_put (flush_cv b cache) ks (fold_left cv_flush1 cache0 w) s (SLocalCV v (map cz cache)) (HLocalCounterVec v (map cv_zero cache0))).
    + apply flush_cv_sim; auto.
    + destruct (cv_flush_fold_frame cache0 w) as (E1 & E2 & E3 & E4 & E5). unfold wbounds. rewrite E1, E3, E5. cbn.
      repeat split; auto. { apply cz_rel; auto. } rewrite cv_zero_keys. exact ND.
  - (* local histogram vector *)
    destruct R as (-> & L & F & ND). red_step EB EW. intros SM'. split; [|reflexivity].
    apply (sim_put (flush_hv b cache) ks (fold_left hv_flush1 cache0 w) s (SLocalHV v (map hz cache)) (HLocalHistVec v (map hv_clear cache0))).
    + apply flush_hv_sim; auto. unfold books_small in *. cbn in SM'. apply andb_prop in SM' as [A _]. rewrite A. cbn.
      apply andb_prop in SM as [_ A2]. rewrite flush_hv_slots. exact A2.
    + destruct (hv_flush_fold_frame cache0 w) as (E1 & E2 & E3 & E4 & E5). unfold wbounds. rewrite hv_fold_bounds, E1, E3. cbn.
      repeat split; auto. { apply hz_rel; auto. } rewrite hv_clear_keys. exact ND.
Qed.

Lemma step_clear b ks w s : sim b ks w -> books_small b = true -> step_ok (b, ks) w (OpClear s).
Proof.
  intros S SM. slots b w s S; try (inert S EB EW).
  - destruct R as (-> & -> & L & K). red_step EB EW. intros _. split; [|reflexivity].
    apply sim_put; auto. cbn. repeat split; auto. apply nv_ok_nzero; auto.
  - destruct R as (-> & bs & NB & ->). red_step EB EW. intros _. split; [|reflexivity].
    apply sim_put; auto. cbn. split; auto. exists bs. split; auto. apply local_clear.
Qed.

Lemma step_clone b ks w s : sim b ks w -> books_small b = true -> step_ok (b, ks) w (OpClone s).
Proof.
  intros S SM. slots b w s S; red_step EB EW; intros _; (split; [|reflexivity]); apply sim_push; auto; cbn; auto.
  - destruct R as (-> & -> & L & K). repeat split; auto. apply nv_ok_nzero; auto.
  - destruct R as (-> & bs & NB & ->). split; auto. exists bs. split; auto. apply local_clear.
  - destruct R as (-> & L & F & ND). repeat split; auto; constructor.
  - destruct R as (-> & L & F & ND). repeat split; auto; constructor.
Qed.

Lemma step_drop b ks w s : sim b ks w -> books_small b = true -> step_ok (b, ks) w (OpDrop s).
Proof.
  intros S SM. slots b w s S; try (inert S EB EW).
  all: try (red_step EB EW; intros _; (split; [|reflexivity]); apply sim_put; auto; exact I).
  - destruct R as (-> & bs & NB & ->). assert (Va : valid (wbounds w) m) by (exists bs; auto).
    destruct (sim_hist_at b ks w m S Va) as (h & hb & N & Nb & Bh & Rh & NB' & BO).
    assert (bs = hc_bounds h) by congruence. subst bs.
    red_step EB EW. rewrite Bh. intros SM'. split; [|reflexivity].
    unfold flush_lh. rewrite (upd_some _ _ _ _ N). apply sim_put; [|exact I].
    apply (sim_hist_set b ks w m h); auto; [|apply hc_flush_bounds].
    apply hrel_batch; auto. rewrite <- hb_batch_vals. eapply (small_hist _ m); [exact SM'|].
    cbn. eapply nth_error_list_set_eq; eauto.
  - destruct R as (-> & L & F & ND). red_step EB EW. intros SM'. split; [|reflexivity].
    apply (sim_put (flush_hv b cache) ks (fold_left hv_flush1 cache0 w) s SDead HDead); [|exact I].
    apply flush_hv_sim; auto. unfold books_small in *. cbn in SM'. apply andb_prop in SM' as [A _]. rewrite A. cbn.
    apply andb_prop in SM as [_ A2]. rewrite flush_hv_slots. exact A2.
Qed.

Lemma step_timer b ks w s : sim b ks w -> books_small b = true -> step_ok (b, ks) w (OpTimer s).
Proof.
  intros S SM. slots b w s S; red_step EB EW; intros _; (split; [|reflexivity]); apply sim_push; auto; cbn; auto.
  destruct R as (-> & bs & NB & ->). split; auto. exists bs. split; auto. apply local_clear.
Qed.

Lemma step_closure b ks w s secs nanos : sim b ks w -> books_small b = true -> step_ok (b, ks) w (OpClosure s secs nanos).
Proof.
  intros S SM. slots b w s S; try (inert S EB EW).
  - destruct R as (-> & Va). destruct (sim_hist_at b ks w m S Va) as (h & hb & N & Nb & Bh & Rh & NB & BO).
    red_step EB EW. rewrite Bh. intros SM'. split; [|reflexivity]. rewrite (upd_some _ _ _ _ N).
    apply (sim_hist_set b ks w m h); auto; [|apply hc_observe_bounds].
    apply (hrel_observe hb h (as_secs secs nanos)); auto. exact (small_hist_set b m _ (nth_some_lt _ _ _ Nb) SM').
  - destruct R as (-> & bs & NB & ->). red_step EB EW. intros _. split; [|reflexivity].
    apply sim_put; auto. cbn. split; auto. exists bs. split; auto. rewrite (bounds_of_nth _ _ _ NB). symmetry. apply local_snoc.
Qed.

Lemma sim_hist_world b ks w m h h' hb :
  sim b ks w -> nth_error (w_h w) m = Some h -> nth_error (bk_h b) m = Some hb -> hrel hb h' -> hc_bounds h' = hc_bounds h ->
  sim b ks (set_h w (list_set (w_h w) m h')).
Proof. intros S N Nb R Bd. pose proof (sim_hist_set b ks w m h h' hb S N R Bd) as Q. rewrite bk_set_hist_same in Q; auto. Qed.

Lemma as_secs_same secs nanos : as_secs secs nanos = as_secs_f64 secs nanos.
Proof. reflexivity. Qed.
Lemma leb0_as_secs secs nanos : PrimFloat.leb f_zero (as_secs secs nanos) = true.
Proof. apply as_secs_nonneg. Qed.

Lemma step_timerstop b ks w s md secs nanos : sim b ks w -> books_small b = true -> step_ok (b, ks) w (OpTimerStop s md secs nanos).
Proof.
  intros S SM. slots b w s S; try (inert S EB EW).
  - (* shared timer *)
    destruct R as (-> & Va). destruct (sim_hist_at b ks w m S Va) as (h & hb & N & Nb & Bh & Rh & NB & BO).
    red_step EB EW. rewrite Bh. destruct md; cbn [fst snd]; intros SM';
      (split; [|unfold all_true; cbn [forallb snd]; cbv beta iota; change (as_secs_f64 secs nanos) with (as_secs secs nanos); rewrite ?f64_eqb_refl, ?leb0_as_secs; reflexivity]).
    1,2,4: rewrite (upd_some _ _ _ _ N); apply sim_put; [|exact I];
      apply (sim_hist_set b ks w m h); auto; [|apply hc_observe_bounds];
      apply (hrel_observe hb h (as_secs secs nanos)); auto;
      change (hb_vals hb ++ [as_secs secs nanos]) with (hb_vals (hb_observe hb (as_secs secs nanos)));
      eapply (small_hist _ m); [exact SM'|]; cbn; eapply nth_error_list_set_eq; eauto.
    apply sim_put; auto. exact I.
  - (* local timer *)
    destruct R as (-> & bs & NB & ->). assert (Va : valid (wbounds w) m) by (exists bs; auto).
    destruct (sim_hist_at b ks w m S Va) as (h & hb & N & Nb & Bh & Rh & NB' & BO).
    assert (bs = hc_bounds h) by congruence. subst bs.
    red_step EB EW. rewrite Bh, BO. destruct md; cbn [fst snd]; intros SM';
      (split; [|unfold all_true; cbn [forallb snd]; cbv beta iota; change (as_secs_f64 secs nanos) with (as_secs secs nanos); rewrite ?f64_eqb_refl, ?leb0_as_secs; reflexivity]);
      unfold flush_lh; rewrite (upd_some _ _ _ _ N); (apply sim_put; [|exact I]).
    1,2,4: apply (sim_hist_set b ks w m h); auto; [|apply hc_flush_bounds];
      rewrite <- local_snoc; cbn [app]; apply hrel_timer; auto;
      change (hb_vals hb ++ [as_secs secs nanos]) with (hb_vals (hb_observe hb (as_secs secs nanos)));
      eapply (small_hist _ m); [exact SM'|]; cbn; eapply nth_error_list_set_eq; eauto.
    (* discard: the empty private histogram is flushed, nothing changes *)
    apply (sim_hist_world b ks w m h _ hb); auto.
Qed.

(* ---------- collecting a vector ---------- *)
Lemma match_all_pos {A} (ok : A -> Metric -> bool) xs ms : Forall2 (fun x m => ok x m = true) xs ms -> match_all ok xs ms = true.
Proof. induction 1 as [|x m xs ms E F IH]; cbn; auto. rewrite E. exact IH. Qed.

Lemma wbounds_hist_set w m h h' : nth_error (w_h w) m = Some h -> hc_bounds h' = hc_bounds h ->
  wbounds (set_h w (list_set (w_h w) m h')) = wbounds w.
Proof. intros N Bd. unfold wbounds; cbn. rewrite map_list_set, Bd, list_set_same; auto. apply map_nth_error; auto. Qed.

Lemma collect_children_values b ks w t k ch ch' :
  sim b ks w -> Forall2 (krel (child_ok (wbounds w) (length (w_v w)) false)) ch ch' ->
  exists ms, collect_children w (VKValue t k) ch' = Some (ms, w)
             /\ Forall2 (fun x m => metric_counter_ok x m = true) (map (fun e => bk_counter b (snd e)) ch) ms.
Proof.
  intros S F. induction F as [|[tu m] [h c] l l' (K1 & K2 & (K3 & K4)) F (ms & E & G)]; cbn [collect_children map].
  - exists []. split; auto.
  - cbn in K3, K4. subst c. destruct (sim_counter_at b ks w m S K4) as (vc & N & T & Nb & Bc & K).
    rewrite N, E. eexists. split; [reflexivity|]. constructor; auto. cbn [snd].
    unfold metric_counter_ok, value_metric. rewrite T, Bc. cbn. apply f64_eqb_refl.
Qed.

Lemma collect_children_hists b ks bk ch ch' : forall w,
  sim b ks w -> books_small b = true -> Forall2 (krel (child_ok (wbounds w) (length (w_v w)) true)) ch ch' ->
  exists ms w', collect_children w (VKHist bk) ch' = Some (ms, w') /\ sim b ks w'
                /\ Forall2 (fun hb m => metric_hist_ok hb m = true) (map (fun e => bk_hist b (snd e)) ch) ms.
Proof.
  intros w S SM F. revert S. remember (wbounds w) as B eqn:EB0. remember (length (w_v w)) as nv eqn:En. revert w EB0 En.
  induction F as [|[tu m] [h c] l l' (K1 & K2 & (K3 & K4)) F IH]; intros w EB0 En S; cbn [collect_children map].
  - exists [], w. split; [reflexivity|]. split; [exact S|constructor].
  - cbn in K3, K4. subst c. rewrite EB0 in K4.
    destruct (sim_hist_at b ks w m S K4) as (hc & hb & N & Nb & Bh & Rh & NB & BO).
    destruct (hrel_collect hb hc Rh (small_hist b m hb SM Nb)) as (mm & h' & HM & Rh' & OK & Bd).
    unfold collect_hist. rewrite N, HM.
    assert (S1 : sim b ks (set_h w (list_set (w_h w) m h'))) by (apply (sim_hist_world b ks w m hc h' hb); auto).
    destruct (IH (set_h w (list_set (w_h w) m h'))) as (ms & w' & E & S' & G); auto.
    { rewrite (wbounds_hist_set w m hc h' N Bd). exact EB0. }
    rewrite E. exists (mm :: ms), w'. split; [reflexivity|]. split; [exact S'|]. constructor; auto. cbn [snd]. rewrite Bh. exact OK.
Qed.

Lemma step_collect b ks w s : sim b ks w -> books_small b = true -> step_ok (b, ks) w (OpCollect s).
Proof.
  intros S SM. slots b w s S; try (inert S EB EW).
  - destruct R as (-> & L). destruct (sim_counter_at b ks w m S L) as (vc & N & T & Nb & Bc & K).
    unfold step_ok, step. rewrite EW. unfold collector_of. rewrite N. cbv beta iota. unfold collect_collector. rewrite N. cbv beta iota. cbn [fst snd].
    unfold acct_step. rewrite EB. cbn [fst snd]. intros _. split; [exact S|].
    unfold all_true, value_collect, value_metric, metric_counter_ok. rewrite T, Bc. cbn. rewrite f64_eqb_refl. reflexivity.
  - destruct R as (-> & Va). destruct (sim_hist_at b ks w m S Va) as (h & hb & N & Nb & Bh & Rh & NB & BO).
    destruct (hrel_collect hb h Rh (small_hist b m hb SM Nb)) as (mm & h' & HM & Rh' & OK & Bd).
    unfold step_ok, step. rewrite EW. unfold collector_of. rewrite N. cbv beta iota. unfold collect_collector, collect_hist. rewrite N, HM. cbv beta iota. cbn [fst snd].
    unfold acct_step. rewrite EB. cbn [fst snd]. intros _. split.
    + apply (sim_hist_world b ks w m h h' hb); auto.
    + unfold all_true, hist_family. cbn. rewrite Bh, OK. reflexivity.
  - (* a vector: every child is shown once *)
    destruct R as (-> & L). destruct (sim_vec_at b ks w v S L) as (vv & vb & N & Nb & Bv & (A & K & Ch)).
    unfold step_ok, step. rewrite EW. unfold collector_of. rewrite N. cbv beta iota. unfold collect_collector. rewrite N. cbv beta iota.
    unfold acct_step. rewrite EB, Bv. destruct (vb_hist vb).
    + destruct K as (bk & K). rewrite K.
      destruct (collect_children_hists b ks bk _ _ w S SM Ch) as (ms & w' & E & S' & G). rewrite E. cbn [fst snd].
      intros _. split; [exact S'|]. unfold all_true. cbn. rewrite (match_all_pos _ _ _ G). reflexivity.
    + destruct K as (K & _). rewrite K.
      destruct (collect_children_values b ks w VCounter (vkind_of v ks) _ _ S Ch) as (ms & E & G). rewrite E. cbn [fst snd].
      intros _. split; [exact S|]. unfold all_true. cbn. rewrite (match_all_pos _ _ _ G). reflexivity.
Qed.

(* ================================================================ vectors *)
Lemma describe_vars o d : describe o = Some d -> d_vars d = o_vars o.
Proof.
  unfold describe, desc_new. destruct (is_nil (o_help o)); [discriminate|].
  destruct (negb (is_valid_metric_name _)); [discriminate|]. destruct (negb (forallb _ _)); [discriminate|].
  destruct (add_vars _ _); [|discriminate]. intros E; inversion E; reflexivity.
Qed.
Lemma vec_create_facts o k v : vec_create o k = Ok v -> d_vars (v_desc v) = o_vars o /\ v_kind v = k /\ v_children v = [].
Proof.
  unfold vec_create. destruct (match k with VKValue _ _ => false | VKHist _ => _ end); [discriminate|].
  destruct (describe o) eqn:D; [|discriminate]. intros E; inversion E; subst; cbn. split; auto. apply describe_vars; auto.
Qed.
Lemma value_new_any o k vals vc : value_new o VCounter k vals = Ok vc -> vc_type vc = VCounter /\ vc_val vc = num_zero k.
Proof.
  unfold value_new. destruct (describe o); [|discriminate]. destruct (make_label_pairs _ _); [|discriminate].
  intros E; inversion E; auto.
Qed.

Lemma vkind_of_cons vi n k ks : vi <> n -> vkind_of vi ((n, k) :: ks) = vkind_of vi ks.
Proof. intros D. cbn. apply Nat.eqb_neq in D. rewrite D. reflexivity. Qed.

Lemma vrel_ks B nv ks n k vi vb v : vi <> n -> vrel B nv ks vi vb v -> vrel B nv ((n, k) :: ks) vi vb v.
Proof. intros D (A & K & C). split; auto. split; auto. rewrite vkind_of_cons by auto. exact K. Qed.

Lemma sim_new_vec b ks ks' w vb v :
  sim b ks w -> (forall vi, (vi < length (w_vec w))%nat -> vkind_of vi ks' = vkind_of vi ks) ->
  vrel (wbounds w) (length (w_v w)) ks' (length (w_vec w)) vb v ->
  sim (mkBooks (bk_c b) (bk_h b) (bk_v b ++ [vb]) (bk_s b)) ks' (set_vec w (w_vec w ++ [v])).
Proof.
  intros [C H0 S VL V] KS R. constructor; cbn; auto.
  - eapply Forall2_imp; [|exact S]. intros a c. apply srel_mono; [apply bmono_refl|lia|rewrite app_length; lia].
  - rewrite !app_length. cbn. lia.
  - intros vi vb0 v0 N1 N2. destruct (Nat.lt_ge_cases vi (length (w_vec w))) as [L|L].
    + rewrite nth_error_app1 in N1 by lia. rewrite nth_error_app1 in N2 by lia.
      destruct (V _ _ _ N1 N2) as (A & K & Ch). split; auto. split; auto. rewrite KS by auto. exact K.
    + assert (vi = length (w_vec w)).
      { assert (vi < length (w_vec w ++ [v]))%nat by (apply nth_error_Some; congruence). rewrite app_length in *. cbn in *. lia. }
      subst vi. rewrite nth_error_app2, Nat.sub_diag in N2 by lia. rewrite nth_error_app2, VL, Nat.sub_diag in N1 by lia.
      cbn in N1, N2. inversion N1; inversion N2; subst. exact R.
Qed.

Lemma step_countervec b ks w k o labels : sim b ks w -> books_small b = true -> (k = NF \/ k = NU) ->
  step_ok (b, ks) w (OpCounterVec k o labels).
Proof.
  intros S SM K. unfold step_ok, step, acct_step. destruct (vec_create (opts_with_vars o labels) (VKValue VCounter k)) as [v|e] eqn:V; cbn [fst snd is_ok].
  - intros _. split; [|reflexivity]. destruct (vec_create_facts _ _ _ V) as (A & Kd & Ch).
    rewrite (sim_vl _ _ _ S).
    apply (sim_push (mkBooks (bk_c b) (bk_h b) (bk_v b ++ [mkVB labels false []]) (bk_s b)) ((length (w_vec w), k) :: ks) (set_vec w (w_vec w ++ [v]))).
    + apply (sim_new_vec b ks); auto.
      * intros vi L. apply vkind_of_cons. lia.
      * split; [exact A|]. cbn [vb_hist vb_children]. cbn [vkind_of]. rewrite Nat.eqb_refl. split.
        { split; auto. destruct K; subst; discriminate. } rewrite Ch. constructor.
    + cbn. rewrite app_length; cbn. split; auto. lia.
  - intros _. split; [|reflexivity]. apply sim_push; auto. exact I.
Qed.

Lemma step_histvec b ks w o labels : sim b ks w -> books_small b = true -> step_ok (b, ks) w (OpHistVec o labels).
Proof.
  intros S SM. unfold step_ok, step, acct_step. destruct (vec_create (opts_with_vars (ho_common o) labels) (VKHist (ho_buckets o))) as [v|e] eqn:V; cbn [fst snd is_ok].
  - intros _. split; [|reflexivity]. destruct (vec_create_facts _ _ _ V) as (A & Kd & Ch).
    rewrite (sim_vl _ _ _ S).
    apply (sim_push (mkBooks (bk_c b) (bk_h b) (bk_v b ++ [mkVB labels true []]) (bk_s b)) ks (set_vec w (w_vec w ++ [v]))).
    + apply (sim_new_vec b ks); auto. split; [exact A|]. cbn [vb_hist vb_children]. split; [eauto|]. rewrite Ch. constructor.
    + cbn. rewrite app_length; cbn. split; auto. lia.
  - intros _. split; [|reflexivity]. apply sim_push; auto. exact I.
Qed.

(* hashing succeeds exactly on the declared number of values *)
Lemma hash_ok_iff v vals names : d_vars (v_desc v) = names ->
  hash_label_values (v_desc v) vals = if Nat.eqb (length vals) (length names) then Ok (H vals) else Err (ECard (lenN names) (lenN vals)).
Proof.
  intros <-. unfold hash_label_values, lenN. destruct (Nat.eqb_spec (length vals) (length (d_vars (v_desc v)))) as [E|D].
  - rewrite E, N.eqb_refl. reflexivity.
  - destruct (N.eqb_spec (N.of_nat (length vals)) (N.of_nat (length (d_vars (v_desc v))))) as [E|_]; [lia|reflexivity].
Qed.

Lemma step_remove b ks w s vals : sim b ks w -> books_small b = true -> In vals KT -> step_ok (b, ks) w (OpRemove s vals).
Proof.
  intros S SM IK. slots b w s S; try (inert S EB EW).
  destruct R as (-> & L). destruct (sim_vec_at b ks w v S L) as (vv & vb & N & Nb & Bv & (A & K & Ch)).
  red_step EB EW. rewrite N, Bv, (hash_ok_iff vv vals _ A).
  destruct (Nat.eqb (length vals) (length (vb_names vb))); [|intros _; split; [exact S|reflexivity]].
  unfold vec_delete. rewrite N. pose proof (klookup _ _ _ vals Ch IK) as Q.
  destruct (tlookup vals (vb_children vb)) as [m|], (nlookup (H vals) (v_children vv)) as [c|]; try contradiction;
    cbn [fst snd is_ok]; intros _; (split; [|reflexivity]); auto.
  apply sim_vec_set; auto. split; [exact A|]. split; [exact K|]. cbn [vb_hist vb_children v_children vec_set_children]. apply kremove; auto.
Qed.

(* lookup-or-create of a child: by hash in the world, by tuple in the books *)
Definition goc_post (b1 : books) (m : nat) (ks : vkinds) (hist : bool) (w w' : world) (hd : handle) : Prop :=
  sim b1 ks w' /\ hd = (if hist then HHist m else HValue m)
  /\ (if hist then valid (wbounds w') m else (m < length (w_v w'))%nat)
  /\ w_slots w' = w_slots w /\ length (w_vec w') = length (w_vec w)
  /\ bmono (wbounds w) (wbounds w') /\ (length (w_v w) <= length (w_v w'))%nat.

Lemma vgoc_sim b ks w vi vv vb vals z :
  sim b ks w -> (vi < length (w_vec w))%nat -> nth_error (w_vec w) vi = Some vv -> bk_vec b vi = vb ->
  vrel (wbounds w) (length (w_v w)) ks vi vb vv -> In vals KT ->
  (vb_hist vb = false -> z = num_zero (vkind_of vi ks)) ->
  match vec_get_or_create w vi (H vals) vals with
  | Ok (w', hd) => goc_post (fst (child_of b vi vals z)) (snd (child_of b vi vals z)) ks (vb_hist vb) w w' hd
  | Err _ => True
  end.
Proof.
  intros S L N Bv (A & K & Ch) IK Z. unfold vec_get_or_create, child_of. rewrite N, Bv.
  pose proof (klookup _ _ _ vals Ch IK) as Q.
  destruct (tlookup vals (vb_children vb)) as [m|] eqn:TL, (nlookup (H vals) (v_children vv)) as [c|] eqn:NL; try contradiction.
  - (* existing child *)
    destruct Q as (-> & Q). cbn [fst snd]. unfold goc_post, child_handle. destruct (vb_hist vb).
    + destruct K as (bk & ->). exact (conj S (conj eq_refl (conj Q (conj eq_refl (conj eq_refl (conj (bmono_refl _) (le_n _))))))).
    + destruct K as (-> & _). exact (conj S (conj eq_refl (conj Q (conj eq_refl (conj eq_refl (conj (bmono_refl _) (le_n _))))))).
  - (* a new child *)
    unfold build_child. destruct (vb_hist vb) eqn:HV.
    + destruct K as (bk & K). rewrite K. destruct (hcore_new (mkHOpts (v_opts vv) bk) vals) as [c0|e] eqn:HN; [|exact I].
      cbn [fst snd]. rewrite (Forall2_len _ _ _ (sim_h _ _ _ S)).
      assert (S1 := sim_new_hist b ks w hb0 c0 S (hrel_fresh _ _ _ HN)).
      assert (M : bmono (wbounds w) (wbounds (set_h w (w_h w ++ [c0])))) by (unfold wbounds; cbn; rewrite map_app; apply bmono_app).
      unfold goc_post. split; [|split; [reflexivity|split; [|split; [reflexivity|split; [cbn; apply length_list_set|split; [exact M|cbn; lia]]]]]].
      * apply (sim_vec_set (mkBooks (bk_c b) (bk_h b ++ [hb0]) (bk_v b) (bk_s b)) ks (set_h w (w_h w ++ [c0])) vi); auto.
        split; [exact A|]. cbn [vb_hist vb_children v_kind v_children vec_set_children]. split; [eauto|].
        apply Forall2_snoc.
        -- eapply krel_imp; [|exact Ch]. intros x y. apply child_ok_mono; auto.
        -- repeat split; auto. cbn. unfold wbounds; cbn. apply valid_new.
      * unfold wbounds; cbn. apply valid_new.
    + destruct K as (K & KN). rewrite K. destruct (value_new (v_opts vv) VCounter (vkind_of vi ks) vals) as [c0|e] eqn:VN; [|exact I].
      cbn [fst snd]. rewrite (Forall2_len _ _ _ (sim_c _ _ _ S)).
      destruct (value_new_any _ _ _ _ VN) as (T0 & V0).
      assert (CR : crel z c0).
      { rewrite (Z eq_refl). split; auto. split; auto. destruct (vkind_of vi ks); try reflexivity. contradiction. }
      assert (S1 := sim_new_counter b ks w z c0 S CR).
      unfold goc_post. split; [|split; [reflexivity|split; [|split; [reflexivity|split; [cbn; apply length_list_set|split; [apply bmono_refl|cbn; rewrite app_length; lia]]]]]].
      * apply (sim_vec_set (mkBooks (bk_c b ++ [z]) (bk_h b) (bk_v b) (bk_s b)) ks (set_v w (w_v w ++ [c0])) vi); auto.
        split; [exact A|]. cbn [vb_hist vb_children v_kind v_children vec_set_children]. split; [auto|].
        apply Forall2_snoc.
        -- eapply krel_imp; [|exact Ch]. intros x y. apply child_ok_mono; [apply bmono_refl|cbn; rewrite app_length; lia].
        -- repeat split; auto. cbn. rewrite app_length. cbn. lia.
      * cbn. rewrite app_length. cbn. lia.
Qed.

Lemma step_with b ks w s vals : sim b ks w -> books_small b = true -> In vals KT -> step_ok (b, ks) w (OpWith s vals).
Proof.
  intros S SM IK. slots b w s S; try (red_step EB EW; intros _; split; [apply sim_push; auto; exact I|reflexivity]).
  destruct R as (-> & L). destruct (sim_vec_at b ks w v S L) as (vv & vb & N & Nb & Bv & VR).
  pose proof VR as (A & K & Ch).
  pose proof (vgoc_sim b ks w v vv vb vals (kzero (vkind_of v ks)) S L N Bv VR IK (fun _ => kzero_num_zero _)) as G.
  red_step EB EW. rewrite N, (hash_ok_iff vv vals _ A), Bv.
  destruct (Nat.eqb (length vals) (length (vb_names vb))).
  - destruct (vec_get_or_create w v (H vals) vals) as [[w' hd]|e]; cbn [fst snd is_ok].
    + destruct (child_of b v vals (kzero (vkind_of v ks))) as [b1 m]. destruct G as (S1 & -> & Vm & E1 & E2 & M & Lv). cbn [fst snd] in *.
      intros _. split; [|reflexivity]. apply sim_push; [exact S1|]. rewrite E2. destruct (vb_hist vb); cbn; auto.
    + intros _. split; [|reflexivity]. apply sim_push; auto; exact I.
  - cbn [fst snd is_ok]. intros _. split; [|reflexivity]. apply sim_push; auto; exact I.
Qed.

(* ---------- updates through a local vector ---------- *)
(* well-typedness of an update through a local vector, checked on the books: the handle belongs to a
   vector of its own kind and the increment has the vector's numeric flavour *)
Definition lv_ok (b : books) (ks : vkinds) (o : op) : bool :=
  match o with
  | OpLvInc s _ d => match bk_slot b s with
                     | SLocalCV v _ => negb (vb_hist (bk_vec b v)) && numval_eqb (nzero d) (kzero (vkind_of v ks))
                     | _ => true
                     end
  | OpLvObserve s _ _ => match bk_slot b s with SLocalHV v _ => vb_hist (bk_vec b v) | _ => true end
  | _ => true
  end.

Lemma nzero_kind d k : numval_eqb (nzero d) (kzero k) = true -> nzero d = num_zero k.
Proof. destruct d, k; cbn; try discriminate; reflexivity. Qed.

Lemma nodup_snoc {A} (l : list A) x : NoDup l -> ~ In x l -> NoDup (l ++ [x]).
Proof.
  induction 1 as [|y l NI ND IH]; intros NX; cbn.
  - constructor; [intros []|constructor].
  - constructor.
    + intros Q. apply in_app_or in Q as [Q|[Q|[]]]; [contradiction|]. subst. apply NX. left; auto.
    + apply IH. intros Q. apply NX. right; auto.
Qed.
Lemma nodup_snoc_key {V} (l : list (N * V)) k x : NoDup (map fst l) -> nlookup k l = None -> NoDup (map fst (l ++ [(k, x)])).
Proof.
  intros ND NL. rewrite map_app. cbn. apply nodup_snoc; auto. apply nlookup_none_notin; auto.
Qed.

Lemma step_lvinc b ks w s vals d : sim b ks w -> books_small b = true -> In vals KT -> lv_ok b ks (OpLvInc s vals d) = true ->
  step_ok (b, ks) w (OpLvInc s vals d).
Proof.
  intros S SM IK TY. slots b w s S; try (inert S EB EW).
  destruct R as (-> & L & F & ND). destruct (sim_vec_at b ks w v S L) as (vv & vb & N & Nb & Bv & VR).
  pose proof VR as (A & K & Ch).
  cbn [lv_ok] in TY. rewrite EB, Bv in TY. apply andb_prop in TY as (HV & TY). apply negb_true_iff in HV. apply nzero_kind in TY.
  pose proof (vgoc_sim b ks w v vv vb vals (nzero d) S L N Bv VR IK (fun _ => TY)) as G. rewrite HV in G, K.
  red_step EB EW. rewrite N, (hash_ok_iff vv vals _ A), Bv.
  destruct (Nat.eqb (length vals) (length (vb_names vb))); [|cbn [fst snd is_unit andb]; intros _; split; [exact S|reflexivity]].
  pose proof (klookup _ _ _ vals F IK) as Q.
  destruct (tlookup vals cache) as [[m p]|] eqn:TL, (nlookup (H vals) cache0) as [[c val]|] eqn:NL; try contradiction.
  - (* cached *)
    destruct Q as (Q1 & Q2 & Q3 & Q4). cbn in Q1, Q2, Q3, Q4. subst c val. cbn [fst snd is_unit andb]. intros _. split; [|reflexivity].
    apply sim_put; auto. cbn. split; auto. split; auto. split.
    + apply kupdate; auto. repeat split; auto. cbn. apply nv_ok_add; auto.
    + rewrite map_update_keys. exact ND.
  - (* not cached: the child is looked up or created in the vector *)
    destruct (vec_get_or_create w v (H vals) vals) as [[w' hd]|e].
    + destruct (child_of b v vals (nzero d)) as [b1 m]. destruct G as (S1 & -> & Vm & E1 & E2 & M & Lv). cbn [fst snd] in *.
      cbn [is_unit andb]. intros _. split; [|reflexivity]. apply sim_put; auto. cbn. rewrite E2. split; auto. split; auto. split.
      * apply Forall2_snoc.
        -- eapply krel_imp; [|exact F]. intros x y. apply centry_mono; auto.
        -- repeat split; auto. cbn. apply nv_ok_add. rewrite TY. destruct K as (_ & KN). destruct (vkind_of v ks); try reflexivity. contradiction.
      * apply nodup_snoc_key; auto.
    + cbn [fst snd is_unit andb]. intros _. split; [exact S|reflexivity].
Qed.

Lemma step_lvobserve b ks w s vals x : sim b ks w -> books_small b = true -> In vals KT -> lv_ok b ks (OpLvObserve s vals x) = true ->
  step_ok (b, ks) w (OpLvObserve s vals x).
Proof.
  intros S SM IK TY. slots b w s S; try (inert S EB EW).
  destruct R as (-> & L & F & ND). destruct (sim_vec_at b ks w v S L) as (vv & vb & N & Nb & Bv & VR).
  pose proof VR as (A & K & Ch).
  cbn [lv_ok] in TY. rewrite EB, Bv in TY.
  pose proof (vgoc_sim b ks w v vv vb vals (VU 0) S L N Bv VR IK) as G. rewrite TY in G, K. specialize (G (fun E => False_ind _ (diff_true_false E))).
  red_step EB EW. rewrite N, (hash_ok_iff vv vals _ A), Bv.
  destruct (Nat.eqb (length vals) (length (vb_names vb))); [|cbn [fst snd is_unit andb]; intros _; split; [exact S|reflexivity]].
  pose proof (klookup _ _ _ vals F IK) as Q.
  destruct (tlookup vals cache) as [[m p]|] eqn:TL, (nlookup (H vals) cache0) as [[c l]|] eqn:NL; try contradiction.
  - destruct Q as (Q1 & bs & Q2 & Q3). cbn in Q1, Q2, Q3. subst c l. cbn [fst snd is_unit andb]. intros _. split; [|reflexivity].
    apply sim_put; auto. cbn. split; auto. split; auto. split.
    + apply kupdate; auto. split; auto. exists bs. split; auto. cbn. rewrite (bounds_of_nth _ _ _ Q2). symmetry. apply local_snoc.
    + rewrite map_update_keys. exact ND.
  - destruct (vec_get_or_create w v (H vals) vals) as [[w' hd]|e].
    + destruct (child_of b v vals (VU 0)) as [b1 m]. destruct G as (S1 & -> & Vm & E1 & E2 & M & Lv). cbn [fst snd] in *.
      cbn [is_unit andb]. intros _. split; [|reflexivity]. apply sim_put; auto. cbn. rewrite E2. split; auto. split; auto. split.
      * apply Forall2_snoc.
        -- eapply krel_imp; [|exact F]. intros a c. apply hentry_mono; auto.
        -- destruct Vm as (bs & NB). repeat split; auto. cbn. exists bs. split; auto. rewrite (bounds_of_nth _ _ _ NB). reflexivity.
      * apply nodup_snoc_key; auto.
    + cbn [fst snd is_unit andb]. intros _. split; [exact S|reflexivity].
Qed.

(* ---------- removal through a local vector ---------- *)
Lemma vec_delete_sim b ks w v vals : sim b ks w -> (v < length (w_vec w))%nat -> In vals KT ->
  match vec_delete w v (H vals) with
  | Ok w' => sim (bk_set_vec b v (mkVB (vb_names (bk_vec b v)) (vb_hist (bk_vec b v)) (tremove vals (vb_children (bk_vec b v))))) ks w'
  | Err _ => True
  end.
Proof.
  intros S L IK. destruct (sim_vec_at b ks w v S L) as (vv & vb & N & Nb & Bv & (A & K & Ch)). rewrite Bv.
  unfold vec_delete. rewrite N. destruct (nlookup (H vals) (v_children vv)); [|exact I].
  apply sim_vec_set; auto. split; [exact A|]. split; [exact K|]. cbn [vb_hist vb_children v_children vec_set_children]. apply kremove; auto.
Qed.

Lemma step_lvremove b ks w s vals : sim b ks w -> books_small b = true -> In vals KT -> step_ok (b, ks) w (OpLvRemove s vals).
Proof.
  intros S SM IK. slots b w s S; try (inert S EB EW).
  - (* local counter vector: the cached local counter is dropped (discarded) *)
    destruct R as (-> & L & F & ND). destruct (sim_vec_at b ks w v S L) as (vv & vb & N & Nb & Bv & VR). pose proof VR as (A & K & Ch).
    red_step EB EW. rewrite N, (hash_ok_iff vv vals _ A), Bv.
    destruct (Nat.eqb (length vals) (length (vb_names vb))); [|cbn [fst snd]; intros _; split; [exact S|reflexivity]].
    assert (S1 : sim (bk_put b s (SLocalCV v (tremove vals cache))) ks (put_slot w s (HLocalCounterVec v (nremove (H vals) cache0)))).
    { apply sim_put; auto. cbn. split; auto. split; auto. split; [apply kremove; auto|apply nodup_nremove; auto]. }
    pose proof (vec_delete_sim _ ks _ v vals S1 L IK) as D.
    destruct (vec_delete (put_slot w s (HLocalCounterVec v (nremove (H vals) cache0))) v (H vals)) as [w'|e]; cbn [fst snd is_ok]; intros _; (split; [|reflexivity]); auto.
  - (* local histogram vector: the cached local histogram is dropped (flushed) first *)
    destruct R as (-> & L & F & ND). destruct (sim_vec_at b ks w v S L) as (vv & vb & N & Nb & Bv & VR). pose proof VR as (A & K & Ch).
    red_step EB EW. rewrite N, (hash_ok_iff vv vals _ A), Bv.
    destruct (Nat.eqb (length vals) (length (vb_names vb))); [|cbn [fst snd]; intros _; split; [exact S|reflexivity]].
    pose proof (klookup _ _ _ vals F IK) as Q.
    destruct (tlookup vals cache) as [[m p]|] eqn:TL, (nlookup (H vals) cache0) as [[c l]|] eqn:NL; try contradiction.
    + destruct Q as (Q1 & Q2). cbn in Q1, Q2. subst c.
      set (b0 := bk_set_hist b m (hb_batch (bk_hist b m) p)).
      assert (Bound : books_small b0 = true -> sim b0 ks (flush_lh w m l)).
      { intros SM0. apply flush_one_hist; auto. rewrite <- hb_batch_vals.
        destruct Q2 as (bs & NB & _). apply nth_error_map_some in NB as (h0 & Nh & _).
        assert (Lm : (m < length (bk_h b))%nat) by (rewrite (Forall2_len _ _ _ (sim_h _ _ _ S)); eapply nth_some_lt; eauto).
        pose proof (small_hist_nth b0 m SM0) as Q. unfold b0 in Q. rewrite bk_hist_set, Nat.eqb_refl in Q. apply Nat.ltb_lt in Lm. rewrite Lm in Q. exact Q. }
      assert (Tail : books_small b0 = true ->
                     sim (bk_put b0 s (SLocalHV v (tremove vals cache))) ks (put_slot (flush_lh w m l) s (HLocalHistVec v (nremove (H vals) cache0)))).
      { intros SM0. apply sim_put; auto. unfold wbounds. rewrite flush_lh_bounds. cbn. split; auto. split; auto.
        split; [apply kremove; auto|apply nodup_nremove; auto]. }
      assert (L0 : (v < length (w_vec (put_slot (flush_lh w m l) s (HLocalHistVec v (nremove (H vals) cache0)))))%nat) by exact L.
      destruct (vec_delete (put_slot (flush_lh w m l) s (HLocalHistVec v (nremove (H vals) cache0))) v (H vals)) as [w'|e] eqn:VD; cbn [fst snd is_ok]; intros SM'.
      * assert (SM0 : books_small b0 = true).
        { unfold books_small in *. cbn in SM'. apply andb_prop in SM' as [X _]. unfold b0. cbn. rewrite X. cbn. apply andb_prop in SM as [_ X2]. exact X2. }
        split; [|reflexivity]. pose proof (vec_delete_sim _ ks _ v vals (Tail SM0) L0 IK) as D. rewrite VD in D. exact D.
      * assert (SM0 : books_small b0 = true).
        { unfold books_small in *. cbn in SM'. apply andb_prop in SM' as [X _]. unfold b0. cbn. rewrite X. cbn. apply andb_prop in SM as [_ X2]. exact X2. }
        split; [|reflexivity]. exact (Tail SM0).
    + assert (S1 : sim (bk_put b s (SLocalHV v (tremove vals cache))) ks (put_slot w s (HLocalHistVec v (nremove (H vals) cache0)))).
      { apply sim_put; auto. cbn. split; auto. split; auto. split; [apply kremove; auto|apply nodup_nremove; auto]. }
      pose proof (vec_delete_sim _ ks _ v vals S1 L IK) as D.
      destruct (vec_delete (put_slot w s (HLocalHistVec v (nremove (H vals) cache0))) v (H vals)) as [w'|e]; cbn [fst snd is_ok]; intros _; (split; [|reflexivity]); auto.
Qed.

Theorem sim_step b ks w o : sim b ks w -> books_small b = true -> op_in_lang o = true -> lv_ok b ks o = true ->
  (forall t, op_tuple o = Some t -> In t KT) -> step_ok (b, ks) w o.
Proof.
  intros S SM L TY IK. destruct o; try discriminate.
  - destruct k; try discriminate; apply step_counter; auto.
  - apply step_histogram; auto.
  - destruct k; try discriminate; apply step_countervec; auto.
  - apply step_histvec; auto.
  - apply step_with; auto.
  - apply step_remove; auto.
  - apply step_reset; auto.
  - apply step_inc; auto.
  - apply step_incby; auto.
  - apply step_get; auto.
  - apply step_observe; auto.
  - apply step_samplesum; auto.
  - apply step_samplecount; auto.
  - apply step_local; auto.
  - apply step_flush; auto.
  - apply step_clear; auto.
  - apply step_clone; auto.
  - apply step_drop; auto.
  - apply step_lvinc; auto.
  - apply step_lvobserve; auto.
  - apply step_lvremove; auto.
  - apply step_timer; auto.
  - apply step_timerstop; auto.
  - apply step_closure; auto.
  - apply step_collect; auto.
Qed.

(* ================================================================ histories *)
Fixpoint dom_run (bk : books * vkinds) (w : world) (ops : list op) : bool :=
  match ops with
  | [] => true
  | o :: r => op_in_lang o && lv_ok (fst bk) (snd bk) o
              && books_small (fst (fst (acct_step bk o (snd (step w o)))))
              && dom_run (fst (acct_step bk o (snd (step w o)))) (fst (step w o)) r
  end.

Definition op_tuples (o : op) : list (list str) := match op_tuple o with Some t => [t] | None => [] end.
Definition tuples_of (ops : list op) : list (list str) := flat_map op_tuples ops.

Lemma all_true_app a b : all_true (a ++ b) = all_true a && all_true b.
Proof. unfold all_true. apply forallb_app. Qed.

Lemma run_length w ops : length (run w ops) = length ops.
Proof. revert w; induction ops as [|o r IH]; intros w; cbn; auto. destruct (step w o). cbn. rewrite IH. reflexivity. Qed.

Lemma acct_run_model ops : forall bk w, sim (fst bk) (snd bk) w -> books_small (fst bk) = true ->
  (forall t, In t (tuples_of ops) -> In t KT) -> dom_run bk w ops = true ->
  all_true (acct_run bk ops (run w ops)) = true.
Proof.
  induction ops as [|o r IH]; intros [b ks] w S SM Sub D; [reflexivity|].
  cbn [dom_run] in D. apply andb_prop in D as [D D4]. apply andb_prop in D as [D D3]. apply andb_prop in D as [D1 D2].
  cbn [fst snd] in *.
  assert (IKo : forall t, op_tuple o = Some t -> In t KT).
  { intros t E. apply Sub. cbn [tuples_of flat_map]. apply in_or_app. left. unfold op_tuples. rewrite E. left; auto. }
  pose proof (sim_step b ks w o S SM D1 D2 IKo D3) as (S' & C).
  cbn [run acct_run]. destruct (step w o) as [w' ob] eqn:E1. cbn [fst snd] in *.
  destruct (acct_step (b, ks) o ob) as [[b' ks'] cs] eqn:E2. cbn [fst snd] in *.
  rewrite all_true_app, C. cbn [andb]. apply (IH (b', ks')); auto.
  intros t I. apply Sub. cbn [tuples_of flat_map]. apply in_or_app. right; auto.
Qed.

End Keyed.

(* ---------- the no-collision hypothesis, executable ---------- *)
Definition no_collision (T : list (list str)) : bool :=
  forallb (fun a => forallb (fun b => negb (H a =? H b) || tuple_eqb a b) T) T.
Lemma no_collision_inj T : no_collision T = true -> forall a b, In a T -> In b T -> H a = H b -> a = b.
Proof.
  unfold no_collision. intros NC a b Ia Ib E. rewrite forallb_forall in NC. specialize (NC a Ia). rewrite forallb_forall in NC.
  specialize (NC b Ib). rewrite E, N.eqb_refl in NC. cbn in NC. apply tuple_eqb_eq; auto.
Qed.

(* The domain, executable:
   - every operation is in the covered language [op_in_lang];
   - the label-value tuples mentioned by the operations do not collide under the label hash;
   - updates through a local vector are well typed [lv_ok] (checked on the books along the run);
   - along the run no histogram and no local histogram holds 2^63 observations or more. *)
Definition ops_in_domain (ops : list op) : bool :=
  no_collision (tuples_of ops) && dom_run (books0, []) world0 ops.

(* every judgement the engine makes on the model's own observations is true *)
Theorem acct_model ops : ops_in_domain ops = true -> all_true (acct ops (run world0 ops)) = true.
Proof.
  intros D. apply andb_prop in D as [NC D]. apply (acct_run_model (tuples_of ops) (no_collision_inj _ NC) ops (books0, [])); auto.
  apply sim0.
Qed.

Theorem c12_spec_model ops : ops_in_domain ops = true -> spec_c12 ops (run world0 ops) = true.
Proof.
  intros D. unfold spec_c12. rewrite run_length, Nat.eqb_refl. cbn [andb].
  pose proof (acct_model ops D) as A. unfold all_true in A. rewrite forallb_forall in *. intros c I.
  specialize (A c I). destruct (fst c); auto.
Qed.
