(* The C03 analogue of Proofs/HistSpec.v: a validated trace inside the spec's domain, all of whose calls have
   returned, satisfies spec_c03 = spec_hist (growth, batch atomicity, quiescent exactness, per-thread closure, ...)
   && the typed quiescent reads && "every call returned".  The validator accepts every prefix of an execution, so
   "at the end of the trace no call is pending" cannot follow from validation: it is the executable side condition
   [all_returned] (the spec's own pending list is empty); termination of the calls is runtime behaviour. *)
Require Import PV.Base.Prelude PV.Base.F64 PV.Model.Conc PV.Model.HistConc PV.Model.HistExec PV.Spec.SpecC02 PV.Spec.SpecC03.
Require Import PV.Proofs.HistConcLemmas PV.Proofs.HistConcInv PV.Proofs.HistConcProof PV.Proofs.HistConcOwn.
Require Import PV.Proofs.HistExecSound PV.Proofs.HistExecInv PV.Proofs.HistConcThms.
Require Import PV.Proofs.HistValues PV.Proofs.HistLog PV.Proofs.HistReads PV.Proofs.HistMain.
Require Import PV.Proofs.HistSpecArith PV.Proofs.HistSpecFloat PV.Proofs.HistSpecSim PV.Proofs.HistSpecInv PV.Proofs.HistSpecSnap PV.Proofs.HistSpec.
From Coq Require Import ZArith Lia Bool Arith Permutation.
Open Scope Z_scope.

Definition all_returned (es : list event) : bool := is_nil (r_pend (fold_left rstep es rinit)).

Definition proj_rd (x : nat * (bool * bool)) : nat * bool := (fst x, snd (snd x)).

(* the second pass of the spec against the first *)
Definition rrel (s : sst) (r : rst) : Prop :=
  r_total r = zsum (all_vals (s_obs s)) /\ r_count r = Z.of_nat (length (all_vals (s_obs s))) /\ r_pend r = s_pending s
  /\ map proj_rd (r_rd r) = s_reads s.
(* ... and against the model: the type recorded for a pending read is the kind of call the thread is in *)
Definition rkind (o : ost) (r : rst) : Prop :=
  (forall t f q, In (t, (f, q)) (r_rd r) -> kind_of (ax (ox o) t) = if f then KSum else KCount)
  /\ (forall t, kind_of (ax (ox o) t) = KCount \/ kind_of (ax (ox o) t) = KSum -> exists f q, In (t, (f, q)) (r_rd r)).

Lemma spoil_disturb t l : map proj_rd (spoil t l) = map (fun r => if Nat.eqb (fst r) t then r else (fst r, false)) (map proj_rd l).
Proof.
  unfold spoil. rewrite !map_map. apply map_ext. intros [u [f q]]. cbn. destruct (Nat.eqb u t); reflexivity.
Qed.
Lemma spoil_in t l u f q : In (u, (f, q)) (spoil t l) -> exists q0, In (u, (f, q0)) l.
Proof.
  unfold spoil. intros H. apply in_map_iff in H as ([u0 [f0 q0]] & E & Hin). cbn in E. destruct (Nat.eqb u0 t); inversion E; subst; eauto.
Qed.
Lemma spoil_in_conv t l u f q : In (u, (f, q)) l -> exists q0, In (u, (f, q0)) (spoil t l).
Proof.
  unfold spoil. intros H. destruct (Nat.eqb u t) eqn:E.
  - exists q. apply in_map_iff. exists (u, (f, q)). cbn. rewrite E. auto.
  - exists false. apply in_map_iff. exists (u, (f, q)). cbn. rewrite E. auto.
Qed.
Lemma filter_all {A} (f : A -> bool) l : (forall x, In x l -> f x = true) -> filter f l = l.
Proof. induction l as [|a l IH]; cbn; intros H; auto. rewrite (H a (or_introl eq_refl)), IH; auto. Qed.
Lemma filter_proj t l : map proj_rd (filter (fun x => negb (Nat.eqb (fst x) t)) l) = filter (fun r => negb (Nat.eqb (fst r) t)) (map proj_rd l).
Proof. induction l as [|[u [f q]] l IH]; cbn; auto. destruct (Nat.eqb u t); cbn; rewrite IH; reflexivity. Qed.

Section T.
Variable bounds : list Z.
Hypothesis Hnd : nondecr bounds.

Lemma sstep_snap_fields s t cnt sum bks :
  s_obs (sstep bounds s (ERet t (RSnap cnt sum bks))) = s_obs s
  /\ s_pending (sstep bounds s (ERet t (RSnap cnt sum bks))) = remove_nat t (s_pending s)
  /\ s_reads (sstep bounds s (ERet t (RSnap cnt sum bks))) = s_reads s.
Proof.
  unfold sstep. destruct (find (fun cc => Nat.eqb (cc_t cc) t) (s_col s)); [|auto].
  destruct (match z_of_bits sum with Some z => decode (s_obs s) z | None => None end); auto.
Qed.
Lemma sstep_val_fields s t b :
  s_obs (sstep bounds s (ERet t (RVal b))) = s_obs s
  /\ s_pending (sstep bounds s (ERet t (RVal b))) = remove_nat t (s_pending s)
  /\ s_reads (sstep bounds s (ERet t (RVal b))) = filter (fun r => negb (Nat.eqb (fst r) t)) (s_reads s).
Proof. unfold sstep. destruct (find (fun r => Nat.eqb (fst r) t) (s_reads s)) as [[u [|]]|]; auto. Qed.

Lemma zsum_snoc l vs : zsum (l ++ vs) = zsum l + zsum vs.
Proof. apply zsum_app. Qed.

Theorem rsim_step o s r e o' :
  RI bounds o -> J o s -> Dom53 (all_vals (s_obs s)) -> rrel s r -> rkind o r -> r_ok r = true ->
  ostep bounds o e = Some o' ->
  rrel (sstep bounds s e) (rstep r e) /\ rkind o' (rstep r e) /\ r_ok (rstep r e) = true.
Proof.
  intros R Jv D (Rt & Rc & Rp & Rr) (K1 & K2) Hok Hs.
  destruct (ostep_fields bounds _ _ _ Hs) as (Hx & _).
  pose proof (hexec_ax bounds _ _ _ Hx) as [Hax Hev].
  pose proof R as (G & SI & OI & _). pose proof G as (I & X & Ow).
  assert (Hnot : forall t, (forall f q, ~ In (t, (f, q)) (r_rd r)) -> forall x, In x (r_rd r) -> negb (Nat.eqb (fst x) t) = true).
  { intros t H [u [f q]] Hin. cbn. apply negb_true_iff. apply Nat.eqb_neq. intros ->. eapply H; eauto. }
  destruct e; try contradiction; cbn [ev_tid] in Hax.
  - (* ECall *)
    destruct Hev as (Hat & Hat' & Hkn & _).
    assert (Hno : forall f q, ~ In (t, (f, q)) (r_rd r)).
    { intros f q Hin. pose proof (K1 _ _ _ Hin) as Hk. rewrite Hat in Hk. destruct f; discriminate. }
    assert (Hk1 : forall a : list (nat * (bool * bool)), (forall u f q, In (u, (f, q)) a -> (exists q0, In (u, (f, q0)) (r_rd r)) \/ (u = t /\ kind_of (ax (ox o') t) = if f then KSum else KCount)) ->
                  forall u f q, In (u, (f, q)) a -> kind_of (ax (ox o') u) = if f then KSum else KCount).
    { intros a Ha u f q Hin. destruct (Ha u f q Hin) as [(q0 & H0)|[-> Hk]]; auto.
      assert (u <> t) by (intros ->; eapply Hno; eauto). rewrite Hax by auto. eapply K1; eauto. }
    pose proof (hexec_call_vals bounds _ _ _ _ Hx) as Hcv.
    destruct c; try (exfalso; apply Hkn; reflexivity).
    + (* observe *)
      cbn [call_vals] in Hcv. destruct (z_of_bits bits) as [v|] eqn:Ez; [|exfalso; apply Hcv; reflexivity].
      rewrite (sstep_obs_call bounds s t (CObs bits) [v]) by (cbn; rewrite Ez; reflexivity).
      unfold rstep. rewrite Ez. cbn [s_obs s_pending s_reads r_total r_count r_pend r_rd r_ok]. split; [|split; auto].
      * unfold rrel. cbn [s_obs s_pending s_reads r_total r_count r_pend r_rd].
        rewrite all_vals_app, zsum_app, app_length. unfold all_vals at 2 4. cbn [flat_map oc_vals app length]. unfold zsum at 2. cbn [fold_right].
        repeat split; try lia; try congruence. rewrite spoil_disturb, Rr. reflexivity.
      * split.
        -- apply Hk1. intros u f q Hin. left. eapply spoil_in; eauto.
        -- intros u Hu. assert (u <> t) by (intros ->; rewrite Hat' in Hu; destruct Hu; discriminate). rewrite Hax in Hu by auto.
           destruct (K2 u Hu) as (f & q & Hin). destruct (spoil_in_conv t _ _ _ _ Hin) as [q0 H0]. eauto.
    + (* flush *)
      cbn [call_vals] in Hcv. destruct (bits_vals bits) as [vs|] eqn:Ez; [|exfalso; apply Hcv; reflexivity].
      rewrite (sstep_obs_call bounds s t (CBatch bits) vs) by (cbn; exact Ez).
      unfold rstep. rewrite zvals_bits_vals, Ez. cbn [s_obs s_pending s_reads r_total r_count r_pend r_rd r_ok]. split; [|split; auto].
      * unfold rrel. cbn [s_obs s_pending s_reads r_total r_count r_pend r_rd].
        rewrite all_vals_app, zsum_app, app_length, fold_left_add_zsum. unfold all_vals at 2 4. cbn [flat_map oc_vals]. rewrite app_nil_r.
        repeat split; try lia; try congruence. rewrite spoil_disturb, Rr. reflexivity.
      * split.
        -- apply Hk1. intros u f q Hin. left. eapply spoil_in; eauto.
        -- intros u Hu. assert (u <> t) by (intros ->; rewrite Hat' in Hu; destruct Hu; discriminate). rewrite Hax in Hu by auto.
           destruct (K2 u Hu) as (f & q & Hin). destruct (spoil_in_conv t _ _ _ _ Hin) as [q0 H0]. eauto.
    + (* collect *)
      rewrite sstep_collect_call. unfold rstep. cbn [s_obs s_pending s_reads r_total r_count r_pend r_rd r_ok app]. split; [|split; auto].
      * unfold rrel. cbn [s_obs s_pending s_reads r_total r_count r_pend r_rd]. repeat split; try congruence. rewrite spoil_disturb, Rr. reflexivity.
      * split.
        -- apply Hk1. intros u f q Hin. left. eapply spoil_in; eauto.
        -- intros u Hu. assert (u <> t) by (intros ->; rewrite Hat' in Hu; destruct Hu; discriminate). rewrite Hax in Hu by auto.
           destruct (K2 u Hu) as (f & q & Hin). destruct (spoil_in_conv t _ _ _ _ Hin) as [q0 H0]. eauto.
    + (* get_sample_count *)
      rewrite (sstep_read_call bounds s t CSCount) by auto. unfold rstep. cbn [s_obs s_pending s_reads r_total r_count r_pend r_rd r_ok app]. split; [|split; auto].
      * unfold rrel. cbn [s_obs s_pending s_reads r_total r_count r_pend r_rd map]. repeat split; try congruence.
        unfold proj_rd at 1. cbn [fst snd]. rewrite spoil_disturb, Rr, Rp. reflexivity.
      * split.
        -- apply Hk1. intros u f q [E|Hin]; [inversion E; subst; right; split; auto; rewrite Hat'; reflexivity|left; eapply spoil_in; eauto].
        -- intros u Hu. destruct (Nat.eq_dec u t) as [->|Hne]; [do 2 eexists; left; reflexivity|]. rewrite Hax in Hu by auto.
           destruct (K2 u Hu) as (f & q & Hin). destruct (spoil_in_conv t _ _ _ _ Hin) as [q0 H0]. exists f, q0. right; auto.
    + (* get_sample_sum *)
      rewrite (sstep_read_call bounds s t CSSum) by auto. unfold rstep. cbn [s_obs s_pending s_reads r_total r_count r_pend r_rd r_ok app]. split; [|split; auto].
      * unfold rrel. cbn [s_obs s_pending s_reads r_total r_count r_pend r_rd map]. repeat split; try congruence.
        unfold proj_rd at 1. cbn [fst snd]. rewrite spoil_disturb, Rr, Rp. reflexivity.
      * split.
        -- apply Hk1. intros u f q [E|Hin]; [inversion E; subst; right; split; auto; rewrite Hat'; reflexivity|left; eapply spoil_in; eauto].
        -- intros u Hu. destruct (Nat.eq_dec u t) as [->|Hne]; [do 2 eexists; left; reflexivity|]. rewrite Hax in Hu by auto.
           destruct (K2 u Hu) as (f & q & Hin). destruct (spoil_in_conv t _ _ _ _ Hin) as [q0 H0]. exists f, q0. right; auto.
  - (* ERet *)
    destruct Hev as (Hbase & Hat' & Hkn & Hrm & _).
    assert (Hkind' : forall u f q, In (u, (f, q)) (filter (fun x => negb (Nat.eqb (fst x) t)) (r_rd r)) -> kind_of (ax (ox o') u) = if f then KSum else KCount).
    { intros u f q Hin. apply filter_In in Hin as [Hin Hne]. cbn [fst] in Hne. apply negb_true_iff in Hne. apply Nat.eqb_neq in Hne.
      rewrite Hax by auto. eapply K1; eauto. }
    assert (Hex' : forall u, kind_of (ax (ox o') u) = KCount \/ kind_of (ax (ox o') u) = KSum -> exists f q, In (u, (f, q)) (filter (fun x => negb (Nat.eqb (fst x) t)) (r_rd r))).
    { intros u Hu. assert (u <> t) by (intros ->; rewrite Hat' in Hu; destruct Hu; discriminate). rewrite Hax in Hu by auto.
      destruct (K2 u Hu) as (f & q & Hin). exists f, q. apply filter_In. split; auto. cbn. apply negb_true_iff. apply Nat.eqb_neq. auto. }
    destruct r0; cbn [ret_match] in Hrm; try contradiction.
    + (* RUnit *)
      rewrite sstep_ret_unit. unfold rstep. cbn [s_obs s_pending s_reads r_total r_count r_pend r_rd r_ok]. split; [|split; [split; auto|auto]].
      unfold rrel. cbn [s_obs s_pending s_reads r_total r_count r_pend r_rd].
      assert (Hav : all_vals (mark_done t (s_obs s)) = all_vals (s_obs s)) by (rewrite !all_vals_tv, mark_done_tv; reflexivity).
      rewrite Hav. repeat split; try congruence. rewrite filter_all; auto. apply Hnot. intros f q Hin. pose proof (K1 _ _ _ Hin) as Hk. rewrite Hrm in Hk. destruct f; discriminate.
    + (* RVal *)
      destruct (sstep_val_fields s t bits) as (F1 & F2 & F3). split; [|split; [split; auto|]].
      * unfold rrel. rewrite F1, F2, F3. unfold rstep. cbn [r_total r_count r_pend r_rd]. repeat split; try congruence. rewrite filter_proj, Rr. reflexivity.
      * unfold rstep. cbn [r_ok]. rewrite Hok. cbn [andb].
        destruct (K2 t) as (f0 & q0 & Hin0). { destruct Hrm as [(v & E & _)|(h & v & E & _)]; rewrite E; cbn; auto. }
        destruct (find (fun x => Nat.eqb (fst x) t) (r_rd r)) as [[u [f q]]|] eqn:Ef.
        2: { exfalso. pose proof (find_none _ _ Ef _ Hin0) as Hn. cbn in Hn. rewrite Nat.eqb_refl in Hn. discriminate. }
        apply find_some in Ef as [Hin Et]. cbn [fst] in Et. apply Nat.eqb_eq in Et. subst u.
        destruct q; [|destruct f; reflexivity].
        assert (Hsr : In (t, true) (s_reads s)) by (rewrite <- Rr; apply in_map_iff; exists (t, (f, true)); auto).
        destruct (J_reads _ _ Jv t Hsr) as (P1 & P2 & P3). pose proof (K1 _ _ _ Hin) as Hk.
        destruct D as [DD DF].
        destruct Hrm as [(v & E & Hb)|(h & v & E & Hb)]; rewrite E in Hk; destruct f; try discriminate Hk.
        -- apply Z.eqb_eq. rewrite Hb, (P2 v E), Rc. reflexivity.
        -- rewrite Hb, zbits_roundtrip by (rewrite (P3 _ _ _ _ E); apply zsum_bound; auto). apply Z.eqb_eq. rewrite (P3 _ _ _ _ E), Rt. reflexivity.
    + (* RSnap *)
      destruct Hrm as (l0 & k & N & sv & bs & Ha).
      destruct (sstep_snap_fields s t cnt sum bks) as (F1 & F2 & F3). split; [|split; [split; auto|auto]].
      unfold rrel. rewrite F1, F2, F3. unfold rstep. cbn [r_total r_count r_pend r_rd]. repeat split; try congruence.
      rewrite filter_all; auto. apply Hnot. intros f q Hin. pose proof (K1 _ _ _ Hin) as Hk. rewrite Ha in Hk. destruct f; discriminate.
  - (* EAt *) destruct Hev as (Hk & _). split; [exact (conj Rt (conj Rc (conj Rp Rr)))|]. split; auto. cbn [rstep].
    assert (Hkk : forall u, kind_of (ax (ox o') u) = kind_of (ax (ox o) u)) by (intros u; destruct (Nat.eq_dec u t) as [->|Hu]; [auto|rewrite Hax by auto; reflexivity]).
    split; [intros u f q Hin; rewrite Hkk; eapply K1; eauto|intros u Hu; rewrite Hkk in Hu; auto].
  - (* ELock *) destruct Hev as (Hk & _). split; [exact (conj Rt (conj Rc (conj Rp Rr)))|]. split; auto. cbn [rstep].
    assert (Hkk : forall u, kind_of (ax (ox o') u) = kind_of (ax (ox o) u)) by (intros u; destruct (Nat.eq_dec u t) as [->|Hu]; [auto|rewrite Hax by auto; reflexivity]).
    split; [intros u f q Hin; rewrite Hkk; eapply K1; eauto|intros u Hu; rewrite Hkk in Hu; auto].
  - (* EUnlock *) destruct Hev as (Hk & _). split; [exact (conj Rt (conj Rc (conj Rp Rr)))|]. split; auto. cbn [rstep].
    assert (Hkk : forall u, kind_of (ax (ox o') u) = kind_of (ax (ox o) u)) by (intros u; destruct (Nat.eq_dec u t) as [->|Hu]; [auto|rewrite Hax by auto; reflexivity]).
    split; [intros u f q Hin; rewrite Hkk; eapply K1; eauto|intros u Hu; rewrite Hkk in Hu; auto].
Qed.

Theorem rsim_run es : forall o s r o',
  RI bounds o -> J o s -> s_ok s = true -> Dom53 (all_vals (s_obs s) ++ trace_vals es) -> rrel s r -> rkind o r -> r_ok r = true ->
  orun bounds o es = Some o' -> r_ok (fold_left rstep es r) = true.
Proof.
  induction es as [|e es IH]; intros o s r o' R Jv Hsok HD Rr Rk Hok Hr; cbn [fold_left]; auto.
  cbn [orun] in Hr. destruct (ostep bounds o e) as [o1|] eqn:Es; [|discriminate].
  unfold trace_vals in HD. cbn [flat_map] in HD. fold (trace_vals es) in HD. rewrite app_assoc in HD.
  pose proof (Dom53_app_l _ _ HD) as HD1.
  destruct (sim_step bounds Hnd o s e o1 R Jv Hsok HD1 Es) as (J1 & Ok1 & Av).
  destruct (rsim_step o s r e o1 R Jv (Dom53_app_l _ _ HD1) Rr Rk Hok Es) as (Rr1 & Rk1 & Ok2).
  apply (IH o1 (sstep bounds s e) _ o'); auto.
  - eapply RI_step; eauto.
  - rewrite Av. exact HD.
Qed.

End T.

Theorem spec_c03_of_validated bounds es x :
  xrun bounds xinit es = Some x -> in_domain bounds es = true -> all_returned es = true -> spec_c03 bounds es = true.
Proof.
  intros Hr Hd Hall. unfold spec_c03. rewrite (spec_of_validated bounds es x Hr Hd). cbn [andb].
  unfold reads_and_returns_ok. unfold all_returned in Hall. rewrite Hall, andb_true_r.
  destruct (in_domain_Dom53 _ _ Hd) as [D Hn].
  destruct (xrun_orun bounds es oinit x Hr) as (o & Ho & _).
  apply (rsim_run bounds Hn es oinit sinit rinit o); auto.
  - apply RI_init.
  - apply J_init.
  - repeat split.
  - split; [intros t f q []|]. intros t [H|H]; discriminate.
Qed.
