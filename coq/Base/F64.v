(* binary64 = Coq's primitive floats; bit patterns cross the harness boundary (definitions). *)
From Coq Require Export Floats.
Require Import PV.Base.Prelude.
Open Scope Z_scope.

Notation f64 := Floats.PrimFloat.float.

Definition bits2sf (b : Z) : spec_float :=
  let s := Z.testbit b 63 in
  let e := Z.land (Z.shiftr b 52) 2047 in
  let m := Z.land b (Z.ones 52) in
  if e =? 2047 then (if m =? 0 then S754_infinity s else S754_nan)
  else if e =? 0 then (match m with Zpos p => S754_finite s p (-1074) | _ => S754_zero s end)
  else match Z.lor m (Z.shiftl 1 52) with Zpos p => S754_finite s p (e - 1075) | _ => S754_nan end.
Definition sf2bits (x : spec_float) : Z :=
  let sb (s : bool) := if s then Z.shiftl 1 63 else 0 in
  match x with
  | S754_zero s => sb s
  | S754_infinity s => sb s + Z.shiftl 2047 52
  | S754_nan => Z.shiftl 4095 51   (* canonical quiet NaN 0x7ff8000000000000; the harness canonicalises too *)
  | S754_finite s m e =>
      let m := Zpos m in
      if m <? Z.shiftl 1 52 then sb s + m   (* subnormal: e = -1074 *)
      else sb s + Z.shiftl (e + 1075) 52 + (m - Z.shiftl 1 52)
  end.
Definition bits2f (b : N) : f64 := SF2Prim (bits2sf (Z.of_N b)).
Definition f2bits (x : f64) : N := Z.to_N (sf2bits (Prim2SF x)).

(* bit equality with one NaN *)
Definition f64_eqb (x y : f64) : bool := N.eqb (f2bits x) (f2bits y).

Definition f_zero : f64 := 0%float.
Definition f_one : f64 := 1%float.
Definition f_is_nan (x : f64) : bool := negb (PrimFloat.eqb x x).
Definition f_pos_inf (x : f64) : bool := PrimFloat.eqb x infinity.
Definition f_neg (x : f64) : f64 := PrimFloat.opp x.

(* u64 / i64 -> f64 (`as f64`: round to nearest, ties to even) *)
Definition f_of_Z (z : Z) : f64 := SF2Prim (binary_normalize prec emax z 0 false).
Definition f_of_N (n : N) : f64 := f_of_Z (Z.of_N n).
(* i64 stored as its two's complement pattern in N *)
Definition i64_to_Z (n : N) : Z := if (n <? 0x8000000000000000)%N then Z.of_N n else Z.of_N n - 0x10000000000000000.
Definition i64_of_Z (z : Z) : N := Z.to_N (z mod 0x10000000000000000).
