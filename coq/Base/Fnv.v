(* FNV-1a, 64 bit, exactly as the `fnv` crate's FnvHasher (definitions). *)
Require Import PV.Base.Prelude.
Open Scope N_scope.

Definition fnv_off : N := 0xcbf29ce484222325.
Definition fnv_prime : N := 0x100000001b3.
Definition fnv_step (h b : N) : N := (N.lxor h b * fnv_prime) mod two64.
Definition fnv_bytes (h : N) (bs : list N) : N := fold_left fnv_step bs h.
Definition fnv1a (bs : list N) : N := fnv_bytes fnv_off bs.
