(* Facts about the stable insertion sort of Prelude: it permutes, it sorts, and the sorted
   arrangement of a multiset is unique wherever the order is antisymmetric. *)
Require Import PV.Base.Prelude.
From Coq Require Import Permutation Sorting.Sorted.

Section S.
  Context {A : Type} (leb : A -> A -> bool).
  Hypothesis leb_total : forall x y, leb x y = true \/ leb y x = true.
  Hypothesis leb_trans : forall x y z, leb x y = true -> leb y z = true -> leb x z = true.

  Definition le x y := leb x y = true.

  Lemma insert_by_perm x l : Permutation (insert_by leb x l) (x :: l).
  Proof.
    induction l as [|y l IH]; cbn; auto. destruct (leb x y); auto.
    rewrite IH. apply perm_swap.
  Qed.
  Lemma sort_by_perm l : Permutation (sort_by leb l) l.
  Proof. induction l as [|x l IH]; cbn; auto. rewrite insert_by_perm. auto. Qed.
  Lemma sort_by_length l : length (sort_by leb l) = length l.
  Proof. apply Permutation_length. apply sort_by_perm. Qed.
  Lemma sort_by_In x l : In x (sort_by leb l) <-> In x l.
  Proof. split; apply Permutation_in; [|apply Permutation_sym]; apply sort_by_perm. Qed.

  Lemma insert_by_sorted x l : StronglySorted le l -> StronglySorted le (insert_by leb x l).
  Proof.
    induction 1 as [|y l Hs IH Hy]; cbn; [repeat constructor|].
    destruct (leb x y) eqn:E.
    - constructor; [constructor; auto|]. constructor; auto.
      eapply Forall_impl; [|exact Hy]. intros z Hz. eapply leb_trans; eauto.
    - constructor; auto. assert (Hyx : leb y x = true) by (destruct (leb_total x y); congruence).
      apply (Permutation_Forall (Permutation_sym (insert_by_perm x l))). constructor; auto.
  Qed.
  Lemma sort_by_sorted l : StronglySorted le (sort_by leb l).
  Proof. induction l; cbn; [constructor|apply insert_by_sorted; auto]. Qed.

  (* uniqueness of the sorted arrangement under antisymmetry on the elements present *)
  Lemma sorted_perm_unique l1 l2 :
    StronglySorted le l1 -> StronglySorted le l2 -> Permutation l1 l2 ->
    (forall x y, In x l1 -> In y l1 -> leb x y = true -> leb y x = true -> x = y) ->
    l1 = l2.
  Proof.
    intros S1; revert l2; induction S1 as [|x l1 S1 IH Hx]; intros l2 S2 P Anti.
    - apply Permutation_nil in P. auto.
    - destruct l2 as [|y l2]; [apply Permutation_sym, Permutation_nil in P; discriminate|].
      inversion S2 as [|? ? S2' Hy]; subst.
      assert (x = y).
      { assert (In y (x :: l1)) by (eapply Permutation_in; [apply Permutation_sym; eauto|left; auto]).
        assert (In x (y :: l2)) by (eapply Permutation_in; [eauto|left; auto]).
        destruct H as [->|H]; auto. destruct H0 as [->|H0]; auto.
        apply Anti; [left; auto|right; auto| |].
        - rewrite Forall_forall in Hx. apply Hx; auto.
        - rewrite Forall_forall in Hy. apply Hy; auto. }
      subst y. f_equal. apply IH; auto.
      + eapply Permutation_cons_inv; eauto.
      + intros a b Ha Hb. apply Anti; right; auto.
  Qed.

  Lemma sort_by_perm_inv l l' :
    Permutation l l' ->
    (forall x y, In x l -> In y l -> leb x y = true -> leb y x = true -> x = y) ->
    sort_by leb l = sort_by leb l'.
  Proof.
    intros P Anti. apply sorted_perm_unique.
    - apply sort_by_sorted.
    - apply sort_by_sorted.
    - eapply Permutation_trans; [apply sort_by_perm|]. eapply Permutation_trans; [exact P|].
      apply Permutation_sym. apply sort_by_perm.
    - intros x y Hx Hy Hxy Hyx. apply -> sort_by_In in Hx. apply -> sort_by_In in Hy. apply Anti; auto.
  Qed.

  (* a sorted list is a fixed point *)
  Lemma insert_by_head x l : Forall (le x) l -> insert_by leb x l = x :: l.
  Proof. destruct l as [|y l]; cbn; auto. intros H. inversion H; subst. unfold le in *. rewrite H2. auto. Qed.
  Lemma sort_by_sorted_id l : StronglySorted le l -> sort_by leb l = l.
  Proof.
    induction 1 as [|x l S IH Hx]; [reflexivity|]. cbn [sort_by fold_right]. fold (sort_by leb l).
    rewrite IH. apply insert_by_head; auto.
  Qed.
End S.
