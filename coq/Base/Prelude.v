(* Shared definitions: strings as code-point lists, comparisons, stable sorting, assoc lists.
   Definitions only (proofs live in Base/*Facts.v) so that the executable model keeps
   running when a proof breaks. *)
From Coq Require Export List NArith ZArith Bool Lia.
Export ListNotations.
Open Scope N_scope.

Arguments N.add : simpl never.
Arguments N.sub : simpl never.
Arguments N.mul : simpl never.
Arguments N.eqb : simpl never.
Arguments N.ltb : simpl never.
Arguments N.leb : simpl never.
Arguments N.div : simpl never.
Arguments N.modulo : simpl never.

(* A Rust String is modelled as the list of its Unicode scalar values. *)
Definition str := list N.

(* (surrogates are not excluded: nothing below needs that, and Rust cannot produce them) *)
Definition scalar (c : N) : Prop := c < 0x110000.
Definition scalarb (c : N) : bool := c <? 0x110000.
Definition wf_str (s : str) : Prop := Forall scalar s.

Fixpoint str_eqb (a b : str) : bool :=
  match a, b with
  | [], [] => true
  | x :: a', y :: b' => (x =? y) && str_eqb a' b'
  | _, _ => false
  end.

(* lexicographic order on code points (= byte order of the UTF-8 encodings = Rust's Ord for str) *)
Fixpoint str_cmp (a b : str) : comparison :=
  match a, b with
  | [], [] => Eq
  | [], _ :: _ => Lt
  | _ :: _, [] => Gt
  | x :: a', y :: b' => match x ?= y with Eq => str_cmp a' b' | c => c end
  end.
Definition str_leb (a b : str) : bool := match str_cmp a b with Gt => false | _ => true end.
Definition str_ltb (a b : str) : bool := match str_cmp a b with Lt => true | _ => false end.

Definition is_nil {A} (l : list A) : bool := match l with [] => true | _ => false end.

(* Stable insertion sort w.r.t. a "less or equal" test: an element is inserted before the
   first element it is <= to, and elements are inserted from the right, so equal elements
   keep their original order.  This is the observable behaviour of Rust's (stable)
   slice::sort / sort_by for a total preorder. *)
Section Sort.
  Context {A : Type} (leb : A -> A -> bool).
  Fixpoint insert_by (x : A) (l : list A) : list A :=
    match l with
    | [] => [x]
    | y :: t => if leb x y then x :: l else y :: insert_by x t
    end.
  Definition sort_by (l : list A) : list A := fold_right insert_by [] l.
End Sort.

(* association lists keyed by strings *)
Fixpoint alookup {V} (k : str) (m : list (str * V)) : option V :=
  match m with
  | [] => None
  | (k', v) :: t => if str_eqb k k' then Some v else alookup k t
  end.
Fixpoint aremove {V} (k : str) (m : list (str * V)) : list (str * V) :=
  match m with
  | [] => []
  | (k', v) :: t => if str_eqb k k' then aremove k t else (k', v) :: aremove k t
  end.
(* HashMap::insert: replaces the value of an existing key (position is irrelevant: every
   consumer of such a map is shown to be order-independent or sorts) *)
Definition ainsert {V} (k : str) (v : V) (m : list (str * V)) : list (str * V) :=
  if match alookup k m with Some _ => true | None => false end
  then map (fun kv => if str_eqb k (fst kv) then (fst kv, v) else kv) m
  else m ++ [(k, v)].
Definition amap_of {V} (kvs : list (str * V)) : list (str * V) :=
  fold_left (fun m kv => ainsert (fst kv) (snd kv) m) kvs [].

Fixpoint mem_str (x : str) (l : list str) : bool :=
  match l with [] => false | y :: t => str_eqb x y || mem_str x t end.
Fixpoint memN (x : N) (l : list N) : bool :=
  match l with [] => false | y :: t => (x =? y) || memN x t end.
Fixpoint nodup_str (l : list str) : bool :=
  match l with [] => true | x :: t => negb (mem_str x t) && nodup_str t end.

(* keyed by N *)
Fixpoint nlookup {V} (k : N) (m : list (N * V)) : option V :=
  match m with
  | [] => None
  | (k', v) :: t => if k =? k' then Some v else nlookup k t
  end.
Fixpoint nremove {V} (k : N) (m : list (N * V)) : list (N * V) :=
  match m with
  | [] => []
  | (k', v) :: t => if k =? k' then nremove k t else (k', v) :: nremove k t
  end.

Definition two64 : N := 0x10000000000000000.
Definition wrap64 (x : N) : N := x mod two64.

Fixpoint list_set {A} (l : list A) (i : nat) (x : A) : list A :=
  match l, i with
  | [], _ => []
  | _ :: t, O => x :: t
  | y :: t, S i' => y :: list_set t i' x
  end.

(* indices (as N) of the elements of [l] that fail [f] — used by the correspondence check *)
Fixpoint failing {A} (f : A -> bool) (i : N) (l : list A) : list N :=
  match l with
  | [] => []
  | x :: t => if f x then failing f (i + 1) t else i :: failing f (i + 1) t
  end.
