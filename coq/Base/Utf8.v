(* UTF-8 encoding of code-point lists (definitions). *)
Require Import PV.Base.Prelude.
Open Scope N_scope.

Definition utf8c (c : N) : list N :=
  if c <? 0x80 then [c]
  else if c <? 0x800 then [0xC0 + c / 64; 0x80 + c mod 64]
  else if c <? 0x10000 then [0xE0 + c / 64 / 64; 0x80 + (c / 64) mod 64; 0x80 + c mod 64]
  else [0xF0 + c / 64 / 64 / 64; 0x80 + (c / 64 / 64) mod 64; 0x80 + (c / 64) mod 64; 0x80 + c mod 64].
Definition utf8 (s : str) : list N := flat_map utf8c s.

Definition SEP : N := 0xFF.

(* decoder for one scalar value *)
Definition dec1 (l : list N) : option (N * list N) :=
  match l with
  | b0 :: r =>
      if b0 <? 0x80 then Some (b0, r)
      else if b0 <? 0xE0 then match r with b1 :: r' => Some ((b0 - 0xC0) * 64 + (b1 - 0x80), r') | _ => None end
      else if b0 <? 0xF0 then match r with b1 :: b2 :: r' => Some (((b0 - 0xE0) * 64 + (b1 - 0x80)) * 64 + (b2 - 0x80), r') | _ => None end
      else match r with b1 :: b2 :: b3 :: r' => Some ((((b0 - 0xF0) * 64 + (b1 - 0x80)) * 64 + (b2 - 0x80)) * 64 + (b3 - 0x80), r') | _ => None end
  | [] => None
  end.

(* full decoder, fuel = number of bytes *)
Fixpoint utf8_dec (fuel : nat) (l : list N) : option str :=
  match l with
  | [] => Some []
  | _ => match fuel with
         | O => None
         | S f => match dec1 l with
                  | Some (c, r) => match utf8_dec f r with Some s => Some (c :: s) | None => None end
                  | None => None
                  end
         end
  end.

(* the separator encoding hashed by Desc::new and (after the C05 repair) by MetricVec *)
Definition enc_sep (vals : list str) : list N := flat_map (fun v => utf8 v ++ [SEP]) vals.
