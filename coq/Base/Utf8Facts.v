(* UTF-8: every byte <= 0xF4, decoding inverts encoding, injectivity, and injectivity of the
   0xFF-separated encoding of string lists (the byte strings hashed by Desc::new and MetricVec). *)
Require Import PV.Base.Prelude PV.Base.Utf8.
Open Scope N_scope.

Ltac dm64 c :=
  let q := fresh "q" in let r := fresh "r" in let Hq := fresh "Hq" in let Hr := fresh "Hr" in
  pose proof (N.div_mod' c 64) as Hq; pose proof (N.mod_lt c 64 ltac:(discriminate)) as Hr;
  set (q := c / 64) in *; set (r := c mod 64) in *; clearbody q r.

Lemma utf8c_bytes c b : scalar c -> In b (utf8c c) -> b <= 0xF4.
Proof.
  unfold scalar, utf8c. intros Hc.
  destruct (N.ltb_spec c 0x80). { intros [<-|[]]. lia. }
  destruct (N.ltb_spec c 0x800). { dm64 c. intros [<-|[<-|[]]]; lia. }
  destruct (N.ltb_spec c 0x10000). { dm64 c. dm64 q. intros [<-|[<-|[<-|[]]]]; lia. }
  dm64 c. dm64 q. dm64 q0. intros [<-|[<-|[<-|[<-|[]]]]]; lia.
Qed.

Lemma utf8_bytes s b : wf_str s -> In b (utf8 s) -> b <= 0xF4.
Proof.
  induction 1 as [|c s Hc Hs IH]; cbn; [tauto|]. rewrite in_app_iff. intros [H|H]; auto.
  eapply utf8c_bytes; eauto.
Qed.
Lemma utf8_no_sep s : wf_str s -> ~ In SEP (utf8 s).
Proof. intros H Hin. apply (utf8_bytes s _ H) in Hin. unfold SEP in Hin. lia. Qed.

Lemma dec1_utf8c c r : scalar c -> dec1 (utf8c c ++ r) = Some (c, r).
Proof.
  unfold scalar, utf8c. intros Hc.
  destruct (N.ltb_spec c 0x80) as [H1|H1].
  { cbn [app dec1]. destruct (N.ltb_spec c 0x80); [reflexivity|lia]. }
  destruct (N.ltb_spec c 0x800) as [H2|H2].
  { dm64 c. cbn [app dec1].
    destruct (N.ltb_spec (0xC0 + q) 0x80); [lia|]. destruct (N.ltb_spec (0xC0 + q) 0xE0); [|lia].
    f_equal. f_equal. lia. }
  destruct (N.ltb_spec c 0x10000) as [H3|H3].
  { dm64 c. dm64 q. cbn [app dec1].
    destruct (N.ltb_spec (0xE0 + q0) 0x80); [lia|]. destruct (N.ltb_spec (0xE0 + q0) 0xE0); [lia|].
    destruct (N.ltb_spec (0xE0 + q0) 0xF0); [|lia]. f_equal. f_equal. lia. }
  dm64 c. dm64 q. dm64 q0. cbn [app dec1].
  destruct (N.ltb_spec (0xF0 + q1) 0x80); [lia|]. destruct (N.ltb_spec (0xF0 + q1) 0xE0); [lia|].
  destruct (N.ltb_spec (0xF0 + q1) 0xF0); [lia|]. f_equal. f_equal. lia.
Qed.

Lemma utf8c_prefix c d r r' : scalar c -> scalar d -> utf8c c ++ r = utf8c d ++ r' -> c = d /\ r = r'.
Proof.
  intros Hc Hd E. pose proof (dec1_utf8c c r Hc) as H1. rewrite E, (dec1_utf8c d r' Hd) in H1.
  inversion H1; auto.
Qed.
Lemma utf8c_nonempty c : utf8c c <> [].
Proof. unfold utf8c. destruct (c <? 128), (c <? 2048), (c <? 65536); discriminate. Qed.

Theorem utf8_inj s s' : wf_str s -> wf_str s' -> utf8 s = utf8 s' -> s = s'.
Proof.
  intros H; revert s'; induction H as [|c s Hc Hs IH]; intros s' H' E.
  - destruct H' as [|d s' Hd Hs']; [reflexivity|]. cbn in E. exfalso.
    symmetry in E. apply app_eq_nil in E as [E _]. eapply utf8c_nonempty; eauto.
  - destruct H' as [|d s' Hd Hs'].
    + cbn in E. exfalso. apply app_eq_nil in E as [E _]. eapply utf8c_nonempty; eauto.
    + cbn [utf8 flat_map] in E. apply utf8c_prefix in E as [-> E]; auto. f_equal. apply IH; auto.
Qed.

Lemma utf8_app a b : utf8 (a ++ b) = utf8 a ++ utf8 b.
Proof. unfold utf8. apply flat_map_app. Qed.

(* full decoder inverts the encoder *)
Lemma utf8c_length_pos c : (1 <= length (utf8c c))%nat.
Proof. unfold utf8c. destruct (c <? 128), (c <? 2048), (c <? 65536); cbn; lia. Qed.
Lemma utf8_dec_step f l : l <> [] ->
  utf8_dec (S f) l = match dec1 l with
                     | Some (c, r) => match utf8_dec f r with Some s => Some (c :: s) | None => None end
                     | None => None
                     end.
Proof. destruct l; [congruence|reflexivity]. Qed.
Lemma utf8_dec_utf8 s fuel : wf_str s -> (length (utf8 s) <= fuel)%nat -> utf8_dec fuel (utf8 s) = Some s.
Proof.
  intros H; revert fuel; induction H as [|c s Hc Hs IH]; intros fuel Hf.
  - destruct fuel; reflexivity.
  - cbn [utf8 flat_map] in *. fold (utf8 s) in *. rewrite app_length in Hf. pose proof (utf8c_length_pos c) as Hp.
    destruct fuel as [|fuel]; [lia|].
    rewrite utf8_dec_step.
    + rewrite dec1_utf8c; auto. rewrite IH; auto. lia.
    + intros E. apply app_eq_nil in E as [E _]. eapply utf8c_nonempty; eauto.
Qed.

(* ---- separator encoding ---- *)
Lemma split_sep a b r r' : ~ In SEP a -> ~ In SEP b -> a ++ SEP :: r = b ++ SEP :: r' -> a = b /\ r = r'.
Proof.
  revert b; induction a as [|x a IH]; intros [|y b] Ha Hb E; cbn in *.
  - inversion E; auto.
  - inversion E; subst. tauto.
  - inversion E; subst. tauto.
  - inversion E; subst. destruct (IH b) as [-> ->]; auto.
Qed.

Definition wf_strs (vs : list str) : Prop := Forall wf_str vs.

Theorem enc_sep_inj vs vs' : wf_strs vs -> wf_strs vs' -> enc_sep vs = enc_sep vs' -> vs = vs'.
Proof.
  intros H; revert vs'; induction H as [|v vs Hv Hvs IH]; intros vs' H' E.
  - destruct H' as [|v' vs' Hv' Hvs']; [reflexivity|]. cbn in E. destruct (utf8 v'); discriminate.
  - destruct H' as [|v' vs' Hv' Hvs'].
    + cbn in E. destruct (utf8 v); discriminate.
    + cbn [enc_sep flat_map] in E. rewrite <- !app_assoc in E. cbn [app] in E.
      apply split_sep in E as [E1 E2]; try (apply utf8_no_sep; auto).
      apply utf8_inj in E1; auto. subst. f_equal. apply IH; auto.
Qed.

(* without separators the encoding is NOT injective: the pre-repair MetricVec hash input *)
Example concat_not_inj : flat_map utf8 [[97; 98]; [99]] = flat_map utf8 [[97]; [98; 99]] /\ [[97; 98]; [99]] <> [[97]; [98; 99]].
Proof. split; [reflexivity|discriminate]. Qed.
