(* Facts about string equality / comparison and the list helpers of Prelude. *)
Require Import PV.Base.Prelude.
From Coq Require Import Permutation Sorting.Sorted.
Open Scope N_scope.

Lemma str_eqb_eq a b : str_eqb a b = true <-> a = b.
Proof.
  revert b; induction a as [|x a IH]; intros [|y b]; cbn; split; intros H; try congruence; try discriminate.
  - apply andb_true_iff in H as [H1 H2]. apply N.eqb_eq in H1. apply IH in H2. congruence.
  - inversion H; subst. rewrite N.eqb_refl. cbn. apply IH. reflexivity.
Qed.
Lemma str_eqb_refl a : str_eqb a a = true.
Proof. apply str_eqb_eq. reflexivity. Qed.
Lemma str_eqb_neq a b : str_eqb a b = false <-> a <> b.
Proof.
  split; intros H.
  - intros E. apply str_eqb_eq in E. congruence.
  - destruct (str_eqb a b) eqn:E; auto. apply str_eqb_eq in E. contradiction.
Qed.
Lemma str_eqb_sym a b : str_eqb a b = str_eqb b a.
Proof.
  destruct (str_eqb a b) eqn:E.
  - apply str_eqb_eq in E. subst. symmetry. apply str_eqb_refl.
  - symmetry. apply str_eqb_neq. apply str_eqb_neq in E. congruence.
Qed.
Lemma str_eq_dec (a b : str) : {a = b} + {a <> b}.
Proof. destruct (str_eqb a b) eqn:E; [left; apply str_eqb_eq; auto | right; apply str_eqb_neq; auto]. Qed.

Lemma str_cmp_eq a b : str_cmp a b = Eq <-> a = b.
Proof.
  revert b; induction a as [|x a IH]; intros [|y b]; cbn; split; intros H; try congruence; try discriminate.
  - destruct (x ?= y) eqn:E; try discriminate. apply N.compare_eq_iff in E. apply IH in H. congruence.
  - inversion H; subst. rewrite N.compare_refl. apply IH. reflexivity.
Qed.
Lemma str_cmp_refl a : str_cmp a a = Eq.
Proof. apply str_cmp_eq. reflexivity. Qed.
Lemma str_cmp_antisym a b : str_cmp b a = CompOpp (str_cmp a b).
Proof.
  revert b; induction a as [|x a IH]; intros [|y b]; cbn; auto.
  rewrite (N.compare_antisym x y). destruct (x ?= y); cbn; auto.
Qed.
Lemma str_cmp_lt_trans a b c : str_cmp a b = Lt -> str_cmp b c = Lt -> str_cmp a c = Lt.
Proof.
  revert b c; induction a as [|x a IH]; intros [|y b] [|z c]; cbn; try congruence; try discriminate.
  destruct (x ?= y) eqn:E1; try discriminate; destruct (y ?= z) eqn:E2; try discriminate; intros H1 H2.
  - apply N.compare_eq_iff in E1, E2. subst. rewrite N.compare_refl. eapply IH; eauto.
  - apply N.compare_eq_iff in E1. subst. rewrite E2. reflexivity.
  - apply N.compare_eq_iff in E2. subst. rewrite E1. reflexivity.
  - change (x < y) in E1. change (y < z) in E2.
    assert (Hxz : x < z) by lia. unfold N.lt in Hxz. rewrite Hxz. reflexivity.
Qed.

Lemma str_leb_refl a : str_leb a a = true.
Proof. unfold str_leb. rewrite str_cmp_refl. reflexivity. Qed.
Lemma str_leb_total a b : str_leb a b = true \/ str_leb b a = true.
Proof. unfold str_leb. rewrite (str_cmp_antisym a b). destruct (str_cmp a b); cbn; auto. Qed.
Lemma str_leb_antisym a b : str_leb a b = true -> str_leb b a = true -> a = b.
Proof.
  unfold str_leb. rewrite (str_cmp_antisym a b). destruct (str_cmp a b) eqn:E; cbn; try discriminate.
  intros _ _. apply str_cmp_eq. auto.
Qed.
Lemma str_leb_trans a b c : str_leb a b = true -> str_leb b c = true -> str_leb a c = true.
Proof.
  unfold str_leb. destruct (str_cmp a b) eqn:E1; try discriminate; destruct (str_cmp b c) eqn:E2; try discriminate; intros _ _.
  - apply str_cmp_eq in E1, E2. subst. rewrite str_cmp_refl. reflexivity.
  - apply str_cmp_eq in E1. subst. rewrite E2. reflexivity.
  - apply str_cmp_eq in E2. subst. rewrite E1. reflexivity.
  - rewrite (str_cmp_lt_trans _ _ _ E1 E2). reflexivity.
Qed.
Lemma str_ltb_leb a b : str_ltb a b = true <-> str_leb a b = true /\ a <> b.
Proof.
  unfold str_ltb, str_leb. destruct (str_cmp a b) eqn:E; split; try discriminate; try tauto.
  - intros [_ H]. apply str_cmp_eq in E. contradiction.
  - intros _. split; auto. intros ->. rewrite str_cmp_refl in E. discriminate.
Qed.

Lemma mem_str_In x l : mem_str x l = true <-> In x l.
Proof.
  induction l as [|y l IH]; cbn; [split; [discriminate|tauto]|].
  rewrite orb_true_iff, IH, str_eqb_eq. split; intros [H|H]; auto.
Qed.
Lemma mem_str_false x l : mem_str x l = false <-> ~ In x l.
Proof. rewrite <- mem_str_In. destruct (mem_str x l); split; congruence. Qed.
Lemma memN_In x l : memN x l = true <-> In x l.
Proof.
  induction l as [|y l IH]; cbn; [split; [discriminate|tauto]|].
  rewrite orb_true_iff, IH, N.eqb_eq. split; intros [H|H]; auto.
Qed.
Lemma memN_false x l : memN x l = false <-> ~ In x l.
Proof. rewrite <- memN_In. destruct (memN x l); split; congruence. Qed.
Lemma nodup_str_NoDup l : nodup_str l = true <-> NoDup l.
Proof.
  induction l as [|x l IH]; cbn; [split; [constructor|reflexivity]|].
  rewrite andb_true_iff, negb_true_iff, mem_str_false, IH. split.
  - intros [H1 H2]. constructor; auto.
  - intros H. inversion H; auto.
Qed.

(* association lists *)
Lemma alookup_In {V} k (m : list (str * V)) v : alookup k m = Some v -> In (k, v) m.
Proof.
  induction m as [|[k' v'] m IH]; cbn; [discriminate|].
  destruct (str_eqb k k') eqn:E; intros H.
  - apply str_eqb_eq in E. inversion H; subst. auto.
  - auto.
Qed.
Lemma alookup_None {V} k (m : list (str * V)) : alookup k m = None <-> ~ In k (map fst m).
Proof.
  induction m as [|[k' v'] m IH]; cbn; [tauto|].
  destruct (str_eqb k k') eqn:E.
  - apply str_eqb_eq in E. subst. split; [discriminate|tauto].
  - apply str_eqb_neq in E. rewrite IH. split; intros H; [intros [H1|H1]; [congruence|tauto]|tauto].
Qed.
Lemma alookup_NoDup_In {V} k v (m : list (str * V)) : NoDup (map fst m) -> In (k, v) m -> alookup k m = Some v.
Proof.
  induction m as [|[k' v'] m IH]; cbn; [tauto|]. intros ND [H|H].
  - inversion H; subst. rewrite str_eqb_refl. reflexivity.
  - inversion ND; subst. destruct (str_eqb k k') eqn:E.
    + apply str_eqb_eq in E. subst. exfalso. apply H2. apply (in_map fst) in H. exact H.
    + auto.
Qed.
Lemma alookup_perm {V} k (m m' : list (str * V)) : NoDup (map fst m) -> Permutation m m' -> alookup k m = alookup k m'.
Proof.
  intros ND P. assert (ND' : NoDup (map fst m')) by (eapply Permutation_NoDup; [apply Permutation_map; eauto|auto]).
  destruct (alookup k m) as [v|] eqn:E.
  - symmetry. apply alookup_NoDup_In; auto. eapply Permutation_in; eauto. apply alookup_In; auto.
  - symmetry. apply alookup_None. apply alookup_None in E. intros H. apply E.
    eapply Permutation_in; [apply Permutation_map; apply Permutation_sym; eauto|auto].
Qed.
