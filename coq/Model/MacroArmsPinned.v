(* the arm inventory of src/macros.rs the C20 model was written against (tools/macro_arms.py --pinned) *)
From Coq Require Import String List.
Import ListNotations.
Open Scope string_scope.

Definition pinned_arms : list (string * list (list string * list string)) := [
 ("labels", [
   (["$"; "("; "$"; "KEY"; ":"; "expr"; "=>"; "$"; "VALUE"; ":"; "expr"; ")"; ","; "*"; "$"; "("; ","; ")"; "?"],
    ["{"; "use"; "std"; "::"; "collections"; "::"; "HashMap"; ";"; "let"; "mut"; "lbs"; "="; "HashMap"; "::"; "new"; "("; ")"; ";"; "$"; "("; "lbs"; "."; "insert"; "("; "$"; "KEY"; ","; "$"; "VALUE"; ")"; ";"; ")"; "*"; "lbs"; "}"])]);
 ("opts", [
   (["$"; "NAME"; ":"; "expr"; ","; "$"; "HELP"; ":"; "expr"; "$"; "("; ","; "$"; "CONST_LABELS"; ":"; "expr"; ")"; "*"; "$"; "("; ","; ")"; "?"],
    ["{"; "use"; "std"; "::"; "collections"; "::"; "HashMap"; ";"; "let"; "opts"; "="; "$"; "crate"; "::"; "Opts"; "::"; "new"; "("; "$"; "NAME"; ","; "$"; "HELP"; ")"; ";"; "let"; "lbs"; "="; "HashMap"; "::"; "<"; "String"; ","; "String"; ">"; "::"; "new"; "("; ")"; ";"; "$"; "("; "#"; "["; "allow"; "("; "clippy"; "::"; "redundant_locals"; ")"; "]"; "let"; "mut"; "lbs"; "="; "lbs"; ";"; "lbs"; "."; "extend"; "("; "$"; "CONST_LABELS"; "."; "iter"; "("; ")"; "."; "map"; "("; "|"; "("; "k"; ","; "v"; ")"; "|"; "("; "("; "*"; "k"; ")"; "."; "into"; "("; ")"; ","; "("; "*"; "v"; ")"; "."; "into"; "("; ")"; ")"; ")"; ")"; ";"; ")"; "*"; "opts"; "."; "const_labels"; "("; "lbs"; ")"; "}"])]);
 ("histogram_opts", [
   (["$"; "NAME"; ":"; "expr"; ","; "$"; "HELP"; ":"; "expr"; "$"; "("; ","; ")"; "?"],
    ["{"; "$"; "crate"; "::"; "HistogramOpts"; "::"; "new"; "("; "$"; "NAME"; ","; "$"; "HELP"; ")"; "}"]);
   (["$"; "NAME"; ":"; "expr"; ","; "$"; "HELP"; ":"; "expr"; ","; "$"; "BUCKETS"; ":"; "expr"; "$"; "("; ","; ")"; "?"],
    ["{"; "let"; "hopts"; "="; "histogram_opts"; "!"; "("; "$"; "NAME"; ","; "$"; "HELP"; ")"; ";"; "hopts"; "."; "buckets"; "("; "$"; "BUCKETS"; ")"; "}"]);
   (["$"; "NAME"; ":"; "expr"; ","; "$"; "HELP"; ":"; "expr"; ","; "$"; "BUCKETS"; ":"; "expr"; ","; "$"; "CONST_LABELS"; ":"; "expr"; "$"; "("; ","; ")"; "?"],
    ["{"; "let"; "hopts"; "="; "histogram_opts"; "!"; "("; "$"; "NAME"; ","; "$"; "HELP"; ","; "$"; "BUCKETS"; ")"; ";"; "hopts"; "."; "const_labels"; "("; "$"; "CONST_LABELS"; ")"; "}"])]);
 ("register_counter", [
   (["@"; "of_type"; "$"; "TYPE"; ":"; "ident"; ","; "$"; "OPTS"; ":"; "expr"],
    ["{"; "let"; "counter"; "="; "$"; "crate"; "::"; "$"; "TYPE"; "::"; "with_opts"; "("; "$"; "OPTS"; ")"; "."; "unwrap"; "("; ")"; ";"; "$"; "crate"; "::"; "register"; "("; "Box"; "::"; "new"; "("; "counter"; "."; "clone"; "("; ")"; ")"; ")"; "."; "map"; "("; "|"; "("; ")"; "|"; "counter"; ")"; "}"]);
   (["$"; "OPTS"; ":"; "expr"; "$"; "("; ","; ")"; "?"],
    ["{"; "register_counter"; "!"; "("; "@"; "of_type"; "Counter"; ","; "$"; "OPTS"; ")"; "}"]);
   (["$"; "NAME"; ":"; "expr"; ","; "$"; "HELP"; ":"; "expr"; "$"; "("; ","; ")"; "?"],
    ["{"; "register_counter"; "!"; "("; "opts"; "!"; "("; "$"; "NAME"; ","; "$"; "HELP"; ")"; ")"; "}"])]);
 ("register_counter_with_registry", [
   (["@"; "of_type"; "$"; "TYPE"; ":"; "ident"; ","; "$"; "OPTS"; ":"; "expr"; ","; "$"; "REGISTRY"; ":"; "expr"],
    ["{"; "let"; "counter"; "="; "$"; "crate"; "::"; "$"; "TYPE"; "::"; "with_opts"; "("; "$"; "OPTS"; ")"; "."; "unwrap"; "("; ")"; ";"; "$"; "REGISTRY"; "."; "register"; "("; "Box"; "::"; "new"; "("; "counter"; "."; "clone"; "("; ")"; ")"; ")"; "."; "map"; "("; "|"; "("; ")"; "|"; "counter"; ")"; "}"]);
   (["$"; "OPTS"; ":"; "expr"; ","; "$"; "REGISTRY"; ":"; "expr"; "$"; "("; ","; ")"; "?"],
    ["{"; "register_counter_with_registry"; "!"; "("; "@"; "of_type"; "Counter"; ","; "$"; "OPTS"; ","; "$"; "REGISTRY"; ")"; "}"]);
   (["$"; "NAME"; ":"; "expr"; ","; "$"; "HELP"; ":"; "expr"; ","; "$"; "REGISTRY"; ":"; "expr"; "$"; "("; ","; ")"; "?"],
    ["{"; "register_counter_with_registry"; "!"; "("; "opts"; "!"; "("; "$"; "NAME"; ","; "$"; "HELP"; ")"; ","; "$"; "REGISTRY"; ")"; "}"])]);
 ("register_int_counter", [
   (["$"; "OPTS"; ":"; "expr"; "$"; "("; ","; ")"; "?"],
    ["{"; "register_counter"; "!"; "("; "@"; "of_type"; "IntCounter"; ","; "$"; "OPTS"; ")"; "}"]);
   (["$"; "NAME"; ":"; "expr"; ","; "$"; "HELP"; ":"; "expr"; "$"; "("; ","; ")"; "?"],
    ["{"; "register_int_counter"; "!"; "("; "opts"; "!"; "("; "$"; "NAME"; ","; "$"; "HELP"; ")"; ")"; "}"])]);
 ("register_int_counter_with_registry", [
   (["$"; "OPTS"; ":"; "expr"; ","; "$"; "REGISTRY"; ":"; "expr"; "$"; "("; ","; ")"; "?"],
    ["{"; "register_counter_with_registry"; "!"; "("; "@"; "of_type"; "IntCounter"; ","; "$"; "OPTS"; ","; "$"; "REGISTRY"; ")"; "}"]);
   (["$"; "NAME"; ":"; "expr"; ","; "$"; "HELP"; ":"; "expr"; ","; "$"; "REGISTRY"; ":"; "expr"; "$"; "("; ","; ")"; "?"],
    ["{"; "register_int_counter_with_registry"; "!"; "("; "opts"; "!"; "("; "$"; "NAME"; ","; "$"; "HELP"; ")"; ","; "$"; "REGISTRY"; ")"; "}"])]);
 ("__register_counter_vec", [
   (["$"; "TYPE"; ":"; "ident"; ","; "$"; "OPTS"; ":"; "expr"; ","; "$"; "LABELS_NAMES"; ":"; "expr"],
    ["{"; "let"; "counter_vec"; "="; "$"; "crate"; "::"; "$"; "TYPE"; "::"; "new"; "("; "$"; "OPTS"; ","; "$"; "LABELS_NAMES"; ")"; "."; "unwrap"; "("; ")"; ";"; "$"; "crate"; "::"; "register"; "("; "Box"; "::"; "new"; "("; "counter_vec"; "."; "clone"; "("; ")"; ")"; ")"; "."; "map"; "("; "|"; "("; ")"; "|"; "counter_vec"; ")"; "}"]);
   (["$"; "TYPE"; ":"; "ident"; ","; "$"; "OPTS"; ":"; "expr"; ","; "$"; "LABELS_NAMES"; ":"; "expr"; ","; "$"; "REGISTRY"; ":"; "expr"],
    ["{"; "let"; "counter_vec"; "="; "$"; "crate"; "::"; "$"; "TYPE"; "::"; "new"; "("; "$"; "OPTS"; ","; "$"; "LABELS_NAMES"; ")"; "."; "unwrap"; "("; ")"; ";"; "$"; "REGISTRY"; "."; "register"; "("; "Box"; "::"; "new"; "("; "counter_vec"; "."; "clone"; "("; ")"; ")"; ")"; "."; "map"; "("; "|"; "("; ")"; "|"; "counter_vec"; ")"; "}"])]);
 ("register_counter_vec", [
   (["$"; "OPTS"; ":"; "expr"; ","; "$"; "LABELS_NAMES"; ":"; "expr"; "$"; "("; ","; ")"; "?"],
    ["{"; "__register_counter_vec"; "!"; "("; "CounterVec"; ","; "$"; "OPTS"; ","; "$"; "LABELS_NAMES"; ")"; "}"]);
   (["$"; "NAME"; ":"; "expr"; ","; "$"; "HELP"; ":"; "expr"; ","; "$"; "LABELS_NAMES"; ":"; "expr"; "$"; "("; ","; ")"; "?"],
    ["{"; "register_counter_vec"; "!"; "("; "opts"; "!"; "("; "$"; "NAME"; ","; "$"; "HELP"; ")"; ","; "$"; "LABELS_NAMES"; ")"; "}"])]);
 ("register_counter_vec_with_registry", [
   (["$"; "OPTS"; ":"; "expr"; ","; "$"; "LABELS_NAMES"; ":"; "expr"; ","; "$"; "REGISTRY"; ":"; "expr"; "$"; "("; ","; ")"; "?"],
    ["{"; "__register_counter_vec"; "!"; "("; "CounterVec"; ","; "$"; "OPTS"; ","; "$"; "LABELS_NAMES"; ","; "$"; "REGISTRY"; ")"; "}"]);
   (["$"; "NAME"; ":"; "expr"; ","; "$"; "HELP"; ":"; "expr"; ","; "$"; "LABELS_NAMES"; ":"; "expr"; ","; "$"; "REGISTRY"; ":"; "expr"; "$"; "("; ","; ")"; "?"],
    ["{"; "register_counter_vec_with_registry"; "!"; "("; "opts"; "!"; "("; "$"; "NAME"; ","; "$"; "HELP"; ")"; ","; "$"; "LABELS_NAMES"; ","; "$"; "REGISTRY"; ")"; "}"])]);
 ("register_int_counter_vec", [
   (["$"; "OPTS"; ":"; "expr"; ","; "$"; "LABELS_NAMES"; ":"; "expr"; "$"; "("; ","; ")"; "?"],
    ["{"; "__register_counter_vec"; "!"; "("; "IntCounterVec"; ","; "$"; "OPTS"; ","; "$"; "LABELS_NAMES"; ")"; "}"]);
   (["$"; "NAME"; ":"; "expr"; ","; "$"; "HELP"; ":"; "expr"; ","; "$"; "LABELS_NAMES"; ":"; "expr"; "$"; "("; ","; ")"; "?"],
    ["{"; "register_int_counter_vec"; "!"; "("; "opts"; "!"; "("; "$"; "NAME"; ","; "$"; "HELP"; ")"; ","; "$"; "LABELS_NAMES"; ")"; "}"])]);
 ("register_int_counter_vec_with_registry", [
   (["$"; "OPTS"; ":"; "expr"; ","; "$"; "LABELS_NAMES"; ":"; "expr"; ","; "$"; "REGISTRY"; ":"; "expr"; "$"; "("; ","; ")"; "?"],
    ["{"; "__register_counter_vec"; "!"; "("; "IntCounterVec"; ","; "$"; "OPTS"; ","; "$"; "LABELS_NAMES"; ","; "$"; "REGISTRY"; ")"; "}"]);
   (["$"; "NAME"; ":"; "expr"; ","; "$"; "HELP"; ":"; "expr"; ","; "$"; "LABELS_NAMES"; ":"; "expr"; ","; "$"; "REGISTRY"; ":"; "expr"; "$"; "("; ","; ")"; "?"],
    ["{"; "register_int_counter_vec_with_registry"; "!"; "("; "opts"; "!"; "("; "$"; "NAME"; ","; "$"; "HELP"; ")"; ","; "$"; "LABELS_NAMES"; ","; "$"; "REGISTRY"; ")"; "}"])]);
 ("__register_gauge", [
   (["$"; "TYPE"; ":"; "ident"; ","; "$"; "OPTS"; ":"; "expr"],
    ["{"; "let"; "gauge"; "="; "$"; "crate"; "::"; "$"; "TYPE"; "::"; "with_opts"; "("; "$"; "OPTS"; ")"; "."; "unwrap"; "("; ")"; ";"; "$"; "crate"; "::"; "register"; "("; "Box"; "::"; "new"; "("; "gauge"; "."; "clone"; "("; ")"; ")"; ")"; "."; "map"; "("; "|"; "("; ")"; "|"; "gauge"; ")"; "}"]);
   (["$"; "TYPE"; ":"; "ident"; ","; "$"; "OPTS"; ":"; "expr"; ","; "$"; "REGISTRY"; ":"; "expr"],
    ["{"; "let"; "gauge"; "="; "$"; "crate"; "::"; "$"; "TYPE"; "::"; "with_opts"; "("; "$"; "OPTS"; ")"; "."; "unwrap"; "("; ")"; ";"; "$"; "REGISTRY"; "."; "register"; "("; "Box"; "::"; "new"; "("; "gauge"; "."; "clone"; "("; ")"; ")"; ")"; "."; "map"; "("; "|"; "("; ")"; "|"; "gauge"; ")"; "}"])]);
 ("register_gauge", [
   (["$"; "OPTS"; ":"; "expr"; "$"; "("; ","; ")"; "?"],
    ["{"; "__register_gauge"; "!"; "("; "Gauge"; ","; "$"; "OPTS"; ")"; "}"]);
   (["$"; "NAME"; ":"; "expr"; ","; "$"; "HELP"; ":"; "expr"; "$"; "("; ","; ")"; "?"],
    ["{"; "register_gauge"; "!"; "("; "opts"; "!"; "("; "$"; "NAME"; ","; "$"; "HELP"; ")"; ")"; "}"])]);
 ("register_gauge_with_registry", [
   (["$"; "OPTS"; ":"; "expr"; ","; "$"; "REGISTRY"; ":"; "expr"; "$"; "("; ","; ")"; "?"],
    ["{"; "__register_gauge"; "!"; "("; "Gauge"; ","; "$"; "OPTS"; ","; "$"; "REGISTRY"; ")"; "}"]);
   (["$"; "NAME"; ":"; "expr"; ","; "$"; "HELP"; ":"; "expr"; ","; "$"; "REGISTRY"; ":"; "expr"; "$"; "("; ","; ")"; "?"],
    ["{"; "register_gauge_with_registry"; "!"; "("; "opts"; "!"; "("; "$"; "NAME"; ","; "$"; "HELP"; ")"; ","; "$"; "REGISTRY"; ")"; "}"])]);
 ("register_int_gauge", [
   (["$"; "OPTS"; ":"; "expr"; "$"; "("; ","; ")"; "?"],
    ["{"; "__register_gauge"; "!"; "("; "IntGauge"; ","; "$"; "OPTS"; ")"; "}"]);
   (["$"; "NAME"; ":"; "expr"; ","; "$"; "HELP"; ":"; "expr"; "$"; "("; ","; ")"; "?"],
    ["{"; "register_int_gauge"; "!"; "("; "opts"; "!"; "("; "$"; "NAME"; ","; "$"; "HELP"; ")"; ")"; "}"])]);
 ("register_int_gauge_with_registry", [
   (["$"; "OPTS"; ":"; "expr"; ","; "$"; "REGISTRY"; ":"; "expr"; "$"; "("; ","; ")"; "?"],
    ["{"; "__register_gauge"; "!"; "("; "IntGauge"; ","; "$"; "OPTS"; ","; "$"; "REGISTRY"; ")"; "}"]);
   (["$"; "NAME"; ":"; "expr"; ","; "$"; "HELP"; ":"; "expr"; ","; "$"; "REGISTRY"; ":"; "expr"; "$"; "("; ","; ")"; "?"],
    ["{"; "register_int_gauge_with_registry"; "!"; "("; "opts"; "!"; "("; "$"; "NAME"; ","; "$"; "HELP"; ")"; ","; "$"; "REGISTRY"; ")"; "}"])]);
 ("__register_gauge_vec", [
   (["$"; "TYPE"; ":"; "ident"; ","; "$"; "OPTS"; ":"; "expr"; ","; "$"; "LABELS_NAMES"; ":"; "expr"; "$"; "("; ","; ")"; "?"],
    ["{"; "let"; "gauge_vec"; "="; "$"; "crate"; "::"; "$"; "TYPE"; "::"; "new"; "("; "$"; "OPTS"; ","; "$"; "LABELS_NAMES"; ")"; "."; "unwrap"; "("; ")"; ";"; "$"; "crate"; "::"; "register"; "("; "Box"; "::"; "new"; "("; "gauge_vec"; "."; "clone"; "("; ")"; ")"; ")"; "."; "map"; "("; "|"; "("; ")"; "|"; "gauge_vec"; ")"; "}"]);
   (["$"; "TYPE"; ":"; "ident"; ","; "$"; "OPTS"; ":"; "expr"; ","; "$"; "LABELS_NAMES"; ":"; "expr"; ","; "$"; "REGISTRY"; ":"; "expr"; "$"; "("; ","; ")"; "?"],
    ["{"; "let"; "gauge_vec"; "="; "$"; "crate"; "::"; "$"; "TYPE"; "::"; "new"; "("; "$"; "OPTS"; ","; "$"; "LABELS_NAMES"; ")"; "."; "unwrap"; "("; ")"; ";"; "$"; "REGISTRY"; "."; "register"; "("; "Box"; "::"; "new"; "("; "gauge_vec"; "."; "clone"; "("; ")"; ")"; ")"; "."; "map"; "("; "|"; "("; ")"; "|"; "gauge_vec"; ")"; "}"])]);
 ("register_gauge_vec", [
   (["$"; "OPTS"; ":"; "expr"; ","; "$"; "LABELS_NAMES"; ":"; "expr"; "$"; "("; ","; ")"; "?"],
    ["{"; "__register_gauge_vec"; "!"; "("; "GaugeVec"; ","; "$"; "OPTS"; ","; "$"; "LABELS_NAMES"; ")"; "}"]);
   (["$"; "NAME"; ":"; "expr"; ","; "$"; "HELP"; ":"; "expr"; ","; "$"; "LABELS_NAMES"; ":"; "expr"; "$"; "("; ","; ")"; "?"],
    ["{"; "register_gauge_vec"; "!"; "("; "opts"; "!"; "("; "$"; "NAME"; ","; "$"; "HELP"; ")"; ","; "$"; "LABELS_NAMES"; ")"; "}"])]);
 ("register_gauge_vec_with_registry", [
   (["$"; "OPTS"; ":"; "expr"; ","; "$"; "LABELS_NAMES"; ":"; "expr"; ","; "$"; "REGISTRY"; ":"; "expr"; "$"; "("; ","; ")"; "?"],
    ["{"; "__register_gauge_vec"; "!"; "("; "GaugeVec"; ","; "$"; "OPTS"; ","; "$"; "LABELS_NAMES"; ","; "$"; "REGISTRY"; ")"; "}"]);
   (["$"; "NAME"; ":"; "expr"; ","; "$"; "HELP"; ":"; "expr"; ","; "$"; "LABELS_NAMES"; ":"; "expr"; ","; "$"; "REGISTRY"; ":"; "expr"; "$"; "("; ","; ")"; "?"],
    ["{"; "register_gauge_vec_with_registry"; "!"; "("; "opts"; "!"; "("; "$"; "NAME"; ","; "$"; "HELP"; ")"; ","; "$"; "LABELS_NAMES"; ","; "$"; "REGISTRY"; ")"; "}"])]);
 ("register_int_gauge_vec", [
   (["$"; "OPTS"; ":"; "expr"; ","; "$"; "LABELS_NAMES"; ":"; "expr"; "$"; "("; ","; ")"; "?"],
    ["{"; "__register_gauge_vec"; "!"; "("; "IntGaugeVec"; ","; "$"; "OPTS"; ","; "$"; "LABELS_NAMES"; ")"; "}"]);
   (["$"; "NAME"; ":"; "expr"; ","; "$"; "HELP"; ":"; "expr"; ","; "$"; "LABELS_NAMES"; ":"; "expr"; "$"; "("; ","; ")"; "?"],
    ["{"; "register_int_gauge_vec"; "!"; "("; "opts"; "!"; "("; "$"; "NAME"; ","; "$"; "HELP"; ")"; ","; "$"; "LABELS_NAMES"; ")"; "}"])]);
 ("register_int_gauge_vec_with_registry", [
   (["$"; "OPTS"; ":"; "expr"; ","; "$"; "LABELS_NAMES"; ":"; "expr"; ","; "$"; "REGISTRY"; ":"; "expr"; "$"; "("; ","; ")"; "?"],
    ["{"; "__register_gauge_vec"; "!"; "("; "IntGaugeVec"; ","; "$"; "OPTS"; ","; "$"; "LABELS_NAMES"; ","; "$"; "REGISTRY"; ")"; "}"]);
   (["$"; "NAME"; ":"; "expr"; ","; "$"; "HELP"; ":"; "expr"; ","; "$"; "LABELS_NAMES"; ":"; "expr"; ","; "$"; "REGISTRY"; ":"; "expr"; "$"; "("; ","; ")"; "?"],
    ["{"; "register_int_gauge_vec_with_registry"; "!"; "("; "opts"; "!"; "("; "$"; "NAME"; ","; "$"; "HELP"; ")"; ","; "$"; "LABELS_NAMES"; ","; "$"; "REGISTRY"; ")"; "}"])]);
 ("register_histogram", [
   (["$"; "NAME"; ":"; "expr"; ","; "$"; "HELP"; ":"; "expr"; "$"; "("; ","; ")"; "?"],
    ["register_histogram"; "!"; "("; "histogram_opts"; "!"; "("; "$"; "NAME"; ","; "$"; "HELP"; ")"; ")"]);
   (["$"; "NAME"; ":"; "expr"; ","; "$"; "HELP"; ":"; "expr"; ","; "$"; "BUCKETS"; ":"; "expr"; "$"; "("; ","; ")"; "?"],
    ["register_histogram"; "!"; "("; "histogram_opts"; "!"; "("; "$"; "NAME"; ","; "$"; "HELP"; ","; "$"; "BUCKETS"; ")"; ")"]);
   (["$"; "HOPTS"; ":"; "expr"; "$"; "("; ","; ")"; "?"],
    ["{"; "let"; "histogram"; "="; "$"; "crate"; "::"; "Histogram"; "::"; "with_opts"; "("; "$"; "HOPTS"; ")"; "."; "unwrap"; "("; ")"; ";"; "$"; "crate"; "::"; "register"; "("; "Box"; "::"; "new"; "("; "histogram"; "."; "clone"; "("; ")"; ")"; ")"; "."; "map"; "("; "|"; "("; ")"; "|"; "histogram"; ")"; "}"])]);
 ("register_histogram_with_registry", [
   (["$"; "NAME"; ":"; "expr"; ","; "$"; "HELP"; ":"; "expr"; ","; "$"; "REGISTRY"; ":"; "expr"; "$"; "("; ","; ")"; "?"],
    ["register_histogram_with_registry"; "!"; "("; "histogram_opts"; "!"; "("; "$"; "NAME"; ","; "$"; "HELP"; ")"; ","; "$"; "REGISTRY"; ")"]);
   (["$"; "NAME"; ":"; "expr"; ","; "$"; "HELP"; ":"; "expr"; ","; "$"; "BUCKETS"; ":"; "expr"; ","; "$"; "REGISTRY"; ":"; "expr"; "$"; "("; ","; ")"; "?"],
    ["register_histogram_with_registry"; "!"; "("; "histogram_opts"; "!"; "("; "$"; "NAME"; ","; "$"; "HELP"; ","; "$"; "BUCKETS"; ")"; ","; "$"; "REGISTRY"; ")"]);
   (["$"; "HOPTS"; ":"; "expr"; ","; "$"; "REGISTRY"; ":"; "expr"; "$"; "("; ","; ")"; "?"],
    ["{"; "let"; "histogram"; "="; "$"; "crate"; "::"; "Histogram"; "::"; "with_opts"; "("; "$"; "HOPTS"; ")"; "."; "unwrap"; "("; ")"; ";"; "$"; "REGISTRY"; "."; "register"; "("; "Box"; "::"; "new"; "("; "histogram"; "."; "clone"; "("; ")"; ")"; ")"; "."; "map"; "("; "|"; "("; ")"; "|"; "histogram"; ")"; "}"])]);
 ("register_histogram_vec", [
   (["$"; "HOPTS"; ":"; "expr"; ","; "$"; "LABELS_NAMES"; ":"; "expr"; "$"; "("; ","; ")"; "?"],
    ["{"; "let"; "histogram_vec"; "="; "$"; "crate"; "::"; "HistogramVec"; "::"; "new"; "("; "$"; "HOPTS"; ","; "$"; "LABELS_NAMES"; ")"; "."; "unwrap"; "("; ")"; ";"; "$"; "crate"; "::"; "register"; "("; "Box"; "::"; "new"; "("; "histogram_vec"; "."; "clone"; "("; ")"; ")"; ")"; "."; "map"; "("; "|"; "("; ")"; "|"; "histogram_vec"; ")"; "}"]);
   (["$"; "NAME"; ":"; "expr"; ","; "$"; "HELP"; ":"; "expr"; ","; "$"; "LABELS_NAMES"; ":"; "expr"; "$"; "("; ","; ")"; "?"],
    ["{"; "register_histogram_vec"; "!"; "("; "histogram_opts"; "!"; "("; "$"; "NAME"; ","; "$"; "HELP"; ")"; ","; "$"; "LABELS_NAMES"; ")"; "}"]);
   (["$"; "NAME"; ":"; "expr"; ","; "$"; "HELP"; ":"; "expr"; ","; "$"; "LABELS_NAMES"; ":"; "expr"; ","; "$"; "BUCKETS"; ":"; "expr"; "$"; "("; ","; ")"; "?"],
    ["{"; "register_histogram_vec"; "!"; "("; "histogram_opts"; "!"; "("; "$"; "NAME"; ","; "$"; "HELP"; ","; "$"; "BUCKETS"; ")"; ","; "$"; "LABELS_NAMES"; ")"; "}"])]);
 ("register_histogram_vec_with_registry", [
   (["$"; "HOPTS"; ":"; "expr"; ","; "$"; "LABELS_NAMES"; ":"; "expr"; ","; "$"; "REGISTRY"; ":"; "expr"; "$"; "("; ","; ")"; "?"],
    ["{"; "let"; "histogram_vec"; "="; "$"; "crate"; "::"; "HistogramVec"; "::"; "new"; "("; "$"; "HOPTS"; ","; "$"; "LABELS_NAMES"; ")"; "."; "unwrap"; "("; ")"; ";"; "$"; "REGISTRY"; "."; "register"; "("; "Box"; "::"; "new"; "("; "histogram_vec"; "."; "clone"; "("; ")"; ")"; ")"; "."; "map"; "("; "|"; "("; ")"; "|"; "histogram_vec"; ")"; "}"]);
   (["$"; "NAME"; ":"; "expr"; ","; "$"; "HELP"; ":"; "expr"; ","; "$"; "LABELS_NAMES"; ":"; "expr"; ","; "$"; "REGISTRY"; ":"; "expr"; "$"; "("; ","; ")"; "?"],
    ["{"; "register_histogram_vec_with_registry"; "!"; "("; "histogram_opts"; "!"; "("; "$"; "NAME"; ","; "$"; "HELP"; ")"; ","; "$"; "LABELS_NAMES"; ","; "$"; "REGISTRY"; ")"; "}"]);
   (["$"; "NAME"; ":"; "expr"; ","; "$"; "HELP"; ":"; "expr"; ","; "$"; "LABELS_NAMES"; ":"; "expr"; ","; "$"; "BUCKETS"; ":"; "expr"; ","; "$"; "REGISTRY"; ":"; "expr"; "$"; "("; ","; ")"; "?"],
    ["{"; "register_histogram_vec_with_registry"; "!"; "("; "histogram_opts"; "!"; "("; "$"; "NAME"; ","; "$"; "HELP"; ","; "$"; "BUCKETS"; ")"; ","; "$"; "LABELS_NAMES"; ","; "$"; "REGISTRY"; ")"; "}"])])
].
