(* The concurrent histogram (src/histogram.rs: HistogramCore::observe, LocalHistogramCore::flush, HistogramCore::proto)
   as an interleaving semantics over any number of threads: one rule per atomic operation.
   Ghost state: the list of observation records in ticket (claim) order, K = number of records
   that existed at the latest flip, the snapshots returned so far.  Values live in Z: with
   several threads the order of float additions is schedule dependent, the bit-exact
   order-sensitive statement is C08's; the harness uses integer-valued observations so that the
   binary64 sums of the implementation are exact and coincide with the Z sums.
   The two orderings the algorithm depends on are parameters: with a publish that is not a
   release the count hand-off may overtake the bucket / sum updates, with a wait that is not
   an acquire the collector's reads may be satisfied before the counts match. *)
From Coq Require Import List ZArith Lia Bool Arith.
Import ListNotations.
Open Scope Z_scope.

Definition tid := nat.

(* cells: 0 = sum, S j = bucket j *)
Definition cellmap := nat -> Z.
Definition cupd (m : cellmap) (c : nat) (v : Z) : cellmap :=
  fun x => if Nat.eqb x c then v else m x.

Record shard := { cnt : Z; cells : cellmap }.

(* a write of an observation: cell, delta, done? *)
Record wr := { w_cell : nat; w_d : Z; w_done : bool }.

Record rec := { r_cnt : Z; r_ws : list wr; r_pub : bool; r_tgt : bool }.

Definition wr_applied (c : nat) (w : wr) : Z :=
  if w_done w && Nat.eqb (w_cell w) c then w_d w else 0.
Definition wr_full (c : nat) (w : wr) : Z :=
  if Nat.eqb (w_cell w) c then w_d w else 0.

Fixpoint sumf {A} (f : A -> Z) (l : list A) : Z :=
  match l with [] => 0 | x :: t => f x + sumf f t end.

Definition applied (c : nat) (r : rec) : Z := sumf (wr_applied c) (r_ws r).
Definition full (c : nat) (r : rec) : Z := sumf (wr_full c) (r_ws r).
Definition pubcnt (r : rec) : Z := if r_pub r then r_cnt r else 0.
Definition all_done (r : rec) : bool := forallb w_done (r_ws r).

Inductive stage := InCold | InFlight | InHot.

(* collector program counter (after taking the lock) *)
Inductive cpc :=
| CFlip
| CWait (N : Z)
| CSwapSum (N : Z)
| CBucket (N sumv : Z) (j : nat) (bs : list Z)      (* about to swap bucket j; bs = values swapped so far (reversed) *)
| CBucketAdd (N sumv : Z) (j : nat) (v : Z) (bs : list Z)
| CAddCnt (N sumv : Z) (bs : list Z)
| CAddSum (N sumv : Z) (bs : list Z)
| CUnlock (N sumv : Z) (bs : list Z).

Inductive tstate :=
| Idle
| OClaim (c : Z) (ws : list (nat * Z))
| OWork (i : nat)
| CLockWait
| CIn (p : cpc).

(* the orderings that matter for the count hand-off *)
Record ords := { pub_release : bool;      (* the publishing fetch_add of observe / flush is a release *)
                 wait_acquire : bool }.   (* the successful compare-exchange of the wait loop is an acquire *)
Definition sufficient_orderings (o : ords) : bool := pub_release o && wait_acquire o.

Section Hist.
Variable B : nat.  (* number of buckets *)
Variable Od : ords.

Record st := {
  n : Z; hot : bool; sh : bool -> shard; lock : option tid;
  recs : list rec; K : nat; thr : tid -> tstate;
  snaps : list (nat * (Z * Z * list Z))   (* ghost: K at return, returned (count,sum,buckets) *)
}.

Definition set_thr (s : st) (t : tid) (x : tstate) : tid -> tstate :=
  fun u => if Nat.eqb u t then x else thr s u.
Definition set_sh (s : st) (b : bool) (x : shard) : bool -> shard :=
  fun u => if Bool.eqb u b then x else sh s u.

Definition cstage_cnt (p : cpc) : stage :=
  match p with
  | CFlip | CWait _ => InCold
  | CSwapSum _ | CBucket _ _ _ _ | CBucketAdd _ _ _ _ _ | CAddCnt _ _ _ => InFlight
  | CAddSum _ _ _ | CUnlock _ _ _ => InHot
  end.
Definition cstage_cell (p : cpc) (c : nat) : stage :=
  match p with
  | CFlip | CWait _ | CSwapSum _ => InCold
  | CBucket _ _ j _ => match c with O => InFlight | S i => if (i <? j)%nat then InHot else InCold end
  | CBucketAdd _ _ j _ _ => match c with O => InFlight | S i => if (i <? j)%nat then InHot else if (i =? j)%nat then InFlight else InCold end
  | CAddCnt _ _ _ | CAddSum _ _ _ => match c with O => InFlight | S i => InHot end
  | CUnlock _ _ _ => InHot
  end.

Fixpoint set_nth {A} (i : nat) (x : A) (l : list A) : list A :=
  match l, i with
  | [], _ => []
  | _ :: t, O => x :: t
  | h :: t, S i' => h :: set_nth i' x t
  end.

Definition add_cell (s : shard) (c : nat) (d : Z) : shard :=
  {| cnt := cnt s; cells := cupd (cells s) c (cells s c + d) |}.
Definition set_cell (s : shard) (c : nat) (v : Z) : shard :=
  {| cnt := cnt s; cells := cupd (cells s) c v |}.
Definition add_cnt (s : shard) (d : Z) : shard := {| cnt := cnt s + d; cells := cells s |}.
Definition set_cnt (s : shard) (v : Z) : shard := {| cnt := v; cells := cells s |}.

Definition mk (s : st) n' hot' sh' lock' recs' K' thr' snaps' : st :=
  {| n := n'; hot := hot'; sh := sh'; lock := lock'; recs := recs'; K := K'; thr := thr'; snaps := snaps' |}.

Inductive step : st -> st -> Prop :=
| S_invoke_obs s t c ws :
    thr s t = Idle -> 1 <= c ->
    step s (mk s (n s) (hot s) (sh s) (lock s) (recs s) (K s) (set_thr s t (OClaim c ws)) (snaps s))
| S_claim s t c ws :
    thr s t = OClaim c ws -> 1 <= c -> Forall (fun p => (fst p <= B)%nat) ws ->
    step s (mk s (n s + c) (hot s) (sh s) (lock s)
               (recs s ++ [{| r_cnt := c; r_ws := map (fun p => {| w_cell := fst p; w_d := snd p; w_done := false |}) ws;
                              r_pub := false; r_tgt := hot s |}])
               (K s) (set_thr s t (OWork (length (recs s)))) (snaps s))
| S_write s t i r k w :
    thr s t = OWork i -> nth_error (recs s) i = Some r -> r_pub r = false ->
    nth_error (r_ws r) k = Some w -> w_done w = false ->
    step s (mk s (n s) (hot s)
               (set_sh s (r_tgt r) (add_cell (sh s (r_tgt r)) (w_cell w) (w_d w)))
               (lock s)
               (set_nth i {| r_cnt := r_cnt r; r_ws := set_nth k {| w_cell := w_cell w; w_d := w_d w; w_done := true |} (r_ws r);
                             r_pub := false; r_tgt := r_tgt r |} (recs s))
               (K s) (thr s) (snaps s))
| S_publish s t i r :
    thr s t = OWork i -> nth_error (recs s) i = Some r -> r_pub r = false ->
    (all_done r = true \/ pub_release Od = false) ->      (* publish is a release: enabled only after all writes *)
    step s (mk s (n s) (hot s)
               (set_sh s (r_tgt r) (add_cnt (sh s (r_tgt r)) (r_cnt r)))
               (lock s)
               (set_nth i {| r_cnt := r_cnt r; r_ws := r_ws r; r_pub := true; r_tgt := r_tgt r |} (recs s))
               (K s) (set_thr s t Idle) (snaps s))
| S_invoke_collect s t :
    thr s t = Idle ->
    step s (mk s (n s) (hot s) (sh s) (lock s) (recs s) (K s) (set_thr s t CLockWait) (snaps s))
| S_lock s t :
    thr s t = CLockWait -> lock s = None ->
    step s (mk s (n s) (hot s) (sh s) (Some t) (recs s) (K s) (set_thr s t (CIn CFlip)) (snaps s))
| S_flip s t :
    thr s t = CIn CFlip ->
    step s (mk s (n s) (negb (hot s)) (sh s) (lock s) (recs s) (length (recs s)) (set_thr s t (CIn (CWait (n s)))) (snaps s))
| S_wait_ok s t N :
    thr s t = CIn (CWait N) -> (cnt (sh s (negb (hot s))) = N \/ wait_acquire Od = false) ->
    step s (mk s (n s) (hot s) (set_sh s (negb (hot s)) (set_cnt (sh s (negb (hot s))) 0)) (lock s) (recs s) (K s)
               (set_thr s t (CIn (CSwapSum N))) (snaps s))
| S_wait_fail s t N :   (* spurious or real failure: stutter *)
    thr s t = CIn (CWait N) -> step s s
| S_swapsum s t N :
    thr s t = CIn (CSwapSum N) ->
    step s (mk s (n s) (hot s) (set_sh s (negb (hot s)) (set_cell (sh s (negb (hot s))) O 0)) (lock s) (recs s) (K s)
               (set_thr s t (CIn (if (0 <? B)%nat then CBucket N (cells (sh s (negb (hot s))) O) O [] else CAddCnt N (cells (sh s (negb (hot s))) O) []))) (snaps s))
| S_bswap s t N sumv j bs :
    thr s t = CIn (CBucket N sumv j bs) ->
    step s (mk s (n s) (hot s) (set_sh s (negb (hot s)) (set_cell (sh s (negb (hot s))) (S j) 0)) (lock s) (recs s) (K s)
               (set_thr s t (CIn (CBucketAdd N sumv j (cells (sh s (negb (hot s))) (S j)) bs))) (snaps s))
| S_badd s t N sumv j v bs :
    thr s t = CIn (CBucketAdd N sumv j v bs) ->
    step s (mk s (n s) (hot s) (set_sh s (hot s) (add_cell (sh s (hot s)) (S j) v)) (lock s) (recs s) (K s)
               (set_thr s t (CIn (if (S j <? B)%nat then CBucket N sumv (S j) (v :: bs) else CAddCnt N sumv (v :: bs)))) (snaps s))
| S_addcnt s t N sumv bs :
    thr s t = CIn (CAddCnt N sumv bs) ->
    step s (mk s (n s) (hot s) (set_sh s (hot s) (add_cnt (sh s (hot s)) N)) (lock s) (recs s) (K s)
               (set_thr s t (CIn (CAddSum N sumv bs))) (snaps s))
| S_addsum s t N sumv bs :
    thr s t = CIn (CAddSum N sumv bs) ->
    step s (mk s (n s) (hot s) (set_sh s (hot s) (add_cell (sh s (hot s)) O sumv)) (lock s) (recs s) (K s)
               (set_thr s t (CIn (CUnlock N sumv bs))) (snaps s))
| S_unlock s t N sumv bs :
    thr s t = CIn (CUnlock N sumv bs) ->
    step s (mk s (n s) (hot s) (sh s) None (recs s) O (set_thr s t Idle)
               ((K s, (N, sumv, rev bs)) :: snaps s)).

End Hist.
