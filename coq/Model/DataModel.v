(* The data-model interface of the library (definitions only).

   `pub mod proto` (src/lib.rs) is EITHER the generated proto/proto_model.rs + src/proto_ext.rs
   (feature `protobuf`, default) OR the hand-written src/plain_model.rs (--no-default-features).
   Everything else in the crate (value.rs, histogram.rs, vec.rs, pulling_gauge.rs, desc.rs,
   registry.rs, encoder/mod.rs, encoder/text.rs) is ONE source text compiled against either
   module, so it can only use the methods both modules offer.  This file models

     1. that common accessor interface as a record of operations over abstract types  [DM];
     2. three instances:
          [plain]  src/plain_model.rs: records with plain fields, `#[derive(Default)]`;
          [pb]     proto/proto_model.rs + src/proto_ext.rs (rust-protobuf 3.7): every singular
                   scalar field is an `Option`, every singular message field a `MessageField`
                   (an `Option<Box<_>>` whose `Deref` yields the default instance when unset),
                   the enum field an `Option<EnumOrUnknown<_>>` (an i32), repeated fields `Vec`;
                   getters return the proto2 defaults 0 / "" / COUNTER / default instance;
          [wm]     the data model of the sequential world model (Model/Proto.v), i.e. what the
                   harness prints for the protobuf build: message fields and the timestamp keep
                   their presence, scalars are plain;
     3. the code that uses the interface, written ONCE for an arbitrary instance:
          label pairs (desc.rs, value.rs make_label_pairs), Value::metric / collect (value.rs),
          HistogramCore::proto / Histogram::metric / collect (histogram.rs), MetricVecCore::collect
          (vec.rs), PullingGauge (pulling_gauge.rs), a custom collector that drives the public
          setters (harness/src/build.rs), RegistryCore::gather (registry.rs), check_metric_family
          and TextEncoder (encoder/mod.rs, encoder/text.rs).

   Conventions: a `&mut self` method is a function returning the new object; `take_x` returns the
   taken value and the object left behind; `mut_metric()` (a `&mut Vec<Metric>` into the object)
   is the update of that field by a function.  Methods that exist in only one of the two modules
   (has_*, clear_*, mut_name, take_name, mut_label, ...) cannot be called by the shared code and
   are not part of the interface. *)
Require Import PV.Base.Prelude PV.Base.F64 PV.Base.Utf8.
Require Import PV.Model.Proto PV.Model.Desc PV.Model.Value PV.Model.Registry PV.Model.Text.
Open Scope N_scope.

(* ====================================================================================== *)
(* 1. The interface                                                                        *)
(* ====================================================================================== *)
Record DM : Type := mkDM {
  tLP : Type; tG : Type; tC : Type; tU : Type; tQ : Type; tS : Type; tB : Type; tH : Type; tM : Type; tMF : Type;
  (* LabelPair: desc.rs, value.rs, registry.rs (writers); registry.rs, text.rs, metrics.rs Ord (readers) *)
  LP_default : tLP;
  LP_set_name : tLP -> str -> tLP;
  LP_set_value : tLP -> str -> tLP;
  LP_name : tLP -> str;
  LP_value : tLP -> str;
  (* Gauge: value.rs, pulling_gauge.rs; text.rs *)
  G_default : tG;
  G_set_value : tG -> f64 -> tG;
  G_value : tG -> f64;                       (* get_value(): plain method / MessageFieldExt *)
  (* Counter: value.rs; text.rs *)
  C_default : tC;
  C_set_value : tC -> f64 -> tC;
  C_value : tC -> f64;
  (* Untyped: never touched by the library; user code / the harness can set and read it *)
  U_default : tU;
  U_set_value : tU -> f64 -> tU;
  U_value : tU -> f64;
  (* Quantile: written by user code only; read by text.rs *)
  Q_default : tQ;
  Q_set_quantile : tQ -> f64 -> tQ;
  Q_set_value : tQ -> f64 -> tQ;
  Q_quantile : tQ -> f64;
  Q_value : tQ -> f64;
  (* Summary: written by user code only; read by text.rs *)
  S_default : tS;
  S_set_sample_count : tS -> N -> tS;
  S_set_sample_sum : tS -> f64 -> tS;
  S_set_quantile : tS -> list tQ -> tS;
  S_sample_count : tS -> N;
  S_sample_sum : tS -> f64;
  S_get_quantile : tS -> list tQ;
  (* Bucket: histogram.rs; text.rs *)
  B_default : tB;
  B_set_cumulative_count : tB -> N -> tB;
  B_set_upper_bound : tB -> f64 -> tB;
  B_cumulative_count : tB -> N;
  B_upper_bound : tB -> f64;
  (* Histogram: histogram.rs; text.rs *)
  H_default : tH;
  H_set_sample_count : tH -> N -> tH;
  H_set_sample_sum : tH -> f64 -> tH;
  H_set_bucket : tH -> list tB -> tH;
  H_get_sample_count : tH -> N;
  H_get_sample_sum : tH -> f64;
  H_get_bucket : tH -> list tB;
  (* Metric *)
  M_default : tM;
  M_from_label : list tLP -> tM;             (* value.rs, histogram.rs *)
  M_from_gauge : tG -> tM;                   (* pulling_gauge.rs *)
  M_set_label : tM -> list tLP -> tM;        (* registry.rs *)
  M_take_label : tM -> list tLP * tM;        (* registry.rs *)
  M_get_label : tM -> list tLP;              (* registry.rs, text.rs *)
  M_set_gauge : tM -> tG -> tM;              (* value.rs *)
  M_get_gauge : tM -> tG;                    (* text.rs *)
  M_set_counter : tM -> tC -> tM;            (* value.rs *)
  M_get_counter : tM -> tC;                  (* text.rs *)
  M_set_summary : tM -> tS -> tM;            (* user code *)
  M_get_summary : tM -> tS;                  (* text.rs *)
  M_set_untyped : tM -> tU -> tM;            (* user code (plain: set_untyped; pb: the public field) *)
  M_get_untyped : tM -> tU;                  (* harness printer only *)
  M_set_histogram : tM -> tH -> tM;          (* histogram.rs *)
  M_get_histogram : tM -> tH;                (* text.rs *)
  M_set_timestamp_ms : tM -> Z -> tM;        (* user code; the library never sets it *)
  M_timestamp_ms : tM -> Z;                  (* registry.rs (sort), text.rs *)
  (* MetricFamily *)
  MF_default : tMF;
  MF_set_name : tMF -> str -> tMF;           (* value.rs, histogram.rs, vec.rs, pulling_gauge.rs, registry.rs *)
  MF_name : tMF -> str;                      (* registry.rs, encoder/mod.rs, text.rs *)
  MF_set_help : tMF -> str -> tMF;
  MF_help : tMF -> str;                      (* text.rs *)
  MF_set_field_type : tMF -> MetricType -> tMF;
  MF_get_field_type : tMF -> MetricType;     (* text.rs *)
  MF_set_metric : tMF -> list tM -> tMF;
  MF_get_metric : tMF -> list tM;            (* registry.rs, encoder/mod.rs, text.rs *)
  MF_mut_metric : tMF -> (list tM -> list tM) -> tMF;   (* registry.rs: push, sort_by, iter_mut *)
  MF_take_metric : tMF -> list tM * tMF      (* registry.rs *)
}.

(* ====================================================================================== *)
(* 2a. Instance [plain]: src/plain_model.rs                                                *)
(* ====================================================================================== *)
Record plLP := mkPlLP { pl_lp_name : str; pl_lp_value : str }.
Record plG := mkPlG { pl_g_value : f64 }.
Record plC := mkPlC { pl_c_value : f64 }.
Record plU := mkPlU { pl_u_value : f64 }.
Record plQ := mkPlQ { pl_q_quantile : f64; pl_q_value : f64 }.
Record plS := mkPlS { pl_s_count : N; pl_s_sum : f64; pl_s_quantile : list plQ }.
Record plB := mkPlB { pl_b_cum : N; pl_b_upper : f64 }.
Record plH := mkPlH { pl_h_count : N; pl_h_sum : f64; pl_h_bucket : list plB }.
Record plM := mkPlM {
  pl_m_label : list plLP; pl_m_gauge : plG; pl_m_counter : plC; pl_m_summary : plS;
  pl_m_untyped : plU; pl_m_histogram : plH; pl_m_ts : Z }.
Record plMF := mkPlMF { pl_mf_name : str; pl_mf_help : str; pl_mf_type : MetricType; pl_mf_metric : list plM }.

(* #[derive(Default)]: String::new(), 0.0, 0, Vec::new(); `impl Default for MetricType` = COUNTER *)
Definition pl_lp0 : plLP := mkPlLP [] [].
Definition pl_g0 : plG := mkPlG f_zero.
Definition pl_c0 : plC := mkPlC f_zero.
Definition pl_u0 : plU := mkPlU f_zero.
Definition pl_q0 : plQ := mkPlQ f_zero f_zero.
Definition pl_s0 : plS := mkPlS 0 f_zero [].
Definition pl_b0 : plB := mkPlB 0 f_zero.
Definition pl_h0 : plH := mkPlH 0 f_zero [].
Definition pl_m0 : plM := mkPlM [] pl_g0 pl_c0 pl_s0 pl_u0 pl_h0 0%Z.
Definition pl_mf0 : plMF := mkPlMF [] [] COUNTER [].

Definition plain : DM := {|
  tLP := plLP; tG := plG; tC := plC; tU := plU; tQ := plQ; tS := plS; tB := plB; tH := plH; tM := plM; tMF := plMF;
  LP_default := pl_lp0;
  LP_set_name := fun l v => mkPlLP v (pl_lp_value l);
  LP_set_value := fun l v => mkPlLP (pl_lp_name l) v;
  LP_name := pl_lp_name;
  LP_value := pl_lp_value;
  G_default := pl_g0; G_set_value := fun _ v => mkPlG v; G_value := pl_g_value;
  C_default := pl_c0; C_set_value := fun _ v => mkPlC v; C_value := pl_c_value;
  U_default := pl_u0; U_set_value := fun _ v => mkPlU v; U_value := pl_u_value;
  Q_default := pl_q0;
  Q_set_quantile := fun q v => mkPlQ v (pl_q_value q);
  Q_set_value := fun q v => mkPlQ (pl_q_quantile q) v;
  Q_quantile := pl_q_quantile;
  Q_value := pl_q_value;
  S_default := pl_s0;
  S_set_sample_count := fun s v => mkPlS v (pl_s_sum s) (pl_s_quantile s);
  S_set_sample_sum := fun s v => mkPlS (pl_s_count s) v (pl_s_quantile s);
  S_set_quantile := fun s v => mkPlS (pl_s_count s) (pl_s_sum s) v;
  S_sample_count := pl_s_count;
  S_sample_sum := pl_s_sum;
  S_get_quantile := pl_s_quantile;
  B_default := pl_b0;
  B_set_cumulative_count := fun b v => mkPlB v (pl_b_upper b);
  B_set_upper_bound := fun b v => mkPlB (pl_b_cum b) v;
  B_cumulative_count := pl_b_cum;
  B_upper_bound := pl_b_upper;
  H_default := pl_h0;
  H_set_sample_count := fun h v => mkPlH v (pl_h_sum h) (pl_h_bucket h);
  H_set_sample_sum := fun h v => mkPlH (pl_h_count h) v (pl_h_bucket h);
  H_set_bucket := fun h v => mkPlH (pl_h_count h) (pl_h_sum h) v;
  H_get_sample_count := pl_h_count;
  H_get_sample_sum := pl_h_sum;
  H_get_bucket := pl_h_bucket;
  M_default := pl_m0;
  (* Metric { label, ..Default::default() } *)
  M_from_label := fun ls => mkPlM ls pl_g0 pl_c0 pl_s0 pl_u0 pl_h0 0%Z;
  (* Metric { gauge: gauge.into(), ..Default::default() } *)
  M_from_gauge := fun g => mkPlM [] g pl_c0 pl_s0 pl_u0 pl_h0 0%Z;
  M_set_label := fun m v => mkPlM v (pl_m_gauge m) (pl_m_counter m) (pl_m_summary m) (pl_m_untyped m) (pl_m_histogram m) (pl_m_ts m);
  (* mem::replace(&mut self.label, Vec::new()) *)
  M_take_label := fun m => (pl_m_label m,
                            mkPlM [] (pl_m_gauge m) (pl_m_counter m) (pl_m_summary m) (pl_m_untyped m) (pl_m_histogram m) (pl_m_ts m));
  M_get_label := pl_m_label;
  M_set_gauge := fun m v => mkPlM (pl_m_label m) v (pl_m_counter m) (pl_m_summary m) (pl_m_untyped m) (pl_m_histogram m) (pl_m_ts m);
  M_get_gauge := pl_m_gauge;
  M_set_counter := fun m v => mkPlM (pl_m_label m) (pl_m_gauge m) v (pl_m_summary m) (pl_m_untyped m) (pl_m_histogram m) (pl_m_ts m);
  M_get_counter := pl_m_counter;
  M_set_summary := fun m v => mkPlM (pl_m_label m) (pl_m_gauge m) (pl_m_counter m) v (pl_m_untyped m) (pl_m_histogram m) (pl_m_ts m);
  M_get_summary := pl_m_summary;
  M_set_untyped := fun m v => mkPlM (pl_m_label m) (pl_m_gauge m) (pl_m_counter m) (pl_m_summary m) v (pl_m_histogram m) (pl_m_ts m);
  M_get_untyped := pl_m_untyped;
  M_set_histogram := fun m v => mkPlM (pl_m_label m) (pl_m_gauge m) (pl_m_counter m) (pl_m_summary m) (pl_m_untyped m) v (pl_m_ts m);
  M_get_histogram := pl_m_histogram;
  M_set_timestamp_ms := fun m v => mkPlM (pl_m_label m) (pl_m_gauge m) (pl_m_counter m) (pl_m_summary m) (pl_m_untyped m) (pl_m_histogram m) v;
  M_timestamp_ms := pl_m_ts;
  MF_default := pl_mf0;
  MF_set_name := fun f v => mkPlMF v (pl_mf_help f) (pl_mf_type f) (pl_mf_metric f);
  MF_name := pl_mf_name;
  MF_set_help := fun f v => mkPlMF (pl_mf_name f) v (pl_mf_type f) (pl_mf_metric f);
  MF_help := pl_mf_help;
  MF_set_field_type := fun f v => mkPlMF (pl_mf_name f) (pl_mf_help f) v (pl_mf_metric f);
  MF_get_field_type := pl_mf_type;
  MF_set_metric := fun f v => mkPlMF (pl_mf_name f) (pl_mf_help f) (pl_mf_type f) v;
  MF_get_metric := pl_mf_metric;
  MF_mut_metric := fun f g => mkPlMF (pl_mf_name f) (pl_mf_help f) (pl_mf_type f) (g (pl_mf_metric f));
  MF_take_metric := fun f => (pl_mf_metric f, mkPlMF (pl_mf_name f) (pl_mf_help f) (pl_mf_type f) [])
|}.

(* ====================================================================================== *)
(* 2b. Instance [pb]: proto/proto_model.rs + src/proto_ext.rs                              *)
(* ====================================================================================== *)
Record pbLP := mkPbLP { pb_lp_name : option str; pb_lp_value : option str }.
Record pbG := mkPbG { pb_g_value : option f64 }.
Record pbC := mkPbC { pb_c_value : option f64 }.
Record pbU := mkPbU { pb_u_value : option f64 }.
Record pbQ := mkPbQ { pb_q_quantile : option f64; pb_q_value : option f64 }.
Record pbS := mkPbS { pb_s_count : option N; pb_s_sum : option f64; pb_s_quantile : list pbQ }.
Record pbB := mkPbB { pb_b_cum : option N; pb_b_upper : option f64 }.
Record pbH := mkPbH { pb_h_count : option N; pb_h_sum : option f64; pb_h_bucket : list pbB }.
Record pbM := mkPbM {
  pb_m_label : list pbLP;
  pb_m_gauge : option pbG;             (* MessageField<Gauge> *)
  pb_m_counter : option pbC;
  pb_m_summary : option pbS;
  pb_m_untyped : option pbU;
  pb_m_histogram : option pbH;
  pb_m_ts : option Z }.
(* type_: Option<EnumOrUnknown<MetricType>>; EnumOrUnknown is the i32 value *)
Record pbMF := mkPbMF { pb_mf_name : option str; pb_mf_help : option str; pb_mf_type : option Z; pb_mf_metric : list pbM }.

Definition odef {A} (d : A) (o : option A) : A := match o with Some v => v | None => d end.

(* `impl Enum for MetricType`: value() = the discriminant, from_i32 = the generated table *)
Definition mtype_i32 (t : MetricType) : Z :=
  match t with COUNTER => 0 | GAUGE => 1 | SUMMARY => 2 | UNTYPED => 3 | HISTOGRAM => 4 end%Z.
Definition mtype_from_i32 (z : Z) : option MetricType :=
  match z with
  | 0 => Some COUNTER | 1 => Some GAUGE | 2 => Some SUMMARY | 3 => Some UNTYPED | 4 => Some HISTOGRAM
  | _ => None
  end%Z.

(* #[derive(Default)] on the generated structs: every Option None, MessageField::none(), Vec::new() *)
Definition pb_lp0 : pbLP := mkPbLP None None.
Definition pb_g0 : pbG := mkPbG None.
Definition pb_c0 : pbC := mkPbC None.
Definition pb_u0 : pbU := mkPbU None.
Definition pb_q0 : pbQ := mkPbQ None None.
Definition pb_s0 : pbS := mkPbS None None [].
Definition pb_b0 : pbB := mkPbB None None.
Definition pb_h0 : pbH := mkPbH None None [].
Definition pb_m0 : pbM := mkPbM [] None None None None None None.
Definition pb_mf0 : pbMF := mkPbMF None None None [].

Definition pb : DM := {|
  tLP := pbLP; tG := pbG; tC := pbC; tU := pbU; tQ := pbQ; tS := pbS; tB := pbB; tH := pbH; tM := pbM; tMF := pbMF;
  LP_default := pb_lp0;
  LP_set_name := fun l v => mkPbLP (Some v) (pb_lp_value l);
  LP_set_value := fun l v => mkPbLP (pb_lp_name l) (Some v);
  (* match self.name.as_ref() { Some(v) => v, None => "" } *)
  LP_name := fun l => odef [] (pb_lp_name l);
  LP_value := fun l => odef [] (pb_lp_value l);
  G_default := pb_g0; G_set_value := fun _ v => mkPbG (Some v);
  G_value := fun g => odef f_zero (pb_g_value g);                  (* self.value.unwrap_or(0.) *)
  C_default := pb_c0; C_set_value := fun _ v => mkPbC (Some v);
  C_value := fun c => odef f_zero (pb_c_value c);
  U_default := pb_u0; U_set_value := fun _ v => mkPbU (Some v);
  U_value := fun u => odef f_zero (pb_u_value u);
  Q_default := pb_q0;
  Q_set_quantile := fun q v => mkPbQ (Some v) (pb_q_value q);
  Q_set_value := fun q v => mkPbQ (pb_q_quantile q) (Some v);
  Q_quantile := fun q => odef f_zero (pb_q_quantile q);
  Q_value := fun q => odef f_zero (pb_q_value q);
  S_default := pb_s0;
  S_set_sample_count := fun s v => mkPbS (Some v) (pb_s_sum s) (pb_s_quantile s);
  S_set_sample_sum := fun s v => mkPbS (pb_s_count s) (Some v) (pb_s_quantile s);
  S_set_quantile := fun s v => mkPbS (pb_s_count s) (pb_s_sum s) v;       (* proto_ext.rs *)
  S_sample_count := fun s => odef 0 (pb_s_count s);                        (* unwrap_or(0) *)
  S_sample_sum := fun s => odef f_zero (pb_s_sum s);
  S_get_quantile := pb_s_quantile;                                         (* proto_ext.rs *)
  B_default := pb_b0;
  B_set_cumulative_count := fun b v => mkPbB (Some v) (pb_b_upper b);
  B_set_upper_bound := fun b v => mkPbB (pb_b_cum b) (Some v);
  B_cumulative_count := fun b => odef 0 (pb_b_cum b);
  B_upper_bound := fun b => odef f_zero (pb_b_upper b);
  H_default := pb_h0;
  H_set_sample_count := fun h v => mkPbH (Some v) (pb_h_sum h) (pb_h_bucket h);
  H_set_sample_sum := fun h v => mkPbH (pb_h_count h) (Some v) (pb_h_bucket h);
  H_set_bucket := fun h v => mkPbH (pb_h_count h) (pb_h_sum h) v;          (* proto_ext.rs *)
  H_get_sample_count := fun h => odef 0 (pb_h_count h);                    (* proto_ext.rs: unwrap_or_default() *)
  H_get_sample_sum := fun h => odef f_zero (pb_h_sum h);
  H_get_bucket := pb_h_bucket;
  M_default := pb_m0;
  M_from_label := fun ls => mkPbM ls None None None None None None;       (* proto_ext.rs *)
  M_from_gauge := fun g => mkPbM [] (Some g) None None None None None;    (* gauge.into() = MessageField::some *)
  M_set_label := fun m v => mkPbM v (pb_m_gauge m) (pb_m_counter m) (pb_m_summary m) (pb_m_untyped m) (pb_m_histogram m) (pb_m_ts m);
  (* std::mem::take(&mut self.label) *)
  M_take_label := fun m => (pb_m_label m,
                            mkPbM [] (pb_m_gauge m) (pb_m_counter m) (pb_m_summary m) (pb_m_untyped m) (pb_m_histogram m) (pb_m_ts m));
  M_get_label := pb_m_label;
  M_set_gauge := fun m v => mkPbM (pb_m_label m) (Some v) (pb_m_counter m) (pb_m_summary m) (pb_m_untyped m) (pb_m_histogram m) (pb_m_ts m);
  (* &MessageField<Gauge>, read through Deref: the default instance when unset *)
  M_get_gauge := fun m => odef pb_g0 (pb_m_gauge m);
  M_set_counter := fun m v => mkPbM (pb_m_label m) (pb_m_gauge m) (Some v) (pb_m_summary m) (pb_m_untyped m) (pb_m_histogram m) (pb_m_ts m);
  M_get_counter := fun m => odef pb_c0 (pb_m_counter m);
  M_set_summary := fun m v => mkPbM (pb_m_label m) (pb_m_gauge m) (pb_m_counter m) (Some v) (pb_m_untyped m) (pb_m_histogram m) (pb_m_ts m);
  M_get_summary := fun m => odef pb_s0 (pb_m_summary m);
  M_set_untyped := fun m v => mkPbM (pb_m_label m) (pb_m_gauge m) (pb_m_counter m) (pb_m_summary m) (Some v) (pb_m_histogram m) (pb_m_ts m);
  M_get_untyped := fun m => odef pb_u0 (pb_m_untyped m);
  M_set_histogram := fun m v => mkPbM (pb_m_label m) (pb_m_gauge m) (pb_m_counter m) (pb_m_summary m) (pb_m_untyped m) (Some v) (pb_m_ts m);
  M_get_histogram := fun m => odef pb_h0 (pb_m_histogram m);
  M_set_timestamp_ms := fun m v => mkPbM (pb_m_label m) (pb_m_gauge m) (pb_m_counter m) (pb_m_summary m) (pb_m_untyped m) (pb_m_histogram m) (Some v);
  M_timestamp_ms := fun m => odef 0%Z (pb_m_ts m);                         (* unwrap_or(0) *)
  MF_default := pb_mf0;
  MF_set_name := fun f v => mkPbMF (Some v) (pb_mf_help f) (pb_mf_type f) (pb_mf_metric f);
  MF_name := fun f => odef [] (pb_mf_name f);
  MF_set_help := fun f v => mkPbMF (pb_mf_name f) (Some v) (pb_mf_type f) (pb_mf_metric f);
  MF_help := fun f => odef [] (pb_mf_help f);
  (* self.type_ = t.into()  =  Some(EnumOrUnknown::from(t)) *)
  MF_set_field_type := fun f v => mkPbMF (pb_mf_name f) (pb_mf_help f) (Some (mtype_i32 v)) (pb_mf_metric f);
  (* type_(): match self.type_ { Some(e) => e.enum_value_or(COUNTER), None => COUNTER } *)
  MF_get_field_type := fun f => match pb_mf_type f with
                                | Some e => odef COUNTER (mtype_from_i32 e)
                                | None => COUNTER
                                end;
  MF_set_metric := fun f v => mkPbMF (pb_mf_name f) (pb_mf_help f) (pb_mf_type f) v;
  MF_get_metric := pb_mf_metric;
  MF_mut_metric := fun f g => mkPbMF (pb_mf_name f) (pb_mf_help f) (pb_mf_type f) (g (pb_mf_metric f));
  MF_take_metric := fun f => (pb_mf_metric f, mkPbMF (pb_mf_name f) (pb_mf_help f) (pb_mf_type f) [])
|}.

(* ====================================================================================== *)
(* 2c. Instance [wm]: Model/Proto.v, the data model of the world model                      *)
(* ====================================================================================== *)
Definition wm : DM := {|
  tLP := LabelPair; tG := f64; tC := f64; tU := f64; tQ := Quantile; tS := Summary; tB := Bucket; tH := Histogram;
  tM := Metric; tMF := MetricFamily;
  LP_default := mkLP [] [];
  LP_set_name := fun l v => mkLP v (lp_value l);
  LP_set_value := fun l v => mkLP (lp_name l) v;
  LP_name := lp_name;
  LP_value := lp_value;
  G_default := f_zero; G_set_value := fun _ v => v; G_value := fun g => g;
  C_default := f_zero; C_set_value := fun _ v => v; C_value := fun c => c;
  U_default := f_zero; U_set_value := fun _ v => v; U_value := fun u => u;
  Q_default := mkQuantile f_zero f_zero;
  Q_set_quantile := fun q v => mkQuantile v (q_value q);
  Q_set_value := fun q v => mkQuantile (q_quantile q) v;
  Q_quantile := q_quantile;
  Q_value := q_value;
  S_default := mkSummary 0 f_zero [];
  S_set_sample_count := fun s v => mkSummary v (s_sum s) (s_quantile s);
  S_set_sample_sum := fun s v => mkSummary (s_count s) v (s_quantile s);
  S_set_quantile := fun s v => mkSummary (s_count s) (s_sum s) v;
  S_sample_count := s_count;
  S_sample_sum := s_sum;
  S_get_quantile := s_quantile;
  B_default := mkBucket 0 f_zero;
  B_set_cumulative_count := fun b v => mkBucket v (b_upper b);
  B_set_upper_bound := fun b v => mkBucket (b_cum b) v;
  B_cumulative_count := b_cum;
  B_upper_bound := b_upper;
  H_default := mkHist 0 f_zero [];
  H_set_sample_count := fun h v => mkHist v (h_sum h) (h_bucket h);
  H_set_sample_sum := fun h v => mkHist (h_count h) v (h_bucket h);
  H_set_bucket := fun h v => mkHist (h_count h) (h_sum h) v;
  H_get_sample_count := h_count;
  H_get_sample_sum := h_sum;
  H_get_bucket := h_bucket;
  M_default := empty_metric [];
  M_from_label := empty_metric;
  M_from_gauge := fun g => mkMetric [] (Some g) None None None None None;
  M_set_label := fun m v => mkMetric v (m_gauge m) (m_counter m) (m_summary m) (m_untyped m) (m_histogram m) (m_ts m);
  M_take_label := fun m => (m_label m, mkMetric [] (m_gauge m) (m_counter m) (m_summary m) (m_untyped m) (m_histogram m) (m_ts m));
  M_get_label := m_label;
  M_set_gauge := fun m v => mkMetric (m_label m) (Some v) (m_counter m) (m_summary m) (m_untyped m) (m_histogram m) (m_ts m);
  M_get_gauge := get_gauge;
  M_set_counter := fun m v => mkMetric (m_label m) (m_gauge m) (Some v) (m_summary m) (m_untyped m) (m_histogram m) (m_ts m);
  M_get_counter := get_counter;
  M_set_summary := fun m v => mkMetric (m_label m) (m_gauge m) (m_counter m) (Some v) (m_untyped m) (m_histogram m) (m_ts m);
  M_get_summary := get_summary;
  M_set_untyped := fun m v => mkMetric (m_label m) (m_gauge m) (m_counter m) (m_summary m) (Some v) (m_histogram m) (m_ts m);
  M_get_untyped := get_untyped;
  M_set_histogram := fun m v => mkMetric (m_label m) (m_gauge m) (m_counter m) (m_summary m) (m_untyped m) (Some v) (m_ts m);
  M_get_histogram := get_histogram;
  M_set_timestamp_ms := fun m v => mkMetric (m_label m) (m_gauge m) (m_counter m) (m_summary m) (m_untyped m) (m_histogram m) (Some v);
  M_timestamp_ms := get_ts;
  MF_default := mkMF [] [] COUNTER [];
  MF_set_name := fun f v => mkMF v (mf_help f) (mf_type f) (mf_metric f);
  MF_name := mf_name;
  MF_set_help := fun f v => mkMF (mf_name f) v (mf_type f) (mf_metric f);
  MF_help := mf_help;
  MF_set_field_type := fun f v => mkMF (mf_name f) (mf_help f) v (mf_metric f);
  MF_get_field_type := mf_type;
  MF_set_metric := fun f v => mkMF (mf_name f) (mf_help f) (mf_type f) v;
  MF_get_metric := mf_metric;
  MF_mut_metric := fun f g => mkMF (mf_name f) (mf_help f) (mf_type f) (g (mf_metric f));
  MF_take_metric := fun f => (mf_metric f, mkMF (mf_name f) (mf_help f) (mf_type f) [])
|}.

(* ====================================================================================== *)
(* 3. The shared code, written once against the interface                                  *)
(* ====================================================================================== *)

(* What a custom collector (user code; harness/src/build.rs) does with the public setters is
   described by a "setter script": which setters are called with which arguments.  The
   protobuf-side records above have exactly that shape (one option per setter) for every message
   below MetricFamily; for a family the type argument is a MetricType. *)
Record sMF := mkSMF { s_mf_name : option str; s_mf_help : option str; s_mf_type : option MetricType; s_mf_metric : option (list pbM) }.

(* the metrics the library's own collectors hand out *)
Inductive msrc :=
| SrcValue (vars consts : list (str * str)) (t : valtype) (v : f64)                               (* GenericCounter / GenericGauge *)
| SrcHist (vars consts : list (str * str)) (sum : f64) (count : N) (buckets : list (N * f64))     (* Histogram *)
| SrcPulling (v : f64).                                                                           (* PullingGauge *)
(* what one registered collector returns from collect() *)
Inductive csrc :=
| CLib (name help : str) (ty : MetricType) (ms : list msrc)     (* counter / gauge / histogram / their vectors / pulling gauge *)
| CUser (fams : list sMF).                                      (* a custom collector *)

Definition opt_set {T A} (set : T -> A -> T) (x : T) (o : option A) : T :=
  match o with Some a => set x a | None => x end.
(* `for x in xs { v.push(x) }` *)
Definition push_all {A} (v xs : list A) : list A := fold_left (fun acc x => acc ++ [x]) xs v.

Section Shared.
  Variable I : DM.

  (* ---------------------------------------------------------------- label pairs *)
  (* let mut label_pair = LabelPair::default(); label_pair.set_name(k); label_pair.set_value(v); *)
  Definition mk_label_pair (k v : str) : tLP I := LP_set_value I (LP_set_name I (LP_default I) k) v.
  (* metrics.rs: impl Ord for LabelPair { self.name().cmp(other.name()) } *)
  Definition lp_leb_dm (a b : tLP I) : bool := str_leb (LP_name I a) (LP_name I b).
  (* desc.rs: const_label_pairs, pushed in HashMap order then sort() *)
  Definition const_pairs_dm (consts : list (str * str)) : list (tLP I) :=
    sort_by lp_leb_dm (map (fun kv => mk_label_pair (fst kv) (snd kv)) consts).
  (* value.rs make_label_pairs after the cardinality check (vars = the variable labels zipped with their values) *)
  Definition make_label_pairs_dm (vars : list (str * str)) (const_pairs : list (tLP I)) : list (tLP I) :=
    if is_nil vars && is_nil const_pairs then []
    else if is_nil vars then const_pairs
    else sort_by lp_leb_dm (map (fun nv => mk_label_pair (fst nv) (snd nv)) vars ++ const_pairs).

  (* the label names read back from label pairs: registry.rs register (clash with the registry's common
     labels: desc.const_label_pairs.iter().map(|lp| lp.name())) and histogram.rs HistogramCore::new
     (check_bucket_label(pair.name()) over the metric's label pairs); they decide Ok / Err there *)
  Definition label_names_dm (lps : list (tLP I)) : list str := map (LP_name I) lps.

  (* ---------------------------------------------------------------- the library's collectors *)
  (* Value::metric *)
  Definition value_metric_dm (label_pairs : list (tLP I)) (t : valtype) (v : f64) : tM I :=
    let m := M_from_label I label_pairs in
    match t with
    | VCounter => M_set_counter I m (C_set_value I (C_default I) v)
    | VGauge => M_set_gauge I m (G_set_value I (G_default I) v)
    end.
  (* HistogramCore::proto: the data it hands over, given the numbers read from the shards *)
  Definition hist_proto_dm (sum : f64) (count : N) (buckets : list (N * f64)) : tH I :=
    let h := H_default I in
    let h := H_set_sample_sum I h sum in
    let h := H_set_sample_count I h count in
    H_set_bucket I h (map (fun cb => B_set_upper_bound I (B_set_cumulative_count I (B_default I) (fst cb)) (snd cb)) buckets).
  (* Histogram::metric *)
  Definition hist_metric_dm (label_pairs : list (tLP I)) (h : tH I) : tM I :=
    M_set_histogram I (M_from_label I label_pairs) h.
  (* PullingGauge::metric *)
  Definition pulling_metric_dm (v : f64) : tM I := M_from_gauge I (G_set_value I (G_default I) v).
  (* Value::collect, Histogram::collect, MetricVecCore::collect, PullingGauge::collect *)
  Definition family_dm (name help : str) (ty : MetricType) (metrics : list (tM I)) : tMF I :=
    let m := MF_default I in
    let m := MF_set_name I m name in
    let m := MF_set_help I m help in
    let m := MF_set_field_type I m ty in
    MF_set_metric I m metrics.

  Definition msrc_metric (s : msrc) : tM I :=
    match s with
    | SrcValue vars consts t v => value_metric_dm (make_label_pairs_dm vars (const_pairs_dm consts)) t v
    | SrcHist vars consts sum count buckets =>
        hist_metric_dm (make_label_pairs_dm vars (const_pairs_dm consts)) (hist_proto_dm sum count buckets)
    | SrcPulling v => pulling_metric_dm v
    end.

  (* ---------------------------------------------------------------- a custom collector: setter scripts *)
  Definition run_lp (s : pbLP) : tLP I :=
    opt_set (LP_set_value I) (opt_set (LP_set_name I) (LP_default I) (pb_lp_name s)) (pb_lp_value s).
  Definition run_g (s : pbG) : tG I := opt_set (G_set_value I) (G_default I) (pb_g_value s).
  Definition run_c (s : pbC) : tC I := opt_set (C_set_value I) (C_default I) (pb_c_value s).
  Definition run_u (s : pbU) : tU I := opt_set (U_set_value I) (U_default I) (pb_u_value s).
  Definition run_q (s : pbQ) : tQ I :=
    opt_set (Q_set_value I) (opt_set (Q_set_quantile I) (Q_default I) (pb_q_quantile s)) (pb_q_value s).
  Definition run_s (s : pbS) : tS I :=
    S_set_quantile I (opt_set (S_set_sample_sum I) (opt_set (S_set_sample_count I) (S_default I) (pb_s_count s)) (pb_s_sum s))
                   (map run_q (pb_s_quantile s)).
  Definition run_b (s : pbB) : tB I :=
    opt_set (B_set_upper_bound I) (opt_set (B_set_cumulative_count I) (B_default I) (pb_b_cum s)) (pb_b_upper s).
  Definition run_h (s : pbH) : tH I :=
    H_set_bucket I (opt_set (H_set_sample_sum I) (opt_set (H_set_sample_count I) (H_default I) (pb_h_count s)) (pb_h_sum s))
                 (map run_b (pb_h_bucket s)).
  Definition run_m (s : pbM) : tM I :=
    let m := M_set_label I (M_default I) (map run_lp (pb_m_label s)) in
    let m := opt_set (M_set_gauge I) m (option_map run_g (pb_m_gauge s)) in
    let m := opt_set (M_set_counter I) m (option_map run_c (pb_m_counter s)) in
    let m := opt_set (M_set_summary I) m (option_map run_s (pb_m_summary s)) in
    let m := opt_set (M_set_untyped I) m (option_map run_u (pb_m_untyped s)) in
    let m := opt_set (M_set_histogram I) m (option_map run_h (pb_m_histogram s)) in
    opt_set (M_set_timestamp_ms I) m (pb_m_ts s).
  Definition run_mf (s : sMF) : tMF I :=
    let f := opt_set (MF_set_name I) (MF_default I) (s_mf_name s) in
    let f := opt_set (MF_set_help I) f (s_mf_help s) in
    let f := opt_set (MF_set_field_type I) f (s_mf_type s) in
    opt_set (MF_set_metric I) f (option_map (map run_m) (s_mf_metric s)).

  Definition collect_dm (c : csrc) : list (tMF I) :=
    match c with
    | CLib name help ty ms => [family_dm name help ty (map msrc_metric ms)]
    | CUser fams => map run_mf fams
    end.

  (* ---------------------------------------------------------------- RegistryCore::gather *)
  (* mf_by_name: a BTreeMap<String, MetricFamily> = association list in key order.
     Vacant: insert;  Occupied: `for metric in mf.take_metric() { existent_mf.mut_metric().push(metric) }` *)
  Fixpoint bt_entry (name : str) (mf : tMF I) (m : list (str * tMF I)) : list (str * tMF I) :=
    match m with
    | [] => [(name, mf)]
    | (k, x) :: t =>
        match str_cmp name k with
        | Lt => (name, mf) :: m
        | Eq => (k, MF_mut_metric I x (fun existent => push_all existent (fst (MF_take_metric I mf)))) :: t
        | Gt => (k, x) :: bt_entry name mf t
        end
    end.
  Definition merge_dm (collected : list (tMF I)) : list (str * tMF I) :=
    fold_left (fun m mf => if is_nil (MF_get_metric I mf) then m else bt_entry (MF_name I mf) mf m) collected [].

  (* the closure given to sort_by *)
  Fixpoint cmp_label_values_dm (a b : list (tLP I)) : comparison :=
    match a, b with
    | x :: a', y :: b' => match str_cmp (LP_value I x) (LP_value I y) with Eq => cmp_label_values_dm a' b' | c => c end
    | _, _ => Eq
    end.
  Definition metric_cmp_dm (m1 m2 : tM I) : comparison :=
    let lps1 := M_get_label I m1 in let lps2 := M_get_label I m2 in
    if negb (Nat.eqb (length lps1) (length lps2)) then Nat.compare (length lps1) (length lps2)
    else match cmp_label_values_dm lps1 lps2 with
         | Eq => Z.compare (M_timestamp_ms I m1) (M_timestamp_ms I m2)
         | c => c
         end.
  Definition metric_leb_dm (m1 m2 : tM I) : bool := match metric_cmp_dm m1 m2 with Gt => false | _ => true end.

  (* let mut labels = metric.take_label(); labels.append(&mut pairs.clone()); metric.set_label(labels); *)
  Definition add_common (pairs : list (tLP I)) (metric : tM I) : tM I :=
    let '(labels, metric') := M_take_label I metric in M_set_label I metric' (labels ++ pairs).
  (* the closure of into_values().map(..): namespace prefix, then the common labels sorted by name *)
  Definition finish_family (prefix : option str) (labels : option (list (str * str))) (m : tMF I) : tMF I :=
    let m := match prefix with
             | Some namespace => MF_set_name I m (namespace ++ [USCORE_] ++ MF_name I m)
             | None => m
             end in
    match labels with
    | Some hmap =>
        let pairs := sort_by lp_leb_dm (map (fun kv => mk_label_pair (fst kv) (snd kv)) hmap) in
        MF_mut_metric I m (map (add_common pairs))
    | None => m
    end.
  Definition gather_dm (prefix : option str) (labels : option (list (str * str))) (collected : list (tMF I)) : list (tMF I) :=
    map (fun kv => finish_family prefix labels (MF_mut_metric I (snd kv) (sort_by metric_leb_dm))) (merge_dm collected).

  (* ---------------------------------------------------------------- encoder/mod.rs, encoder/text.rs *)
  Variable show : f64 -> str.      (* f64::to_string *)
  Variable showz : Z -> str.       (* i64::to_string *)

  Fixpoint write_pairs_dm (w : writer) (separator : str) (pairs : list (tLP I)) : writer * str :=
    match pairs with
    | [] => (w, separator)
    | lp :: r =>
        let w := write_all w separator in
        let w := write_all w (LP_name I lp) in
        let w := write_all w [EQC; DQ] in
        let w := write_all w (escape_string (LP_value I lp) true) in
        let w := write_all w [DQ] in
        write_pairs_dm w [COMMA] r
    end.
  Definition label_pairs_to_text_dm (pairs : list (tLP I)) (additional : option (str * str)) (w : writer) : writer :=
    if is_nil pairs && match additional with None => true | Some _ => false end then w
    else
      let '(w, separator) := write_pairs_dm w [LBRACE] pairs in
      let w := match additional with
               | Some (name, value) =>
                   let w := write_all w separator in
                   let w := write_all w name in
                   let w := write_all w [EQC; DQ] in
                   let w := write_all w (escape_string value true) in
                   write_all w [DQ]
               | None => w
               end in
      write_all w [RBRACE].
  Definition write_sample_dm (w : writer) (name : str) (postfix : option str) (mc : tM I)
             (additional : option (str * str)) (value : f64) : writer :=
    let w := write_all w name in
    let w := match postfix with Some p => write_all w p | None => w end in
    let w := label_pairs_to_text_dm (M_get_label I mc) additional w in
    let w := write_all w [SP] in
    let w := write_all w (show value) in
    let timestamp := M_timestamp_ms I mc in
    let w := if (timestamp =? 0)%Z then w else write_all (write_all w [SP]) (showz timestamp) in
    write_all w [LF].
  Fixpoint write_buckets_dm (w : writer) (name : str) (m : tM I) (bs : list (tB I)) (inf_seen : bool) : writer * bool :=
    match bs with
    | [] => (w, inf_seen)
    | b :: r =>
        let upper_bound := B_upper_bound I b in
        let w := write_sample_dm w name (Some k_bucket) m (Some (k_le, show upper_bound)) (f_of_N (B_cumulative_count I b)) in
        write_buckets_dm w name m r (if f_pos_inf upper_bound then true else inf_seen)
    end.
  Fixpoint write_quantiles_dm (w : writer) (name : str) (m : tM I) (qs : list (tQ I)) : writer :=
    match qs with
    | [] => w
    | q :: r => write_quantiles_dm (write_sample_dm w name None m (Some (k_quantile, show (Q_quantile I q))) (Q_value I q)) name m r
    end.
  Definition write_metric_dm (w : writer) (t : MetricType) (name : str) (m : tM I) : writer * bool :=
    match t with
    | COUNTER => (write_sample_dm w name None m None (C_value I (M_get_counter I m)), true)
    | GAUGE => (write_sample_dm w name None m None (G_value I (M_get_gauge I m)), true)
    | HISTOGRAM =>
        let h := M_get_histogram I m in
        let '(w, inf_seen) := write_buckets_dm w name m (H_get_bucket I h) false in
        let w := if inf_seen then w
                 else write_sample_dm w name (Some k_bucket) m (Some (k_le, k_pos_inf)) (f_of_N (H_get_sample_count I h)) in
        let w := write_sample_dm w name (Some k_sum) m None (H_get_sample_sum I h) in
        (write_sample_dm w name (Some k_count) m None (f_of_N (H_get_sample_count I h)), true)
    | SUMMARY =>
        let s := M_get_summary I m in
        let w := write_quantiles_dm w name m (S_get_quantile I s) in
        let w := write_sample_dm w name (Some k_sum) m None (S_sample_sum I s) in
        (write_sample_dm w name (Some k_count) m None (f_of_N (S_sample_count I s)), true)
    | UNTYPED => (w, false)
    end.
  Fixpoint write_metrics_dm (w : writer) (t : MetricType) (name : str) (ms : list (tM I)) : writer * bool :=
    match ms with
    | [] => (w, true)
    | m :: r => let '(w, ok) := write_metric_dm w t name m in
                if ok then write_metrics_dm w t name r else (w, false)
    end.
  (* encoder/mod.rs check_metric_family *)
  Definition check_metric_family_dm (mf : tMF I) : bool :=
    negb (is_nil (MF_get_metric I mf)) && negb (is_nil (MF_name I mf)).
  Fixpoint encode_impl_dm (fams : list (tMF I)) (w : writer) : writer * bool :=
    match fams with
    | [] => (w, true)
    | mf :: r =>
        if negb (check_metric_family_dm mf) then (w, false)
        else
          let name := MF_name I mf in
          let help := MF_help I mf in
          let w := if negb (is_nil help)
                   then let w := write_all w k_help in
                        let w := write_all w name in
                        let w := write_all w [SP] in
                        let w := write_all w (escape_string help false) in
                        write_all w [LF]
                   else w in
          let metric_type := MF_get_field_type I mf in
          let w := write_all w k_type in
          let w := write_all w name in
          let w := write_all w [SP] in
          let w := write_all w (type_word metric_type) in
          let w := write_all w [LF] in
          let '(w, ok) := write_metrics_dm w metric_type name (MF_get_metric I mf) in
          if ok then encode_impl_dm r w else (w, false)
    end.
  (* <TextEncoder as Encoder>::encode / encode_utf8 into a buffer holding [buf]; encode_to_string *)
  Definition encode_dm (buf : list N) (fams : list (tMF I)) : eres := finish (encode_impl_dm fams buf).
  Definition encode_to_string_dm (fams : list (tMF I)) : eres :=
    match encode_dm [] fams with
    | EOk out => EOk out
    | EErr e _ => EErr e []
    | EPanic => EPanic
    end.

  (* ---------------------------------------------------------------- one exposition *)
  (* [cs]: the registered collectors in the order collectors_by_id iterates them *)
  Definition exposition_dm (prefix : option str) (labels : option (list (str * str))) (cs : list csrc) : list (tMF I) :=
    gather_dm prefix labels (flat_map collect_dm cs).
  Definition exposition_text_dm (prefix : option str) (labels : option (list (str * str))) (cs : list csrc) : eres :=
    encode_to_string_dm (exposition_dm prefix labels cs).
End Shared.

(* ====================================================================================== *)
(* 4. What a caller can see of a value: every getter, recursively                          *)
(* ====================================================================================== *)
(* The plain records ARE that view (one field per getter), so the view of an instance is a map
   into the plain records; Proofs/C16Facts.v shows that it commutes with every operation. *)
Section View.
  Variable I : DM.
  Definition view_lp (l : tLP I) : plLP := mkPlLP (LP_name I l) (LP_value I l).
  Definition view_g (g : tG I) : plG := mkPlG (G_value I g).
  Definition view_c (c : tC I) : plC := mkPlC (C_value I c).
  Definition view_u (u : tU I) : plU := mkPlU (U_value I u).
  Definition view_q (q : tQ I) : plQ := mkPlQ (Q_quantile I q) (Q_value I q).
  Definition view_s (s : tS I) : plS := mkPlS (S_sample_count I s) (S_sample_sum I s) (map view_q (S_get_quantile I s)).
  Definition view_b (b : tB I) : plB := mkPlB (B_cumulative_count I b) (B_upper_bound I b).
  Definition view_h (h : tH I) : plH := mkPlH (H_get_sample_count I h) (H_get_sample_sum I h) (map view_b (H_get_bucket I h)).
  Definition view_m (m : tM I) : plM :=
    mkPlM (map view_lp (M_get_label I m)) (view_g (M_get_gauge I m)) (view_c (M_get_counter I m)) (view_s (M_get_summary I m))
          (view_u (M_get_untyped I m)) (view_h (M_get_histogram I m)) (M_timestamp_ms I m).
  Definition view_mf (f : tMF I) : plMF :=
    mkPlMF (MF_name I f) (MF_help I f) (MF_get_field_type I f) (map view_m (MF_get_metric I f)).
End View.

(* ====================================================================================== *)
(* 5. What the harness prints (harness/src/fmt.rs), as terms of Model/Proto.v              *)
(* ====================================================================================== *)
(* protobuf build: presence of the message fields and of the timestamp is printed *)
Definition print_pb_lp (l : pbLP) : LabelPair := mkLP (LP_name pb l) (LP_value pb l).
Definition print_pb_q (q : pbQ) : Quantile := mkQuantile (Q_quantile pb q) (Q_value pb q).
Definition print_pb_s (s : pbS) : Summary := mkSummary (S_sample_count pb s) (S_sample_sum pb s) (map print_pb_q (pb_s_quantile s)).
Definition print_pb_b (b : pbB) : Bucket := mkBucket (B_cumulative_count pb b) (B_upper_bound pb b).
Definition print_pb_h (h : pbH) : Histogram := mkHist (H_get_sample_count pb h) (H_get_sample_sum pb h) (map print_pb_b (pb_h_bucket h)).
Definition print_pb_m (m : pbM) : Metric :=
  mkMetric (map print_pb_lp (pb_m_label m))
           (option_map (G_value pb) (pb_m_gauge m)) (option_map (C_value pb) (pb_m_counter m))
           (option_map print_pb_s (pb_m_summary m)) (option_map (U_value pb) (pb_m_untyped m))
           (option_map print_pb_h (pb_m_histogram m)) (pb_m_ts m).
Definition print_pb_mf (f : pbMF) : MetricFamily :=
  mkMF (MF_name pb f) (MF_help pb f) (MF_get_field_type pb f) (map print_pb_m (pb_mf_metric f)).
(* plain build: presence does not exist; every getter is printed as a present field *)
Definition print_pl_lp (l : plLP) : LabelPair := mkLP (pl_lp_name l) (pl_lp_value l).
Definition print_pl_s (s : plS) : Summary :=
  mkSummary (pl_s_count s) (pl_s_sum s) (map (fun q => mkQuantile (pl_q_quantile q) (pl_q_value q)) (pl_s_quantile s)).
Definition print_pl_h (h : plH) : Histogram :=
  mkHist (pl_h_count h) (pl_h_sum h) (map (fun b => mkBucket (pl_b_cum b) (pl_b_upper b)) (pl_h_bucket h)).
Definition print_pl_m (m : plM) : Metric :=
  mkMetric (map print_pl_lp (pl_m_label m)) (Some (pl_g_value (pl_m_gauge m))) (Some (pl_c_value (pl_m_counter m)))
           (Some (print_pl_s (pl_m_summary m))) (Some (pl_u_value (pl_m_untyped m))) (Some (print_pl_h (pl_m_histogram m)))
           (Some (pl_m_ts m)).
Definition print_pl_mf (f : plMF) : MetricFamily :=
  mkMF (pl_mf_name f) (pl_mf_help f) (pl_mf_type f) (map print_pl_m (pl_mf_metric f)).

(* the same normal form computed on a printed term: all getters, every field present.  The per-run
   check compares the two builds (and the plain build with the world model) through it. *)
Definition getters_metric (m : Metric) : Metric :=
  mkMetric (m_label m) (Some (get_gauge m)) (Some (get_counter m)) (Some (get_summary m)) (Some (get_untyped m))
           (Some (get_histogram m)) (Some (get_ts m)).
Definition getters_family (f : MetricFamily) : MetricFamily :=
  mkMF (mf_name f) (mf_help f) (mf_type f) (map getters_metric (mf_metric f)).
