(* A small executable model of macro_rules! matching, transcription and recursive expansion for the
   fragment used by src/macros.rs (definitions only).  It works on the token data of
   gen/MacroArms.v (flat token strings, delimiters included).

   Modelled:  literal tokens, delimited groups, `$x:expr` (one opaque expression: an argument atom,
   an already substituted expression fragment, or a macro invocation `name ! group`), `$x:ident`,
   repetitions (dollar-group, optional separator, then star, plus or question mark) at any position
   and nesting (so the optional trailing comma, the comma-separated key => value pairs of labels!
   and the comma-led label maps of opts!), `$crate`, arms tried in order, nested invocations
   in the output expanded recursively (fuel), substituted expressions kept as one opaque node.
   Matching computes ALL ways an arm can consume the whole input; an arm with no way does not match,
   an arm with two ways is an ambiguity error (rustc reports those, possibly earlier).
   Not modelled: other fragment kinds (the expander answers with an error), hygiene, spans,
   parsing of general Rust expressions out of raw tokens. *)
From Coq Require Import String Ascii List Bool Arith.
Import ListNotations.
Open Scope string_scope.
Open Scope list_scope.

(* ---------- token trees ---------- *)
Inductive tt :=
| T (s : string)                     (* a token *)
| G (d : string) (body : list tt)    (* a delimited group; d is the opening delimiter *)
| A (s : string)                     (* an opaque argument atom: some Rust expression written at the call site *)
| E (body : list tt).                (* an expression fragment (invisible delimiters): substituted `$x:expr`, expanded invocation *)

Definition is_open (s : string) : bool := (s =? "(") || (s =? "[") || (s =? "{").
Definition is_close (s : string) : bool := (s =? ")") || (s =? "]") || (s =? "}").
Definition closer (s : string) : string := if s =? "(" then ")" else if s =? "[" then "]" else "}".

(* flat tokens -> trees; stops in front of an unmatched closing delimiter *)
Fixpoint ptts (fuel : nat) (ts : list string) : option (list tt * list string) :=
  match fuel with
  | O => None
  | S f =>
      match ts with
      | [] => Some ([], [])
      | t :: r =>
          if is_close t then Some ([], ts)
          else if is_open t then
            match ptts f r with
            | Some (body, c :: r2) =>
                if c =? closer t then
                  match ptts f r2 with Some (more, rest) => Some (G t body :: more, rest) | None => None end
                else None
            | _ => None
            end
          else match ptts f r with Some (more, rest) => Some (T t :: more, rest) | None => None end
      end
  end.
Definition parse_tts (ts : list string) : option (list tt) :=
  match ptts (S (length ts)) ts with Some (l, []) => Some l | _ => None end.

Definition is_ident_start (c : ascii) : bool :=
  let n := nat_of_ascii c in
  (Nat.leb 65 n && Nat.leb n 90) || (Nat.leb 97 n && Nat.leb n 122) || Nat.eqb n 95.
Definition is_ident (s : string) : bool :=
  match s with String c _ => is_ident_start c | EmptyString => false end.

(* ---------- matchers and transcribers ---------- *)
Inductive frag := FExpr | FIdent.
Inductive rk := RStar | RPlus | ROpt.
Inductive mp :=
| MT (s : string) | MG (d : string) (body : list mp) | MV (x : string) (f : frag)
| MR (body : list mp) (sep : option string) (k : rk).
Inductive tp :=
| PT (s : string) | PG (d : string) (body : list tp) | PV (x : string) | PCrate
| PR (body : list tp) (sep : option string) (k : rk).

Definition rk_of (s : string) : option rk :=
  if s =? "*" then Some RStar else if s =? "+" then Some RPlus else if s =? "?" then Some ROpt else None.
Definition frag_of (s : string) : option frag :=
  if s =? "expr" then Some FExpr else if s =? "ident" then Some FIdent else None.

Fixpoint opt_all {X} (l : list (option X)) : option (list X) :=
  match l with
  | [] => Some []
  | Some x :: r => match opt_all r with Some r' => Some (x :: r') | None => None end
  | None :: _ => None
  end.

Fixpoint parse_mp (fuel : nat) (ts : list tt) : option (list mp) :=
  match fuel with
  | O => None
  | S f =>
      match ts with
      | [] => Some []
      | T "$" :: T x :: T ":" :: T fr :: r =>
          match frag_of fr, parse_mp f r with
          | Some fg, Some r' => Some (MV x fg :: r')
          | _, _ => None
          end
      | T "$" :: G "(" body :: T a :: r =>
          match parse_mp f body with
          | None => None
          | Some b =>
              match rk_of a with
              | Some k => match parse_mp f r with Some r' => Some (MR b None k :: r') | None => None end
              | None =>
                  match r with
                  | T k0 :: r2 =>
                      match rk_of k0, parse_mp f r2 with
                      | Some k, Some r' => Some (MR b (Some a) k :: r')
                      | _, _ => None
                      end
                  | _ => None
                  end
              end
          end
      | T "$" :: _ => None
      | T s :: r => match parse_mp f r with Some r' => Some (MT s :: r') | None => None end
      | G d body :: r =>
          match parse_mp f body, parse_mp f r with
          | Some b, Some r' => Some (MG d b :: r')
          | _, _ => None
          end
      | _ => None
      end
  end.

Fixpoint parse_tp (fuel : nat) (ts : list tt) : option (list tp) :=
  match fuel with
  | O => None
  | S f =>
      match ts with
      | [] => Some []
      | T "$" :: T "crate" :: r => match parse_tp f r with Some r' => Some (PCrate :: r') | None => None end
      | T "$" :: G "(" body :: T a :: r =>
          match parse_tp f body with
          | None => None
          | Some b =>
              match rk_of a with
              | Some k => match parse_tp f r with Some r' => Some (PR b None k :: r') | None => None end
              | None =>
                  match r with
                  | T k0 :: r2 =>
                      match rk_of k0, parse_tp f r2 with
                      | Some k, Some r' => Some (PR b (Some a) k :: r')
                      | _, _ => None
                      end
                  | _ => None
                  end
              end
          end
      | T "$" :: T x :: r => match parse_tp f r with Some r' => Some (PV x :: r') | None => None end
      | T "$" :: _ => None
      | T s :: r => match parse_tp f r with Some r' => Some (PT s :: r') | None => None end
      | G d body :: r =>
          match parse_tp f body, parse_tp f r with
          | Some b, Some r' => Some (PG d b :: r')
          | _, _ => None
          end
      | _ => None
      end
  end.

(* ---------- bindings ---------- *)
Inductive bnd := BOne (t : tt) | BSeq (l : list bnd).
Definition env := list (string * bnd).
Fixpoint elookup (x : string) (e : env) : option bnd :=
  match e with [] => None | (y, b) :: r => if x =? y then Some b else elookup x r end.

Fixpoint mvars (p : mp) : list string :=
  match p with
  | MT _ => []
  | MG _ b => flat_map mvars b
  | MV x _ => [x]
  | MR b _ _ => flat_map mvars b
  end.
Fixpoint tvars (p : tp) : list string :=
  match p with
  | PT _ | PCrate => []
  | PG _ b => flat_map tvars b
  | PV x => [x]
  | PR b _ _ => flat_map tvars b
  end.

(* the bindings of the iterations of a repetition, one sequence per variable of its body *)
Definition seq_env (xs : list string) (es : list env) : env :=
  map (fun x => (x, BSeq (flat_map (fun e => match elookup x e with Some b => [b] | None => [] end) es))) xs.

(* ---------- matching ---------- *)
(* `$x:expr`: what one expression is in this model.  Anything else cannot begin an expression here and
   the arm does not match. *)
Definition take_expr (inp : list tt) : option (tt * list tt) :=
  match inp with
  | A s :: r => Some (A s, r)
  | E b :: r => Some (E b, r)
  | T id :: T "!" :: G d b :: r => if is_ident id then Some (E [T id; T "!"; G d b], r) else None
  | _ => None
  end.

Section Reps.
  Variable m : list tt -> list (env * list tt).     (* all matches of the repetition body against a prefix *)
  Variable sep : option string.
  (* one or more iterations, the first one starting at [inp] *)
  Fixpoint iters (n : nat) (inp : list tt) : list (list env * list tt) :=
    match n with
    | O => []
    | S n' =>
        flat_map (fun er : env * list tt =>
                    let (e1, r1) := er in
                    ([e1], r1) ::
                    match sep with
                    | None => map (fun x : list env * list tt => (e1 :: fst x, snd x)) (iters n' r1)
                    | Some s =>
                        match r1 with
                        | T s' :: r2 => if s =? s' then map (fun x : list env * list tt => (e1 :: fst x, snd x)) (iters n' r2) else []
                        | _ => []
                        end
                    end) (m inp)
    end.
  Definition reps (k : rk) (n : nat) (inp : list tt) : list (list env * list tt) :=
    match k with
    | RStar => ([], inp) :: iters n inp
    | RPlus => iters n inp
    | ROpt => ([], inp) :: map (fun er : env * list tt => ([fst er], snd er)) (m inp)
    end.
End Reps.

(* all ways to match the pattern list against a prefix of the input: (bindings, rest) *)
Fixpoint mm (fuel : nat) (ps : list mp) (inp : list tt) {struct fuel} : list (env * list tt) :=
  match fuel with
  | O => []
  | S f =>
      match ps with
      | [] => [([], inp)]
      | MT s :: ps' =>
          match inp with
          | T s' :: r => if s =? s' then mm f ps' r else []
          | _ => []
          end
      | MG d body :: ps' =>
          match inp with
          | G d' b :: r =>
              if d =? d' then
                flat_map (fun er : env * list tt =>
                            match snd er with
                            | [] => map (fun x : env * list tt => (fst er ++ fst x, snd x)) (mm f ps' r)
                            | _ => []
                            end) (mm f body b)
              else []
          | _ => []
          end
      | MV x FExpr :: ps' =>
          match take_expr inp with
          | Some (t, r) => map (fun z : env * list tt => ((x, BOne t) :: fst z, snd z)) (mm f ps' r)
          | None => []
          end
      | MV x FIdent :: ps' =>
          match inp with
          | T s :: r => if is_ident s then map (fun z : env * list tt => ((x, BOne (T s)) :: fst z, snd z)) (mm f ps' r) else []
          | _ => []
          end
      | MR body sep k :: ps' =>
          flat_map (fun er : list env * list tt =>
                      map (fun z : env * list tt => (seq_env (flat_map mvars body) (fst er) ++ fst z, snd z)) (mm f ps' (snd er)))
                   (reps (mm f body) sep k f inp)
      end
  end.

Definition full_matches (fuel : nat) (ps : list mp) (inp : list tt) : list env :=
  flat_map (fun er : env * list tt => match snd er with [] => [fst er] | _ => [] end) (mm fuel ps inp).

(* ---------- transcription ---------- *)
Fixpoint seq_len (xs : list string) (e : env) : option nat :=
  match xs with
  | [] => None
  | x :: r =>
      match elookup x e with
      | Some (BSeq l) =>
          match seq_len r e with
          | None => Some (length l)
          | Some n => if Nat.eqb n (length l) then Some n else Some (S (n + length l))  (* lengths differ: made to fail below *)
          end
      | _ => seq_len r e
      end
  end.
Definition env_at (xs : list string) (i : nat) (e : env) : option env :=
  opt_all (flat_map (fun x => match elookup x e with
                              | Some (BSeq l) => [match nth_error l i with Some b => Some (x, b) | None => None end]
                              | _ => []
                              end) xs).
Fixpoint join_sep (sep : option string) (l : list (list tt)) : list tt :=
  match l with
  | [] => []
  | [x] => x
  | x :: r => x ++ (match sep with Some s => [T s] | None => [] end) ++ join_sep sep r
  end.

Fixpoint tr (fuel : nat) (ps : list tp) (e : env) {struct fuel} : option (list tt) :=
  match fuel with
  | O => None
  | S f =>
      match ps with
      | [] => Some []
      | p :: ps' =>
          match (match p with
                 | PT s => Some [T s]
                 | PCrate => Some [T "$crate"]
                 | PG d body => match tr f body e with Some b => Some [G d b] | None => None end
                 | PV x => match elookup x e with Some (BOne t) => Some [t] | _ => None end
                 | PR body sep _ =>
                     let xs := flat_map tvars body in
                     match seq_len xs e with
                     | None => None                      (* no repeating variable inside the repetition *)
                     | Some n =>
                         match opt_all (map (fun i => match env_at xs i e with
                                                      | Some ei => tr f body (ei ++ e)
                                                      | None => None
                                                      end) (seq 0 n)) with
                         | Some parts => Some (join_sep sep parts)
                         | None => None
                         end
                     end
                 end), tr f ps' e with
          | Some a, Some b => Some (a ++ b)
          | _, _ => None
          end
      end
  end.

(* ---------- the macro table and expansion ---------- *)
Definition arm := (list mp * list tp)%type.
Definition table := list (string * list arm).

Definition parse_arm (a : list string * list string) : option arm :=
  match parse_tts (fst a), parse_tts (snd a) with
  | Some m, Some t =>
      match parse_mp (S (length (fst a))) m, parse_tp (S (length (snd a))) t with
      | Some m', Some t' => Some (m', t')
      | _, _ => None
      end
  | _, _ => None
  end.
Definition parse_table (src : list (string * list (list string * list string))) : option table :=
  opt_all (map (fun ma : string * list (list string * list string) =>
                  match opt_all (map parse_arm (snd ma)) with Some arms => Some (fst ma, arms) | None => None end) src).

Fixpoint tlookup (name : string) (t : table) : option (list arm) :=
  match t with [] => None | (n, a) :: r => if name =? n then Some a else tlookup name r end.

Inductive outcome := Expanded (ts : list tt) | NoRule | Ambiguous | Stuck.   (* Stuck: fuel / transcription error *)

(* arms in order; the first arm that matches the whole input decides *)
Fixpoint select (fuel : nat) (arms : list arm) (n : nat) (inp : list tt) : option (nat * arm * env) + outcome :=
  match arms with
  | [] => inr NoRule
  | a :: r =>
      match full_matches fuel (fst a) inp with
      | [] => select fuel r (S n) inp
      | [e] => inl (Some (n, a, e))
      | _ => inr Ambiguous
      end
  end.

(* expands every invocation of a table macro occurring in [ts] (also inside groups and expression
   fragments); the result of an invocation is one expression fragment *)
Fixpoint expand (fuel : nat) (tb : table) (ts : list tt) {struct fuel} : option (list tt) :=
  match fuel with
  | O => None
  | S f =>
      match ts with
      | [] => Some []
      | T name :: T "!" :: G d body :: rest =>
          match tlookup name tb with
          | Some arms =>
              match select f arms 0 body with
              | inl (Some (_, a, e)) =>
                  match tr f (snd a) e with
                  | Some out =>
                      match expand f tb out, expand f tb rest with
                      | Some out', Some rest' => Some (E out' :: rest')
                      | _, _ => None
                      end
                  | None => None
                  end
              | _ => None
              end
          | None =>
              match expand f tb body, expand f tb rest with
              | Some b', Some rest' => Some (T name :: T "!" :: G d b' :: rest')
              | _, _ => None
              end
          end
      | G d b :: rest =>
          match expand f tb b, expand f tb rest with
          | Some b', Some rest' => Some (G d b' :: rest')
          | _, _ => None
          end
      | E b :: rest =>
          match expand f tb b, expand f tb rest with
          | Some b', Some rest' => Some (E b' :: rest')
          | _, _ => None
          end
      | t :: rest => match expand f tb rest with Some rest' => Some (t :: rest') | None => None end
      end
  end.

(* which arm of [name] an invocation with these argument tokens selects *)
Definition selected_arm (fuel : nat) (tb : table) (name : string) (args : list tt) : option nat :=
  match tlookup name tb with
  | Some arms => match select fuel arms 0 args with inl (Some (n, _, _)) => Some n | _ => None end
  | None => None
  end.

(* ---------- normal form of token trees ----------
   an expression fragment holding one tree is that tree; a block whose whole content is a block is
   that block (macro bodies are written `{{ ... }}` and delegate to each other) *)
Fixpoint norm (fuel : nat) (ts : list tt) {struct fuel} : list tt :=
  match fuel with
  | O => ts
  | S f =>
      map (fun t =>
             match t with
             | E b => match norm f b with [x] => x | b' => E b' end
             | G d b =>
                 match norm f b with
                 | [G d' b'] => if (d =? "{") && (d' =? "{") then G d' b' else G d [G d' b']
                 | b' => G d b'
                 end
             | _ => t
             end) ts
  end.

Definition FUEL : nat := 200.
(* full expansion of the invocation `name ! ( args )` to its normal form *)
Definition expand_call (tb : table) (name : string) (args : list tt) : option (list tt) :=
  match expand FUEL tb [T name; T "!"; G "(" args] with
  | Some out => Some (norm FUEL out)
  | None => None
  end.

(* ---------- boolean equality of token trees ---------- *)
Fixpoint tt_eqb (fuel : nat) (a b : tt) {struct fuel} : bool :=
  match fuel with
  | O => false
  | S f =>
      let fix l_eqb (x y : list tt) : bool :=
        match x, y with
        | [], [] => true
        | p :: x', q :: y' => tt_eqb f p q && l_eqb x' y'
        | _, _ => false
        end in
      match a, b with
      | T s, T s' => s =? s'
      | A s, A s' => s =? s'
      | G d x, G d' y => (d =? d') && l_eqb x y
      | E x, E y => l_eqb x y
      | _, _ => false
      end
  end.
Fixpoint tts_eqb (a b : list tt) : bool :=
  match a, b with
  | [], [] => true
  | p :: x, q :: y => tt_eqb FUEL p q && tts_eqb x y
  | _, _ => false
  end.

(* ---------- printing token trees back as text (for messages and for reading the theorems) ---------- *)
Fixpoint show (fuel : nat) (ts : list tt) {struct fuel} : string :=
  match fuel with
  | O => "..."
  | S f =>
      match ts with
      | [] => ""
      | t :: r =>
          String.append
            (match t with
             | T s => s
             | A s => String.append "<" (String.append s ">")
             | G d b => String.append d (String.append " " (String.append (show f b) (closer d)))
             | E b => String.append "<<" (String.append (show f b) ">>")
             end) (String.append " " (show f r))
      end
  end.
