(* src/registry.rs (definitions). *)
Require Import PV.Base.Prelude PV.Base.F64 PV.Base.Fnv.
Require Import PV.Model.Proto PV.Model.Desc PV.Model.Value.
Open Scope N_scope.

(* What the registry needs to know of a registered collector: its descriptors.  [c_ref] is
   an opaque reference used by the world model to collect it. *)
Record regcore (C : Type) := mkReg {
  r_collectors : list (N * C);          (* collectors_by_id, in some (HashMap) order *)
  r_dim_hashes : list (str * N);        (* dim_hashes_by_name *)
  r_desc_ids : list N;                  (* desc_ids *)
  r_labels : option (list (str * str)); (* common labels (HashMap: distinct keys) *)
  r_prefix : option str }.
Arguments mkReg {C}.
Arguments r_collectors {C}.
Arguments r_dim_hashes {C}.
Arguments r_desc_ids {C}.
Arguments r_labels {C}.
Arguments r_prefix {C}.

Definition reg_empty {C} : regcore C := mkReg [] [] [] None None.

(* histogram::BUCKET_LABEL = "le" (Model/Hist.v proves BUCKET_LABEL = reserved_le) *)
Definition reserved_le : str := [0x6C; 0x65].

(* Registry::new_custom (after the C09b repair and the reserved-le repair) *)
Definition reg_new_custom {C} (prefix : option str) (labels : option (list (str * str))) : result (regcore C) :=
  let bad_prefix := match prefix with Some p => is_nil p || negb (is_valid_metric_name p) | None => false end in
  let bad_labels := match labels with
                    | Some l => negb (forallb (fun kv => is_valid_label_name (fst kv)) l)
                                || existsb (fun kv => str_eqb reserved_le (fst kv)) l    (* the reserved-le repair *)
                    | None => false end in
  if bad_prefix || bad_labels then Err EMsg
  else Ok (mkReg [] [] [] labels prefix).

Definition desc_label_names (d : Desc) : list str := map lp_name (d_const_pairs d) ++ d_vars d.

(* fn collector_id (after the collector-id repair): FNV-1a over the descriptor ids, sorted, each written with
   Hasher::write_u64 (= its 8 bytes in native, i.e. little-endian, order).  Before the repair the ids were added up
   (wrapping), and sums of different id sets coincide for ordinary collectors. *)
Definition le_bytes8 (n : N) : list N :=
  [n mod 256; (n / 256) mod 256; (n / 65536) mod 256; (n / 16777216) mod 256;
   (n / 4294967296) mod 256; (n / 1099511627776) mod 256; (n / 281474976710656) mod 256; (n / 72057594037927936) mod 256].
Definition ids_hash (ids : list N) : N := fnv1a (flat_map le_bytes8 (sort_by N.leb ids)).

(* the per-descriptor loop of RegistryCore::register; state = (ids seen in this collector,
   unused accumulator kept from the pre-repair model, staged dimension hashes); the collector id is computed
   from the set of ids after the loop *)
Fixpoint reg_check_descs {C} (r : regcore C) (ds : list Desc) (seen : list N) (cid : N) (staged : list (str * N))
  : result (list N * N * list (str * N)) :=
  match ds with
  | [] => Ok (seen, ids_hash seen, staged)
  | d :: rest =>
      if memN (d_id d) (r_desc_ids r) then Err EAlreadyReg
      else if match r_labels r with
              | Some common => existsb (fun n => match alookup n common with Some _ => true | None => false end) (desc_label_names d)
              | None => false
              end then Err EMsg
      else
        let known := match alookup (d_fq_name d) (r_dim_hashes r) with
                     | Some h => Some h
                     | None => alookup (d_fq_name d) staged
                     end in
        if match known with Some h => negb (h =? d_dim d) | None => false end then Err EMsg
        else if memN (d_id d) seen then Err EMsg
        else reg_check_descs r rest (d_id d :: seen) cid
                             (ainsert (d_fq_name d) (d_dim d) staged)
  end.

Definition reg_register {C} (r : regcore C) (ds : list Desc) (c : C) : result (regcore C) :=
  match reg_check_descs r ds [] 0 [] with
  | Err e => Err e
  | Ok (seen, cid, staged) =>
      match nlookup cid (r_collectors r) with
      | Some _ => Err EAlreadyReg
      | None => Ok (mkReg (r_collectors r ++ [(cid, c)])
                          (fold_left (fun m kv => ainsert (fst kv) (snd kv) m) staged (r_dim_hashes r))
                          (r_desc_ids r ++ rev seen) (r_labels r) (r_prefix r))
      end
  end.

(* unregister: collector id = ids_hash of the distinct descriptor ids *)
Fixpoint distinct_ids (ds : list Desc) (acc : list N) : list N :=
  match ds with
  | [] => rev acc
  | d :: r => if memN (d_id d) acc then distinct_ids r acc else distinct_ids r (d_id d :: acc)
  end.
Definition collector_id (ds : list Desc) : N := ids_hash (distinct_ids ds []).
Definition reg_unregister {C} (r : regcore C) (ds : list Desc) : result (regcore C) :=
  let cid := collector_id ds in
  match nlookup cid (r_collectors r) with
  | None => Err EMsg
  | Some _ => Ok (mkReg (nremove cid (r_collectors r)) (r_dim_hashes r)
                        (filter (fun i => negb (memN i (distinct_ids ds []))) (r_desc_ids r))
                        (r_labels r) (r_prefix r))
  end.

(* ---- gather ---- *)

(* merge the collected families by name into a name-sorted association list (BTreeMap);
   empty families are pruned; a later family of an existing name only contributes its metrics *)
Fixpoint bt_insert (mf : MetricFamily) (m : list MetricFamily) : list MetricFamily :=
  match m with
  | [] => [mf]
  | x :: t =>
      match str_cmp (mf_name mf) (mf_name x) with
      | Lt => mf :: m
      | Eq => mkMF (mf_name x) (mf_help x) (mf_type x) (mf_metric x ++ mf_metric mf) :: t
      | Gt => x :: bt_insert mf t
      end
  end.
Definition merge_families (collected : list MetricFamily) : list MetricFamily :=
  fold_left (fun m mf => if is_nil (mf_metric mf) then m else bt_insert mf m) collected [].

(* the comparator of the sort_by in gather *)
Fixpoint cmp_label_values (a b : list LabelPair) : comparison :=
  match a, b with
  | x :: a', y :: b' => match str_cmp (lp_value x) (lp_value y) with Eq => cmp_label_values a' b' | c => c end
  | _, _ => Eq
  end.
Definition metric_cmp (m1 m2 : Metric) : comparison :=
  let l1 := m_label m1 in let l2 := m_label m2 in
  if negb (Nat.eqb (length l1) (length l2)) then Nat.compare (length l1) (length l2)
  else match cmp_label_values l1 l2 with
       | Eq => Z.compare (get_ts m1) (get_ts m2)
       | c => c
       end.
Definition metric_leb (m1 m2 : Metric) : bool := match metric_cmp m1 m2 with Gt => false | _ => true end.

Definition USCORE_ : N := 0x5F.
Definition apply_prefix_labels (prefix : option str) (labels : option (list (str * str))) (mf : MetricFamily) : MetricFamily :=
  let name := match prefix with Some p => p ++ [USCORE_] ++ mf_name mf | None => mf_name mf end in
  let metrics :=
    match labels with
    | Some l =>
        let pairs := sort_by lp_leb (map (fun kv => mkLP (fst kv) (snd kv)) l) in
        map (fun m => mkMetric (m_label m ++ pairs) (m_gauge m) (m_counter m) (m_summary m) (m_untyped m) (m_histogram m) (m_ts m))
            (mf_metric mf)
    | None => mf_metric mf
    end in
  mkMF name (mf_help mf) (mf_type mf) metrics.

(* gather, given the families collected from the collectors in iteration order *)
Definition gather_families (prefix : option str) (labels : option (list (str * str))) (collected : list MetricFamily)
  : list MetricFamily :=
  map (fun mf => apply_prefix_labels prefix labels
                   (mkMF (mf_name mf) (mf_help mf) (mf_type mf) (sort_by metric_leb (mf_metric mf))))
      (merge_families collected).
