(* C20: the explicit-call normal forms of the macros of src/macros.rs and their meaning in the
   sequential world model (definitions only).

   - [lblx], [optx], [hoptx], [callx]: abstract syntax of "the explicit call": a label map, an
     Opts value, a HistogramOpts value, and `constructor(args).unwrap()` followed by
     `<registry or default>.register(Box::new(m.clone())).map(|()| m)`.  Arguments are named atoms.
   - [r_*]: the Rust token trees of these terms, exactly as the macros spell them after full
     expansion (Proofs/C20Facts.v proves, arm by arm, that expanding the arms regenerated from
     src/macros.rs gives these trees).
   - [ev_*], [eval_call]: their meaning over Model/World.v under a valuation of the atoms. *)
From Coq Require Import String Ascii.
Require Import PV.Base.Prelude PV.Base.F64.
Require Import PV.Model.Proto PV.Model.Desc PV.Model.Value PV.Model.Hist PV.Model.Vec PV.Model.Registry PV.Model.World.
Require Import PV.Model.MacroRules.
Open Scope string_scope.
Open Scope list_scope.

(* ---------- syntax ---------- *)
Inductive lblx :=
| LVar (a : string)                              (* a HashMap-valued argument *)
| LLit (kvs : list (string * string)).           (* labels!{k => v, ...} *)
Inductive optx :=
| OVar (a : string)                              (* an Opts-valued argument *)
| ONew (name help : string) (ls : list lblx).    (* Opts::new(name, help) with const_labels = the maps of ls, extended in order *)
Inductive hoptx :=
| HVar (a : string)
| HNew (name help : string)
| HBuckets (h : hoptx) (b : string)
| HConsts (h : hoptx) (l : lblx).
Inductive regx := RDefault | RVar (a : string).
Inductive mkind :=
| KCounter | KIntCounter | KGauge | KIntGauge | KHistogram
| KCounterVec | KIntCounterVec | KGaugeVec | KIntGaugeVec | KHistogramVec.
Inductive oarg := OO (o : optx) | OH (h : hoptx).
Record callx := mkCall { c_var : string; c_kind : mkind; c_opts : oarg; c_labels : option string; c_reg : regx }.

(* what an invocation of a public arm stands for *)
Inductive nfx := NLabels (l : lblx) | NOpts (o : optx) | NHOpts (h : hoptx) | NCall (c : callx).

Definition kind_is_vec (k : mkind) : bool :=
  match k with KCounterVec | KIntCounterVec | KGaugeVec | KIntGaugeVec | KHistogramVec => true | _ => false end.
Definition kind_is_hist (k : mkind) : bool := match k with KHistogram | KHistogramVec => true | _ => false end.
Definition wf_call (c : callx) : bool :=
  Bool.eqb (kind_is_hist (c_kind c)) (match c_opts c with OH _ => true | OO _ => false end)
  && Bool.eqb (kind_is_vec (c_kind c)) (match c_labels c with Some _ => true | None => false end).

Definition type_name (k : mkind) : string :=
  match k with
  | KCounter => "Counter" | KIntCounter => "IntCounter" | KGauge => "Gauge" | KIntGauge => "IntGauge"
  | KHistogram => "Histogram" | KCounterVec => "CounterVec" | KIntCounterVec => "IntCounterVec"
  | KGaugeVec => "GaugeVec" | KIntGaugeVec => "IntGaugeVec" | KHistogramVec => "HistogramVec"
  end.
Definition ctor_name (k : mkind) : string := if kind_is_vec k then "new" else "with_opts".

(* ---------- the Rust spelling ---------- *)
(* words separated by single spaces -> tokens *)
Fixpoint words_aux (s : string) (cur : string) : list string :=
  match s with
  | EmptyString => match cur with EmptyString => [] | _ => [cur] end
  | String c r =>
      if Ascii.eqb c " "%char
      then match cur with EmptyString => words_aux r EmptyString | _ => cur :: words_aux r EmptyString end
      else words_aux r (String.append cur (String c EmptyString))
  end.
Definition q (s : string) : list tt := map T (words_aux s EmptyString).
Definition par (l : list tt) : tt := G "(" l.
Definition blk (l : list tt) : tt := G "{" l.

Definition r_lbl (l : lblx) : tt :=
  match l with
  | LVar a => A a
  | LLit kvs =>
      blk (q "use std :: collections :: HashMap ; let mut lbs = HashMap :: new" ++ [par []; T ";"]
           ++ flat_map (fun kv : string * string => q "lbs . insert" ++ [par [A (fst kv); T ","; A (snd kv)]; T ";"]) kvs
           ++ q "lbs")
  end.

Definition into_closure : list tt :=
  [T "|"; par (q "k , v"); T "|"; par ([par (q "* k")] ++ q ". into" ++ [par []; T ","; par (q "* v")] ++ q ". into" ++ [par []])].

Definition r_opts (o : optx) : tt :=
  match o with
  | OVar a => A a
  | ONew n h ls =>
      blk (q "use std :: collections :: HashMap ; let opts = $crate :: Opts :: new" ++ [par [A n; T ","; A h]; T ";"]
           ++ q "let lbs = HashMap :: < String , String > :: new" ++ [par []; T ";"]
           ++ flat_map (fun l => [T "#"; G "[" (q "allow" ++ [par (q "clippy :: redundant_locals")])]
                                 ++ q "let mut lbs = lbs ; lbs . extend"
                                 ++ [par ([r_lbl l] ++ q ". iter" ++ [par []] ++ q ". map" ++ [par into_closure]); T ";"]) ls
           ++ q "opts . const_labels" ++ [par (q "lbs")])
  end.

Fixpoint r_hopts (h : hoptx) : tt :=
  match h with
  | HVar a => A a
  | HNew n hl => blk (q "$crate :: HistogramOpts :: new" ++ [par [A n; T ","; A hl]])
  | HBuckets h' b => blk (q "let hopts =" ++ [r_hopts h'; T ";"] ++ q "hopts . buckets" ++ [par [A b]])
  | HConsts h' l => blk (q "let hopts =" ++ [r_hopts h'; T ";"] ++ q "hopts . const_labels" ++ [par [r_lbl l]])
  end.

Definition r_oarg (o : oarg) : tt := match o with OO x => r_opts x | OH x => r_hopts x end.

(* { let m = $crate::Type::ctor(opts [, labels]).unwrap(); <registry>.register(Box::new(m.clone())).map(|()| m) } *)
Definition r_call (c : callx) : tt :=
  let m := T (c_var c) in
  blk ([T "let"; m; T "="; T "$crate"; T "::"; T (type_name (c_kind c)); T "::"; T (ctor_name (c_kind c));
        par ([r_oarg (c_opts c)] ++ match c_labels c with Some l => [T ","; A l] | None => [] end)]
       ++ q ". unwrap" ++ [par []; T ";"]
       ++ match c_reg c with RDefault => q "$crate :: register" | RVar r => [A r] ++ q ". register" end
       ++ [par (q "Box :: new" ++ [par ([m] ++ q ". clone" ++ [par []])])]
       ++ q ". map" ++ [par [T "|"; par []; T "|"; m]]).

Definition render (n : nfx) : list tt :=
  match n with
  | NLabels l => [r_lbl l]
  | NOpts o => [r_opts o]
  | NHOpts h => [r_hopts h]
  | NCall c => [r_call c]
  end.

(* ---------- meaning ---------- *)
Record valuation := mkVal {
  v_str : string -> str;                      (* names, help texts, label keys and values *)
  v_map : string -> list (str * str);         (* HashMap arguments: distinct keys, some iteration order *)
  v_strs : string -> list str;                (* label-name lists *)
  v_f64s : string -> list f64;                (* bucket lists *)
  v_opts : string -> Opts;
  v_hopts : string -> HistogramOpts;
  v_reg : string -> nat }.                    (* the slot holding a registry argument *)

(* HashMap::extend / insert: later entries replace earlier ones of the same key *)
Definition extend_map (m l : list (str * str)) : list (str * str) :=
  fold_left (fun acc kv => ainsert (fst kv) (snd kv) acc) l m.

Definition ev_lbl (rho : valuation) (l : lblx) : list (str * str) :=
  match l with
  | LVar a => v_map rho a
  | LLit kvs => extend_map [] (map (fun kv : string * string => (v_str rho (fst kv), v_str rho (snd kv))) kvs)
  end.
Definition ev_opts (rho : valuation) (o : optx) : Opts :=
  match o with
  | OVar a => v_opts rho a
  | ONew n h ls => mkOpts [] [] (v_str rho n) (v_str rho h) (fold_left extend_map (map (ev_lbl rho) ls) []) []
  end.
Definition set_consts (o : Opts) (c : list (str * str)) : Opts :=
  mkOpts (o_namespace o) (o_subsystem o) (o_name o) (o_help o) c (o_vars o).
Fixpoint ev_hopts (rho : valuation) (h : hoptx) : HistogramOpts :=
  match h with
  | HVar a => v_hopts rho a
  | HNew n hl => mkHOpts (mkOpts [] [] (v_str rho n) (v_str rho hl) [] []) DEFAULT_BUCKETS
  | HBuckets h' b => mkHOpts (ho_common (ev_hopts rho h')) (v_f64s rho b)
  | HConsts h' l => mkHOpts (set_consts (ho_common (ev_hopts rho h')) (ev_lbl rho l)) (ho_buckets (ev_hopts rho h'))
  end.

(* the explicit constructor call as an operation of the world model; None = ill-formed term *)
Definition ctor_op (rho : valuation) (c : callx) : option op :=
  match c_kind c, c_opts c, c_labels c with
  | KCounter, OO o, None => Some (OpCounter NF (ev_opts rho o))
  | KIntCounter, OO o, None => Some (OpCounter NU (ev_opts rho o))
  | KGauge, OO o, None => Some (OpGauge NF (ev_opts rho o))
  | KIntGauge, OO o, None => Some (OpGauge NI (ev_opts rho o))
  | KHistogram, OH h, None => Some (OpHistogram (ev_hopts rho h))
  | KCounterVec, OO o, Some l => Some (OpCounterVec NF (ev_opts rho o) (v_strs rho l))
  | KIntCounterVec, OO o, Some l => Some (OpCounterVec NU (ev_opts rho o) (v_strs rho l))
  | KGaugeVec, OO o, Some l => Some (OpGaugeVec NF (ev_opts rho o) (v_strs rho l))
  | KIntGaugeVec, OO o, Some l => Some (OpGaugeVec NI (ev_opts rho o) (v_strs rho l))
  | KHistogramVec, OH h, Some l => Some (OpHistVec (ev_hopts rho h) (v_strs rho l))
  | _, _, _ => None
  end.
(* [dflt] = the slot of the process-wide default registry *)
Definition reg_slot (rho : valuation) (dflt : nat) (r : regx) : nat :=
  match r with RDefault => dflt | RVar a => v_reg rho a end.

(* Evaluating the normal form of a register_* invocation:
     let m = Type::ctor(..).unwrap();            constructor refused -> the unwrap panics
     REG.register(Box::new(m.clone())).map(|()| m)
   The metric handle is the next slot.  On Ok the slot holds the handle the invocation evaluates to;
   on Err / panic there is no handle (a dead slot: the metric has been dropped). *)
Definition eval_call (rho : valuation) (dflt : nat) (c : callx) (w : world) : world * obs :=
  match ctor_op rho c with
  | None => (push_slot w HDead, OBad)
  | Some cop =>
      let s := length (w_slots w) in
      let (w1, o1) := step w cop in
      match o1 with
      | ORes (Ok _) =>
          let (w2, o2) := step w1 (OpRegister (reg_slot rho dflt (c_reg c)) s) in
          match o2 with
          | ORes (Ok _) => (w2, o2)
          | _ => (put_slot w2 s HDead, o2)
          end
      | _ => (w1, OPanic)
      end
  end.

(* histories mixing plain operations and macro invocations *)
Inductive mop := MOp (o : op) | MCall (c : callx).
Fixpoint mrun (rho : valuation) (dflt : nat) (w : world) (l : list mop) : list obs :=
  match l with
  | [] => []
  | MOp o :: r => let (w', ob) := step w o in ob :: mrun rho dflt w' r
  | MCall c :: r => let (w', ob) := eval_call rho dflt c w in ob :: mrun rho dflt w' r
  end.

(* Opts / HistogramOpts / label-map values as observations (const labels as pairs sorted by name) *)
Definition pairs_obs (m : list (str * str)) : list LabelPair :=
  sort_by lp_leb (map (fun kv => mkLP (fst kv) (snd kv)) m).
Definition opts_obs (o : Opts) : list obs :=
  [OStr (o_namespace o); OStr (o_subsystem o); ODescs [(o_name o, o_help o, 0%N, 0%N, pairs_obs (o_consts o), o_vars o)]].
Definition hopts_obs (h : HistogramOpts) : list obs := opts_obs (ho_common h) ++ [OBuckets (Some (ho_buckets h))].
Definition map_obs (m : list (str * str)) : list obs := [ODescs [([], [], 0%N, 0%N, pairs_obs m, [])]].
