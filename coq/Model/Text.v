(* src/encoder/text.rs + check_metric_family of src/encoder/mod.rs (definitions only).

   Two presentations of the same encoder:
   (1) the WRITER model, which follows the code statement by statement: every
       `writer.write_all(text)` appends the UTF-8 bytes of `text` to the byte buffer that is
       threaded through `encode_impl`, `write_sample`, `label_pairs_to_text`;
   (2) the RENDER model, a pure function from families to a list of lines of code points
       (no buffer), which is what the parser-side proofs talk about.
   Proofs/TextFacts.v proves (1) = buf ++ utf8 (unlines (2)).

   `f64::to_string` / `i64::to_string` are Rust std, not this repository: they are the section
   variables [show] / [showz] (oracles).  The theorems state what they need from them; the
   per-run check instantiates them by lookup tables filled by the harness. *)
From Coq Require Import String Ascii.
Require Import PV.Base.Prelude PV.Base.F64 PV.Base.Utf8 PV.Model.Proto PV.Model.Value.
Open Scope N_scope.

(* ASCII literals as code-point lists *)
Definition cps (s : string) : str := List.map N_of_ascii (list_ascii_of_string s).

Definition LF : N := 10.
Definition BS : N := 92.
Definition DQ : N := 34.
Definition SP : N := 32.
Definition LBRACE : N := 123.
Definition RBRACE : N := 125.
Definition EQC : N := 61.
Definition COMMA : N := 44.
Definition LOWER_N : N := 110.

Definition k_help : str := Eval vm_compute in cps "# HELP ".
Definition k_type : str := Eval vm_compute in cps "# TYPE ".
Definition k_bucket : str := Eval vm_compute in cps "_bucket".
Definition k_sum : str := Eval vm_compute in cps "_sum".
Definition k_count : str := Eval vm_compute in cps "_count".
Definition k_le : str := Eval vm_compute in cps "le".                 (* histogram::BUCKET_LABEL *)
Definition k_quantile : str := Eval vm_compute in cps "quantile".     (* QUANTILE *)
Definition k_pos_inf : str := Eval vm_compute in cps "+Inf".          (* POSITIVE_INF *)

(* format!("{:?}", metric_type).to_lowercase() *)
Definition w_counter : str := Eval vm_compute in cps "counter".
Definition w_gauge : str := Eval vm_compute in cps "gauge".
Definition w_summary : str := Eval vm_compute in cps "summary".
Definition w_untyped : str := Eval vm_compute in cps "untyped".
Definition w_histogram : str := Eval vm_compute in cps "histogram".
Definition type_word (t : MetricType) : str :=
  match t with
  | COUNTER => w_counter
  | GAUGE => w_gauge
  | SUMMARY => w_summary
  | UNTYPED => w_untyped
  | HISTOGRAM => w_histogram
  end.

(* what the caller sees: the result and the buffer (the harness reports the same three shapes) *)
Inductive eres := EOk (out : list N) | EErr (e : err) (out : list N) | EPanic.

(* ------------------------------------------------------------------ escape_string *)
(* char::escape_default on the three characters the encoder passes to it *)
Definition esc_char (q : bool) (c : N) : str :=
  if c =? BS then [BS; BS]
  else if c =? LF then [BS; LOWER_N]
  else if q && (c =? DQ) then [BS; DQ]
  else [c].
Definition needs_escape (q : bool) (c : N) : bool := (c =? BS) || (c =? LF) || (q && (c =? DQ)).

(* find_first_occurence + v[0..first] / v[first..]: memchr works on bytes; the three bytes are
   ASCII, and an ASCII byte occurs in UTF-8 only as the encoding of that very code point
   (TextFacts.first_occurrence_bytes), so the split is modelled on code points. *)
Fixpoint split_first (p : N -> bool) (s : str) : option (str * str) :=
  match s with
  | [] => None
  | c :: r => if p c then Some ([], s)
              else match split_first p r with Some (a, b) => Some (c :: a, b) | None => None end
  end.
(* the simple specification: escape every character *)
Definition escape_plain (q : bool) (s : str) : str := flat_map (esc_char q) s.
(* the code: nothing to escape -> the input itself; otherwise copy the prefix, escape the rest *)
Definition escape_string (s : str) (include_double_quote : bool) : str :=
  match split_first (needs_escape include_double_quote) s with
  | None => s
  | Some (prefix, remainder) => prefix ++ flat_map (esc_char include_double_quote) remainder
  end.

(* ------------------------------------------------------------------ (2) render model *)
Definition render_label (l : LabelPair) : str :=
  lp_name l ++ [EQC; DQ] ++ escape_string (lp_value l) true ++ [DQ].
Fixpoint render_label_tail (ls : list LabelPair) : str :=
  match ls with
  | [] => [RBRACE]
  | l :: r => COMMA :: render_label l ++ render_label_tail r
  end.
Definition render_labels (ls : list LabelPair) : str :=
  match ls with
  | [] => []
  | l :: r => LBRACE :: render_label l ++ render_label_tail r
  end.

Definition opt_list {A} (o : option A) : list A := match o with Some x => [x] | None => [] end.

Section Oracles.
  Variable show : f64 -> str.      (* f64::to_string *)
  Variable showz : Z -> str.       (* i64::to_string *)

  (* one sample line, without its LF *)
  Definition sample_line (name : str) (postfix : option str) (m : Metric) (additional : option LabelPair) (value : f64) : str :=
    name ++ match postfix with Some p => p | None => [] end
    ++ render_labels (m_label m ++ opt_list additional)
    ++ [SP] ++ show value
    ++ (if (get_ts m =? 0)%Z then [] else SP :: showz (get_ts m)).

  Definition ik_pos_inf (x : f64) : bool := f_pos_inf x.   (* is_sign_positive() && is_infinite() *)

  Definition bucket_line (name : str) (m : Metric) (b : Bucket) : str :=
    sample_line name (Some k_bucket) m (Some (mkLP k_le (show (b_upper b)))) (f_of_N (b_cum b)).
  Definition hist_lines (name : str) (m : Metric) : list str :=
    let h := get_histogram m in
    List.map (bucket_line name m) (h_bucket h)
    ++ (if existsb (fun b => ik_pos_inf (b_upper b)) (h_bucket h) then []
        else [sample_line name (Some k_bucket) m (Some (mkLP k_le k_pos_inf)) (f_of_N (h_count h))])
    ++ [sample_line name (Some k_sum) m None (h_sum h);
        sample_line name (Some k_count) m None (f_of_N (h_count h))].
  Definition quantile_line (name : str) (m : Metric) (q : Quantile) : str :=
    sample_line name None m (Some (mkLP k_quantile (show (q_quantile q)))) (q_value q).
  Definition summary_lines (name : str) (m : Metric) : list str :=
    let s := get_summary m in
    List.map (quantile_line name m) (s_quantile s)
    ++ [sample_line name (Some k_sum) m None (s_sum s);
        sample_line name (Some k_count) m None (f_of_N (s_count s))].

  (* None = the UNTYPED arm (Err) *)
  Definition metric_lines (t : MetricType) (name : str) (m : Metric) : option (list str) :=
    match t with
    | COUNTER => Some [sample_line name None m None (get_counter m)]
    | GAUGE => Some [sample_line name None m None (get_gauge m)]
    | HISTOGRAM => Some (hist_lines name m)
    | SUMMARY => Some (summary_lines name m)
    | UNTYPED => None
    end.

  Definition header_lines (mf : MetricFamily) : list str :=
    (if is_nil (mf_help mf) then [] else [k_help ++ mf_name mf ++ [SP] ++ escape_string (mf_help mf) false])
    ++ [k_type ++ mf_name mf ++ [SP] ++ type_word (mf_type mf)].

  (* encoder::check_metric_family: true = Ok *)
  Definition check_metric_family (mf : MetricFamily) : bool :=
    negb (is_nil (mf_metric mf)) && negb (is_nil (mf_name mf)).

  (* lines of the metrics of one family up to the first failure; flag = no failure *)
  Fixpoint metrics_lines (t : MetricType) (name : str) (ms : list Metric) : list str * bool :=
    match ms with
    | [] => ([], true)
    | m :: r => match metric_lines t name m with
                | None => ([], false)
                | Some ls => let '(ls', ok) := metrics_lines t name r in (ls ++ ls', ok)
                end
    end.
  (* all lines written for a list of families; flag = Ok *)
  Fixpoint render_families (fams : list MetricFamily) : list str * bool :=
    match fams with
    | [] => ([], true)
    | mf :: r =>
        if negb (check_metric_family mf) then ([], false)
        else let '(ml, ok) := metrics_lines (mf_type mf) (mf_name mf) (mf_metric mf) in
             if ok then let '(rl, ok') := render_families r in (header_lines mf ++ ml ++ rl, ok')
             else (header_lines mf ++ ml, false)
    end.

  Definition unlines (ls : list str) : str := flat_map (fun l => l ++ [LF]) ls.
  (* the text as code points *)
  Definition text_cps (fams : list MetricFamily) : str := unlines (fst (render_families fams)).

  (* ------------------------------------------------------------------ (1) writer model *)
  Definition writer := list N.                                   (* the bytes in the output buffer *)
  Definition write_all (w : writer) (text : str) : writer := w ++ utf8 text.

  (* the loop over `pairs`: returns the buffer and the current separator *)
  Fixpoint write_pairs (w : writer) (separator : str) (pairs : list LabelPair) : writer * str :=
    match pairs with
    | [] => (w, separator)
    | lp :: r =>
        let w := write_all w separator in
        let w := write_all w (lp_name lp) in
        let w := write_all w [EQC; DQ] in
        let w := write_all w (escape_string (lp_value lp) true) in
        let w := write_all w [DQ] in
        write_pairs w [COMMA] r
    end.
  Definition label_pairs_to_text (pairs : list LabelPair) (additional : option (str * str)) (w : writer) : writer :=
    if is_nil pairs && match additional with None => true | Some _ => false end then w
    else
      let '(w, separator) := write_pairs w [LBRACE] pairs in
      let w := match additional with
               | Some (name, value) =>
                   let w := write_all w separator in
                   let w := write_all w name in
                   let w := write_all w [EQC; DQ] in
                   let w := write_all w (escape_string value true) in
                   write_all w [DQ]
               | None => w
               end in
      write_all w [RBRACE].

  Definition write_sample (w : writer) (name : str) (postfix : option str) (mc : Metric)
             (additional : option (str * str)) (value : f64) : writer :=
    let w := write_all w name in
    let w := match postfix with Some p => write_all w p | None => w end in
    let w := label_pairs_to_text (m_label mc) additional w in
    let w := write_all w [SP] in
    let w := write_all w (show value) in
    let timestamp := get_ts mc in
    let w := if (timestamp =? 0)%Z then w else write_all (write_all w [SP]) (showz timestamp) in
    write_all w [LF].

  Fixpoint write_buckets (w : writer) (name : str) (m : Metric) (bs : list Bucket) (inf_seen : bool) : writer * bool :=
    match bs with
    | [] => (w, inf_seen)
    | b :: r =>
        let upper_bound := b_upper b in
        let w := write_sample w name (Some k_bucket) m (Some (k_le, show upper_bound)) (f_of_N (b_cum b)) in
        write_buckets w name m r (if ik_pos_inf upper_bound then true else inf_seen)
    end.
  Fixpoint write_quantiles (w : writer) (name : str) (m : Metric) (qs : list Quantile) : writer :=
    match qs with
    | [] => w
    | q :: r => write_quantiles (write_sample w name None m (Some (k_quantile, show (q_quantile q))) (q_value q)) name m r
    end.

  (* the body of `for m in mf.get_metric()`; false = return Err *)
  Definition write_metric (w : writer) (t : MetricType) (name : str) (m : Metric) : writer * bool :=
    match t with
    | COUNTER => (write_sample w name None m None (get_counter m), true)
    | GAUGE => (write_sample w name None m None (get_gauge m), true)
    | HISTOGRAM =>
        let h := get_histogram m in
        let '(w, inf_seen) := write_buckets w name m (h_bucket h) false in
        let w := if inf_seen then w
                 else write_sample w name (Some k_bucket) m (Some (k_le, k_pos_inf)) (f_of_N (h_count h)) in
        let w := write_sample w name (Some k_sum) m None (h_sum h) in
        (write_sample w name (Some k_count) m None (f_of_N (h_count h)), true)
    | SUMMARY =>
        let s := get_summary m in
        let w := write_quantiles w name m (s_quantile s) in
        let w := write_sample w name (Some k_sum) m None (s_sum s) in
        (write_sample w name (Some k_count) m None (f_of_N (s_count s)), true)
    | UNTYPED => (w, false)
    end.
  Fixpoint write_metrics (w : writer) (t : MetricType) (name : str) (ms : list Metric) : writer * bool :=
    match ms with
    | [] => (w, true)
    | m :: r => let '(w, ok) := write_metric w t name m in
                if ok then write_metrics w t name r else (w, false)
    end.

  Fixpoint encode_impl (fams : list MetricFamily) (w : writer) : writer * bool :=
    match fams with
    | [] => (w, true)
    | mf :: r =>
        if negb (check_metric_family mf) then (w, false)
        else
          let name := mf_name mf in
          let help := mf_help mf in
          let w := if negb (is_nil help)
                   then let w := write_all w k_help in
                        let w := write_all w name in
                        let w := write_all w [SP] in
                        let w := write_all w (escape_string help false) in
                        write_all w [LF]
                   else w in
          let w := write_all w k_type in
          let w := write_all w name in
          let w := write_all w [SP] in
          let w := write_all w (type_word (mf_type mf)) in
          let w := write_all w [LF] in
          let '(w, ok) := write_metrics w (mf_type mf) name (mf_metric mf) in
          if ok then encode_impl r w else (w, false)
    end.

  Definition finish (r : writer * bool) : eres := if snd r then EOk (fst r) else EErr EMsg (fst r).

  (* <TextEncoder as Encoder>::encode on a Vec<u8> / any writer that never fails *)
  Definition encode (buf : list N) (fams : list MetricFamily) : eres := finish (encode_impl fams buf).
  (* TextEncoder::encode_utf8: the String buffer is its UTF-8 bytes, StringBuf::write_all = push_str *)
  Definition encode_utf8 (buf : list N) (fams : list MetricFamily) : eres := finish (encode_impl fams buf).
  (* TextEncoder::encode_to_string: a fresh String; on Err the String is dropped *)
  Definition encode_to_string (fams : list MetricFamily) : eres :=
    match encode_utf8 [] fams with
    | EOk out => EOk out
    | EErr e _ => EErr e []
    | EPanic => EPanic
    end.

  Definition text_encode : list N -> list MetricFamily -> eres := encode.
End Oracles.
