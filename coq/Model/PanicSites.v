(* C17: the panic sites on the paths of the Result-returning public API, as data, and a model of
   each of those functions with THREE outcomes (definitions only; proofs in Proofs/C17Facts.v).

   Why this file exists.  The models in Model/*.v are total functions that return Err where the
   code returns Err; where the code would panic (unwrap, indexing, slicing, arithmetic overflow in a
   debug build, a macro such as unimplemented!) those models simply compute something (for
   instance Model/Desc.v reads a missing constant label as the empty string).  "It never panics"
   would then be an artefact of writing total functions.  Here every such place of the source is
   listed (section 1) and every listed place on a Result-returning path is an explicit [TPanic]
   branch of the model, guarded by the condition under which the Rust expression panics
   (section 3 onwards).  The theorems of Proofs/C17Facts.v show that each guard is excluded by
   the checks that precede it, for all arguments; only then do the three-outcome models collapse
   to the total models of Model/*.v, which the correspondence check ties to the code.

   The models follow the order of evaluation of the source.  A site whose firing condition is a
   size (capacity overflow, length arithmetic) is guarded by that size; the property speaks of
   arguments "of bounded size" and the theorems carry the bound explicitly.  Arithmetic sites are
   those of a build with overflow checks (the debug profile); without them the expression wraps
   instead, and since the firing conditions are excluded the two builds agree.

   Not modelled (covered by the sweep only): allocation failure (an abort, not a panic), a
   poisoned std Mutex after a foreign panic, panics inside user code called back by the library
   (a Collector's desc() / collect(), a Write implementation). *)
Require Import PV.Base.Prelude PV.Base.Utf8 PV.Base.Fnv PV.Base.F64.
Require Import PV.Model.Proto PV.Model.Desc PV.Model.Value PV.Model.Hist PV.Model.Vec PV.Model.Registry PV.Model.World.
Require Import PV.Model.Text PV.Model.Pb.
Require Coq.Strings.String.
Open Scope N_scope.

(* ====================================================================================== *)
(* 1. The inventory                                                                        *)
(* ====================================================================================== *)
(* Site numbers used by the models below. *)
Definition S_DESC_UNWRAP : nat := 1.     (* desc.rs:135 *)
Definition S_DESC_CAP : nat := 2.        (* desc.rs:112 *)
Definition S_MLP_INDEX : nat := 3.       (* value.rs:138 *)
Definition S_MLP_ADD : nat := 4.         (* value.rs:125 *)
Definition S_CAB_SUB : nat := 5.         (* histogram.rs:58 *)
Definition S_CAB_INDEX : nat := 6.       (* histogram.rs:58 / 63 *)
Definition S_CAB_LAST : nat := 7.        (* histogram.rs:68 *)
Definition S_LIN_CAP : nat := 8.         (* histogram.rs:857-859 *)
Definition S_EXP_CAP : nat := 9.         (* histogram.rs:895 *)
Definition S_ESC_SLICE_HEAD : nat := 10. (* encoder/text.rs:268 *)
Definition S_ESC_SLICE_TAIL : nat := 11. (* encoder/text.rs:269 *)
Definition S_ESC_MUL : nat := 12.        (* encoder/text.rs:267 *)
Definition S_TEXT_UNTYPED : nat := 13.   (* encoder/text.rs:150-156, repaired by 3d1bf37 *)
Definition S_DEFAULT_REG : nat := 14.    (* registry.rs:350 *)

Module Inventory.
  Import Coq.Strings.String.
  Local Open Scope string_scope.

  Inductive kind :=
  | KUnwrap | KExpect | KIndex | KSlice | KArith | KCapacity | KPanicMacro | KAssert | KDebugAssert
  | KRepaired.   (* was a panic in the pinned tree, is a `return Err` now *)

  (* [s_path]: true = on the path of a Result-returning public function of the property's list
     (then a model below has a TPanic branch with this number); false = listed because the scanner
     sees its token in one of the files, but the enclosing function does not return Result. *)
  Record site := mkSite {
    s_id : nat; s_file : string; s_line : N; s_fn : string; s_kind : kind; s_path : bool;
    s_snippet : string;      (* text looked for in the bodies of the functions called [s_fn] of that file (white space ignored) *)
    s_count : N;             (* number of occurrences there *)
    s_cond : string }.       (* the argument condition under which the expression panics *)

  Definition model_sites : list site := [
    mkSite 1 "desc.rs" 135 "new" KUnwrap true "const_labels.get(label_name).cloned().unwrap()" 1
      "a name collected from const_labels.keys() is not a key of const_labels";
    mkSite 2 "desc.rs" 112 "new" KArith true "Vec::with_capacity(const_labels.len() + 1)" 1
      "const_labels.len() = usize::MAX (the addition overflows)";
    mkSite 3 "value.rs" 138 "make_label_pairs" KIndex true "label_values[i]" 1
      "label_values.len() < desc.variable_labels.len() (some index i < variable_labels.len() is out of bounds)";
    mkSite 4 "value.rs" 125 "make_label_pairs" KArith true "desc.variable_labels.len() + desc.const_label_pairs.len()" 1
      "the two lengths add up to more than usize::MAX";
    mkSite 5 "histogram.rs" 58 "check_and_adjust_buckets" KArith true "(buckets.len() - 1)" 1
      "evaluated with buckets.len() = 0 (the subtraction underflows; without overflow checks it wraps and site 6 fires)";
    mkSite 6 "histogram.rs" 58 "check_and_adjust_buckets" KIndex true "*upper_bound >= buckets[i + 1]" 1
      "i + 1 >= buckets.len()";
    mkSite 7 "histogram.rs" 68 "check_and_adjust_buckets" KUnwrap true "buckets.last().unwrap()" 1
      "buckets is empty after the default buckets were substituted for an empty list";
    mkSite 8 "histogram.rs" 859 "linear_buckets" KCapacity true ".collect()" 1
      "count * 8 bytes exceed isize::MAX (capacity overflow of the collected Vec<f64>)";
    mkSite 9 "histogram.rs" 895 "exponential_buckets" KCapacity true "Vec::with_capacity(count)" 1
      "count * 8 bytes exceed isize::MAX (capacity overflow)";
    mkSite 10 "encoder/text.rs" 268 "escape_string" KSlice true "&v[0..first]" 1
      "first is not a char boundary of v";
    mkSite 11 "encoder/text.rs" 269 "escape_string" KSlice true "v[first..]" 1
      "first is not a char boundary of v";
    mkSite 12 "encoder/text.rs" 267 "escape_string" KArith true "v.len() * 2" 1
      "v.len() >= 2^63 (the multiplication overflows)";
    mkSite 13 "encoder/text.rs" 154 "encode_impl" KRepaired true "has unsupported type UNTYPED" 1
      "a family that passes check_metric_family has type UNTYPED (unimplemented!() before 3d1bf37, Err since)";
    mkSite 14 "registry.rs" 350 "" KUnwrap true "register_default_process_collector(&reg).unwrap()" 1
      "first use of the default registry (free functions register / unregister) and registering the process collector on the empty registry fails; without the `process` feature that function is `Ok(())`";
    (* tokens in the listed files that are NOT on a Result-returning path *)
    mkSite 15 "vec.rs" 303 "with_label_values" KUnwrap false "self.get_metric_with_label_values(vals).unwrap()" 1
      "documented: panics where get_metric_with_label_values returns Err; returns T::M, not Result";
    mkSite 16 "vec.rs" 313 "with" KUnwrap false "self.get_metric_with(labels).unwrap()" 1
      "documented: panics where get_metric_with returns Err; returns T::M, not Result";
    mkSite 17 "counter.rs" 287 "with_label_values" KUnwrap false "self.vec.v.hash_label_values(vals).unwrap()" 1
      "local vector, wrong number of label values; returns a reference, not Result";
    mkSite 18 "histogram.rs" 1184 "with_label_values" KUnwrap false "self.vec.v.hash_label_values(vals).unwrap()" 1
      "local vector, wrong number of label values; returns a reference, not Result";
    mkSite 19 "histogram.rs" 217 "from" KPanicMacro false "Invalid shard index" 1
      "ShardIndex::from(n >> 63) with a value other than 0 or 1: impossible for a u64; reached from observe / collect only";
    mkSite 20 "histogram.rs" 404 "proto" KExpect false "self.collect_lock.lock().expect(" 1
      "the collect lock is poisoned; collect path, no Result";
    mkSite 21 "histogram.rs" 478 "sample_sum" KExpect false "self.collect_lock.lock().expect(" 1
      "the collect lock is poisoned; get_sample_sum, no Result";
    mkSite 22 "histogram.rs" 578 "get_time_coarse" KAssert false "assert_eq!(" 1
      "clock_gettime fails; nightly feature only";
    mkSite 23 "counter.rs" 62 "inc_by" KDebugAssert false "debug_assert!(v >= P::T::from_i64(0))" 2
      "documented: a negative increment of a counter (line 62) or local counter (line 206) in a debug build; returns ()"
  ].

  (* What the source scanner (tools/p_C17.py) reports for the files below, as the models expect it:
     per file the functions (in source order, outside #[cfg(test)] modules) that contain at least
     one panic-capable token, with the number of occurrences per token, and the per-file totals
     (which also see tokens outside any function body).
     token order: .unwrap(  .expect(  panic!  unimplemented!  unreachable!  assert!  assert_eq!  assert_ne!  todo!  debug_assert! *)
  Definition token_names : list string :=
    [".unwrap("; ".expect("; "panic!"; "unimplemented!"; "unreachable!"; "assert!"; "assert_eq!"; "assert_ne!"; "todo!"; "debug_assert"].

  Definition file_inventory := (string * list N * list (string * list N))%type.

  Definition model_inventory : list file_inventory := [
    ("desc.rs",           [1;0;0;0;0;0;0;0;0;0], [("new", [1;0;0;0;0;0;0;0;0;0])]);
    ("metrics.rs",        [0;0;0;0;0;0;0;0;0;0], []);
    ("value.rs",          [0;0;0;0;0;0;0;0;0;0], []);
    ("counter.rs",        [1;0;0;0;0;0;0;0;0;2], [("inc_by", [0;0;0;0;0;0;0;0;0;1]); ("inc_by", [0;0;0;0;0;0;0;0;0;1]);
                                                  ("with_label_values", [1;0;0;0;0;0;0;0;0;0])]);
    ("gauge.rs",          [0;0;0;0;0;0;0;0;0;0], []);
    ("pulling_gauge.rs",  [0;0;0;0;0;0;0;0;0;0], []);
    ("histogram.rs",      [2;2;1;0;0;0;1;0;0;0], [("check_and_adjust_buckets", [1;0;0;0;0;0;0;0;0;0]); ("from", [0;0;1;0;0;0;0;0;0;0]);
                                                  ("proto", [0;1;0;0;0;0;0;0;0;0]); ("sample_sum", [0;1;0;0;0;0;0;0;0;0]);
                                                  ("get_time_coarse", [0;0;0;0;0;0;1;0;0;0]); ("with_label_values", [1;0;0;0;0;0;0;0;0;0])]);
    ("vec.rs",            [2;0;0;0;0;0;0;0;0;0], [("with_label_values", [1;0;0;0;0;0;0;0;0;0]); ("with", [1;0;0;0;0;0;0;0;0;0])]);
    ("registry.rs",       [1;0;0;0;0;0;0;0;0;0], []);
    ("errors.rs",         [0;0;0;0;0;0;0;0;0;0], []);
    ("encoder/mod.rs",    [0;0;0;0;0;0;0;0;0;0], []);
    ("encoder/text.rs",   [0;0;0;0;0;0;0;0;0;0], []);
    ("encoder/pb.rs",     [0;0;0;0;0;0;0;0;0;0], [])
  ].

  (* id, file, function, snippet, number of occurrences of the snippet in the functions of that
     name (in the whole file outside test modules if the name is empty): every listed site is
     still where the inventory says *)
  Definition model_site_presence : list (nat * string * string * string * N) :=
    List.map (fun s => (s_id s, s_file s, s_fn s, s_snippet s, s_count s)) model_sites.
End Inventory.

(* ====================================================================================== *)
(* 2. Three outcomes                                                                       *)
(* ====================================================================================== *)
Inductive tri (A : Type) := TOk (a : A) | TErr (e : err) | TPanic (site : nat).
Arguments TOk {A} a.
Arguments TErr {A} e.
Arguments TPanic {A} site.
Definition tbind {A B} (x : tri A) (f : A -> tri B) : tri B :=
  match x with TOk a => f a | TErr e => TErr e | TPanic s => TPanic s end.

(* what the caller of a Result-returning function can see happen *)
Inductive outcome := OutOk | OutErr (e : err) | OutPanic (site : nat).
Definition outcome_of {A} (x : tri A) : outcome :=
  match x with TOk _ => OutOk | TErr e => OutErr e | TPanic s => OutPanic s end.
Definition of_option {A} (o : option A) : tri A := match o with Some a => TOk a | None => TErr EMsg end.
Definition of_result {A} (r : result A) : tri A := match r with Ok a => TOk a | Err e => TErr e end.
Definition is_panic (o : outcome) : bool := match o with OutPanic _ => true | _ => false end.
Definition is_err (o : outcome) : bool := match o with OutErr _ => true | _ => false end.
Definition is_none {A} (o : option A) : bool := match o with None => true | Some _ => false end.

Definition usize_max : N := 0xFFFFFFFFFFFFFFFF.
Definition isize_max : N := 0x7FFFFFFFFFFFFFFF.

(* ====================================================================================== *)
(* 3. Desc::new (desc.rs:86-188), Opts::describe, PullingGauge::new                         *)
(* ====================================================================================== *)
(* [consts] is the HashMap<String,String> as an association list (Model/Desc.v).  Order of the
   source: help, fq_name, Vec::with_capacity(len + 1) [site 2], the loop over const_labels.keys()
   (label-name validity; the `duplicate const label name` return is dead for a HashMap), the
   loop `label_values.push(const_labels.get(name).cloned().unwrap())` over the sorted names
   [site 1], then the variable labels and the hashes, for which Model/Desc.desc_new is reused
   (its own re-evaluation of the earlier checks gives the same answers). *)
Definition desc_new_t (fq help : str) (vars : list str) (consts : list (str * str)) : tri Desc :=
  if is_nil help then TErr EMsg
  else if negb (is_valid_metric_name fq) then TErr EMsg
  else if usize_max <? lenN consts + 1 then TPanic S_DESC_CAP
  else if negb (forallb (fun kv => is_valid_label_name (fst kv)) consts) then TErr EMsg
  else if existsb (fun k => is_none (alookup k consts)) (sort_by str_leb (map fst consts)) then TPanic S_DESC_UNWRAP
  else of_option (desc_new fq help vars consts).

Definition describe_t (o : Opts) : tri Desc := desc_new_t (opts_fq_name o) (o_help o) (o_vars o) (o_consts o).
Definition pulling_gauge_new_t (name help : str) : tri Desc := desc_new_t name help [] [].

(* ====================================================================================== *)
(* 4. make_label_pairs (value.rs:117-147), Value::new, Counter / Gauge constructors          *)
(* ====================================================================================== *)
(* `label_values[i]` for every i < variable_labels.len() *)
Definition index_oob (n_vars n_vals : nat) : bool := existsb (fun i => Nat.leb n_vals i) (seq 0 n_vars).

(* the function after its cardinality check *)
Definition make_label_pairs_body (d : Desc) (vals : list str) : tri (list LabelPair) :=
  if usize_max <? lenN (d_vars d) + lenN (d_const_pairs d) then TPanic S_MLP_ADD
  else if is_nil (d_vars d) && is_nil (d_const_pairs d) then TOk []
  else if is_nil (d_vars d) then TOk (d_const_pairs d)
  else if index_oob (length (d_vars d)) (length vals) then TPanic S_MLP_INDEX
  else TOk (sort_by lp_leb (map (fun nv => mkLP (fst nv) (snd nv)) (combine (d_vars d) vals) ++ d_const_pairs d)).
Definition make_label_pairs_t (d : Desc) (vals : list str) : tri (list LabelPair) :=
  if negb (lenN (d_vars d) =? lenN vals) then TErr (ECard (lenN (d_vars d)) (lenN vals))
  else make_label_pairs_body d vals.
(* the same function with the check at value.rs:118 removed: what the guard protects *)
Definition make_label_pairs_unchecked := make_label_pairs_body.

(* Value::new = describe, then make_label_pairs; GenericCounter / GenericGauge::with_opts call it
   with no label values, the vector builders with the requested values *)
Definition value_new_t (o : Opts) (t : valtype) (k : numkind) (vals : list str) : tri vcore :=
  tbind (describe_t o) (fun d =>
  tbind (make_label_pairs_t d vals) (fun ls => TOk (mkVCore d t (num_zero k) ls))).

(* ====================================================================================== *)
(* 5. check_and_adjust_buckets (histogram.rs:49-75), HistogramCore::new, Histogram::with_opts *)
(* ====================================================================================== *)
(* the `for (i, upper_bound) in buckets.iter().enumerate()` loop; [len] = buckets.len(),
   [all] = buckets, [rest] = the elements not yet visited, [i] = the index of the head of rest *)
Fixpoint check_loop (len : nat) (all rest : list f64) (i : nat) : tri unit :=
  match rest with
  | [] => TOk tt
  | ub :: r =>
      if f_is_nan ub then TErr EMsg
      else if Nat.eqb len 0 then TPanic S_CAB_SUB                    (* buckets.len() - 1 *)
      else if Nat.ltb i (len - 1) then
        match nth_error all (S i) with                               (* buckets[i + 1] *)
        | None => TPanic S_CAB_INDEX
        | Some next => if PrimFloat.leb next ub then TErr EMsg else check_loop len all r (S i)
        end
      else check_loop len all r (S i)
  end.
Definition check_and_adjust_buckets_t (bs : list f64) : tri (list f64) :=
  let bs0 := if is_nil bs then DEFAULT_BUCKETS else bs in
  tbind (check_loop (length bs0) bs0 bs0 O) (fun _ =>
  match rev bs0 with
  | [] => TPanic S_CAB_LAST                                          (* buckets.last().unwrap() *)
  | t :: r => TOk (if f_pos_inf t then rev r else bs0)
  end).

Definition hcore_new_t (o : HistogramOpts) (vals : list str) : tri hcore :=
  tbind (describe_t (ho_common o)) (fun d =>
  if has_le_label d then TErr EMsg
  else tbind (make_label_pairs_t d vals) (fun ls =>
       tbind (check_and_adjust_buckets_t (ho_buckets o)) (fun bs =>
       TOk (mkHCore d ls bs false 0 (shard_new (length bs)) (shard_new (length bs)))))).

(* ====================================================================================== *)
(* 6. linear_buckets / exponential_buckets (histogram.rs:843-904)                            *)
(* ====================================================================================== *)
(* `step as f64`, `next *= factor`: float operations and `as` casts never panic.  The only
   site is the allocation of [count] f64 values. *)
Definition linear_buckets_t (start width : f64) (count : N) : tri (list f64) :=
  if count <? 1 then TErr EMsg
  else if PrimFloat.leb width f_zero then TErr EMsg
  else if isize_max <? count * 8 then TPanic S_LIN_CAP
  else TOk (lin_buckets start width O (N.to_nat count)).
Definition exponential_buckets_t (start factor : f64) (count : N) : tri (list f64) :=
  if count <? 1 then TErr EMsg
  else if PrimFloat.leb start f_zero then TErr EMsg
  else if PrimFloat.leb factor f_one then TErr EMsg
  else if isize_max <? count * 8 then TPanic S_EXP_CAP
  else TOk (exp_buckets start factor (N.to_nat count)).

(* ====================================================================================== *)
(* 7. MetricVec (vec.rs): create, get_metric_with_label_values, get_metric_with, remove_*     *)
(* ====================================================================================== *)
(* CounterVec / GaugeVec / HistogramVec::new: the reserved-name loop of HistogramVec::new, then
   MetricVec::create = opts.describe() *)
Definition vec_create_t (o : Opts) (k : veckind) : tri veccore :=
  let le_clash := match k with
                  | VKHist _ => existsb (str_eqb BUCKET_LABEL) (o_vars o)
                                || existsb (fun kv => str_eqb BUCKET_LABEL (fst kv)) (o_consts o)
                  | _ => false
                  end in
  if le_clash then TErr EMsg
  else tbind (describe_t o) (fun d => TOk (mkVec d o k [])).

(* MetricVecBuilder::build = with_opts_and_label_values(opts, vals) *)
Definition build_child_t (v : veccore) (vals : list str) : tri unit :=
  match v_kind v with
  | VKValue t k => tbind (value_new_t (v_opts v) t k vals) (fun _ => TOk tt)
  | VKHist bs => tbind (hcore_new_t (mkHOpts (v_opts v) bs) vals) (fun _ => TOk tt)
  end.

(* hash_label_values / hash_labels / get_label_values contain no panic-capable expression (they
   iterate, they do not index): Model/Vec.v is used as it is.  parking_lot's RwLock does not
   poison.  The child is built under the write lock if the hash is not present. *)
Definition get_metric_with_label_values_o (v : veccore) (vals : list str) : outcome :=
  match hash_label_values (v_desc v) vals with
  | Err e => OutErr e
  | Ok h => match nlookup h (v_children v) with
            | Some _ => OutOk
            | None => outcome_of (build_child_t v vals)
            end
  end.
Definition get_metric_with_o (v : veccore) (labels : list (str * str)) : outcome :=
  match hash_labels (v_desc v) labels with
  | Err e => OutErr e
  | Ok (h, vs) => match nlookup h (v_children v) with
                  | Some _ => OutOk
                  | None => outcome_of (build_child_t v vs)
                  end
  end.
Definition remove_label_values_o (v : veccore) (vals : list str) : outcome :=
  match hash_label_values (v_desc v) vals with
  | Err e => OutErr e
  | Ok h => match nlookup h (v_children v) with Some _ => OutOk | None => OutErr EMsg end
  end.
Definition remove_o (v : veccore) (labels : list (str * str)) : outcome :=
  match hash_labels (v_desc v) labels with
  | Err e => OutErr e
  | Ok (h, _) => match nlookup h (v_children v) with Some _ => OutOk | None => OutErr EMsg end
  end.

(* ====================================================================================== *)
(* 8. Registry::new_custom / register / unregister (registry.rs)                             *)
(* ====================================================================================== *)
(* No panic-capable expression in the three methods (HashMap / HashSet operations, wrapping_add);
   Model/Registry.v is used as it is.  The free functions register / unregister go through the
   lazily initialised default registry, whose initialiser unwraps the registration of the
   process collector [site 14]; [process_registration] is what that registration returned
   (`Ok(())` by definition when the crate is built without the `process` feature). *)
Definition new_custom_o (prefix : option str) (labels : option (list (str * str))) : outcome :=
  outcome_of (of_result (@reg_new_custom unit prefix labels)).
Definition register_o {C} (r : regcore C) (ds : list Desc) (c : C) : outcome := outcome_of (of_result (reg_register r ds c)).
Definition unregister_o {C} (r : regcore C) (ds : list Desc) : outcome := outcome_of (of_result (reg_unregister r ds)).
Definition default_registry_init_o (process_registration : result unit) : outcome :=
  match process_registration with Ok _ => OutOk | Err _ => OutPanic S_DEFAULT_REG end.
Definition default_features_process_registration : result unit := Ok tt.

(* a user-written collector (harness: OpCustom) is a list of Desc::new calls *)
Fixpoint custom_descs_t (ds : list (str * str * list str * list (str * str))) : tri unit :=
  match ds with
  | [] => TOk tt
  | (fq, help, vars, consts) :: r =>
      match desc_new_t fq help vars (amap_of consts), custom_descs_t r with
      | TPanic s, _ => TPanic s
      | _, TPanic s => TPanic s
      | TOk _, TOk _ => TOk tt
      | _, _ => TErr EMsg
      end
  end.

(* ====================================================================================== *)
(* 9. The text encoder (encoder/text.rs, check_metric_family of encoder/mod.rs)               *)
(* ====================================================================================== *)
(* escape_string on bytes: memchr2 / memchr3 return the index of the first of the bytes
   backslash, line feed (and double quote); `&v[0..first]` and `v[first..]` panic unless that index is a char
   boundary of v; `v.len() * 2` is a usize multiplication. *)
Definition needle (include_double_quote : bool) (b : N) : bool :=
  (b =? 92) || (b =? 10) || (include_double_quote && (b =? 34)).
Fixpoint find_first (p : N -> bool) (bs : list N) (i : nat) : option nat :=
  match bs with
  | [] => None
  | b :: r => if p b then Some i else find_first p r (S i)
  end.
(* str::is_char_boundary: the index is the byte length of a prefix of the characters *)
Definition is_char_boundary (s : str) (n : nat) : bool :=
  existsb (fun k => Nat.eqb (length (utf8 (firstn k s))) n) (seq 0 (S (length s))).
Definition escape_string_t (s : str) (include_double_quote : bool) : tri str :=
  match find_first (needle include_double_quote) (utf8 s) O with
  | None => TOk s
  | Some first =>
      if two64 <=? blen (utf8 s) * 2 then TPanic S_ESC_MUL
      else if negb (is_char_boundary s first) then TPanic S_ESC_SLICE_HEAD
      else if negb (is_char_boundary s first) then TPanic S_ESC_SLICE_TAIL
      else TOk (escape_string s include_double_quote)
  end.

Section TextOutcome.
  Variable show : f64 -> str.      (* f64::to_string (Rust std): an oracle, as in Model/Text.v *)
  Variable showz : Z -> str.

  (* every (string, include_double_quote) the encoder passes to escape_string for one metric /
     one family, in order *)
  Definition label_escapes (m : Metric) : list (str * bool) := map (fun l => (lp_value l, true)) (m_label m).
  Definition metric_escapes (t : MetricType) (m : Metric) : list (str * bool) :=
    let lab := label_escapes m in
    match t with
    | COUNTER | GAUGE => lab
    | HISTOGRAM =>
        let h := get_histogram m in
        flat_map (fun b => lab ++ [(show (b_upper b), true)]) (h_bucket h)
        ++ (if existsb (fun b => f_pos_inf (b_upper b)) (h_bucket h) then [] else lab ++ [(k_pos_inf, true)])
        ++ lab ++ lab
    | SUMMARY =>
        let s := get_summary m in
        flat_map (fun q => lab ++ [(show (q_quantile q), true)]) (s_quantile s) ++ lab ++ lab
    | UNTYPED => []
    end.
  Definition family_escapes (mf : MetricFamily) : list (str * bool) :=
    (if is_nil (mf_help mf) then [] else [(mf_help mf, false)])
    ++ flat_map (metric_escapes (mf_type mf)) (mf_metric mf).

  Fixpoint first_escape_panic (l : list (str * bool)) : option nat :=
    match l with
    | [] => None
    | (s, q) :: r => match escape_string_t s q with TPanic site => Some site | _ => first_escape_panic r end
    end.

  (* TextEncoder::encode / encode_utf8 / encode_to_string with a writer that never fails.  The
     escape guards are evaluated for every string of every family (also of families after the
     one that makes the encoder return Err): an over-approximation of reachability, which
     Proofs/C17Facts shows to be immaterial because no guard fires for any string. *)
  Definition text_encode_o (buf : list N) (fams : list MetricFamily) : outcome :=
    match first_escape_panic (flat_map family_escapes fams) with
    | Some site => OutPanic site
    | None => match encode show showz buf fams with
              | EOk _ => OutOk
              | EErr e _ => OutErr e
              | EPanic => OutPanic O
              end
    end.
End TextOutcome.

(* the encoder of the pinned tree (before 3d1bf37): the match on the family type ended in
   `MetricType::UNTYPED => unimplemented!()` [site 13] *)
Fixpoint text_encode_pinned_o (fams : list MetricFamily) : outcome :=
  match fams with
  | [] => OutOk
  | mf :: r =>
      if negb (check_metric_family mf) then OutErr EMsg
      else if mtype_eqb (mf_type mf) UNTYPED then OutPanic S_TEXT_UNTYPED
      else text_encode_pinned_o r
  end.
(* ... and the decision of the repaired encoder, spelled out: Ok iff every family has a metric, a
   name and a type other than UNTYPED *)
Definition text_accepts (mf : MetricFamily) : bool :=
  check_metric_family mf && negb (mtype_eqb (mf_type mf) UNTYPED).
Definition text_decision (fams : list MetricFamily) : outcome := if forallb text_accepts fams then OutOk else OutErr EMsg.

(* ====================================================================================== *)
(* 10. The protobuf encoder (encoder/pb.rs)                                                   *)
(* ====================================================================================== *)
(* check_metric_family, then rust-protobuf's write_length_delimited_to_writer; no panic-capable
   expression in the repository's code; a message above i32::MAX bytes is a protobuf Err. *)
Definition pb_encode_o (fams : list PFamily) : outcome :=
  match encode_to [] fams with
  | POk _ => OutOk
  | PErr e _ => OutErr e
  | PPanic => OutPanic O
  end.

(* ====================================================================================== *)
(* 11. A writer that fails                                                                    *)
(* ====================================================================================== *)
(* Both encoders only append to the writer (`write_all`), and return the io error (text:
   `writer.write_all(..)?`, protobuf: the error of the flush) as soon as a write fails.  With a
   writer that accepts [budget] more bytes and then fails, the caller therefore sees: the result
   of the unlimited run if that run wrote at most [budget] bytes, else an Err (Error::Io /
   Error::Protobuf, both printed as EOther by the harness) and the first [budget] bytes. *)
Definition eres_out (r : eres) : list N := match r with EOk o => o | EErr _ o => o | EPanic => [] end.
Definition limit_eres (budget : N) (prefill : list N) (r : eres) : eres :=
  let produced := skipn (length prefill) (eres_out r) in
  match r with
  | EPanic => EPanic
  | _ => if blen produced <=? budget then r
         else EErr EOther (prefill ++ firstn (N.to_nat budget) produced)
  end.
Definition eres_of_pbres (r : pbres) : eres :=
  match r with POk o => EOk o | PErr e o => EErr e o | PPanic => EPanic end.

(* ====================================================================================== *)
(* 12. The Result-returning operations of the world model                                     *)
(* ====================================================================================== *)
(* the three-outcome model of one harness operation in a world; None = the operation does not
   return Result (or the scenario step is ill-typed: dead slot) *)
Definition local_vec_of (h : handle) : option nat :=
  match h with HLocalCounterVec vi _ => Some vi | HLocalHistVec vi _ => Some vi | _ => None end.
Definition api_outcome (w : world) (o : op) : option outcome :=
  match o with
  | OpDesc fq help vars consts => Some (outcome_of (desc_new_t fq help vars (amap_of consts)))
  | OpCounter k o => Some (outcome_of (value_new_t o VCounter k []))
  | OpGauge k o => Some (outcome_of (value_new_t o VGauge k []))
  | OpHistogram o => Some (outcome_of (hcore_new_t o []))
  | OpCounterVec k o labels => Some (outcome_of (vec_create_t (opts_with_vars o labels) (VKValue VCounter k)))
  | OpGaugeVec k o labels => Some (outcome_of (vec_create_t (opts_with_vars o labels) (VKValue VGauge k)))
  | OpHistVec o labels => Some (outcome_of (vec_create_t (opts_with_vars (ho_common o) labels) (VKHist (ho_buckets o))))
  | OpWith s vals =>
      match slot w s with
      | HVec vi => match nth_error (w_vec w) vi with Some v => Some (get_metric_with_label_values_o v vals) | None => None end
      | _ => None
      end
  | OpWithMap s kvs =>
      match slot w s with
      | HVec vi => match nth_error (w_vec w) vi with Some v => Some (get_metric_with_o v (amap_of kvs)) | None => None end
      | _ => None
      end
  | OpRemove s vals =>
      match slot w s with
      | HVec vi => match nth_error (w_vec w) vi with Some v => Some (remove_label_values_o v vals) | None => None end
      | _ => None
      end
  | OpRemoveMap s kvs =>
      match slot w s with
      | HVec vi => match nth_error (w_vec w) vi with Some v => Some (remove_o v (amap_of kvs)) | None => None end
      | _ => None
      end
  | OpLvRemove s vals =>
      (* Local*Vec::remove_label_values: hash (Err), drop the cached local metric, delete_label_values *)
      match local_vec_of (slot w s) with
      | Some vi => match nth_error (w_vec w) vi with Some v => Some (remove_label_values_o v vals) | None => None end
      | None => None
      end
  | OpRegistry prefix labels => Some (new_custom_o prefix (match labels with Some l => Some (amap_of l) | None => None end))
  | OpRegister r s =>
      match slot w r, collector_of w (slot w s) with
      | HRegistry ri, Some (c, ds) => match nth_error (w_reg w) ri with Some rc => Some (register_o rc ds c) | None => None end
      | _, _ => None
      end
  | OpUnregister r s =>
      match slot w r, collector_of w (slot w s) with
      | HRegistry ri, Some (_, ds) => match nth_error (w_reg w) ri with Some rc => Some (unregister_o rc ds) | None => None end
      | _, _ => None
      end
  | OpCustom ds _ => Some (outcome_of (custom_descs_t ds))
  | OpPulling name help _ => Some (outcome_of (pulling_gauge_new_t name help))
  | OpLinearBuckets start width count => Some (outcome_of (linear_buckets_t start width count))
  | OpExpBuckets start factor count => Some (outcome_of (exponential_buckets_t start factor count))
  | _ => None
  end.

(* how the harness prints the three outcomes of such an operation *)
Definition obs_class (ob : obs) : option outcome :=
  match ob with
  | ORes (Ok _) => Some OutOk
  | ORes (Err e) => Some (OutErr e)
  | ODesc (Some _) => Some OutOk
  | ODesc None => Some (OutErr EMsg)
  | OBuckets (Some _) => Some OutOk
  | OBuckets None => Some (OutErr EMsg)
  | OPanic => Some (OutPanic O)
  | _ => None
  end.
(* outcomes up to what the harness can print: Desc::new / the bucket helpers lose the error kind *)
Definition outcome_eqb (a b : outcome) : bool :=
  match a, b with
  | OutOk, OutOk => true
  | OutErr e, OutErr e' => err_eqb e e'
  | OutPanic _, OutPanic _ => true
  | _, _ => false
  end.
