(* An independent protobuf wire decoder for the schema of proto/proto_model.proto (definitions only).

   Written from the protobuf encoding specification (protobuf.dev/programming-guides/encoding), not
   from the encoder of Model/Pb.v, and driven by a field table [pb_fields] whose rendering is
   compared with the table regenerated from the .proto text on every run (gen/ProtoSchema.v,
   theorem c13_schema).  What the specification says and this decoder does:
   - a message is a sequence of records  key payload,  key = varint (field_number * 8 + wire_type);
     a varint has at most ten bytes (more, or a truncated one, is an error); records may come in
     any order;
   - wire type 0 = varint (uint64, int64 as two's complement, enum), 1 = eight bytes little endian
     (double), 2 = varint length + that many bytes (string = UTF-8, embedded message);
   - an optional scalar that occurs several times takes the last value; several occurrences of an
     optional embedded message are merged, which by the specification is the same as parsing the
     concatenation of their bodies; every occurrence of a repeated field appends one element;
   - an absent optional field is absent (proto2 presence).
   It is deliberately strict, because the property says "nothing else in the stream": a field
   number that the table does not list for the message, a wire type other than the one the field's
   type demands, an enum value the enum does not declare, bytes that are not the UTF-8 encoding of
   scalar values, a length that runs past the end, trailing bytes: all are errors (None).
   Fuel is always the length of the input. *)
From Coq Require Import String.
Require Import PV.Base.Prelude PV.Base.Utf8 PV.Base.F64 PV.Model.Proto PV.Model.Pb.
Open Scope N_scope.

(* ------------------------------------------------------------------ the field table *)
Inductive msg := MLabelPair | MGauge | MCounter | MQuantile | MSummary | MUntyped | MHistogram | MBucket
               | MMetric | MMetricFamily.
Inductive enumt := EMetricType.
Inductive ftype := TDouble | TUint64 | TInt64 | TString | TEnum (e : enumt) | TMsg (m : msg).
Record field := mkField { f_msg : msg; f_name : string; f_num : N; f_type : ftype; f_repeated : bool }.

(* in the order of the .proto file *)
Definition pb_fields : list field := [
  mkField MLabelPair "name" 1 TString false;
  mkField MLabelPair "value" 2 TString false;
  mkField MGauge "value" 1 TDouble false;
  mkField MCounter "value" 1 TDouble false;
  mkField MQuantile "quantile" 1 TDouble false;
  mkField MQuantile "value" 2 TDouble false;
  mkField MSummary "sample_count" 1 TUint64 false;
  mkField MSummary "sample_sum" 2 TDouble false;
  mkField MSummary "quantile" 3 (TMsg MQuantile) true;
  mkField MUntyped "value" 1 TDouble false;
  mkField MHistogram "sample_count" 1 TUint64 false;
  mkField MHistogram "sample_sum" 2 TDouble false;
  mkField MHistogram "bucket" 3 (TMsg MBucket) true;
  mkField MBucket "cumulative_count" 1 TUint64 false;
  mkField MBucket "upper_bound" 2 TDouble false;
  mkField MMetric "label" 1 (TMsg MLabelPair) true;
  mkField MMetric "gauge" 2 (TMsg MGauge) false;
  mkField MMetric "counter" 3 (TMsg MCounter) false;
  mkField MMetric "summary" 4 (TMsg MSummary) false;
  mkField MMetric "untyped" 5 (TMsg MUntyped) false;
  mkField MMetric "histogram" 7 (TMsg MHistogram) false;
  mkField MMetric "timestamp_ms" 6 TInt64 false;
  mkField MMetricFamily "name" 1 TString false;
  mkField MMetricFamily "help" 2 TString false;
  mkField MMetricFamily "type" 3 (TEnum EMetricType) false;
  mkField MMetricFamily "metric" 4 (TMsg MMetric) true ]%string.

Definition enum_values (e : enumt) : list (string * N) :=
  match e with
  | EMetricType => [("COUNTER", 0); ("GAUGE", 1); ("SUMMARY", 2); ("UNTYPED", 3); ("HISTOGRAM", 4)]%string
  end.

(* rendering of the table as text rows, the form in which the .proto is regenerated *)
Definition msg_name (m : msg) : string :=
  match m with
  | MLabelPair => "LabelPair" | MGauge => "Gauge" | MCounter => "Counter" | MQuantile => "Quantile"
  | MSummary => "Summary" | MUntyped => "Untyped" | MHistogram => "Histogram" | MBucket => "Bucket"
  | MMetric => "Metric" | MMetricFamily => "MetricFamily"
  end%string.
Definition enum_name (e : enumt) : string := match e with EMetricType => "MetricType"%string end.
Definition type_name (t : ftype) : string :=
  match t with
  | TDouble => "double" | TUint64 => "uint64" | TInt64 => "int64" | TString => "string"
  | TEnum e => enum_name e | TMsg m => msg_name m
  end%string.
Definition schema_row (f : field) : string * string * N * string * string :=
  (msg_name (f_msg f), f_name f, f_num f, type_name (f_type f),
   if f_repeated f then "repeated" else "optional")%string.
Definition schema_rows : list (string * string * N * string * string) := map schema_row pb_fields.
Definition schema_enums : list (string * list (string * N)) := [(enum_name EMetricType, enum_values EMetricType)].
Definition schema_messages : list string :=
  map msg_name [MLabelPair; MGauge; MCounter; MQuantile; MSummary; MUntyped; MHistogram; MBucket; MMetric; MMetricFamily].

Definition msg_eqb (a b : msg) : bool :=
  match a, b with
  | MLabelPair, MLabelPair | MGauge, MGauge | MCounter, MCounter | MQuantile, MQuantile
  | MSummary, MSummary | MUntyped, MUntyped | MHistogram, MHistogram | MBucket, MBucket
  | MMetric, MMetric | MMetricFamily, MMetricFamily => true
  | _, _ => false
  end.
Definition find_field (m : msg) (n : N) : option field :=
  find (fun f => msg_eqb (f_msg f) m && (f_num f =? n)) pb_fields.
(* number of the field called [name] in message [m] (0, which is never a field number, if absent) *)
Definition fnum (m : msg) (name : string) : N :=
  match find (fun f => msg_eqb (f_msg f) m && String.eqb (f_name f) name) pb_fields with
  | Some f => f_num f
  | None => 0
  end.
Definition enum_has (e : enumt) (v : N) : bool := existsb (fun p => snd p =? v) (enum_values e).

(* ------------------------------------------------------------------ wire primitives *)
Notation "'do' x <- a ; b" := (match a with Some x => b | None => None end)
  (at level 200, x pattern, a at level 100, b at level 200, only parsing).

(* base-128 varint, at most [fuel] bytes; None = truncated or too long *)
Fixpoint dvarint (fuel : nat) (bs : list N) : option (N * list N) :=
  match fuel, bs with
  | O, _ => None
  | _, [] => None
  | S f, b :: r =>
      if b <? 128 then Some (b, r)
      else do (v, r') <- dvarint f r; Some ((b - 128) + 128 * v, r')
  end.
(* ten bytes carry 70 bits: values that do not fit 64 bits are refused rather than truncated *)
Definition decode_varint (bs : list N) : option (N * list N) :=
  do (v, r) <- dvarint 10 bs; if v <? two64 then Some (v, r) else None.

(* exactly [n] bytes, or None if the input is shorter (the comparison comes first so that an
   absurd length is never converted to a unary number) *)
Definition take_bytes (n : N) (bs : list N) : option (list N * list N) :=
  if blen bs <? n then None else Some (firstn (N.to_nat n) bs, skipn (N.to_nat n) bs).

Fixpoint le_decode (bs : list N) : N :=
  match bs with
  | [] => 0
  | b :: r => b + 256 * le_decode r
  end.

(* UTF-8, strict: the lax decoder of Base/Utf8.v followed by "is a list of Unicode scalar values
   (no surrogates, at most 0x10FFFF) whose encoding is exactly the input", which rules out
   overlong forms, stray continuation bytes and truncated sequences *)
Definition uscalarb (c : N) : bool := (c <? 0x110000) && negb ((0xD7FF <? c) && (c <? 0xE000)).
Definition decode_utf8 (bs : list N) : option str :=
  do s <- utf8_dec (length bs) bs;
  if forallb uscalarb s && bytes_eqb (utf8 s) bs then Some s else None.

(* ------------------------------------------------------------------ stage 1: records of one message *)
(* a decoded payload; an embedded message stays a byte string until its own decoder is applied *)
Inductive wval := WVar (n : N) | WFix (bits : N) | WStr (s : str) | WBytes (b : list N).

Definition wire_type (t : ftype) : N :=
  match t with
  | TUint64 | TInt64 | TEnum _ => 0
  | TDouble => 1
  | TString | TMsg _ => 2
  end.

Definition read_payload (t : ftype) (bs : list N) : option (wval * list N) :=
  match t with
  | TDouble => do (b, r) <- take_bytes 8 bs; Some (WFix (le_decode b), r)
  | TUint64 | TInt64 => do (v, r) <- decode_varint bs; Some (WVar v, r)
  | TEnum e => do (v, r) <- decode_varint bs; if enum_has e v then Some (WVar v, r) else None
  | TString => do (len, r) <- decode_varint bs; do (b, r') <- take_bytes len r;
               do s <- decode_utf8 b; Some (WStr s, r')
  | TMsg _ => do (len, r) <- decode_varint bs; do (b, r') <- take_bytes len r; Some (WBytes b, r')
  end.

Fixpoint parse_fields (fuel : nat) (m : msg) (bs : list N) : option (list (N * wval)) :=
  match bs with
  | [] => Some []
  | _ :: _ =>
      match fuel with
      | O => None
      | S f =>
          do (key, r) <- decode_varint bs;
          do fd <- find_field m (key / 8);
          if key mod 8 =? wire_type (f_type fd) then
            do (v, r') <- read_payload (f_type fd) r;
            do fs <- parse_fields f m r';
            Some ((key / 8, v) :: fs)
          else None
      end
  end.
Definition parse_msg (m : msg) (bs : list N) : option (list (N * wval)) := parse_fields (length bs) m bs.

(* ------------------------------------------------------------------ stage 2: records -> typed messages *)
Definition vals (n : N) (fs : list (N * wval)) : list wval := map snd (filter (fun p => fst p =? n) fs).
Fixpoint last_opt {A} (l : list A) : option A :=
  match l with
  | [] => None
  | [x] => Some x
  | _ :: r => last_opt r
  end.
Fixpoint mapM {A B} (f : A -> option B) (l : list A) : option (list B) :=
  match l with
  | [] => Some []
  | x :: r => do y <- f x; do ys <- mapM f r; Some (y :: ys)
  end.
Definition as_var (v : wval) : option N := match v with WVar n => Some n | _ => None end.
Definition as_fix (v : wval) : option N := match v with WFix n => Some n | _ => None end.
Definition as_str (v : wval) : option str := match v with WStr s => Some s | _ => None end.
Definition as_bytes (v : wval) : option (list N) := match v with WBytes b => Some b | _ => None end.

(* optional scalar: absent, or the last occurrence (outer None = a payload of the wrong kind,
   which stage 1 never produces) *)
Definition get_scalar {A} (proj : wval -> option A) (n : N) (fs : list (N * wval)) : option (option A) :=
  match last_opt (vals n fs) with
  | None => Some None
  | Some v => do x <- proj v; Some (Some x)
  end.
(* repeated embedded message: the bodies, in order *)
Definition get_msgs (n : N) (fs : list (N * wval)) : option (list (list N)) := mapM as_bytes (vals n fs).
(* optional embedded message: absent, or the merge of all occurrences = their concatenation *)
Definition get_msg (n : N) (fs : list (N * wval)) : option (option (list N)) :=
  do bs <- mapM as_bytes (vals n fs);
  Some (match bs with [] => None | _ :: _ => Some (concat bs) end).
Definition opt_dec {A} (d : list N -> option A) (o : option (list N)) : option (option A) :=
  match o with
  | None => Some None
  | Some b => do x <- d b; Some (Some x)
  end.
Definition opt_bind {A B} (f : A -> option B) (o : option A) : option (option B) :=
  match o with
  | None => Some None
  | Some a => do b <- f a; Some (Some b)
  end.
Definition mtype_of_name (s : string) : option MetricType :=
  (if String.eqb s "COUNTER" then Some COUNTER else if String.eqb s "GAUGE" then Some GAUGE
   else if String.eqb s "SUMMARY" then Some SUMMARY else if String.eqb s "UNTYPED" then Some UNTYPED
   else if String.eqb s "HISTOGRAM" then Some HISTOGRAM else None)%string.
Definition mtype_of_num (v : N) : option MetricType :=
  do p <- find (fun p => snd p =? v) (enum_values EMetricType); mtype_of_name (fst p).

Definition dec_LabelPair (bs : list N) : option PLabelPair :=
  do fs <- parse_msg MLabelPair bs;
  do n <- get_scalar as_str (fnum MLabelPair "name") fs;
  do v <- get_scalar as_str (fnum MLabelPair "value") fs;
  Some (mkPLP n v).
Definition dec_Gauge (bs : list N) : option PGauge :=
  do fs <- parse_msg MGauge bs; do v <- get_scalar as_fix (fnum MGauge "value") fs; Some (mkPGauge v).
Definition dec_Counter (bs : list N) : option PCounter :=
  do fs <- parse_msg MCounter bs; do v <- get_scalar as_fix (fnum MCounter "value") fs; Some (mkPCounter v).
Definition dec_Untyped (bs : list N) : option PUntyped :=
  do fs <- parse_msg MUntyped bs; do v <- get_scalar as_fix (fnum MUntyped "value") fs; Some (mkPUntyped v).
Definition dec_Quantile (bs : list N) : option PQuantile :=
  do fs <- parse_msg MQuantile bs;
  do q <- get_scalar as_fix (fnum MQuantile "quantile") fs;
  do v <- get_scalar as_fix (fnum MQuantile "value") fs;
  Some (mkPQuantile q v).
Definition dec_Summary (bs : list N) : option PSummary :=
  do fs <- parse_msg MSummary bs;
  do c <- get_scalar as_var (fnum MSummary "sample_count") fs;
  do s <- get_scalar as_fix (fnum MSummary "sample_sum") fs;
  do qb <- get_msgs (fnum MSummary "quantile") fs;
  do qs <- mapM dec_Quantile qb;
  Some (mkPSummary c s qs).
Definition dec_Bucket (bs : list N) : option PBucket :=
  do fs <- parse_msg MBucket bs;
  do c <- get_scalar as_var (fnum MBucket "cumulative_count") fs;
  do u <- get_scalar as_fix (fnum MBucket "upper_bound") fs;
  Some (mkPBucket c u).
Definition dec_Histogram (bs : list N) : option PHistogram :=
  do fs <- parse_msg MHistogram bs;
  do c <- get_scalar as_var (fnum MHistogram "sample_count") fs;
  do s <- get_scalar as_fix (fnum MHistogram "sample_sum") fs;
  do bb <- get_msgs (fnum MHistogram "bucket") fs;
  do bks <- mapM dec_Bucket bb;
  Some (mkPHist c s bks).
Definition dec_Metric (bs : list N) : option PMetric :=
  do fs <- parse_msg MMetric bs;
  do lb <- get_msgs (fnum MMetric "label") fs;
  do ls <- mapM dec_LabelPair lb;
  do gb <- get_msg (fnum MMetric "gauge") fs; do g <- opt_dec dec_Gauge gb;
  do cb <- get_msg (fnum MMetric "counter") fs; do c <- opt_dec dec_Counter cb;
  do sb <- get_msg (fnum MMetric "summary") fs; do s <- opt_dec dec_Summary sb;
  do ub <- get_msg (fnum MMetric "untyped") fs; do u <- opt_dec dec_Untyped ub;
  do hb <- get_msg (fnum MMetric "histogram") fs; do h <- opt_dec dec_Histogram hb;
  do t <- get_scalar as_var (fnum MMetric "timestamp_ms") fs;
  Some (mkPMetric ls g c s u h (option_map i64_to_Z t)).
Definition dec_Family (bs : list N) : option PFamily :=
  do fs <- parse_msg MMetricFamily bs;
  do n <- get_scalar as_str (fnum MMetricFamily "name") fs;
  do h <- get_scalar as_str (fnum MMetricFamily "help") fs;
  do tv <- get_scalar as_var (fnum MMetricFamily "type") fs;
  do t <- opt_bind mtype_of_num tv;
  do mb <- get_msgs (fnum MMetricFamily "metric") fs;
  do ms <- mapM dec_Metric mb;
  Some (mkPFamily n h t ms).

(* ------------------------------------------------------------------ the delimited stream *)
(* encoding=delimited: each message is preceded by its length as a varint; the stream ends
   exactly at the end of a message *)
Fixpoint decode_frames (fuel : nat) (bs : list N) : option (list PFamily) :=
  match bs with
  | [] => Some []
  | _ :: _ =>
      match fuel with
      | O => None
      | S f =>
          do (len, r) <- decode_varint bs;
          do (body, r') <- take_bytes len r;
          do fam <- dec_Family body;
          do more <- decode_frames f r';
          Some (fam :: more)
      end
  end.
Definition decode_stream (bs : list N) : option (list PFamily) := decode_frames (length bs) bs.

Definition ofams_eqb (a b : option (list PFamily)) : bool := opt_eqb (list_eqb pf_eqb) a b.
