(* src/value.rs, src/atomic64.rs (sequential behaviour), errors (definitions). *)
Require Import PV.Base.Prelude PV.Base.F64 PV.Model.Proto PV.Model.Desc.
Open Scope N_scope.

Inductive err := EAlreadyReg | ECard (expect got : N) | EMsg | EOther.
Inductive result (A : Type) := Ok (a : A) | Err (e : err).
Arguments Ok {A} a.
Arguments Err {A} e.

Definition err_eqb (a b : err) : bool :=
  match a, b with
  | EAlreadyReg, EAlreadyReg => true
  | ECard e g, ECard e' g' => (e =? e') && (g =? g')
  | EMsg, EMsg => true
  | EOther, EOther => true
  | _, _ => false
  end.

Definition lenN {A} (l : list A) : N := N.of_nat (length l).

(* value.rs make_label_pairs *)
Definition make_label_pairs (d : Desc) (vals : list str) : result (list LabelPair) :=
  if negb (lenN (d_vars d) =? lenN vals) then Err (ECard (lenN (d_vars d)) (lenN vals))
  else if is_nil (d_vars d) && is_nil (d_const_pairs d) then Ok []
  else if is_nil (d_vars d) then Ok (d_const_pairs d)
  else Ok (sort_by lp_leb (map (fun nv => mkLP (fst nv) (snd nv)) (combine (d_vars d) vals) ++ d_const_pairs d)).

(* the three numeric flavours of atomic64.rs *)
Inductive numkind := NF | NU | NI.
Inductive numval := VF (f : f64) | VU (n : N) | VI (z : Z).

Definition num_zero (k : numkind) : numval := match k with NF => VF f_zero | NU => VU 0 | NI => VI 0%Z end.
Definition num_one (k : numkind) : numval := match k with NF => VF f_one | NU => VU 1 | NI => VI 1%Z end.
Definition wrapI (z : Z) : Z := i64_to_Z (i64_of_Z z).
(* fetch_add / the compare-exchange loop; arguments of another flavour cannot occur (Rust types) *)
Definition num_add (a d : numval) : numval :=
  match a, d with
  | VF x, VF y => VF (x + y)%float
  | VU x, VU y => VU (wrap64 (x + y))
  | VI x, VI y => VI (wrapI (x + y))
  | _, _ => a
  end.
(* dec_by: f64 adds the negation, the integers fetch_sub *)
Definition num_sub (a d : numval) : numval :=
  match a, d with
  | VF x, VF y => VF (x + - y)%float
  | VU x, VU y => VU (wrap64 (x + two64 - wrap64 y))
  | VI x, VI y => VI (wrapI (x - y))
  | _, _ => a
  end.
Definition num_to_f64 (a : numval) : f64 :=
  match a with VF x => x | VU n => f_of_N n | VI z => f_of_Z z end.
Definition num_is_zero (a : numval) : bool :=
  match a with VF x => PrimFloat.eqb x f_zero | VU n => n =? 0 | VI z => (z =? 0)%Z end.
Definition numval_eqb (a b : numval) : bool :=
  match a, b with
  | VF x, VF y => f64_eqb x y
  | VU x, VU y => x =? y
  | VI x, VI y => (x =? y)%Z
  | _, _ => false
  end.

Inductive valtype := VCounter | VGauge.
Definition valtype_mtype (t : valtype) : MetricType := match t with VCounter => COUNTER | VGauge => GAUGE end.

Record vcore := mkVCore { vc_desc : Desc; vc_type : valtype; vc_val : numval; vc_labels : list LabelPair }.

Definition value_new (o : Opts) (t : valtype) (k : numkind) (vals : list str) : result vcore :=
  match describe o with
  | None => Err EMsg
  | Some d => match make_label_pairs d vals with
              | Err e => Err e
              | Ok ls => Ok (mkVCore d t (num_zero k) ls)
              end
  end.

Definition value_metric (c : vcore) : Metric :=
  let v := num_to_f64 (vc_val c) in
  match vc_type c with
  | VCounter => mkMetric (vc_labels c) None (Some v) None None None None
  | VGauge => mkMetric (vc_labels c) (Some v) None None None None None
  end.
Definition value_collect (c : vcore) : MetricFamily :=
  mkMF (d_fq_name (vc_desc c)) (d_help (vc_desc c)) (valtype_mtype (vc_type c)) [value_metric c].
