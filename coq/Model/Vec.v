(* src/vec.rs: label hashing, lookup-or-create, deletion (definitions, sequential). *)
Require Import PV.Base.Prelude PV.Base.Utf8 PV.Base.Fnv PV.Base.F64.
Require Import PV.Model.Proto PV.Model.Desc PV.Model.Value PV.Model.Hist.
Open Scope N_scope.

(* bytes fed to the hasher by hash_label_values / hash_labels (after the C05 repair) *)
Definition label_values_preimage (vals : list str) : list N := enc_sep vals.

Definition hash_label_values (d : Desc) (vals : list str) : result N :=
  if negb (lenN vals =? lenN (d_vars d)) then Err (ECard (lenN (d_vars d)) (lenN vals))
  else Ok (fnv1a (label_values_preimage vals)).

(* the map form: [labels] is a HashMap<&str, V> given as an association list with distinct keys *)
Fixpoint values_in_declared_order (names : list str) (labels : list (str * str)) : option (list str) :=
  match names with
  | [] => Some []
  | n :: r => match alookup n labels with
              | None => None
              | Some v => match values_in_declared_order r labels with
                          | None => None
                          | Some vs => Some (v :: vs)
                          end
              end
  end.
Definition hash_labels (d : Desc) (labels : list (str * str)) : result (N * list str) :=
  if negb (lenN labels =? lenN (d_vars d)) then Err (ECard (lenN (d_vars d)) (lenN labels))
  else match values_in_declared_order (d_vars d) labels with
       | None => Err EMsg
       | Some vs => Ok (fnv1a (label_values_preimage vs), vs)
       end.

(* what a vector builds its children from *)
Inductive veckind := VKValue (t : valtype) (k : numkind) | VKHist (buckets : list f64).
Definition veckind_mtype (k : veckind) : MetricType :=
  match k with VKValue t _ => valtype_mtype t | VKHist _ => HISTOGRAM end.

(* a child is a reference (index) into the heap of value / histogram cores *)
Record veccore := mkVec { v_desc : Desc; v_opts : Opts; v_kind : veckind; v_children : list (N * nat) }.

Definition vec_set_children (v : veccore) (c : list (N * nat)) : veccore :=
  mkVec (v_desc v) (v_opts v) (v_kind v) c.

(* MetricVec::create (+ the C09c repair for histogram vectors) *)
Definition vec_create (o : Opts) (k : veckind) : result veccore :=
  let le_clash := match k with
                  | VKHist _ => existsb (str_eqb BUCKET_LABEL) (o_vars o)
                                || existsb (fun kv => str_eqb BUCKET_LABEL (fst kv)) (o_consts o)
                  | _ => false
                  end in
  if le_clash then Err EMsg
  else match describe o with
       | None => Err EMsg
       | Some d => Ok (mkVec d o k [])
       end.
