(* src/histogram.rs, sequential behaviour: bucket validation, the two-shard core run by one
   thread, the local histogram (definitions). *)
Require Import PV.Base.Prelude PV.Base.F64 PV.Model.Proto PV.Model.Desc PV.Model.Value.
Open Scope N_scope.

Definition DEFAULT_BUCKETS_bits : list N :=
  [0x3f747ae147ae147b; 0x3f847ae147ae147b; 0x3f9999999999999a; 0x3fa999999999999a; 0x3fb999999999999a;
   0x3fd0000000000000; 0x3fe0000000000000; 0x3ff0000000000000; 0x4004000000000000; 0x4014000000000000;
   0x4024000000000000].
Definition DEFAULT_BUCKETS : list f64 := map bits2f DEFAULT_BUCKETS_bits.
Definition BUCKET_LABEL : str := [0x6C; 0x65].   (* "le" *)

(* check_and_adjust_buckets (after the C08 repair: NaN bounds are refused) *)
Fixpoint buckets_increasing (bs : list f64) : bool :=
  match bs with
  | [] => true
  | a :: r => negb (f_is_nan a)
              && match r with [] => true | b :: _ => negb (PrimFloat.leb b a) end
              && buckets_increasing r
  end.
Definition drop_last_inf (bs : list f64) : list f64 :=
  match rev bs with
  | t :: r => if f_pos_inf t then rev r else bs
  | [] => bs
  end.
Definition check_and_adjust_buckets (bs : list f64) : option (list f64) :=
  let bs0 := if is_nil bs then DEFAULT_BUCKETS else bs in
  if buckets_increasing bs0 then Some (drop_last_inf bs0) else None.

Record HistogramOpts := mkHOpts { ho_common : Opts; ho_buckets : list f64 }.

Record shard := mkShard { sh_sum : f64; sh_count : N; sh_buckets : list N }.
Definition shard_new (n : nat) : shard := mkShard f_zero 0 (repeat 0 n).

Record hcore := mkHCore {
  hc_desc : Desc; hc_labels : list LabelPair; hc_bounds : list f64;
  hc_hot : bool;            (* false = shards[0] is hot *)
  hc_total : N;             (* low 63 bits of shard_and_count *)
  hc_s0 : shard; hc_s1 : shard }.

Definition hc_shard (h : hcore) (i : bool) : shard := if i then hc_s1 h else hc_s0 h.
Definition hc_set_shard (h : hcore) (i : bool) (s : shard) : hcore :=
  if i then mkHCore (hc_desc h) (hc_labels h) (hc_bounds h) (hc_hot h) (hc_total h) (hc_s0 h) s
  else mkHCore (hc_desc h) (hc_labels h) (hc_bounds h) (hc_hot h) (hc_total h) s (hc_s1 h).
Definition hc_set_claim (h : hcore) (hot : bool) (total : N) : hcore :=
  mkHCore (hc_desc h) (hc_labels h) (hc_bounds h) hot total (hc_s0 h) (hc_s1 h).

Definition has_le_label (d : Desc) : bool :=
  existsb (str_eqb BUCKET_LABEL) (d_vars d) || existsb (fun lp => str_eqb BUCKET_LABEL (lp_name lp)) (d_const_pairs d).

Definition hopts_describe (o : HistogramOpts) : option Desc := describe (ho_common o).

(* HistogramCore::new *)
Definition hcore_new (o : HistogramOpts) (vals : list str) : result hcore :=
  match hopts_describe o with
  | None => Err EMsg
  | Some d =>
      if has_le_label d then Err EMsg
      else match make_label_pairs d vals with
           | Err e => Err e
           | Ok ls => match check_and_adjust_buckets (ho_buckets o) with
                      | None => Err EMsg
                      | Some bs => Ok (mkHCore d ls bs false 0 (shard_new (length bs)) (shard_new (length bs)))
                      end
           end
  end.

(* index of the first bound with v <= bound *)
Fixpoint find_bucket (v : f64) (bs : list f64) (j : nat) : option nat :=
  match bs with
  | [] => None
  | b :: r => if PrimFloat.leb v b then Some j else find_bucket v r (S j)
  end.
Fixpoint bump (j : nat) (d : N) (l : list N) : list N :=
  match l, j with
  | [], _ => []
  | x :: r, O => wrap64 (x + d) :: r
  | x :: r, S j' => x :: bump j' d r
  end.

(* HistogramCore::observe run without interference *)
Definition hc_observe (h : hcore) (v : f64) : hcore :=
  let i := hc_hot h in
  let h1 := hc_set_claim h i (hc_total h + 1) in
  let s := hc_shard h1 i in
  let bk := match find_bucket v (hc_bounds h) O with Some j => bump j 1 (sh_buckets s) | None => sh_buckets s end in
  hc_set_shard h1 i (mkShard (sh_sum s + v)%float (wrap64 (sh_count s + 1)) bk).

Fixpoint cumulate (run : N) (l : list N) : list N :=
  match l with [] => [] | x :: r => wrap64 (run + x) :: cumulate (wrap64 (run + x)) r end.
Fixpoint zip_add (a b : list N) : list N :=
  match a, b with x :: a', y :: b' => wrap64 (x + y) :: zip_add a' b' | _, _ => [] end.

(* HistogramCore::proto run without interference.  The wait loop exits at once iff the cold
   shard's count equals the overall count; [None] models a collector that would spin forever. *)
Definition hc_proto (h : hcore) : option (Histogram * hcore) :=
  let cold_i := hc_hot h in let hot_i := negb cold_i in
  let overall := hc_total h in
  let cold := hc_shard h cold_i in let hot := hc_shard h hot_i in
  if negb (sh_count cold =? overall) then None
  else
    let snap := mkHist overall (sh_sum cold)
                  (map (fun cb => mkBucket (fst cb) (snd cb)) (combine (cumulate 0 (sh_buckets cold)) (hc_bounds h))) in
    let hot' := mkShard (sh_sum hot + sh_sum cold)%float (wrap64 (sh_count hot + overall))
                        (zip_add (sh_buckets hot) (sh_buckets cold)) in
    let cold' := mkShard f_zero 0 (repeat 0 (length (sh_buckets cold))) in
    let h1 := hc_set_claim h hot_i overall in
    Some (snap, hc_set_shard (hc_set_shard h1 cold_i cold') hot_i hot').

Definition hc_sample_sum (h : hcore) : f64 := sh_sum (hc_shard h (hc_hot h)).
Definition hc_sample_count (h : hcore) : N := hc_total h.

Definition hist_metric (h : hcore) : option (Metric * hcore) :=
  match hc_proto h with
  | None => None
  | Some (p, h') => Some (mkMetric (hc_labels h) None None None None (Some p) None, h')
  end.

(* LocalHistogramCore *)
Record lhist := mkLHist { lh_counts : list N; lh_count : N; lh_sum : f64 }.
Definition lh_new (nb : nat) : lhist := mkLHist (repeat 0 nb) 0 f_zero.
Definition lh_observe (bounds : list f64) (l : lhist) (v : f64) : lhist :=
  mkLHist (match find_bucket v bounds O with Some j => bump j 1 (lh_counts l) | None => lh_counts l end)
          (wrap64 (lh_count l + 1)) (lh_sum l + v)%float.
Definition lh_clear (l : lhist) : lhist := mkLHist (repeat 0 (length (lh_counts l))) 0 f_zero.
Definition hc_flush (h : hcore) (l : lhist) : hcore :=
  if lh_count l =? 0 then h
  else
    let i := hc_hot h in
    let h1 := hc_set_claim h i (hc_total h + lh_count l) in
    let s := hc_shard h1 i in
    hc_set_shard h1 i (mkShard (sh_sum s + lh_sum l)%float (wrap64 (sh_count s + lh_count l))
                               (zip_add (sh_buckets s) (lh_counts l))).

(* linear_buckets / exponential_buckets *)
Fixpoint lin_buckets (start width : f64) (step : nat) (count : nat) : list f64 :=
  match count with
  | O => []
  | S c => (start + width * f_of_N (N.of_nat step))%float :: lin_buckets start width (S step) c
  end.
Definition linear_buckets (start width : f64) (count : nat) : option (list f64) :=
  if Nat.ltb count 1 then None
  else if PrimFloat.leb width f_zero then None
  else Some (lin_buckets start width O count).
Fixpoint exp_buckets (next factor : f64) (count : nat) : list f64 :=
  match count with
  | O => []
  | S c => next :: exp_buckets (next * factor)%float factor c
  end.
Definition exponential_buckets (start factor : f64) (count : nat) : option (list f64) :=
  if Nat.ltb count 1 then None
  else if PrimFloat.leb start f_zero then None
  else if PrimFloat.leb factor f_one then None
  else Some (exp_buckets start factor count).
