(* C10: small-step model of concurrent use of one metric vector (src/vec.rs, IntCounterVec).

   Shared state: the word of the vector's RwLock (reader count / writer flag), the key -> child
   map it protects, one u64 atomic cell per child ever created (a removed child keeps its cell:
   handles are Arc clones).  Keys are the label-value tuples themselves; that the 64-bit FNV
   key the code really uses identifies tuples is the business of C05, not of this model.

   Per thread a program counter says where the thread is inside its current call.  Steps are
   labelled by the event the sync shim reports for them (Model/Conc.v) or are silent
   ([LTau t]): the map operations of the code (lookup, insert, remove, clear) perform no shim
   event; in the model each is ONE silent step of its own that can be taken only at a program
   counter that sits between the acquisition and the release of the lock, so other threads'
   steps interleave freely with them and it is a THEOREM (Proofs/VecConcFacts.v), not a
   modelling decision, that a map access never happens without the lock and never concurrently
   with a writer.

   Ghost state (no influence on the concrete fields): the holders of the lock, an abstract
   sequential map  key -> (child id, value)  that is advanced by the abstract specification
   [aspec] at each linearisation step, the log of linearised abstract operations with their
   abstract results and time stamps, and the open / completed calls with the times of their
   call and return markers.

   Calls (harness/src/conc.rs): withinc k d = with_label_values(k).inc_by(d), remove k =
   remove_label_values(k), vreset = reset(), vcollect = collect().

   Definitions only; [vexec] is the executable validator run on the implementation's traces. *)
Require Import PV.Base.Prelude PV.Model.Conc.
From Coq Require Import Arith.
Open Scope N_scope.

(* ------------------------------------------------------------------ keys and maps *)
Definition key := list str.
Fixpoint key_eqb (a b : key) : bool :=
  match a, b with
  | [], [] => true
  | x :: a', y :: b' => str_eqb x y && key_eqb a' b'
  | _, _ => false
  end.

Section KMap.
  Context {V : Type}.
  Fixpoint klookup (k : key) (m : list (key * V)) : option V :=
    match m with
    | [] => None
    | (k', v) :: r => if key_eqb k k' then Some v else klookup k r
    end.
  Fixpoint kremove (k : key) (m : list (key * V)) : list (key * V) :=
    match m with
    | [] => []
    | (k', v) :: r => if key_eqb k k' then kremove k r else (k', v) :: kremove k r
    end.
  (* HashMap::insert: replaces the value of an existing key *)
  Fixpoint kinsert (k : key) (v : V) (m : list (key * V)) : list (key * V) :=
    match m with
    | [] => [(k, v)]
    | (k', v') :: r => if key_eqb k k' then (k', v) :: r else (k', v') :: kinsert k v r
    end.
End KMap.

Fixpoint cell_get (c : N) (m : list (N * N)) : N :=
  match m with [] => 0 | (c', v) :: r => if c =? c' then v else cell_get c r end.
Fixpoint cell_set (c v : N) (m : list (N * N)) : list (N * N) :=
  match m with [] => [] | (c', v') :: r => if c =? c' then (c', v) :: r else (c', v') :: cell_set c v r end.
Fixpoint cell_mem (c : N) (m : list (N * N)) : bool :=
  match m with [] => false | (c', _) :: r => (c =? c') || cell_mem c r end.

(* ------------------------------------------------------------------ abstract sequential specification *)
(* a map from label values to children; a child is an identity (creation index) and a value *)
Record astate := mkA { a_map : list (key * (N * N)); a_next : N }.
Inductive aop :=
| AGet (k : key)          (* get-or-create: the existing child of k, else a fresh zeroed one *)
| AUpd (c d : N)          (* update through a handle to child c (invisible once c has left the map) *)
| ARemove (k : key)
| AReset
| ACollect                (* the key set, with the child of each key *)
| ARead (c : N).          (* the value of child c, as read by a collection *)
Inductive ares := RChild (c : N) | RDone | RAbsent | RKeys (l : list (key * N)) | RValue (v : N).

Definition a_bump (c d : N) (e : key * (N * N)) : key * (N * N) :=
  if fst (snd e) =? c then (fst e, (fst (snd e), wrap64 (snd (snd e) + d))) else e.
Definition a_keys (m : list (key * (N * N))) : list (key * N) := map (fun e => (fst e, fst (snd e))) m.
Fixpoint a_value (c : N) (m : list (key * (N * N))) : N :=
  match m with [] => 0 | e :: r => if fst (snd e) =? c then snd (snd e) else a_value c r end.

Definition aspec (a : astate) (o : aop) : astate * ares :=
  match o with
  | AGet k =>
      match klookup k (a_map a) with
      | Some cv => (a, RChild (fst cv))
      | None => (mkA (kinsert k (a_next a, 0) (a_map a)) (a_next a + 1), RChild (a_next a))
      end
  | AUpd c d => (mkA (map (a_bump c d) (a_map a)) (a_next a), RDone)
  | ARemove k =>
      match klookup k (a_map a) with
      | Some _ => (mkA (kremove k (a_map a)) (a_next a), RDone)
      | None => (a, RAbsent)
      end
  | AReset => (mkA [] (a_next a), RDone)
  | ACollect => (a, RKeys (a_keys (a_map a)))
  | ARead c => (a, RValue (a_value c (a_map a)))
  end.
(* child ids start at 1 (they coincide with the shim's creation-order cell ids; 0 is the lock) *)
Definition ainit : astate := mkA [] 1.
Fixpoint areplay (a : astate) (os : list aop) : astate * list ares :=
  match os with
  | [] => (a, [])
  | o :: r => let (a1, x) := aspec a o in let (a2, xs) := areplay a1 r in (a2, x :: xs)
  end.

(* ------------------------------------------------------------------ program counters *)
Inductive pc :=
| PIdle
(* with_label_values(k).inc_by(d) *)
| PG1 (k : key) (d : N)                  (* called; next: read-lock *)
| PG2 (k : key) (d : N)                  (* read lock held; next: first lookup *)
| PG3 (k : key) (d : N) (h : option N)   (* first lookup done; next: read-unlock *)
| PG4 (k : key) (d : N)                  (* missed and unlocked; next: write-lock *)
| PG5 (k : key) (d : N)                  (* write lock held; next: second lookup *)
| PG6 (k : key) (d : N)                  (* second lookup missed; next: build child, insert *)
| PG7 (k : key) (d : N) (c : N)          (* child in hand; next: write-unlock *)
| PU (k : key) (c d : N)                 (* handle to child c; next: fetch_add *)
(* remove_label_values(k) *)
| PM1 (k : key) | PM2 (k : key) | PM3 (k : key) (ok : bool)
(* reset() *)
| PZ1 | PZ2 | PZ3
(* collect(): snap is ghost (the abstract key set at the read-lock acquisition), vis the children loaded so far *)
| PC1 | PC2 (snap : list (key * N)) (vis : list (key * N * N))
| PR (r : retv).                         (* next: return marker *)

Definition holds_read (p : pc) : bool := match p with PG2 _ _ | PG3 _ _ _ | PC2 _ _ => true | _ => false end.
Definition holds_write (p : pc) : bool :=
  match p with PG5 _ _ | PG6 _ _ | PG7 _ _ _ | PM2 _ | PM3 _ _ | PZ2 | PZ3 => true | _ => false end.

Inductive label := LE (e : event) | LTau (t : nat).

(* log entry: time, thread, abstract operation, abstract result *)
Definition lent := (nat * nat * aop * ares)%type.
Definition le_time (e : lent) : nat := fst (fst (fst e)).
Definition le_tid (e : lent) : nat := snd (fst (fst e)).
Definition le_op (e : lent) : aop := snd (fst e).
Definition le_res (e : lent) : ares := snd e.
(* completed call: thread, call, returned value, time of the call marker, time of the return marker *)
Definition drec := (nat * call * retv * nat * nat)%type.

Record vstate := mkV {
  v_nl : nat;                      (* number of label names of the vector *)
  v_rd : nat; v_wr : bool;         (* the RwLock word: reader count, writer flag *)
  v_map : list (key * N);          (* children: key -> cell id *)
  v_cells : list (N * N);          (* cell id -> value, every child ever created *)
  v_next : N;                      (* next creation-order id *)
  v_pc : nat -> pc;
  (* ghost *)
  g_rh : list nat; g_wh : option nat;     (* holders of the lock *)
  g_abs : astate;
  g_lin : list lent;                      (* linearised operations, newest first *)
  g_open : nat -> option (call * nat);
  g_done : list drec;
  g_now : nat }.

Definition vinit (nl : nat) : vstate :=
  mkV nl 0 false [] [] 1 (fun _ => PIdle) [] None ainit [] (fun _ => None) [] 0.

Definition updf {A} (f : nat -> A) (t : nat) (x : A) : nat -> A := fun u => if Nat.eqb u t then x else f u.

Definition set_pc (s : vstate) (t : nat) (p : pc) : vstate :=
  mkV (v_nl s) (v_rd s) (v_wr s) (v_map s) (v_cells s) (v_next s) (updf (v_pc s) t p)
      (g_rh s) (g_wh s) (g_abs s) (g_lin s) (g_open s) (g_done s) (g_now s).
Definition set_lock (s : vstate) (rd : nat) (wr : bool) (rh : list nat) (wh : option nat) : vstate :=
  mkV (v_nl s) rd wr (v_map s) (v_cells s) (v_next s) (v_pc s) rh wh (g_abs s) (g_lin s) (g_open s) (g_done s) (g_now s).
Definition set_mem (s : vstate) (m : list (key * N)) (cs : list (N * N)) (nx : N) : vstate :=
  mkV (v_nl s) (v_rd s) (v_wr s) m cs nx (v_pc s) (g_rh s) (g_wh s) (g_abs s) (g_lin s) (g_open s) (g_done s) (g_now s).
(* a linearisation step of thread t: the abstract specification advances, the log grows *)
Definition lin (t : nat) (o : aop) (s : vstate) : vstate :=
  mkV (v_nl s) (v_rd s) (v_wr s) (v_map s) (v_cells s) (v_next s) (v_pc s) (g_rh s) (g_wh s)
      (fst (aspec (g_abs s) o)) ((g_now s, t, o, snd (aspec (g_abs s) o)) :: g_lin s) (g_open s) (g_done s) (g_now s).
Definition set_open (s : vstate) (t : nat) (o : option (call * nat)) : vstate :=
  mkV (v_nl s) (v_rd s) (v_wr s) (v_map s) (v_cells s) (v_next s) (v_pc s) (g_rh s) (g_wh s) (g_abs s) (g_lin s)
      (updf (g_open s) t o) (g_done s) (g_now s).
Definition add_done (s : vstate) (d : drec) : vstate :=
  mkV (v_nl s) (v_rd s) (v_wr s) (v_map s) (v_cells s) (v_next s) (v_pc s) (g_rh s) (g_wh s) (g_abs s) (g_lin s)
      (g_open s) (d :: g_done s) (g_now s).
Definition tick (s : vstate) : vstate :=
  mkV (v_nl s) (v_rd s) (v_wr s) (v_map s) (v_cells s) (v_next s) (v_pc s) (g_rh s) (g_wh s) (g_abs s) (g_lin s)
      (g_open s) (g_done s) (S (g_now s)).

Fixpoint remove_tid (t : nat) (l : list nat) : list nat :=
  match l with [] => [] | u :: r => if Nat.eqb u t then r else u :: remove_tid t r end.

Definition c_lock : N := 0.      (* shim cell id of the RwLock: the first primitive created *)

Fixpoint coll_eqb (a b : list (key * N)) : bool :=
  match a, b with
  | [], [] => true
  | (k, v) :: a', (k', v') :: b' => key_eqb k k' && (v =? v') && coll_eqb a' b'
  | _, _ => false
  end.
Definition retv_eqb (a b : retv) : bool :=
  match a, b with
  | RUnit, RUnit => true
  | RErr, RErr => true
  | RColl x, RColl y => coll_eqb x y
  | _, _ => false
  end.

Definition vis_cells (vis : list (key * N * N)) : list N := map (fun x => snd (fst x)) vis.
Definition vis_result (vis : list (key * N * N)) : list (key * N) := map (fun x => (fst (fst x), snd x)) vis.
Definition vis_keys (vis : list (key * N * N)) : list (key * N) := map fst vis.
(* the key whose child lives in cell c *)
Fixpoint key_of_cell (c : N) (m : list (key * N)) : option key :=
  match m with [] => None | (k, c') :: r => if c =? c' then Some k else key_of_cell c r end.

(* ------------------------------------------------------------------ the step function *)
(* [step0 s l = Some s'] : thread (the one named in l) can take the step labelled l in s *)
Definition step0 (s : vstate) (l : label) : option vstate :=
  match l with
  | LTau t =>
      match v_pc s t with
      | PG2 k d =>       (* children.read().get(&h) *)
          match klookup k (v_map s) with
          | Some c => Some (set_pc (lin t (AGet k) s) t (PG3 k d (Some c)))      (* hit: linearisation step *)
          | None => Some (set_pc s t (PG3 k d None))
          end
      | PG5 k d =>       (* get_or_create_metric: children.get(&hash) under the write lock *)
          match klookup k (v_map s) with
          | Some c => Some (set_pc (lin t (AGet k) s) t (PG7 k d c))             (* hit: linearisation step *)
          | None => Some (set_pc s t (PG6 k d))
          end
      | PG6 k d =>       (* new_metric.build (a fresh atomic cell, value 0); children.insert *)
          let c := v_next s in
          Some (set_pc (lin t (AGet k) (set_mem s (kinsert k c (v_map s)) ((c, 0) :: v_cells s) (c + 1))) t (PG7 k d c))
      | PM2 k =>         (* children.remove(&h) *)
          match klookup k (v_map s) with
          | Some _ => Some (set_pc (lin t (ARemove k) (set_mem s (kremove k (v_map s)) (v_cells s) (v_next s))) t (PM3 k true))
          | None => Some (set_pc (lin t (ARemove k) s) t (PM3 k false))
          end
      | PZ2 =>           (* children.clear() *)
          Some (set_pc (lin t AReset (set_mem s [] (v_cells s) (v_next s))) t PZ3)
      | _ => None
      end
  | LE (ECall t c) =>
      match v_pc s t with
      | PIdle =>
          let s1 := set_open s t (Some (c, g_now s)) in
          match c with
          | CWithInc k d => Some (set_pc s1 t (if Nat.eqb (length k) (v_nl s) then PG1 k d else PR RErr))
          | CRemove k => Some (set_pc s1 t (if Nat.eqb (length k) (v_nl s) then PM1 k else PR RErr))
          | CVReset => Some (set_pc s1 t PZ1)
          | CVCollect => Some (set_pc s1 t PC1)
          | _ => None
          end
      | _ => None
      end
  | LE (ELock t cell LRead acq) =>
      if negb (cell =? c_lock) then None else
      if acq then
        if v_wr s then None else
        let s1 := set_lock s (S (v_rd s)) false (t :: g_rh s) (g_wh s) in
        match v_pc s t with
        | PG1 k d => Some (set_pc s1 t (PG2 k d))
        | PC1 => Some (set_pc (lin t ACollect s1) t (PC2 (a_keys (a_map (g_abs s))) []))          (* linearisation step of collect *)
        | _ => None
        end
      else
        (* try_read fails exactly when a writer holds the lock; the thread stays where it is *)
        if v_wr s then match v_pc s t with PG1 _ _ | PC1 => Some s | _ => None end else None
  | LE (ELock t cell LWrite acq) =>
      if negb (cell =? c_lock) then None else
      if acq then
        if v_wr s || negb (Nat.eqb (v_rd s) 0) then None else
        let s1 := set_lock s 0 true (g_rh s) (Some t) in
        match v_pc s t with
        | PG4 k d => Some (set_pc s1 t (PG5 k d))
        | PM1 k => Some (set_pc s1 t (PM2 k))
        | PZ1 => Some (set_pc s1 t PZ2)
        | _ => None
        end
      else
        if v_wr s || negb (Nat.eqb (v_rd s) 0)
        then match v_pc s t with PG4 _ _ | PM1 _ | PZ1 => Some s | _ => None end else None
  | LE (EUnlock t cell LRead) =>
      if negb (cell =? c_lock) then None else
      let s1 := set_lock s (pred (v_rd s)) (v_wr s) (remove_tid t (g_rh s)) (g_wh s) in
      match v_pc s t with
      | PG3 k d (Some c) => Some (set_pc s1 t (PU k c d))
      | PG3 k d None => Some (set_pc s1 t (PG4 k d))
      | PC2 snap vis =>
          (* the iteration over children.values() has visited every entry *)
          if Nat.eqb (length vis) (length (v_map s)) then Some (set_pc s1 t (PR (RColl (vis_result vis)))) else None
      | _ => None
      end
  | LE (EUnlock t cell LWrite) =>
      if negb (cell =? c_lock) then None else
      let s1 := set_lock s (v_rd s) false (g_rh s) None in
      match v_pc s t with
      | PG7 k d c => Some (set_pc s1 t (PU k c d))
      | PM3 k ok => Some (set_pc s1 t (PR (if ok then RUnit else RErr)))
      | PZ3 => Some (set_pc s1 t (PR RUnit))
      | _ => None
      end
  | LE (EAt t cell KFetchAdd _ None before after true) =>
      (* inc_by through the handle: the update's linearisation step; needs no lock and works on removed children *)
      match v_pc s t with
      | PU k c d =>
          if (cell =? c) && cell_mem c (v_cells s) && (before =? cell_get c (v_cells s)) && (after =? wrap64 (before + d))
          then Some (set_pc (lin t (AUpd c d) (set_mem s (v_map s) (cell_set c after (v_cells s)) (v_next s))) t (PR RUnit))
          else None
      | _ => None
      end
  | LE (EAt t cell KLoad _ None before after true) =>
      (* collect: child.metric() loads the child's value; one load per entry of the map *)
      match v_pc s t with
      | PC2 snap vis =>
          match key_of_cell cell (v_map s) with
          | Some k =>
              if negb (memN cell (vis_cells vis)) && (before =? cell_get cell (v_cells s)) && (after =? before)
              then Some (set_pc (lin t (ARead cell) s) t (PC2 snap (vis ++ [(k, cell, before)])))
              else None
          | None => None
          end
      | _ => None
      end
  | LE (ERet t r) =>
      match v_pc s t, g_open s t with
      | PR r', Some (c, ti) =>
          if retv_eqb r r' then Some (set_pc (add_done (set_open s t None) (t, c, r', ti, g_now s)) t PIdle) else None
      | _, _ => None
      end
  | _ => None
  end.

(* every step takes one unit of time *)
Definition step (s : vstate) (l : label) : option vstate :=
  match step0 s l with Some s' => Some (tick s') | None => None end.

Fixpoint vrun (s : vstate) (tr : list label) : option vstate :=
  match tr with
  | [] => Some s
  | l :: r => match step s l with Some s' => vrun s' r | None => None end
  end.

(* ------------------------------------------------------------------ executable validator over shim events *)
Definition ev_tid (e : event) : option nat :=
  match e with
  | ECall t _ | ERet t _ | EAt t _ _ _ _ _ _ _ | ELock t _ _ _ | EUnlock t _ _ | EPanic t | EOther t => Some t
  | _ => None
  end.
(* the silent steps of a thread are taken as soon as they are enabled (inside a critical section
   their position is not observable); at most two are consecutive *)
Fixpoint saturate (n : nat) (t : nat) (s : vstate) : vstate :=
  match n with
  | O => s
  | S n' => match step s (LTau t) with Some s' => saturate n' t s' | None => s end
  end.
Definition vexec (s : vstate) (e : event) : option vstate :=
  match step s (LE e), ev_tid e with
  | Some s', Some t => Some (saturate 2 t s')
  | _, _ => None
  end.
(* the labels [vexec] takes for an event *)
Fixpoint sat_labels (n : nat) (t : nat) (s : vstate) : list label :=
  match n with
  | O => []
  | S n' => match step s (LTau t) with Some s' => LTau t :: sat_labels n' t s' | None => [] end
  end.

(* end of a complete run of threads 0..n-1: everybody idle, lock free *)
Fixpoint all_idle (n : nat) (s : vstate) : bool :=
  match n with O => true | S n' => (match v_pc s n' with PIdle => true | _ => false end) && all_idle n' s end.
Definition vfinal (n : nat) (s : vstate) : bool := all_idle n s && Nat.eqb (v_rd s) 0 && negb (v_wr s).
Definition vcheck (nl nthreads : nat) (es : list event) : bool :=
  match validate vexec (vinit nl) 0 es with
  | (None, s) => vfinal nthreads s
  | (Some _, _) => false
  end.
