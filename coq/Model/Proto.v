(* The metric data model (proto::MetricFamily and friends) as seen through the accessor
   interface the library uses.  Message-typed fields of Metric and the timestamp are
   options (presence is observable in the protobuf build and decides what the protobuf
   encoder writes); scalar fields written by the library are always present, the fully
   optional wire-level mirror lives in Model/Pb.v. *)
Require Import PV.Base.Prelude PV.Base.F64.
Open Scope N_scope.

Record LabelPair := mkLP { lp_name : str; lp_value : str }.
Record Bucket := mkBucket { b_cum : N; b_upper : f64 }.
Record Quantile := mkQuantile { q_quantile : f64; q_value : f64 }.
Record Histogram := mkHist { h_count : N; h_sum : f64; h_bucket : list Bucket }.
Record Summary := mkSummary { s_count : N; s_sum : f64; s_quantile : list Quantile }.
Inductive MetricType := COUNTER | GAUGE | SUMMARY | UNTYPED | HISTOGRAM.
Record Metric := mkMetric {
  m_label : list LabelPair;
  m_gauge : option f64;
  m_counter : option f64;
  m_summary : option Summary;
  m_untyped : option f64;
  m_histogram : option Histogram;
  m_ts : option Z }.
Record MetricFamily := mkMF { mf_name : str; mf_help : str; mf_type : MetricType; mf_metric : list Metric }.

Definition empty_metric (ls : list LabelPair) : Metric :=
  mkMetric ls None None None None None None.

(* defaulting getters, as in both data models *)
Definition get_counter (m : Metric) : f64 := match m_counter m with Some v => v | None => f_zero end.
Definition get_gauge (m : Metric) : f64 := match m_gauge m with Some v => v | None => f_zero end.
Definition get_untyped (m : Metric) : f64 := match m_untyped m with Some v => v | None => f_zero end.
Definition get_histogram (m : Metric) : Histogram := match m_histogram m with Some h => h | None => mkHist 0 f_zero [] end.
Definition get_summary (m : Metric) : Summary := match m_summary m with Some s => s | None => mkSummary 0 f_zero [] end.
Definition get_ts (m : Metric) : Z := match m_ts m with Some t => t | None => 0%Z end.

(* boolean equalities (floats by bit pattern, one NaN) *)
Definition lp_eqb (a b : LabelPair) := str_eqb (lp_name a) (lp_name b) && str_eqb (lp_value a) (lp_value b).
Fixpoint list_eqb {A} (e : A -> A -> bool) (a b : list A) : bool :=
  match a, b with
  | [], [] => true
  | x :: a', y :: b' => e x y && list_eqb e a' b'
  | _, _ => false
  end.
Definition opt_eqb {A} (e : A -> A -> bool) (a b : option A) : bool :=
  match a, b with None, None => true | Some x, Some y => e x y | _, _ => false end.
Definition bucket_eqb (a b : Bucket) := (b_cum a =? b_cum b) && f64_eqb (b_upper a) (b_upper b).
Definition quantile_eqb (a b : Quantile) := f64_eqb (q_quantile a) (q_quantile b) && f64_eqb (q_value a) (q_value b).
Definition hist_eqb (a b : Histogram) :=
  (h_count a =? h_count b) && f64_eqb (h_sum a) (h_sum b) && list_eqb bucket_eqb (h_bucket a) (h_bucket b).
Definition summary_eqb (a b : Summary) :=
  (s_count a =? s_count b) && f64_eqb (s_sum a) (s_sum b) && list_eqb quantile_eqb (s_quantile a) (s_quantile b).
Definition mtype_eqb (a b : MetricType) : bool :=
  match a, b with
  | COUNTER, COUNTER | GAUGE, GAUGE | SUMMARY, SUMMARY | UNTYPED, UNTYPED | HISTOGRAM, HISTOGRAM => true
  | _, _ => false
  end.
Definition metric_eqb (a b : Metric) : bool :=
  list_eqb lp_eqb (m_label a) (m_label b) && opt_eqb f64_eqb (m_gauge a) (m_gauge b)
  && opt_eqb f64_eqb (m_counter a) (m_counter b) && opt_eqb summary_eqb (m_summary a) (m_summary b)
  && opt_eqb f64_eqb (m_untyped a) (m_untyped b) && opt_eqb hist_eqb (m_histogram a) (m_histogram b)
  && opt_eqb Z.eqb (m_ts a) (m_ts b).
Definition mf_eqb (a b : MetricFamily) : bool :=
  str_eqb (mf_name a) (mf_name b) && str_eqb (mf_help a) (mf_help b) && mtype_eqb (mf_type a) (mf_type b)
  && list_eqb metric_eqb (mf_metric a) (mf_metric b).
