(* C20: the invocation cases (definitions only): for every arm of every macro of src/macros.rs the argument
   shape that selects it and the explicit-call term (Model/Macros.v) it stands for.  labels! and opts! appear
   with 0..4 repetitions.  Proofs/C20Facts.v proves, against the arms regenerated from the source, that each
   case selects its arm and expands to the Rust spelling of its term; Spec/SpecC20.v evaluates the terms. *)
From Coq Require Import String Ascii.
Require Import PV.Base.Prelude.
Require Import PV.Model.MacroRules PV.Model.Macros.
Open Scope string_scope.
Open Scope list_scope.

(* ---- invocation cases ---- *)
Record icase := mkCase {
  i_macro : string; i_arm : nat;
  i_public : bool;                 (* a documented arm (false: @of_type arms and the __register_* helpers) *)
  i_comma : bool;                  (* the arm accepts a trailing comma *)
  i_args : list tt;                (* the arguments, without trailing comma *)
  i_nf : nfx }.

Fixpoint commas (l : list (list tt)) : list tt :=
  match l with [] => [] | [x] => x | x :: r => x ++ [T ","] ++ commas r end.
Definition atoms (l : list string) : list tt := commas (map (fun a => [A a]) l).

Definition idx (p : string) (n : nat) : list string :=
  map (fun i => String.append p (String (ascii_of_nat (48 + i)) EmptyString)) (seq 1 n).

Definition labels_case (n : nat) : icase :=
  let ks := idx "K" n in let vs := idx "V" n in
  mkCase "labels" 0 true true (commas (map (fun kv : string * string => [A (fst kv); T "=>"; A (snd kv)]) (combine ks vs)))
         (NLabels (LLit (combine ks vs))).
Definition opts_case (n : nat) : icase :=
  let ls := idx "L" n in
  mkCase "opts" 0 true true (atoms (["NAME"; "HELP"] ++ ls)) (NOpts (ONew "NAME" "HELP" (map LVar ls))).

Definition call var k o l r := NCall (mkCall var k o l r).
Definition oN := OO (ONew "NAME" "HELP" []).
Definition oV := OO (OVar "OPTS").
Definition hN := OH (HNew "NAME" "HELP").
Definition hB := OH (HBuckets (HNew "NAME" "HELP") "BUCKETS").
Definition hV := OH (HVar "HOPTS").
Definition L := Some "LABELS".
Definition R := RVar "REG".

(* scalar families: macro, hidden?, variable, kind ; arms (OPTS) and (NAME, HELP) at positions a0 / a0+1 *)
Definition scalar_cases (m var : string) (k : mkind) (a0 : nat) : list icase :=
  [mkCase m a0 true true (atoms ["OPTS"]) (call var k oV None RDefault);
   mkCase m (S a0) true true (atoms ["NAME"; "HELP"]) (call var k oN None RDefault)].
Definition scalar_cases_wr (m var : string) (k : mkind) (a0 : nat) : list icase :=
  [mkCase m a0 true true (atoms ["OPTS"; "REG"]) (call var k oV None R);
   mkCase m (S a0) true true (atoms ["NAME"; "HELP"; "REG"]) (call var k oN None R)].
Definition vec_cases (m var : string) (k : mkind) : list icase :=
  [mkCase m 0 true true (atoms ["OPTS"; "LABELS"]) (call var k oV L RDefault);
   mkCase m 1 true true (atoms ["NAME"; "HELP"; "LABELS"]) (call var k oN L RDefault)].
Definition vec_cases_wr (m var : string) (k : mkind) : list icase :=
  [mkCase m 0 true true (atoms ["OPTS"; "LABELS"; "REG"]) (call var k oV L R);
   mkCase m 1 true true (atoms ["NAME"; "HELP"; "LABELS"; "REG"]) (call var k oN L R)].

(* hidden helpers: `$TYPE:ident` receives the type name as a plain token *)
Definition helper_case (m : string) (arm : nat) (comma : bool) (pre : list tt) (args : list string) (nf : nfx) : icase :=
  mkCase m arm false comma (pre ++ atoms args) nf.

Definition all_cases : list icase :=
  map labels_case (seq 0 5) ++ map opts_case (seq 0 5)
  ++ [mkCase "histogram_opts" 0 true true (atoms ["NAME"; "HELP"]) (NHOpts (HNew "NAME" "HELP"));
      mkCase "histogram_opts" 1 true true (atoms ["NAME"; "HELP"; "BUCKETS"]) (NHOpts (HBuckets (HNew "NAME" "HELP") "BUCKETS"));
      mkCase "histogram_opts" 2 true true (atoms ["NAME"; "HELP"; "BUCKETS"; "CL"])
             (NHOpts (HConsts (HBuckets (HNew "NAME" "HELP") "BUCKETS") (LVar "CL")))]
  ++ scalar_cases "register_counter" "counter" KCounter 1
  ++ scalar_cases_wr "register_counter_with_registry" "counter" KCounter 1
  ++ scalar_cases "register_int_counter" "counter" KIntCounter 0
  ++ scalar_cases_wr "register_int_counter_with_registry" "counter" KIntCounter 0
  ++ vec_cases "register_counter_vec" "counter_vec" KCounterVec
  ++ vec_cases_wr "register_counter_vec_with_registry" "counter_vec" KCounterVec
  ++ vec_cases "register_int_counter_vec" "counter_vec" KIntCounterVec
  ++ vec_cases_wr "register_int_counter_vec_with_registry" "counter_vec" KIntCounterVec
  ++ scalar_cases "register_gauge" "gauge" KGauge 0
  ++ scalar_cases_wr "register_gauge_with_registry" "gauge" KGauge 0
  ++ scalar_cases "register_int_gauge" "gauge" KIntGauge 0
  ++ scalar_cases_wr "register_int_gauge_with_registry" "gauge" KIntGauge 0
  ++ vec_cases "register_gauge_vec" "gauge_vec" KGaugeVec
  ++ vec_cases_wr "register_gauge_vec_with_registry" "gauge_vec" KGaugeVec
  ++ vec_cases "register_int_gauge_vec" "gauge_vec" KIntGaugeVec
  ++ vec_cases_wr "register_int_gauge_vec_with_registry" "gauge_vec" KIntGaugeVec
  ++ [mkCase "register_histogram" 0 true true (atoms ["NAME"; "HELP"]) (call "histogram" KHistogram hN None RDefault);
      mkCase "register_histogram" 1 true true (atoms ["NAME"; "HELP"; "BUCKETS"]) (call "histogram" KHistogram hB None RDefault);
      mkCase "register_histogram" 2 true true (atoms ["HOPTS"]) (call "histogram" KHistogram hV None RDefault);
      mkCase "register_histogram_with_registry" 0 true true (atoms ["NAME"; "HELP"; "REG"]) (call "histogram" KHistogram hN None R);
      mkCase "register_histogram_with_registry" 1 true true (atoms ["NAME"; "HELP"; "BUCKETS"; "REG"]) (call "histogram" KHistogram hB None R);
      mkCase "register_histogram_with_registry" 2 true true (atoms ["HOPTS"; "REG"]) (call "histogram" KHistogram hV None R);
      mkCase "register_histogram_vec" 0 true true (atoms ["HOPTS"; "LABELS"]) (call "histogram_vec" KHistogramVec hV L RDefault);
      mkCase "register_histogram_vec" 1 true true (atoms ["NAME"; "HELP"; "LABELS"]) (call "histogram_vec" KHistogramVec hN L RDefault);
      mkCase "register_histogram_vec" 2 true true (atoms ["NAME"; "HELP"; "LABELS"; "BUCKETS"]) (call "histogram_vec" KHistogramVec hB L RDefault);
      mkCase "register_histogram_vec_with_registry" 0 true true (atoms ["HOPTS"; "LABELS"; "REG"]) (call "histogram_vec" KHistogramVec hV L R);
      mkCase "register_histogram_vec_with_registry" 1 true true (atoms ["NAME"; "HELP"; "LABELS"; "REG"]) (call "histogram_vec" KHistogramVec hN L R);
      mkCase "register_histogram_vec_with_registry" 2 true true (atoms ["NAME"; "HELP"; "LABELS"; "BUCKETS"; "REG"])
             (call "histogram_vec" KHistogramVec hB L R)]
  (* internal arms and exported helpers *)
  ++ [helper_case "register_counter" 0 false [T "@"; T "of_type"; T "Counter"; T ","] ["OPTS"] (call "counter" KCounter oV None RDefault);
      helper_case "register_counter" 0 false [T "@"; T "of_type"; T "IntCounter"; T ","] ["OPTS"] (call "counter" KIntCounter oV None RDefault);
      helper_case "register_counter_with_registry" 0 false [T "@"; T "of_type"; T "Counter"; T ","] ["OPTS"; "REG"] (call "counter" KCounter oV None R);
      helper_case "register_counter_with_registry" 0 false [T "@"; T "of_type"; T "IntCounter"; T ","] ["OPTS"; "REG"] (call "counter" KIntCounter oV None R);
      helper_case "__register_counter_vec" 0 false [T "CounterVec"; T ","] ["OPTS"; "LABELS"] (call "counter_vec" KCounterVec oV L RDefault);
      helper_case "__register_counter_vec" 0 false [T "IntCounterVec"; T ","] ["OPTS"; "LABELS"] (call "counter_vec" KIntCounterVec oV L RDefault);
      helper_case "__register_counter_vec" 1 false [T "CounterVec"; T ","] ["OPTS"; "LABELS"; "REG"] (call "counter_vec" KCounterVec oV L R);
      helper_case "__register_counter_vec" 1 false [T "IntCounterVec"; T ","] ["OPTS"; "LABELS"; "REG"] (call "counter_vec" KIntCounterVec oV L R);
      helper_case "__register_gauge" 0 false [T "Gauge"; T ","] ["OPTS"] (call "gauge" KGauge oV None RDefault);
      helper_case "__register_gauge" 0 false [T "IntGauge"; T ","] ["OPTS"] (call "gauge" KIntGauge oV None RDefault);
      helper_case "__register_gauge" 1 false [T "Gauge"; T ","] ["OPTS"; "REG"] (call "gauge" KGauge oV None R);
      helper_case "__register_gauge" 1 false [T "IntGauge"; T ","] ["OPTS"; "REG"] (call "gauge" KIntGauge oV None R);
      helper_case "__register_gauge_vec" 0 true [T "GaugeVec"; T ","] ["OPTS"; "LABELS"] (call "gauge_vec" KGaugeVec oV L RDefault);
      helper_case "__register_gauge_vec" 0 true [T "IntGaugeVec"; T ","] ["OPTS"; "LABELS"] (call "gauge_vec" KIntGaugeVec oV L RDefault);
      helper_case "__register_gauge_vec" 1 true [T "GaugeVec"; T ","] ["OPTS"; "LABELS"; "REG"] (call "gauge_vec" KGaugeVec oV L R);
      helper_case "__register_gauge_vec" 1 true [T "IntGaugeVec"; T ","] ["OPTS"; "LABELS"; "REG"] (call "gauge_vec" KIntGaugeVec oV L R)].

Definition args_of (c : icase) (comma : bool) : list tt := if comma then i_args c ++ [T ","] else i_args c.

