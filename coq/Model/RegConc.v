(* C06, concurrent part: small-step model of concurrent use of one Registry (src/registry.rs:
   Registry { r: Arc<RwLock<RegistryCore>> }, register / unregister under r.write(), gather under r.read()).

   Shared state: the word of the registry's RwLock (reader count / writer flag) and the three tables it
   protects (Model/Registry.v [regcore]: collectors_by_id, dim_hashes_by_name, desc_ids; a collector is
   represented by its index in the scenario's collector table).  Per thread a program counter says where
   the thread is inside its current call.  Steps are labelled by the event the harness reports
   (harness/src/concreg.rs: call / return markers, the shim's lock events on the registry's lock, the
   desc() / collect() calls the registry makes on the scenario's collectors) or are silent ([QTau t]): the
   table accesses of the code perform no event; in the model they are silent steps that can be taken only
   at a program counter between the acquisition and the release of the lock:
     register    write-lock;  CHECK  (reads the tables: the admission verdict and the tables to commit);
                              COMMIT (writes exactly what the check computed);  write-unlock
     unregister  write-lock;  EFFECT;  write-unlock
     gather      read-lock;   READ (the name / sample-count view);  one collect() per registered collector;  read-unlock
   The registration is deliberately TWO steps (check, then commit of the tables computed by the check), so that
   "the verdict is the sequential verdict on the tables at the moment of the commit" is a THEOREM resting on the lock
   discipline (Proofs/RegConcFacts.v), not a modelling decision: other threads' steps interleave freely between them.

   Ghost state (no influence on the concrete fields): the holders of the lock, the abstract sequential registry
   advanced by the sequential specification [qspec] (= Registry.v's reg_register / reg_unregister / gather_families,
   one call at a time) at each linearisation step, the time-stamped log of linearised calls with their abstract
   results, the open / completed calls with the times of their call and return markers.

   Definitions only; [rexec] / [rcheck] is the executable validator run on the implementation's traces. *)
Require Import PV.Base.Prelude PV.Base.F64.
Require Import PV.Model.Proto PV.Model.Desc PV.Model.Value PV.Model.Registry PV.Model.Conc.
From Coq Require Import Arith.
Open Scope N_scope.

(* ------------------------------------------------------------------ events of `C reg` harness lines *)
Inductive rcall := RRegister (i : nat) | RUnregister (i : nat) | RGather.
(* RFams: the gathered families in the order returned, as (name, number of samples) *)
Inductive rret := ROk | RErrAlreadyReg | RErrMsg | RFams (l : list (str * N)).
Inductive revent :=
| RgCall (t : nat) (c : rcall)
| RgRet (t : nat) (r : rret)
| RgLock (t : nat) (cell : N) (k : lkind) (acquired : bool)
| RgUnlock (t : nat) (cell : N) (k : lkind)
| RgDesc (t i : nat)           (* the registry called desc() on (a box of) collector i, on thread t *)
| RgCollect (t i : nat)        (* the registry called collect() on the registered collector i, on thread t *)
| RgPanic (t : nat) | RgOther (t : nat)
| RgEStuck | RgEDeadlock | RgELivelock | RgNoHooks.

(* ------------------------------------------------------------------ the scenario's collectors *)
(* a descriptor as written in the scenario: fq name, help, variable label names, constant labels *)
Definition qdesc := (str * str * list str * list (str * str))%type.
Definition build_desc (d : qdesc) : option Desc := let '(fq, h, vs, cs) := d in desc_new fq h vs cs.
Fixpoint all_some {A} (l : list (option A)) : option (list A) :=
  match l with
  | [] => Some []
  | Some x :: r => match all_some r with Some r' => Some (x :: r') | None => None end
  | None :: _ => None
  end.
(* the collector table: the descriptors (Desc::new of the scenario's arguments) of collector 0, 1, ... *)
Definition ctable := list (list Desc).
Definition build_ctable (cs : list (list qdesc)) : option ctable := all_some (map (fun c => all_some (map build_desc c)) cs).
Definition descs_of (ct : ctable) (i : nat) : list Desc := nth i ct [].

(* ------------------------------------------------------------------ the sequential registry (Model/Registry.v), one call at a time *)
Definition table := regcore nat.
(* what the scenario's collector i exposes: one family per descriptor, one sample each *)
Definition fams_of (ct : ctable) (i : nat) : list MetricFamily :=
  map (fun d => mkMF (d_fq_name d) (d_help d) COUNTER [mkMetric (d_const_pairs d) None (Some f_zero) None None None None]) (descs_of ct i).
Definition gather_view (ct : ctable) (a : table) : list (str * N) :=
  map (fun mf => (mf_name mf, N.of_nat (length (mf_metric mf))))
      (gather_families (r_prefix a) (r_labels a) (flat_map (fun kc => fams_of ct (snd kc)) (r_collectors a))).
Definition ret_of {A} (v : result A) : rret :=
  match v with Ok _ => ROk | Err EAlreadyReg => RErrAlreadyReg | Err _ => RErrMsg end.
Definition qspec (ct : ctable) (a : table) (o : rcall) : table * rret :=
  match o with
  | RRegister i => let v := reg_register a (descs_of ct i) i in (match v with Ok a' => a' | Err _ => a end, ret_of v)
  | RUnregister i => let v := reg_unregister a (descs_of ct i) in (match v with Ok a' => a' | Err _ => a end, ret_of v)
  | RGather => (a, RFams (gather_view ct a))
  end.
Definition qinit : table := reg_empty.
Fixpoint qreplay (ct : ctable) (a : table) (os : list rcall) : table * list rret :=
  match os with
  | [] => (a, [])
  | o :: r => let (a1, x) := qspec ct a o in let (a2, xs) := qreplay ct a1 r in (a2, x :: xs)
  end.

(* ------------------------------------------------------------------ program counters *)
Inductive qpc :=
| QIdle
(* Registry::register *)
| QReg1 (i : nat)                        (* called; next: write-lock *)
| QReg2 (i : nat)                        (* write lock held; next: the admission check *)
| QReg3 (i : nat) (v : result table)     (* checked: verdict and, if accepted, the tables to commit; next: commit *)
| QReg4 (i : nat) (r : rret)             (* committed; next: write-unlock *)
(* Registry::unregister *)
| QUn1 (i : nat) | QUn2 (i : nat) | QUn3 (i : nat) (r : rret)
(* Registry::gather: view = what will be returned, vis = the collectors collected so far *)
| QGa1 | QGa2 | QGa3 (view : list (str * N)) (vis : list nat)
| QR (r : rret).                         (* next: return marker *)

Definition q_holds_read (p : qpc) : bool := match p with QGa2 | QGa3 _ _ => true | _ => false end.
Definition q_holds_write (p : qpc) : bool :=
  match p with QReg2 _ | QReg3 _ _ | QReg4 _ _ | QUn2 _ | QUn3 _ _ => true | _ => false end.
(* the collector a register / unregister call is about *)
Definition pc_coll (p : qpc) : option nat :=
  match p with QReg1 i | QReg2 i | QReg3 i _ | QReg4 i _ | QUn1 i | QUn2 i | QUn3 i _ => Some i | _ => None end.

Inductive qlabel := QE (e : revent) | QTau (t : nat).

(* log entry: time, thread, call, abstract result *)
Definition qlent := (nat * nat * rcall * rret)%type.
Definition ql_time (e : qlent) : nat := fst (fst (fst e)).
Definition ql_tid (e : qlent) : nat := snd (fst (fst e)).
Definition ql_op (e : qlent) : rcall := snd (fst e).
Definition ql_res (e : qlent) : rret := snd e.
(* completed call: thread, call, returned value, time of the call marker, time of the return marker *)
Definition qdrec := (nat * rcall * rret * nat * nat)%type.

Record qstate := mkQ {
  q_ct : ctable;
  q_rd : nat; q_wr : bool;         (* the RwLock word: reader count, writer flag *)
  q_tab : table;                   (* the tables of RegistryCore *)
  q_pc : nat -> qpc;
  (* ghost *)
  qg_rh : list nat; qg_wh : option nat;
  qg_abs : table;
  qg_lin : list qlent;             (* linearised calls, newest first *)
  qg_open : nat -> option (rcall * nat);
  qg_done : list qdrec;
  qg_now : nat }.

Definition qstate0 (ct : ctable) : qstate :=
  mkQ ct 0 false qinit (fun _ => QIdle) [] None qinit [] (fun _ => None) [] 0.

Definition qupd {A} (f : nat -> A) (t : nat) (x : A) : nat -> A := fun u => if Nat.eqb u t then x else f u.

Definition qset_pc (s : qstate) (t : nat) (p : qpc) : qstate :=
  mkQ (q_ct s) (q_rd s) (q_wr s) (q_tab s) (qupd (q_pc s) t p) (qg_rh s) (qg_wh s) (qg_abs s) (qg_lin s) (qg_open s) (qg_done s) (qg_now s).
Definition qset_lock (s : qstate) (rd : nat) (wr : bool) (rh : list nat) (wh : option nat) : qstate :=
  mkQ (q_ct s) rd wr (q_tab s) (q_pc s) rh wh (qg_abs s) (qg_lin s) (qg_open s) (qg_done s) (qg_now s).
Definition qset_tab (s : qstate) (tb : table) : qstate :=
  mkQ (q_ct s) (q_rd s) (q_wr s) tb (q_pc s) (qg_rh s) (qg_wh s) (qg_abs s) (qg_lin s) (qg_open s) (qg_done s) (qg_now s).
(* a linearisation step of thread t: the sequential registry advances, the log grows *)
Definition qlin (t : nat) (o : rcall) (s : qstate) : qstate :=
  mkQ (q_ct s) (q_rd s) (q_wr s) (q_tab s) (q_pc s) (qg_rh s) (qg_wh s)
      (fst (qspec (q_ct s) (qg_abs s) o)) ((qg_now s, t, o, snd (qspec (q_ct s) (qg_abs s) o)) :: qg_lin s)
      (qg_open s) (qg_done s) (qg_now s).
Definition qset_open (s : qstate) (t : nat) (o : option (rcall * nat)) : qstate :=
  mkQ (q_ct s) (q_rd s) (q_wr s) (q_tab s) (q_pc s) (qg_rh s) (qg_wh s) (qg_abs s) (qg_lin s) (qupd (qg_open s) t o) (qg_done s) (qg_now s).
Definition qadd_done (s : qstate) (d : qdrec) : qstate :=
  mkQ (q_ct s) (q_rd s) (q_wr s) (q_tab s) (q_pc s) (qg_rh s) (qg_wh s) (qg_abs s) (qg_lin s) (qg_open s) (d :: qg_done s) (qg_now s).
Definition qtick (s : qstate) : qstate :=
  mkQ (q_ct s) (q_rd s) (q_wr s) (q_tab s) (q_pc s) (qg_rh s) (qg_wh s) (qg_abs s) (qg_lin s) (qg_open s) (qg_done s) (S (qg_now s)).

Fixpoint qremove_tid (t : nat) (l : list nat) : list nat :=
  match l with [] => [] | u :: r => if Nat.eqb u t then r else u :: qremove_tid t r end.
Fixpoint mem_nat (x : nat) (l : list nat) : bool :=
  match l with [] => false | y :: r => Nat.eqb x y || mem_nat x r end.

Definition q_lock : N := 0.      (* shim cell id of the registry's RwLock: the first primitive created *)

Fixpoint view_eqb (a b : list (str * N)) : bool :=
  match a, b with
  | [], [] => true
  | (k, v) :: a', (k', v') :: b' => str_eqb k k' && (v =? v') && view_eqb a' b'
  | _, _ => false
  end.
Definition rret_eqb (a b : rret) : bool :=
  match a, b with
  | ROk, ROk | RErrAlreadyReg, RErrAlreadyReg | RErrMsg, RErrMsg => true
  | RFams x, RFams y => view_eqb x y
  | _, _ => false
  end.

(* collector i is in collectors_by_id *)
Definition registered (tb : table) (i : nat) : bool := existsb (fun kc => Nat.eqb (snd kc) i) (r_collectors tb).

(* ------------------------------------------------------------------ the step function *)
Definition qstep0 (s : qstate) (l : qlabel) : option qstate :=
  match l with
  | QTau t =>
      match q_pc s t with
      | QReg2 i =>      (* RegistryCore::register, the loop over c.desc() and the lookup of the collector id: reads the tables *)
          Some (qset_pc s t (QReg3 i (reg_register (q_tab s) (descs_of (q_ct s) i) i)))
      | QReg3 i v =>    (* ... its three inserts (or none): writes what the check computed; the linearisation step *)
          Some (qset_pc (qlin t (RRegister i) (match v with Ok tb => qset_tab s tb | Err _ => s end)) t (QReg4 i (ret_of v)))
      | QUn2 i =>       (* RegistryCore::unregister: the linearisation step *)
          let v := reg_unregister (q_tab s) (descs_of (q_ct s) i) in
          Some (qset_pc (qlin t (RUnregister i) (match v with Ok tb => qset_tab s tb | Err _ => s end)) t (QUn3 i (ret_of v)))
      | QGa2 =>         (* RegistryCore::gather reads collectors_by_id: the linearisation step *)
          Some (qset_pc (qlin t RGather s) t (QGa3 (gather_view (q_ct s) (q_tab s)) []))
      | _ => None
      end
  | QE (RgCall t c) =>
      match q_pc s t with
      | QIdle =>
          let s1 := qset_open s t (Some (c, qg_now s)) in
          match c with
          | RRegister i => if Nat.ltb i (length (q_ct s)) then Some (qset_pc s1 t (QReg1 i)) else None
          | RUnregister i => if Nat.ltb i (length (q_ct s)) then Some (qset_pc s1 t (QUn1 i)) else None
          | RGather => Some (qset_pc s1 t QGa1)
          end
      | _ => None
      end
  | QE (RgLock t cell LRead acq) =>
      if negb (cell =? q_lock) then None else
      if acq then
        if q_wr s then None else
        let s1 := qset_lock s (S (q_rd s)) false (t :: qg_rh s) (qg_wh s) in
        match q_pc s t with
        | QGa1 => Some (qset_pc s1 t QGa2)
        | _ => None
        end
      else
        (* try_read fails exactly when a writer holds the lock; the thread stays where it is *)
        if q_wr s then match q_pc s t with QGa1 => Some s | _ => None end else None
  | QE (RgLock t cell LWrite acq) =>
      if negb (cell =? q_lock) then None else
      if acq then
        if q_wr s || negb (Nat.eqb (q_rd s) 0) then None else
        let s1 := qset_lock s 0 true (qg_rh s) (Some t) in
        match q_pc s t with
        | QReg1 i => Some (qset_pc s1 t (QReg2 i))
        | QUn1 i => Some (qset_pc s1 t (QUn2 i))
        | _ => None
        end
      else
        if q_wr s || negb (Nat.eqb (q_rd s) 0)
        then match q_pc s t with QReg1 _ | QUn1 _ => Some s | _ => None end else None
  | QE (RgLock _ _ LMutex _) => None
  | QE (RgUnlock t cell LRead) =>
      if negb (cell =? q_lock) then None else
      let s1 := qset_lock s (pred (q_rd s)) (q_wr s) (qremove_tid t (qg_rh s)) (qg_wh s) in
      match q_pc s t with
      | QGa3 view vis =>
          (* the iteration over collectors_by_id.values() has collected every registered collector *)
          if Nat.eqb (length vis) (length (r_collectors (q_tab s))) then Some (qset_pc s1 t (QR (RFams view))) else None
      | _ => None
      end
  | QE (RgUnlock t cell LWrite) =>
      if negb (cell =? q_lock) then None else
      let s1 := qset_lock s (q_rd s) false (qg_rh s) None in
      match q_pc s t with
      | QReg4 i r => Some (qset_pc s1 t (QR r))
      | QUn3 i r => Some (qset_pc s1 t (QR r))
      | _ => None
      end
  | QE (RgUnlock _ _ LMutex) => None
  | QE (RgDesc t i) =>
      (* desc() of the call's collector: pure, may be called any number of times during the call, before the unlock *)
      match pc_coll (q_pc s t) with
      | Some j => if Nat.eqb i j then Some s else None
      | None => None
      end
  | QE (RgCollect t i) =>
      (* gather collects a registered collector, each once, under the read lock *)
      match q_pc s t with
      | QGa3 view vis =>
          if registered (q_tab s) i && negb (mem_nat i vis) then Some (qset_pc s t (QGa3 view (vis ++ [i]))) else None
      | _ => None
      end
  | QE (RgRet t r) =>
      match q_pc s t, qg_open s t with
      | QR r', Some (c, ti) =>
          if rret_eqb r r' then Some (qset_pc (qadd_done (qset_open s t None) (t, c, r', ti, qg_now s)) t QIdle) else None
      | _, _ => None
      end
  | _ => None
  end.

(* every step takes one unit of time *)
Definition qstep (s : qstate) (l : qlabel) : option qstate :=
  match qstep0 s l with Some s' => Some (qtick s') | None => None end.

Fixpoint qrun (s : qstate) (tr : list qlabel) : option qstate :=
  match tr with
  | [] => Some s
  | l :: r => match qstep s l with Some s' => qrun s' r | None => None end
  end.

(* ------------------------------------------------------------------ executable validator over harness events *)
Definition rev_tid (e : revent) : option nat :=
  match e with
  | RgCall t _ | RgRet t _ | RgLock t _ _ _ | RgUnlock t _ _ | RgDesc t _ | RgCollect t _ | RgPanic t | RgOther t => Some t
  | _ => None
  end.
(* the silent steps of a thread are taken as soon as they are enabled (inside a critical section their
   position is not observable); at most two are consecutive *)
Fixpoint qsaturate (n : nat) (t : nat) (s : qstate) : qstate :=
  match n with
  | O => s
  | S n' => match qstep s (QTau t) with Some s' => qsaturate n' t s' | None => s end
  end.
Definition rexec (s : qstate) (e : revent) : option qstate :=
  match qstep s (QE e), rev_tid e with
  | Some s', Some t => Some (qsaturate 2 t s')
  | _, _ => None
  end.
Fixpoint qsat_labels (n : nat) (t : nat) (s : qstate) : list qlabel :=
  match n with
  | O => []
  | S n' => match qstep s (QTau t) with Some s' => QTau t :: qsat_labels n' t s' | None => [] end
  end.

(* index of the first rejected event *)
Fixpoint rvalidate (s : qstate) (i : N) (es : list revent) : option N * qstate :=
  match es with
  | [] => (None, s)
  | e :: r => match rexec s e with Some s' => rvalidate s' (i + 1) r | None => (Some i, s) end
  end.

(* end of a complete run of threads 0..n-1: everybody idle, lock free *)
Fixpoint q_all_idle (n : nat) (s : qstate) : bool :=
  match n with O => true | S n' => (match q_pc s n' with QIdle => true | _ => false end) && q_all_idle n' s end.
Definition qfinal (n : nat) (s : qstate) : bool := q_all_idle n s && Nat.eqb (q_rd s) 0 && negb (q_wr s).
Definition rcheck (cs : list (list qdesc)) (nthreads : nat) (es : list revent) : bool :=
  match build_ctable cs with
  | Some ct => match rvalidate (qstate0 ct) 0 es with
               | (None, s) => qfinal nthreads s
               | (Some _, _) => false
               end
  | None => false
  end.
(* for the driver's explanation of a rejected trace *)
Definition rfirst_rejected (cs : list (list qdesc)) (es : list revent) : option N :=
  match build_ctable cs with
  | Some ct => fst (rvalidate (qstate0 ct) 0 es)
  | None => Some 0
  end.
