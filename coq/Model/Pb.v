(* src/encoder/pb.rs + proto/proto_model.rs (checked-in generated code) + the part of
   rust-protobuf 3.7.2 they call: the byte-level proto2 encoder (definitions only).

   Data: the wire-level mirror of Model/Proto.v.  Every field the schema declares `optional` is
   an [option] here (proto2 presence: an unset field is not written, a field set to its default
   value IS written); doubles are raw 64-bit patterns (rust-protobuf writes [f64::to_bits], so
   NaN payloads and signs survive; Coq's [float] has a single NaN and could not express that).
   Unknown fields (only reachable through the protobuf API) are outside the model. *)
Require Import PV.Base.Prelude PV.Base.Utf8 PV.Base.F64 PV.Model.Proto PV.Model.Desc PV.Model.Value.
Open Scope N_scope.

Record PLabelPair := mkPLP { plp_name : option str; plp_value : option str }.
Record PGauge := mkPGauge { pg_value : option N }.
Record PCounter := mkPCounter { pc_value : option N }.
Record PUntyped := mkPUntyped { pu_value : option N }.
Record PQuantile := mkPQuantile { pq_quantile : option N; pq_value : option N }.
Record PSummary := mkPSummary { ps_count : option N; ps_sum : option N; ps_quantile : list PQuantile }.
Record PBucket := mkPBucket { pbk_cum : option N; pbk_upper : option N }.
Record PHistogram := mkPHist { ph_count : option N; ph_sum : option N; ph_bucket : list PBucket }.
Record PMetric := mkPMetric {
  pm_label : list PLabelPair;
  pm_gauge : option PGauge;
  pm_counter : option PCounter;
  pm_summary : option PSummary;
  pm_untyped : option PUntyped;
  pm_histogram : option PHistogram;
  pm_ts : option Z }.
Record PFamily := mkPFamily {
  pf_name : option str; pf_help : option str; pf_type : option MetricType; pf_metric : list PMetric }.

(* ------------------------------------------------------------------ wire primitives *)
Definition blen (l : list N) : N := N.of_nat (length l).

(* CodedOutputStream::write_raw_varint64 on a u64: seven bits per byte, least significant group
   first, bit 7 = "more follows"; at most ten bytes.  (write_raw_varint32 produces the same bytes
   for values below 2^32.) *)
Fixpoint varint_aux (fuel : nat) (n : N) : list N :=
  match fuel with
  | O => []
  | S f => if n <? 128 then [n] else (128 + n mod 128) :: varint_aux f (n / 128)
  end.
Definition varint (n : N) : list N := varint_aux 10 n.

Definition WT_VARINT : N := 0.
Definition WT_FIXED64 : N := 1.
Definition WT_LEN : N := 2.
(* Tag::make(field_number, wire_type).value() = field_number << 3 | wire_type *)
Definition tag (fnum wt : N) : list N := varint (fnum * 8 + wt).

(* write_raw_little_endian64 *)
Fixpoint le_bytes (k : nat) (b : N) : list N :=
  match k with
  | O => []
  | S k' => b mod 256 :: le_bytes k' (b / 256)
  end.
Definition le64 (b : N) : list N := le_bytes 8 b.

Definition w_string (fnum : N) (s : str) : list N := tag fnum WT_LEN ++ varint (blen (utf8 s)) ++ utf8 s.
Definition w_double (fnum : N) (bits : N) : list N := tag fnum WT_FIXED64 ++ le64 bits.
Definition w_uint64 (fnum : N) (v : N) : list N := tag fnum WT_VARINT ++ varint v.
(* write_int64: `value as u64`, so a negative value takes ten bytes *)
Definition w_int64 (fnum : N) (z : Z) : list N := tag fnum WT_VARINT ++ varint (i64_of_Z z).
Definition mtype_num (t : MetricType) : N :=
  match t with COUNTER => 0 | GAUGE => 1 | SUMMARY => 2 | UNTYPED => 3 | HISTOGRAM => 4 end.
(* write_enum: the i32 value sign-extended to 64 bits; the five values are non-negative *)
Definition w_enum (fnum : N) (t : MetricType) : list N := tag fnum WT_VARINT ++ varint (mtype_num t).
(* rt::write_message_field_with_cached_size: tag, cached size, body *)
Definition w_message (fnum : N) (body : list N) : list N := tag fnum WT_LEN ++ varint (blen body) ++ body.

Definition wopt {A} (w : A -> list N) (o : option A) : list N :=
  match o with Some v => w v | None => [] end.

(* ------------------------------------------------------------------ write_to_with_cached_sizes, per message *)
Definition enc_LabelPair (l : PLabelPair) : list N :=
  wopt (w_string 1) (plp_name l) ++ wopt (w_string 2) (plp_value l).
Definition enc_Gauge (g : PGauge) : list N := wopt (w_double 1) (pg_value g).
Definition enc_Counter (c : PCounter) : list N := wopt (w_double 1) (pc_value c).
Definition enc_Untyped (u : PUntyped) : list N := wopt (w_double 1) (pu_value u).
Definition enc_Quantile (q : PQuantile) : list N :=
  wopt (w_double 1) (pq_quantile q) ++ wopt (w_double 2) (pq_value q).
Definition enc_Summary (s : PSummary) : list N :=
  wopt (w_uint64 1) (ps_count s) ++ wopt (w_double 2) (ps_sum s)
  ++ flat_map (fun q => w_message 3 (enc_Quantile q)) (ps_quantile s).
Definition enc_Bucket (b : PBucket) : list N :=
  wopt (w_uint64 1) (pbk_cum b) ++ wopt (w_double 2) (pbk_upper b).
Definition enc_Histogram (h : PHistogram) : list N :=
  wopt (w_uint64 1) (ph_count h) ++ wopt (w_double 2) (ph_sum h)
  ++ flat_map (fun b => w_message 3 (enc_Bucket b)) (ph_bucket h).
(* note the order: histogram (field 7) is written before timestamp_ms (field 6), as declared *)
Definition enc_Metric (m : PMetric) : list N :=
  flat_map (fun l => w_message 1 (enc_LabelPair l)) (pm_label m)
  ++ wopt (fun g => w_message 2 (enc_Gauge g)) (pm_gauge m)
  ++ wopt (fun c => w_message 3 (enc_Counter c)) (pm_counter m)
  ++ wopt (fun s => w_message 4 (enc_Summary s)) (pm_summary m)
  ++ wopt (fun u => w_message 5 (enc_Untyped u)) (pm_untyped m)
  ++ wopt (fun h => w_message 7 (enc_Histogram h)) (pm_histogram m)
  ++ wopt (w_int64 6) (pm_ts m).
Definition enc_Family (f : PFamily) : list N :=
  wopt (w_string 1) (pf_name f) ++ wopt (w_string 2) (pf_help f) ++ wopt (w_enum 3) (pf_type f)
  ++ flat_map (fun m => w_message 4 (enc_Metric m)) (pf_metric f).

(* ------------------------------------------------------------------ ProtobufEncoder::encode *)
(* encoder/mod.rs check_metric_family: get_metric() empty, then name() empty (name() of an unset
   field is "") *)
Definition pf_name_str (f : PFamily) : str := match pf_name f with Some s => s | None => [] end.
Definition check_family (f : PFamily) : bool := negb (is_nil (pf_metric f)) && negb (is_nil (pf_name_str f)).

(* Message::write_length_delimited_to: compute_size, check_message_size (size <= i32::MAX, else a
   protobuf error before anything is written), the size as a varint, the body *)
Definition MAX_MESSAGE_SIZE : N := 0x7fffffff.
Definition frame (f : PFamily) : list N := varint (blen (enc_Family f)) ++ enc_Family f.

Inductive pbres := POk (out : list N) | PErr (e : err) (out : list N) | PPanic.

(* the caller sees the result and the writer's contents: families before the refused one have
   been written in full, nothing of the refused one and nothing after it *)
Fixpoint encode_to (buf : list N) (fams : list PFamily) : pbres :=
  match fams with
  | [] => POk buf
  | f :: r =>
      if negb (check_family f) then PErr EMsg buf
      else if MAX_MESSAGE_SIZE <? blen (enc_Family f) then PErr EOther buf
      else encode_to (buf ++ frame f) r
  end.
Definition encode_stream (fams : list PFamily) : result (list N) :=
  match encode_to [] fams with
  | POk b => Ok b
  | PErr e _ => Err e
  | PPanic => Err EOther
  end.

(* ------------------------------------------------------------------ the gathered data model as wire-level data *)
(* everything the library's setters touch is set *)
Definition pb_of_lp (l : LabelPair) : PLabelPair := mkPLP (Some (lp_name l)) (Some (lp_value l)).
Definition pb_of_quantile (q : Quantile) : PQuantile :=
  mkPQuantile (Some (f2bits (q_quantile q))) (Some (f2bits (q_value q))).
Definition pb_of_summary (s : Summary) : PSummary :=
  mkPSummary (Some (s_count s)) (Some (f2bits (s_sum s))) (map pb_of_quantile (s_quantile s)).
Definition pb_of_bucket (b : Bucket) : PBucket := mkPBucket (Some (b_cum b)) (Some (f2bits (b_upper b))).
Definition pb_of_hist (h : Histogram) : PHistogram :=
  mkPHist (Some (h_count h)) (Some (f2bits (h_sum h))) (map pb_of_bucket (h_bucket h)).
Definition pb_of_metric (m : Metric) : PMetric :=
  mkPMetric (map pb_of_lp (m_label m))
    (option_map (fun v => mkPGauge (Some (f2bits v))) (m_gauge m))
    (option_map (fun v => mkPCounter (Some (f2bits v))) (m_counter m))
    (option_map pb_of_summary (m_summary m))
    (option_map (fun v => mkPUntyped (Some (f2bits v))) (m_untyped m))
    (option_map pb_of_hist (m_histogram m))
    (m_ts m).
Definition pb_of_family (f : MetricFamily) : PFamily :=
  mkPFamily (Some (mf_name f)) (Some (mf_help f)) (Some (mf_type f)) (map pb_of_metric (mf_metric f)).

(* boolean equalities for the correspondence check *)
Definition bytes_eqb (a b : list N) : bool := str_eqb a b.
Definition pbres_eqb (a b : pbres) : bool :=
  match a, b with
  | POk x, POk y => bytes_eqb x y
  | PErr e x, PErr e' y => err_eqb e e' && bytes_eqb x y
  | PPanic, PPanic => true
  | _, _ => false
  end.

Definition plp_eqb (a b : PLabelPair) : bool :=
  opt_eqb str_eqb (plp_name a) (plp_name b) && opt_eqb str_eqb (plp_value a) (plp_value b).
Definition pq_eqb (a b : PQuantile) : bool :=
  opt_eqb N.eqb (pq_quantile a) (pq_quantile b) && opt_eqb N.eqb (pq_value a) (pq_value b).
Definition pbk_eqb (a b : PBucket) : bool :=
  opt_eqb N.eqb (pbk_cum a) (pbk_cum b) && opt_eqb N.eqb (pbk_upper a) (pbk_upper b).
Definition ps_eqb (a b : PSummary) : bool :=
  opt_eqb N.eqb (ps_count a) (ps_count b) && opt_eqb N.eqb (ps_sum a) (ps_sum b)
  && list_eqb pq_eqb (ps_quantile a) (ps_quantile b).
Definition ph_eqb (a b : PHistogram) : bool :=
  opt_eqb N.eqb (ph_count a) (ph_count b) && opt_eqb N.eqb (ph_sum a) (ph_sum b)
  && list_eqb pbk_eqb (ph_bucket a) (ph_bucket b).
Definition pm_eqb (a b : PMetric) : bool :=
  list_eqb plp_eqb (pm_label a) (pm_label b)
  && opt_eqb (fun x y => opt_eqb N.eqb (pg_value x) (pg_value y)) (pm_gauge a) (pm_gauge b)
  && opt_eqb (fun x y => opt_eqb N.eqb (pc_value x) (pc_value y)) (pm_counter a) (pm_counter b)
  && opt_eqb ps_eqb (pm_summary a) (pm_summary b)
  && opt_eqb (fun x y => opt_eqb N.eqb (pu_value x) (pu_value y)) (pm_untyped a) (pm_untyped b)
  && opt_eqb ph_eqb (pm_histogram a) (pm_histogram b)
  && opt_eqb Z.eqb (pm_ts a) (pm_ts b).
Definition pf_eqb (a b : PFamily) : bool :=
  opt_eqb str_eqb (pf_name a) (pf_name b) && opt_eqb str_eqb (pf_help a) (pf_help b)
  && opt_eqb mtype_eqb (pf_type a) (pf_type b) && list_eqb pm_eqb (pf_metric a) (pf_metric b).
