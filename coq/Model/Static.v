(* static-metric/src/{parser,builder,auto_flush_builder,util}.rs and src/auto_flush.rs
   (definitions only).

   A make_static_metric! / make_auto_flush_static_metric! body is a list of label_enum and
   struct items.  One metric declaration is modelled together with the label_enums defined
   before it.  The code generator of builder.rs is modelled as a FUNCTION from the resolved
   labels to an accessor tree: the struct generated for label i has one field per declared
   value; `from` passes the values chosen so far down to the next level and the last level
   calls `m.with(&{label key -> value})` with a HashMap built by successive inserts (so the
   order of the label names of the backing vector plays no role).  get(enum) and
   try_get(str) are the generated `match` blocks.  For the auto-flush form the thread-local
   "inner" tree is the same tree with local leaves, and the public struct is a tree of
   delegators whose leaves hold one field offset per level; get_local adds them up. *)
Require Import PV.Base.Prelude PV.Model.Proto PV.Model.Desc PV.Model.Value PV.Model.Vec.
Open Scope N_scope.

(* ------------------------------------------------------------------ declarations (parser.rs) *)
Inductive mtype := TCounter | TIntCounter | TGauge | TIntGauge | THistogram
                 | TLocalCounter | TLocalIntCounter | TLocalHistogram.
(* util::is_local_metric: the type identifier starts with "Local" *)
Definition is_local_metric (t : mtype) : bool :=
  match t with TLocalCounter | TLocalIntCounter | TLocalHistogram => true | _ => false end.
Definition is_histogram (t : mtype) : bool :=
  match t with THistogram | TLocalHistogram => true | _ => false end.
Inductive mform := FStatic | FAuto.
(* make_auto_flush_static_metric! panics unless the type contains "Counter" or "Histogram"; the
   generated code type-checks only for the local types (CounterWithValueType / LocalHistogram) *)
Definition form_ok (f : mform) (t : mtype) : bool :=
  match f with FStatic => true | FAuto => is_local_metric t end.

(* `ident` (MetricValueDefShort: value = the identifier's text) or `ident: "string"` *)
Record vdef := mkV { v_id : str; v_str : str }.
Definition vshort (id : str) : vdef := mkV id id.
Inductive larm := LInline (vs : list vdef) | LEnum (e : str).
Record ldef := mkL { l_key : str; l_arm : larm }.
Record edef := mkE { e_name : str; e_vals : list vdef }.
Record decl := mkDecl { dc_form : mform; dc_enums : list edef; dc_type : mtype; dc_labels : list ldef }.

(* enum_definitions is a HashMap filled in item order: a later label_enum of the same name replaces *)
Definition enum_lookup (env : list edef) (e : str) : option (list vdef) :=
  alookup e (rev (map (fun d => (e_name d, e_vals d)) env)).

(* a label with its value list looked up (get_value_def_list) and, for an enum reference, the
   match patterns of build_fields_with_path (the variant identifiers, in definition order) *)
Record rlabel := mkRL { rl_key : str; rl_vals : list vdef; rl_pats : option (list str) }.
Definition resolve_label (env : list edef) (l : ldef) : option rlabel :=
  match l_arm l with
  | LInline vs => Some (mkRL (l_key l) vs None)
  | LEnum e => match enum_lookup env e with
               | Some vs => Some (mkRL (l_key l) vs (Some (map v_id vs)))
               | None => None              (* "Label enum `e` is undefined." *)
               end
  end.
Fixpoint resolve_labels (env : list edef) (ls : list ldef) : option (list rlabel) :=
  match ls with
  | [] => Some []
  | l :: r => match resolve_label env l, resolve_labels env r with
              | Some x, Some xs => Some (x :: xs)
              | _, _ => None
              end
  end.
Definition resolve (d : decl) : option (list rlabel) := resolve_labels (dc_enums d) (dc_labels d).
Definition keys_of (ls : list rlabel) : list str := map rl_key ls.
Definition ids_of (l : rlabel) : list str := map v_id (rl_vals l).

(* what rustc / the vector require of a declaration for the generated code to build and `from`
   not to panic: at least one label, distinct label keys (else the HashMap passed to `with`
   has too few entries), distinct field identifiers per label, known enums, supported type *)
Definition wf_declb (d : decl) : bool :=
  match resolve d with
  | None => false
  | Some ls => negb (is_nil ls) && nodup_str (keys_of ls) && forallb (fun l => nodup_str (ids_of l)) ls
               && form_ok (dc_form d) (dc_type d)
  end.

(* ------------------------------------------------------------------ generated accessor trees *)
Inductive tree (L : Type) : Type :=
| TLeaf (x : L)
| TNode (vals : list vdef)                (* the value definitions of this label, in order *)
        (fields : list (str * tree L))   (* one field per value, named by its identifier *)
        (pats : option (list str))       (* Some: `get(enum)` exists, with these match patterns *)
        (tg : bool).                     (* `try_get(&str)` exists (make_static_metric! only) *)
Arguments TLeaf {L} x.
Arguments TNode {L} vals fields pats tg.

(* build_struct + build_impl_from of all levels: level [lvl] receives what was chosen so far
   ([prev], one element per earlier level) and hands [prev ++ [elem lvl v]] to the member built
   for value [v]; below the last label sits the metric produced from everything chosen *)
Section Gen.
  Context {A L : Type} (elem : nat -> vdef -> A) (leaf : list A -> L) (tg : bool).
  Fixpoint gen (lvl : nat) (prev : list A) (ls : list rlabel) : tree L :=
    match ls with
    | [] => TLeaf (leaf prev)
    | l :: rest => TNode (rl_vals l)
                         (map (fun v => (v_id v, gen (S lvl) (prev ++ [elem lvl v]) rest)) (rl_vals l))
                         (rl_pats l) tg
    end.
End Gen.

Fixpoint index_of (x : str) (l : list str) : option nat :=
  match l with
  | [] => None
  | y :: t => if str_eqb x y then Some O else option_map S (index_of x t)
  end.

(* `.ident` *)
Definition acc_field {L} (id : str) (t : tree L) : option (tree L) :=
  match t with TNode _ fs _ _ => alookup id fs | TLeaf _ => None end.
(* build_impl_get: `match value { #(#match_patterns => &self.#fields,)* }`: the k-th pattern
   selects the field named after the k-th value definition *)
Definition acc_get {L} (variant : str) (t : tree L) : option (tree L) :=
  match t with
  | TNode vals fs (Some pats) _ =>
      match index_of variant pats with
      | Some k => match nth_error vals k with Some v => alookup (v_id v) fs | None => None end
      | None => None
      end
  | _ => None
  end.
(* build_impl_try_get: `match value { #(#values => Some(&self.#names),)* _ => None }`: first arm
   whose string literal equals the argument *)
Definition acc_try {L} (s : str) (t : tree L) : option (tree L) :=
  match t with
  | TNode vals fs _ true =>
      match find (fun v => str_eqb s (v_str v)) vals with
      | Some v => alookup (v_id v) fs
      | None => None
      end
  | _ => None
  end.

Inductive step := SField (id : str) | SGet (variant : str) | STry (s : str).
Definition acc {L} (s : step) (t : tree L) : option (tree L) :=
  match s with SField id => acc_field id t | SGet x => acc_get x t | STry x => acc_try x t end.
Fixpoint walk {L} (t : tree L) (p : list step) : option (tree L) :=
  match p with
  | [] => Some t
  | s :: r => match acc s t with Some t' => walk t' r | None => None end
  end.
Definition is_try (s : step) : bool := match s with STry _ => true | _ => false end.

(* the metrics below a node, in field order (the order in which `flush` visits them) *)
Fixpoint tree_leaves {L} (t : tree L) : list L :=
  match t with
  | TLeaf x => [x]
  | TNode _ fs _ _ => flat_map (fun kv => match kv with (_, sub) => tree_leaves sub end) fs
  end.

(* --- make_static_metric!: the leaf is `m.with(&coll)` where coll receives
   (key of label 0, label_0) ... (key of the last label, value) by HashMap::insert.
   [sl_path] (the field identifiers from the root) is a ghost name for the Rust object. *)
Record sleaf := mkSL { sl_path : list str; sl_map : list (str * str) }.
Definition static_leaf (keys : list str) (prev : list vdef) : sleaf :=
  mkSL (map v_id prev) (amap_of (combine keys (map v_str prev))).
Definition static_tree (tg : bool) (ls : list rlabel) : tree sleaf :=
  gen (fun _ v => v) (static_leaf (keys_of ls)) tg O [] ls.

(* --- make_auto_flush_static_metric!: XInner::from is the same generator (local leaves, no
   accessor methods); the delegators carry offset1..offsetN, offset(i+1) being the offset of the
   chosen field inside the inner struct of level i, as measured on a MaybeUninit value *)
Definition layout := nat -> str -> N.
Definition inner_tree (ls : list rlabel) : tree sleaf := static_tree false ls.
Definition deleg_tree (off : layout) (ls : list rlabel) : tree (list N) :=
  gen (fun lvl v => off lvl (v_id v)) (fun offs => offs) false O [] ls.
(* get_local: root address + offset1 -> the level-1 struct inside it, + offset2 -> ... *)
Fixpoint get_local {L} (off : layout) (lvl : nat) (t : tree L) (offs : list N) : option (tree L) :=
  match offs with
  | [] => Some t
  | o :: rest =>
      match t with
      | TNode _ fs _ _ =>
          match find (fun kv => off lvl (fst kv) =? o) fs with
          | Some kv => get_local off (S lvl) (snd kv) rest
          | None => None
          end
      | TLeaf _ => None
      end
  end.
(* the layout used when the model is executed: field k of a struct lies at 8 * (k + 1) *)
Definition default_layout (ls : list rlabel) : layout :=
  fun lvl id => match nth_error ls lvl with
                | Some l => match index_of id (ids_of l) with Some k => 8 * (N.of_nat k + 1) | None => 0 end
                | None => 0
                end.

(* ------------------------------------------------------------------ the backing vector *)
(* MetricVec::with(&HashMap): hash_labels reads the map in the vector's own label order; the
   child is identified here by that positional tuple (the 64-bit key is dealt with in C05) *)
Definition child := list str.
Definition vec_key (names : list str) (labels : list (str * str)) : option child :=
  if negb (lenN labels =? lenN names) then None else values_in_declared_order names labels.

Definition kv := list (list str * N).
Definition key_eqb : list str -> list str -> bool := list_eqb str_eqb.
Fixpoint kv_get (k : list str) (m : kv) : N :=
  match m with [] => 0 | (k', y) :: t => if key_eqb k k' then y else kv_get k t end.
Fixpoint kv_set (k : list str) (x : N) (m : kv) : kv :=
  match m with
  | [] => [(k, x)]
  | (k', y) :: t => if key_eqb k k' then (k', x) :: t else (k', y) :: kv_set k x t
  end.
Definition kv_add (k : list str) (x : N) (m : kv) : kv := kv_set k (kv_get k m + x) m.

(* ------------------------------------------------------------------ running a declaration *)
(* a leaf with the child its `with` call produced *)
Definition rleaf := (list str * child)%type.
Definition resolve_leaf (names : list str) (sl : sleaf) : option rleaf :=
  match vec_key names (sl_map sl) with Some c => Some (sl_path sl, c) | None => None end.
Fixpoint resolve_leaves (names : list str) (l : list sleaf) : option (list rleaf) :=
  match l with
  | [] => Some []
  | x :: r => match resolve_leaf names x, resolve_leaves names r with
              | Some a, Some b => Some (a :: b)
              | _, _ => None
              end
  end.

Record rt := mkRT { rt_store : kv;      (* the children of the vector: tuple -> value *)
                    rt_bufs : kv }.     (* the local metrics' pending amounts, by ghost name *)
(* LocalCounter::flush / LocalHistogram::flush of one leaf (both return at once when nothing is pending) *)
Definition flush_leaf (st : rt) (l : rleaf) : rt :=
  if kv_get (fst l) (rt_bufs st) =? 0 then st
  else mkRT (kv_add (snd l) (kv_get (fst l) (rt_bufs st)) (rt_store st)) (kv_set (fst l) 0 (rt_bufs st)).
(* the generated `flush`: `#(self.#names.flush();)*`, recursively *)
Definition flush_leaves (st : rt) (ls : list rleaf) : rt := fold_left flush_leaf ls st.

(* accessor calls made on the generated struct *)
Inductive sop :=
| OUpd (p : list step) (x : N)          (* inc_by / add / observe through the metric at p *)
| OFlush (p : list step).               (* flush() of the struct at p ([] = the whole struct) *)

Record setup := mkSetup {
  su_form : mform; su_local : bool; su_names : list str;
  su_tree : tree sleaf;                 (* X::from(&vec) resp. XInner::from(&vec) *)
  su_deleg : tree (list N);             (* auto-flush: X::from(&INNER) *)
  su_off : layout;
  su_auto : bool }.                     (* auto-flush: may_flush fires after every update *)

(* the metric object an accessor path denotes *)
Definition locate (s : setup) (p : list step) : option sleaf :=
  match su_form s with
  | FStatic => match walk (su_tree s) p with Some (TLeaf sl) => Some sl | _ => None end
  | FAuto => match walk (su_deleg s) p with
             | Some (TLeaf offs) => match get_local (su_off s) O (su_tree s) offs with
                                    | Some (TLeaf sl) => Some sl
                                    | _ => None
                                    end
             | _ => None
             end
  end.

Definition step_op (s : setup) (st : rt) (o : sop) : option rt :=
  match o with
  | OUpd p x =>
      match locate s p with
      | Some sl =>
          match resolve_leaf (su_names s) sl with
          | Some l =>
              if su_local s then
                let st1 := mkRT (rt_store st) (kv_add (fst l) x (rt_bufs st)) in
                match su_form s, su_auto s with
                | FAuto, true => match resolve_leaves (su_names s) (tree_leaves (su_tree s)) with
                                 | Some all => Some (flush_leaves st1 all)
                                 | None => None
                                 end
                | _, _ => Some st1
                end
              else Some (mkRT (kv_add (snd l) x (rt_store st)) (rt_bufs st))
          | None => None
          end
      | None => None
      end
  | OFlush p =>
      if negb (su_local s) then None
      else match su_form s with
           | FStatic => match walk (su_tree s) p with
                        | Some t => match resolve_leaves (su_names s) (tree_leaves t) with
                                    | Some ls => Some (flush_leaves st ls)
                                    | None => None
                                    end
                        | None => None
                        end
           | FAuto => match p with
                      | [] => match resolve_leaves (su_names s) (tree_leaves (su_tree s)) with
                              | Some ls => Some (flush_leaves st ls)
                              | None => None
                              end
                      | _ => None
                      end
           end
  end.
Fixpoint run_ops (s : setup) (st : rt) (ops : list sop) : option rt :=
  match ops with
  | [] => Some st
  | o :: r => match step_op s st o with Some st' => run_ops s st' r | None => None end
  end.

(* X::from: every leaf calls `with`, which creates its child (value 0) *)
Definition init_store (ls : list rleaf) : kv := fold_left (fun m l => kv_add (snd l) 0 m) ls [].

Definition mk_setup (d : decl) (ls : list rlabel) (names : list str) (auto : bool) : setup :=
  mkSetup (dc_form d) (is_local_metric (dc_type d)) names
          (match dc_form d with FStatic => static_tree true ls | FAuto => inner_tree ls end)
          (deleg_tree (default_layout ls) ls) (default_layout ls) auto.

(* one compiled round: a declaration, the label order of a fresh backing vector, accessor
   calls, and try_get probes (prefix path, string) answered by "is None" *)
Record c19case := mkCase { c_decl : decl; c_names : list str; c_auto : bool;
                           c_ops : list sop; c_probes : list (list step * str) }.

Definition probe {L} (t : tree L) (pr : list step * str) : bool :=
  match walk t (fst pr) with
  | Some n => match acc_try (snd pr) n with None => true | Some _ => false end
  | None => false
  end.

(* result: the children as (label pairs in the vector's order, value) + the probe answers;
   None = the generated code does not build or panics *)
Definition model_c19 (c : c19case) : option (list (list (str * str) * N) * list bool) :=
  let d := c_decl c in
  if negb (wf_declb d) then None else
  match resolve d with
  | None => None
  | Some ls =>
      let s := mk_setup d ls (c_names c) (c_auto c) in
      match resolve_leaves (c_names c) (tree_leaves (su_tree s)) with
      | None => None
      | Some all =>
          match run_ops s (mkRT (init_store all) []) (c_ops c) with
          | None => None
          | Some st => Some (map (fun kvp => (combine (c_names c) (fst kvp), snd kvp)) (rt_store st),
                             map (probe (su_tree s)) (c_probes c))
          end
      end
  end.
(* the same calls with every amount replaced by 1: the sample counts of a histogram *)
Definition unit_ops (ops : list sop) : list sop :=
  map (fun o => match o with OUpd p _ => OUpd p 1 | o => o end) ops.

(* ------------------------------------------------------------------ comparing with a compiled round *)
(* what the generated program reports for one round: the children collected from the backing
   vector as (label pairs, value or sample sum, sample count) and the probe answers; None = panic *)
Definition implobs := option (list (list (str * str) * N * N) * list bool).

Definition pairs_same (a b : list (str * str)) : bool :=
  (lenN a =? lenN b)
  && forallb (fun x => existsb (fun y => str_eqb (fst x) (fst y) && str_eqb (snd x) (snd y)) b) a.
Definition child_value (m : list (list (str * str) * N)) (pairs : list (str * str)) : option N :=
  match find (fun kvp => pairs_same (fst kvp) pairs) m with Some kvp => Some (snd kvp) | None => None end.
Definition optN_eqb (a : option N) (b : N) : bool := match a with Some x => x =? b | None => false end.

Definition c19_match (c : c19case) (o : implobs) : bool :=
  let counts := mkCase (c_decl c) (c_names c) (c_auto c) (unit_ops (c_ops c)) (c_probes c) in
  match model_c19 c, model_c19 counts, o with
  | Some (ms, mp), Some (mc, _), Some (ic, ip) =>
      (lenN ic =? lenN ms)
      && forallb (fun ch => match ch with (pairs, sum, cnt) =>
                   optN_eqb (child_value ms pairs) sum
                   && (if is_histogram (dc_type (c_decl c)) then optN_eqb (child_value mc pairs) cnt else cnt =? 0)
                 end) ic
      && list_eqb Bool.eqb mp ip
  | None, _, None => true
  | _, _, _ => false
  end.
