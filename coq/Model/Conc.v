(* Events reported by the concurrent harness (harness/src/conc.rs): every atomic operation,
   lock attempt / release and call / return marker of a scheduled run of the real library. *)
Require Import PV.Base.Prelude.
Open Scope N_scope.

Inductive akind := KLoad | KStore | KFetchAdd | KFetchSub | KSwap | KCasWeak | KOther.
Inductive ord := Relaxed | Acquire | Release | AcqRel | SeqCst.
Inductive lkind := LMutex | LRead | LWrite.

Inductive call :=
| CInc | CDec | CAdd (bits : N) | CSub (bits : N) | CSet (bits : N) | CGet | CReset | CFlush (bits : N)
| CObs (bits : N) | CBatch (bits : list N) | CCollect | CSCount | CSSum
| CWithInc (k : list str) (d : N) | CRemove (k : list str) | CVReset | CVCollect | CBadOp.
Inductive retv :=
| RUnit | RVal (bits : N) | RSnap (cnt sum : N) (bks : list N) | RErr | RColl (l : list (list str * N)).

Inductive event :=
| ECall (t : nat) (c : call)
| ERet (t : nat) (r : retv)
| EAt (t : nat) (cell : N) (k : akind) (o : ord) (o2 : option ord) (before after : N) (ok : bool)
| ELock (t : nat) (cell : N) (k : lkind) (acquired : bool)
| EUnlock (t : nat) (cell : N) (k : lkind)
| EPanic (t : nat) | EOther (t : nat)
| EStuck | EDeadlock | ELivelock | ENoHooks.

Definition akind_eqb (a b : akind) : bool :=
  match a, b with
  | KLoad, KLoad | KStore, KStore | KFetchAdd, KFetchAdd | KFetchSub, KFetchSub | KSwap, KSwap | KCasWeak, KCasWeak | KOther, KOther => true
  | _, _ => false
  end.
Definition is_release (o : ord) : bool := match o with Release | AcqRel | SeqCst => true | _ => false end.
Definition is_acquire (o : ord) : bool := match o with Acquire | AcqRel | SeqCst => true | _ => false end.

(* validate a trace with an executable step function: index of the first rejected event *)
Fixpoint validate {S} (exec : S -> event -> option S) (s : S) (i : N) (es : list event) : option N * S :=
  match es with
  | [] => (None, s)
  | e :: r => match exec s e with Some s' => validate exec s' (i + 1) r | None => (Some i, s) end
  end.
