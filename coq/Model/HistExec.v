(* Executable, event-driven form of the concurrent histogram model: each event reported by the
   harness for a run of the REAL histogram is either a stuttering step or exactly one step of
   the relational model (Model/HistConc.v); `hexec` checks the rule's premises, the values the
   shim observed (cell contents before / after) and the memory orderings that matter.
   Ghost bookkeeping for the cut bounds lives here: the number of records at the invocation of
   a collection (l0), at its flip (K) and at its return (l1). *)
Require Import PV.Base.Prelude PV.Base.F64 PV.Model.Conc PV.Model.HistConc.
From Coq Require Import ZArith Lia.
Open Scope Z_scope.

(* ---- integer-valued binary64 values ---- *)
Definition zbits (z : Z) : N := f2bits (f_of_Z z).
Definition z_of_bits (b : N) : option Z :=
  match Prim2SF (bits2f b) with
  | S754_zero _ => Some 0
  | S754_finite s m e =>
      let v := if (0 <=? e) then Zpos m * 2 ^ e else Zpos m / 2 ^ (- e) in
      let v := if s then - v else v in
      if N.eqb (zbits v) b then Some v else None
  | _ => None
  end.

Section X.
Variable bounds : list Z.         (* integer-valued bucket bounds, as accepted by the constructor *)
Let B := length bounds.

Definition two63 : Z := 2 ^ 63.
Definition two64z : Z := 2 ^ 64.

(* shim cell ids in creation order inside HistogramCore::new *)
Definition c_lock : N := 0%N.
Definition c_sac : N := 1%N.
Definition c_shard_base (sd : bool) : N := (2 + (if sd then 1 else 0) * (N.of_nat B + 2))%N.
(* decode a cell id into (shard, Some cell index) for sum(0)/bucket(S j), or (shard, None) for the count *)
Definition decode_cell (c : N) : option (bool * option nat) :=
  if (c <? 2)%N then None
  else
    let r := (c - 2)%N in
    let w := (N.of_nat B + 2)%N in
    let sd := (w <=? r)%N in
    let k := if sd then (r - w)%N else r in
    if (w <=? k)%N then None
    else if (k <? N.of_nat B)%N then Some (sd, Some (S (N.to_nat k)))
    else if (k =? N.of_nat B)%N then Some (sd, Some O)
    else Some (sd, None).

Fixpoint bucket_of (v : Z) (bs : list Z) (j : nat) : option nat :=
  match bs with [] => None | b :: r => if v <=? b then Some j else bucket_of v r (S j) end.
Fixpoint bumpz (j : nat) (l : list Z) : list Z :=
  match l, j with [], _ => [] | x :: r, O => (x + 1) :: r | x :: r, S j' => x :: bumpz j' r end.
Definition batch_vec (vs : list Z) : list Z :=
  fold_left (fun acc v => match bucket_of v bounds O with Some j => bumpz j acc | None => acc end) vs (repeat 0 B).
Fixpoint nonzero_writes (j : nat) (l : list Z) : list (nat * Z) :=
  match l with [] => [] | x :: r => (if 0 <? x then [(S j, x)] else []) ++ nonzero_writes (S j) r end.
(* the planned writes of an observation of v / of a flushed batch vs: bucket cells then the sum cell *)
Definition obs_writes (v : Z) : list (nat * Z) :=
  (match bucket_of v bounds O with Some j => [(S j, 1)] | None => [] end) ++ [(O, v)].
Definition batch_writes (vs : list Z) : list (nat * Z) :=
  nonzero_writes O (batch_vec vs) ++ [(O, fold_left Z.add vs 0)].

(* per-thread bookkeeping that the relational state does not carry *)
Inductive aux :=
| ANone                                  (* no call in progress *)
| AObs                                   (* observe / flush in progress *)
| AObsRet                                (* published, return marker pending *)
| ACol (l0 : nat)                        (* collection in progress, l0 = #records at invocation *)
| AColRet (l0 k : nat) (N sumv : Z) (bs : list Z)   (* unlocked, return marker pending *)
| ASCount (v : option Z)                 (* get_sample_count: value loaded so far *)
| ASSum (locked : bool) (hotv : option bool) (v : option Z) (unlocked : bool).

Record cut := { cut_l0 : nat; cut_k : nat; cut_l1 : nat; cut_res : Z * Z * list Z }.

Record xst := { base : st; ax : nat -> aux; slock : option nat;   (* holder of the collect lock inside get_sample_sum *)
                cuts : list cut;
                reads : list (nat * Z * bool) }.   (* quiescent-read log: (#records, value returned, is_sum) *)

Definition set_ax (x : xst) (t : nat) (a : aux) : nat -> aux := fun u => if Nat.eqb u t then a else ax x u.
Definition xmk (x : xst) (b : st) (t : nat) (a : aux) : xst :=
  {| base := b; ax := set_ax x t a; slock := slock x; cuts := cuts x; reads := reads x |}.

Definition sac_value (s : st) : Z := n s + (if hot s then two63 else 0).
Definition mem_cell (s : st) (sd : bool) (c : option nat) : Z :=
  match c with Some i => cells (sh s sd) i | None => cnt (sh s sd) end.
(* bit pattern expected in a cell: the sum cell (index 0) holds an f64, everything else a u64 *)
Definition cell_bits (c : option nat) (v : Z) : N :=
  match c with Some O => zbits v | _ => Z.to_N v end.

Fixpoint find_pending (ws : list wr) (c : nat) (pred : Z -> bool) (k : nat) : option (nat * wr) :=
  match ws with
  | [] => None
  | w :: r => if negb (w_done w) && Nat.eqb (w_cell w) c && pred (w_d w) then Some (k, w) else find_pending r c pred (S k)
  end.

Fixpoint cumulz (run : Z) (l : list Z) : list Z :=
  match l with [] => [] | x :: r => (run + x) :: cumulz (run + x) r end.
Fixpoint listZ_eqb (a b : list Z) : bool :=
  match a, b with [] , [] => true | x :: a', y :: b' => (x =? y) && listZ_eqb a' b' | _, _ => false end.

Definition wdone (w : wr) : wr := {| w_cell := w_cell w; w_d := w_d w; w_done := true |}.

Definition lock_free (x : xst) : bool :=
  match lock (base x), slock x with None, None => true | _, _ => false end.

(* ---------------------------------------------------------------- the step function *)
Definition hexec (x : xst) (e : event) : option xst :=
  let s := base x in
  match e with
  | ECall t c =>
      match ax x t, thr s t with
      | ANone, Idle =>
          match c with
          | CObs b =>
              match z_of_bits b with
              | Some v => Some (xmk x (mk s (n s) (hot s) (sh s) (lock s) (recs s) (K s) (set_thr s t (OClaim 1 (obs_writes v))) (snaps s)) t AObs)
              | None => None
              end
          | CBatch bs =>
              match fold_right (fun b acc => match z_of_bits b, acc with Some v, Some l => Some (v :: l) | _, _ => None end) (Some []) bs with
              | Some vs =>
                  if (1 <=? Z.of_nat (length vs)) then
                    Some (xmk x (mk s (n s) (hot s) (sh s) (lock s) (recs s) (K s)
                                   (set_thr s t (OClaim (Z.of_nat (length vs)) (batch_writes vs))) (snaps s)) t AObs)
                  else None
              | None => None
              end
          | CCollect =>
              Some (xmk x (mk s (n s) (hot s) (sh s) (lock s) (recs s) (K s) (set_thr s t CLockWait) (snaps s)) t (ACol (length (recs s))))
          | CSCount => Some (xmk x s t (ASCount None))
          | CSSum => Some (xmk x s t (ASSum false None None false))
          | _ => None
          end
      | _, _ => None
      end
  | ERet t r =>
      match ax x t, r with
      | AObsRet, RUnit => Some (xmk x s t ANone)
      | AColRet l0 k N sumv bs, RSnap cnt sum bks =>
          if (Z.of_N cnt =? N) && N.eqb sum (zbits sumv) && listZ_eqb (map Z.of_N bks) (cumulz 0 (rev bs)) then
            Some {| base := s; ax := set_ax x t ANone; slock := slock x;
                    cuts := {| cut_l0 := l0; cut_k := k; cut_l1 := length (recs s); cut_res := (N, sumv, rev bs) |} :: cuts x;
                    reads := reads x |}
          else None
      | ASCount (Some v), RVal b =>
          if Z.of_N b =? v then
            Some {| base := s; ax := set_ax x t ANone; slock := slock x; cuts := cuts x; reads := (length (recs s), v, false) :: reads x |}
          else None
      | ASSum true (Some _) (Some v) true, RVal b =>
          if N.eqb b (zbits v) then
            Some {| base := s; ax := set_ax x t ANone; slock := slock x; cuts := cuts x; reads := (length (recs s), v, true) :: reads x |}
          else None
      | _, _ => None
      end
  | ELock t cell lk acquired =>
      if negb (N.eqb cell c_lock) then None else
      match lk with
      | LMutex =>
          match ax x t, thr s t with
          | ACol _, CLockWait =>
              if acquired then
                (if lock_free x then Some (xmk x (mk s (n s) (hot s) (sh s) (Some t) (recs s) (K s) (set_thr s t (CIn CFlip)) (snaps s)) t (ax x t)) else None)
              else (if lock_free x then None else Some x)
          | ASSum false None None false, Idle =>
              if acquired then
                (if lock_free x then Some {| base := s; ax := set_ax x t (ASSum true None None false); slock := Some t; cuts := cuts x; reads := reads x |} else None)
              else (if lock_free x then None else Some x)
          | _, _ => None
          end
      | _ => None
      end
  | EUnlock t cell lk =>
      if negb (N.eqb cell c_lock) then None else
      match ax x t, thr s t with
      | ACol l0, CIn (CUnlock N sumv bs) =>
          match lock s with
          | Some u => if Nat.eqb u t then
                        Some (xmk x (mk s (n s) (hot s) (sh s) None (recs s) O (set_thr s t Idle) ((K s, (N, sumv, rev bs)) :: snaps s))
                                  t (AColRet l0 (K s) N sumv bs))
                      else None
          | None => None
          end
      | ASSum true (Some h) (Some v) false, Idle =>
          match slock x with
          | Some u => if Nat.eqb u t then
                        Some {| base := s; ax := set_ax x t (ASSum true (Some h) (Some v) true); slock := None; cuts := cuts x; reads := reads x |}
                      else None
          | None => None
          end
      | _, _ => None
      end
  | EAt t cell k o o2 before after ok =>
      match ax x t, thr s t with
      (* ---- get_sample_count: one relaxed load of shard_and_count ---- *)
      | ASCount None, Idle =>
          if N.eqb cell c_sac && akind_eqb k KLoad && (Z.of_N before =? sac_value s) then
            Some (xmk x s t (ASCount (Some (n s)))) else None
      (* ---- get_sample_sum: under the lock, load shard_and_count then the hot shard's sum ---- *)
      | ASSum true None None false, Idle =>
          if N.eqb cell c_sac && akind_eqb k KLoad && (Z.of_N before =? sac_value s) then
            Some (xmk x s t (ASSum true (Some (hot s)) None false)) else None
      | ASSum true (Some h) None false, Idle =>
          match decode_cell cell with
          | Some (sd, Some O) =>
              if Bool.eqb sd h && akind_eqb k KLoad && N.eqb before (zbits (cells (sh s sd) O)) then
                Some (xmk x s t (ASSum true (Some h) (Some (cells (sh s sd) O)) false)) else None
          | _ => None
          end
      (* ---- observe / flush: claim ---- *)
      | AObs, OClaim c ws =>
          if N.eqb cell c_sac && akind_eqb k KFetchAdd && ok && (Z.of_N before =? sac_value s) && (Z.of_N after =? sac_value s + c)
             && (1 <=? c) && forallb (fun p => Nat.leb (fst p) B) ws then
            Some (xmk x (mk s (n s + c) (hot s) (sh s) (lock s)
                            (recs s ++ [{| r_cnt := c; r_ws := map (fun p => {| w_cell := fst p; w_d := snd p; w_done := false |}) ws;
                                           r_pub := false; r_tgt := hot s |}])
                            (K s) (set_thr s t (OWork (length (recs s)))) (snaps s)) t AObs)
          else None
      (* ---- observe / flush: bucket adds, the sum loop, publish ---- *)
      | AObs, OWork i =>
          match nth_error (recs s) i with
          | None => None
          | Some r =>
              if r_pub r then None else
              match decode_cell cell with
              | Some (sd, Some c) =>
                  if negb (Bool.eqb sd (r_tgt r)) then None
                  else if negb (N.eqb before (cell_bits (Some c) (cells (sh s sd) c))) then None
                  else
                    match k with
                    | KLoad => if Nat.eqb c O && N.eqb after before then Some x else None          (* the sum loop's load: stutter *)
                    | KCasWeak =>
                        if negb (Nat.eqb c O) then None
                        else if negb ok then (if N.eqb after before then Some x else None)        (* failed compare-exchange: stutter *)
                        else
                          match find_pending (r_ws r) O (fun d => N.eqb after (zbits (cells (sh s sd) O + d))) O with
                          | Some (kk, w) =>
                              Some (xmk x (mk s (n s) (hot s) (set_sh s (r_tgt r) (add_cell (sh s (r_tgt r)) (w_cell w) (w_d w))) (lock s)
                                              (set_nth i {| r_cnt := r_cnt r; r_ws := set_nth kk (wdone w) (r_ws r); r_pub := false; r_tgt := r_tgt r |} (recs s))
                                              (K s) (thr s) (snaps s)) t AObs)
                          | None => None
                          end
                    | KFetchAdd =>
                        if Nat.eqb c O || negb ok then None
                        else
                          match find_pending (r_ws r) c (fun d => Z.of_N after =? cells (sh s sd) c + d) O with
                          | Some (kk, w) =>
                              Some (xmk x (mk s (n s) (hot s) (set_sh s (r_tgt r) (add_cell (sh s (r_tgt r)) (w_cell w) (w_d w))) (lock s)
                                              (set_nth i {| r_cnt := r_cnt r; r_ws := set_nth kk (wdone w) (r_ws r); r_pub := false; r_tgt := r_tgt r |} (recs s))
                                              (K s) (thr s) (snaps s)) t AObs)
                          | None => None
                          end
                    | _ => None
                    end
              | Some (sd, None) =>
                  (* publish: the count hand-off; must be a release and come after every write *)
                  if Bool.eqb sd (r_tgt r) && akind_eqb k KFetchAdd && ok && is_release o && all_done r
                     && (Z.of_N before =? cnt (sh s sd)) && (Z.of_N after =? cnt (sh s sd) + r_cnt r) then
                    Some (xmk x (mk s (n s) (hot s) (set_sh s (r_tgt r) (add_cnt (sh s (r_tgt r)) (r_cnt r))) (lock s)
                                    (set_nth i {| r_cnt := r_cnt r; r_ws := r_ws r; r_pub := true; r_tgt := r_tgt r |} (recs s))
                                    (K s) (set_thr s t Idle) (snaps s)) t AObsRet)
                  else None
              | None => None
              end
          end
      (* ---- collect ---- *)
      | ACol l0, CIn p =>
          let cold := negb (hot s) in
          match p with
          | CFlip =>
              if N.eqb cell c_sac && akind_eqb k KFetchAdd && ok && (Z.of_N before =? sac_value s)
                 && (Z.of_N after =? (sac_value s + two63) mod two64z) then
                Some (xmk x (mk s (n s) (negb (hot s)) (sh s) (lock s) (recs s) (length (recs s)) (set_thr s t (CIn (CWait (n s)))) (snaps s)) t (ACol l0))
              else None
          | CWait N =>
              match decode_cell cell with
              | Some (sd, None) =>
                  if Bool.eqb sd cold && akind_eqb k KCasWeak && (Z.of_N before =? cnt (sh s sd)) then
                    if ok then
                      (if (cnt (sh s cold) =? N) && (Z.of_N after =? 0) && is_acquire o then
                         Some (xmk x (mk s (n s) (hot s) (set_sh s cold (set_cnt (sh s cold) 0)) (lock s) (recs s) (K s)
                                         (set_thr s t (CIn (CSwapSum N))) (snaps s)) t (ACol l0))
                       else None)
                    else (if N.eqb after before then Some x else None)
                  else None
              | _ => None
              end
          | CSwapSum N =>
              match decode_cell cell with
              | Some (sd, Some O) =>
                  if Bool.eqb sd cold && akind_eqb k KSwap && ok && N.eqb before (zbits (cells (sh s cold) O)) && N.eqb after (zbits 0) then
                    Some (xmk x (mk s (n s) (hot s) (set_sh s cold (set_cell (sh s cold) O 0)) (lock s) (recs s) (K s)
                                    (set_thr s t (CIn (if (0 <? B)%nat then CBucket N (cells (sh s cold) O) O [] else CAddCnt N (cells (sh s cold) O) []))) (snaps s))
                              t (ACol l0))
                  else None
              | _ => None
              end
          | CBucket N sumv j bs =>
              match decode_cell cell with
              | Some (sd, Some (S j')) =>
                  if Bool.eqb sd cold && Nat.eqb j' j && akind_eqb k KSwap && ok && (Z.of_N before =? cells (sh s cold) (S j)) && (Z.of_N after =? 0) then
                    Some (xmk x (mk s (n s) (hot s) (set_sh s cold (set_cell (sh s cold) (S j) 0)) (lock s) (recs s) (K s)
                                    (set_thr s t (CIn (CBucketAdd N sumv j (cells (sh s cold) (S j)) bs))) (snaps s)) t (ACol l0))
                  else None
              | _ => None
              end
          | CBucketAdd N sumv j v bs =>
              match decode_cell cell with
              | Some (sd, Some (S j')) =>
                  if Bool.eqb sd (hot s) && Nat.eqb j' j && akind_eqb k KFetchAdd && ok && (Z.of_N before =? cells (sh s (hot s)) (S j))
                     && (Z.of_N after =? cells (sh s (hot s)) (S j) + v) then
                    Some (xmk x (mk s (n s) (hot s) (set_sh s (hot s) (add_cell (sh s (hot s)) (S j) v)) (lock s) (recs s) (K s)
                                    (set_thr s t (CIn (if (S j <? B)%nat then CBucket N sumv (S j) (v :: bs) else CAddCnt N sumv (v :: bs)))) (snaps s))
                              t (ACol l0))
                  else None
              | _ => None
              end
          | CAddCnt N sumv bs =>
              match decode_cell cell with
              | Some (sd, None) =>
                  if Bool.eqb sd (hot s) && akind_eqb k KFetchAdd && ok && (Z.of_N before =? cnt (sh s (hot s))) && (Z.of_N after =? cnt (sh s (hot s)) + N) then
                    Some (xmk x (mk s (n s) (hot s) (set_sh s (hot s) (add_cnt (sh s (hot s)) N)) (lock s) (recs s) (K s)
                                    (set_thr s t (CIn (CAddSum N sumv bs))) (snaps s)) t (ACol l0))
                  else None
              | _ => None
              end
          | CAddSum N sumv bs =>
              match decode_cell cell with
              | Some (sd, Some O) =>
                  if negb (Bool.eqb sd (hot s)) then None
                  else if negb (N.eqb before (zbits (cells (sh s (hot s)) O))) then None
                  else
                    match k with
                    | KLoad => if N.eqb after before then Some x else None
                    | KCasWeak =>
                        if negb ok then (if N.eqb after before then Some x else None)
                        else if N.eqb after (zbits (cells (sh s (hot s)) O + sumv)) then
                          Some (xmk x (mk s (n s) (hot s) (set_sh s (hot s) (add_cell (sh s (hot s)) O sumv)) (lock s) (recs s) (K s)
                                          (set_thr s t (CIn (CUnlock N sumv bs))) (snaps s)) t (ACol l0))
                        else None
                    | _ => None
                    end
              | _ => None
              end
          | CUnlock _ _ _ => None
          end
      | _, _ => None
      end
  | _ => None
  end.

Definition xinit : xst :=
  {| base := {| n := 0; hot := false; sh := fun _ => {| cnt := 0; cells := fun _ => 0 |}; lock := None;
                recs := []; K := O; thr := fun _ => Idle; snaps := [] |};
     ax := fun _ => ANone; slock := None; cuts := []; reads := [] |}.

Fixpoint xrun (x : xst) (es : list event) : option xst :=
  match es with
  | [] => Some x
  | e :: r => match hexec x e with Some x' => xrun x' r | None => None end
  end.

End X.
