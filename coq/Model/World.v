(* The sequential world model: an interpreter for histories of public API calls over a table
   of handles, mirroring what the Rust harness does with the real library (definitions).
   Every constructor-like operation appends exactly one slot (a dead one on failure), so slot
   numbers are static. *)
Require Import PV.Base.Prelude PV.Base.Utf8 PV.Base.Fnv PV.Base.F64.
Require Import PV.Model.Proto PV.Model.Desc PV.Model.Value PV.Model.Hist PV.Model.Vec PV.Model.Registry.
Open Scope N_scope.

Inductive collector :=
| CValue (c : nat) | CHist (c : nat) | CVec (v : nat)
| CCustom (ds : list Desc) (fams : list MetricFamily)
| CPulling (d : Desc) (v : f64).

Inductive handle :=
| HDead
| HValue (c : nat)
| HHist (c : nat)
| HVec (v : nat)
| HLocalCounter (c : nat) (val : numval)
| HLocalHist (c : nat) (l : lhist)
| HLocalCounterVec (v : nat) (cache : list (N * (nat * numval)))
| HLocalHistVec (v : nat) (cache : list (N * (nat * lhist)))
| HTimer (c : nat)
| HLocalTimer (c : nat) (l : lhist)       (* owns a cleared clone of the local histogram *)
| HRegistry (r : nat)
| HCustom (ds : list Desc) (fams : list MetricFamily)
| HPulling (d : Desc) (v : f64).

Record world := mkWorld {
  w_v : list vcore; w_h : list hcore; w_vec : list veccore; w_reg : list (regcore collector);
  w_slots : list handle }.
Definition world0 : world := mkWorld [] [] [] [] [].

Definition set_v w x := mkWorld x (w_h w) (w_vec w) (w_reg w) (w_slots w).
Definition set_h w x := mkWorld (w_v w) x (w_vec w) (w_reg w) (w_slots w).
Definition set_vec w x := mkWorld (w_v w) (w_h w) x (w_reg w) (w_slots w).
Definition set_reg w x := mkWorld (w_v w) (w_h w) (w_vec w) x (w_slots w).
Definition set_slots w x := mkWorld (w_v w) (w_h w) (w_vec w) (w_reg w) x.
Definition push_slot w h := set_slots w (w_slots w ++ [h]).
Definition put_slot w i h := set_slots w (list_set (w_slots w) i h).
Definition slot w i : handle := nth i (w_slots w) HDead.

Inductive timer_mode := TRecord | TObserve | TDiscard | TDrop.

Inductive op :=
| OpDesc (fq help : str) (vars : list str) (consts : list (str * str))
| OpFqName (ns sub name : str)
| OpCounter (k : numkind) (o : Opts)
| OpGauge (k : numkind) (o : Opts)
| OpHistogram (o : HistogramOpts)
| OpCounterVec (k : numkind) (o : Opts) (labels : list str)
| OpGaugeVec (k : numkind) (o : Opts) (labels : list str)
| OpHistVec (o : HistogramOpts) (labels : list str)
| OpWith (s : nat) (vals : list str)
| OpWithMap (s : nat) (kvs : list (str * str))
| OpRemove (s : nat) (vals : list str)
| OpRemoveMap (s : nat) (kvs : list (str * str))
| OpReset (s : nat)
| OpInc (s : nat) | OpIncBy (s : nat) (v : numval) | OpDec (s : nat)
| OpAdd (s : nat) (v : numval) | OpSub (s : nat) (v : numval) | OpSet (s : nat) (v : numval)
| OpGet (s : nat)
| OpObserve (s : nat) (v : f64)
| OpSampleSum (s : nat) | OpSampleCount (s : nat)
| OpLocal (s : nat)
| OpFlush (s : nat) | OpClear (s : nat) | OpClone (s : nat) | OpDrop (s : nat)
| OpLvInc (s : nat) (vals : list str) (v : numval)
| OpLvObserve (s : nat) (vals : list str) (v : f64)
| OpLvRemove (s : nat) (vals : list str)
| OpTimer (s : nat)
| OpTimerStop (s : nat) (m : timer_mode) (secs nanos : N)
| OpClosure (s : nat) (secs nanos : N)
| OpRegistry (prefix : option str) (labels : option (list (str * str)))
| OpRegister (r s : nat) | OpUnregister (r s : nat) | OpGather (r : nat)
| OpCustom (ds : list (str * str * list str * list (str * str))) (fams : list MetricFamily)
| OpPulling (name help : str) (v : f64)
| OpCollect (s : nat)
| OpDescOf (s : nat)
| OpLinearBuckets (start width : f64) (count : N)
| OpExpBuckets (start factor : f64) (count : N).

Inductive obs :=
| OUnit
| ORes (r : result unit)
| ONum (v : numval)
| OF64 (f : f64)
| ON (n : N)
| OStr (s : str)
| ODesc (d : option (N * N * list LabelPair))       (* id, dim_hash, const_label_pairs *)
| ODescs (ds : list (str * str * N * N * list LabelPair * list str))
| OFams (fs : list MetricFamily)                    (* ordered (gather) *)
| OFamsU (fs : list MetricFamily)                   (* metrics inside a family unordered (collect of a vector) *)
| OBuckets (b : option (list f64))
| OHung                                              (* a collect that would never return *)
| OPanic                                             (* the library panicked (modelled panic sites only) *)
| OBad.                                              (* ill-typed scenario step: generator bug *)

(* ---------- helpers ---------- *)
Definition opts_with_vars (o : Opts) (labels : list str) : Opts :=
  mkOpts (o_namespace o) (o_subsystem o) (o_name o) (o_help o) (o_consts o) labels.

Definition as_secs_f64 (secs nanos : N) : f64 := (f_of_N secs + f_of_N nanos / f_of_N 1000000000)%float.

Definition upd {A} (l : list A) (i : nat) (f : A -> A) : list A :=
  match nth_error l i with Some x => list_set l i (f x) | None => l end.

(* build a child of a vector (MetricVecBuilder::build); returns the new world and the handle *)
Definition build_child (w : world) (v : veccore) (vals : list str) : result (world * handle * nat) :=
  match v_kind v with
  | VKValue t k =>
      match value_new (v_opts v) t k vals with
      | Err e => Err e
      | Ok c => Ok (set_v w (w_v w ++ [c]), HValue (length (w_v w)), length (w_v w))
      end
  | VKHist bs =>
      match hcore_new (mkHOpts (v_opts v) bs) vals with
      | Err e => Err e
      | Ok c => Ok (set_h w (w_h w ++ [c]), HHist (length (w_h w)), length (w_h w))
      end
  end.
Definition child_handle (v : veccore) (c : nat) : handle :=
  match v_kind v with VKValue _ _ => HValue c | VKHist _ => HHist c end.

(* get_metric_with_label_values / get_metric_with after hashing: lookup or create *)
Definition vec_get_or_create (w : world) (vi : nat) (h : N) (vals : list str) : result (world * handle) :=
  match nth_error (w_vec w) vi with
  | None => Err EOther
  | Some v =>
      match nlookup h (v_children v) with
      | Some c => Ok (w, child_handle v c)
      | None =>
          match build_child w v vals with
          | Err e => Err e
          | Ok (w', hd, c) =>
              Ok (set_vec w' (list_set (w_vec w') vi (vec_set_children v (v_children v ++ [(h, c)]))), hd)
          end
      end
  end.

Definition vec_delete (w : world) (vi : nat) (h : N) : result world :=
  match nth_error (w_vec w) vi with
  | None => Err EOther
  | Some v =>
      match nlookup h (v_children v) with
      | None => Err EMsg
      | Some _ => Ok (set_vec w (list_set (w_vec w) vi (vec_set_children v (nremove h (v_children v)))))
      end
  end.

(* collecting: returns families and the new world (histogram collection mutates) *)
Definition collect_hist (w : world) (c : nat) : option (Metric * world) :=
  match nth_error (w_h w) c with
  | None => None
  | Some h => match hist_metric h with
              | None => None
              | Some (m, h') => Some (m, set_h w (list_set (w_h w) c h'))
              end
  end.
Fixpoint collect_children (w : world) (k : veckind) (cs : list (N * nat)) : option (list Metric * world) :=
  match cs with
  | [] => Some ([], w)
  | (_, c) :: r =>
      match k with
      | VKValue _ _ =>
          match nth_error (w_v w) c with
          | None => None
          | Some vc => match collect_children w k r with
                       | None => None
                       | Some (ms, w') => Some (value_metric vc :: ms, w')
                       end
          end
      | VKHist _ =>
          match collect_hist w c with
          | None => None
          | Some (m, w1) => match collect_children w1 k r with
                            | None => None
                            | Some (ms, w') => Some (m :: ms, w')
                            end
          end
      end
  end.
Definition hist_family (h : hcore) (ms : list Metric) : MetricFamily :=
  mkMF (d_fq_name (hc_desc h)) (d_help (hc_desc h)) HISTOGRAM ms.
Definition collect_collector (w : world) (c : collector) : option (list MetricFamily * world) :=
  match c with
  | CValue i => match nth_error (w_v w) i with Some vc => Some ([value_collect vc], w) | None => None end
  | CHist i =>
      match nth_error (w_h w) i, collect_hist w i with
      | Some h, Some (m, w') => Some ([hist_family h [m]], w')
      | _, _ => None
      end
  | CVec vi =>
      match nth_error (w_vec w) vi with
      | None => None
      | Some v => match collect_children w (v_kind v) (v_children v) with
                  | None => None
                  | Some (ms, w') =>
                      Some ([mkMF (d_fq_name (v_desc v)) (d_help (v_desc v)) (veckind_mtype (v_kind v)) ms], w')
                  end
      end
  | CCustom _ fams => Some (fams, w)
  | CPulling d v => Some ([mkMF (d_fq_name d) (d_help d) GAUGE [mkMetric [] (Some v) None None None None None]], w)
  end.
Fixpoint collect_all (w : world) (cs : list (N * collector)) : option (list MetricFamily * world) :=
  match cs with
  | [] => Some ([], w)
  | (_, c) :: r =>
      match collect_collector w c with
      | None => None
      | Some (fs, w1) => match collect_all w1 r with
                         | None => None
                         | Some (fs', w') => Some (fs ++ fs', w')
                         end
      end
  end.

Definition collector_of (w : world) (h : handle) : option (collector * list Desc) :=
  match h with
  | HValue c => match nth_error (w_v w) c with Some vc => Some (CValue c, [vc_desc vc]) | None => None end
  | HHist c => match nth_error (w_h w) c with Some hc => Some (CHist c, [hc_desc hc]) | None => None end
  | HVec v => match nth_error (w_vec w) v with Some vc => Some (CVec v, [v_desc vc]) | None => None end
  | HCustom ds fams => Some (CCustom ds fams, ds)
  | HPulling d v => Some (CPulling d v, [d])
  | _ => None
  end.

Definition res_unit {A} (r : result A) : result unit := match r with Ok _ => Ok tt | Err e => Err e end.

(* flushing a local histogram state into its shared core *)
Definition flush_lh (w : world) (c : nat) (l : lhist) : world := set_h w (upd (w_h w) c (fun h => hc_flush h l)).
Definition bounds_of (w : world) (c : nat) : list f64 :=
  match nth_error (w_h w) c with Some h => hc_bounds h | None => [] end.

Fixpoint build_descs (ds : list (str * str * list str * list (str * str))) : option (list Desc) :=
  match ds with
  | [] => Some []
  | (fq, help, vars, consts) :: r =>
      match desc_new fq help vars (amap_of consts), build_descs r with
      | Some d, Some l => Some (d :: l)
      | _, _ => None
      end
  end.
Definition desc_obs (d : Desc) := (d_fq_name d, d_help d, d_id d, d_dim d, d_const_pairs d, d_vars d).

(* ---------- the step function ---------- *)
Definition step (w : world) (o : op) : world * obs :=
  match o with
  | OpDesc fq help vars consts =>
      (w, ODesc (match desc_new fq help vars (amap_of consts) with
                 | Some d => Some (d_id d, d_dim d, d_const_pairs d)
                 | None => None
                 end))
  | OpFqName ns sub name => (w, OStr (build_fq_name ns sub name))
  | OpCounter k o =>
      match value_new o VCounter k [] with
      | Ok c => (push_slot (set_v w (w_v w ++ [c])) (HValue (length (w_v w))), ORes (Ok tt))
      | Err e => (push_slot w HDead, ORes (Err e))
      end
  | OpGauge k o =>
      match value_new o VGauge k [] with
      | Ok c => (push_slot (set_v w (w_v w ++ [c])) (HValue (length (w_v w))), ORes (Ok tt))
      | Err e => (push_slot w HDead, ORes (Err e))
      end
  | OpHistogram o =>
      match hcore_new o [] with
      | Ok c => (push_slot (set_h w (w_h w ++ [c])) (HHist (length (w_h w))), ORes (Ok tt))
      | Err e => (push_slot w HDead, ORes (Err e))
      end
  | OpCounterVec k o labels =>
      match vec_create (opts_with_vars o labels) (VKValue VCounter k) with
      | Ok v => (push_slot (set_vec w (w_vec w ++ [v])) (HVec (length (w_vec w))), ORes (Ok tt))
      | Err e => (push_slot w HDead, ORes (Err e))
      end
  | OpGaugeVec k o labels =>
      match vec_create (opts_with_vars o labels) (VKValue VGauge k) with
      | Ok v => (push_slot (set_vec w (w_vec w ++ [v])) (HVec (length (w_vec w))), ORes (Ok tt))
      | Err e => (push_slot w HDead, ORes (Err e))
      end
  | OpHistVec o labels =>
      match vec_create (opts_with_vars (ho_common o) labels) (VKHist (ho_buckets o)) with
      | Ok v => (push_slot (set_vec w (w_vec w ++ [v])) (HVec (length (w_vec w))), ORes (Ok tt))
      | Err e => (push_slot w HDead, ORes (Err e))
      end
  | OpWith s vals =>
      match slot w s with
      | HVec vi =>
          match nth_error (w_vec w) vi with
          | None => (push_slot w HDead, OBad)
          | Some v =>
              match hash_label_values (v_desc v) vals with
              | Err e => (push_slot w HDead, ORes (Err e))
              | Ok h => match vec_get_or_create w vi h vals with
                        | Ok (w', hd) => (push_slot w' hd, ORes (Ok tt))
                        | Err e => (push_slot w HDead, ORes (Err e))
                        end
              end
          end
      | _ => (push_slot w HDead, OBad)
      end
  | OpWithMap s kvs =>
      match slot w s with
      | HVec vi =>
          match nth_error (w_vec w) vi with
          | None => (push_slot w HDead, OBad)
          | Some v =>
              match hash_labels (v_desc v) (amap_of kvs) with
              | Err e => (push_slot w HDead, ORes (Err e))
              | Ok (h, vals) => match vec_get_or_create w vi h vals with
                                | Ok (w', hd) => (push_slot w' hd, ORes (Ok tt))
                                | Err e => (push_slot w HDead, ORes (Err e))
                                end
              end
          end
      | _ => (push_slot w HDead, OBad)
      end
  | OpRemove s vals =>
      match slot w s with
      | HVec vi =>
          match nth_error (w_vec w) vi with
          | None => (w, OBad)
          | Some v =>
              match hash_label_values (v_desc v) vals with
              | Err e => (w, ORes (Err e))
              | Ok h => match vec_delete w vi h with Ok w' => (w', ORes (Ok tt)) | Err e => (w, ORes (Err e)) end
              end
          end
      | _ => (w, OBad)
      end
  | OpRemoveMap s kvs =>
      match slot w s with
      | HVec vi =>
          match nth_error (w_vec w) vi with
          | None => (w, OBad)
          | Some v =>
              match hash_labels (v_desc v) (amap_of kvs) with
              | Err e => (w, ORes (Err e))
              | Ok (h, _) => match vec_delete w vi h with Ok w' => (w', ORes (Ok tt)) | Err e => (w, ORes (Err e)) end
              end
          end
      | _ => (w, OBad)
      end
  | OpReset s =>
      match slot w s with
      | HVec vi => (set_vec w (upd (w_vec w) vi (fun v => vec_set_children v [])), OUnit)
      | HValue c => (set_v w (upd (w_v w) c (fun vc => mkVCore (vc_desc vc) (vc_type vc)
                                        (match vc_val vc with VF _ => VF f_zero | VU _ => VU 0 | VI _ => VI 0%Z end)
                                        (vc_labels vc))), OUnit)
      | _ => (w, OBad)
      end
  | OpInc s | OpIncBy s _ | OpDec s | OpAdd s _ | OpSub s _ | OpSet s _ =>
      let f (cur : numval) : numval :=
        let one := match cur with VF _ => VF f_one | VU _ => VU 1 | VI _ => VI 1%Z end in
        match o with
        | OpInc _ => num_add cur one
        | OpIncBy _ d | OpAdd _ d => num_add cur d
        | OpDec _ => num_sub cur one
        | OpSub _ d => num_sub cur d
        | OpSet _ x => x
        | _ => cur
        end in
      match slot w s with
      | HValue c => (set_v w (upd (w_v w) c (fun vc => mkVCore (vc_desc vc) (vc_type vc) (f (vc_val vc)) (vc_labels vc))), OUnit)
      | HLocalCounter c val =>
          match o with
          | OpInc _ | OpIncBy _ _ => (put_slot w s (HLocalCounter c (f val)), OUnit)
          | _ => (w, OBad)
          end
      | _ => (w, OBad)
      end
  | OpGet s =>
      match slot w s with
      | HValue c => match nth_error (w_v w) c with Some vc => (w, ONum (vc_val vc)) | None => (w, OBad) end
      | HLocalCounter _ val => (w, ONum val)
      | _ => (w, OBad)
      end
  | OpObserve s v =>
      match slot w s with
      | HHist c => (set_h w (upd (w_h w) c (fun h => hc_observe h v)), OUnit)
      | HLocalHist c l => (put_slot w s (HLocalHist c (lh_observe (bounds_of w c) l v)), OUnit)
      | _ => (w, OBad)
      end
  | OpSampleSum s =>
      match slot w s with
      | HHist c => match nth_error (w_h w) c with Some h => (w, OF64 (hc_sample_sum h)) | None => (w, OBad) end
      | HLocalHist _ l => (w, OF64 (lh_sum l))
      | _ => (w, OBad)
      end
  | OpSampleCount s =>
      match slot w s with
      | HHist c => match nth_error (w_h w) c with Some h => (w, ON (hc_sample_count h)) | None => (w, OBad) end
      | HLocalHist _ l => (w, ON (lh_count l))
      | _ => (w, OBad)
      end
  | OpLocal s =>
      match slot w s with
      | HValue c => match nth_error (w_v w) c with
                    | Some vc => (push_slot w (HLocalCounter c (match vc_val vc with VF _ => VF f_zero | VU _ => VU 0 | VI _ => VI 0%Z end)), OUnit)
                    | None => (push_slot w HDead, OBad)
                    end
      | HHist c => (push_slot w (HLocalHist c (lh_new (length (bounds_of w c)))), OUnit)
      | HVec vi => match nth_error (w_vec w) vi with
                   | Some v => match v_kind v with
                               | VKValue _ _ => (push_slot w (HLocalCounterVec vi []), OUnit)
                               | VKHist _ => (push_slot w (HLocalHistVec vi []), OUnit)
                               end
                   | None => (push_slot w HDead, OBad)
                   end
      | _ => (push_slot w HDead, OBad)
      end
  | OpFlush s =>
      match slot w s with
      | HLocalCounter c val =>
          if num_is_zero val then (w, OUnit)
          else (put_slot (set_v w (upd (w_v w) c (fun vc => mkVCore (vc_desc vc) (vc_type vc) (num_add (vc_val vc) val) (vc_labels vc))))
                         s (HLocalCounter c (match val with VF _ => VF f_zero | VU _ => VU 0 | VI _ => VI 0%Z end)), OUnit)
      | HLocalHist c l => (put_slot (flush_lh w c l) s (HLocalHist c (lh_clear l)), OUnit)
      | HLocalCounterVec vi cache =>
          let w' := fold_left (fun w0 e => let '(_, (c, val)) := e in
                       if num_is_zero val then w0
                       else set_v w0 (upd (w_v w0) c (fun vc => mkVCore (vc_desc vc) (vc_type vc) (num_add (vc_val vc) val) (vc_labels vc))))
                     cache w in
          (put_slot w' s (HLocalCounterVec vi (map (fun e => let '(h, (c, val)) := e in
                          (h, (c, match val with VF _ => VF f_zero | VU _ => VU 0 | VI _ => VI 0%Z end))) cache)), OUnit)
      | HLocalHistVec vi cache =>
          let w' := fold_left (fun w0 e => let '(_, (c, l)) := e in flush_lh w0 c l) cache w in
          (put_slot w' s (HLocalHistVec vi (map (fun e => let '(h, (c, l)) := e in (h, (c, lh_clear l))) cache)), OUnit)
      | _ => (w, OBad)
      end
  | OpClear s =>
      match slot w s with
      | HLocalCounter c val => (put_slot w s (HLocalCounter c (match val with VF _ => VF f_zero | VU _ => VU 0 | VI _ => VI 0%Z end)), OUnit)
      | HLocalHist c l => (put_slot w s (HLocalHist c (lh_clear l)), OUnit)
      | _ => (w, OBad)
      end
  | OpClone s =>
      match slot w s with
      | HValue c => (push_slot w (HValue c), OUnit)
      | HHist c => (push_slot w (HHist c), OUnit)
      | HVec v => (push_slot w (HVec v), OUnit)
      | HRegistry r => (push_slot w (HRegistry r), OUnit)
      | HLocalCounter c val => (push_slot w (HLocalCounter c (match val with VF _ => VF f_zero | VU _ => VU 0 | VI _ => VI 0%Z end)), OUnit)
      | HLocalHist c l => (push_slot w (HLocalHist c (lh_clear l)), OUnit)
      | HLocalCounterVec v _ => (push_slot w (HLocalCounterVec v []), OUnit)
      | HLocalHistVec v _ => (push_slot w (HLocalHistVec v []), OUnit)
      | _ => (push_slot w HDead, OBad)
      end
  | OpDrop s =>
      match slot w s with
      | HLocalHist c l => (put_slot (flush_lh w c l) s HDead, OUnit)
      | HLocalHistVec vi cache =>
          (put_slot (fold_left (fun w0 e => let '(_, (c, l)) := e in flush_lh w0 c l) cache w) s HDead, OUnit)
      | HTimer _ | HLocalTimer _ _ | HDead => (w, OBad)     (* timers end through OpTimerStop *)
      | _ => (put_slot w s HDead, OUnit)
      end
  | OpLvInc s vals d =>
      match slot w s with
      | HLocalCounterVec vi cache =>
          match nth_error (w_vec w) vi with
          | None => (w, OBad)
          | Some v =>
              match hash_label_values (v_desc v) vals with
              | Err _ => (w, OPanic)
              | Ok h =>
                  match nlookup h cache with
                  | Some (c, val) =>
                      (put_slot w s (HLocalCounterVec vi (map (fun e => if fst e =? h then (h, (c, num_add val d)) else e) cache)), OUnit)
                  | None =>
                      match vec_get_or_create w vi h vals with
                      | Ok (w', HValue c) =>
                          (put_slot w' s (HLocalCounterVec vi (cache ++ [(h, (c, num_add (match d with VF _ => VF f_zero | VU _ => VU 0 | VI _ => VI 0%Z end) d))])), OUnit)
                      | _ => (w, OPanic)
                      end
                  end
              end
          end
      | _ => (w, OBad)
      end
  | OpLvObserve s vals x =>
      match slot w s with
      | HLocalHistVec vi cache =>
          match nth_error (w_vec w) vi with
          | None => (w, OBad)
          | Some v =>
              match hash_label_values (v_desc v) vals with
              | Err _ => (w, OPanic)
              | Ok h =>
                  match nlookup h cache with
                  | Some (c, l) =>
                      (put_slot w s (HLocalHistVec vi (map (fun e => if fst e =? h then (h, (c, lh_observe (bounds_of w c) l x)) else e) cache)), OUnit)
                  | None =>
                      match vec_get_or_create w vi h vals with
                      | Ok (w', HHist c) =>
                          (put_slot w' s (HLocalHistVec vi (cache ++ [(h, (c, lh_observe (bounds_of w' c) (lh_new (length (bounds_of w' c))) x))])), OUnit)
                      | _ => (w, OPanic)
                      end
                  end
              end
          end
      | _ => (w, OBad)
      end
  | OpLvRemove s vals =>
      match slot w s with
      | HLocalCounterVec vi cache =>
          match nth_error (w_vec w) vi with
          | None => (w, OBad)
          | Some v =>
              match hash_label_values (v_desc v) vals with
              | Err e => (w, ORes (Err e))
              | Ok h =>
                  let w1 := put_slot w s (HLocalCounterVec vi (nremove h cache)) in
                  match vec_delete w1 vi h with Ok w' => (w', ORes (Ok tt)) | Err e => (w1, ORes (Err e)) end
              end
          end
      | HLocalHistVec vi cache =>
          match nth_error (w_vec w) vi with
          | None => (w, OBad)
          | Some v =>
              match hash_label_values (v_desc v) vals with
              | Err e => (w, ORes (Err e))
              | Ok h =>
                  (* dropping the cached local histogram flushes it into the child first *)
                  let w0 := match nlookup h cache with Some (c, l) => flush_lh w c l | None => w end in
                  let w1 := put_slot w0 s (HLocalHistVec vi (nremove h cache)) in
                  match vec_delete w1 vi h with Ok w' => (w', ORes (Ok tt)) | Err e => (w1, ORes (Err e)) end
              end
          end
      | _ => (w, OBad)
      end
  | OpTimer s =>
      match slot w s with
      | HHist c => (push_slot w (HTimer c), OUnit)
      | HLocalHist c l => (push_slot w (HLocalTimer c (lh_clear l)), OUnit)
      | _ => (push_slot w HDead, OBad)
      end
  | OpTimerStop s m secs nanos =>
      let e := as_secs_f64 secs nanos in
      let ret := match m with TRecord | TDiscard => OF64 e | _ => OUnit end in
      match slot w s with
      | HTimer c =>
          match m with
          | TDiscard => (put_slot w s HDead, ret)
          | _ => (put_slot (set_h w (upd (w_h w) c (fun h => hc_observe h e))) s HDead, ret)
          end
      | HLocalTimer c l =>
          (* the timer's private local histogram observes (unless discarded) and is then dropped,
             which flushes it into the shared histogram *)
          match m with
          | TDiscard => (put_slot (flush_lh w c l) s HDead, ret)
          | _ => (put_slot (flush_lh w c (lh_observe (bounds_of w c) l e)) s HDead, ret)
          end
      | _ => (w, OBad)
      end
  | OpClosure s secs nanos =>
      let e := as_secs_f64 secs nanos in
      match slot w s with
      | HHist c => (set_h w (upd (w_h w) c (fun h => hc_observe h e)), OUnit)
      | HLocalHist c l => (put_slot w s (HLocalHist c (lh_observe (bounds_of w c) l e)), OUnit)
      | _ => (w, OBad)
      end
  | OpRegistry prefix labels =>
      match reg_new_custom prefix (match labels with Some l => Some (amap_of l) | None => None end) with
      | Ok r => (push_slot (set_reg w (w_reg w ++ [r])) (HRegistry (length (w_reg w))), ORes (Ok tt))
      | Err e => (push_slot w HDead, ORes (Err e))
      end
  | OpRegister r s =>
      match slot w r, collector_of w (slot w s) with
      | HRegistry ri, Some (c, ds) =>
          match nth_error (w_reg w) ri with
          | None => (w, OBad)
          | Some rc => match reg_register rc ds c with
                       | Ok rc' => (set_reg w (list_set (w_reg w) ri rc'), ORes (Ok tt))
                       | Err e => (w, ORes (Err e))
                       end
          end
      | _, _ => (w, OBad)
      end
  | OpUnregister r s =>
      match slot w r, collector_of w (slot w s) with
      | HRegistry ri, Some (_, ds) =>
          match nth_error (w_reg w) ri with
          | None => (w, OBad)
          | Some rc => match reg_unregister rc ds with
                       | Ok rc' => (set_reg w (list_set (w_reg w) ri rc'), ORes (Ok tt))
                       | Err e => (w, ORes (Err e))
                       end
          end
      | _, _ => (w, OBad)
      end
  | OpGather r =>
      match slot w r with
      | HRegistry ri =>
          match nth_error (w_reg w) ri with
          | None => (w, OBad)
          | Some rc => match collect_all w (r_collectors rc) with
                       | None => (w, OHung)
                       | Some (fs, w') => (w', OFams (gather_families (r_prefix rc) (r_labels rc) fs))
                       end
          end
      | _ => (w, OBad)
      end
  | OpCustom ds fams =>
      match build_descs ds with
      | Some l => (push_slot w (HCustom l fams), ORes (Ok tt))
      | None => (push_slot w HDead, ORes (Err EMsg))
      end
  | OpPulling name help v =>
      match desc_new name help [] [] with
      | Some d => (push_slot w (HPulling d v), ORes (Ok tt))
      | None => (push_slot w HDead, ORes (Err EMsg))
      end
  | OpCollect s =>
      match collector_of w (slot w s) with
      | Some (c, _) => match collect_collector w c with
                       | Some (fs, w') => (w', OFamsU fs)
                       | None => (w, OHung)
                       end
      | None => (w, OBad)
      end
  | OpDescOf s =>
      match collector_of w (slot w s) with
      | Some (_, ds) => (w, ODescs (map desc_obs ds))
      | None => (w, OBad)
      end
  | OpLinearBuckets start width count => (w, OBuckets (linear_buckets start width (N.to_nat count)))
  | OpExpBuckets start factor count => (w, OBuckets (exponential_buckets start factor (N.to_nat count)))
  end.

Fixpoint run (w : world) (ops : list op) : list obs :=
  match ops with
  | [] => []
  | o :: r => let '(w', ob) := step w o in ob :: run w' r
  end.
Fixpoint run_world (w : world) (ops : list op) : world :=
  match ops with [] => w | o :: r => run_world (fst (step w o)) r end.

(* ---------- comparing observations ---------- *)
Fixpoint remove_first {A} (e : A -> A -> bool) (x : A) (l : list A) : option (list A) :=
  match l with
  | [] => None
  | y :: t => if e x y then Some t else match remove_first e x t with Some t' => Some (y :: t') | None => None end
  end.
Fixpoint multiset_eqb {A} (e : A -> A -> bool) (a b : list A) : bool :=
  match a with
  | [] => is_nil b
  | x :: a' => match remove_first e x b with Some b' => multiset_eqb e a' b' | None => false end
  end.
Definition mf_eqb_u (a b : MetricFamily) : bool :=
  str_eqb (mf_name a) (mf_name b) && str_eqb (mf_help a) (mf_help b) && mtype_eqb (mf_type a) (mf_type b)
  && multiset_eqb metric_eqb (mf_metric a) (mf_metric b).
Definition res_eqb (a b : result unit) : bool :=
  match a, b with Ok _, Ok _ => true | Err e, Err e' => err_eqb e e' | _, _ => false end.
Definition desc_obs_eqb (a b : str * str * N * N * list LabelPair * list str) : bool :=
  let '(n, h, i, d, cp, vs) := a in let '(n', h', i', d', cp', vs') := b in
  str_eqb n n' && str_eqb h h' && (i =? i') && (d =? d') && list_eqb lp_eqb cp cp' && list_eqb str_eqb vs vs'.
Definition obs_eqb (a b : obs) : bool :=
  match a, b with
  | OUnit, OUnit => true
  | ORes x, ORes y => res_eqb x y
  | ONum x, ONum y => numval_eqb x y
  | OF64 x, OF64 y => f64_eqb x y
  | ON x, ON y => x =? y
  | OStr x, OStr y => str_eqb x y
  | ODesc x, ODesc y => opt_eqb (fun p q => let '(i, d, c) := p in let '(i', d', c') := q in
                                            (i =? i') && (d =? d') && list_eqb lp_eqb c c') x y
  | ODescs x, ODescs y => list_eqb desc_obs_eqb x y
  | OFams x, OFams y => list_eqb mf_eqb x y
  | OFamsU x, OFamsU y => list_eqb mf_eqb_u x y
  | OBuckets x, OBuckets y => opt_eqb (list_eqb f64_eqb) x y
  | OHung, OHung => true
  | OPanic, OPanic => true
  | OBad, OBad => true      (* both sides agree the step is ill-typed (a dead slot after a refused constructor) *)
  | _, _ => false
  end.
(* index of the first step whose observations differ, or None *)
Fixpoint first_diff (i : N) (a b : list obs) : option N :=
  match a, b with
  | [], [] => None
  | x :: a', y :: b' => if obs_eqb x y then first_diff (i + 1) a' b' else Some i
  | _, _ => Some i
  end.
