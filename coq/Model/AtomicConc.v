(* One 64-bit atomic cell shared by any number of threads: the model behind Counter / IntCounter /
   Gauge / IntGauge (src/atomic64.rs, src/value.rs, src/counter.rs, src/gauge.rs).

   Integer flavour (AtomicU64 / AtomicI64; the cell is the 64-bit pattern, u64 and two's complement
   i64 arithmetic coincide modulo 2^64):
       inc / inc_by d / add d = one fetch_add            dec / sub d = one fetch_sub
       get = one load      set x = one store      reset = store 0
   Float flavour (AtomicF64: an AtomicU64 holding the bit pattern of an f64):
       inc_by d = loop { cur := load; compare_exchange_weak cur (cur + d) ; until it succeeds }
                  the compare-exchange may fail because the cell changed or spuriously
       dec_by d = inc_by (-d)       get = load      set x = store (bits x)      reset = store (bits 0.0)
   Local counter flush: if the accumulated amount is zero (`== 0`, so -0.0 counts as zero) nothing is done,
   otherwise inc_by amount; the amount is then zeroed (thread private: it only shows as "a second flush performs
   no shared step").

   Values: the model is generic in a dictionary `vops` (value type, conversions from / to the 64-bit pattern,
   arithmetic).  Two instances: IntOps (N modulo 2^64) and FloatOps (Coq's primitive binary64 floats; Coq has
   ONE NaN, so patterns reported by the implementation are canonicalised `to_bits (of_bits b)` before they are
   compared; the compare-exchange of the model compares Leibniz-equal floats, i.e. canonical patterns).

   `aexec` is the executable small-step semantics, driven by the events of Model/Conc.v: an event is accepted iff it
   is the next step of that thread in the model, with exactly the reported kind, value before, value after and
   success flag, and every return marker carries the model's return value.  The set of event lists accepted from
   `ainit` IS the set of executions of the model (all interleavings, all programs, any number of threads, all
   spurious failures); the theorems of Proofs/AtomicConcFacts.v quantify over it.  Memory orderings are carried by the
   events but are NOT part of the acceptance condition (with a single cell every ordering gives the same
   behaviours in this interleaving model: the proofs do not depend on them); `ord_pinned` says whether an event carries the
   ordering written in the pinned source (reported by the check as information).

   Ghost bookkeeping (does not influence acceptance): the abstract sequential-specification state `g_abs`, the history
   `g_hist` of invocation / linearisation / response marks (newest first), the calls invoked but not yet linearised
   `g_pend`.  A thread whose call has linearised is in state `TDone`.  Definitions only. *)
Require Import PV.Base.Prelude PV.Base.F64 PV.Model.Conc.
Open Scope N_scope.

(* ------------------------------------------------------------------ values *)
Record vops := mkOps {
  V : Type;
  of_bits : N -> V;            (* decode a 64-bit pattern *)
  to_bits : V -> N;            (* canonical 64-bit pattern *)
  veqb : V -> V -> bool;       (* what compare_exchange compares (canonical patterns) *)
  vzero : V; vone : V;
  vadd : V -> V -> V;
  vsub : V -> V -> V;
  vneg : V -> V;
  vis_zero : V -> bool;        (* `== 0` of the local counter's flush *)
  use_cas : bool               (* additions are a load / compare-exchange loop (float) or one fetch_add / fetch_sub (int) *)
}.

Definition IntOps : vops :=
  {| V := N; of_bits := wrap64; to_bits := fun x => x; veqb := N.eqb; vzero := 0; vone := 1;
     vadd := fun a b => wrap64 (a + b);
     vsub := fun a b => wrap64 (a + (two64 - wrap64 b));
     vneg := fun b => wrap64 (two64 - wrap64 b);
     vis_zero := fun a => a =? 0; use_cas := false |}.

Definition FloatOps : vops :=
  {| V := f64; of_bits := bits2f; to_bits := f2bits; veqb := PrimFloat.Leibniz.eqb; vzero := 0%float; vone := 1%float;
     vadd := PrimFloat.add; vsub := PrimFloat.sub; vneg := PrimFloat.opp;
     vis_zero := fun a => PrimFloat.eqb a 0%float; use_cas := true |}.

Inductive flavour := FlInt | FlFloat.

(* ------------------------------------------------------------------ sequential specification *)
(* what one call does when executed alone (doc comments of counter.rs / gauge.rs) *)
Definition spec_step (O : vops) (s : V O) (c : call) : option (V O * retv) :=
  match c with
  | CGet => Some (s, RVal (to_bits O s))
  | CReset => Some (vzero O, RUnit)
  | CSet b => Some (of_bits O b, RUnit)
  | CInc => Some (vadd O s (vone O), RUnit)
  | CDec => Some (vsub O s (vone O), RUnit)
  | CAdd b => Some (vadd O s (of_bits O b), RUnit)
  | CSub b => Some (vsub O s (of_bits O b), RUnit)
  | CFlush b => Some (if vis_zero O (of_bits O b) then s else vadd O s (of_bits O b), RUnit)
  | _ => None
  end.

(* replay a list of calls on the specification: final state and the list of returned values *)
Fixpoint spec_run (O : vops) (s : V O) (cs : list call) : option (V O * list retv) :=
  match cs with
  | [] => Some (s, [])
  | c :: r =>
      match spec_step O s c with
      | Some (s1, x) => match spec_run O s1 r with Some (s2, xs) => Some (s2, x :: xs) | None => None end
      | None => None
      end
  end.

(* ------------------------------------------------------------------ what the code does for a call *)
Inductive plan (O : vops) :=
| PNoop                      (* flush of a zero amount: no shared step *)
| PRmwAdd (d : V O)          (* one fetch_add *)
| PRmwSub (d : V O)          (* one fetch_sub *)
| PStore (v : V O)
| PLoad
| PLoop (d : V O).           (* load / compare_exchange_weak loop adding d *)
Arguments PNoop {O}. Arguments PRmwAdd {O}. Arguments PRmwSub {O}. Arguments PStore {O}. Arguments PLoad {O}. Arguments PLoop {O}.

Definition adder (O : vops) (d : V O) : plan O := if use_cas O then PLoop d else PRmwAdd d.
(* AtomicF64::dec_by(d) = inc_by(-d);  AtomicI64::dec_by(d) = fetch_sub(d) *)
Definition subber (O : vops) (d : V O) : plan O := if use_cas O then PLoop (vneg O d) else PRmwSub d.

Definition plan_of (O : vops) (c : call) : option (plan O) :=
  match c with
  | CGet => Some PLoad
  | CReset => Some (PStore (vzero O))
  | CSet b => Some (PStore (of_bits O b))
  | CInc => Some (adder O (vone O))
  | CDec => Some (subber O (vone O))
  | CAdd b => Some (adder O (of_bits O b))
  | CSub b => Some (subber O (of_bits O b))
  | CFlush b => if vis_zero O (of_bits O b) then Some PNoop else Some (adder O (of_bits O b))
  | _ => None
  end.

(* ------------------------------------------------------------------ state *)
Inductive tstate (O : vops) :=
| TIdle
| TCalled (c : call)                  (* invoked; the next step is the call's (next) first shared step *)
| TCas (c : call) (d cur : V O)       (* float addition: `cur` was loaded, the compare-exchange is next *)
| TDone (c : call) (r : retv).        (* linearised; r = the value the model returns; the return marker is next *)
Arguments TIdle {O}. Arguments TCalled {O}. Arguments TCas {O}. Arguments TDone {O}.

Inductive mark :=
| MInv (t : nat) (c : call)
| MLin (t : nat) (c : call) (r : retv)     (* r = what the sequential specification returns at this point *)
| MRes (t : nat) (c : call) (r : retv).    (* r = what the model (and the implementation) returned *)

Record astate (O : vops) := mkA {
  cell : V O;
  thr : nat -> tstate O;
  g_abs : V O;
  g_hist : list mark;                 (* newest first *)
  g_pend : list (nat * call)          (* invoked, not yet linearised *)
}.
Arguments cell {O}. Arguments thr {O}. Arguments g_abs {O}. Arguments g_hist {O}. Arguments g_pend {O}. Arguments mkA {O}.

Definition upd {A} (f : nat -> A) (t : nat) (x : A) : nat -> A := fun u => if Nat.eqb u t then x else f u.
Definition drop_thread (t : nat) (l : list (nat * call)) : list (nat * call) :=
  filter (fun p => negb (Nat.eqb (fst p) t)) l.

Definition ainit (O : vops) : astate O :=
  {| cell := vzero O; thr := fun _ => TIdle; g_abs := vzero O; g_hist := []; g_pend := [] |}.

(* the call of thread t takes effect now: the cell becomes v, the model will return mr, the specification
   moves to a and returns r *)
Definition lin_state (O : vops) (s : astate O) (t : nat) (c : call) (v : V O) (mr : retv) (inv : list mark) (a : V O) (r : retv) : astate O :=
  {| cell := v; thr := upd (thr s) t (TDone c mr); g_abs := a;
     g_hist := MLin t c r :: inv ++ g_hist s; g_pend := drop_thread t (g_pend s) |}.
Definition linearise (O : vops) (s : astate O) (t : nat) (c : call) (v : V O) (mr : retv) (inv : list mark) : option (astate O) :=
  match spec_step O (g_abs s) c with
  | Some (a, r) => Some (lin_state O s t c v mr inv a r)
  | None => None
  end.

(* reported pattern b is the canonical pattern of v *)
Definition same_bits (O : vops) (b : N) (v : V O) : bool := to_bits O (of_bits O b) =? to_bits O v.
Definition retv_matches (O : vops) (reported model : retv) : bool :=
  match reported, model with
  | RUnit, RUnit => true
  | RVal a, RVal b => to_bits O (of_bits O a) =? b
  | _, _ => false
  end.

(* calls made of ONE shared step: kind of the step, value written, value returned *)
Definition one_step (O : vops) (p : plan O) (cur : V O) : option (akind * V O * retv) :=
  match p with
  | PRmwAdd d => Some (KFetchAdd, vadd O cur d, RUnit)
  | PRmwSub d => Some (KFetchSub, vsub O cur d, RUnit)
  | PStore v => Some (KStore, v, RUnit)
  | PLoad => Some (KLoad, cur, RVal (to_bits O cur))
  | _ => None
  end.

(* ------------------------------------------------------------------ the step function *)
Definition aexec (O : vops) (s : astate O) (e : event) : option (astate O) :=
  match e with
  | ECall t c =>
      match thr s t, plan_of O c with
      | TIdle, Some PNoop =>
          (* no shared step: takes effect (as a no-op of the specification) at the invocation *)
          linearise O s t c (cell s) RUnit [MInv t c]
      | TIdle, Some _ =>
          Some {| cell := cell s; thr := upd (thr s) t (TCalled c); g_abs := g_abs s;
                  g_hist := MInv t c :: g_hist s; g_pend := (t, c) :: g_pend s |}
      | _, _ => None
      end
  | ERet t r =>
      match thr s t with
      | TDone c mr =>
          if retv_matches O r mr then
            Some {| cell := cell s; thr := upd (thr s) t TIdle; g_abs := g_abs s;
                    g_hist := MRes t c mr :: g_hist s; g_pend := g_pend s |}
          else None
      | _ => None
      end
  | EAt t cl k o o2 before after ok =>
      if negb (cl =? 0) then None else
      if negb (same_bits O before (cell s)) then None else
      match thr s t with
      | TCalled c =>
          match plan_of O c with
          | Some (PLoop d) =>
              (* the load of the loop: a stuttering step *)
              if akind_eqb k KLoad && same_bits O after (cell s) && ok
              then Some {| cell := cell s; thr := upd (thr s) t (TCas c d (cell s)); g_abs := g_abs s;
                           g_hist := g_hist s; g_pend := g_pend s |}
              else None
          | Some p =>
              match one_step O p (cell s) with
              | Some (k1, v, mr) =>
                  if akind_eqb k k1 && same_bits O after v && ok then linearise O s t c v mr [] else None
              | None => None
              end
          | None => None
          end
      | TCas c d cur =>
          if negb (akind_eqb k KCasWeak) then None else
          if ok then
            (* success: only if the cell still holds what was loaded; writes cur + d *)
            let v := vadd O cur d in
            if veqb O (cell s) cur && same_bits O after v then linearise O s t c v RUnit [] else None
          else
            (* failure (the cell changed, or spuriously): nothing is written; back to the load *)
            if same_bits O after (cell s)
            then Some {| cell := cell s; thr := upd (thr s) t (TCalled c); g_abs := g_abs s;
                         g_hist := g_hist s; g_pend := g_pend s |}
            else None
      | _ => None
      end
  | _ => None
  end.

(* ------------------------------------------------------------------ the same steps as a relation *)
Definition is_noop {O} (p : plan O) : bool := match p with PNoop => true | _ => false end.

Inductive astep (O : vops) : astate O -> event -> astate O -> Prop :=
| S_call s t c p :
    thr s t = TIdle -> plan_of O c = Some p -> is_noop p = false ->
    astep O s (ECall t c)
          {| cell := cell s; thr := upd (thr s) t (TCalled c); g_abs := g_abs s;
             g_hist := MInv t c :: g_hist s; g_pend := (t, c) :: g_pend s |}
| S_call_noop s t c a r :
    thr s t = TIdle -> plan_of O c = Some PNoop -> spec_step O (g_abs s) c = Some (a, r) ->
    astep O s (ECall t c) (lin_state O s t c (cell s) RUnit [MInv t c] a r)
| S_atomic s t c p k v mr o o2 before after a r :
    thr s t = TCalled c -> plan_of O c = Some p -> one_step O p (cell s) = Some (k, v, mr) ->
    same_bits O before (cell s) = true -> same_bits O after v = true ->
    spec_step O (g_abs s) c = Some (a, r) ->
    astep O s (EAt t 0 k o o2 before after true) (lin_state O s t c v mr [] a r)
| S_loop_load s t c d o o2 before after :
    thr s t = TCalled c -> plan_of O c = Some (PLoop d) ->
    same_bits O before (cell s) = true -> same_bits O after (cell s) = true ->
    astep O s (EAt t 0 KLoad o o2 before after true)
          {| cell := cell s; thr := upd (thr s) t (TCas c d (cell s)); g_abs := g_abs s; g_hist := g_hist s; g_pend := g_pend s |}
| S_cas_ok s t c d cur o o2 before after a r :
    thr s t = TCas c d cur -> veqb O (cell s) cur = true ->
    same_bits O before (cell s) = true -> same_bits O after (vadd O cur d) = true ->
    spec_step O (g_abs s) c = Some (a, r) ->
    astep O s (EAt t 0 KCasWeak o o2 before after true) (lin_state O s t c (vadd O cur d) RUnit [] a r)
| S_cas_fail s t c d cur o o2 before after :
    (* the cell changed, or a spurious failure: allowed in every state *)
    thr s t = TCas c d cur ->
    same_bits O before (cell s) = true -> same_bits O after (cell s) = true ->
    astep O s (EAt t 0 KCasWeak o o2 before after false)
          {| cell := cell s; thr := upd (thr s) t (TCalled c); g_abs := g_abs s; g_hist := g_hist s; g_pend := g_pend s |}
| S_ret s t c mr r :
    thr s t = TDone c mr -> retv_matches O r mr = true ->
    astep O s (ERet t r)
          {| cell := cell s; thr := upd (thr s) t TIdle; g_abs := g_abs s; g_hist := MRes t c mr :: g_hist s; g_pend := g_pend s |}.

Inductive asteps (O : vops) : astate O -> list event -> astate O -> Prop :=
| AS_nil s : asteps O s [] s
| AS_cons s e s1 es s2 : astep O s e s1 -> asteps O s1 es s2 -> asteps O s (e :: es) s2.

Fixpoint arun (O : vops) (s : astate O) (es : list event) : option (astate O) :=
  match es with
  | [] => Some s
  | e :: r => match aexec O s e with Some s1 => arun O s1 r | None => None end
  end.

(* a complete trace: accepted, and every thread has returned *)
Definition threads_of (es : list event) : list nat :=
  flat_map (fun e => match e with ECall t _ => [t] | _ => [] end) es.
Definition is_idle {O} (x : tstate O) : bool := match x with TIdle => true | _ => false end.
Definition trace_ok (O : vops) (es : list event) : bool :=
  match validate (aexec O) (ainit O) 0 es with
  | (None, s) => forallb (fun t => is_idle (thr s t)) (threads_of es)
  | _ => false
  end.
Definition ops_of (fl : flavour) : vops := match fl with FlInt => IntOps | FlFloat => FloatOps end.
Definition trace_ok_fl (c : flavour * list event) : bool :=
  match fst c with FlInt => trace_ok IntOps (snd c) | FlFloat => trace_ok FloatOps (snd c) end.
(* index of the first rejected event, for diagnostics *)
Definition first_reject (c : flavour * list event) : option N :=
  match fst c with
  | FlInt => fst (validate (aexec IntOps) (ainit IntOps) 0 (snd c))
  | FlFloat => fst (validate (aexec FloatOps) (ainit FloatOps) 0 (snd c))
  end.

(* ------------------------------------------------------------------ orderings written in the pinned source *)
(* AtomicF64::inc_by: load Acquire, compare_exchange_weak Release / Relaxed; everything else Relaxed. *)
Definition ord_eqb (a b : ord) : bool :=
  match a, b with Relaxed, Relaxed | Acquire, Acquire | Release, Release | AcqRel, AcqRel | SeqCst, SeqCst => true | _, _ => false end.
Definition ord_pinned (in_loop : bool) (e : event) : bool :=
  match e with
  | EAt _ _ KCasWeak o (Some o2) _ _ _ => ord_eqb o Release && ord_eqb o2 Relaxed
  | EAt _ _ KLoad o None _ _ _ => ord_eqb o (if in_loop then Acquire else Relaxed)
  | EAt _ _ _ o None _ _ _ => ord_eqb o Relaxed
  | EAt _ _ _ _ _ _ _ _ => false
  | _ => true
  end.

(* ------------------------------------------------------------------ histories *)
Inductive phase := PIdle | PInv (c : call) | PLin (c : call) (r : retv).

Definition call_eqb (a b : call) : bool :=
  match a, b with
  | CInc, CInc | CDec, CDec | CGet, CGet | CReset, CReset => true
  | CAdd x, CAdd y | CSub x, CSub y | CSet x, CSet y | CFlush x, CFlush y => x =? y
  | _, _ => false
  end.
Definition retv_eqb (a b : retv) : bool :=
  match a, b with RUnit, RUnit => true | RVal x, RVal y => x =? y | _, _ => false end.

(* per-thread shape: invocation, linearisation, response (carrying the linearisation's value), repeated *)
Definition phase_step (ph : nat -> phase) (m : mark) : option (nat -> phase) :=
  match m with
  | MInv t c => match ph t with PIdle => Some (upd ph t (PInv c)) | _ => None end
  | MLin t c r => match ph t with PInv c' => if call_eqb c c' then Some (upd ph t (PLin c r)) else None | _ => None end
  | MRes t c r => match ph t with
                  | PLin c' r' => if call_eqb c c' && retv_eqb r r' then Some (upd ph t PIdle) else None
                  | _ => None
                  end
  end.
Fixpoint phases (ph : nat -> phase) (h : list mark) : option (nat -> phase) :=
  match h with
  | [] => Some ph
  | m :: r => match phase_step ph m with Some ph1 => phases ph1 r | None => None end
  end.
Definition hist_wf (h : list mark) : Prop := exists ph, phases (fun _ => PIdle) h = Some ph.

Definition lin_calls (h : list mark) : list call :=
  flat_map (fun m => match m with MLin _ c _ => [c] | _ => [] end) h.
Definition lin_rets (h : list mark) : list retv :=
  flat_map (fun m => match m with MLin _ _ r => [r] | _ => [] end) h.
Definition lin_tcalls (h : list mark) : list (nat * call) :=
  flat_map (fun m => match m with MLin t c _ => [(t, c)] | _ => [] end) h.
Definition inv_tcalls (h : list mark) : list (nat * call) :=
  flat_map (fun m => match m with MInv t c => [(t, c)] | _ => [] end) h.

(* projection on the call / return markers: of a trace and of a history *)
Definition canon_retv (O : vops) (r : retv) : retv :=
  match r with RVal b => RVal (to_bits O (of_bits O b)) | x => x end.
Definition proj_ev (O : vops) (es : list event) : list (nat * (call + retv)) :=
  flat_map (fun e => match e with ECall t c => [(t, inl c)] | ERet t r => [(t, inr (canon_retv O r))] | _ => [] end) es.
Definition proj_hist (h : list mark) : list (nat * (call + retv)) :=
  flat_map (fun m => match m with MInv t c => [(t, inl c)] | MRes t _ r => [(t, inr r)] | MLin _ _ _ => [] end) h.

(* the k-th invocation / linearisation / response of thread t is at index i of the history *)
Definition is_inv (t : nat) (m : mark) : bool := match m with MInv u _ => Nat.eqb u t | _ => false end.
Definition is_lin (t : nat) (m : mark) : bool := match m with MLin u _ _ => Nat.eqb u t | _ => false end.
Definition is_res (t : nat) (m : mark) : bool := match m with MRes u _ _ => Nat.eqb u t | _ => false end.
Definition count {A} (p : A -> bool) (l : list A) : nat := length (filter p l).
Definition kth (p : mark -> bool) (h : list mark) (k i : nat) : Prop :=
  (exists m, nth_error h i = Some m /\ p m = true) /\ count p (firstn i h) = k.
Definition at_inv (h : list mark) (t k i : nat) : Prop := kth (is_inv t) h k i.
Definition at_lin (h : list mark) (t k i : nat) : Prop := kth (is_lin t) h k i.
Definition at_res (h : list mark) (t k i : nat) : Prop := kth (is_res t) h k i.

(* ------------------------------------------------------------------ the local counter (thread private) *)
(* GenericLocalCounter: inc_by accumulates, flush issues one CFlush with the accumulated amount and zeroes it *)
Definition local_inc (O : vops) (val d : V O) : V O := vadd O val d.
Definition local_flush (O : vops) (val : V O) : call * V O := (CFlush (to_bits O val), vzero O).

(* ------------------------------------------------------------------ schedule-driven form *)
(* A schedule element: the thread to run, the call it makes if it is idle, whether a compare-exchange fails
   spuriously.  `next_event` is the event the model produces. *)
Record choice := { ch_t : nat; ch_call : call; ch_spur : bool }.
Definition next_event (O : vops) (s : astate O) (ch : choice) : option event :=
  let t := ch_t ch in
  let b := to_bits O (cell s) in
  match thr s t with
  | TIdle => match plan_of O (ch_call ch) with Some _ => Some (ECall t (ch_call ch)) | None => None end
  | TDone c mr => Some (ERet t mr)
  | TCalled c =>
      match plan_of O c with
      | Some (PRmwAdd d) => Some (EAt t 0 KFetchAdd Relaxed None b (to_bits O (vadd O (cell s) d)) true)
      | Some (PRmwSub d) => Some (EAt t 0 KFetchSub Relaxed None b (to_bits O (vsub O (cell s) d)) true)
      | Some (PStore v) => Some (EAt t 0 KStore Relaxed None b (to_bits O v) true)
      | Some PLoad => Some (EAt t 0 KLoad Relaxed None b b true)
      | Some (PLoop d) => Some (EAt t 0 KLoad Acquire None b b true)
      | _ => None
      end
  | TCas c d cur =>
      if negb (ch_spur ch) && veqb O (cell s) cur
      then Some (EAt t 0 KCasWeak Release (Some Relaxed) b (to_bits O (vadd O cur d)) true)
      else Some (EAt t 0 KCasWeak Release (Some Relaxed) b b false)
  end.
(* run a schedule: choices that are not enabled (unsupported call) are skipped *)
Fixpoint run_sched (O : vops) (s : astate O) (sch : list choice) : astate O * list event :=
  match sch with
  | [] => (s, [])
  | ch :: r =>
      match next_event O s ch with
      | Some e => match aexec O s e with
                  | Some s1 => let '(s2, es) := run_sched O s1 r in (s2, e :: es)
                  | None => run_sched O s r
                  end
      | None => run_sched O s r
      end
  end.
