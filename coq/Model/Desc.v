(* src/desc.rs and the name helpers of src/metrics.rs (definitions). *)
Require Import PV.Base.Prelude PV.Base.Utf8 PV.Base.Fnv PV.Model.Proto.
Open Scope N_scope.

Definition is_ascii_alpha (c : N) : bool := ((0x41 <=? c) && (c <=? 0x5A)) || ((0x61 <=? c) && (c <=? 0x7A)).
Definition is_ascii_digit (c : N) : bool := (0x30 <=? c) && (c <=? 0x39).
Definition cs_nocolon (c : N) : bool := is_ascii_alpha c || (c =? 0x5F).
Definition cs_colon (c : N) : bool := cs_nocolon c || (c =? 0x3A).
Definition is_valid_ident (cs : N -> bool) (s : str) : bool :=
  match s with
  | [] => false
  | c :: r => cs c && forallb (fun x => cs x || is_ascii_digit x) r
  end.
Definition is_valid_metric_name : str -> bool := is_valid_ident cs_colon.
Definition is_valid_label_name : str -> bool := is_valid_ident cs_nocolon.

Definition USCORE : N := 0x5F.
Definition DOLLAR : N := 0x24.

(* metrics.rs build_fq_name *)
Definition build_fq_name (namespace subsystem name : str) : str :=
  if is_nil name then []
  else match is_nil namespace, is_nil subsystem with
       | false, false => namespace ++ [USCORE] ++ subsystem ++ [USCORE] ++ name
       | false, true => namespace ++ [USCORE] ++ name
       | true, false => subsystem ++ [USCORE] ++ name
       | true, true => name
       end.

Record Desc := mkDesc {
  d_fq_name : str; d_help : str;
  d_const_pairs : list LabelPair;     (* sorted by name *)
  d_vars : list str;
  d_id : N; d_dim : N }.

Definition lp_leb (a b : LabelPair) : bool := str_leb (lp_name a) (lp_name b).

(* the byte strings fed to the two hashers *)
Definition id_preimage (fq_name : str) (const_vals_in_name_order : list str) : list N :=
  enc_sep (fq_name :: const_vals_in_name_order).
Definition dim_preimage (help : str) (sorted_names : list str) : list N :=
  enc_sep (help :: sorted_names).

(* BTreeSet<String> as a strictly sorted list *)
Definition set_insert (x : str) (l : list str) : list str :=
  if mem_str x l then l else insert_by str_leb x l.

(* adding the variable labels: validity, then duplicate check against the constant names
   (unprefixed) and the '$'-prefixed variable names already in the set *)
Fixpoint add_vars (vs : list str) (set : list str) : option (list str) :=
  match vs with
  | [] => Some set
  | v :: r =>
      if negb (is_valid_label_name v) then None
      else if mem_str v set || mem_str (DOLLAR :: v) set then None
      else add_vars r (set_insert (DOLLAR :: v) set)
  end.

(* Desc::new.  [consts] is the HashMap<String,String> given as an association list with
   distinct keys in an arbitrary order. *)
Definition desc_new (fq_name help : str) (vars : list str) (consts : list (str * str)) : option Desc :=
  if is_nil help then None
  else if negb (is_valid_metric_name fq_name) then None
  else if negb (forallb (fun kv => is_valid_label_name (fst kv)) consts) then None
  else
    let cnames := sort_by str_leb (map fst consts) in
    match add_vars vars cnames with
    | None => None
    | Some names =>
        let cvals := map (fun k => match alookup k consts with Some v => v | None => [] end) cnames in
        Some (mkDesc fq_name help
                (sort_by lp_leb (map (fun kv => mkLP (fst kv) (snd kv)) consts))
                vars
                (fnv1a (id_preimage fq_name cvals))
                (fnv1a (dim_preimage help names)))
    end.

(* Opts *)
Record Opts := mkOpts {
  o_namespace : str; o_subsystem : str; o_name : str; o_help : str;
  o_consts : list (str * str);   (* HashMap: distinct keys *)
  o_vars : list str }.
Definition opts_fq_name (o : Opts) : str := build_fq_name (o_namespace o) (o_subsystem o) (o_name o).
Definition describe (o : Opts) : option Desc := desc_new (opts_fq_name o) (o_help o) (o_vars o) (o_consts o).
